// C15 -- hex and Base64 codecs round-trip and decode strictly within capacity.
// Oracle: ref/codecs.hpp (table-driven encoder, strict decoder model).
#include "vh_main.hpp"
#include "giant.hpp"
#include "codecs.hpp"
using namespace vh;

namespace {

const int CODECS[] = { 0 /*hex*/, 1, 3, 5, 7 };
const char *IGN[] = { nullptr, " \n", ":", "= \t", "\xa0\xff\x80", "\n\xc2\xa0" };     // the ignore set is a set of bytes: 8-bit members (Latin-1 / UTF-8 separators) included
const char *codec_name(int c) { switch (c) { case 0: return "hex"; case 1: return "b64"; case 3: return "b64-nopad"; case 5: return "b64url"; default: return "b64url-nopad"; } }

struct DecCase {
    int codec; std::string text; size_t cap; int ign; bool have_end, have_len; std::string mut;
    KV kv() const { KV k; k.s("kind", "dec").u("codec", codec).b("text", (const uint8_t *) text.data(), text.size()).u("cap", cap).u("ign", ign).u("have_end", have_end).u("have_len", have_len).s("mut", mut); return k; }
    static DecCase from(const KV &k) { DecCase c; c.codec = (int) k.gu("codec"); Bytes t = k.gb("text"); c.text.assign((const char *) t.data(), t.size()); c.cap = k.gu("cap"); c.ign = (int) k.gu("ign"); c.have_end = k.gu("have_end"); c.have_len = k.gu("have_len"); c.mut = k.gs("mut"); return c; }
};

bool run_dec(const DecCase &c, std::string &msg) {
    Bytes tb((const uint8_t *) c.text.data(), (const uint8_t *) c.text.data() + c.text.size());
    XBuf text(tb, 3), out(c.cap, 5, 0xcd);
    size_t bin_len = 0x5a5a5a5a; const char *end = (const char *) 0x1;
    const char *ignore = IGN[c.ign];
    int rc;
    if (c.codec == 0) rc = sodium_hex2bin(out.p, c.cap, (const char *) text.p, c.text.size(), ignore, c.have_len ? &bin_len : nullptr, c.have_end ? &end : nullptr);
    else rc = sodium_base642bin(out.p, c.cap, (const char *) text.p, c.text.size(), ignore, c.have_len ? &bin_len : nullptr, c.have_end ? &end : nullptr, c.codec);
    ref::DecodeResult m = c.codec == 0 ? ref::hex_decode(c.text, c.cap, ignore, c.have_end) : ref::b64_decode(c.text, c.cap, ignore, c.have_end, c.codec);
    char b[300];
    if (m.rc == 2) return true;   // unspecified by the contract (ignore character inside a hex digit pair); only memory safety is checked
    if (rc != 0 && rc != -1) { snprintf(b, sizeof b, "%s decode returned %d", codec_name(c.codec), rc); msg = b; return false; }
    if (rc != m.rc) {
        snprintf(b, sizeof b, "%s decode returned %d, strict model says %d (text len %zu, cap %zu, ignore=%s, end=%d)", codec_name(c.codec), rc, m.rc, c.text.size(), c.cap,
                 ignore ? "set" : "NULL", (int) c.have_end);
        msg = b; return false;
    }
    if (rc == 0) {
        if (c.have_len && bin_len != m.bin.size()) { snprintf(b, sizeof b, "%s decode reported length %zu, expected %zu", codec_name(c.codec), bin_len, m.bin.size()); msg = b; return false; }
        if (c.have_end && end != (const char *) text.p + m.end) { snprintf(b, sizeof b, "%s decode end pointer at offset %td, expected %zu", codec_name(c.codec), end - (const char *) text.p, m.end); msg = b; return false; }
        Bytes got(out.p, out.p + m.bin.size());
        if (got != m.bin) { msg = std::string(codec_name(c.codec)) + " decoded bytes " + hex(got) + " expected " + hex(m.bin); return false; }
        for (size_t i = m.bin.size(); i < c.cap; i++) if (out.p[i] != 0xcd) { msg = "decode wrote past the decoded length"; return false; }
    }
    return true;
}

struct EncCase {
    int codec; Bytes bin; size_t extra;
    KV kv() const { KV k; k.s("kind", "enc").u("codec", codec).b("bin", bin).u("extra", extra); return k; }
};
bool run_enc(const EncCase &c, std::string &msg) {
    std::string want = c.codec == 0 ? ref::hex_encode(c.bin) : ref::b64_encode(c.bin, c.codec);
    size_t need = want.size() + 1, cap = need + c.extra;
    XBuf in(c.bin, 1), out(cap, 7, 0xcd);
    char *r;
    if (c.codec == 0) r = sodium_bin2hex((char *) out.p, cap, in.p, c.bin.size());
    else {
        if (sodium_base64_encoded_len(c.bin.size(), c.codec) != need) { msg = "sodium_base64_encoded_len != strlen+1"; return false; }
        if (sodium_base64_ENCODED_LEN(c.bin.size(), c.codec) != need) { msg = "sodium_base64_ENCODED_LEN macro != strlen+1"; return false; }
        {   // the macro is documented for use in array sizes: its arguments are expressions, not only identifiers
            size_t n = c.bin.size(), h = n / 2, one = 1; int v = c.codec, mask = 2 & c.codec, base = c.codec & ~2;      // bit 1 of the variant = "no padding"
            if (sodium_base64_ENCODED_LEN(h + (n - h), v) != need || sodium_base64_ENCODED_LEN(n + one - 1, v) != need || sodium_base64_ENCODED_LEN(n << 0, v) != need ||
                sodium_base64_ENCODED_LEN(n ? n : 0, v) != need || sodium_base64_ENCODED_LEN(n | 0, base | mask) != need || sodium_base64_ENCODED_LEN(n, mask ? v : base) != need ||
                sodium_base64_ENCODED_LEN(n & ~(size_t) 0, base + mask) != need) { msg = "sodium_base64_ENCODED_LEN macro gives a different length when its arguments are written as compound expressions (missing parentheses)"; return false; }
        }
        r = sodium_bin2base64((char *) out.p, cap, in.p, c.bin.size(), c.codec);
    }
    if (r != (char *) out.p) { msg = "encoder did not return the output pointer"; return false; }
    if (memcmp(out.p, want.data(), want.size()) != 0 || out.p[want.size()] != 0) { msg = std::string(codec_name(c.codec)) + " encoding differs: got '" + std::string((char *) out.p, strnlen((char *) out.p, cap)) + "' want '" + want + "'"; return false; }
    for (size_t i = need; i < cap; i++) if (out.p[i] != 0 && out.p[i] != 0xcd) { msg = "encoder wrote garbage after the terminator"; return false; }
    // round trip through the decoder with exact capacity
    XBuf back(c.bin.size(), 2, 0xee);
    size_t bl = 0; const char *end = nullptr; int rc;
    if (c.codec == 0) rc = sodium_hex2bin(back.p, c.bin.size(), (char *) out.p, want.size(), nullptr, &bl, &end);
    else rc = sodium_base642bin(back.p, c.bin.size(), (char *) out.p, want.size(), nullptr, &bl, &end, c.codec);
    if (rc != 0 || bl != c.bin.size() || back.get() != c.bin || end != (char *) out.p + want.size()) { msg = "decode(encode(x)) != x"; return false; }
    return true;
}

void dec_all_modes(Ctx &ctx, int codec, const std::string &text, const char *mut, uint64_t extra, std::vector<size_t> caps = {}) {
    if (caps.empty()) caps = { 64 };
    bool high = false; for (unsigned char ch : text) if (ch >= 0x80) high = true;
    for (size_t cap : caps)
        for (int ign = 0; ign < (high ? 6 : 3); ign++)
            for (int he = 0; he < 2; he++) {
                if (ign == 3) continue;
                DecCase c{ codec, text, cap, ign, he != 0, true, mut };
                bool has_alpha = false;
                for (unsigned char ch : text) if (codec == 0 ? ref::hexval(ch) >= 0 : ref::b64val(ch, codec) >= 0) has_alpha = true;
                uint64_t key = mix64(mix64(mix64(hash_str(text), codec), mix64(cap, ign * 2 + he)), extra);
                exec_case(ctx, c, run_dec, key, text.size() >= 1 && has_alpha);
            }
}

// exhaustive short texts over the full 8-bit character set
void explore_exhaustive(Ctx &ctx) {
    uint64_t idx = 0;
    for (int codec : CODECS) {
        if (ctx.mine(idx++)) dec_all_modes(ctx, codec, "", "exh0", 0);
        for (int a = 0; a < 256; a++) {
            if (!ctx.mine(idx++)) continue;
            dec_all_modes(ctx, codec, std::string(1, (char) a), "exh1", 0);
            for (int b2 = 0; b2 < 256; b2++) { std::string t; t += (char) a; t += (char) b2; dec_all_modes(ctx, codec, t, "exh2", 0); }
        }
        // length 3 and 4 over an alphabet holding every character class
        static const unsigned char A3[] = { 'A', 'B', 'Q', 'Z', 'a', 'f', 'g', 'z', '0', '1', '9', '+', '/', '-', '_', '=', ' ', '\n', ':', '\t', 0, 0x7f, 0x80, 0xab, 0xff, 'F', 'G', '@', '[', '`', '{', '.', ',', '*', '\r', 'E', 'w', '4', '8', 'x' };
        size_t n3 = sizeof A3;
        for (size_t i = 0; i < n3; i++) {
            if (!ctx.mine(idx++)) continue;
            for (size_t j = 0; j < n3; j++) for (size_t k = 0; k < n3; k++) { std::string t; t += (char) A3[i]; t += (char) A3[j]; t += (char) A3[k]; dec_all_modes(ctx, codec, t, "exh3", 0); }
        }
        static const unsigned char A4[] = { 'A', 'Q', 'g', 'w', '/', '_', '=', ' ', 0, 0x80, '4', 'f', ':' };
        size_t n4 = ctx.thorough() ? sizeof A4 : 11;
        for (size_t i = 0; i < n4; i++) {
            if (!ctx.mine(idx++)) continue;
            for (size_t j = 0; j < n4; j++) for (size_t k = 0; k < n4; k++) for (size_t l = 0; l < n4; l++) {
                std::string t; t += (char) A4[i]; t += (char) A4[j]; t += (char) A4[k]; t += (char) A4[l];
                DecCase c{ codec, t, 8, (int)((i + j) % 3), (k + l) % 2 == 0, true, "exh4" };
                exec_case(ctx, c, run_dec, mix64(hash_str(t), codec), true);
            }
        }
    }
}

// encoding + round trip: every length, several contents, capacity exact and larger
void explore_encode(Ctx &ctx) {
    Rng r = ctx.rng("c15-enc");
    uint64_t idx = 0;
    size_t maxlen = ctx.thorough() ? 200 : 72;
    for (size_t len = 0; len <= maxlen; len++)
        for (int codec : CODECS)
            for (int cls = 0; cls < 5; cls++) {
                Bytes bin = r.bytes_class(len, cls);
                if (!ctx.mine(idx++)) continue;
                for (size_t extra : { (size_t) 0, (size_t) 1, (size_t) 9 }) {
                    EncCase c{ codec, bin, extra };
                    exec_case(ctx, c, run_enc, mix64(mix64(len, codec), mix64(cls, extra)), len >= 1);
                }
            }
    // all 2-byte values (covers every sextet in every position, incl. 62/63)
    for (int v = 0; v < 65536; v++) {
        if (!ctx.mine(idx++)) continue;
        for (int codec : CODECS) { EncCase c{ codec, Bytes{ (uint8_t)(v >> 8), (uint8_t) v }, 0 }; exec_case(ctx, c, run_enc, mix64(v, codec), true); }
    }
}

// mutated valid encodings and every capacity
void explore_mutations(Ctx &ctx) {
    Rng r = ctx.rng("c15-mut");
    uint64_t idx = 0;
    size_t maxlen = ctx.thorough() ? 72 : 40;
    for (size_t len = 0; len <= maxlen; len++)
        for (int codec : CODECS) {
            Bytes bin = r.bytes(len);
            if (len && r.below(3) == 0) bin[len - 1] = 0xff;    // make sextets 62/63 appear at the end
            uint64_t rs = r.next();
            if (!ctx.mine(idx++)) continue;
            Rng rr(rs);
            std::string enc = codec == 0 ? ref::hex_encode(bin) : ref::b64_encode(bin, codec);
            // (d) every capacity 0..needed+1
            std::vector<size_t> caps;
            for (size_t cap = 0; cap <= len + 1; cap++) caps.push_back(cap);
            dec_all_modes(ctx, codec, enc, "valid", 1, caps);
            std::vector<size_t> c2 = { len, len + 2 };
            // truncation at every position
            for (size_t cut = 0; cut < enc.size(); cut++) dec_all_modes(ctx, codec, enc.substr(0, cut), "trunc", 2, c2);
            // a foreign character inserted / substituted at every position
            static const unsigned char FOREIGN[] = { ' ', '\n', ':', '=', '+', '/', '-', '_', 0, 0x80, 0xff, '!', 'G', 'g', '~' };
            for (size_t pos = 0; pos <= enc.size(); pos++) {
                unsigned char f = FOREIGN[rr.below(sizeof FOREIGN)];
                std::string ins = enc; ins.insert(pos, 1, (char) f);
                dec_all_modes(ctx, codec, ins, "insert", 3, c2);
                if (pos < enc.size()) {
                    std::string sb = enc; sb[pos] = (char) f; dec_all_modes(ctx, codec, sb, "subst", 4, c2);
                    // ignore characters at every position (including inside a quantum / pair and inside the padding)
                    std::string ig = enc; ig.insert(pos, pos % 2 ? " " : "\n"); dec_all_modes(ctx, codec, ig, "ignore-char", 5, c2);
                    std::string ig2 = enc; ig2.insert(pos, ":"); dec_all_modes(ctx, codec, ig2, "ignore-colon", 6, c2);
                    std::string ig3 = enc; ig3.insert(pos, pos % 3 == 0 ? "\xa0" : pos % 3 == 1 ? "\xff" : "\xc2\xa0"); dec_all_modes(ctx, codec, ig3, "ignore-8bit", 30, c2);
                }
            }
            // padding added / removed / duplicated; trailing garbage; trailing ignore chars
            dec_all_modes(ctx, codec, enc + "=", "pad+1", 7, c2);
            dec_all_modes(ctx, codec, enc + "==", "pad+2", 8, c2);
            if (!enc.empty() && enc.back() == '=') { dec_all_modes(ctx, codec, enc.substr(0, enc.size() - 1), "pad-1", 9, c2); }
            { std::string np = enc; while (!np.empty() && np.back() == '=') np.pop_back(); dec_all_modes(ctx, codec, np, "nopad", 10, c2); }
            dec_all_modes(ctx, codec, enc + " ", "trail-space", 11, c2);
            dec_all_modes(ctx, codec, enc + "\n\n", "trail-nl", 12, c2);
            dec_all_modes(ctx, codec, enc + "AA", "trail-alpha", 13, c2);
            dec_all_modes(ctx, codec, enc + std::string(1, '\0'), "trail-nul", 14, c2);
            dec_all_modes(ctx, codec, " " + enc, "lead-space", 15, c2);
            // non-zero trailing bits: bump the last alphabet character
            if (codec != 0 && len % 3 != 0) {
                std::string tb = enc; size_t p = tb.find('='); if (p == std::string::npos) p = tb.size();
                const char *al = ref::b64_alphabet(codec); int v = ref::b64val((unsigned char) tb[p - 1], codec);
                tb[p - 1] = al[(v + 1) & 63]; dec_all_modes(ctx, codec, tb, "trailing-bits", 16, c2);
            }
            // characters of the other alphabet
            if (codec != 0) {
                std::string oa = enc; bool changed = false;
                for (auto &ch : oa) { if (ch == '+') { ch = '-'; changed = true; } else if (ch == '/') { ch = '_'; changed = true; } else if (ch == '-') { ch = '+'; changed = true; } else if (ch == '_') { ch = '/'; changed = true; } }
                if (changed) dec_all_modes(ctx, codec, oa, "other-alphabet", 17, c2);
                // decode with a different variant
                for (int ov : { 1, 3, 5, 7 }) if (ov != codec) dec_all_modes(ctx, ov, enc, "other-variant", 18 + ov, c2);
            } else {
                std::string up = enc; for (auto &ch : up) ch = (char) toupper(ch); dec_all_modes(ctx, codec, up, "upper", 19, c2);
            }
            // without a length pointer
            { DecCase c{ codec, enc, len, 0, false, false, "nolen" }; exec_case(ctx, c, run_dec, mix64(hash_str(enc), 99), len >= 1); }
        }
}

// ------------------------------------------------------------------ texts of 4 GiB and more (thorough tier, non-sanitizer build, first round)
// 3 GiB + 1 bytes encode to 2^32 + 4 Base64 characters, 2^31 + 1 bytes to 2^32 + 2 hex digits: lengths and positions beyond 32 bits.  The
// input is a sparse mapping with a few poked bytes, the text is real memory; the text is decoded back into a second sparse-then-written map.
struct GiantCase { int codec; size_t len; KV kv() const { KV k; k.s("kind", "giant").u("codec", codec).u("len", len); return k; } };
uint64_t g_giant_skipped = 0;
bool run_giant(const GiantCase &c, std::string &msg) {
    char b[300];
    size_t need = c.codec == 0 ? c.len * 2 + 1 : sodium_base64_encoded_len(c.len, c.codec);
    size_t quanta = c.len / 3, rem = c.len % 3, want_need = c.codec == 0 ? c.len * 2 + 1 : quanta * 4 + (rem ? ((c.codec & 2) ? rem + 1 : 4) : 0) + 1;
    if (need != want_need) { snprintf(b, sizeof b, "encoded length of %zu bytes (%s) is reported as %zu, expected %zu", c.len, codec_name(c.codec), need, want_need); msg = b; return false; }
    if (c.codec != 0 && sodium_base64_ENCODED_LEN(c.len, c.codec) != want_need) { msg = "sodium_base64_ENCODED_LEN disagrees for a length above 2^31"; return false; }
    if (!giant::have_memory(need + c.len)) { g_giant_skipped++; return true; }
    giant::Map in(c.len), text(need + 16), back(c.len + 16);
    if (!in.ok() || !text.ok() || !back.ok()) { g_giant_skipped++; return true; }
    in.poke(); in.p[c.len - 1] = 0xfe; in.p[c.len - 2] = 0x7d;
    memset(text.p + need - 1, 0x55, 9);
    char *r = c.codec == 0 ? sodium_bin2hex((char *) text.p, need, in.p, c.len) : sodium_bin2base64((char *) text.p, need, in.p, c.len, c.codec);
    if (r != (char *) text.p) { snprintf(b, sizeof b, "%s encoder over %zu bytes did not return the output pointer", codec_name(c.codec), c.len); msg = b; return false; }
    if (text.p[need - 1] != 0 || text.p[need] != 0x55) { snprintf(b, sizeof b, "%s encoder over %zu bytes: no terminator at the documented length %zu (byte there: %02x, byte after: %02x)", codec_name(c.codec), c.len, need - 1, text.p[need - 1], text.p[need]); msg = b; return false; }
    // windows of the text against the model (window starts on a quantum / pair boundary)
    const size_t G = (size_t) 1 << 32;
    for (size_t tpos : { (size_t) 0, G - 64, G, need - 1 - (c.codec == 0 ? 40 : 40) }) {
        size_t unit_b = c.codec == 0 ? 1 : 3, unit_t = c.codec == 0 ? 2 : 4;
        size_t q = tpos / unit_t; size_t bpos = q * unit_b; if (bpos >= c.len) continue;
        size_t nb = std::min<size_t>(c.len - bpos, 30);
        Bytes chunk(in.p + bpos, in.p + bpos + nb);
        bool last = bpos + nb == c.len;
        if (!last) { nb = nb / unit_b * unit_b; chunk.resize(nb); }
        std::string w = c.codec == 0 ? ref::hex_encode(chunk) : ref::b64_encode(chunk, last ? c.codec : (c.codec | 2));
        if (memcmp(text.p + q * unit_t, w.data(), w.size()) != 0) { snprintf(b, sizeof b, "%s encoding of %zu bytes differs from the specification in the text at offset %zu", codec_name(c.codec), c.len, q * unit_t); msg = b; return false; }
    }
    size_t bl = 0; const char *end = nullptr;
    int rc = c.codec == 0 ? sodium_hex2bin(back.p, c.len, (char *) text.p, need - 1, nullptr, &bl, &end) : sodium_base642bin(back.p, c.len, (char *) text.p, need - 1, nullptr, &bl, &end, c.codec);
    if (rc != 0 || bl != c.len || end != (char *) text.p + need - 1) { snprintf(b, sizeof b, "%s decoder over a %zu-character text returned %d, length %zu (expected %zu), end offset %zu", codec_name(c.codec), need - 1, rc, bl, c.len, end ? (size_t) (end - (char *) text.p) : 0); msg = b; return false; }
    for (size_t pos : { (size_t) 0, (size_t) 5, G - 70, G - 1, G, G + 1, c.len - 1, c.len - 2, c.len / 2 + 3 }) if (pos < c.len && back.p[pos] != in.p[pos]) { snprintf(b, sizeof b, "%s: decode(encode(x)) differs from x at byte %zu of %zu", codec_name(c.codec), pos, c.len); msg = b; return false; }
    return true;
}
void explore_giant(Ctx &ctx) {
    if (!ctx.thorough() || !giant::fast_build() || !giant::first_round()) { ctx.notes["giant_texts"] = "thorough tier, non-sanitizer build, first round only"; return; }
    uint64_t idx = 0;
    for (int codec : { 1, 7, 0, 3, 5 }) {
        uint64_t i = idx++;
        if (ctx.worker != (int) (i % (uint64_t) std::min(ctx.nworkers, 2))) continue;       // ~7 GiB of real memory per case
        size_t len = codec == 0 ? ((size_t) 1 << 31) + 1 : ((size_t) 3 << 30) + (size_t) (codec == 1 ? 1 : codec == 7 ? 2 : 3);
        GiantCase c{ codec, len };
        exec_case(ctx, c, run_giant, mix64(codec, len), true);
    }
    ctx.notes["giant_texts_skipped_no_memory"] = std::to_string(g_giant_skipped);
}

bool replay(const KV &k, std::string &msg) {
    if (k.gs("kind") == "giant") { GiantCase c{ (int) k.gu("codec"), (size_t) k.gu("len") }; return run_giant(c, msg); }
    if (k.gs("kind") == "enc") { EncCase c{ (int) k.gu("codec"), k.gb("bin"), (size_t) k.gu("extra") }; return run_enc(c, msg); }
    DecCase c = DecCase::from(k); return run_dec(c, msg);
}

}  // namespace

std::vector<Sub> vh_subs() {
    return {
        { "giant_texts", explore_giant, replay },
        { "encode", explore_encode, replay },
        { "mutations", explore_mutations, replay },
        { "exhaustive", explore_exhaustive, replay },
    };
}
