// C09 -- secretstream delivers exactly the pushed sequence of messages.
// Histories of operations (rapidcheck, shrinking as one value) are executed against one pusher, one puller and the
// reference model (ref/constructions.hpp SecretStream); invariants are checked after every step.
#include "vh_main.hpp"
#include "giant.hpp"
#include "vh_rc.hpp"
#include "constructions.hpp"
using namespace vh;

namespace {

inline const uint8_t *D(const Bytes &b) { static uint8_t z[8]; return b.empty() ? z : b.data(); }
typedef crypto_secretstream_xchacha20poly1305_state State;

enum OpKind { PUSH, REKEY, REKEY_PROBE, PULL, REPLAY, SKIP, TRUNC, FLIP, WRONG_AD, FOREIGN_SAMEKEY, FOREIGN_OTHERKEY, SHORT, NOPK };
const char *OKN[] = { "push", "rekey", "rekey-probe", "pull", "replay", "skip-ahead", "truncate", "bitflip", "wrong-ad", "foreign-same-key", "foreign-other-key", "short" };
struct Op { int kind; int tag; size_t mlen; int adlen; uint64_t sel; };   // adlen -1 = NULL ad

struct Case {
    uint32_t start_k; uint64_t seed; std::vector<Op> ops;   // start_k: initial chunk counter written into the states (0 = leave the initial value 1)
    KV kv() const {
        KV k; k.u("start_k", start_k).u("seed", seed);
        std::string s; for (auto &o : ops) { if (!s.empty()) s += ";"; s += std::string(OKN[o.kind]) + ":" + std::to_string(o.tag) + ":" + std::to_string(o.mlen) + ":" + std::to_string(o.adlen) + ":" + std::to_string(o.sel); }
        k.s("ops", s.empty() ? "-" : s); k.u("nops", ops.size());
        return k;
    }
    static Case from(const KV &k) {
        Case c; c.start_k = (uint32_t) k.gu("start_k"); c.seed = k.gu("seed");
        std::string s = k.gs("ops"); if (s == "-") return c;
        size_t p = 0;
        while (p < s.size()) {
            size_t e = s.find(';', p); if (e == std::string::npos) e = s.size();
            std::string it = s.substr(p, e - p); p = e + 1;
            Op o{ 0, 0, 0, 0, 0 }; size_t q = it.find(':'); std::string name = it.substr(0, q);
            for (int i = 0; i < NOPK; i++) if (name == OKN[i]) o.kind = i;
            unsigned long long a, b2; long long ad; unsigned long long sel;
            if (sscanf(it.c_str() + q + 1, "%llu:%llu:%lld:%llu", &a, &b2, &ad, &sel) == 4) { o.tag = (int) a; o.mlen = (size_t) b2; o.adlen = (int) ad; o.sel = sel; }
            c.ops.push_back(o);
        }
        return c;
    }
};

struct Pending { bool is_rekey; bool probe; Bytes chunk, ad, msg; bool ad_null; uint8_t tag; };

Bytes state_bytes(const State &s) { Bytes b((const uint8_t *) &s, (const uint8_t *) &s + sizeof s); return b; }
Bytes model_state_bytes(const ref::SecretStream &m) { Bytes b = ref::cat(m.k, m.nonce); b.resize(sizeof(State), 0); return b; }

#define STEPFAIL(...) do { char b_[500]; int n_ = snprintf(b_, sizeof b_, "step %zu (%s): ", step, OKN[op.kind]); snprintf(b_ + n_, sizeof b_ - (size_t) n_, __VA_ARGS__); msg = b_; return false; } while (0)

// a pull that must be rejected: -1, *mlen_p = 0, *tag_p = 0xff, message buffer untouched, state unchanged
bool expect_reject(State *puller, const Bytes &chunk, const Bytes &ad, bool ad_null, const char *what, std::string &why) {
    Bytes before = state_bytes(*puller);
    size_t cap = chunk.size() > 17 ? chunk.size() - 17 : 0;
    XBuf cb(chunk, 3), ab(ad, 5), mb(cap + 8, 7, 0x5c);
    unsigned long long ml = 0x1111; unsigned char tg = 0x22;
    int rc = crypto_secretstream_xchacha20poly1305_pull(puller, mb.p, &ml, &tg, cb.p, chunk.size(), ad_null ? nullptr : ab.p, ad_null ? 0 : ad.size());
    if (rc != -1) { why = std::string(what) + ": pull returned " + std::to_string(rc) + " instead of -1"; return false; }
    if (ml != 0 || tg != 0xff) { why = std::string(what) + ": rejected pull left mlen=" + std::to_string(ml) + " tag=" + std::to_string(tg) + " (expected 0 / 0xff)"; return false; }
    for (size_t i = 0; i < cap + 8; i++) if (mb.p[i] != 0x5c) { why = std::string(what) + ": rejected pull wrote to the message buffer"; return false; }
    if (state_bytes(*puller) != before) { why = std::string(what) + ": rejected pull modified the state"; return false; }
    return true;
}

bool run(const Case &c, std::string &msg) {
    set_mask(F_ALL);
    Rng r(c.seed);
    Bytes key = r.bytes(32), header(24);
    State *pusher = (State *) aligned_alloc(64, 64), *puller = (State *) aligned_alloc(64, 64), *other = (State *) aligned_alloc(64, 64);
    struct Free { State *a, *b, *c; ~Free() { free(a); free(b); free(c); } } fr{ pusher, puller, other };
    crypto_secretstream_xchacha20poly1305_init_push(pusher, header.data(), key.data());
    if (crypto_secretstream_xchacha20poly1305_init_pull(puller, header.data(), key.data()) != 0) { msg = "init_pull failed"; return false; }
    ref::SecretStream mpush, mpull; mpush.init(key, header); mpull.init(key, header);
    size_t step = 0; Op op{ PUSH, 0, 0, 0, 0 };
    if (model_state_bytes(mpush) != state_bytes(*pusher) || model_state_bytes(mpull) != state_bytes(*puller)) { msg = "state after init differs from the model (HChaCha20 subkey / counter=1 / inonce)"; return false; }
    if (c.start_k > 0) {      // position every counter (e.g. at 2^32 - k): the state struct is public
        uint32_t v = c.start_k;
        for (State *s : { pusher, puller }) { s->nonce[0] = (uint8_t) v; s->nonce[1] = (uint8_t) (v >> 8); s->nonce[2] = (uint8_t) (v >> 16); s->nonce[3] = (uint8_t) (v >> 24); }
        ref::st32le(&mpush.nonce[0], v); ref::st32le(&mpull.nonce[0], v);
    }
    // a second stream with the same key (different header) and one with another key, as sources of foreign chunks
    Bytes key2 = r.bytes(32), header2(24), header3(24);
    State *fs = other;
    std::vector<Pending> pend; std::vector<Pending> delivered; size_t head = 0;
    auto pull_genuine = [&](std::string &why) -> bool {
        Pending &p = pend[head];
        if (p.is_rekey) {
            if (p.probe && head + 1 < pend.size() && !pend[head + 1].is_rekey) {
                // the pusher has rekeyed, the puller not yet: the next chunk must be rejected until the puller rekeys too
                if (!expect_reject(puller, pend[head + 1].chunk, pend[head + 1].ad, pend[head + 1].ad_null, "chunk pushed after a rekey, pulled before the puller rekeyed", why)) return false;
            }
            crypto_secretstream_xchacha20poly1305_rekey(puller); mpull.rekey(); head++;
            if (state_bytes(*puller) != model_state_bytes(mpull)) { why = "puller state after rekey differs from the model"; return false; }
            return true;
        }
        XBuf cb(p.chunk, 1), ab(p.ad, 2), mb(p.msg.size(), 4, 0x77);
        unsigned long long ml = 999; unsigned char tg = 0x55;
        // the length and tag outputs are optional: a quarter of the pulls leave out the tag, a quarter the length, a quarter both
        // (which ones is a function of the chunk, so a history replays identically); the state transition must not depend on it
        unsigned opt = p.chunk.empty() ? 0 : (unsigned) (p.chunk[p.chunk.size() - 1] & 3);
        bool want_tag = !(opt & 1), want_len = !(opt & 2);
        // an empty message needs no output buffer: half of the empty chunks are pulled with m == NULL
        unsigned char *mptr = (p.msg.empty() && p.chunk.size() >= 2 && (p.chunk[p.chunk.size() - 2] & 1)) ? nullptr : mb.p;
        int rc = crypto_secretstream_xchacha20poly1305_pull(puller, mptr, want_len ? &ml : nullptr, want_tag ? &tg : nullptr, cb.p, p.chunk.size(), p.ad_null ? nullptr : ab.p, p.ad_null ? 0 : p.ad.size());
        if (rc != 0) { why = mptr ? "the genuine next chunk was rejected" : "the genuine next chunk (empty message, pulled with m == NULL) was rejected"; return false; }
        if ((want_len && ml != p.msg.size()) || mb.get() != p.msg || (want_tag && tg != p.tag)) { why = "pull returned a different message, length or tag than was pushed"; return false; }
        Bytes mm; uint8_t mt;
        if (!mpull.pull(p.chunk, p.ad, mm, mt) || mm != p.msg || mt != p.tag) { why = "model rejected the genuine chunk (harness bug)"; return false; }
        if (state_bytes(*puller) != model_state_bytes(mpull)) { why = "puller state after a successful pull differs from the model"; return false; }
        delivered.push_back(p); head++;
        return true;
    };
    for (step = 0; step < c.ops.size(); step++) {
        op = c.ops[step];
        std::string why;
        switch (op.kind) {
        case PUSH: {
            Bytes m = r.bytes_class(op.mlen, (int) (op.sel % 4 == 0 ? op.sel % 3 : 0)), ad = r.bytes(op.adlen < 0 ? 0 : (size_t) op.adlen);
            XBuf mb(m, 1), ab(ad, 2), cb(op.mlen + 17, 3);
            unsigned long long cl = 0;
            bool use_clen = (op.sel & 8) == 0;
            const unsigned char *mp = (op.mlen == 0 && (op.sel & 16)) ? nullptr : mb.p;      // an empty message needs no buffer (e.g. a bare FINAL marker)
            int rc = crypto_secretstream_xchacha20poly1305_push(pusher, cb.p, use_clen ? &cl : nullptr, mp, op.mlen, op.adlen < 0 ? nullptr : ab.p, op.adlen < 0 ? 0 : ad.size(), (unsigned char) op.tag);
            if (rc != 0 || (use_clen && cl != op.mlen + 17)) STEPFAIL("push returned %d / clen %llu", rc, cl);
            Bytes want = mpush.push(m, ad, (uint8_t) op.tag);
            if (cb.get() != want) { size_t i = 0; Bytes g = cb.get(); while (i < g.size() && g[i] == want[i]) i++; STEPFAIL("pushed chunk differs from the documented construction at byte %zu of %zu (tag 0x%02x, mlen %zu, adlen %d)", i, want.size(), op.tag, op.mlen, op.adlen); }
            if (state_bytes(*pusher) != model_state_bytes(mpush)) STEPFAIL("pusher state differs from the model after the push (counter / inonce / rekey on tag or wrap)");
            pend.push_back(Pending{ false, false, want, ad, m, op.adlen < 0, (uint8_t) op.tag });
            break;
        }
        case REKEY: case REKEY_PROBE:
            crypto_secretstream_xchacha20poly1305_rekey(pusher); mpush.rekey();
            if (state_bytes(*pusher) != model_state_bytes(mpush)) STEPFAIL("pusher state after rekey differs from the model");
            pend.push_back(Pending{ true, op.kind == REKEY_PROBE, Bytes(), Bytes(), Bytes(), true, 0 });
            break;
        case PULL:
            if (head < pend.size() && !pull_genuine(why)) STEPFAIL("%s", why.c_str());
            break;
        case REPLAY:
            if (!delivered.empty()) { Pending &p = delivered[op.sel % delivered.size()]; if (!expect_reject(puller, p.chunk, p.ad, p.ad_null, "replayed chunk", why)) STEPFAIL("%s", why.c_str()); }
            break;
        case SKIP: {   // deliver chunk n+1 before chunk n
            size_t a = head; while (a < pend.size() && pend[a].is_rekey) a++;
            size_t b2 = a + 1; while (b2 < pend.size() && pend[b2].is_rekey) b2++;
            if (a == head && b2 < pend.size()) { if (!expect_reject(puller, pend[b2].chunk, pend[b2].ad, pend[b2].ad_null, "chunk delivered out of order", why)) STEPFAIL("%s", why.c_str()); }
            break;
        }
        case TRUNC: case FLIP: case WRONG_AD:
            if (head < pend.size() && !pend[head].is_rekey) {
                Pending p = pend[head];
                if (op.kind == TRUNC) { size_t cut = 1 + op.sel % 17; if (cut > p.chunk.size()) cut = p.chunk.size(); p.chunk.resize(p.chunk.size() - cut); }
                else if (op.kind == FLIP) { size_t bit = op.sel % (p.chunk.size() * 8); p.chunk[bit / 8] ^= (uint8_t) (1u << (bit % 8)); }
                else { if (p.ad.empty()) { p.ad = { 0x41 }; p.ad_null = false; } else if (op.sel & 1) p.ad[op.sel % p.ad.size()] ^= 0x10; else p.ad.pop_back(); }
                if (!expect_reject(puller, p.chunk, p.ad, p.ad_null, op.kind == TRUNC ? "truncated chunk" : op.kind == FLIP ? "bit-flipped chunk" : "chunk with altered associated data", why)) STEPFAIL("%s", why.c_str());
            }
            break;
        case FOREIGN_SAMEKEY: case FOREIGN_OTHERKEY: {
            const Bytes &kk = op.kind == FOREIGN_SAMEKEY ? key : key2;
            Bytes &hh = op.kind == FOREIGN_SAMEKEY ? header2 : header3;
            crypto_secretstream_xchacha20poly1305_init_push(fs, hh.data(), kk.data());
            // bring the foreign stream to the same counter as the puller so that only key / inonce differ
            memcpy(fs->nonce, puller->nonce, 4);
            Bytes m = r.bytes(op.mlen % 64), chunk(m.size() + 17);
            crypto_secretstream_xchacha20poly1305_push(fs, chunk.data(), nullptr, D(m), m.size(), nullptr, 0, (unsigned char) (op.tag & 3));
            if (!expect_reject(puller, chunk, Bytes(), true, "chunk from another stream", why)) STEPFAIL("%s", why.c_str());
            break;
        }
        case SHORT: {
            Bytes chunk = r.bytes(op.sel % 17);
            if (!expect_reject(puller, chunk, Bytes(), true, "chunk shorter than ABYTES", why)) STEPFAIL("%s", why.c_str());
            break;
        }
        }
    }
    // drain: after any number of rejected pulls the genuine sequence is still accepted, in order
    op = Op{ PULL, 0, 0, 0, 0 };
    while (head < pend.size()) { std::string why; if (!pull_genuine(why)) STEPFAIL("(final drain) %s", why.c_str()); }
    return true;
}

uint64_t ckey(const Case &c) { uint64_t h = mix64(c.start_k, c.ops.size()); for (auto &o : c.ops) h = mix64(h, mix64(mix64(o.kind, o.tag), mix64(o.mlen, (uint64_t) (o.adlen + 1)))); return h; }
bool nontrivial(const Case &c) {
    bool rekey = c.start_k >= 0xfffffff0u, pull_after = false, reject = false, ok_after_reject = false;
    for (auto &o : c.ops) {
        if (o.kind == REKEY || o.kind == REKEY_PROBE || (o.kind == PUSH && (o.tag & 2))) rekey = true;
        if (o.kind == PULL && rekey) pull_after = true;
        if (o.kind >= REPLAY) reject = true;
        if (o.kind == PULL && reject) ok_after_reject = true;
    }
    return (rekey && !c.ops.empty()) || pull_after || reject || ok_after_reject;
}

void explore_histories(Ctx &ctx) {
    int depth = ctx.thorough() ? 200 : 24;
    rc_explore<Case>(ctx, "c09-histories", ctx.thorough() ? 200000 : 60000, 100, [&]() {
        Case c;
        {   // start counter: 1, or k below a byte-carry boundary of the 32-bit little-endian counter (2^32 wraps and triggers the automatic rekey)
            int k = *rc::gen::inRange(1, 5);
            uint32_t base = *rc::gen::weightedElement<uint32_t>({ { 6, 1u }, { 5, 0u }, { 1, 1u << 24 }, { 1, 1u << 16 }, { 1, 1u << 8 }, { 1, 0x80000000u } });
            c.start_k = base == 1u ? 0 : (uint32_t) (base - (uint32_t) k);
        }
        c.seed = *rc::gen::arbitrary<uint64_t>();
        auto genop = rc::gen::apply([](int kind, int tagsel, size_t mlen, int adsel, uint64_t sel) {
            Op o; o.kind = kind;
            static const int TAGS[] = { 0, 0, 0, 1, 2, 3, 0x41, 0x82, 0xff, 0x10 };
            o.tag = TAGS[tagsel % 10]; o.mlen = mlen; o.adlen = adsel < 2 ? -1 : adsel - 2; o.sel = sel;
            return o;
        }, rc::gen::weightedElement<int>({ { 10, PUSH }, { 2, REKEY }, { 1, REKEY_PROBE }, { 8, PULL }, { 1, REPLAY }, { 1, SKIP }, { 1, TRUNC }, { 2, FLIP }, { 1, WRONG_AD }, { 1, FOREIGN_SAMEKEY }, { 1, FOREIGN_OTHERKEY }, { 1, SHORT } }),
           rc::gen::inRange(0, 10), gen_len(700), rc::gen::weightedOneOf<int>({ { 2, rc::gen::inRange(0, 2) }, { 2, rc::gen::element(2, 3, 17, 18, 19, 34) }, { 1, rc::gen::inRange(2, 83) } }), rc::gen::arbitrary<uint64_t>());
        int n = *rc::gen::inRange(1, depth + 1);
        c.ops = *rc::gen::container<std::vector<Op>>((size_t) n, genop);
        // statistics
        ctx.cls("ops=" + std::to_string(std::min<size_t>(c.ops.size() / 4 * 4, 24)) + "+");
        bool rk = false, wrap = c.start_k >= 0xfffffff0u, rktag = false, dev = false; if (c.start_k && !wrap) ctx.cls("start-near-byte-carry");
        for (auto &o : c.ops) { if (o.kind == REKEY || o.kind == REKEY_PROBE) rk = true; if (o.kind == PUSH && (o.tag & 2)) rktag = true; if (o.kind >= REPLAY) { dev = true; ctx.cls(std::string("deviation:") + OKN[o.kind]); } }
        if (rk) ctx.cls("with-explicit-rekey"); if (wrap) ctx.cls("start-near-wrap"); if (rktag) ctx.cls("with-REKEY-tag"); if (dev) ctx.cls("with-deviation");
        return c;
    }, run, ckey, nontrivial);
}

// deterministic: every message length 0..700 pushed and pulled once with each tag; every bit of a short chunk flipped
void explore_lengths(Ctx &ctx) {
    Rng r = ctx.rng("c09-len");
    uint64_t idx = 0;
    for (size_t len = 0; len <= (ctx.thorough() ? 1400u : 700u); len++) {
        Case c; c.start_k = (len % 5) ? (uint32_t) (0u - (uint32_t) (len % 5)) : 0; c.seed = r.next();
        c.ops = { Op{ PUSH, (int) (len % 4), len, (int) (len % 37) - 1, len }, Op{ TRUNC, 0, 0, 0, len }, Op{ PULL, 0, 0, 0, 0 }, Op{ REPLAY, 0, 0, 0, 0 }, Op{ PUSH, 3, len / 2, -1, len + 1 } };
        if (!ctx.mine(idx++)) continue;
        exec_case(ctx, c, run, ckey(c), true);
    }
    for (size_t bit = 0; bit < (17 + 40) * 8; bit++) {
        Case c; c.start_k = 0; c.seed = 4242;
        c.ops = { Op{ PUSH, 1, 40, 5, 0 }, Op{ FLIP, 0, 0, 0, bit }, Op{ PULL, 0, 0, 0, 0 } };
        if (!ctx.mine(idx++)) continue;
        exec_case(ctx, c, run, mix64(ckey(c), bit), true);
    }
    // counter wrap reached by pushing: start at 2^32-k, push k+2 chunks, pull all
    for (uint32_t base : { 0u, 1u << 24, 1u << 16, 1u << 8 }) for (int k = 1; k <= 4; k++) for (int extra = 0; extra < 3; extra++) {
        Case c; c.start_k = base - (uint32_t) k; c.seed = r.next();
        for (int i = 0; i < k + extra; i++) c.ops.push_back(Op{ PUSH, i == 1 ? 2 : 0, (size_t) (10 + i), -1, (uint64_t) i });
        c.ops.push_back(Op{ SKIP, 0, 0, 0, 0 });
        if (!ctx.mine(idx++)) continue;
        exec_case(ctx, c, run, mix64(ckey(c), 99), true);
    }
}

// ------------------------------------------------------------------ a chunk of 4 GiB and more (thorough tier, non-sanitizer build, first round)
// small chunk, giant chunk (sparse message of 2^32 + 50 bytes, real ciphertext buffer), small chunk.  The giant chunk: tag byte and
// ciphertext windows around 2^32 and at the end against the model keystream at that block; the MAC against a composition (model one-time key
// and encrypted tag block, the construction's MAC input fed through the library's streaming Poly1305); the pushing state afterwards equals the
// model's; the receiver pulls all three chunks, the giant one into a second real buffer whose sampled windows equal the message.
struct GCCase { size_t len; int tag; KV kv() const { KV k; k.s("kind", "giant_chunk").u("len", len).u("tag", tag); return k; } };
uint64_t g_giant_skipped = 0;
bool run_giant_chunk(const GCCase &c, std::string &msg) {
    set_mask(F_ALL);
    char b[300];
    if (!giant::have_memory(2 * c.len)) { g_giant_skipped++; return true; }
    giant::Map M(c.len), C(c.len + 17), P(c.len); if (!M.ok() || !C.ok() || !P.ok()) { g_giant_skipped++; return true; }
    M.poke();
    Bytes key(32), ad(21); for (int i = 0; i < 32; i++) key[(size_t) i] = (uint8_t) (i * 5 + 3); for (size_t i = 0; i < ad.size(); i++) ad[i] = (uint8_t) (0x30 + i);
    State tx, rx; unsigned char hdr[24];
    crypto_secretstream_xchacha20poly1305_init_push(&tx, hdr, key.data());
    ref::SecretStream mt; mt.init(key, Bytes(hdr, hdr + 24));
    Bytes small = { 1, 2, 3, 4, 5, 6, 7 }, c1(small.size() + 17), c3(small.size() + 17); unsigned long long l = 0;
    crypto_secretstream_xchacha20poly1305_push(&tx, c1.data(), &l, small.data(), small.size(), nullptr, 0, 0);
    if (c1 != mt.push(small, Bytes(), 0)) { msg = "first (small) chunk differs from the model"; return false; }
    // the giant chunk
    if (crypto_secretstream_xchacha20poly1305_push(&tx, C.p, &l, M.p, c.len, ad.data(), ad.size(), (unsigned char) c.tag) != 0 || l != c.len + 17) { snprintf(b, sizeof b, "push of a %zu-byte message returned an error or length %llu", c.len, l); msg = b; return false; }
    Bytes polykey = ref::chacha20_ietf_stream(mt.k, mt.nonce, 0, 32), block(64, 0); block[0] = (uint8_t) c.tag; block = ref::xor_bytes(block, ref::chacha20_ietf_stream(mt.k, mt.nonce, 1, 64));
    if (C.p[0] != block[0]) { msg = "giant chunk: encrypted tag byte differs from the model"; return false; }
    const size_t G = (size_t) 1 << 32;
    for (size_t w : { (size_t) 0, G - 128, G - 64, G, (c.len - 1) / 64 * 64, c.len / 2 / 64 * 64 }) {
        size_t n = std::min<size_t>(128, c.len - w);
        Bytes ks = ref::chacha20_ietf_stream(mt.k, mt.nonce, (uint32_t) (2 + w / 64), n);
        for (size_t j = 0; j < n; j++) if (C.p[1 + w + j] != (uint8_t) (M.p[w + j] ^ ks[j])) { snprintf(b, sizeof b, "giant chunk (%zu bytes): ciphertext byte %zu differs from message XOR keystream (block %zu)", c.len, w + j, 2 + (w + j) / 64); msg = b; return false; }
    }
    crypto_onetimeauth_state st; crypto_onetimeauth_init(&st, polykey.data());
    static const unsigned char zero[16] = { 0 }; unsigned char le[8], want[16];
    crypto_onetimeauth_update(&st, ad.data(), ad.size()); crypto_onetimeauth_update(&st, zero, (0x10 - ad.size()) & 0xf);
    crypto_onetimeauth_update(&st, block.data(), 64); crypto_onetimeauth_update(&st, C.p + 1, c.len); crypto_onetimeauth_update(&st, zero, (size_t) ((0x10 - 64 + c.len) & 0xf));
    for (int i = 0; i < 8; i++) le[i] = (unsigned char) ((uint64_t) ad.size() >> (8 * i)); crypto_onetimeauth_update(&st, le, 8);
    for (int i = 0; i < 8; i++) le[i] = (unsigned char) ((uint64_t) (64 + c.len) >> (8 * i)); crypto_onetimeauth_update(&st, le, 8);
    crypto_onetimeauth_final(&st, want);
    if (memcmp(want, C.p + 1 + c.len, 16) != 0) { snprintf(b, sizeof b, "giant chunk (%zu bytes): the MAC differs from Poly1305 over the construction's MAC input (composition)", c.len); msg = b; return false; }
    mt.advance(Bytes(want, want + 16), (uint8_t) c.tag);
    Bytes sb = mt.state_bytes(); if (memcmp(&tx, sb.data(), sb.size()) != 0) { msg = "giant chunk: the pushing state afterwards differs from the model's (key / nonce / counter)"; return false; }
    crypto_secretstream_xchacha20poly1305_push(&tx, c3.data(), &l, small.data(), small.size(), nullptr, 0, crypto_secretstream_xchacha20poly1305_TAG_FINAL);
    if (c3 != mt.push(small, Bytes(), 3)) { msg = "the chunk after the giant one differs from the model"; return false; }
    // receiver
    unsigned char tag = 0x77, out[16]; unsigned long long ml = 0;
    if (crypto_secretstream_xchacha20poly1305_init_pull(&rx, hdr, key.data()) != 0 || crypto_secretstream_xchacha20poly1305_pull(&rx, out, &ml, &tag, c1.data(), c1.size(), nullptr, 0) != 0 || ml != small.size()) { msg = "receiver rejects the first chunk"; return false; }
    if (crypto_secretstream_xchacha20poly1305_pull(&rx, P.p, &ml, &tag, C.p, c.len + 17, ad.data(), ad.size()) != 0) { snprintf(b, sizeof b, "pull rejects the genuine %zu-byte chunk", c.len); msg = b; return false; }
    if (ml != c.len || tag != (unsigned char) c.tag) { snprintf(b, sizeof b, "pull of the giant chunk reports length %llu / tag %u, expected %zu / %d", ml, tag, c.len, c.tag); msg = b; return false; }
    for (size_t w : { (size_t) 0, (size_t) 5, G - 70, G - 1, G, G + 1, c.len - 1, c.len - 17, c.len / 2 + 3 }) if (w < c.len && P.p[w] != M.p[w]) { snprintf(b, sizeof b, "pull of the giant chunk: message byte %zu differs from the one pushed", w); msg = b; return false; }
    if (crypto_secretstream_xchacha20poly1305_pull(&rx, out, &ml, &tag, c3.data(), c3.size(), nullptr, 0) != 0 || tag != crypto_secretstream_xchacha20poly1305_TAG_FINAL || ml != small.size() || memcmp(out, small.data(), small.size()) != 0) { msg = "receiver does not accept the chunk after the giant one"; return false; }
    return true;
}
void explore_giant_chunk(Ctx &ctx) {
    if (!ctx.thorough() || !giant::fast_build() || !giant::first_round()) { ctx.notes["giant_chunk"] = "thorough tier, non-sanitizer build, first round only"; return; }
    uint64_t idx = 0;
    for (int tag : { 0, 2 }) { if (!ctx.mine(idx++)) continue; GCCase c{ ((size_t) 1 << 32) + 50 + (size_t) tag, tag }; exec_case(ctx, c, run_giant_chunk, mix64(tag, c.len), true); }
    ctx.notes["giant_chunk_skipped_no_memory"] = std::to_string(g_giant_skipped);
}

bool replay(const KV &k, std::string &msg) { if (k.gs("kind") == "giant_chunk") { GCCase c{ (size_t) k.gu("len"), (int) k.gu("tag") }; return run_giant_chunk(c, msg); } Case c = Case::from(k); return run(c, msg); }

}  // namespace

std::vector<Sub> vh_subs() { return { { "lengths", explore_lengths, replay }, { "histories", explore_histories, replay }, { "giant_chunk", explore_giant_chunk, replay } }; }
