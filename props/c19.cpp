// C19 -- initialisation and all operations are thread-safe.
// Each trial is a fresh process of the ThreadSanitizer build: N threads are released from a barrier with generated
// pre-delays, race through sodium_init() and then run a generated workload over the API table on thread-private
// buffers.  Oracle: TSan (happens-before race detection) reports nothing, exactly one thread obtains 0 from
// sodium_init and all others 1, and every thread's output digest equals the digest of the same workload run
// sequentially afterwards.
#define VH_NO_SODIUM_INIT 1
#define VH_CUSTOM_MAIN 1
#include "vh_main.hpp"
#include "apitable.hpp"
#include <pthread.h>
#include <atomic>
#include <thread>
#include <sys/wait.h>
#include <sched.h>
#include <fstream>
#include <chrono>
#include <signal.h>
using namespace vh;

extern "C" struct randombytes_implementation randombytes_internal_implementation;

namespace {

struct Case {
    int nthreads; uint64_t seed; int family; int ops;     // family 0: default RNG, 1: internal RNG installed before init
    unsigned long mask = 0x3ff; int focus = -1;           // CPU-feature mask for the trial; focus >= 0: every thread runs that one API-table entry (same code, distinct buffers)
    KV kv() const { KV k; k.u("nthreads", nthreads).u("seed", seed).u("family", family).u("ops", ops).u("mask", mask).u("focus", (unsigned long long) (focus + 1)); return k; }
};

// ------------------------------------------------------------------ the trial itself (runs in the exec'ed child)
std::atomic<int> g_arrived{ 0 }, g_returned{ 0 }, g_overlap{ -1 }, g_zero{ 0 }, g_one{ 0 }, g_neg{ 0 };
pthread_barrier_t g_bar;
struct TArg { int id; uint64_t seed; int ops; uint64_t digest; unsigned char first_random[32]; unsigned features = 0; };
// everything the library says about the processor: a thread that has returned from sodium_init must see the final answer (no lazily
// completed detection), and the getters themselves are API functions threads may call concurrently
unsigned read_features() {
    unsigned f = 0; int (*g[])(void) = { sodium_runtime_has_sse2, sodium_runtime_has_sse3, sodium_runtime_has_ssse3, sodium_runtime_has_sse41, sodium_runtime_has_avx, sodium_runtime_has_avx2, sodium_runtime_has_avx512f,
        sodium_runtime_has_pclmul, sodium_runtime_has_aesni, sodium_runtime_has_rdrand, sodium_runtime_has_neon, sodium_runtime_has_armcrypto, crypto_aead_aes256gcm_is_available };
    for (size_t i = 0; i < sizeof g / sizeof g[0]; i++) if (g[i]()) f |= 1u << i;
    return f;
}
int g_focus = -1;

uint64_t workload(uint64_t seed, int ops) {
    Rng r(seed);
    uint64_t d = 0x1234;
    const auto &T = api::table();
    for (int i = 0; i < ops; i++) {
        size_t e = r.below(T.size());
        if (T[e].cost == 2 && r.below(4)) e = r.below(8);           // keep password hashing rare
        if (g_focus >= 0) e = (size_t) g_focus % T.size();
        uint64_t s = r.next();
        api::Ctx c(s); c.maxlen = 300;
        T[e].fn(c);
        d = mix64(d, c.finish());
    }
    return d;
}
// operations whose results are random: exercised for races, not part of the digest
void random_ops(uint64_t seed) {
    Rng r(seed);
    unsigned char buf[64], pk[32], sk[64];
    for (int i = 0; i < 6; i++) {
        switch (r.below(8)) {
        case 0: randombytes_buf(buf, 1 + r.below(64)); break;
        case 1: (void) randombytes_uniform(1 + (uint32_t) r.below(1000)); break;
        case 2: (void) randombytes_random(); break;
        case 3: crypto_box_keypair(pk, sk); break;
        case 4: crypto_sign_keypair(pk, sk); break;
        case 5: { void *p = sodium_malloc(1 + r.below(5000)); if (p) { sodium_mprotect_readonly(p); sodium_mprotect_readwrite(p); ((volatile unsigned char *) p)[0] = 1; sodium_free(p); } break; }
        case 6: crypto_secretbox_keygen(buf); crypto_core_ed25519_scalar_random(buf); if (r.below(2)) { randombytes_stir(); randombytes_buf(buf, 16); } break;   // an explicit re-seed while other threads draw
        default: { void *p = sodium_allocarray(3, 1 + r.below(100)); sodium_mprotect_noaccess(p); sodium_mprotect_readwrite(p); sodium_free(p); break; }
        }
    }
}
void *thread_main(void *a_) {
    TArg *a = (TArg *) a_;
    Rng r(mix64(a->seed, 0xde1a));
    pthread_barrier_wait(&g_bar);
    switch (r.below(4)) {       // generated pre-delay so that the arrival order at sodium_init varies
    case 0: break;
    case 1: for (uint64_t k = r.below(20); k > 0; k--) sched_yield(); break;
    case 2: { volatile uint64_t x = 0; for (uint64_t k = r.below(20000); k > 0; k--) x += k; break; }
    default: sched_yield(); break;
    }
    g_arrived.fetch_add(1);
    int rc = sodium_init();
    if (g_returned.fetch_add(1) == 0) g_overlap.store(g_arrived.load());
    if (rc == 0) g_zero.fetch_add(1); else if (rc == 1) g_one.fetch_add(1); else g_neg.fetch_add(1);
    a->features = read_features();
    randombytes_buf(a->first_random, sizeof a->first_random);      // every thread's very first draw: compared across threads after the join
    // a thread that has returned from sodium_init must see a fully initialised library
    a->digest = workload(a->seed, a->ops);
    random_ops(a->seed ^ 0x77);
    return nullptr;
}
// ------------------------------------------------------------------ second phase: threads share READ-ONLY inputs
// "Distinct buffers" are the buffers a call writes; a precomputed key / state, a public key or a signed message passed as a const input may be
// shared by any number of threads.  The objects are prepared by the main thread after the first phase; in the internal-RNG family the main
// thread also calls randombytes_close() first, so that every new thread's first draw has to bring the generator up again concurrently.
struct Shared {
    bool gcm = false; crypto_aead_aes256gcm_state *gst = nullptr;
    unsigned char boxk[32], xboxk[32], spk[32], ssk[64], sig[64], smsg[200], key[32], hkey[32];
    crypto_generichash_state ghinit;
};
Shared g_sh;
struct T2Arg { int id; uint64_t seed; uint64_t digest; unsigned char rnd[32]; };
uint64_t shared_work(uint64_t seed) {
    Rng r(seed);
    uint64_t d = 0x5ad;
    unsigned char m[700], c[700 + 32], mac[32], npub[32], out[64]; unsigned long long l = 0;
    for (int it = 0; it < 3; it++) {
        size_t len = 64 + (size_t) r.below(600); r.fill(m, sizeof m); r.fill(npub, sizeof npub);
        if (g_sh.gcm) {
            crypto_aead_aes256gcm_encrypt_afternm(c, &l, m, len, npub + 12, (size_t) r.below(20), nullptr, npub, g_sh.gst); d = mix64(d, hash_bytes(c, (size_t) l));
            crypto_aead_aes256gcm_encrypt_detached_afternm(c, mac, &l, m, len, m, (size_t) (64 + r.below(300)), nullptr, npub, g_sh.gst); d = mix64(d, hash_bytes(mac, 16));
        }
        crypto_box_easy_afternm(c, m, len, npub, g_sh.boxk); d = mix64(d, hash_bytes(c, len + 16));
        crypto_box_curve25519xchacha20poly1305_easy_afternm(c, m, len, npub, g_sh.xboxk); d = mix64(d, hash_bytes(c, len + 16));
        d = mix64(d, (uint64_t) (crypto_sign_verify_detached(g_sh.sig, g_sh.smsg, sizeof g_sh.smsg, g_sh.spk) + 3));
        // signing with a shared secret key (deterministic)
        { unsigned char s2[64]; crypto_sign_detached(s2, nullptr, m, len, g_sh.ssk); d = mix64(d, hash_bytes(s2, 64)); }
        crypto_generichash(out, 48, m, len, g_sh.hkey, 32); d = mix64(d, hash_bytes(out, 48));
        { crypto_generichash_state st = g_sh.ghinit; crypto_generichash_update(&st, m, len); crypto_generichash_final(&st, out, 40); d = mix64(d, hash_bytes(out, 40)); }     // a keyed state prepared once, copied by every thread
        crypto_secretbox_easy(c, m, len, npub, g_sh.key); d = mix64(d, hash_bytes(c, len + 16));
        crypto_auth(out, m, len, g_sh.key); d = mix64(d, hash_bytes(out, 32));
    }
    return d;
}
void *thread2_main(void *a_) {
    T2Arg *a = (T2Arg *) a_;
    pthread_barrier_wait(&g_bar);
    randombytes_buf(a->rnd, sizeof a->rnd);
    a->digest = shared_work(a->seed);
    return nullptr;
}
int phase2(const Case &c, int &dup_random) {
    Rng r(mix64(c.seed, 0x5a4ed));
    unsigned char seed[32], pk[32], sk[32], pk2[32], sk2[32];
    r.fill(seed, 32); crypto_box_seed_keypair(pk, sk, seed); r.fill(seed, 32); crypto_box_seed_keypair(pk2, sk2, seed);
    (void) !crypto_box_beforenm(g_sh.boxk, pk2, sk); (void) !crypto_box_curve25519xchacha20poly1305_beforenm(g_sh.xboxk, pk2, sk);
    r.fill(seed, 32); crypto_sign_seed_keypair(g_sh.spk, g_sh.ssk, seed); r.fill(g_sh.smsg, sizeof g_sh.smsg); crypto_sign_detached(g_sh.sig, nullptr, g_sh.smsg, sizeof g_sh.smsg, g_sh.ssk);
    r.fill(g_sh.key, 32); r.fill(g_sh.hkey, 32);
    crypto_generichash_init(&g_sh.ghinit, g_sh.hkey, 32, 40);
    g_sh.gcm = crypto_aead_aes256gcm_is_available() != 0;
    if (g_sh.gcm) { g_sh.gst = (crypto_aead_aes256gcm_state *) aligned_alloc(64, (sizeof(crypto_aead_aes256gcm_state) + 63) / 64 * 64); crypto_aead_aes256gcm_beforenm(g_sh.gst, g_sh.key); }
    if (c.family == 1) (void) randombytes_close();
    pthread_barrier_destroy(&g_bar); pthread_barrier_init(&g_bar, nullptr, (unsigned) c.nthreads);
    std::vector<pthread_t> th((size_t) c.nthreads); std::vector<T2Arg> args((size_t) c.nthreads);
    for (int i = 0; i < c.nthreads; i++) { args[(size_t) i] = T2Arg{ i, mix64(c.seed, 0x2000 + (uint64_t) i), 0, { 0 } }; pthread_create(&th[(size_t) i], nullptr, thread2_main, &args[(size_t) i]); }
    for (int i = 0; i < c.nthreads; i++) pthread_join(th[(size_t) i], nullptr);
    int bad = 0;
    for (int i = 0; i < c.nthreads; i++) if (shared_work(args[(size_t) i].seed) != args[(size_t) i].digest) bad++;
    static const unsigned char ZK[32] = { 0x76, 0xb8, 0xe0, 0xad, 0xa0, 0xf1, 0x3d, 0x90, 0x40, 0x5d, 0x6a, 0xe5, 0x53, 0x86, 0xbd, 0x28, 0xbd, 0xd2, 0x19, 0xb8, 0xa0, 0x8d, 0xed, 0x1a, 0xa8, 0x36, 0xef, 0xcc, 0x8b, 0x77, 0x0d, 0xc7 };
    for (int i = 0; i < c.nthreads; i++) {
        if (memcmp(args[(size_t) i].rnd, ZK, 32) == 0) dup_random++;
        for (int j = i + 1; j < c.nthreads; j++) if (memcmp(args[(size_t) i].rnd, args[(size_t) j].rnd, 32) == 0) dup_random++;
    }
    if (g_sh.gst) free(g_sh.gst);
    return bad;
}

int trial_main(const Case &c) {
    g_focus = c.focus;
    if (c.family == 1) randombytes_set_implementation(&randombytes_internal_implementation);
    pthread_barrier_init(&g_bar, nullptr, (unsigned) c.nthreads);
    std::vector<pthread_t> th((size_t) c.nthreads); std::vector<TArg> args((size_t) c.nthreads);
    for (int i = 0; i < c.nthreads; i++) { args[(size_t) i] = TArg{ i, mix64(c.seed, (uint64_t) i + 1), c.ops, 0 }; pthread_create(&th[(size_t) i], nullptr, thread_main, &args[(size_t) i]); }
    for (int i = 0; i < c.nthreads; i++) pthread_join(th[(size_t) i], nullptr);
    int bad_digest = 0;
    for (int i = 0; i < c.nthreads; i++) if (workload(args[(size_t) i].seed, c.ops) != args[(size_t) i].digest) bad_digest++;
    // 32 random bytes drawn independently by different threads are equal with probability 2^-256: equal outputs, or the keystream of
    // the all-zero ChaCha20 key / nonce (an unseeded per-thread generator), mean that a thread's generator state was not set up
    static const unsigned char ZK[32] = { 0x76, 0xb8, 0xe0, 0xad, 0xa0, 0xf1, 0x3d, 0x90, 0x40, 0x5d, 0x6a, 0xe5, 0x53, 0x86, 0xbd, 0x28, 0xbd, 0xd2, 0x19, 0xb8, 0xa0, 0x8d, 0xed, 0x1a, 0xa8, 0x36, 0xef, 0xcc, 0x8b, 0x77, 0x0d, 0xc7 };
    int dup_random = 0;
    for (int i = 0; i < c.nthreads; i++) {
        if (memcmp(args[(size_t) i].first_random, ZK, 32) == 0) dup_random++;
        for (int j = i + 1; j < c.nthreads; j++) if (memcmp(args[(size_t) i].first_random, args[(size_t) j].first_random, 32) == 0) dup_random++;
    }
    if (c.focus < 0) bad_digest += phase2(c, dup_random);
    int bad_feat = 0; unsigned fin = read_features();
    for (int i = 0; i < c.nthreads; i++) if (args[(size_t) i].features != fin) bad_feat++;
    printf("TRIAL zero=%d one=%d neg=%d overlap=%d bad_digest=%d again=%d dup_random=%d bad_feat=%d\n", g_zero.load(), g_one.load(), g_neg.load(), g_overlap.load(), bad_digest, sodium_init(), dup_random, bad_feat);
    fflush(stdout);
    return 0;
}

// ------------------------------------------------------------------ the exploring parent
std::string g_self;
struct TrialResult { bool ran; int zero, one, neg, overlap, bad_digest, again, dup_random = 0, bad_feat = 0; bool race; std::string race_text; int status; bool hung = false; };
const double TRIAL_TIMEOUT_S = 180.0;
TrialResult run_trial(const Case &c) {
    TrialResult t; t.ran = false; t.zero = t.one = t.neg = t.overlap = t.bad_digest = t.again = 0; t.race = false; t.status = 0;
    char tmpl[] = "/tmp/c19-XXXXXX"; int fd = mkstemp(tmpl); if (fd < 0) return t;
    pid_t pid = fork();
    if (pid == 0) {
        dup2(fd, 1); dup2(fd, 2);
        setenv("TSAN_OPTIONS", "halt_on_error=0:exitcode=66:report_signal_unsafe=0:second_deadlock_stack=1:history_size=4", 1);
        std::string n = std::to_string(c.nthreads), s = std::to_string(c.seed), f = std::to_string(c.family), o = std::to_string(c.ops), m = std::to_string(c.mask), fo = std::to_string(c.focus);
        setenv("SODIUM_VERIF_CPU_MASK", m.c_str(), 1);       // read by the guarded hook in runtime.c when sodium_init detects CPU features
        execl(g_self.c_str(), g_self.c_str(), "--trial", n.c_str(), s.c_str(), f.c_str(), o.c_str(), fo.c_str(), (char *) nullptr);
        _exit(127);
    }
    // a trial normally takes well under 3 s; one that is still running after TRIAL_TIMEOUT_S is a hang (deadlock / livelock in
    // the library: every concurrent sodium_init call must return) - it is killed and reported; the driver re-runs it 5 times
    int st = 0; bool hung = false;
    auto t0 = std::chrono::steady_clock::now();
    for (;;) {
        pid_t w = waitpid(pid, &st, WNOHANG);
        if (w == pid) break;
        if (w < 0) { st = 0x7f00; break; }
        if (std::chrono::duration<double>(std::chrono::steady_clock::now() - t0).count() > TRIAL_TIMEOUT_S) { kill(pid, SIGKILL); waitpid(pid, &st, 0); hung = true; break; }
        usleep(2000);
    }
    close(fd);
    t.hung = hung;
    std::ifstream f(tmpl); std::string all((std::istreambuf_iterator<char>(f)), std::istreambuf_iterator<char>()); unlink(tmpl);
    t.status = st;
    size_t p = all.find("TRIAL zero=");
    if (p != std::string::npos && sscanf(all.c_str() + p, "TRIAL zero=%d one=%d neg=%d overlap=%d bad_digest=%d again=%d dup_random=%d bad_feat=%d", &t.zero, &t.one, &t.neg, &t.overlap, &t.bad_digest, &t.again, &t.dup_random, &t.bad_feat) == 8) t.ran = true;
    size_t q = all.find("WARNING: ThreadSanitizer");
    if (q != std::string::npos) { t.race = true; t.race_text = all.substr(q, 1800); }
    if (!t.ran && !t.race) t.race_text = all.substr(0, 600);
    return t;
}
int g_last_overlap = 0;
// the exploring parent never initialises the library (each trial must race through sodium_init itself), so the masks are
// listed explicitly instead of being derived from the detected features; a mask naming a feature the host lacks is harmless
std::vector<unsigned long> trial_masks(bool all) {
    std::vector<unsigned long> v = { F_ALL, F_ALL & ~F_AVX512F, F_ALL & ~(F_AVX512F | F_AVX2), F_ALL & ~(F_AVX512F | F_AVX2 | F_AVX | F_SSE41 | F_SSSE3), 0, F_ALL & ~(F_AESNI | F_PCLMUL) };
    if (all) { v.push_back(F_ALL & ~(F_AVX512F | F_AVX2 | F_AVX)); v.push_back(F_ALL & ~(F_AVX512F | F_AVX2 | F_AVX | F_SSE41)); v.push_back(F_ALL & ~(F_AVX512F | F_AVX2 | F_AVX | F_SSE41 | F_SSSE3 | F_SSE3)); }
    return v;
}
bool run(const Case &c, std::string &msg) {
    TrialResult t = run_trial(c);
    char b[2400];
    if (t.race) { snprintf(b, sizeof b, "ThreadSanitizer report with %d threads (family %s): %s", c.nthreads, c.family ? "internal RNG" : "default RNG", t.race_text.c_str()); msg = b; for (auto &ch : msg) if (ch == '\n') ch = '|'; return false; }
    if (t.hung) { snprintf(b, sizeof b, "trial with %d threads (family %s) did not finish within %.0f s (normal: < 3 s): deadlock or livelock; output so far: %s", c.nthreads, c.family ? "internal RNG" : "default RNG", TRIAL_TIMEOUT_S, t.race_text.c_str()); msg = b; for (auto &ch : msg) if (ch == '\n') ch = '|'; return false; }
    if (!t.ran) { snprintf(b, sizeof b, "trial process died (status 0x%x): %s", t.status, t.race_text.c_str()); msg = b; for (auto &ch : msg) if (ch == '\n') ch = '|'; return false; }
    if (t.zero != 1 || t.one != c.nthreads - 1 || t.neg != 0) { snprintf(b, sizeof b, "sodium_init with %d racing threads returned 0 to %d, 1 to %d and -1 to %d of them (expected exactly one 0)", c.nthreads, t.zero, t.one, t.neg); msg = b; return false; }
    if (t.again != 1) { snprintf(b, sizeof b, "sodium_init after initialisation returned %d instead of 1", t.again); msg = b; return false; }
    if (t.bad_digest) { snprintf(b, sizeof b, "%d of %d threads computed results that differ from the same workload run sequentially", t.bad_digest, c.nthreads); msg = b; return false; }
    if (t.bad_feat) { snprintf(b, sizeof b, "%d of %d threads, right after sodium_init returned, saw CPU feature flags / AES-256-GCM availability that differ from the final ones", t.bad_feat, c.nthreads); msg = b; return false; }
    if (t.dup_random) { snprintf(b, sizeof b, "%d pair(s) of threads (family %s) obtained identical 32-byte outputs from randombytes_buf, or the output of an unseeded generator", t.dup_random, c.family ? "internal RNG" : "default RNG"); msg = b; return false; }
    g_last_overlap = t.overlap;
    return true;
}

void explore_f(Ctx &ctx, int family) {
    Rng r = ctx.wrng(family ? "c19-internal" : "c19-default");
    int trials = (ctx.thorough() ? 4000 : (family ? 120 : 280)) / ctx.nworkers + 1;
    if (family == 1 && ctx.is_known("internal-rng-pid-race")) { ctx.excluded_known += (uint64_t) trials; if (ctx.worker == 0) { Case c{ 8, 42, 1, 2 }; exec_case(ctx, c, run, 1, true); } return; }
    auto masks = trial_masks(true);
    const auto &T = api::table();
    for (int i = 0; i < trials; i++) {
        Case c{ 2 + (int) r.below(15), r.next(), family, 1 + (int) r.below(6) };
        // half of the trials run under a reduced CPU-feature mask (other backends); a third make every thread run the same
        // API entry, which is what exposes function-local state that should have been per call
        if (r.below(2)) c.mask = masks[r.below(masks.size())];
        if (r.below(3) == 0) { c.focus = (int) r.below(T.size()); c.ops = 1 + (int) r.below(2); if (T[(size_t) c.focus].cost == 2 && c.nthreads > 6) c.nthreads = 2 + (int) r.below(5); }
        g_last_overlap = 0;
        bool ok = exec_case(ctx, c, run, mix64(mix64(c.nthreads, c.seed), family), true);
        if (ok) { ctx.cls(g_last_overlap >= 2 ? "trials_with_overlapping_init" : "trials_without_overlap"); ctx.cls("threads=" + std::to_string(c.nthreads)); ctx.cls(c.mask == 0x3ff ? "mask=all" : "mask=reduced"); if (c.focus >= 0) ctx.cls("focused_on_one_api_entry"); }
    }
}
// every API-table entry run by all threads at once, under each dispatch-relevant CPU mask: function-local state that should have
// been per call (a static scratch buffer in one SIMD backend, say) is then touched by two unsynchronised threads, which
// happens-before race detection reports on any schedule
void explore_focused(Ctx &ctx) {
    const auto &T = api::table();
    Rng r = ctx.rng("c19-focused");
    std::vector<unsigned long> masks = trial_masks(ctx.thorough());
    uint64_t idx = 0;
    int reps = ctx.thorough() ? 4 : 1;
    for (size_t e = 0; e < T.size(); e++)
        for (unsigned long m : masks)
            for (int rep = 0; rep < reps; rep++) {
                uint64_t seed = r.next();
                if (!ctx.mine(idx++)) continue;
                Case c{ T[e].cost == 2 ? 3 : 3 + (int) ((e + (size_t) rep) % 4), seed, 0, T[e].cost == 2 ? 1 : 2 };
                c.mask = m; c.focus = (int) e;
                g_last_overlap = 0;
                bool ok = exec_case(ctx, c, run, mix64(mix64(e, m), mix64(seed, 0xf0c)), true);
                if (ok) ctx.cls(c.mask == 0x3ff ? "mask=all" : "mask=reduced");
            }
}
bool replay(const KV &k, std::string &msg) { Case c{ (int) k.gu("nthreads"), k.gu("seed"), (int) k.gu("family"), (int) k.gu("ops") }; if (k.has("mask")) c.mask = (unsigned long) k.gu("mask"); if (k.has("focus")) c.focus = (int) k.gu("focus") - 1; return run(c, msg); }

}  // namespace

std::vector<Sub> vh_subs() {
    return { { "default_rng", [](Ctx &c) { explore_f(c, 0); }, replay }, { "internal_rng", [](Ctx &c) { explore_f(c, 1); }, replay }, { "focused", explore_focused, replay } };
}

// main(): "--trial N SEED FAMILY OPS" runs one trial in this process, anything else is the usual harness
int main(int argc, char **argv) {
    if (argc >= 6 && std::string(argv[1]) == "--trial") { Case c{ atoi(argv[2]), strtoull(argv[3], nullptr, 10), atoi(argv[4]), atoi(argv[5]) }; if (argc >= 7) c.focus = atoi(argv[6]); return trial_main(c); }
    char buf[4096]; ssize_t n = readlink("/proc/self/exe", buf, sizeof buf - 1); if (n > 0) { buf[n] = 0; g_self = buf; } else g_self = argv[0];
    return vh::run_main(argc, argv);
}
