// C04 -- hashes, MACs and KDFs match their specifications for any input and chunking.
// Oracle: ref/sha2.hpp, ref/blake2b.hpp, ref/poly1305.hpp (whole-message models, big-integer Poly1305).
#include "vh_main.hpp"
#include "vh_rc.hpp"
#include "sha2.hpp"
#include "blake2b.hpp"
#include "poly1305.hpp"
#include "giant.hpp"
#include <errno.h>
using namespace vh;

namespace {

inline const uint8_t *D(const Bytes &b) { static uint8_t z[8]; return b.empty() ? z : b.data(); }
inline uint8_t *D(Bytes &b) { static uint8_t z[8]; return b.empty() ? z : b.data(); }

enum Alg { SHA256, SHA512, HMAC256, HMAC512, HMAC512256, GENERIC, GENERIC_SP, SIPHASH, SIPHASHX, POLY1305, HKDF256X, HKDF512X, NALG };
const char *AN[] = { "sha256", "sha512", "hmacsha256", "hmacsha512", "hmacsha512256", "generichash", "generichash_salt_personal", "siphash24", "siphashx24", "poly1305", "hkdf_sha256_extract", "hkdf_sha512_extract" };
bool can_stream(int a) { return a != SIPHASH && a != SIPHASHX; }

struct Case {
    int alg; uint64_t mseed; size_t mlen; int mcls; Bytes key; size_t outlen; Bytes salt, personal; std::vector<size_t> chunks; bool streaming; unsigned long mask; Bytes msg_override;
    Bytes msg() const { return msg_override.empty() ? bytes_from_seed(mseed, mlen, mcls) : msg_override; }
    KV kv() const {
        KV k; k.s("alg", AN[alg]).u("mseed", mseed).u("mlen", mlen).u("mcls", mcls).b("key", key).u("outlen", outlen).b("salt", salt).b("personal", personal).u("streaming", streaming).u("mask", mask);
        std::string cs; for (size_t c : chunks) { if (!cs.empty()) cs += ","; cs += std::to_string(c); } k.s("chunks", cs.empty() ? "-" : cs);
        k.b("msg_override", msg_override);
        return k;
    }
    static Case from(const KV &k) {
        Case c; c.alg = 0; for (int i = 0; i < NALG; i++) if (k.gs("alg") == AN[i]) c.alg = i;
        c.mseed = k.gu("mseed"); c.mlen = k.gu("mlen"); c.mcls = (int) k.gu("mcls"); c.key = k.gb("key"); c.outlen = k.gu("outlen"); c.salt = k.gb("salt"); c.personal = k.gb("personal");
        c.streaming = k.gu("streaming"); c.mask = k.gu("mask"); c.msg_override = k.gb("msg_override");
        std::string cs = k.gs("chunks"); if (cs != "-") { size_t p = 0; while (p < cs.size()) { size_t e = cs.find(',', p); if (e == std::string::npos) e = cs.size(); c.chunks.push_back(strtoull(cs.substr(p, e - p).c_str(), nullptr, 10)); p = e + 1; } }
        return c;
    }
};

ref::Bytes model(const Case &c, const Bytes &m) {
    switch (c.alg) {
    case SHA256: return ref::sha256(m);
    case SHA512: return ref::sha512(m);
    case HMAC256: return ref::hmac(ref::H_SHA256, c.key, m);
    case HMAC512: return ref::hmac(ref::H_SHA512, c.key, m);
    case HMAC512256: return ref::hmac_sha512256(c.key, m);
    case GENERIC: return ref::blake2b(m, c.outlen, c.key);
    case GENERIC_SP: return ref::blake2b(m, c.outlen, c.key, c.salt.empty() ? Bytes(16, 0) : c.salt, c.personal.empty() ? Bytes(16, 0) : c.personal);
    case SIPHASH: return ref::siphash24(m, c.key, 8);
    case SIPHASHX: return ref::siphash24(m, c.key, 16);
    case POLY1305: return ref::poly1305(m, c.key);
    case HKDF256X: return ref::hkdf_extract(ref::H_SHA256, c.key, m);
    default: return ref::hkdf_extract(ref::H_SHA512, c.key, m);
    }
}
size_t out_size(const Case &c) {
    switch (c.alg) { case SHA256: case HMAC256: case HMAC512256: case HKDF256X: return 32; case SHA512: case HMAC512: case HKDF512X: return 64; case GENERIC: case GENERIC_SP: return c.outlen; case SIPHASH: return 8; case SIPHASHX: case POLY1305: return 16; }
    return 0;
}

// one-shot call; returns rc
int lib_oneshot(const Case &c, uint8_t *out, const uint8_t *m, size_t n, const uint8_t *key) {
    const uint8_t *kp = c.key.empty() ? nullptr : key;
    switch (c.alg) {
    case SHA256: return (c.mseed & 1) ? crypto_hash_sha256(out, m, n) : crypto_hash_sha256(out, m, n);
    case SHA512: return (c.mseed & 1) ? crypto_hash(out, m, n) : crypto_hash_sha512(out, m, n);
    case HMAC256: return crypto_auth_hmacsha256(out, m, n, key);
    case HMAC512: return crypto_auth_hmacsha512(out, m, n, key);
    case HMAC512256: return (c.mseed & 1) ? crypto_auth(out, m, n, key) : crypto_auth_hmacsha512256(out, m, n, key);
    case GENERIC: return (c.mseed & 1) ? crypto_generichash(out, c.outlen, m, n, kp, c.key.size()) : crypto_generichash_blake2b(out, c.outlen, m, n, kp, c.key.size());
    case GENERIC_SP: return crypto_generichash_blake2b_salt_personal(out, c.outlen, m, n, kp, c.key.size(), c.salt.empty() ? nullptr : c.salt.data(), c.personal.empty() ? nullptr : c.personal.data());
    case SIPHASH: return (c.mseed & 1) ? crypto_shorthash(out, m, n, key) : crypto_shorthash_siphash24(out, m, n, key);
    case SIPHASHX: return crypto_shorthash_siphashx24(out, m, n, key);
    case POLY1305: return (c.mseed & 1) ? crypto_onetimeauth(out, m, n, key) : crypto_onetimeauth_poly1305(out, m, n, key);
    case HKDF256X: return crypto_kdf_hkdf_sha256_extract(out, kp, c.key.size(), m, n);
    default: return crypto_kdf_hkdf_sha512_extract(out, kp, c.key.size(), m, n);
    }
}
bool oneshot_possible(const Case &c) {
    if (c.alg == HMAC256 || c.alg == HMAC512 || c.alg == HMAC512256) return c.key.size() == 32;   // one-shot HMAC API takes exactly 32 key bytes
    return true;
}

// streaming: init / update per chunk / final; chunk pointers are exact-size poisoned copies
template <class St, class Init, class Upd, class Fin>
int stream_generic(const Bytes &m, const std::vector<size_t> &chunks, Init init, Upd upd, Fin fin, bool null_ok = true) {
    St *st = (St *) aligned_alloc(64, (sizeof(St) + 63) / 64 * 64);
    int rc = init(st);
    size_t off = 0;
    for (size_t cs : chunks) {
        if (rc != 0) break;
        XBuf chunk(Bytes(m.begin() + off, m.begin() + off + cs), (off * 7 + cs) % 16);
        rc = upd(st, (cs || !null_ok || off % 2) ? chunk.p : nullptr, cs);    // NULL with length 0 is in contract
        off += cs;
    }
    if (rc == 0) rc = fin(st);
    free(st);
    return rc;
}
int lib_stream(const Case &c, uint8_t *out, const Bytes &m) {
    const uint8_t *kp = c.key.empty() ? nullptr : c.key.data();
    size_t kl = c.key.size();
    switch (c.alg) {
    case SHA256: return stream_generic<crypto_hash_sha256_state>(m, c.chunks, [](auto *s) { return crypto_hash_sha256_init(s); }, [](auto *s, const uint8_t *p, size_t n) { return crypto_hash_sha256_update(s, p, n); }, [&](auto *s) { return crypto_hash_sha256_final(s, out); });
    case SHA512: return stream_generic<crypto_hash_sha512_state>(m, c.chunks, [](auto *s) { return crypto_hash_sha512_init(s); }, [](auto *s, const uint8_t *p, size_t n) { return crypto_hash_sha512_update(s, p, n); }, [&](auto *s) { return crypto_hash_sha512_final(s, out); });
    case HMAC256: return stream_generic<crypto_auth_hmacsha256_state>(m, c.chunks, [&](auto *s) { return crypto_auth_hmacsha256_init(s, D(c.key), kl); }, [](auto *s, const uint8_t *p, size_t n) { return crypto_auth_hmacsha256_update(s, p, n); }, [&](auto *s) { return crypto_auth_hmacsha256_final(s, out); });
    case HMAC512: return stream_generic<crypto_auth_hmacsha512_state>(m, c.chunks, [&](auto *s) { return crypto_auth_hmacsha512_init(s, D(c.key), kl); }, [](auto *s, const uint8_t *p, size_t n) { return crypto_auth_hmacsha512_update(s, p, n); }, [&](auto *s) { return crypto_auth_hmacsha512_final(s, out); });
    case HMAC512256: return stream_generic<crypto_auth_hmacsha512256_state>(m, c.chunks, [&](auto *s) { return crypto_auth_hmacsha512256_init(s, D(c.key), kl); }, [](auto *s, const uint8_t *p, size_t n) { return crypto_auth_hmacsha512256_update(s, p, n); }, [&](auto *s) { return crypto_auth_hmacsha512256_final(s, out); });
    case GENERIC: return stream_generic<crypto_generichash_state>(m, c.chunks, [&](auto *s) { return crypto_generichash_init(s, kp, kl, c.outlen); }, [](auto *s, const uint8_t *p, size_t n) { return crypto_generichash_update(s, p, n); }, [&](auto *s) { return crypto_generichash_final(s, out, c.outlen); });
    case GENERIC_SP: return stream_generic<crypto_generichash_blake2b_state>(m, c.chunks, [&](auto *s) { return crypto_generichash_blake2b_init_salt_personal(s, kp, kl, c.outlen, c.salt.empty() ? nullptr : c.salt.data(), c.personal.empty() ? nullptr : c.personal.data()); },
                                                                            [](auto *s, const uint8_t *p, size_t n) { return crypto_generichash_blake2b_update(s, p, n); }, [&](auto *s) { return crypto_generichash_blake2b_final(s, out, c.outlen); });
    case POLY1305: return stream_generic<crypto_onetimeauth_state>(m, c.chunks, [&](auto *s) { return crypto_onetimeauth_init(s, c.key.data()); }, [](auto *s, const uint8_t *p, size_t n) { return crypto_onetimeauth_update(s, p, n); }, [&](auto *s) { return crypto_onetimeauth_final(s, out); });
    case HKDF256X: return stream_generic<crypto_kdf_hkdf_sha256_state>(m, c.chunks, [&](auto *s) { return crypto_kdf_hkdf_sha256_extract_init(s, kp, kl); }, [](auto *s, const uint8_t *p, size_t n) { return crypto_kdf_hkdf_sha256_extract_update(s, p, n); }, [&](auto *s) { return crypto_kdf_hkdf_sha256_extract_final(s, out); }, false);
    case HKDF512X: return stream_generic<crypto_kdf_hkdf_sha512_state>(m, c.chunks, [&](auto *s) { return crypto_kdf_hkdf_sha512_extract_init(s, kp, kl); }, [](auto *s, const uint8_t *p, size_t n) { return crypto_kdf_hkdf_sha512_extract_update(s, p, n); }, [&](auto *s) { return crypto_kdf_hkdf_sha512_extract_final(s, out); }, false);
    }
    return -99;
}

bool run(const Case &c, std::string &msg) {
    set_mask(c.mask);
    Bytes m = c.msg();
    ref::Bytes want = model(c, m);
    size_t osz = out_size(c);
    char b[300];
    if (want.size() != osz) { msg = "model returned no answer (harness bug)"; return false; }
    if (!c.streaming) {
        XBuf in(m, 5), key(c.key, 3), out(osz, 9);
        int rc = lib_oneshot(c, out.p, (m.empty() && (c.mseed & 2) && c.alg != HKDF256X && c.alg != HKDF512X) ? nullptr : in.p, m.size(), key.p);
        if (rc != 0) { snprintf(b, sizeof b, "%s one-shot returned %d", AN[c.alg], rc); msg = b; return false; }
        if (out.get() != want) { snprintf(b, sizeof b, "%s one-shot(len=%zu, keylen=%zu, outlen=%zu) differs from the specification: got %s want %s", AN[c.alg], m.size(), c.key.size(), osz, hexshort(out.get()).c_str(), hexshort(want).c_str()); msg = b; return false; }
        return true;
    }
    XBuf out(osz, 11);
    int rc = lib_stream(c, out.p, m);
    if (rc != 0) { snprintf(b, sizeof b, "%s init/update/final returned %d", AN[c.alg], rc); msg = b; return false; }
    if (out.get() != want) {
        snprintf(b, sizeof b, "%s streamed in %zu chunks (len=%zu, keylen=%zu) differs from the specification / one-shot result: got %s want %s", AN[c.alg], c.chunks.size(), m.size(), c.key.size(), hexshort(out.get()).c_str(), hexshort(want).c_str());
        msg = b; return false;
    }
    return true;
}

std::vector<unsigned long> masks04() {
    std::vector<unsigned long> out;
    for (auto &m : mask_set(false)) if (m.name == "all" || m.name == "-avx2" || m.name == "-sse41" || m.name == "-ssse3" || m.name == "none") out.push_back(m.mask);
    return out;
}
size_t key_size_for(int alg, Rng &r) {
    switch (alg) {
    case SHA256: case SHA512: return 0;
    case HMAC256: case HMAC512: case HMAC512256: return 32;
    case GENERIC: case GENERIC_SP: { static const size_t ks[] = { 0, 0, 1, 16, 32, 63, 64 }; return ks[r.below(7)]; }
    case SIPHASH: case SIPHASHX: return 16;
    case POLY1305: return 32;
    default: { static const size_t ks[] = { 0, 1, 20, 32, 64, 65, 128, 129, 200 }; return ks[r.below(9)]; }
    }
}
uint64_t case_key(const Case &c) { uint64_t h = mix64(mix64(c.alg, c.mlen), mix64(c.key.size(), c.outlen)); h = mix64(h, c.mask); h = mix64(h, c.streaming); for (size_t x : c.chunks) h = mix64(h, x); return mix64(h, c.mcls); }
bool case_nt(const Case &c, bool default_mask) { size_t ne = 0; for (size_t x : c.chunks) if (x) ne++; return c.mlen >= 1 && (ne >= 2 || !c.key.empty() || !default_mask || !c.msg_override.empty()); }

// every message length 0..1100 one-shot, every algorithm, every backend mask
void explore_lengths(Ctx &ctx) {
    auto masks = masks04();
    Rng r = ctx.rng("c04-lengths");
    uint64_t idx = 0;
    size_t maxlen = ctx.thorough() ? 2200 : 1100;
    for (size_t len = 0; len <= maxlen; len++)
        for (int a = 0; a < NALG; a++) {
            Case c; c.alg = a; c.mseed = r.next(); c.mlen = len; c.mcls = r.below(8) == 0 ? (int) r.below(5) : 0; c.key = r.bytes(key_size_for(a, r));
            c.outlen = (a == GENERIC || a == GENERIC_SP) ? 1 + r.below(64) : 0; c.streaming = false;
            if (a == GENERIC_SP) { if (r.below(4)) c.salt = r.bytes(16); if (r.below(4)) c.personal = r.bytes(16); }
            if (!ctx.mine(idx++)) continue;
            bool masked = (a == GENERIC || a == GENERIC_SP || a == POLY1305);
            for (size_t mi = 0; mi < (masked ? masks.size() : 1); mi++) {
                c.mask = masks[mi];
                exec_case(ctx, c, run, case_key(c), case_nt(c, mi == 0) || len >= 1);
                if (can_stream(a) && len > 0) {   // a deterministic 3-way split through the streaming API as well
                    Case s = c; s.streaming = true; s.chunks = { len / 3, 0, len - len / 3 - len / 5, len / 5 };
                    exec_case(ctx, s, run, case_key(s), true);
                }
            }
        }
    // all digest lengths x key lengths for BLAKE2b
    for (size_t ol = 1; ol <= 64; ol++) for (size_t kl = 0; kl <= 64; kl++) {
        Case c; c.alg = (ol + kl) % 2 ? GENERIC : GENERIC_SP; c.mseed = r.next(); c.mlen = r.below(300); c.mcls = 0; c.key = r.bytes(kl); c.outlen = ol; c.streaming = (ol % 3 == 0); c.mask = masks[(ol + kl) % masks.size()];
        if (c.alg == GENERIC_SP) { c.salt = r.bytes(16); c.personal = r.bytes(16); }
        if (c.streaming) c.chunks = { c.mlen / 2, c.mlen - c.mlen / 2 };
        if (!ctx.mine(idx++)) continue;
        exec_case(ctx, c, run, case_key(c), true);
    }
    // sampled larger messages
    size_t nbig = ctx.thorough() ? 400 : 60;
    for (size_t i = 0; i < nbig; i++) {
        Case c; c.alg = (int) r.below(NALG); c.mseed = r.next(); c.mlen = 1101 + r.below(i % 10 == 0 ? 262144 : 20000); c.mcls = 0; c.key = r.bytes(key_size_for(c.alg, r));
        c.outlen = (c.alg == GENERIC || c.alg == GENERIC_SP) ? 1 + r.below(64) : 0; c.streaming = can_stream(c.alg) && r.coin(); c.mask = masks[r.below(masks.size())];
        if (c.streaming) { size_t left = c.mlen; while (left) { size_t k = std::min<size_t>(left, 1 + r.below(9000)); c.chunks.push_back(k); left -= k; } }
        if (!ctx.mine(idx++)) continue;
        exec_case(ctx, c, run, case_key(c), true);
    }
}

// rapidcheck: any split of the message into chunks (histories of update calls)
void explore_chunking(Ctx &ctx) {
    auto masks = masks04();
    int cases = ctx.thorough() ? 120000 : 24000;
    rc_explore<Case>(ctx, "c04-chunking", cases, 60, [&]() {
        Case c;
        static const int streamable[] = { SHA256, SHA512, HMAC256, HMAC512, HMAC512256, GENERIC, GENERIC_SP, POLY1305, HKDF256X, HKDF512X };
        c.alg = *rc::gen::elementOf(std::vector<int>(streamable, streamable + 10));
        // chunk sizes: block-related values dominate, then arbitrary; empty chunks are frequent
        auto chunk = rc::gen::weightedOneOf<size_t>({ { 3, rc::gen::element<size_t>(0, 0, 1, 15, 16, 17, 31, 32, 33, 63, 64, 65, 111, 112, 113, 127, 128, 129, 255, 256, 257) }, { 2, rc::gen::inRange<size_t>(0, 40) }, { 1, rc::gen::inRange<size_t>(0, 700) } });
        c.chunks = *rc::gen::resize(*rc::gen::inRange(0, 14), rc::gen::container<std::vector<size_t>>(chunk));
        c.mlen = 0; for (size_t x : c.chunks) c.mlen += x;
        c.mseed = *rc::gen::arbitrary<uint64_t>(); c.mcls = *rc::gen::weightedElement<int>({ { 6, 0 }, { 1, 1 }, { 1, 2 } });
        Rng kr(c.mseed ^ 0x99);
        size_t kl;
        if (c.alg == HMAC256 || c.alg == HMAC512 || c.alg == HMAC512256 || c.alg == HKDF256X || c.alg == HKDF512X) kl = *rc::gen::weightedOneOf<size_t>({ { 2, rc::gen::element<size_t>(0, 1, 32, 63, 64, 65, 127, 128, 129, 200) }, { 1, rc::gen::inRange<size_t>(0, 201) } });
        else if (c.alg == GENERIC || c.alg == GENERIC_SP) kl = *rc::gen::element<size_t>(0, 0, 1, 16, 32, 64);
        else kl = key_size_for(c.alg, kr);
        c.key = kr.bytes(kl);
        c.outlen = (c.alg == GENERIC || c.alg == GENERIC_SP) ? *rc::gen::inRange<size_t>(1, 65) : 0;
        if (c.alg == GENERIC_SP) { if (*rc::gen::inRange(0, 4)) c.salt = kr.bytes(16); if (*rc::gen::inRange(0, 4)) c.personal = kr.bytes(16); }
        c.streaming = true;
        c.mask = *rc::gen::elementOf(masks);
        // classify
        size_t empties = 0, ne = 0; for (size_t x : c.chunks) { if (!x) empties++; else ne++; }
        ctx.cls("chunks=" + std::to_string(std::min<size_t>(c.chunks.size(), 12)));
        if (empties) ctx.cls("with_empty_chunk");
        if (ne >= 2) ctx.cls("multi_chunk");
        return c;
    }, run, case_key, [&](const Case &c) { return case_nt(c, c.mask == masks[0]); });
}

// ------------------------------------------------------------------ Poly1305 carries: accumulators solved for
Bytes le16(const ref::N384 &v) { Bytes b(16); v.to_le(b.data(), 16); return b; }
void explore_poly_carry(Ctx &ctx) {
    auto masks = masks04();
    Rng r = ctx.rng("c04-poly");
    uint64_t idx = 0;
    std::vector<Bytes> rs;
    { Bytes one(16, 0); one[0] = 1; rs.push_back(one); Bytes two(16, 0); two[0] = 2; rs.push_back(two);
      rs.push_back(unhex("ffffff0ffcffff0ffcffff0ffcffff0f")); rs.push_back(Bytes(16, 0));
      for (int k : { 8, 26, 32, 44, 52, 64, 96, 104, 120 }) { Bytes p(16, 0); p[k / 8] = (uint8_t) (1u << (k % 8)); rs.push_back(p); } }
    std::vector<Bytes> ss = { Bytes(16, 0), Bytes(16, 0xff), Bytes() };
    // targets for the pre-reduction accumulator when r = 1: three blocks m1+m2+m3 + 3*2^128 = T
    for (int k = -6; k <= 8; k++)
        for (int base = 0; base < 4; base++)
            for (size_t ri = 0; ri < rs.size(); ri++)
                for (size_t si = 0; si < ss.size(); si++)
                    for (size_t tail = 0; tail <= (ctx.thorough() ? 33 : 17); tail += (tail < 17 ? 1 : 4)) {
                        Bytes m1 = r.bytes(16), m2 = r.bytes(16), sfx = r.bytes_class(tail, (int) r.below(3));
                        Bytes srand = r.bytes(16);
                        if (!ctx.mine(idx++)) continue;
                        m1[15] &= 0x1f; m2[15] &= 0x1f;
                        // T - 3*2^128: base 0 -> 2^130-5+k, 1 -> 2^130+k, 2 -> 2*(2^130-5)+k (needs sum up to ~2^131: use 4*2^128.. via larger m), 3 -> 2^129+k (acc = 2^128+... small carry into bit 128)
                        ref::N384 T;
                        if (base == 0) T = ref::N384::pow2(130).sub(ref::N384::small(5));
                        else if (base == 1) T = ref::N384::pow2(130);
                        else if (base == 2) T = ref::N384::pow2(130).add(ref::N384::pow2(129));
                        else T = ref::N384::pow2(129).add(ref::N384::pow2(128)).add(ref::N384::pow2(127));
                        if (k >= 0) T = T.add(ref::N384::small((uint32_t) k)); else T = T.sub(ref::N384::small((uint32_t) -k));
                        ref::N384 rest = T.sub(ref::N384::pow2(128).add(ref::N384::pow2(129)));     // m1+m2+m3
                        ref::N384 a = ref::N384::from_le(m1.data(), 16), bb = ref::N384::from_le(m2.data(), 16);
                        if (rest.cmp(a.add(bb)) < 0) { m1.assign(16, 0); m2.assign(16, 0); a = ref::N384(); bb = ref::N384(); }
                        ref::N384 m3 = rest.sub(a).sub(bb);
                        if (m3.cmp(ref::N384::pow2(128)) >= 0) {   // spread over the first two blocks
                            ref::N384 half = ref::N384::pow2(128).sub(ref::N384::small(1));
                            m1 = Bytes(16, 0xff); a = half; ref::N384 rem = rest.sub(a);
                            if (rem.cmp(ref::N384::pow2(128)) >= 0) { m2 = Bytes(16, 0xff); bb = half; rem = rem.sub(bb); } else { m2.assign(16, 0); bb = ref::N384(); }
                            m3 = rem;
                            if (m3.cmp(ref::N384::pow2(128)) >= 0) continue;
                        }
                        Case c; c.alg = POLY1305; c.mseed = idx; c.mcls = 0;
                        c.msg_override = m1; { Bytes t = m2; c.msg_override.insert(c.msg_override.end(), t.begin(), t.end()); Bytes t3 = le16(m3); c.msg_override.insert(c.msg_override.end(), t3.begin(), t3.end()); }
                        c.msg_override.insert(c.msg_override.end(), sfx.begin(), sfx.end());
                        c.mlen = c.msg_override.size();
                        c.key = rs[ri]; Bytes s = ss[si].empty() ? srand : ss[si]; c.key.insert(c.key.end(), s.begin(), s.end());
                        c.outlen = 0;
                        for (size_t mi : { (size_t) 0, masks.size() - 1 }) {
                            c.mask = masks[mi];
                            c.streaming = false; c.chunks.clear();
                            exec_case(ctx, c, run, mix64(case_key(c), mix64(mix64(k + 10, base), mix64(ri, si))), true);
                            c.streaming = true; c.chunks = { 16, 16, 0, 16, tail / 2, tail - tail / 2 };
                            exec_case(ctx, c, run, mix64(case_key(c), mix64(mix64(k + 10, base), mix64(ri, si))), true);
                            ctx.cls("poly1305_crafted_target_base" + std::to_string(base));
                        }
                    }
    // limb saturation after the 2^130 wrap (see above): one saturated carry chain per limb width, chain length and k
    for (int w : { 26, 44 })
        for (int j = 1; j <= (w == 26 ? 3 : 1); j++)
            for (int k = 1; k <= 6; k++)
                for (int oddbit = 0; oddbit < 2; oddbit++)
                    for (size_t si = 0; si < ss.size(); si++) {
                        Bytes srand = r.bytes(16);
                        if (!ctx.mine(idx++)) continue;
                        ref::N384 V = ref::N384::pow2((unsigned) w).sub(ref::N384::small((uint32_t) k));
                        for (int l = 1; l <= j; l++) V = V.add(ref::N384::pow2((unsigned) (w * (l + 1))).sub(ref::N384::pow2((unsigned) (w * l))));
                        if (oddbit) V = V.add(ref::N384::pow2((unsigned) (w * (j + 1))));
                        if (V.cmp(ref::N384::pow2(128)) >= 0) continue;
                        Case c; c.alg = POLY1305; c.mseed = idx; c.mcls = 0;
                        c.msg_override = le16(V); c.msg_override.resize(64, 0);
                        c.mlen = 64; c.key = rs[0]; Bytes s = ss[si].empty() ? srand : ss[si]; c.key.insert(c.key.end(), s.begin(), s.end()); c.outlen = 0;
                        for (size_t mi : { (size_t) 0, masks.size() - 1 }) {
                            c.mask = masks[mi];
                            c.streaming = false; c.chunks.clear();
                            exec_case(ctx, c, run, mix64(case_key(c), mix64(mix64(w, j), mix64(k, oddbit * 4 + (int) si))), true);
                            c.streaming = true; c.chunks = { 16, 16, 16, 16 };
                            exec_case(ctx, c, run, mix64(case_key(c), mix64(mix64(w, j), mix64(k, 100 + oddbit * 4 + (int) si))), true);
                            ctx.cls("poly1305_limb_saturation_w" + std::to_string(w));
                        }
                    }
    // all-ff / all-00 blocks with extreme keys, every final-block length
    for (size_t nblk = 0; nblk <= (ctx.thorough() ? 40 : 20); nblk++)
        for (size_t tail = 0; tail < 32; tail++)
            for (int fill : { 0xff, 0x00 })
                for (size_t ri = 0; ri < 4; ri++) {
                    if (!ctx.mine(idx++)) continue;
                    Case c; c.alg = POLY1305; c.mseed = idx; c.mcls = 0; c.msg_override = Bytes(16 * nblk + tail, (uint8_t) fill); if (c.msg_override.empty()) continue;
                    c.mlen = c.msg_override.size(); c.key = rs[ri]; Bytes s(16, ri % 2 ? 0xff : 0x01); c.key.insert(c.key.end(), s.begin(), s.end()); c.outlen = 0;
                    for (size_t mi : { (size_t) 0, masks.size() - 1 }) {
                        c.mask = masks[mi]; c.streaming = (tail % 2); c.chunks.clear();
                        if (c.streaming) { size_t left = c.mlen; size_t step = 1 + tail; while (left) { size_t kx = std::min(left, step); c.chunks.push_back(kx); left -= kx; } }
                        exec_case(ctx, c, run, mix64(case_key(c), mix64(fill, ri)), true);
                    }
                }
    // keys whose powers are structured: the vectorised back end precomputes r^2 and r^4; one limb of that power (44- and 26-bit limbs)
    // tiny or saturated, next limb odd / even.  The keys were solved for offline (tools/poly1305_hard_keys.c: modular square roots
    // filtered for valid clamped keys); here every message length that reaches the r^2 / r^4 code is run with them.
    struct HardKey { int e, radix, limb, sat, odd; const char *r, *power; };
    static const HardKey HK[] = {
#include "poly1305_hard_keys.inc"
        { 0, 0, 0, 0, 0, nullptr, nullptr } };
    for (size_t hi = 0; HK[hi].r != nullptr; hi++)
        for (size_t len : { (size_t) 16, (size_t) 17, (size_t) 31, (size_t) 32, (size_t) 33, (size_t) 48, (size_t) 63, (size_t) 64, (size_t) 65, (size_t) 96, (size_t) 127, (size_t) 128, (size_t) 129, (size_t) 160, (size_t) 255, (size_t) 256, (size_t) 257, (size_t) 300, (size_t) 512, (size_t) 1000 }) {
            Bytes srand = r.bytes(16); uint64_t ms = r.next();
            if (!ctx.mine(idx++)) continue;
            Case c; c.alg = POLY1305; c.mseed = ms; c.mcls = 0; c.mlen = len; c.key = unhex(HK[hi].r); c.key.insert(c.key.end(), srand.begin(), srand.end()); c.outlen = 0;
            for (size_t mi = 0; mi < masks.size(); mi++) {
                c.mask = masks[mi];
                c.streaming = false; c.chunks.clear();
                exec_case(ctx, c, run, mix64(case_key(c), mix64(hi, 0x4a)), true);
                c.streaming = true; c.chunks = { len / 3, 0, len / 2 - len / 3, len - len / 2 };
                exec_case(ctx, c, run, mix64(case_key(c), mix64(hi, 0x4b)), true);
            }
            ctx.cls(std::string("poly1305_hard_key_r^") + std::to_string(HK[hi].e) + "_radix" + std::to_string(HK[hi].radix));
        }
}

// ------------------------------------------------------------------ messages of 4 GiB and more (thorough tier, non-sanitizer build)
// The message is a sparse private mapping of 2^32 + 13 bytes (zero pages with a few poked bytes; reading it costs no memory).  Oracles:
// SipHash against a pointer-based model written here; every algorithm with a streaming API: one-shot == the same message fed in pieces of
// 2^24 + 1 bytes (the property's chunking clause; each piece is in the range checked against the models); and the digest must differ from
// that of the first (len mod 2^32) bytes, which is what a length truncated to 32 bits would hash.
uint64_t ref_siphash_ptr(const uint8_t *in, uint64_t n, const uint8_t k[16], uint64_t *second) {     // SipHash-2-4, 64-bit (second == nullptr) or 128-bit output
    auto rotl = [](uint64_t x, int b) { return (x << b) | (x >> (64 - b)); };
    auto ld = [](const uint8_t *p) { uint64_t v = 0; for (int i = 7; i >= 0; i--) v = (v << 8) | p[i]; return v; };
    uint64_t k0 = ld(k), k1 = ld(k + 8), v0 = 0x736f6d6570736575ULL ^ k0, v1 = 0x646f72616e646f6dULL ^ k1, v2 = 0x6c7967656e657261ULL ^ k0, v3 = 0x7465646279746573ULL ^ k1;
    if (second) v1 ^= 0xee;
    auto round = [&]() { v0 += v1; v1 = rotl(v1, 13); v1 ^= v0; v0 = rotl(v0, 32); v2 += v3; v3 = rotl(v3, 16); v3 ^= v2; v0 += v3; v3 = rotl(v3, 21); v3 ^= v0; v2 += v1; v1 = rotl(v1, 17); v1 ^= v2; v2 = rotl(v2, 32); };
    uint64_t full = n / 8 * 8;
    for (uint64_t off = 0; off < full; off += 8) { uint64_t m = ld(in + off); v3 ^= m; round(); round(); v0 ^= m; }
    uint64_t b = n << 56; for (uint64_t i = 0; i < n - full; i++) b |= (uint64_t) in[full + i] << (8 * i);
    v3 ^= b; round(); round(); v0 ^= b;
    v2 ^= second ? 0xee : 0xff; round(); round(); round(); round();
    uint64_t r = v0 ^ v1 ^ v2 ^ v3;
    if (second) { v1 ^= 0xdd; round(); round(); round(); round(); *second = v0 ^ v1 ^ v2 ^ v3; }
    return r;
}
struct GiantCase { int alg; size_t len; unsigned long mask; KV kv() const { KV k; k.s("kind", "giant").s("alg", AN[alg]).u("algi", alg).u("len", len).u("mask", mask); return k; } };
uint64_t g_giant_skipped = 0;
Bytes giant_digest(int alg, const uint8_t *p, size_t n, size_t piece, const Bytes &key) {      // piece == 0: one-shot
    Bytes out(64, 0);
    auto feed = [&](auto upd) { if (piece == 0) return; for (size_t off = 0; off < n; off += piece) upd(p + off, std::min(piece, n - off)); };
    switch (alg) {
    case SHA256: if (!piece) crypto_hash_sha256(out.data(), p, n); else { crypto_hash_sha256_state s; crypto_hash_sha256_init(&s); feed([&](const uint8_t *q, size_t l) { crypto_hash_sha256_update(&s, q, l); }); crypto_hash_sha256_final(&s, out.data()); } out.resize(32); break;
    case SHA512: if (!piece) crypto_hash_sha512(out.data(), p, n); else { crypto_hash_sha512_state s; crypto_hash_sha512_init(&s); feed([&](const uint8_t *q, size_t l) { crypto_hash_sha512_update(&s, q, l); }); crypto_hash_sha512_final(&s, out.data()); } break;
    case HMAC256: if (!piece) crypto_auth_hmacsha256(out.data(), p, n, key.data()); else { crypto_auth_hmacsha256_state s; crypto_auth_hmacsha256_init(&s, key.data(), 32); feed([&](const uint8_t *q, size_t l) { crypto_auth_hmacsha256_update(&s, q, l); }); crypto_auth_hmacsha256_final(&s, out.data()); } out.resize(32); break;
    case HMAC512: if (!piece) crypto_auth_hmacsha512(out.data(), p, n, key.data()); else { crypto_auth_hmacsha512_state s; crypto_auth_hmacsha512_init(&s, key.data(), 32); feed([&](const uint8_t *q, size_t l) { crypto_auth_hmacsha512_update(&s, q, l); }); crypto_auth_hmacsha512_final(&s, out.data()); } break;
    case HMAC512256: if (!piece) crypto_auth_hmacsha512256(out.data(), p, n, key.data()); else { crypto_auth_hmacsha512256_state s; crypto_auth_hmacsha512256_init(&s, key.data(), 32); feed([&](const uint8_t *q, size_t l) { crypto_auth_hmacsha512256_update(&s, q, l); }); crypto_auth_hmacsha512256_final(&s, out.data()); } out.resize(32); break;
    case GENERIC: if (!piece) crypto_generichash(out.data(), 48, p, n, key.data(), 32); else { crypto_generichash_state s; crypto_generichash_init(&s, key.data(), 32, 48); feed([&](const uint8_t *q, size_t l) { crypto_generichash_update(&s, q, l); }); crypto_generichash_final(&s, out.data(), 48); } out.resize(48); break;
    case POLY1305: if (!piece) crypto_onetimeauth(out.data(), p, n, key.data()); else { crypto_onetimeauth_state s; crypto_onetimeauth_init(&s, key.data()); feed([&](const uint8_t *q, size_t l) { crypto_onetimeauth_update(&s, q, l); }); crypto_onetimeauth_final(&s, out.data()); } out.resize(16); break;
    case SIPHASH: crypto_shorthash(out.data(), p, n, key.data()); out.resize(8); break;
    default: crypto_shorthash_siphashx24(out.data(), p, n, key.data()); out.resize(16); break;
    }
    return out;
}
bool run_giant(const GiantCase &c, std::string &msg) {
    set_mask(c.mask);
    giant::Map M(c.len); if (!M.ok()) { g_giant_skipped++; return true; }
    M.poke();
    Bytes key(32); for (size_t i = 0; i < 32; i++) key[i] = (uint8_t) (0x30 + 5 * i);
    Bytes one = giant_digest(c.alg, M.p, c.len, 0, key);
    char b[300];
    if (c.alg == SIPHASH || c.alg == SIPHASHX) {
        uint64_t second = 0, first = ref_siphash_ptr(M.p, c.len, key.data(), c.alg == SIPHASHX ? &second : nullptr);
        Bytes want; for (int i = 0; i < 8; i++) want.push_back((uint8_t) (first >> (8 * i))); if (c.alg == SIPHASHX) for (int i = 0; i < 8; i++) want.push_back((uint8_t) (second >> (8 * i)));
        if (one != want) { snprintf(b, sizeof b, "%s over %zu bytes differs from the specification: got %s want %s", AN[c.alg], c.len, hex(one).c_str(), hex(want).c_str()); msg = b; return false; }
    } else {
        Bytes pieces = giant_digest(c.alg, M.p, c.len, ((size_t) 1 << 24) + 1, key);
        if (one != pieces) { snprintf(b, sizeof b, "%s over %zu bytes: the one-shot result %s differs from the same message fed in pieces of 2^24+1 bytes (%s)", AN[c.alg], c.len, hex(one).c_str(), hex(pieces).c_str()); msg = b; return false; }
        // the streaming entry point itself with a length that needs more than 32 bits: everything in one update call, and 2^32 bytes + the rest
        for (size_t piece : { c.len, (size_t) 1 << 32 }) {
            Bytes big = giant_digest(c.alg, M.p, c.len, piece, key);
            if (one != big) { snprintf(b, sizeof b, "%s over %zu bytes: init / update(%zu bytes)%s / final gives %s, the one-shot function and the small pieces give %s", AN[c.alg], c.len, piece, piece < c.len ? " / update(the rest)" : "", hex(big).c_str(), hex(one).c_str()); msg = b; return false; }
        }
    }
    Bytes trunc = giant_digest(c.alg, M.p, c.len & 0xffffffffULL, 0, key);
    if (one == trunc) { snprintf(b, sizeof b, "%s over %zu bytes equals the result for the first %zu bytes only (length truncated to 32 bits)", AN[c.alg], c.len, (size_t) (c.len & 0xffffffffULL)); msg = b; return false; }
    return true;
}
void explore_giant(Ctx &ctx) {
    if (!ctx.thorough() || !giant::fast_build() || !giant::first_round()) { ctx.notes["giant_messages"] = "thorough tier, non-sanitizer build, first round only"; return; }
    auto masks = masks04();
    uint64_t idx = 0;
    for (int alg : { SHA256, SHA512, HMAC256, HMAC512, HMAC512256, GENERIC, POLY1305, SIPHASH, SIPHASHX })
        for (size_t mi = 0; mi < masks.size(); mi++) {
            if (mi > 0 && alg != GENERIC && alg != POLY1305) continue;      // only these two have several backends
            if (!ctx.mine(idx++)) continue;
            GiantCase c{ alg, ((size_t) 1 << 32) + 13, masks[mi] };
            exec_case(ctx, c, run_giant, mix64(mix64(alg, c.len), c.mask), true);
        }
    ctx.notes["giant_messages_skipped_no_memory"] = std::to_string(g_giant_skipped);
}

// ------------------------------------------------------------------ verify functions accept exactly the correct tag
struct VCase {
    int alg; uint64_t mseed; size_t mlen; Bytes key; int flipbit;   // flipbit < 0: correct tag
    KV kv() const { KV k; k.s("kind", "verify").s("alg", AN[alg]).u("mseed", mseed).u("mlen", mlen).b("key", key).i("flipbit", flipbit); return k; }
};
bool run_verify(const VCase &v, std::string &msg) {
    set_mask(F_ALL);
    Bytes m = bytes_from_seed(v.mseed, v.mlen);
    Case c; c.alg = v.alg; c.key = v.key; c.outlen = 0;
    ref::Bytes tag = model(c, m);
    if (v.flipbit >= 0) tag[(size_t) v.flipbit / 8] ^= (uint8_t) (1u << (v.flipbit % 8));
    XBuf tb(tag, 1), mb(m, 2), kb(v.key, 3);
    int rc;
    switch (v.alg) {
    case HMAC256: rc = crypto_auth_hmacsha256_verify(tb.p, mb.p, m.size(), kb.p); break;
    case HMAC512: rc = crypto_auth_hmacsha512_verify(tb.p, mb.p, m.size(), kb.p); break;
    case HMAC512256: rc = (v.mseed & 1) ? crypto_auth_verify(tb.p, mb.p, m.size(), kb.p) : crypto_auth_hmacsha512256_verify(tb.p, mb.p, m.size(), kb.p); break;
    default: rc = (v.mseed & 1) ? crypto_onetimeauth_verify(tb.p, mb.p, m.size(), kb.p) : crypto_onetimeauth_poly1305_verify(tb.p, mb.p, m.size(), kb.p); break;
    }
    int want = v.flipbit < 0 ? 0 : -1;
    if (rc != want) { char b[200]; snprintf(b, sizeof b, "%s verify returned %d, expected %d (len=%zu, flipped tag bit %d)", AN[v.alg], rc, want, v.mlen, v.flipbit); msg = b; return false; }
    return true;
}
void explore_verify(Ctx &ctx) {
    Rng r = ctx.rng("c04-verify");
    uint64_t idx = 0;
    for (int alg : { HMAC256, HMAC512, HMAC512256, POLY1305 })
        for (size_t len : { 0u, 1u, 16u, 17u, 63u, 64u, 65u, 128u, 300u, 1000u }) {
            uint64_t ms = r.next(); Bytes key = r.bytes(32);
            if (!ctx.mine(idx++)) continue;
            size_t bits = (alg == HMAC512 ? 64 : alg == POLY1305 ? 16 : 32) * 8;
            VCase ok{ alg, ms, len, key, -1 }; exec_case(ctx, ok, run_verify, mix64(mix64(alg, len), 9999), true);
            for (size_t b = 0; b < bits; b++) { VCase v{ alg, ms, len, key, (int) b }; exec_case(ctx, v, run_verify, mix64(mix64(alg, len), b), true); }
        }
}

// ------------------------------------------------------------------ KDFs and out-of-range lengths
struct KCase {
    int kind; size_t outlen; Bytes key, ctxb; uint64_t id; bool null_ctx;   // kind 0 kdf_derive, 1 hkdf256 expand, 2 hkdf512 expand, 3 generichash range, 4 generichash init range
    KV kv() const { KV k; k.s("kind", "kdf").u("k", kind).u("outlen", outlen).b("key", key).b("ctx", ctxb).u("id", id).u("null_ctx", null_ctx); return k; }
};
bool run_kdf(const KCase &c, std::string &msg) {
    set_mask(F_ALL);
    char b[300];
    if (c.kind == 0) {
        bool valid = c.outlen >= 16 && c.outlen <= 64;
        XBuf out(c.outlen, 3, 0xcd), key(c.key, 1), cx(c.ctxb, 2);
        int rc = (c.id & 1) ? crypto_kdf_derive_from_key(out.p, c.outlen, c.id, (const char *) cx.p, key.p) : crypto_kdf_blake2b_derive_from_key(out.p, c.outlen, c.id, (const char *) cx.p, key.p);
        if (!valid) {
            if (rc != -1) { snprintf(b, sizeof b, "crypto_kdf_derive_from_key(subkey_len=%zu) returned %d, expected -1", c.outlen, rc); msg = b; return false; }
            for (auto x : out.get()) if (x != 0xcd) { msg = "crypto_kdf_derive_from_key failed but wrote output"; return false; }
            return true;
        }
        Bytes salt(16, 0), pers(16, 0); ref::st64le(salt.data(), c.id); memcpy(pers.data(), c.ctxb.data(), 8);
        ref::Bytes want = ref::blake2b(Bytes(), c.outlen, c.key, salt, pers);
        if (rc != 0 || out.get() != want) { snprintf(b, sizeof b, "crypto_kdf_derive_from_key(len=%zu, id=%llu): rc=%d got %s want %s", c.outlen, (unsigned long long) c.id, rc, hexshort(out.get()).c_str(), hexshort(want).c_str()); msg = b; return false; }
        return true;
    }
    if (c.kind == 1 || c.kind == 2) {
        size_t hl = c.kind == 1 ? 32 : 64; bool valid = c.outlen <= 255 * hl;
        size_t cap = valid ? c.outlen : 16;
        XBuf out(cap, 3, 0xcd), prk(c.key, 1), cx(c.ctxb, 2);
        const char *cp = c.null_ctx ? nullptr : (const char *) cx.p;
        size_t cl = c.null_ctx ? 0 : c.ctxb.size();
        int rc = c.kind == 1 ? crypto_kdf_hkdf_sha256_expand(out.p, c.outlen, cp, cl, prk.p) : crypto_kdf_hkdf_sha512_expand(out.p, c.outlen, cp, cl, prk.p);
        if (!valid) {
            if (rc != -1) { snprintf(b, sizeof b, "hkdf expand(out_len=%zu) returned %d, expected -1", c.outlen, rc); msg = b; return false; }
            for (auto x : out.get()) if (x != 0xcd) { msg = "hkdf expand failed but wrote output"; return false; }
            return true;
        }
        ref::Bytes want = ref::hkdf_expand(c.kind == 1 ? ref::H_SHA256 : ref::H_SHA512, c.key, c.null_ctx ? Bytes() : c.ctxb, c.outlen);
        if (rc != 0 || out.get() != want) { snprintf(b, sizeof b, "hkdf_sha%d expand(out_len=%zu, ctx_len=%zu) differs from RFC 5869 (rc=%d)", c.kind == 1 ? 256 : 512, c.outlen, cl, rc); msg = b; return false; }
        return true;
    }
    // generichash out-of-range digest / key lengths
    {
        size_t ol = c.outlen, kl = c.key.size();
        bool valid = ol >= 1 && ol <= 64 && kl <= 64;
        XBuf out(valid ? ol : 8, 3, 0xcd), key(c.key, 1);
        int rc;
        if (c.kind == 3) rc = crypto_generichash(out.p, ol, (const uint8_t *) "abc", 3, kl ? key.p : nullptr, kl);
        else { crypto_generichash_state *st = (crypto_generichash_state *) aligned_alloc(64, 448); rc = crypto_generichash_init(st, kl ? key.p : nullptr, kl, ol); free(st); }
        if (valid != (rc == 0)) { snprintf(b, sizeof b, "crypto_generichash%s(outlen=%zu, keylen=%zu) returned %d", c.kind == 3 ? "" : "_init", ol, kl, rc); msg = b; return false; }
        if (!valid) for (auto x : out.get()) if (x != 0xcd) { msg = "crypto_generichash failed but wrote output"; return false; }
        return true;
    }
}
void explore_kdf(Ctx &ctx) {
    Rng r = ctx.rng("c04-kdf");
    uint64_t idx = 0;
    for (size_t ol = 0; ol <= 80; ol++)
        for (uint64_t id : { (uint64_t) 0, (uint64_t) 1, ~(uint64_t) 0, r.next(), r.next() | 1 }) {
            KCase c{ 0, ol, r.bytes(32), r.bytes_class(8, (int) r.below(3)), id, false };
            if (!ctx.mine(idx++)) continue;
            exec_case(ctx, c, run_kdf, mix64(mix64(0, ol), id), true);
        }
    for (int kind : { 1, 2 }) {
        size_t hl = kind == 1 ? 32 : 64, maxo = 255 * hl;
        std::vector<size_t> ols;
        for (size_t o = 0; o <= 200; o++) ols.push_back(o);
        for (size_t o = 200; o < maxo; o += (ctx.thorough() ? 37 : 211)) ols.push_back(o);
        for (size_t o : { maxo - hl - 1, maxo - hl, maxo - hl + 1, maxo - 1, maxo, maxo + 1, maxo + hl, maxo * 2 }) ols.push_back(o);
        for (size_t o : ols) {
            size_t cl = r.below(8) == 0 ? 100 : r.below(101);
            KCase c{ kind, o, r.bytes(hl), r.bytes(cl), 0, (o % 11 == 0) };
            if (!ctx.mine(idx++)) continue;
            exec_case(ctx, c, run_kdf, mix64(mix64(kind, o), cl), true);
        }
    }
    for (int kind : { 3, 4 })
        for (size_t ol : { 0u, 1u, 15u, 16u, 32u, 64u, 65u, 66u, 128u, 255u, 256u, 257u, 1000u })
            for (size_t kl : { 0u, 1u, 16u, 64u, 65u, 66u, 128u, 255u, 256u, 300u }) {
                KCase c{ kind, ol, r.bytes(kl), Bytes(), 0, false };
                if (!ctx.mine(idx++)) continue;
                exec_case(ctx, c, run_kdf, mix64(mix64(kind, ol), kl), true);
            }
}

bool replay(const KV &k, std::string &msg) {
    if (k.gs("kind") == "verify") { VCase v; v.alg = 0; for (int i = 0; i < NALG; i++) if (k.gs("alg") == AN[i]) v.alg = i; v.mseed = k.gu("mseed"); v.mlen = k.gu("mlen"); v.key = k.gb("key"); v.flipbit = (int) k.gi("flipbit"); return run_verify(v, msg); }
    if (k.gs("kind") == "giant") { GiantCase c{ (int) k.gu("algi"), (size_t) k.gu("len"), (unsigned long) k.gu("mask") }; return run_giant(c, msg); }
    if (k.gs("kind") == "kdf") { KCase c{ (int) k.gu("k"), (size_t) k.gu("outlen"), k.gb("key"), k.gb("ctx"), k.gu("id"), k.gu("null_ctx") != 0 }; return run_kdf(c, msg); }
    Case c = Case::from(k); return run(c, msg);
}

}  // namespace

std::vector<Sub> vh_subs() {
    return { { "lengths", explore_lengths, replay }, { "chunking", explore_chunking, replay }, { "poly1305_carry", explore_poly_carry, replay }, { "verify", explore_verify, replay }, { "kdf", explore_kdf, replay }, { "giant_messages", explore_giant, replay } };
}
