// C20 -- memory exhaustion makes password hashing and guarded allocation fail closed.
// Link-time interposition (-Wl,--wrap=...) of malloc/calloc/realloc/posix_memalign/aligned_alloc/free/mmap/munmap;
// faults are armed only around the library call.  For every API and parameter set a counting run records the n
// allocation requests; then every position i < n fails alone, and every suffix "all from i on" fails.
#include "vh_main.hpp"
#include "argon2.hpp"
#include <sys/mman.h>
#include <errno.h>
using namespace vh;

extern "C" {
void *__real_malloc(size_t); void *__real_calloc(size_t, size_t); void *__real_realloc(void *, size_t); int __real_posix_memalign(void **, size_t, size_t);
void *__real_aligned_alloc(size_t, size_t); void __real_free(void *); void *__real_mmap(void *, size_t, int, int, int, off_t); int __real_munmap(void *, size_t);
}

namespace fi {
bool armed = false; long counter = 0; long fail_at = -1; bool fail_from = false; long hits = 0;
const int MAXLIVE = 4096; void *live[MAXLIVE]; size_t live_len[MAXLIVE]; int nlive = 0; long anomalies = 0; char anomaly_msg[200];
bool should_fail() { long i = counter++; bool f = fail_at >= 0 && (fail_from ? i >= fail_at : i == fail_at); if (f) hits++; return f; }
void add(void *p, size_t n) { if (nlive < MAXLIVE) { live[nlive] = p; live_len[nlive] = n; nlive++; } }
bool del(void *p) { for (int i = 0; i < nlive; i++) if (live[i] == p) { live[i] = live[nlive - 1]; live_len[i] = live_len[nlive - 1]; nlive--; return true; } return false; }
void anomaly(const char *m) { if (!anomalies) snprintf(anomaly_msg, sizeof anomaly_msg, "%s", m); anomalies++; }
void reset(long at, bool from) { counter = 0; fail_at = at; fail_from = from; hits = 0; nlive = 0; anomalies = 0; anomaly_msg[0] = 0; }
}  // namespace fi

extern "C" {
void *__wrap_malloc(size_t n) { if (!fi::armed) return __real_malloc(n); if (fi::should_fail()) { errno = ENOMEM; return nullptr; } void *p = __real_malloc(n); if (p) fi::add(p, n); return p; }
void *__wrap_calloc(size_t a, size_t b) { if (!fi::armed) return __real_calloc(a, b); if (fi::should_fail()) { errno = ENOMEM; return nullptr; } void *p = __real_calloc(a, b); if (p) fi::add(p, a * b); return p; }
void *__wrap_realloc(void *q, size_t n) { if (!fi::armed) return __real_realloc(q, n); if (fi::should_fail()) { errno = ENOMEM; return nullptr; } if (q && !fi::del(q)) fi::anomaly("realloc of a block that is not live"); void *p = __real_realloc(q, n); if (p) fi::add(p, n); return p; }
int __wrap_posix_memalign(void **out, size_t al, size_t n) { if (!fi::armed) return __real_posix_memalign(out, al, n); if (fi::should_fail()) return ENOMEM; int r = __real_posix_memalign(out, al, n); if (r == 0) fi::add(*out, n); return r; }
void *__wrap_aligned_alloc(size_t al, size_t n) { if (!fi::armed) return __real_aligned_alloc(al, n); if (fi::should_fail()) { errno = ENOMEM; return nullptr; } void *p = __real_aligned_alloc(al, n); if (p) fi::add(p, n); return p; }
void __wrap_free(void *p) { if (fi::armed && p && !fi::del(p)) fi::anomaly("free of a block that is not live (double free or foreign pointer)"); __real_free(p); }
void *__wrap_mmap(void *a, size_t n, int pr, int fl, int fd, off_t off) { if (!fi::armed) return __real_mmap(a, n, pr, fl, fd, off); if (fi::should_fail()) { errno = ENOMEM; return MAP_FAILED; } void *p = __real_mmap(a, n, pr, fl, fd, off); if (p != MAP_FAILED) fi::add(p, n); return p; }
int __wrap_munmap(void *p, size_t n) { if (fi::armed && !fi::del(p)) fi::anomaly("munmap of a region that is not live"); return __real_munmap(p, n); }
}

namespace {

enum Api { PWHASH_I, PWHASH_ID, STR_ID, STR_I, STR_ALG_I, VERIFY_OK, VERIFY_BAD, VERIFY_I_OK, VERIFY_ID_SPECIFIC, NEEDS_REHASH, NEEDS_REHASH_DIFF, SCRYPT_RAW, SCRYPT_LL, SCRYPT_STR, SCRYPT_VERIFY_OK, SCRYPT_VERIFY_BAD, SODIUM_MALLOC, SODIUM_ALLOCARRAY, VERIFY_LONG_OK, VERIFY_LONG_BAD, NAPI };
bool is_alloc_api(int a) { return a == SODIUM_MALLOC || a == SODIUM_ALLOCARRAY; }
bool is_long_api(int a) { return a == VERIFY_LONG_OK || a == VERIFY_LONG_BAD; }
const char *AN[] = { "crypto_pwhash(argon2i)", "crypto_pwhash(argon2id)", "crypto_pwhash_str", "crypto_pwhash_argon2i_str", "crypto_pwhash_str_alg(argon2i)", "crypto_pwhash_str_verify(right password)", "crypto_pwhash_str_verify(wrong password)",
                     "crypto_pwhash_str_verify(argon2i string)", "crypto_pwhash_argon2id_str_verify", "crypto_pwhash_str_needs_rehash(same)", "crypto_pwhash_str_needs_rehash(different)", "crypto_pwhash_scryptsalsa208sha256",
                     "crypto_pwhash_scryptsalsa208sha256_ll", "crypto_pwhash_scryptsalsa208sha256_str", "crypto_pwhash_scryptsalsa208sha256_str_verify(right)", "crypto_pwhash_scryptsalsa208sha256_str_verify(wrong)", "sodium_malloc", "sodium_allocarray",
                     "crypto_pwhash_str_verify(foreign string longer than 128 characters, right password)", "crypto_pwhash_str_verify(foreign string longer than 128 characters, wrong password)" };

struct Case {
    int api; int pset; long fail_at; bool from;      // fail_at -1 = counting run
    unsigned long mask = F_ALL;                      // CPU-feature mask: the scrypt sse / nosse and the Argon2 backends have their own allocation-failure paths
    KV kv() const { KV k; k.s("api", AN[api]).u("apii", api).u("pset", pset).i("fail_at", fail_at).u("from", from).u("mask", mask); return k; }
};
struct Params { uint64_t ops; size_t mem; size_t outlen; size_t size; };
Params pset(int api, int i) {
    static const Params A[] = { { 3, 8192, 32, 0 }, { 4, 65536, 16, 0 }, { 3, 9216 + 512, 64, 0 }, { 3, 262144, 128, 0 } };
    static const Params S[] = { { 32768, 16777216, 32, 0 }, { 32768, 1 << 20, 16, 0 }, { 65536, 1 << 22, 64, 0 }, { 1048576, 33554432, 32, 0 } };     // the last one needs a 32 MiB scratch region (N = 2^15, r = 8)
    static const Params M[] = { { 0, 0, 0, 0 }, { 0, 0, 0, 1 }, { 0, 0, 0, 4095 }, { 0, 0, 0, 4096 }, { 0, 0, 0, 100000 } };
    if (is_long_api(api)) return A[i % 4];
    if (api >= SODIUM_MALLOC) return M[i % 5];
    if (api >= SCRYPT_RAW) return S[i % 4];
    Params p = A[i % 4]; if (api == PWHASH_ID || api == STR_ID || api == VERIFY_OK || api == VERIFY_BAD || api == VERIFY_ID_SPECIFIC || api == NEEDS_REHASH || api == NEEDS_REHASH_DIFF) p.ops = 1 + (p.ops % 3);
    return p;
}
int npsets(int api) { return is_long_api(api) ? 3 : api >= SODIUM_MALLOC ? 5 : api >= SCRYPT_RAW ? (api == SCRYPT_LL ? 3 : 4) : 4; }

// result of one library call: success flag as the API reports it, plus whether the reported success is "real"
struct Outcome { bool reported_success; bool produced; long requests; long hits; int live_after; long anomalies; std::string anomaly; };

Outcome call_api(const Case &c) {
    Params p = pset(c.api, c.pset);
    static const char *PW = "correct horse battery staple", *BAD = "Correct horse battery staple";
    size_t pwl = strlen(PW);
    unsigned char salt[32]; for (int i = 0; i < 32; i++) salt[i] = (unsigned char) (i * 3 + c.pset);
    unsigned char out[256]; char str[crypto_pwhash_STRBYTES], sstr[crypto_pwhash_scryptsalsa208sha256_STRBYTES];
    // prerequisites computed without faults
    bool need_str = c.api >= VERIFY_OK && c.api <= NEEDS_REHASH_DIFF, need_sstr = c.api == SCRYPT_VERIFY_OK || c.api == SCRYPT_VERIFY_BAD;
    if (need_str) { int rc = (c.api == VERIFY_I_OK) ? crypto_pwhash_argon2i_str(str, PW, pwl, 3, p.mem) : crypto_pwhash_str(str, PW, pwl, p.ops, p.mem); if (rc != 0) { fprintf(stderr, "VH-INFRA cannot prepare hash string\n"); _exit(2); } }
    if (need_sstr && crypto_pwhash_scryptsalsa208sha256_str(sstr, PW, pwl, p.ops, p.mem) != 0) { fprintf(stderr, "VH-INFRA cannot prepare scrypt string\n"); _exit(2); }
    // a hash string as another implementation writes it: longer salt and tag (and two lanes), more than crypto_pwhash_STRBYTES characters
    std::string lstr;
    if (is_long_api(c.api)) {
        static const size_t SL[] = { 48, 16, 32 }, TL[] = { 64, 96, 64 }; static const uint32_t LANES[] = { 1, 1, 2 }, MK[] = { 32, 64, 48 };
        int v = c.pset % 3; Bytes sl(SL[v]); for (size_t i = 0; i < sl.size(); i++) sl[i] = (uint8_t) (7 * i + 1 + (size_t) v);
        Bytes pwb((const uint8_t *) PW, (const uint8_t *) PW + pwl);
        Bytes tag = ref::argon2(2 - (v == 1), pwb, sl, 1 + (uint32_t) v, MK[v], LANES[v], (uint32_t) TL[v]);
        lstr = ref::argon2_encode_string(2 - (v == 1), MK[v], 1 + (uint32_t) v, LANES[v], sl, tag);
        if (tag.empty() || lstr.size() <= 128) { fprintf(stderr, "VH-INFRA cannot prepare the foreign hash string\n"); _exit(2); }
    }
    memset(out, 0, sizeof out);
    Outcome o{ false, false, 0, 0, 0, 0, "" };
    void *ptr = nullptr; int rc = -1;
    fi::reset(c.fail_at, c.from);
    fi::armed = true;
    switch (c.api) {
    case PWHASH_I: rc = crypto_pwhash(out, p.outlen, PW, pwl, salt, p.ops, p.mem, crypto_pwhash_ALG_ARGON2I13); break;
    case PWHASH_ID: rc = crypto_pwhash(out, p.outlen, PW, pwl, salt, p.ops, p.mem, crypto_pwhash_ALG_ARGON2ID13); break;
    case STR_ID: rc = crypto_pwhash_str(str, PW, pwl, p.ops, p.mem); break;
    case STR_I: rc = crypto_pwhash_argon2i_str(str, PW, pwl, p.ops, p.mem); break;
    case STR_ALG_I: rc = crypto_pwhash_str_alg(str, PW, pwl, p.ops, p.mem, crypto_pwhash_ALG_ARGON2I13); break;
    case VERIFY_OK: case VERIFY_I_OK: rc = crypto_pwhash_str_verify(str, PW, pwl); break;
    case VERIFY_BAD: rc = crypto_pwhash_str_verify(str, BAD, pwl); break;
    case VERIFY_ID_SPECIFIC: rc = crypto_pwhash_argon2id_str_verify(str, PW, pwl); break;
    case NEEDS_REHASH: rc = crypto_pwhash_str_needs_rehash(str, p.ops, p.mem); break;
    case NEEDS_REHASH_DIFF: rc = crypto_pwhash_str_needs_rehash(str, p.ops + 1, p.mem); break;
    case SCRYPT_RAW: rc = crypto_pwhash_scryptsalsa208sha256(out, p.outlen, PW, pwl, salt, p.ops, p.mem); break;
    case SCRYPT_LL: rc = crypto_pwhash_scryptsalsa208sha256_ll((const uint8_t *) PW, pwl, salt, 16, 1024, 8, 1, out, p.outlen); break;
    case SCRYPT_STR: rc = crypto_pwhash_scryptsalsa208sha256_str(sstr, PW, pwl, p.ops, p.mem); break;
    case SCRYPT_VERIFY_OK: rc = crypto_pwhash_scryptsalsa208sha256_str_verify(sstr, PW, pwl); break;
    case SCRYPT_VERIFY_BAD: rc = crypto_pwhash_scryptsalsa208sha256_str_verify(sstr, BAD, pwl); break;
    case VERIFY_LONG_OK: rc = crypto_pwhash_str_verify(lstr.c_str(), PW, pwl); break;
    case VERIFY_LONG_BAD: rc = crypto_pwhash_str_verify(lstr.c_str(), BAD, pwl); break;
    case SODIUM_MALLOC: ptr = sodium_malloc(p.size); rc = ptr ? 0 : -1; break;
    case SODIUM_ALLOCARRAY: ptr = sodium_allocarray(p.size ? 3 : 0, p.size); rc = ptr ? 0 : -1; break;
    }
    if (ptr) { if (p.size) ((volatile unsigned char *) ptr)[p.size - 1] = 1; sodium_free(ptr); }
    fi::armed = false;
    o.requests = fi::counter; o.hits = fi::hits; o.live_after = fi::nlive; o.anomalies = fi::anomalies; o.anomaly = fi::anomaly_msg;
    // "success" in the sense of the property
    switch (c.api) {
    case NEEDS_REHASH: o.reported_success = (rc == 0 || rc == 1); break;       // any verdict is a (wrong) success when an allocation failed
    case NEEDS_REHASH_DIFF: o.reported_success = (rc == 0 || rc == 1); break;
    default: o.reported_success = (rc == 0); break;
    }
    if (c.api == STR_ID || c.api == STR_I || c.api == STR_ALG_I) o.produced = (rc == 0) || (str[0] == '$' && crypto_pwhash_str_verify(str, PW, pwl) == 0);
    if (c.api == SCRYPT_STR) o.produced = (rc == 0) || (sstr[0] == '$' && crypto_pwhash_scryptsalsa208sha256_str_verify(sstr, PW, pwl) == 0);
    return o;
}

long g_last_requests = 0;
bool run(const Case &c, std::string &msg) {
    set_mask(c.mask);
    Outcome o = call_api(c);
    g_last_requests = o.requests;
    char b[400];
    if (o.anomalies) { snprintf(b, sizeof b, "%s [pset %d, fail_at %ld%s]: %s", AN[c.api], c.pset, c.fail_at, c.from ? "+" : "", o.anomaly.c_str()); msg = b; return false; }
    if (o.live_after != 0) { snprintf(b, sizeof b, "%s [pset %d, fail_at %ld%s]: %d allocation(s) still live after the call (leak)", AN[c.api], c.pset, c.fail_at, c.from ? "+" : "", o.live_after); msg = b; return false; }
    if (c.fail_at < 0) {
        bool want = (c.api != VERIFY_BAD && c.api != SCRYPT_VERIFY_BAD && c.api != VERIFY_LONG_BAD);
        if (o.reported_success != want) { snprintf(b, sizeof b, "%s [pset %d] without faults: success=%d, expected %d", AN[c.api], c.pset, o.reported_success, want); msg = b; return false; }
        if (o.requests == 0 && !is_alloc_api(c.api)) { snprintf(b, sizeof b, "%s made no allocation request at all (interposition ineffective?)", AN[c.api]); msg = b; return false; }
        return true;
    }
    if (o.hits == 0) return true;       // the armed position was not reached (earlier failure changed the path): nothing to assert
    if (o.reported_success || o.produced) {
        snprintf(b, sizeof b, "%s [pset %d]: allocation request #%ld%s failed but the call reported success%s", AN[c.api], c.pset, c.fail_at, c.from ? " and all later ones" : "", o.produced ? " / produced a usable hash string" : ""); msg = b; return false;
    }
    return true;
}

void explore(Ctx &ctx) {
    uint64_t idx = 0;
    for (int api = 0; api < NAPI; api++)
        for (int ps = 0; ps < npsets(api); ps++) {
            if (!ctx.mine(idx++)) continue;
            if (!ctx.thorough() && !is_alloc_api(api) && ps == 3 && api < SCRYPT_RAW) continue;
            // every backend the build can select: all features, no SIMD at all (scrypt nosse, Argon2 ref), SSSE3 only, AVX2 only
            std::vector<unsigned long> masks = { F_ALL };
            if (!is_alloc_api(api)) for (auto &m : mask_set(false)) if (m.name == "none" || m.name == "-avx2" || m.name == "-avx512f" || m.name == "-ssse3") masks.push_back(m.mask);
            for (unsigned long mask : masks) {
                Case cnt{ api, ps, -1, false }; cnt.mask = mask;
                if (!exec_case(ctx, cnt, run, mix64(mix64(api, ps), mix64(999999, mask)), false)) continue;
                long n = g_last_requests;
                if (mask == F_ALL) ctx.cls(std::string("requests:") + AN[api], (uint64_t) n);
                for (long i = 0; i < n; i++)
                    for (int from = 0; from < 2; from++) {
                        Case c{ api, ps, i, from != 0 }; c.mask = mask;
                        exec_case(ctx, c, run, mix64(mix64(api, ps), mix64(mix64((uint64_t) i, from), mask)), true);
                    }
            }
        }
}

bool replay(const KV &k, std::string &msg) { Case c{ (int) k.gu("apii"), (int) k.gu("pset"), (long) k.gi("fail_at"), k.gu("from") != 0 }; if (k.has("mask")) c.mask = (unsigned long) k.gu("mask"); return run(c, msg); }

}  // namespace

std::vector<Sub> vh_subs() { return { { "faults", explore, replay } }; }
