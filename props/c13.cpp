// C13 -- in-place and overlapping buffers give the same result as disjoint ones.
// Differential oracle: the same call with disjoint buffers (and, for open/decrypt, the original message).
#define VH_NO_SODIUM_INIT 1
#include "vh_main.hpp"
using namespace vh;

namespace {

// Sealed boxes draw an ephemeral key: a deterministic source, rewound before every call, makes the overlapped and the disjoint
// run of crypto_box_seal comparable byte for byte.
uint64_t g_rpos = 0;
void det_buf(void *p, size_t n) { uint8_t *b = (uint8_t *) p; for (size_t i = 0; i < n; i++) { uint64_t z = mix64(0x5ea1ed, (g_rpos + i) / 8); b[i] = (uint8_t) (z >> (8 * ((g_rpos + i) % 8))); } g_rpos += n; }
uint32_t det_random() { uint32_t v; det_buf(&v, 4); return v; }
const char *det_name() { return "c13-deterministic"; }
randombytes_implementation DET = { det_name, det_random, nullptr, nullptr, det_buf, nullptr };
void init_once() {
    static bool done = false;
    if (done) return;
    done = true;
    randombytes_set_implementation(&DET);
    if (sodium_init() < 0) { fprintf(stderr, "VH-INFRA sodium_init failed\n"); _exit(2); }
    sodium_verif_set_cpu_mask(F_ALL);
    detected_ref() = current_features();
}

inline const uint8_t *D(const Bytes &b) { static uint8_t z[8]; return b.empty() ? z : b.data(); }
inline uint8_t *D(Bytes &b) { static uint8_t z[8]; return b.empty() ? z : b.data(); }

struct Env {   // fixed secondary arguments of one case
    Bytes key, nonce, ad, pk, sk, pk2, sk2, beforenm, beforenm_x, signsk, signpk;
    uint64_t ic;
};

// An overlap-tolerant API: call(out, in, inlen, env, side) where `side` receives detached tags / reported lengths.
struct Api {
    const char *name;
    bool any_offset;                       // false: only exact aliasing is in the property
    bool is_open;                          // input must be produced by `make_input` from a message
    size_t (*outlen)(size_t inlen);
    std::function<int(uint8_t *out, const uint8_t *in, size_t inlen, const Env &, Bytes &side)> call;
    std::function<Bytes(const Bytes &msg, const Env &, Bytes &side_in)> make_input;   // for open/decrypt: ciphertext from message (side_in: detached tag)
    bool needs_aesgcm;
};

size_t same(size_t n) { return n; }
template <size_t K> size_t plus(size_t n) { return n + K; }
template <size_t K> size_t minus(size_t n) { return n >= K ? n - K : 0; }

std::vector<Api> &apis() {
    static std::vector<Api> v;
    if (!v.empty()) return v;
    auto nomake = std::function<Bytes(const Bytes &, const Env &, Bytes &)>();
    // ---------------- stream xor (exact aliasing)
#define STREAM(NAME, FN) v.push_back(Api{ NAME, false, false, same, [](uint8_t *o, const uint8_t *i, size_t n, const Env &e, Bytes &) { return FN; }, nomake, false });
    STREAM("stream_chacha20_xor", crypto_stream_chacha20_xor(o, i, n, D(e.nonce), D(e.key)))
    STREAM("stream_chacha20_xor_ic", crypto_stream_chacha20_xor_ic(o, i, n, D(e.nonce), e.ic, D(e.key)))
    STREAM("stream_chacha20_ietf_xor", crypto_stream_chacha20_ietf_xor(o, i, n, D(e.nonce), D(e.key)))
    STREAM("stream_chacha20_ietf_xor_ic", crypto_stream_chacha20_ietf_xor_ic(o, i, n, D(e.nonce), (uint32_t) (e.ic & 0xffffff), D(e.key)))
    STREAM("stream_xchacha20_xor", crypto_stream_xchacha20_xor(o, i, n, D(e.nonce), D(e.key)))
    STREAM("stream_xchacha20_xor_ic", crypto_stream_xchacha20_xor_ic(o, i, n, D(e.nonce), e.ic, D(e.key)))
    STREAM("stream_salsa20_xor", crypto_stream_salsa20_xor(o, i, n, D(e.nonce), D(e.key)))
    STREAM("stream_salsa20_xor_ic", crypto_stream_salsa20_xor_ic(o, i, n, D(e.nonce), e.ic, D(e.key)))
    STREAM("stream_salsa2012_xor", crypto_stream_salsa2012_xor(o, i, n, D(e.nonce), D(e.key)))
    STREAM("stream_salsa208_xor", crypto_stream_salsa208_xor(o, i, n, D(e.nonce), D(e.key)))
    STREAM("stream_xsalsa20_xor", crypto_stream_xsalsa20_xor(o, i, n, D(e.nonce), D(e.key)))
    STREAM("stream_xsalsa20_xor_ic", crypto_stream_xsalsa20_xor_ic(o, i, n, D(e.nonce), e.ic, D(e.key)))
    STREAM("stream_xor", crypto_stream_xor(o, i, n, D(e.nonce), D(e.key)))
    // ---------------- AEADs (exact aliasing): encrypt, encrypt_detached, decrypt, decrypt_detached
#define AEAD(P, ABYTES, GCM)                                                                                                                         \
    v.push_back(Api{ #P "_encrypt", false, false, plus<ABYTES>, [](uint8_t *o, const uint8_t *i, size_t n, const Env &e, Bytes &side) {             \
        unsigned long long cl = 0; int r = crypto_aead_##P##_encrypt(o, &cl, i, n, D(e.ad), e.ad.size(), nullptr, D(e.nonce), D(e.key)); \
        side.assign((uint8_t *) &cl, (uint8_t *) &cl + 8); return r; }, nomake, GCM });                                                              \
    v.push_back(Api{ #P "_encrypt_detached", false, false, same, [](uint8_t *o, const uint8_t *i, size_t n, const Env &e, Bytes &side) {            \
        unsigned long long ml = 0; side.assign(ABYTES + 8, 0);                                                                                       \
        int r = crypto_aead_##P##_encrypt_detached(o, D(side), &ml, i, n, D(e.ad), e.ad.size(), nullptr, D(e.nonce), D(e.key));      \
        memcpy(D(side) + ABYTES, &ml, 8); return r; }, nomake, GCM });                                                                           \
    v.push_back(Api{ #P "_decrypt", false, true, minus<ABYTES>, [](uint8_t *o, const uint8_t *i, size_t n, const Env &e, Bytes &side) {             \
        unsigned long long ml = 0; int r = crypto_aead_##P##_decrypt(o, &ml, nullptr, i, n, D(e.ad), e.ad.size(), D(e.nonce), D(e.key)); \
        side.assign((uint8_t *) &ml, (uint8_t *) &ml + 8); return r; },                                                                              \
        [](const Bytes &m, const Env &e, Bytes &) { Bytes c(m.size() + ABYTES); unsigned long long cl;                                               \
            crypto_aead_##P##_encrypt(D(c), &cl, D(m), m.size(), D(e.ad), e.ad.size(), nullptr, D(e.nonce), D(e.key)); return c; }, GCM }); \
    v.push_back(Api{ #P "_decrypt_detached", false, true, same, [](uint8_t *o, const uint8_t *i, size_t n, const Env &e, Bytes &side) {             \
        return crypto_aead_##P##_decrypt_detached(o, nullptr, i, n, D(side), D(e.ad), e.ad.size(), D(e.nonce), D(e.key)); },         \
        [](const Bytes &m, const Env &e, Bytes &side) { Bytes c(m.size()); side.assign(ABYTES, 0); unsigned long long ml;                            \
            crypto_aead_##P##_encrypt_detached(D(c), D(side), &ml, D(m), m.size(), D(e.ad), e.ad.size(), nullptr, D(e.nonce), D(e.key)); return c; }, GCM });
    AEAD(chacha20poly1305, 16, false)
    AEAD(chacha20poly1305_ietf, 16, false)
    AEAD(xchacha20poly1305_ietf, 16, false)
    AEAD(aes256gcm, 16, true)
    AEAD(aegis128l, 32, false)
    AEAD(aegis256, 32, false)
    // AES-256-GCM with precomputed key
    v.push_back(Api{ "aes256gcm_encrypt_afternm", false, false, plus<16>, [](uint8_t *o, const uint8_t *i, size_t n, const Env &e, Bytes &side) {
        crypto_aead_aes256gcm_state st; crypto_aead_aes256gcm_beforenm(&st, D(e.key));
        unsigned long long cl = 0; int r = crypto_aead_aes256gcm_encrypt_afternm(o, &cl, i, n, D(e.ad), e.ad.size(), nullptr, D(e.nonce), &st);
        side.assign((uint8_t *) &cl, (uint8_t *) &cl + 8); return r; }, nomake, true });
    v.push_back(Api{ "aes256gcm_decrypt_afternm", false, true, minus<16>, [](uint8_t *o, const uint8_t *i, size_t n, const Env &e, Bytes &side) {
        crypto_aead_aes256gcm_state st; crypto_aead_aes256gcm_beforenm(&st, D(e.key));
        unsigned long long ml = 0; int r = crypto_aead_aes256gcm_decrypt_afternm(o, &ml, nullptr, i, n, D(e.ad), e.ad.size(), D(e.nonce), &st);
        side.assign((uint8_t *) &ml, (uint8_t *) &ml + 8); return r; },
        [](const Bytes &m, const Env &e, Bytes &) { Bytes c(m.size() + 16); unsigned long long cl;
            crypto_aead_aes256gcm_encrypt(D(c), &cl, D(m), m.size(), D(e.ad), e.ad.size(), nullptr, D(e.nonce), D(e.key)); return c; }, true });
    // ---------------- secretbox / box easy + detached (arbitrary overlap)
#define SBOX(P)                                                                                                                                      \
    v.push_back(Api{ #P "_easy", true, false, plus<16>, [](uint8_t *o, const uint8_t *i, size_t n, const Env &e, Bytes &) { return P##_easy(o, i, n, D(e.nonce), D(e.key)); }, nomake, false }); \
    v.push_back(Api{ #P "_detached", true, false, same, [](uint8_t *o, const uint8_t *i, size_t n, const Env &e, Bytes &side) { side.assign(16, 0); return P##_detached(o, D(side), i, n, D(e.nonce), D(e.key)); }, nomake, false }); \
    v.push_back(Api{ #P "_open_easy", true, true, minus<16>, [](uint8_t *o, const uint8_t *i, size_t n, const Env &e, Bytes &) { return P##_open_easy(o, i, n, D(e.nonce), D(e.key)); }, \
        [](const Bytes &m, const Env &e, Bytes &) { Bytes c(m.size() + 16); P##_easy(D(c), D(m), m.size(), D(e.nonce), D(e.key)); return c; }, false });                       \
    v.push_back(Api{ #P "_open_detached", true, true, same, [](uint8_t *o, const uint8_t *i, size_t n, const Env &e, Bytes &side) { return P##_open_detached(o, i, D(side), n, D(e.nonce), D(e.key)); }, \
        [](const Bytes &m, const Env &e, Bytes &side) { Bytes c(m.size()); side.assign(16, 0); P##_detached(D(c), D(side), D(m), m.size(), D(e.nonce), D(e.key)); return c; }, false });
    SBOX(crypto_secretbox)
    SBOX(crypto_secretbox_xchacha20poly1305)
#define BOX(P, BN)                                                                                                                                   \
    v.push_back(Api{ #P "_easy", true, false, plus<16>, [](uint8_t *o, const uint8_t *i, size_t n, const Env &e, Bytes &) { return P##_easy(o, i, n, D(e.nonce), D(e.pk2), D(e.sk)); }, nomake, false }); \
    v.push_back(Api{ #P "_detached", true, false, same, [](uint8_t *o, const uint8_t *i, size_t n, const Env &e, Bytes &side) { side.assign(16, 0); return P##_detached(o, D(side), i, n, D(e.nonce), D(e.pk2), D(e.sk)); }, nomake, false }); \
    v.push_back(Api{ #P "_open_easy", true, true, minus<16>, [](uint8_t *o, const uint8_t *i, size_t n, const Env &e, Bytes &) { return P##_open_easy(o, i, n, D(e.nonce), D(e.pk), D(e.sk2)); }, \
        [](const Bytes &m, const Env &e, Bytes &) { Bytes c(m.size() + 16); P##_easy(D(c), D(m), m.size(), D(e.nonce), D(e.pk2), D(e.sk)); return c; }, false });             \
    v.push_back(Api{ #P "_open_detached", true, true, same, [](uint8_t *o, const uint8_t *i, size_t n, const Env &e, Bytes &side) { return P##_open_detached(o, i, D(side), n, D(e.nonce), D(e.pk), D(e.sk2)); }, \
        [](const Bytes &m, const Env &e, Bytes &side) { Bytes c(m.size()); side.assign(16, 0); P##_detached(D(c), D(side), D(m), m.size(), D(e.nonce), D(e.pk2), D(e.sk)); return c; }, false }); \
    v.push_back(Api{ #P "_easy_afternm", true, false, plus<16>, [](uint8_t *o, const uint8_t *i, size_t n, const Env &e, Bytes &) { return P##_easy_afternm(o, i, n, D(e.nonce), e.BN.data()); }, nomake, false }); \
    v.push_back(Api{ #P "_detached_afternm", true, false, same, [](uint8_t *o, const uint8_t *i, size_t n, const Env &e, Bytes &side) { side.assign(16, 0); return P##_detached_afternm(o, D(side), i, n, D(e.nonce), e.BN.data()); }, nomake, false }); \
    v.push_back(Api{ #P "_open_easy_afternm", true, true, minus<16>, [](uint8_t *o, const uint8_t *i, size_t n, const Env &e, Bytes &) { return P##_open_easy_afternm(o, i, n, D(e.nonce), e.BN.data()); }, \
        [](const Bytes &m, const Env &e, Bytes &) { Bytes c(m.size() + 16); P##_easy_afternm(D(c), D(m), m.size(), D(e.nonce), e.BN.data()); return c; }, false });                 \
    v.push_back(Api{ #P "_open_detached_afternm", true, true, same, [](uint8_t *o, const uint8_t *i, size_t n, const Env &e, Bytes &side) { return P##_open_detached_afternm(o, i, D(side), n, D(e.nonce), e.BN.data()); }, \
        [](const Bytes &m, const Env &e, Bytes &side) { Bytes c(m.size()); side.assign(16, 0); P##_detached_afternm(D(c), D(side), D(m), m.size(), D(e.nonce), e.BN.data()); return c; }, false });
    BOX(crypto_box, beforenm)
    BOX(crypto_box_curve25519xchacha20poly1305, beforenm_x)
    // ---------------- sealed boxes, sealed in place (exact aliasing, as the library's own test does); deterministic ephemeral key
    v.push_back(Api{ "crypto_box_seal", false, false, plus<48>, [](uint8_t *o, const uint8_t *i, size_t n, const Env &e, Bytes &side) {
        g_rpos = 0; int r = crypto_box_seal(o, i, n, D(e.pk2));
        if (r == 0) { Bytes opened(n); if (crypto_box_seal_open(D(opened), o, n + 48, D(e.pk2), D(e.sk2)) != 0) return -77; side = opened; }      // side: what the recipient gets back
        return r; }, nomake, false });
    v.push_back(Api{ "crypto_box_curve25519xchacha20poly1305_seal", false, false, plus<48>, [](uint8_t *o, const uint8_t *i, size_t n, const Env &e, Bytes &side) {
        g_rpos = 0; int r = crypto_box_curve25519xchacha20poly1305_seal(o, i, n, D(e.pk2));
        if (r == 0) { Bytes opened(n); if (crypto_box_curve25519xchacha20poly1305_seal_open(D(opened), o, n + 48, D(e.pk2), D(e.sk2)) != 0) return -77; side = opened; }
        return r; }, nomake, false });
    // ---------------- sign / sign_open
    v.push_back(Api{ "crypto_sign", true, false, plus<64>, [](uint8_t *o, const uint8_t *i, size_t n, const Env &e, Bytes &side) {
        unsigned long long sl = 0; int r = crypto_sign(o, &sl, i, n, D(e.signsk)); side.assign((uint8_t *) &sl, (uint8_t *) &sl + 8); return r; }, nomake, false });
    v.push_back(Api{ "crypto_sign_open", true, true, minus<64>, [](uint8_t *o, const uint8_t *i, size_t n, const Env &e, Bytes &side) {
        unsigned long long ml = 0; int r = crypto_sign_open(o, &ml, i, n, D(e.signpk)); side.assign((uint8_t *) &ml, (uint8_t *) &ml + 8); return r; },
        [](const Bytes &m, const Env &e, Bytes &) { Bytes sm(m.size() + 64); unsigned long long sl; crypto_sign(D(sm), &sl, D(m), m.size(), D(e.signsk)); return sm; }, false });
    return v;
}

size_t nonce_len(const std::string &n) {
    if (n.find("xchacha20") != std::string::npos || n.find("xsalsa20") != std::string::npos || n.find("secretbox") != std::string::npos || n.find("crypto_box") != std::string::npos || n == "stream_xor") return 24;
    if (n.find("chacha20poly1305_ietf") != std::string::npos || n.find("chacha20_ietf") != std::string::npos || n.find("aes256gcm") != std::string::npos) return 12;
    if (n.find("aegis128l") != std::string::npos) return 16;
    if (n.find("aegis256") != std::string::npos) return 32;
    return 8;
}
size_t key_len(const std::string &n) { return n.find("aegis128l") != std::string::npos ? 16 : 32; }

struct Case {
    int api; size_t mlen; int off; unsigned long mask; uint64_t cseed;
    bool tamper = false;     // decrypt forms only: the input is altered, the call must fail, and the shared buffer must not hold the plaintext afterwards
    KV kv() const { KV k; k.s("api", apis()[api].name).u("mlen", mlen).i("off", off).u("mask", mask).u("cseed", cseed).u("tamper", tamper); return k; }
};

Env make_env(const Api &a, Rng &r) {
    Env e;
    e.key = r.bytes(key_len(a.name)); e.nonce = r.bytes(nonce_len(a.name)); e.ad = r.bytes(r.below(40));
    {   // initial block counter: anywhere, small, or a few blocks below a 2^32 / 2^64 boundary (the vectorised cores treat a carry inside a batch separately)
        uint64_t rv = r.next();
        switch (r.below(4)) { case 0: e.ic = rv; break; case 1: e.ic = rv >> 40; break; case 2: e.ic = ((rv >> 34) << 32) | (0xffffffffULL - r.below(64)); break; default: e.ic = 0xffffffffffffffffULL - r.below(40); break; }
    }
    Bytes s1 = r.bytes(32), s2 = r.bytes(32), s3 = r.bytes(32);
    std::string nm = a.name;
    if (nm.find("crypto_box") == std::string::npos && nm.find("crypto_sign") == std::string::npos) return e;
    e.pk.resize(32); e.sk.resize(32); e.pk2.resize(32); e.sk2.resize(32);
    crypto_box_seed_keypair(D(e.pk), D(e.sk), D(s1));
    crypto_box_seed_keypair(D(e.pk2), D(e.sk2), D(s2));
    e.beforenm.resize(32); e.beforenm_x.resize(32);
    (void) !crypto_box_beforenm(D(e.beforenm), D(e.pk2), D(e.sk));
    (void) !crypto_box_curve25519xchacha20poly1305_beforenm(D(e.beforenm_x), D(e.pk2), D(e.sk));
    e.signpk.resize(32); e.signsk.resize(64);
    crypto_sign_seed_keypair(D(e.signpk), D(e.signsk), D(s3));
    return e;
}

bool run(const Case &c, std::string &msg) {
    init_once();
    const Api &a = apis()[c.api];
    set_mask(c.mask);
    if (a.needs_aesgcm && !crypto_aead_aes256gcm_is_available()) return true;
    Rng r(c.cseed);
    Env e = make_env(a, r);
    Bytes message = r.bytes(c.mlen), side_in, input = message;
    if (a.is_open) input = a.make_input(message, e, side_in);
    size_t inlen = input.size(), outlen = a.outlen(inlen);
    char b[300];
    if (c.tamper && a.any_offset) {
        // an opening call that must fail, with output and input overlapping at any offset: same verdict as with disjoint buffers; if the
        // disjoint call wipes its output (sign_open) the overlapped one must leave the same bytes; otherwise no decrypted plaintext may appear
        if (!a.is_open || inlen == 0) return true;
        Bytes bad = input, side_bad = side_in;
        if (!side_bad.empty() && (c.cseed & 1)) side_bad[(c.cseed >> 8) % side_bad.size()] ^= (uint8_t) (1u << ((c.cseed >> 3) % 8)); else bad[(c.cseed >> 8) % bad.size()] ^= (uint8_t) (1u << ((c.cseed >> 3) % 8));
        Bytes sd = side_bad, o1; int r1; { XBuf in(bad, 3), out(outlen, 9, 0xcc); r1 = a.call(out.p, in.p, inlen, e, sd); o1 = out.get(); }
        size_t ia = c.off < 0 ? (size_t)(-c.off) : 0, oa = c.off > 0 ? (size_t) c.off : 0, total = std::max(ia + inlen, oa + outlen);
        XBuf u(total, 5, 0xee); memcpy(u.p + ia, D(bad), inlen);
        Bytes sd2 = side_bad; int r2 = a.call(u.p + oa, u.p + ia, inlen, e, sd2);
        if (r1 == 0 || r2 == 0) { snprintf(b, sizeof b, "%s accepted an altered input (disjoint rc %d, overlap offset %d rc %d, len %zu)", a.name, r1, c.off, r2, c.mlen); msg = b; return false; }
        bool wiped = false; for (auto x : o1) if (x != 0xcc) wiped = true;
        Bytes o2(u.p + oa, u.p + oa + outlen);
        if (wiped && o2 != o1) { size_t i = 0; while (i < o1.size() && o1[i] == o2[i]) i++; snprintf(b, sizeof b, "%s rejected an altered input: with disjoint buffers the output is wiped, with overlap offset %d byte %zu of %zu still holds other data (%02x)", a.name, c.off, i, outlen, o2[i]); msg = b; return false; }
        if (!wiped && message.size() >= 24 && std::string(a.name).find("sign") == std::string::npos) {
            Bytes all(u.p, u.p + total);
            for (size_t i = 0; i + 16 <= message.size(); i += 8) if (std::search(all.begin(), all.end(), message.begin() + (long) i, message.begin() + (long) i + 16) != all.end()) { snprintf(b, sizeof b, "%s rejected an altered input (overlap offset %d) but 16 bytes of the decrypted plaintext (at %zu) are in the shared buffer", a.name, c.off, i); msg = b; return false; }
        }
        return true;
    }
    if (c.tamper) {
        // a failing decryption in place: same verdict as with disjoint buffers, and no plaintext left where the ciphertext was
        if (!a.is_open || std::string(a.name).find("_decrypt") == std::string::npos || inlen == 0) return true;
        Bytes bad = input, side_bad = side_in;
        if (!side_bad.empty() && (c.cseed & 1)) side_bad[(c.cseed >> 8) % side_bad.size()] ^= (uint8_t) (1u << ((c.cseed >> 3) % 8)); else bad[(c.cseed >> 8) % bad.size()] ^= (uint8_t) (1u << ((c.cseed >> 3) % 8));
        Bytes sd = side_bad; int r1; { XBuf in(bad, 3), out(outlen, 9, 0xcc); r1 = a.call(out.p, in.p, inlen, e, sd); }
        XBuf u(std::max(inlen, outlen), 5, 0xee); memcpy(u.p, D(bad), inlen);
        Bytes sd2 = side_bad; int r2 = a.call(u.p, u.p, inlen, e, sd2);
        if (r1 == 0 || r2 == 0) { snprintf(b, sizeof b, "%s accepted an altered input (disjoint rc %d, in place rc %d, len %zu)", a.name, r1, r2, c.mlen); msg = b; return false; }
        if (message.size() >= 8) {
            Bytes after(u.p, u.p + outlen);
            size_t same = 0; for (size_t i = 0; i < message.size() && i < after.size(); i++) if (after[i] == message[i]) same++;
            if (same * 2 > message.size() + 8) { snprintf(b, sizeof b, "%s failed in place (rc %d) but left %zu of %zu plaintext bytes in the shared buffer", a.name, r2, same, message.size()); msg = b; return false; }
        }
        return true;
    }
    // 1. disjoint buffers
    Bytes side1 = side_in, out1;
    int rc1;
    { XBuf in(input, 3), out(outlen, 9, 0xcc); rc1 = a.call(out.p, in.p, inlen, e, side1); out1 = out.get(); }
    if (rc1 != 0) { snprintf(b, sizeof b, "%s with disjoint buffers returned %d", a.name, rc1); msg = b; return false; }
    if (std::string(a.name).find("_seal") != std::string::npos && side1 != message) { snprintf(b, sizeof b, "%s with disjoint buffers: the recipient does not get the message back", a.name); msg = b; return false; }
    if (a.is_open && out1 != message) { snprintf(b, sizeof b, "%s with disjoint buffers did not return the original message", a.name); msg = b; return false; }
    // 2. overlapping layout: out = in + off
    size_t ia = c.off < 0 ? (size_t)(-c.off) : 0, oa = c.off > 0 ? (size_t) c.off : 0;
    size_t total = std::max(ia + inlen, oa + outlen);
    XBuf u(total, 5, 0xee);
    if (inlen) memcpy(u.p + ia, D(input), inlen);
    Bytes side2 = side_in;
    int rc2 = a.call(u.p + oa, u.p + ia, inlen, e, side2);
    Bytes out2(u.p + oa, u.p + oa + outlen);
    if (rc2 != rc1) { snprintf(b, sizeof b, "%s: return code %d with overlap offset %d, %d with disjoint buffers (len %zu)", a.name, rc2, c.off, rc1, c.mlen); msg = b; return false; }
    if (out2 != out1) {
        size_t i = 0; while (i < out1.size() && out1[i] == out2[i]) i++;
        snprintf(b, sizeof b, "%s: output with overlap offset %d differs from the disjoint result at byte %zu of %zu (message length %zu)", a.name, c.off, i, outlen, c.mlen); msg = b; return false;
    }
    if (side2 != side1) { snprintf(b, sizeof b, "%s: detached tag / reported length differs with overlap offset %d (len %zu)", a.name, c.off, c.mlen); msg = b; return false; }
    for (size_t i = 0; i < total; i++) {
        bool in_out = i >= oa && i < oa + outlen, in_in = i >= ia && i < ia + inlen;
        if (!in_out && !in_in && u.p[i] != 0xee) { snprintf(b, sizeof b, "%s: byte outside both buffers was modified", a.name); msg = b; return false; }
    }
    return true;
}

std::vector<unsigned long> masks13() {
    std::vector<unsigned long> out;
    for (auto &m : mask_set(true)) if (m.name == "all" || m.name == "-avx2" || m.name == "none" || m.name == "all-aes") out.push_back(m.mask);
    return out;
}

void explore(Ctx &ctx, bool any_offset_group) {
    init_once();
    auto &A = apis();
    auto masks = masks13();
    uint64_t idx = 0;
    Rng r = ctx.rng(any_offset_group ? "c13-off" : "c13-alias");
    for (size_t ai = 0; ai < A.size(); ai++) {
        if (A[ai].any_offset != any_offset_group) continue;
        bool slow = std::string(A[ai].name).find("sign") != std::string::npos || std::string(A[ai].name).find("crypto_box") != std::string::npos;
        if (!any_offset_group) {
            // exact aliasing, every length 0..1280
            for (size_t len = 0; len <= 1280; len++) {
                uint64_t cs = r.next();
                if (!ctx.mine(idx++)) continue;
                unsigned long m = masks[(len + ai) % masks.size()];
                Case c{ (int) ai, len, 0, ctx.thorough() ? masks[0] : m, cs };
                exec_case(ctx, c, run, mix64(mix64(ai, len), c.mask), len >= 16);
                if (ctx.thorough()) for (size_t mi = 1; mi < masks.size(); mi++) { Case c2{ (int) ai, len, 0, masks[mi], cs }; exec_case(ctx, c2, run, mix64(mix64(ai, len), masks[mi]), len >= 16); }
                if (A[ai].is_open && (len % 3 == 0 || len < 70 || ctx.thorough())) { Case ct{ (int) ai, len, 0, c.mask, cs ^ 0x7a3 }; ct.tamper = true; exec_case(ctx, ct, run, mix64(mix64(ai, len), mix64(c.mask, 0x7a3)), len >= 8); }
            }
            for (size_t len : { ((size_t) 1 << 20) + 1, ((size_t) 1 << 20) + 65, ((size_t) 1 << 21) + 17 }) {      // long messages in place
                uint64_t cs = r.next();
                if (!ctx.mine(idx++)) continue;
                Case c{ (int) ai, len, 0, masks[(size_t) (cs % masks.size())], cs };
                exec_case(ctx, c, run, mix64(mix64(ai, len), c.mask), true);
            }
        } else {
            // every offset -80..80 x lengths with all residues mod 64 spread over 0..1280
            size_t nlen = ctx.thorough() ? 128 : (slow ? 10 : 28);
            static const int BD[] = { -17, -16, -15, -1, 0, 1, 2, 15, 16, 17, 18 };   // lengths at the edge of "overlaps / does not overlap"
            size_t nb = sizeof BD / sizeof BD[0];
            for (int off = -80; off <= 80; off++) {
                int ao_ = off < 0 ? -off : off;
                for (size_t li = 0; li < nlen + nb; li++) {
                    size_t len;
                    if (li >= nlen) { int l = ao_ + BD[li - nlen]; if (l < 0) continue; len = (size_t) l; }
                    else if (li < 6) { static const size_t small[] = { 0, 1, 15, 16, 17, 33 }; len = small[li]; }
                    else len = ((li * 37 + (size_t)(off + 80) * 11) % 64) + 64 * ((li * 7 + (size_t)(off + 80)) % 20);
                    uint64_t cs = r.next();
                    if (!ctx.mine(idx++)) continue;
                    unsigned long m = masks[(li + (size_t)(off + 80)) % masks.size()];
                    Case c{ (int) ai, len, off, m, cs };
                    size_t ao = (size_t) (off < 0 ? -off : off);
                    exec_case(ctx, c, run, mix64(mix64(ai, len), mix64((uint64_t)(off + 100), m)), len > ao || (off == 0 && len >= 16));
                }
            }
            // "every overlap offset": distances beyond +-80, around one and two vector strides of the cipher cores (256 / 512 bytes) and the
            // batch sizes in between, with lengths that still make the buffers overlap
            static const int FAR[] = { 81, 96, 127, 128, 129, 191, 192, 193, 255, 256, 257, 300, 319, 320, 321, 383, 384, 385, 447, 448, 449, 500, 511, 512, 513, 575, 576, 577, 640, 700 };
            for (int fo : FAR) for (int sg = -1; sg <= 1; sg += 2) {
                size_t nl = ctx.thorough() ? 12 : (slow ? 2 : 4);
                for (size_t li = 0; li < nl; li++) {
                    uint64_t cs = r.next();
                    if (!ctx.mine(idx++)) continue;
                    Rng rr(cs);
                    size_t len = (size_t) fo + 1 + (size_t) (li == 0 ? rr.below(64) : li == 1 ? 64 + rr.below(600) : rr.below((uint64_t) (1500 - fo)));
                    Case c{ (int) ai, len, sg * fo, masks[rr.below(masks.size())], cs };
                    exec_case(ctx, c, run, mix64(mix64(ai, len), mix64((uint64_t)(sg * fo + 1000), c.mask)), true);
                }
            }
            // long messages: an implementation that moves or processes the message in pieces would use a piece size around a MiB
            for (size_t len : { ((size_t) 1 << 20) + 17, ((size_t) 1 << 21) + 5 }) for (int off : { -80, -17, -1, 1, 16, 17, 63, 64, 65, 80 }) {
                uint64_t cs = r.next();
                if (!ctx.mine(idx++)) continue;
                if (!ctx.thorough() && len > ((size_t) 1 << 21) && (off & 1) == 0) continue;
                Case c{ (int) ai, len, off, masks[(size_t) (cs % masks.size())], cs };
                exec_case(ctx, c, run, mix64(mix64(ai, len), mix64((uint64_t)(off + 100), c.mask)), true);
            }
            // opening calls that must fail, with overlapping buffers
            if (A[ai].is_open) for (int off = -80; off <= 80; off += (ctx.thorough() ? 1 : 3)) for (size_t li = 0; li < 3; li++) {
                uint64_t cs = r.next();
                if (!ctx.mine(idx++)) continue;
                Rng rr(cs);
                size_t ao = (size_t) (off < 0 ? -off : off);
                size_t len = li == 0 ? ao + 1 + (size_t) rr.below(40) : li == 1 ? 24 + (size_t) rr.below(200) : 200 + (size_t) rr.below(900);
                Case ct{ (int) ai, len, off, masks[rr.below(masks.size())], cs }; ct.tamper = true;
                exec_case(ctx, ct, run, mix64(mix64(ai, len), mix64((uint64_t)(off + 100), 0x7a4)), true);
            }
        }
    }
}
void explore_alias(Ctx &ctx) { explore(ctx, false); }
void explore_offsets(Ctx &ctx) { explore(ctx, true); }

bool replay(const KV &k, std::string &msg) {
    Case c; c.api = -1;
    for (size_t i = 0; i < apis().size(); i++) if (k.gs("api") == apis()[i].name) c.api = (int) i;
    if (c.api < 0) { msg = "unknown api"; return false; }
    c.mlen = k.gu("mlen"); c.off = (int) k.gi("off"); c.mask = k.gu("mask"); c.cseed = k.gu("cseed"); c.tamper = k.has("tamper") && k.gu("tamper") != 0;
    return run(c, msg);
}

}  // namespace

std::vector<Sub> vh_subs() {
    return { { "aliasing", explore_alias, replay }, { "offsets", explore_offsets, replay } };
}
