// c11ops.hpp -- the operations of property C11 with their secret / public operands, shared by the trace-diff
// harness (props/c11.cpp, compiler instrumentation) and the valgrind definedness harness (props/c11vg.cpp).
// Every operation works on fixed static buffers, so that two executions with different secrets touch identical
// addresses unless the secret influences an address.
#pragma once
#include <sodium.h>
#include <cstdint>
#include <cstring>
#include <vector>
#include <string>

// Argon2 internals (non-static symbols of the library): used to run exactly the data-independent first half of Argon2id.
// Only in the valgrind harness (gcc, native variant: every block-fill backend is compiled in).
#ifdef CT_VALGRIND_OPS
extern "C" {
#include "../../crypto_pwhash/argon2/argon2-core.h"
// group arithmetic internals, with the limb representation of the library this harness links (see tools/vbuild.py)
#if VERIF_LIB_HAVE_TI_MODE
# ifndef HAVE_TI_MODE
#  define HAVE_TI_MODE 1
# endif
#endif
#include "private/ed25519_ref10.h"
}
#endif

namespace ct {

enum { MAXLEN = 2048 };
struct Bufs {
    alignas(64) unsigned char secret[MAXLEN + 256];   // the secret operand(s)
    alignas(64) unsigned char pub[MAXLEN + 256];      // public operand(s): nonce, point, public message
    alignas(64) unsigned char out[MAXLEN + 512];
    alignas(64) unsigned char tmp[4096];
    alignas(64) crypto_sign_state sst;
    alignas(64) crypto_generichash_state gst;
    alignas(64) crypto_onetimeauth_state ost;
    volatile int sink;
};
inline Bufs &B() { static Bufs b; return b; }
inline size_t &pad_ul() { static size_t v = 0; return v; }      // secret unpadded length for the sodium_pad operation

// An operation: secret_len(publen) bytes of secret are placed at B().secret, `publen` is the public length parameter.
struct Op {
    const char *name;
    size_t (*secret_len)(size_t publen);
    void (*run)(size_t publen);
    bool needs_aesni;      // only meaningful on the AES-NI backend
    const char *secret_kind;   // "bytes" | "scalar" | "pair" | "padpos" | "seed"
    size_t max_publen;
    bool vg_only = false;      // allocates memory internally (addresses differ between two executions): only for the definedness monitor
};

#ifdef CT_VALGRIND_OPS
// Argon2id, pass 0, slices 0 and 1 (the part the specification makes data-independent), with one explicitly chosen block-fill backend.
// The password is the secret; everything after slice 1 legitimately uses password-derived addresses and is not run.
inline void argon2id_first_half(size_t pwlen, int backend) {
    argon2_context ctx; memset(&ctx, 0, sizeof ctx);
    ctx.out = B().out; ctx.outlen = 32; ctx.pwd = B().secret; ctx.pwdlen = (uint32_t) pwlen; ctx.salt = B().pub; ctx.saltlen = 16;
    ctx.t_cost = 1; ctx.m_cost = 1040; ctx.lanes = 1; ctx.threads = 1; ctx.flags = ARGON2_DEFAULT_FLAGS;     // segment length 260 > 128: several address blocks per segment
    argon2_instance_t inst; memset(&inst, 0, sizeof inst);
    uint32_t seg = ctx.m_cost / (ctx.lanes * ARGON2_SYNC_POINTS);
    inst.region = NULL; inst.passes = 1; inst.current_pass = ~0U; inst.memory_blocks = seg * ctx.lanes * ARGON2_SYNC_POINTS; inst.segment_length = seg;
    inst.lane_length = seg * ARGON2_SYNC_POINTS; inst.lanes = 1; inst.threads = 1; inst.type = Argon2_id;
    if (argon2_initialize(&inst, &ctx) != ARGON2_OK) { B().sink = -1; return; }
    for (uint8_t slice = 0; slice < ARGON2_SYNC_POINTS / 2; slice++) {
        argon2_position_t pos; pos.pass = 0; pos.lane = 0; pos.slice = slice; pos.index = 0;
        switch (backend) {
        case 1: argon2_fill_segment_ssse3(&inst, pos); break;
        case 2: argon2_fill_segment_avx2(&inst, pos); break;
        default: argon2_fill_segment_ref(&inst, pos); break;
        }
    }
    argon2_finalize(&ctx, &inst);
    B().sink = 0;
}
#endif

#define SL(N) [](size_t) -> size_t { return N; }
#define SLP(EXPR) [](size_t n) -> size_t { return EXPR; }

inline const std::vector<Op> &ops() {
    static const std::vector<Op> O = {
        // ---- comparison helpers: both operands secret (secret = a || b)
        { "crypto_verify_16", SL(32), [](size_t) { B().sink = crypto_verify_16(B().secret, B().secret + 16); }, false, "pair", 0 },
        { "crypto_verify_32", SL(64), [](size_t) { B().sink = crypto_verify_32(B().secret, B().secret + 32); }, false, "pair", 0 },
        { "crypto_verify_64", SL(128), [](size_t) { B().sink = crypto_verify_64(B().secret, B().secret + 64); }, false, "pair", 0 },
        { "sodium_memcmp", SLP(2 * n), [](size_t n) { B().sink = sodium_memcmp(B().secret, B().secret + n, n); }, false, "pair", 300 },
        { "sodium_compare", SLP(2 * n), [](size_t n) { B().sink = sodium_compare(B().secret, B().secret + n, n); }, false, "pair", 300 },
        { "sodium_is_zero", SLP(n), [](size_t n) { B().sink = sodium_is_zero(B().secret, n); }, false, "bytes", 300 },
        // ---- X25519
        { "crypto_scalarmult", SL(32), [](size_t) { B().sink = crypto_scalarmult(B().out, B().secret, B().pub); }, false, "scalar", 0 },
        { "crypto_scalarmult_base", SL(32), [](size_t) { B().sink = crypto_scalarmult_base(B().out, B().secret); }, false, "scalar", 0 },
        // ---- Ed25519 key generation and signing
        { "crypto_sign_seed_keypair", SL(32), [](size_t) { B().sink = crypto_sign_seed_keypair(B().out, B().out + 64, B().secret); }, false, "seed", 0 },
        { "crypto_sign_detached", SL(32), [](size_t n) { crypto_sign_seed_keypair(B().tmp, B().tmp + 64, B().secret); B().sink = crypto_sign_detached(B().out, nullptr, B().pub, n, B().tmp + 64); }, false, "seed", 300 },
        { "crypto_sign", SL(32), [](size_t n) { crypto_sign_seed_keypair(B().tmp, B().tmp + 64, B().secret); B().sink = crypto_sign(B().out, nullptr, B().pub, n, B().tmp + 64); }, false, "seed", 300 },
        { "crypto_sign_final_create(ph)", SL(32), [](size_t n) { crypto_sign_seed_keypair(B().tmp, B().tmp + 64, B().secret); crypto_sign_init(&B().sst); crypto_sign_update(&B().sst, B().pub, n); B().sink = crypto_sign_final_create(&B().sst, B().out, nullptr, B().tmp + 64); }, false, "seed", 300 },
        { "crypto_sign_ed25519_sk_to_curve25519", SL(32), [](size_t) { memcpy(B().tmp, B().secret, 32); B().sink = crypto_sign_ed25519_sk_to_curve25519(B().out, B().tmp); }, false, "seed", 0 },
        // ---- Edwards / Ristretto scalar multiplication and scalar arithmetic (secret scalar, public point)
        { "crypto_scalarmult_ed25519", SL(32), [](size_t) { B().sink = crypto_scalarmult_ed25519(B().out, B().secret, B().pub + 64); }, false, "scalar", 0 },
        { "crypto_scalarmult_ed25519_noclamp", SL(32), [](size_t) { B().sink = crypto_scalarmult_ed25519_noclamp(B().out, B().secret, B().pub + 64); }, false, "scalar", 0 },
        { "crypto_scalarmult_ed25519_base", SL(32), [](size_t) { B().sink = crypto_scalarmult_ed25519_base(B().out, B().secret); }, false, "scalar", 0 },
        { "crypto_scalarmult_ed25519_base_noclamp", SL(32), [](size_t) { B().sink = crypto_scalarmult_ed25519_base_noclamp(B().out, B().secret); }, false, "scalar", 0 },
        { "crypto_scalarmult_ristretto255", SL(32), [](size_t) { B().sink = crypto_scalarmult_ristretto255(B().out, B().secret, B().pub + 96); }, false, "scalar", 0 },
        { "crypto_scalarmult_ristretto255_base", SL(32), [](size_t) { B().sink = crypto_scalarmult_ristretto255_base(B().out, B().secret); }, false, "scalar", 0 },
        { "crypto_core_ed25519_scalar_add", SL(64), [](size_t) { crypto_core_ed25519_scalar_add(B().out, B().secret, B().secret + 32); }, false, "bytes", 0 },
        { "crypto_core_ed25519_scalar_sub", SL(64), [](size_t) { crypto_core_ed25519_scalar_sub(B().out, B().secret, B().secret + 32); }, false, "bytes", 0 },
        { "crypto_core_ed25519_scalar_mul", SL(64), [](size_t) { crypto_core_ed25519_scalar_mul(B().out, B().secret, B().secret + 32); }, false, "bytes", 0 },
        { "crypto_core_ed25519_scalar_negate", SL(32), [](size_t) { crypto_core_ed25519_scalar_negate(B().out, B().secret); }, false, "bytes", 0 },
        { "crypto_core_ed25519_scalar_complement", SL(32), [](size_t) { crypto_core_ed25519_scalar_complement(B().out, B().secret); }, false, "bytes", 0 },
        { "crypto_core_ed25519_scalar_invert", SL(32), [](size_t) { B().sink = crypto_core_ed25519_scalar_invert(B().out, B().secret); }, false, "scalar", 0 },
        { "crypto_core_ed25519_scalar_reduce", SL(64), [](size_t) { crypto_core_ed25519_scalar_reduce(B().out, B().secret); }, false, "bytes", 0 },
        // the canonical test of a secret scalar: the verdict is public, and the same (canonical) for both secrets of every pair of this kind
        { "crypto_core_ed25519_scalar_is_canonical", SL(32), [](size_t) { B().sink = crypto_core_ed25519_scalar_is_canonical(B().secret); }, false, "scalar", 0 },
        { "crypto_core_ristretto255_scalar_is_canonical", SL(32), [](size_t) { B().sink = crypto_core_ristretto255_scalar_is_canonical(B().secret); }, false, "scalar", 0 },
        { "crypto_core_ristretto255_scalar_mul", SL(64), [](size_t) { crypto_core_ristretto255_scalar_mul(B().out, B().secret, B().secret + 32); }, false, "bytes", 0 },
        // ---- secret-key primitives: key (first 32 bytes) and message (following publen bytes) are both secret
        { "crypto_stream_chacha20_xor", SLP(32 + n), [](size_t n) { B().sink = crypto_stream_chacha20_xor(B().out, B().secret + 32, n, B().pub, B().secret); }, false, "bytes", 600 },
        { "crypto_stream_chacha20_ietf_xor_ic", SLP(32 + n), [](size_t n) { B().sink = crypto_stream_chacha20_ietf_xor_ic(B().out, B().secret + 32, n, B().pub, 7, B().secret); }, false, "bytes", 600 },
        { "crypto_stream_xchacha20_xor", SLP(32 + n), [](size_t n) { B().sink = crypto_stream_xchacha20_xor(B().out, B().secret + 32, n, B().pub, B().secret); }, false, "bytes", 600 },
        { "crypto_stream_salsa20_xor", SLP(32 + n), [](size_t n) { B().sink = crypto_stream_salsa20_xor(B().out, B().secret + 32, n, B().pub, B().secret); }, false, "bytes", 600 },
        { "crypto_stream_xsalsa20_xor", SLP(32 + n), [](size_t n) { B().sink = crypto_stream_xsalsa20_xor(B().out, B().secret + 32, n, B().pub, B().secret); }, false, "bytes", 600 },
        { "crypto_stream_salsa2012_xor", SLP(32 + n), [](size_t n) { B().sink = crypto_stream_salsa2012_xor(B().out, B().secret + 32, n, B().pub, B().secret); }, false, "bytes", 300 },
        { "crypto_stream_chacha20(keystream)", SL(32), [](size_t n) { B().sink = crypto_stream_chacha20(B().out, n, B().pub, B().secret); }, false, "bytes", 600 },
        { "crypto_core_hchacha20", SL(32), [](size_t) { B().sink = crypto_core_hchacha20(B().out, B().pub, B().secret, nullptr); }, false, "bytes", 0 },
        { "crypto_core_hsalsa20", SL(32), [](size_t) { B().sink = crypto_core_hsalsa20(B().out, B().pub, B().secret, nullptr); }, false, "bytes", 0 },
        { "crypto_onetimeauth", SLP(32 + n), [](size_t n) { B().sink = crypto_onetimeauth(B().out, B().secret + 32, n, B().secret); }, false, "bytes", 600 },
        { "crypto_onetimeauth(streaming)", SLP(32 + n), [](size_t n) { crypto_onetimeauth_init(&B().ost, B().secret); crypto_onetimeauth_update(&B().ost, B().secret + 32, n / 2); crypto_onetimeauth_update(&B().ost, B().secret + 32 + n / 2, n - n / 2); B().sink = crypto_onetimeauth_final(&B().ost, B().out); }, false, "bytes", 600 },
        { "crypto_auth(hmac-sha512-256)", SLP(32 + n), [](size_t n) { B().sink = crypto_auth(B().out, B().secret + 32, n, B().secret); }, false, "bytes", 600 },
        { "crypto_auth_hmacsha256", SLP(32 + n), [](size_t n) { B().sink = crypto_auth_hmacsha256(B().out, B().secret + 32, n, B().secret); }, false, "bytes", 600 },
        { "crypto_auth_hmacsha512", SLP(32 + n), [](size_t n) { B().sink = crypto_auth_hmacsha512(B().out, B().secret + 32, n, B().secret); }, false, "bytes", 600 },
        { "crypto_hash_sha256", SLP(n), [](size_t n) { B().sink = crypto_hash_sha256(B().out, B().secret, n); }, false, "bytes", 600 },
        { "crypto_hash_sha512", SLP(n), [](size_t n) { B().sink = crypto_hash_sha512(B().out, B().secret, n); }, false, "bytes", 600 },
        { "crypto_generichash(keyed)", SLP(32 + n), [](size_t n) { B().sink = crypto_generichash(B().out, 32, B().secret + 32, n, B().secret, 32); }, false, "bytes", 600 },
        { "crypto_generichash(streaming)", SLP(32 + n), [](size_t n) { crypto_generichash_init(&B().gst, B().secret, 32, 64); crypto_generichash_update(&B().gst, B().secret + 32, n / 3); crypto_generichash_update(&B().gst, B().secret + 32 + n / 3, n - n / 3); B().sink = crypto_generichash_final(&B().gst, B().out, 64); }, false, "bytes", 600 },
        { "crypto_shorthash", SLP(16 + n), [](size_t n) { B().sink = crypto_shorthash(B().out, B().secret + 16, n, B().secret); }, false, "bytes", 300 },
        { "crypto_kdf_derive_from_key", SL(32), [](size_t n) { B().sink = crypto_kdf_derive_from_key(B().out, 16 + n % 49, 12345, "ctxctxct", B().secret); }, false, "bytes", 48 },
        { "crypto_kdf_hkdf_sha256_extract+expand", SLP(n), [](size_t n) { crypto_kdf_hkdf_sha256_extract(B().tmp, B().pub, 16, B().secret, n); B().sink = crypto_kdf_hkdf_sha256_expand(B().out, 80, "info", 4, B().tmp); }, false, "bytes", 300 },
        { "crypto_kdf_hkdf_sha512_extract+expand", SLP(n), [](size_t n) { crypto_kdf_hkdf_sha512_extract(B().tmp, B().pub, 16, B().secret, n); B().sink = crypto_kdf_hkdf_sha512_expand(B().out, 80, "info", 4, B().tmp); }, false, "bytes", 300 },
        // ---- AEAD / secretbox encryption: key and plaintext secret, nonce and ad public
        { "crypto_aead_chacha20poly1305_encrypt", SLP(32 + n), [](size_t n) { B().sink = crypto_aead_chacha20poly1305_encrypt(B().out, nullptr, B().secret + 32, n, B().pub + 32, 13, nullptr, B().pub, B().secret); }, false, "bytes", 600 },
        { "crypto_aead_chacha20poly1305_ietf_encrypt", SLP(32 + n), [](size_t n) { B().sink = crypto_aead_chacha20poly1305_ietf_encrypt(B().out, nullptr, B().secret + 32, n, B().pub + 32, 13, nullptr, B().pub, B().secret); }, false, "bytes", 600 },
        { "crypto_aead_xchacha20poly1305_ietf_encrypt", SLP(32 + n), [](size_t n) { B().sink = crypto_aead_xchacha20poly1305_ietf_encrypt(B().out, nullptr, B().secret + 32, n, B().pub + 32, 13, nullptr, B().pub, B().secret); }, false, "bytes", 600 },
        { "crypto_secretbox_easy", SLP(32 + n), [](size_t n) { B().sink = crypto_secretbox_easy(B().out, B().secret + 32, n, B().pub, B().secret); }, false, "bytes", 600 },
        { "crypto_secretbox_xchacha20poly1305_easy", SLP(32 + n), [](size_t n) { B().sink = crypto_secretbox_xchacha20poly1305_easy(B().out, B().secret + 32, n, B().pub, B().secret); }, false, "bytes", 600 },
        { "crypto_aead_aes256gcm_encrypt", SLP(32 + n), [](size_t n) { B().sink = crypto_aead_aes256gcm_encrypt(B().out, nullptr, B().secret + 32, n, B().pub + 32, 13, nullptr, B().pub, B().secret); }, true, "bytes", 600 },
        { "crypto_aead_aegis128l_encrypt", SLP(16 + n), [](size_t n) { B().sink = crypto_aead_aegis128l_encrypt(B().out, nullptr, B().secret + 16, n, B().pub + 32, 13, nullptr, B().pub, B().secret); }, true, "bytes", 600 },
        { "crypto_aead_aegis256_encrypt", SLP(32 + n), [](size_t n) { B().sink = crypto_aead_aegis256_encrypt(B().out, nullptr, B().secret + 32, n, B().pub + 32, 13, nullptr, B().pub, B().secret); }, true, "bytes", 600 },
        // ---- verification of attacker-supplied tags under a secret key, in the forms that return the comparison result without
        //      branching on it inside the library (verify-only AEAD decryption with m == NULL, MAC verification): the comparison of the
        //      key-derived tag with the supplied one must not leak how many bytes match.  public: nonce = pub[0..32), ad = pub[32..45),
        //      tag = pub[48..80), ciphertext / message = pub[128..128+n)
        { "crypto_aead_chacha20poly1305_decrypt_detached(m=NULL)", SL(32), [](size_t n) { B().sink = crypto_aead_chacha20poly1305_decrypt_detached(nullptr, nullptr, B().pub + 128, n, B().pub + 48, B().pub + 32, 13, B().pub, B().secret); }, false, "bytes", 300 },
        { "crypto_aead_chacha20poly1305_ietf_decrypt_detached(m=NULL)", SL(32), [](size_t n) { B().sink = crypto_aead_chacha20poly1305_ietf_decrypt_detached(nullptr, nullptr, B().pub + 128, n, B().pub + 48, B().pub + 32, 13, B().pub, B().secret); }, false, "bytes", 300 },
        { "crypto_aead_xchacha20poly1305_ietf_decrypt_detached(m=NULL)", SL(32), [](size_t n) { B().sink = crypto_aead_xchacha20poly1305_ietf_decrypt_detached(nullptr, nullptr, B().pub + 128, n, B().pub + 48, B().pub + 32, 13, B().pub, B().secret); }, false, "bytes", 300 },
        { "crypto_aead_xchacha20poly1305_ietf_decrypt(m=NULL)", SL(32), [](size_t n) { B().sink = crypto_aead_xchacha20poly1305_ietf_decrypt(nullptr, nullptr, nullptr, B().pub + 128, n + 16, B().pub + 32, 13, B().pub, B().secret); }, false, "bytes", 300 },
        { "crypto_aead_aes256gcm_decrypt_detached(m=NULL)", SL(32), [](size_t n) { B().sink = crypto_aead_aes256gcm_decrypt_detached(nullptr, nullptr, B().pub + 128, n, B().pub + 48, B().pub + 32, 13, B().pub, B().secret); }, true, "bytes", 300 },
        { "crypto_aead_aes256gcm_decrypt(m=NULL)", SL(32), [](size_t n) { B().sink = crypto_aead_aes256gcm_decrypt(nullptr, nullptr, nullptr, B().pub + 128, n + 16, nullptr, 0, B().pub, B().secret); }, true, "bytes", 300 },
        { "crypto_aead_aegis128l_decrypt_detached(m=NULL)", SL(16), [](size_t n) { B().sink = crypto_aead_aegis128l_decrypt_detached(nullptr, nullptr, B().pub + 128, n, B().pub + 48, B().pub + 32, 13, B().pub, B().secret); }, true, "bytes", 300 },
        { "crypto_aead_aegis256_decrypt_detached(m=NULL)", SL(32), [](size_t n) { B().sink = crypto_aead_aegis256_decrypt_detached(nullptr, nullptr, B().pub + 128, n, B().pub + 48, B().pub + 32, 13, B().pub, B().secret); }, true, "bytes", 300 },
        { "crypto_auth_verify", SL(32), [](size_t n) { B().sink = crypto_auth_verify(B().pub + 48, B().pub + 128, n, B().secret); }, false, "bytes", 300 },
        { "crypto_auth_hmacsha256_verify", SL(32), [](size_t n) { B().sink = crypto_auth_hmacsha256_verify(B().pub + 48, B().pub + 128, n, B().secret); }, false, "bytes", 300 },
        { "crypto_auth_hmacsha512_verify", SL(32), [](size_t n) { B().sink = crypto_auth_hmacsha512_verify(B().pub + 48, B().pub + 128, n, B().secret); }, false, "bytes", 300 },
        { "crypto_onetimeauth_verify", SL(32), [](size_t n) { B().sink = crypto_onetimeauth_verify(B().pub + 48, B().pub + 128, n, B().secret); }, false, "bytes", 300 },
#ifdef CT_VALGRIND_OPS
        // ---- password hashing (definedness monitor only): Argon2i is data-independent throughout, Argon2id in pass 0 slices 0-1
        { "crypto_pwhash(argon2i, 8 KiB)", SLP(n), [](size_t n) { B().sink = crypto_pwhash(B().out, 32, (const char *) B().secret, n, B().pub, 3, 8192, crypto_pwhash_ALG_ARGON2I13); }, false, "bytes", 64, true },
        { "crypto_pwhash(argon2i, 1040 KiB)", SLP(n), [](size_t n) { B().sink = crypto_pwhash(B().out, 32, (const char *) B().secret, n, B().pub, 3, 1040 * 1024, crypto_pwhash_ALG_ARGON2I13); }, false, "bytes", 16, true },
        // ---- the cores of Edwards / Ristretto scalar multiplication through the internal entry points, i.e. without the final public
        //      "result is the identity" test of the API wrappers (that test is why the wrappers are excluded from this monitor)
        { "ed25519 scalarmult core (internal)", SL(32), [](size_t) { ge25519_p3 P, Q; unsigned char t[32]; memcpy(t, B().secret, 32); t[31] &= 127; if (ge25519_frombytes(&P, B().pub + 64) != 0) return; ge25519_scalarmult(&Q, t, &P); ge25519_p3_tobytes(B().out, &Q); }, false, "scalar", 0, true },
        { "ed25519 base scalarmult core (internal)", SL(32), [](size_t) { ge25519_p3 Q; unsigned char t[32]; memcpy(t, B().secret, 32); t[31] &= 127; ge25519_scalarmult_base(&Q, t); ge25519_p3_tobytes(B().out, &Q); }, false, "scalar", 0, true },
        { "ristretto255 scalarmult core (internal)", SL(32), [](size_t) { ge25519_p3 P, Q; unsigned char t[32]; memcpy(t, B().secret, 32); t[31] &= 127; if (ristretto255_frombytes(&P, B().pub + 96) != 0) return; ge25519_scalarmult(&Q, t, &P); ristretto255_p3_tobytes(B().out, &Q); }, false, "scalar", 0, true },
        { "ristretto255 base scalarmult core (internal)", SL(32), [](size_t) { ge25519_p3 Q; unsigned char t[32]; memcpy(t, B().secret, 32); t[31] &= 127; ge25519_scalarmult_base(&Q, t); ristretto255_p3_tobytes(B().out, &Q); }, false, "scalar", 0, true },
        { "argon2id first half (ref)", SLP(n), [](size_t n) { argon2id_first_half(n, 0); }, false, "bytes", 16, true },
        { "argon2id first half (ssse3)", SLP(n), [](size_t n) { if (sodium_runtime_has_ssse3()) argon2id_first_half(n, 1); }, false, "bytes", 16, true },
        { "argon2id first half (avx2)", SLP(n), [](size_t n) { if (sodium_runtime_has_avx2()) argon2id_first_half(n, 2); }, false, "bytes", 16, true },
#endif
        // ---- encoders of secret data
        { "sodium_bin2hex", SLP(n), [](size_t n) { sodium_bin2hex((char *) B().out, 2 * n + 1, B().secret, n); }, false, "bytes", 300 },
        { "sodium_bin2base64(original)", SLP(n), [](size_t n) { sodium_bin2base64((char *) B().out, sodium_base64_ENCODED_LEN(n, 1), B().secret, n, 1); }, false, "bytes", 300 },
        { "sodium_bin2base64(nopad)", SLP(n), [](size_t n) { sodium_bin2base64((char *) B().out, sodium_base64_ENCODED_LEN(n, 3), B().secret, n, 3); }, false, "bytes", 300 },
        { "sodium_bin2base64(urlsafe)", SLP(n), [](size_t n) { sodium_bin2base64((char *) B().out, sodium_base64_ENCODED_LEN(n, 5), B().secret, n, 5); }, false, "bytes", 300 },
        { "sodium_bin2base64(urlsafe-nopad)", SLP(n), [](size_t n) { sodium_bin2base64((char *) B().out, sodium_base64_ENCODED_LEN(n, 7), B().secret, n, 7); }, false, "bytes", 300 },
        // ---- padding: the secret is the position of the marker inside the final block (buffer of publen = k * 16 bytes, block size 16)
        { "sodium_unpad", SLP(n), [](size_t n) { size_t ul = 0; B().sink = sodium_unpad(&ul, B().secret, n, 16); B().sink = (int) (ul & 0); }, false, "padpos", 320 },
        { "sodium_pad", SLP(n + 16), [](size_t n) { size_t pl = 0; B().sink = sodium_pad(&pl, B().secret, pad_ul(), 16, n + 16); }, false, "padlen", 304 },
        // block sizes that are not a power of two take the modulo path
        { "sodium_pad(blocksize 24)", SLP(n + 24), [](size_t n) { size_t pl = 0; B().sink = sodium_pad(&pl, B().secret, pad_ul(), 24, n + 24); }, false, "padlen:24", 304 },
        { "sodium_pad(blocksize 100)", SLP(n + 100), [](size_t n) { size_t pl = 0; B().sink = sodium_pad(&pl, B().secret, pad_ul(), 100, n + 100); }, false, "padlen:100", 304 },
        { "sodium_unpad(blocksize 24)", SLP(n), [](size_t n) { size_t ul = 0; B().sink = sodium_unpad(&ul, B().secret, n, 24); B().sink = (int) (ul & 0); }, false, "padpos:24", 320 },
        { "sodium_unpad(blocksize 100)", SLP(n), [](size_t n) { size_t ul = 0; B().sink = sodium_unpad(&ul, B().secret, n, 100); B().sink = (int) (ul & 0); }, false, "padpos:100", 320 },
    };
    return O;
}

}  // namespace ct
