// C18 -- random generation is unbiased, pluggable and fully covers generated secrets.
// A scripted randombytes_implementation (no `uniform` member, so the library's own rejection sampling runs)
// serves bytes from a generated script and logs every request.
#define VH_NO_SODIUM_INIT 1
#include "vh_main.hpp"
#include "giant.hpp"
#include "stream.hpp"
#include "x25519.hpp"
#include "ed25519.hpp"
#include "ristretto255.hpp"
#include "codecs.hpp"
#include "scrypt.hpp"
#include <sys/wait.h>
#include <sys/stat.h>
#include <sys/time.h>
#include <sys/random.h>
#include <fcntl.h>
#include <unistd.h>
#include <errno.h>
#include <stdarg.h>
#include <signal.h>
using namespace vh;

namespace {

inline const uint8_t *D(const Bytes &b) { static uint8_t z[8]; return b.empty() ? z : b.data(); }
inline uint8_t *D(Bytes &b) { static uint8_t z[8]; return b.empty() ? z : b.data(); }

// ------------------------------------------------------------------ scripted source
struct Script {
    Bytes prefix; uint64_t seed = 0;            // served byte i = prefix[i] if i < |prefix| else splitmix(seed, i)
    std::vector<std::pair<size_t, uint8_t>> patch;   // (index, xor value) perturbations
    size_t pos = 0; std::vector<size_t> requests; uint64_t random_calls = 0;
    uint8_t at(size_t i) const {
        uint8_t v;
        if (i < prefix.size()) v = prefix[i];
        else { uint64_t z = mix64(seed, i / 8 + 0x51); z ^= z >> 29; v = (uint8_t) (z >> (8 * (i % 8))); }
        for (auto &p : patch) if (p.first == i) v ^= p.second;
        return v;
    }
    void reset() { pos = 0; requests.clear(); random_calls = 0; }
    Bytes served(size_t from, size_t n) const { Bytes b(n); for (size_t i = 0; i < n; i++) b[i] = at(from + i); return b; }
};
Script G;
const char *impl_name() { return "verif-scripted"; }
uint32_t impl_random() { G.random_calls++; uint32_t v = 0; for (int i = 0; i < 4; i++) v |= (uint32_t) G.at(G.pos + i) << (8 * i); G.pos += 4; G.requests.push_back(4); return v; }
void impl_buf(void *p, size_t n) { uint8_t *b = (uint8_t *) p; for (size_t i = 0; i < n; i++) b[i] = G.at(G.pos + i); G.pos += n; G.requests.push_back(n); }
uint64_t g_stirs = 0, g_closes = 0;
void impl_stir() { g_stirs++; }
int impl_close() { g_closes++; return 0; }
randombytes_implementation IMPL = { impl_name, impl_random, impl_stir, nullptr, impl_buf, impl_close };

void init_once() {
    static bool done = false;
    if (done) return;
    done = true;
    randombytes_set_implementation(&IMPL);
    if (sodium_init() < 0) { fprintf(stderr, "VH-INFRA sodium_init failed\n"); _exit(2); }
    sodium_verif_set_cpu_mask(F_ALL);
    detected_ref() = current_features();
}

// ------------------------------------------------------------------ (a) randombytes_uniform
struct UniCase {
    uint32_t n; std::vector<uint32_t> draws;
    KV kv() const { KV k; k.s("kind", "uniform").u("n", n); Bytes d; for (uint32_t v : draws) for (int i = 0; i < 4; i++) d.push_back((uint8_t) (v >> (8 * i))); k.b("draws", d); return k; }
};
bool run_uniform(const UniCase &c, std::string &msg) {
    init_once();
    G = Script(); for (uint32_t v : c.draws) for (int i = 0; i < 4; i++) G.prefix.push_back((uint8_t) (v >> (8 * i)));
    G.seed = 0x77; G.reset();
    uint32_t got = randombytes_uniform(c.n);
    char b[256];
    if (c.n < 2) {
        if (got != 0 || G.random_calls != 0) { snprintf(b, sizeof b, "randombytes_uniform(%u) returned %u after %llu draws, expected 0 with no draw", c.n, got, (unsigned long long) G.random_calls); msg = b; return false; }
        return true;
    }
    uint64_t minv = (0x100000000ULL % c.n);     // draws below 2^32 mod n are rejected
    uint64_t used = 0; uint32_t want = 0; bool found = false;
    for (size_t i = 0;; i++) {
        uint32_t r = 0; for (int k = 0; k < 4; k++) r |= (uint32_t) G.at(4 * i + k) << (8 * k);
        used++;
        if (r >= minv) { want = r % c.n; found = true; break; }
        if (i > 10000) break;
    }
    if (!found) return true;
    if (got >= c.n) { snprintf(b, sizeof b, "randombytes_uniform(%u) returned %u >= bound", c.n, got); msg = b; return false; }
    if (got != want || G.random_calls != used) {
        snprintf(b, sizeof b, "randombytes_uniform(%u): returned %u after %llu draws; first accepted draw (>= 2^32 mod n = %llu) gives %u after %llu draws", c.n, got, (unsigned long long) G.random_calls, (unsigned long long) minv, want, (unsigned long long) used);
        msg = b; return false;
    }
    return true;
}
void explore_uniform(Ctx &ctx) {
    Rng r = ctx.rng("c18-uniform");
    std::vector<uint32_t> ns = { 0, 1, 2, 3, 5, 6, 7, 10, 100, 255, 256, 257, 1000, 65535, 65536, 65537, 0x7fffffff, 0x80000000u, 0x80000001u, 0xfffffffeu, 0xffffffffu, 0xaaaaaaabu, 0x55555556u, 3000000000u };
    for (int k = 2; k < 32; k++) { ns.push_back((1u << k) - 1); ns.push_back(1u << k); ns.push_back((1u << k) + 1); }
    size_t extra = ctx.thorough() ? 4000 : 300;
    for (size_t i = 0; i < extra; i++) ns.push_back((uint32_t) r.next() >> r.below(31));
    uint64_t idx = 0;
    for (uint32_t n : ns) {
        uint64_t rs = r.next();
        if (!ctx.mine(idx++)) continue;
        Rng rr(rs);
        uint32_t minv = n >= 2 ? (uint32_t) (0x100000000ULL % n) : 0;
        // candidate rejected / accepted draws around the threshold
        std::vector<uint32_t> rej, acc = { minv, minv + (minv < 0xffffffffu ? 1u : 0u), 0xffffffffu, (uint32_t) rr.next() | 0x80000000u };
        if (minv > 0) { rej = { 0, minv - 1, (uint32_t) (rr.next() % minv), minv / 2 }; }
        for (uint32_t a : acc) if (a < minv) a = minv;
        // every rejection depth 0..4, every order of threshold-adjacent values
        for (size_t depth = 0; depth <= (rej.empty() ? 0 : 4); depth++) {
            size_t combos = 1; for (size_t d = 0; d < depth; d++) combos *= rej.size();
            size_t stride = combos > 64 ? combos / 64 : 1;
            for (size_t cmb = 0; cmb < combos; cmb += stride) {
                for (uint32_t a : acc) {
                    if (a < minv) continue;
                    UniCase c{ n, {} }; size_t t = cmb;
                    for (size_t d = 0; d < depth; d++) { c.draws.push_back(rej[t % rej.size()]); t /= rej.size(); }
                    c.draws.push_back(a);
                    exec_case(ctx, c, run_uniform, mix64(mix64(n, cmb), mix64(depth, a)), depth >= 1);
                }
            }
        }
        if (n < 2) { UniCase c{ n, { 5 } }; exec_case(ctx, c, run_uniform, mix64(n, 999), true); }
    }
    // long runs of rejected draws (a source may legitimately serve them): the loop must keep rejecting, however long the run
    for (uint32_t n : { 0x80000001u, 0xc0000000u, 0xa0000000u, 3000000000u, 0xfffffffeu, 1000003u, 0x55555556u }) {
        uint32_t minv = (uint32_t) (0x100000000ULL % n); if (minv == 0) continue;
        for (size_t runlen : { (size_t) 5, (size_t) 15, (size_t) 16, (size_t) 31, (size_t) 32, (size_t) 33, (size_t) 63, (size_t) 64, (size_t) 65, (size_t) 127, (size_t) 128, (size_t) 129, (size_t) 255, (size_t) 256, (size_t) 257, (size_t) 1000, (size_t) 4097 }) {
            uint64_t rs = r.next();
            if (!ctx.mine(idx++)) continue;
            if (runlen > 300 && !ctx.thorough() && n != 0xc0000000u) continue;
            Rng rr(rs);
            UniCase c{ n, {} };
            for (size_t i = 0; i < runlen; i++) c.draws.push_back(i % 3 == 0 ? minv - 1 : (uint32_t) (rr.next() % minv));
            c.draws.push_back(minv + (uint32_t) (rr.next() % (0xffffffffu - minv)));
            exec_case(ctx, c, run_uniform, mix64(mix64(n, runlen), 0x10c9), true);
        }
    }
}

// ------------------------------------------------------------------ (b) randombytes_buf_deterministic
struct DetCase {
    size_t len; Bytes seed; unsigned long mask;
    KV kv() const { KV k; k.s("kind", "det").u("len", len).b("seed", seed).u("mask", mask); return k; }
};
bool run_det(const DetCase &c, std::string &msg) {
    init_once(); set_mask(c.mask);
    XBuf out(c.len, 3), seed(c.seed, 1);
    randombytes_buf_deterministic(out.p, c.len, seed.p);
    ref::Bytes want = ref::chacha20_ietf_stream(c.seed, ref::str("LibsodiumDRG"), 0, c.len);
    if (out.get() != want) { size_t i = 0; Bytes g = out.get(); while (i < c.len && g[i] == want[i]) i++; msg = "randombytes_buf_deterministic(len=" + std::to_string(c.len) + ") differs from ChaCha20-IETF(seed, 'LibsodiumDRG') at byte " + std::to_string(i); return false; }
    return true;
}
void explore_det(Ctx &ctx) {
    Rng r = ctx.rng("c18-det");
    uint64_t idx = 0;
    std::vector<unsigned long> masks; for (auto &m : mask_set(false)) if (m.name == "all" || m.name == "-avx2" || m.name == "-ssse3") masks.push_back(m.mask);
    size_t maxlen = ctx.thorough() ? 2500 : 1100;
    for (size_t len = 0; len <= maxlen; len++) {
        Bytes seed = r.bytes_class(32, r.below(10) == 0 ? (int) r.below(5) : 0);
        if (!ctx.mine(idx++)) continue;
        DetCase c{ len, seed, masks[len % masks.size()] };
        exec_case(ctx, c, run_det, mix64(len, c.mask), len >= 1);
    }
}

// ------------------------------------------------------------------ (c) generating APIs
struct Gen {
    const char *name;
    std::function<Bytes()> call;                                  // runs the API, returns everything it produced
    std::function<bool(const Script &, Bytes &)> model;           // expected output from the served bytes; false = model covers only `used`/`secret_len`
    size_t secret_len;                                            // bytes of secret material that must be covered by requests
    size_t used;                                                  // number of leading served bytes that must influence the output
};

#define KEYGEN(P, N) G_.push_back(Gen{ #P "_keygen", [] { Bytes k(N); P##_keygen(D(k)); return k; }, [](const Script &s, Bytes &o) { o = s.served(0, N); return true; }, N, N });

std::vector<Gen> &gens() {
    static std::vector<Gen> G_;
    if (!G_.empty()) return G_;
    KEYGEN(crypto_aead_aegis128l, 16) KEYGEN(crypto_aead_aegis256, 32) KEYGEN(crypto_aead_aes256gcm, 32) KEYGEN(crypto_aead_chacha20poly1305_ietf, 32)
    KEYGEN(crypto_aead_chacha20poly1305, 32) KEYGEN(crypto_aead_xchacha20poly1305_ietf, 32) KEYGEN(crypto_auth_hmacsha256, 32) KEYGEN(crypto_auth_hmacsha512256, 32)
    KEYGEN(crypto_auth_hmacsha512, 32) KEYGEN(crypto_auth, 32) KEYGEN(crypto_generichash_blake2b, 32) KEYGEN(crypto_generichash, 32) KEYGEN(crypto_kdf_hkdf_sha256, 32)
    KEYGEN(crypto_kdf_hkdf_sha512, 64) KEYGEN(crypto_kdf, 32) KEYGEN(crypto_onetimeauth, 32) KEYGEN(crypto_onetimeauth_poly1305, 32) KEYGEN(crypto_secretbox, 32)
    KEYGEN(crypto_secretbox_xsalsa20poly1305, 32) KEYGEN(crypto_secretstream_xchacha20poly1305, 32) KEYGEN(crypto_shorthash, 16) KEYGEN(crypto_stream_chacha20_ietf, 32)
    KEYGEN(crypto_stream_chacha20, 32) KEYGEN(crypto_stream, 32) KEYGEN(crypto_stream_salsa2012, 32) KEYGEN(crypto_stream_salsa208, 32) KEYGEN(crypto_stream_salsa20, 32)
    KEYGEN(crypto_stream_xchacha20, 32) KEYGEN(crypto_stream_xsalsa20, 32)
    auto kp_model = [](const Script &s, Bytes &o) { Bytes sk = s.served(0, 32); o = ref::cat(ref::x25519_base(sk), sk); return true; };
    G_.push_back(Gen{ "crypto_box_keypair", [] { Bytes pk(32), sk(32); crypto_box_keypair(D(pk), D(sk)); return ref::cat(pk, sk); }, kp_model, 32, 32 });
    G_.push_back(Gen{ "crypto_box_curve25519xchacha20poly1305_keypair", [] { Bytes pk(32), sk(32); crypto_box_curve25519xchacha20poly1305_keypair(D(pk), D(sk)); return ref::cat(pk, sk); }, kp_model, 32, 32 });
    G_.push_back(Gen{ "crypto_kx_keypair", [] { Bytes pk(32), sk(32); crypto_kx_keypair(D(pk), D(sk)); return ref::cat(pk, sk); }, kp_model, 32, 32 });
    G_.push_back(Gen{ "crypto_sign_keypair", [] { Bytes pk(32), sk(64); crypto_sign_keypair(D(pk), D(sk)); return ref::cat(pk, sk); },
        [](const Script &s, Bytes &o) { Bytes pk, sk; ref::ed25519_seed_keypair(s.served(0, 32), pk, sk); o = ref::cat(pk, sk); return true; }, 32, 32 });
    G_.push_back(Gen{ "crypto_secretstream_init_push", [] { Bytes h(24), k(32, 0x42); crypto_secretstream_xchacha20poly1305_state st; crypto_secretstream_xchacha20poly1305_init_push(&st, D(h), D(k)); return h; },
        [](const Script &s, Bytes &o) { o = s.served(0, 24); return true; }, 24, 24 });
    // sealed boxes: the ephemeral key pair comes from the source; first 32 output bytes = base(esk)
    auto seal_call = [](bool x) { return [x] { Bytes rs(32, 7), pk(32), sk(32), m = { 1, 2, 3, 4, 5 }, c(5 + 48), back(5);
        if (x) { crypto_box_curve25519xchacha20poly1305_seed_keypair(D(pk), D(sk), D(rs)); (void) !crypto_box_curve25519xchacha20poly1305_seal(D(c), D(m), 5, D(pk)); if (crypto_box_curve25519xchacha20poly1305_seal_open(D(back), D(c), c.size(), D(pk), D(sk)) != 0 || back != m) c.clear(); }
        else { crypto_box_seed_keypair(D(pk), D(sk), D(rs)); (void) !crypto_box_seal(D(c), D(m), 5, D(pk)); if (crypto_box_seal_open(D(back), D(c), c.size(), D(pk), D(sk)) != 0 || back != m) c.clear(); }
        return c; }; };
    auto seal_model = [](const Script &s, Bytes &o) { o = ref::x25519_base(s.served(0, 32)); return false; };   // prefix only
    G_.push_back(Gen{ "crypto_box_seal", seal_call(false), seal_model, 32, 32 });
    G_.push_back(Gen{ "crypto_box_curve25519xchacha20poly1305_seal", seal_call(true), seal_model, 32, 32 });
    // password hash strings: the salt field is the encoding of the served bytes
    auto pw_argon = [](int alg) { return [alg] { Bytes out(crypto_pwhash_STRBYTES); const char *pw = "correct horse";
        int r = alg == 0 ? crypto_pwhash_str((char *) D(out), pw, strlen(pw), 1, 8192) : alg == 1 ? crypto_pwhash_argon2i_str((char *) D(out), pw, strlen(pw), 3, 8192)
              : alg == 2 ? crypto_pwhash_argon2id_str((char *) D(out), pw, strlen(pw), 1, 8192) : crypto_pwhash_str_alg((char *) D(out), pw, strlen(pw), 3, 8192, crypto_pwhash_ALG_ARGON2I13);
        if (r != 0) return Bytes();
        size_t n = strnlen((char *) D(out), out.size()); if (n >= out.size()) return Bytes();
        if (crypto_pwhash_str_verify((char *) D(out), pw, strlen(pw)) != 0) return Bytes();
        out.resize(n); return out; }; };
    auto argon_model = [](const Script &s, Bytes &o) { std::string b64 = ref::b64_encode(s.served(0, 16), ref::B64_ORIGINAL_NOPAD); o.assign(b64.begin(), b64.end()); return false; };   // must appear as the salt field
    G_.push_back(Gen{ "crypto_pwhash_str", pw_argon(0), argon_model, 16, 16 });
    G_.push_back(Gen{ "crypto_pwhash_argon2i_str", pw_argon(1), argon_model, 16, 16 });
    G_.push_back(Gen{ "crypto_pwhash_argon2id_str", pw_argon(2), argon_model, 16, 16 });
    G_.push_back(Gen{ "crypto_pwhash_str_alg(argon2i)", pw_argon(3), argon_model, 16, 16 });
    G_.push_back(Gen{ "crypto_pwhash_scryptsalsa208sha256_str", [] { Bytes out(crypto_pwhash_scryptsalsa208sha256_STRBYTES); const char *pw = "correct horse";
        if (crypto_pwhash_scryptsalsa208sha256_str((char *) D(out), pw, strlen(pw), 32768, 1 << 20) != 0) return Bytes();
        size_t n = strnlen((char *) D(out), out.size()); if (n >= out.size()) return Bytes();
        if (crypto_pwhash_scryptsalsa208sha256_str_verify((char *) D(out), pw, strlen(pw)) != 0) return Bytes();
        out.resize(n); return out; },
        [](const Script &s, Bytes &o) { std::string e = ref::scrypt_b64_bytes(s.served(0, 32)); o.assign(e.begin(), e.end()); return false; }, 32, 32 });
    // random group elements and scalars
    G_.push_back(Gen{ "crypto_core_ed25519_random", [] { Bytes p(32); crypto_core_ed25519_random(D(p)); ref::Pt q; if (!ref::pt_decode_strict(p, q) || !ref::pt_in_prime_subgroup(q)) p.clear(); return p; },
        [](const Script &s, Bytes &o) { Bytes h = s.served(0, 32); o.resize(32); crypto_core_ed25519_from_uniform(D(o), D(h)); return true; }, 32, 32 });
    G_.push_back(Gen{ "crypto_core_ristretto255_random", [] { Bytes p(32); crypto_core_ristretto255_random(D(p)); ref::Pt q; if (!ref::ristretto_decode(p, q)) p.clear(); return p; },
        [](const Script &s, Bytes &o) { o = ref::ristretto_from_uniform(s.served(0, 64)); return true; }, 64, 64 });
    auto scalar_model = [](const Script &s, Bytes &o) {
        for (size_t i = 0; i < 64; i++) { Bytes r = s.served(32 * i, 32); r[31] &= 0x1f; bool zero = true; for (auto b : r) if (b) zero = false; if (ref::sc_is_canonical(r) && !zero) { o = r; return true; } }
        return true; };
    G_.push_back(Gen{ "crypto_core_ed25519_scalar_random", [] { Bytes r(32); crypto_core_ed25519_scalar_random(D(r)); return r; }, scalar_model, 32, 0 });
    G_.push_back(Gen{ "crypto_core_ristretto255_scalar_random", [] { Bytes r(32); crypto_core_ristretto255_scalar_random(D(r)); return r; }, scalar_model, 32, 0 });
    G_.push_back(Gen{ "randombytes_buf(37)", [] { Bytes b(37); randombytes_buf(D(b), 37); return b; }, [](const Script &s, Bytes &o) { o = s.served(0, 37); return true; }, 37, 37 });
    G_.push_back(Gen{ "randombytes(19)", [] { Bytes b(19); randombytes(D(b), 19); return b; }, [](const Script &s, Bytes &o) { o = s.served(0, 19); return true; }, 19, 19 });
    G_.push_back(Gen{ "randombytes_random", [] { uint32_t v = randombytes_random(); Bytes b(4); for (int i = 0; i < 4; i++) b[i] = (uint8_t) (v >> (8 * i)); return b; }, [](const Script &s, Bytes &o) { o = s.served(0, 4); return true; }, 4, 4 });
    return G_;
}

struct GenCase {
    int g; uint64_t seed; Bytes prefix; size_t perturb; int pre = 0;   // pre: source life-cycle calls made before generating (0 none, 1 stir, 2 close, 3 close+stir, 4 stir+close+close)
    KV kv() const { KV k; k.s("kind", "gen").s("api", gens()[g].name).u("seed", seed).b("prefix", prefix).u("perturb", perturb).u("pre", pre); return k; }
};
// the source stays installed across randombytes_stir() / randombytes_close(): whatever is generated afterwards must still come from it
void lifecycle(int pre) {
    switch (pre) {
    case 1: randombytes_stir(); break;
    case 2: (void) randombytes_close(); break;
    case 3: (void) randombytes_close(); randombytes_stir(); break;
    case 4: randombytes_stir(); (void) randombytes_close(); (void) randombytes_close(); break;
    default: break;
    }
}
bool contains(const Bytes &hay, const Bytes &needle) { return std::search(hay.begin(), hay.end(), needle.begin(), needle.end()) != hay.end(); }

bool run_gen(const GenCase &c, std::string &msg) {
    init_once(); set_mask(F_ALL);
    const Gen &g = gens()[c.g];
    G = Script(); G.seed = c.seed; G.prefix = c.prefix; G.reset();
    lifecycle(c.pre);
    if (std::string(randombytes_implementation_name()) != "verif-scripted") { msg = std::string("after stir/close (pre=") + std::to_string(c.pre) + ") the installed source is no longer the one in use: " + randombytes_implementation_name(); randombytes_set_implementation(&IMPL); return false; }
    G.reset();
    Bytes out1 = g.call();
    size_t requested = G.pos;
    Script used = G;
    if (out1.empty()) { msg = std::string(g.name) + " failed or produced an unusable result"; return false; }
    Bytes want; bool full = g.model(used, want);
    if (full) { if (out1 != want) { msg = std::string(g.name) + ": output is not the documented function of the bytes served by the installed source (got " + hexshort(out1) + ", expected " + hexshort(want) + ")"; return false; } }
    else if (!want.empty()) {
        bool okp = std::string(g.name).find("seal") != std::string::npos ? (out1.size() >= want.size() && std::equal(want.begin(), want.end(), out1.begin())) : contains(out1, want);
        if (!okp) { msg = std::string(g.name) + ": output does not contain the value derived from the served bytes (" + hexshort(want) + ")"; return false; }
    }
    if (requested < g.secret_len) { msg = std::string(g.name) + " requested only " + std::to_string(requested) + " bytes from the source for a " + std::to_string(g.secret_len) + "-byte secret"; return false; }
    // replay: same script => same output (no other entropy source, clock or pid mixed in)
    G.reset(); Bytes out2 = g.call();
    if (out2 != out1) { msg = std::string(g.name) + ": replaying the same source bytes gave a different result"; return false; }
    // perturbation of one used byte must change the output
    if (g.used > 0) {
        size_t j = c.perturb % g.used;
        G.reset(); G.patch.push_back({ j, (uint8_t) (1u << (c.perturb % 8)) });
        Bytes out3 = g.call();
        G.patch.clear();
        // the top bit of an X25519 / from_uniform input may legitimately be ignored; pick another bit there
        if (out3 == out1) { msg = std::string(g.name) + ": changing served byte " + std::to_string(j) + " did not change the result (secret not derived from all requested bytes)"; return false; }
    }
    return true;
}

void explore_gen(Ctx &ctx) {
    Rng r = ctx.rng("c18-gen");
    uint64_t idx = 0;
    auto &GS = gens();
    for (size_t gi = 0; gi < GS.size(); gi++) {
        std::string nm = GS[gi].name;
        bool slow = nm.find("keypair") != std::string::npos || nm.find("seal") != std::string::npos || nm.find("pwhash") != std::string::npos;
        size_t n = ctx.thorough() ? (slow ? 200 : 2000) : (slow ? 48 : 800);
        if (nm.find("scrypt") != std::string::npos) n = ctx.thorough() ? 24 : 6;
        for (size_t i = 0; i < n; i++) {
            uint64_t seed = r.next(); size_t pert = (size_t) r.next();
            Bytes prefix;
            if (nm.find("scalar_random") != std::string::npos) {
                // force the rejection loop: >= L after masking, zero, exactly L, then (sometimes) L-1
                static const char *Lhex = "edd3f55c1a631258d69cf7a2def9de1400000000000000000000000000000010";
                int k = (int) (i % 6);
                if (k >= 1) prefix = Bytes(32, 0xff);
                if (k >= 2) { Bytes z(32, 0); prefix.insert(prefix.end(), z.begin(), z.end()); }
                if (k >= 3) { Bytes l = unhex(Lhex); prefix.insert(prefix.end(), l.begin(), l.end()); }
                if (k >= 4) { Bytes l = unhex(Lhex); l[0] -= 1; l[31] |= 0xe0; prefix.insert(prefix.end(), l.begin(), l.end()); }   // L-1 with high bits set (masked off)
                if (k >= 5) { Bytes l(32, 0); l[31] = 0x20; prefix = l; }                                                             // only a masked bit set -> zero -> rejected
            } else if (i % 5 == 1) prefix = Bytes(GS[gi].secret_len, 0x00);
            else if (i % 5 == 2) prefix = Bytes(GS[gi].secret_len, 0xff);
            // X25519-style inputs ignore some bits by specification: perturb only bits that matter
            if (nm.find("keypair") != std::string::npos && nm.find("sign") == std::string::npos) { size_t j = pert % 32, bit = pert % 8; if ((j == 0 && bit < 3) || (j == 31 && bit >= 6)) pert = 8 * 5 + 3 + 32 * 8; }
            if (nm.find("seal") != std::string::npos) { size_t j = pert % 32, bit = pert % 8; if ((j == 0 && bit < 3) || (j == 31 && bit >= 6)) pert = 8 * 5 + 3 + 32 * 8; }
            if (nm.find("ed25519_random") != std::string::npos) { size_t j = pert % 32, bit = pert % 8; if (j == 31 && bit == 7) pert = 8 * 5 + 3; }   // sign-selection bit: no effect when x == 0
            if (nm.find("ristretto255_random") != std::string::npos) { size_t j = pert % 64, bit = pert % 8; if ((j == 31 || j == 63) && bit == 7) pert = 8 * 5 + 3; }   // RFC 9496: the top bit of each half is masked
            if (!ctx.mine(idx++)) continue;
            GenCase c{ (int) gi, seed, prefix, pert };
            c.pre = (i % 4 == 3) ? 1 + (int) ((i / 4) % 4) : 0;
            exec_case(ctx, c, run_gen, mix64(mix64(gi, seed), mix64(prefix.size(), c.pre)), true);
        }
    }
}

// ------------------------------------------------------------------ (d) the two built-in sources on a scripted kernel
// "With any installed random source": the sources the library ships (sysrandom, the default; internal, the ChaCha20-based one) are
// installed sources too.  Their entropy comes from getrandom(2) or, when that is unavailable, from read(2) on /dev/urandom; both are
// interposed at link time (-Wl,--wrap) and serve a scripted byte stream, with EINTR / EAGAIN failures and short reads as the kernel
// may produce them.  Each scenario runs in a forked child (the sources keep static state).
struct KCall { const uint8_t *dst; size_t n, off; bool probe; };
struct Kernel {
    bool active = false; int mode = 0; uint64_t seed = 0; size_t pos = 0; int ufd = -1; unsigned fail_run = 0; uint64_t ncall = 0, tcalls = 0, injected = 0, shorts = 0, entered = 0;
    std::vector<std::pair<size_t, uint8_t>> patch; std::vector<KCall> calls;
    uint8_t at(size_t i) const { uint64_t z = mix64(seed ^ 0x4b65726eULL, i / 8); z ^= z >> 31; uint8_t v = (uint8_t) (z >> (8 * (i % 8))); for (auto &p : patch) if (p.first == i) v ^= p.second; return v; }
    void serve(void *buf, size_t n, bool probe) { uint8_t *b = (uint8_t *) buf; for (size_t i = 0; i < n; i++) b[i] = at(pos + i); calls.push_back({ b, n, pos, probe }); pos += n; }
    bool inject() { uint64_t h = mix64(seed ^ 0x1a7eULL, ncall++); if (h % 4 == 0 && fail_run < 3) { fail_run++; injected++; errno = (h & 16) ? EINTR : EAGAIN; return true; } fail_run = 0; return false; }
    // bytes served since call index `mark`, in order, without the 16-byte availability probe of getrandom()
    Bytes served_since(size_t mark) const { Bytes o; for (size_t c = mark; c < calls.size(); c++) if (!calls[c].probe) for (size_t i = 0; i < calls[c].n; i++) o.push_back(at(calls[c].off + i)); return o; }
    std::vector<size_t> offsets_since(size_t mark) const { std::vector<size_t> o; for (size_t c = mark; c < calls.size(); c++) if (!calls[c].probe) for (size_t i = 0; i < calls[c].n; i++) o.push_back(calls[c].off + i); return o; }
};
Kernel K;

struct KCase {
    int impl, mode; uint64_t seed; int variant;   // impl 0 sysrandom, 1 internal; mode 0 getrandom(2), 1 read(2) on /dev/urandom; variant (internal): reseed through 0 close, 1 stir, 2 close+stir
    KV kv() const { KV k; k.s("kind", "kernel").u("impl", impl).u("mode", mode).u("seed", seed).u("variant", variant); return k; }
};
const char *kmode(int m) { return m == 2 ? "getrandom unavailable and /dev/urandom, /dev/random are not character devices" : m ? "read(2) on /dev/urandom (getrandom unavailable), short reads and EINTR/EAGAIN" : "getrandom(2) with EINTR/EAGAIN"; }

// every byte of [p, p+n) must have been written by the kernel source during the call and still hold the byte served for it
bool covered(const uint8_t *p, size_t n, size_t mark, std::string &why) {
    std::vector<int> v(n, -1);
    for (size_t c = mark; c < K.calls.size(); c++) { const KCall &kc = K.calls[c]; for (size_t i = 0; i < kc.n; i++) { const uint8_t *a = kc.dst + i; if (a >= p && a < p + n) v[(size_t) (a - p)] = K.at(kc.off + i); } }
    for (size_t i = 0; i < n; i++) {
        if (v[i] < 0) { why = "byte " + std::to_string(i) + " of " + std::to_string(n) + " was never filled from the kernel source"; return false; }
        if (p[i] != (uint8_t) v[i]) { why = "byte " + std::to_string(i) + " of " + std::to_string(n) + " is not the byte the kernel source served for that position"; return false; }
    }
    return true;
}
const size_t KLENS[] = { 1, 2, 3, 4, 5, 15, 16, 17, 31, 32, 33, 63, 64, 65, 100, 255, 256, 257, 300, 511, 512, 513, 600, 767, 768, 769, 1000, 1025 };

bool child_sys(const KCase &c, std::string &msg, Bytes &digest) {
    Rng r(mix64(c.seed, 0x5359));
    randombytes_set_implementation(&randombytes_sysrandom_implementation);
    randombytes_stir();
    std::string where = std::string(" [sysrandom on ") + kmode(c.mode) + "]";
    int nops = 6 + (int) r.below(10);
    for (int k = 0; k < nops; k++) {
        size_t mark = K.calls.size(); std::string why;
        switch (r.below(9)) {
        case 0: case 1: case 2: {
            size_t n = r.below(4) ? KLENS[r.below(sizeof KLENS / sizeof KLENS[0])] : 1 + (size_t) r.below(1500);
            XBuf b(n, (size_t) r.below(16));
            if (r.below(2)) randombytes_buf(b.p, n); else randombytes(b.p, n);
            if (K.entered == 0) { msg = "INFRA the interposed kernel entry points were not used"; return false; }
            if (!covered(b.p, n, mark, why)) { msg = "randombytes_buf(" + std::to_string(n) + "): " + why + where; return false; }
            Bytes o = b.get(); digest.insert(digest.end(), o.begin(), o.end());
            break; }
        case 3: {
            uint32_t v = randombytes_random(); Bytes s = K.served_since(mark);
            if (s.size() < 4 || v != ((uint32_t) s[0] | (uint32_t) s[1] << 8 | (uint32_t) s[2] << 16 | (uint32_t) s[3] << 24)) { msg = "randombytes_random() is not the 4 bytes the kernel source served for it (served " + std::to_string(s.size()) + " bytes)" + where; return false; }
            break; }
        case 4: {
            static const uint32_t BS[] = { 0x80000001u, 0xc0000000u, 3u, 1000003u, 0xfffffffeu, 0xaaaaaaabu, 2u, 0x55555556u };
            uint32_t n = r.below(3) ? BS[r.below(8)] : (uint32_t) r.next() | 1u << 31;
            uint32_t got = randombytes_uniform(n); Bytes s = K.served_since(mark);
            uint64_t minv = 0x100000000ULL % n; bool found = false; uint32_t want = 0;
            for (size_t i = 0; i + 4 <= s.size(); i += 4) { uint32_t d = (uint32_t) s[i] | (uint32_t) s[i + 1] << 8 | (uint32_t) s[i + 2] << 16 | (uint32_t) s[i + 3] << 24; if (d >= minv) { want = d % n; found = true; break; } }
            if (!found || got != want) { msg = "randombytes_uniform(" + std::to_string(n) + ") = " + std::to_string(got) + " is not the first accepted 32-bit draw of the kernel bytes modulo the bound" + (found ? " (" + std::to_string(want) + ")" : " (no accepted draw was served)") + where; return false; }
            break; }
        case 5: {
            XBuf key(32, (size_t) r.below(16)); crypto_secretbox_keygen(key.p);
            if (!covered(key.p, 32, mark, why)) { msg = "crypto_secretbox_keygen: " + why + where; return false; }
            XBuf k2(64, (size_t) r.below(16)); mark = K.calls.size(); crypto_kdf_hkdf_sha512_keygen(k2.p);
            if (!covered(k2.p, 64, mark, why)) { msg = "crypto_kdf_hkdf_sha512_keygen: " + why + where; return false; }
            break; }
        case 6: {
            XBuf pk(32, (size_t) r.below(16)), sk(32, (size_t) r.below(16)); crypto_box_keypair(pk.p, sk.p);
            if (!covered(sk.p, 32, mark, why)) { msg = "crypto_box_keypair secret key: " + why + where; return false; }
            if (pk.get() != ref::x25519_base(sk.get())) { msg = "crypto_box_keypair: public key does not belong to the secret key" + where; return false; }
            break; }
        case 7: (void) randombytes_close(); break;
        default: randombytes_stir(); break;
        }
    }
    return true;
}

// internal generator: (re)seeding must take at least 32 bytes from the kernel source - on first use, on randombytes_stir() and on the first
// use after randombytes_close() - and what is generated afterwards must depend on every one of them (compared across two children)
Bytes g_words;     // 32-bit draws of the internal generator after the first seeding (compared word by word between two children)
bool child_internal(const KCase &c, std::string &msg, Bytes &d1, Bytes &d2, std::vector<size_t> &s1, std::vector<size_t> &s2) {
    Rng r(mix64(c.seed, 0x494e));
    sodium_verif_set_cpu_mask(F_ALL & ~(unsigned long) F_RDRAND);      // the RDRAND mix-in would make the two children incomparable
    randombytes_set_implementation(&randombytes_internal_implementation);
    std::string where = std::string(" [internal generator on ") + kmode(c.mode) + "]";
    auto gen = [&](Bytes &d) {
        int n = 2 + (int) r.below(4);
        for (int k = 0; k < n; k++) {
            if (r.below(3) == 0) { uint32_t v = randombytes_random(); for (int i = 0; i < 4; i++) d.push_back((uint8_t) (v >> (8 * i))); }
            else { size_t len = KLENS[r.below(sizeof KLENS / sizeof KLENS[0])]; XBuf b(len, (size_t) r.below(16)); randombytes_buf(b.p, len); Bytes o = b.get(); d.insert(d.end(), o.begin(), o.end()); }
        }
    };
    size_t mark = K.calls.size();
    if (r.below(2)) randombytes_stir();
    { XBuf b(32, 0); randombytes_buf(b.p, 32); Bytes o = b.get(); d1.insert(d1.end(), o.begin(), o.end()); }
    if (K.entered == 0) { msg = "INFRA the interposed kernel entry points were not used"; return false; }
    s1 = K.offsets_since(mark);
    if (s1.size() < 32) { msg = "the first output was generated after only " + std::to_string(s1.size()) + " seed bytes were requested from the kernel source (32-byte key)" + where; return false; }
    gen(d1);
    for (int k = 0; k < 400; k++) { uint32_t v = k % 5 == 4 ? randombytes_uniform(0x80000000u) : randombytes_random(); for (int i = 0; i < 4; i++) g_words.push_back((uint8_t) (v >> (8 * i))); }
    // reseed
    size_t mark2 = K.calls.size();
    const char *how = c.variant == 0 ? "randombytes_close()" : c.variant == 1 ? "randombytes_stir()" : "randombytes_close() + randombytes_stir()";
    if (c.variant == 0 || c.variant == 2) (void) randombytes_close();
    if (c.variant == 1 || c.variant == 2) {
        randombytes_stir();
        if (K.offsets_since(mark2).size() < 32) { msg = std::string(how) + " requested " + std::to_string(K.offsets_since(mark2).size()) + " bytes from the kernel source: the generator was not reseeded" + where; return false; }
    }
    { XBuf b(32, 0); randombytes_buf(b.p, 32); Bytes o = b.get(); d2.insert(d2.end(), o.begin(), o.end()); }
    s2 = K.offsets_since(mark2);
    if (s2.size() < 32) { msg = std::string("the first output after ") + how + " was generated after " + std::to_string(s2.size()) + " new seed bytes were requested from the kernel source: the generator was not reseeded" + where; return false; }
    gen(d2);
    return true;
}

struct KRes { int st = 3; std::string msg; Bytes d1, d2, w; std::vector<size_t> s1, s2; uint64_t injected = 0, ncalls = 0; };   // st 0 ok, 1 property failure, 2 infrastructure, 3 child died
KRes run_child(const KCase &c, const std::vector<std::pair<size_t, uint8_t>> &patch) {
    KRes R; int fd[2];
    if (pipe(fd) != 0) { R.st = 2; R.msg = "pipe failed"; return R; }
    fflush(stdout); fflush(stderr);
    pid_t pid = fork();
    if (pid < 0) { R.st = 2; R.msg = "fork failed"; close(fd[0]); close(fd[1]); return R; }
    if (pid == 0) {
        close(fd[0]);
        K = Kernel(); K.mode = c.mode; K.seed = c.seed; K.patch = patch; K.active = true;
        std::string msg; Bytes d1, d2; std::vector<size_t> s1, s2;
        bool ok = c.impl == 0 ? child_sys(c, msg, d1) : child_internal(c, msg, d1, d2, s1, s2);
        K.active = false;
        KV k; k.u("st", ok ? 0 : (msg.rfind("INFRA", 0) == 0 ? 2 : 1)).s("msg", msg).b("d1", d1).b("d2", d2).u("inj", K.injected).u("nc", K.calls.size());
        Bytes o1, o2; for (size_t i = 0; i < 32 && i < s1.size(); i++) for (int b = 0; b < 8; b++) o1.push_back((uint8_t) (s1[i] >> (8 * b)));
        for (size_t i = 0; i < 32 && i < s2.size(); i++) for (int b = 0; b < 8; b++) o2.push_back((uint8_t) (s2[i] >> (8 * b)));
        k.b("s1", o1).b("s2", o2).b("w", g_words);
        std::string line = k.text() + "#END\n";
        size_t off = 0; while (off < line.size()) { ssize_t w = write(fd[1], line.data() + off, line.size() - off); if (w <= 0) break; off += (size_t) w; }
        _exit(0);
    }
    close(fd[1]);
    std::string in; char buf[4096]; ssize_t n;
    while ((n = read(fd[0], buf, sizeof buf)) > 0 || (n < 0 && errno == EINTR)) if (n > 0) in.append(buf, (size_t) n);
    close(fd[0]);
    int status = 0; while (waitpid(pid, &status, 0) < 0 && errno == EINTR) {}
    if (in.size() < 5 || in.compare(in.size() - 5, 5, "#END\n") != 0) {
        R.st = 3; char b[160]; snprintf(b, sizeof b, "the library terminated the process (wait status 0x%x%s) while generating from a built-in source on %s", status, WIFSIGNALED(status) && WTERMSIG(status) == SIGABRT ? ", abort/sodium_misuse" : "", kmode(c.mode)); R.msg = b; return R;
    }
    KV k = KV::parse(in);
    R.st = (int) k.gu("st"); R.msg = k.gs("msg"); R.d1 = k.gb("d1"); R.d2 = k.gb("d2"); R.injected = k.gu("inj"); R.ncalls = k.gu("nc");
    auto dec = [](const Bytes &b) { std::vector<size_t> o; for (size_t i = 0; i + 8 <= b.size(); i += 8) { size_t v = 0; for (int j = 7; j >= 0; j--) v = (v << 8) | b[i + (size_t) j]; o.push_back(v); } return o; };
    R.s1 = dec(k.gb("s1")); R.s2 = dec(k.gb("s2")); R.w = k.gb("w");
    return R;
}

bool dev_urandom_usable() {
    static int st = -1;
    if (st < 0) { int fd = open("/dev/urandom", O_RDONLY); struct stat sb; st = (fd >= 0 && fstat(fd, &sb) == 0 && S_ISCHR(sb.st_mode)) ? 1 : 0; if (fd >= 0) close(fd); }
    return st == 1;
}
uint64_t g_kernel_skipped = 0;

bool run_kernel(const KCase &c, std::string &msg) {
    init_once();
    if (c.mode >= 1 && !dev_urandom_usable()) { g_kernel_skipped++; return true; }
    KRes a = run_child(c, {});
    if (c.mode == 2) {
        // no system call interface and no character device to read: the source has nothing to draw from.  It must stop (the library's
        // misuse handler aborts); bytes that came out of a regular file or a FIFO must never be handed out as random.
        if (a.st == 3) return true;
        if (a.st == 2) { fprintf(stderr, "VH-INFRA built-in source scenario: %s\n", a.msg.c_str()); _exit(2); }
        msg = std::string(c.impl ? "internal generator" : "sysrandom") + ": random bytes were delivered although neither getrandom() nor a character device was available (the file at /dev/urandom is reported as a regular file)" + (a.msg.empty() ? "" : ": " + a.msg);
        return false;
    }
    if (a.st == 2) { fprintf(stderr, "VH-INFRA built-in source scenario: %s\n", a.msg.c_str()); _exit(2); }
    if (a.st != 0) { msg = a.msg; return false; }
    if (c.impl == 0) return true;
    // every seed byte counts: flip one bit of one of the 32 bytes served for the first / the second seeding and compare what is generated afterwards
    Rng r(mix64(c.seed, 0xf11b));
    for (int phase = 0; phase < 2; phase++) {
        const std::vector<size_t> &s = phase ? a.s2 : a.s1;
        if (s.size() < 32) { msg = "internal generator: fewer than 32 seed bytes recorded"; return false; }
        size_t j = (size_t) r.below(32); uint8_t bit = (uint8_t) (1u << r.below(8));
        KRes b = run_child(c, { { s[j], bit } });
        if (b.st == 2) { fprintf(stderr, "VH-INFRA built-in source scenario: %s\n", b.msg.c_str()); _exit(2); }
        if (b.st != 0) { msg = b.msg; return false; }
        if (phase == 0 && a.w.size() == b.w.size() && a.w.size() >= 1600) {
            // every 32-bit draw depends on the seed: a word that is the same in both children (2^-32 each) is a constant or seed-independent output
            size_t same = 0, first = 0; for (size_t i = 0; i + 4 <= a.w.size(); i += 4) if (memcmp(&a.w[i], &b.w[i], 4) == 0) { if (!same) first = i / 4; same++; }
            if (same >= 2) { msg = "internal generator: " + std::to_string(same) + " of " + std::to_string(a.w.size() / 4) + " consecutive 32-bit draws (randombytes_random / randombytes_uniform(2^31)) did not change when a seed byte changed (first: draw #" + std::to_string(first + 1) + " = " + hex(Bytes(a.w.begin() + (long) (4 * first), a.w.begin() + (long) (4 * first) + 4)) + "): constant or seed-independent output [" + kmode(c.mode) + "]"; return false; }
        }
        const Bytes &da = phase ? a.d2 : a.d1, &db = phase ? b.d2 : b.d1;
        if (da == db) { msg = std::string("internal generator: changing byte ") + std::to_string(j) + " of the 32 seed bytes served by the kernel source " + (phase ? "for the reseeding" : "for the first seeding") + " did not change anything generated afterwards (" + std::to_string(da.size()) + " bytes compared) [" + kmode(c.mode) + "]"; return false; }
    }
    return true;
}

void explore_kernel(Ctx &ctx) {
    Rng r = ctx.rng("c18-kernel");
    uint64_t idx = 0;
    size_t n = ctx.thorough() ? 1500 : 240;
    for (size_t i = 0; i < n; i++) {
        KCase c{ (int) (i % 2), (int) ((i / 2) % 2), r.next(), (int) ((i / 4) % 3) };
        if (i % 16 >= 14) c.mode = 2;
        if (!ctx.mine(idx++)) continue;
        exec_case(ctx, c, run_kernel, mix64(mix64(c.impl, c.mode), mix64(c.seed, c.variant)), true);
    }
    ctx.notes["builtin_source_scenarios_skipped"] = std::to_string(g_kernel_skipped);
}

// ------------------------------------------------------------------ requests of 4 GiB and more (thorough tier, non-sanitizer build, first round)
// "Fully covering" also for a request whose size does not fit 32 bits: an installed source must be asked for exactly that many bytes, the
// shipped sources must fill all of them, randombytes_buf_deterministic must be the ChaCha20-IETF stream beyond byte 2^32 as well.  Each
// case runs in a forked child (the sources keep static state); the buffer is a sparse mapping that reads as zero until written.
struct GRCase { int kind; size_t len; KV kv() const { KV k; k.s("kind", "giant_request").u("gkind", kind).u("len", len); return k; } };   // 0 deterministic, 1 installed source, 2 sysrandom, 3 internal
uint64_t g_gr_skipped = 0;
size_t g_gi_total = 0; uint64_t g_gi_calls = 0; const uint8_t *g_gi_first = nullptr, *g_gi_end = nullptr;
void gi_buf(void *p, size_t n) { g_gi_calls++; g_gi_total += n; if (!g_gi_first) g_gi_first = (const uint8_t *) p; g_gi_end = (const uint8_t *) p + n; if (n) { ((uint8_t *) p)[0] |= 0x40; ((uint8_t *) p)[n - 1] |= 0x01; } }
const char *gi_name() { return "verif-giant"; }
randombytes_implementation GIMPL = { gi_name, impl_random, impl_stir, nullptr, gi_buf, impl_close };
std::string giant_child(const GRCase &c) {
    char b[300];
    if (c.kind != 1 && !giant::have_memory(c.len)) return "SKIP memory";
    giant::Map M(c.len); if (!M.ok()) return "SKIP mapping";
    const size_t G = (size_t) 1 << 32;
    if (c.kind == 0) {
        Bytes seed(32); for (int i = 0; i < 32; i++) seed[(size_t) i] = (uint8_t) (i * 5 + 1);
        randombytes_buf_deterministic(M.p, c.len, seed.data());
        for (size_t w : { (size_t) 0, G - 128, G - 64, G, G + 64, (c.len - 1) / 64 * 64, c.len / 2 / 64 * 64 }) {
            if (w >= c.len) continue;
            size_t n = std::min<size_t>(128, c.len - w);
            ref::Bytes ks = ref::chacha20_ietf_stream(seed, ref::str("LibsodiumDRG"), (uint32_t) (w / 64), n);
            if (memcmp(M.p + w, ks.data(), n) != 0) { size_t i = 0; while (i < n && M.p[w + i] == ks[i]) i++; snprintf(b, sizeof b, "randombytes_buf_deterministic(len=%zu) differs from ChaCha20-IETF(seed, 'LibsodiumDRG') at byte %zu", c.len, w + i); return b; }
        }
        for (int k = 0; k < 64; k++) if (M.p[c.len + (size_t) k] != 0) { snprintf(b, sizeof b, "randombytes_buf_deterministic(len=%zu) wrote beyond the requested length", c.len); return b; }
        return "OK";
    }
    if (c.kind == 1) {
        randombytes_set_implementation(&GIMPL);
        g_gi_total = 0; g_gi_calls = 0; g_gi_first = g_gi_end = nullptr;
        randombytes_buf(M.p, c.len);
        if (g_gi_total != c.len || g_gi_first != M.p || g_gi_end != M.p + c.len) { snprintf(b, sizeof b, "randombytes_buf(size=%zu): the installed source was asked for %zu bytes in %llu call(s) (first byte offset %td, end offset %td): not the requested range", c.len, g_gi_total, (unsigned long long) g_gi_calls, g_gi_first ? g_gi_first - M.p : -1, g_gi_end ? g_gi_end - M.p : -1); return b; }
        return "OK";
    }
    randombytes_set_implementation(c.kind == 2 ? &randombytes_sysrandom_implementation : &randombytes_internal_implementation);
    randombytes_stir();
    randombytes_buf(M.p, c.len);
    // 4096 windows of 32 bytes spread over the buffer plus the ones around 2^32 and at the end: an all-zero window has probability 2^-256
    size_t step = c.len / 4096;
    std::vector<size_t> ws; for (size_t i = 0; i < 4096; i++) ws.push_back(i * step); for (size_t w : { G - 32, G, G + 32, c.len - 32, c.len - 64 }) if (w + 32 <= c.len) ws.push_back(w);
    for (size_t w : ws) { bool z = true; for (int k = 0; k < 32; k++) if (M.p[w + (size_t) k]) z = false; if (z) { snprintf(b, sizeof b, "randombytes_buf(size=%zu) with the %s source left bytes %zu..%zu unwritten (all zero)", c.len, c.kind == 2 ? "sysrandom" : "internal", w, w + 31); return b; } }
    for (int k = 0; k < 64; k++) if (M.p[c.len + (size_t) k] != 0) { snprintf(b, sizeof b, "randombytes_buf(size=%zu) wrote beyond the requested size", c.len); return b; }
    return "OK";
}
bool run_giant_request(const GRCase &c, std::string &msg) {
    init_once();
    int fd[2]; if (pipe(fd) != 0) { g_gr_skipped++; return true; }
    fflush(nullptr);
    pid_t pid = fork();
    if (pid < 0) { close(fd[0]); close(fd[1]); g_gr_skipped++; return true; }
    if (pid == 0) { close(fd[0]); std::string r = giant_child(c); ssize_t w = write(fd[1], r.data(), r.size()); (void) w; _exit(0); }
    close(fd[1]);
    std::string r; char buf[400]; ssize_t n; while ((n = read(fd[0], buf, sizeof buf)) > 0) r.append(buf, (size_t) n);
    close(fd[0]);
    int status = 0; waitpid(pid, &status, 0);
    if (WIFSIGNALED(status) && WTERMSIG(status) == SIGKILL) { g_gr_skipped++; return true; }       // killed from outside (memory pressure): inconclusive
    if (WIFSIGNALED(status)) { msg = "the child died with signal " + std::to_string(WTERMSIG(status)) + " during a request of " + std::to_string(c.len) + " bytes (kind " + std::to_string(c.kind) + ")"; return false; }
    if (r.compare(0, 4, "SKIP") == 0) { g_gr_skipped++; return true; }
    if (r == "OK") return true;
    msg = r.empty() ? "the child returned nothing" : r; return false;
}
void explore_giant_requests(Ctx &ctx) {
    if (!ctx.thorough() || !giant::fast_build() || !giant::first_round()) { ctx.notes["giant_requests"] = "thorough tier, non-sanitizer build, first round only"; return; }
    uint64_t idx = 0;
    for (int kind = 0; kind < 4; kind++) for (size_t len : { ((size_t) 1 << 32) + 100, (size_t) 1 << 32 }) {
        uint64_t i = idx++;
        if (ctx.worker != (int) (i % (uint64_t) std::min(ctx.nworkers, 3))) continue;
        if (kind == 2 && len == ((size_t) 1 << 32)) continue;                        // the kernel source: 16 million system calls per case, one length is enough
        GRCase c{ kind, len };
        exec_case(ctx, c, run_giant_request, mix64(kind, len), true);
    }
    ctx.notes["giant_requests_skipped"] = std::to_string(g_gr_skipped);
}

bool replay(const KV &k, std::string &msg) {
    if (k.gs("kind") == "giant_request") { GRCase c{ (int) k.gu("gkind"), (size_t) k.gu("len") }; return run_giant_request(c, msg); }
    if (k.gs("kind") == "kernel") { KCase c{ (int) k.gu("impl"), (int) k.gu("mode"), k.gu("seed"), (int) k.gu("variant") }; return run_kernel(c, msg); }
    if (k.gs("kind") == "uniform") { UniCase c; c.n = (uint32_t) k.gu("n"); Bytes d = k.gb("draws"); for (size_t i = 0; i + 4 <= d.size(); i += 4) c.draws.push_back((uint32_t) d[i] | ((uint32_t) d[i + 1] << 8) | ((uint32_t) d[i + 2] << 16) | ((uint32_t) d[i + 3] << 24)); return run_uniform(c, msg); }
    if (k.gs("kind") == "det") { DetCase c{ (size_t) k.gu("len"), k.gb("seed"), (unsigned long) k.gu("mask") }; return run_det(c, msg); }
    GenCase c; c.g = -1;
    for (size_t i = 0; i < gens().size(); i++) if (k.gs("api") == gens()[i].name) c.g = (int) i;
    if (c.g < 0) { msg = "unknown api"; return false; }
    c.seed = k.gu("seed"); c.prefix = k.gb("prefix"); c.perturb = (size_t) k.gu("perturb"); c.pre = k.has("pre") ? (int) k.gu("pre") : 0;
    return run_gen(c, msg);
}

}  // namespace

std::vector<Sub> vh_subs() {
    return { { "uniform", explore_uniform, replay }, { "deterministic", explore_det, replay }, { "generators", explore_gen, replay }, { "builtin_sources", explore_kernel, replay }, { "giant_requests", explore_giant_requests, replay } };
}

// ------------------------------------------------------------------ link-time interposition (-Wl,--wrap=...): pass-through unless a scenario is active
extern "C" {
ssize_t __real_getrandom(void *, size_t, unsigned int);
ssize_t __real_read(int, void *, size_t);
int __real_getentropy(void *, size_t);
int __real_open(const char *, int, ...);
int __real_open64(const char *, int, ...);
int __real_gettimeofday(struct timeval *, void *);
int __real_fstat(int, struct stat *);

ssize_t __wrap_getrandom(void *buf, size_t n, unsigned int flags) {
    if (!K.active) return __real_getrandom(buf, n, flags);
    K.entered++;
    if (K.mode >= 1) { errno = ENOSYS; return -1; }
    if (K.inject()) return -1;
    K.serve(buf, n, n == 16);
    return (ssize_t) n;
}
// the internal generator prefers getentropy(3) (glibc implements it with the getrandom system call, not through the getrandom() entry point)
int __wrap_getentropy(void *buf, size_t n) {
    if (!K.active) return __real_getentropy(buf, n);
    K.entered++;
    if (K.mode >= 1) { errno = ENOSYS; return -1; }
    if (n > 256) { errno = EIO; return -1; }
    K.ncall++;
    K.serve(buf, n, n == 16);
    return 0;
}
ssize_t __wrap_read(int fd, void *buf, size_t n) {
    if (!K.active || K.ufd < 0 || fd != K.ufd || n == 0) return __real_read(fd, buf, n);
    K.entered++;
    if (K.inject()) return -1;
    uint64_t h = mix64(K.seed ^ 0x73686f72ULL, K.ncall);
    size_t give = n;
    switch (h % 3) { case 0: break; case 1: give = 1 + (size_t) ((h >> 8) % (n < 8 ? n : 8)); break; default: give = 1 + (size_t) ((h >> 8) % n); break; }
    if (give < n) K.shorts++;
    K.serve(buf, give, false);
    return (ssize_t) give;
}
static int k_opened(const char *path, int fd) {
    if (K.active && fd >= 0 && path && (!strcmp(path, "/dev/urandom") || !strcmp(path, "/dev/random"))) K.ufd = fd;
    return fd;
}
int __wrap_open(const char *path, int flags, ...) {
    mode_t mode = 0;
    if (flags & (O_CREAT | O_TMPFILE)) { va_list ap; va_start(ap, flags); mode = (mode_t) va_arg(ap, int); va_end(ap); }
    return k_opened(path, __real_open(path, flags, mode));
}
int __wrap_open64(const char *path, int flags, ...) {
    mode_t mode = 0;
    if (flags & (O_CREAT | O_TMPFILE)) { va_list ap; va_start(ap, flags); mode = (mode_t) va_arg(ap, int); va_end(ap); }
    return k_opened(path, __real_open64(path, flags, mode));
}
int __wrap_fstat(int fd, struct stat *st) {
    int r = __real_fstat(fd, st);
    if (K.active && K.mode == 2 && r == 0 && fd == K.ufd) st->st_mode = (st->st_mode & ~(mode_t) S_IFMT) | S_IFREG;
    return r;
}
int __wrap_gettimeofday(struct timeval *tv, void *tz) {
    if (!K.active) return __real_gettimeofday(tv, tz);
    if (tv) { tv->tv_sec = 1700000000; tv->tv_usec = (suseconds_t) (1000 + K.tcalls++); }
    return 0;
}
}
