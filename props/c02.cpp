// C02 -- forged or altered inputs are rejected and release no plaintext.
// Valid tuples are produced with the library itself (their correctness is C01's claim); each tampering must be
// rejected with a non-zero return, a zero reported length, and an output buffer in which every byte is either
// the pre-fill or one constant filler byte (the same for independent keys/messages).
#include "vh_main.hpp"
using namespace vh;

namespace {

inline const uint8_t *D(const Bytes &b) { static uint8_t z[8]; return b.empty() ? z : b.data(); }
inline uint8_t *D(Bytes &b) { static uint8_t z[8]; return b.empty() ? z : b.data(); }

struct FieldDesc { const char *name; bool var; size_t protect_prefix; };   // var: length may change; protect_prefix: calling-convention bytes
struct Tuple { std::vector<Bytes> f; Bytes msg; };
struct Res { unsigned long long len = 0x5a5a5a5a5a5a5a5aULL; bool has_len = false; unsigned char tag = 0x77; bool has_tag = false; };

struct Verifier {
    const char *name;
    std::vector<FieldDesc> fields;
    std::function<Tuple(Rng &, size_t mlen, size_t adlen)> make;
    // out == nullptr: API has no output (MAC verify) or verify-only mode
    std::function<int(const Tuple &, uint8_t *out, Res &)> verify;
    std::function<size_t(const Tuple &)> outcap;         // output capacity the contract requires for this (possibly tampered) tuple
    size_t msg_off;                                      // where the plaintext would appear in the output on success
    bool needs_aesgcm;
    std::function<bool(int field, size_t bit, size_t mlen)> dontcare; // spec-defined don't-care bits
    size_t min_len_field;                                // index of the var field carrying the tag (for "shorter than the tag" truncation), or 99
};

std::vector<Verifier> &verifiers() {
    static std::vector<Verifier> V;
    if (!V.empty()) return V;
    auto nodc = [](int, size_t, size_t) { return false; };

    // ---------------------------------------------------------------- AEADs
#define AEAD(P, KB, NB, AB, GCM)                                                                                                                     \
    {                                                                                                                                                \
        auto mk = [](Rng &r, size_t mlen, size_t adlen) { Tuple t; t.msg = r.bytes(mlen); Bytes k = r.bytes(KB), n = r.bytes(NB), ad = r.bytes(adlen), c(mlen + AB); \
            unsigned long long cl; crypto_aead_##P##_encrypt(D(c), &cl, D(t.msg), mlen, D(ad), adlen, nullptr, D(n), D(k)); t.f = { k, n, ad, c }; return t; }; \
        V.push_back(Verifier{ #P "_decrypt", { { "key", false, 0 }, { "nonce", false, 0 }, { "ad", true, 0 }, { "ct", true, 0 } }, mk,            \
            [](const Tuple &t, uint8_t *out, Res &r) { r.has_len = true; return crypto_aead_##P##_decrypt(out, &r.len, nullptr, D(t.f[3]), t.f[3].size(), D(t.f[2]), t.f[2].size(), D(t.f[1]), D(t.f[0])); }, \
            [](const Tuple &t) { return t.f[3].size() >= AB ? t.f[3].size() - AB : 0; }, 0, GCM, nodc, 3 });                                        \
        V.push_back(Verifier{ #P "_decrypt_verifyonly", { { "key", false, 0 }, { "nonce", false, 0 }, { "ad", true, 0 }, { "ct", true, 0 } }, mk,  \
            [](const Tuple &t, uint8_t *, Res &r) { r.has_len = true; return crypto_aead_##P##_decrypt(nullptr, &r.len, nullptr, D(t.f[3]), t.f[3].size(), D(t.f[2]), t.f[2].size(), D(t.f[1]), D(t.f[0])); }, \
            [](const Tuple &) { return (size_t) 0; }, 0, GCM, nodc, 3 });                                                                            \
        auto mkd = [](Rng &r, size_t mlen, size_t adlen) { Tuple t; t.msg = r.bytes(mlen); Bytes k = r.bytes(KB), n = r.bytes(NB), ad = r.bytes(adlen), c(mlen), mac(AB); \
            unsigned long long ml; crypto_aead_##P##_encrypt_detached(D(c), D(mac), &ml, D(t.msg), mlen, D(ad), adlen, nullptr, D(n), D(k)); t.f = { k, n, ad, c, mac }; return t; }; \
        V.push_back(Verifier{ #P "_decrypt_detached", { { "key", false, 0 }, { "nonce", false, 0 }, { "ad", true, 0 }, { "ct", true, 0 }, { "mac", false, 0 } }, mkd, \
            [](const Tuple &t, uint8_t *out, Res &) { return crypto_aead_##P##_decrypt_detached(out, nullptr, D(t.f[3]), t.f[3].size(), D(t.f[4]), D(t.f[2]), t.f[2].size(), D(t.f[1]), D(t.f[0])); }, \
            [](const Tuple &t) { return t.f[3].size(); }, 0, GCM, nodc, 99 });                                                                       \
        V.push_back(Verifier{ #P "_decrypt_detached_verifyonly", { { "key", false, 0 }, { "nonce", false, 0 }, { "ad", true, 0 }, { "ct", true, 0 }, { "mac", false, 0 } }, mkd, \
            [](const Tuple &t, uint8_t *, Res &) { return crypto_aead_##P##_decrypt_detached(nullptr, nullptr, D(t.f[3]), t.f[3].size(), D(t.f[4]), D(t.f[2]), t.f[2].size(), D(t.f[1]), D(t.f[0])); }, \
            [](const Tuple &) { return (size_t) 0; }, 0, GCM, nodc, 99 });                                                                           \
    }
    AEAD(chacha20poly1305, 32, 8, 16, false)
    AEAD(chacha20poly1305_ietf, 32, 12, 16, false)
    AEAD(xchacha20poly1305_ietf, 32, 24, 16, false)
    AEAD(aes256gcm, 32, 12, 16, true)
    AEAD(aegis128l, 16, 16, 32, false)
    AEAD(aegis256, 32, 32, 32, false)
    {   // AES-256-GCM precomputed key
        auto mk = [](Rng &r, size_t mlen, size_t adlen) { Tuple t; t.msg = r.bytes(mlen); Bytes k = r.bytes(32), n = r.bytes(12), ad = r.bytes(adlen), c(mlen + 16);
            unsigned long long cl; crypto_aead_aes256gcm_encrypt(D(c), &cl, D(t.msg), mlen, D(ad), adlen, nullptr, D(n), D(k)); t.f = { k, n, ad, c }; return t; };
        V.push_back(Verifier{ "aes256gcm_decrypt_afternm", { { "key", false, 0 }, { "nonce", false, 0 }, { "ad", true, 0 }, { "ct", true, 0 } }, mk,
            [](const Tuple &t, uint8_t *out, Res &r) { crypto_aead_aes256gcm_state st; crypto_aead_aes256gcm_beforenm(&st, D(t.f[0])); r.has_len = true;
                return crypto_aead_aes256gcm_decrypt_afternm(out, &r.len, nullptr, D(t.f[3]), t.f[3].size(), D(t.f[2]), t.f[2].size(), D(t.f[1]), &st); },
            [](const Tuple &t) { return t.f[3].size() >= 16 ? t.f[3].size() - 16 : 0; }, 0, true, nodc, 3 });
    }
    // ---------------------------------------------------------------- secretbox (both ciphers)
#define SBOX(P)                                                                                                                                      \
    V.push_back(Verifier{ #P "_open_easy", { { "key", false, 0 }, { "nonce", false, 0 }, { "ct", true, 0 } },                                       \
        [](Rng &r, size_t mlen, size_t) { Tuple t; t.msg = r.bytes(mlen); Bytes k = r.bytes(32), n = r.bytes(24), c(mlen + 16); P##_easy(D(c), D(t.msg), mlen, D(n), D(k)); t.f = { k, n, c }; return t; }, \
        [](const Tuple &t, uint8_t *out, Res &) { return P##_open_easy(out, D(t.f[2]), t.f[2].size(), D(t.f[1]), D(t.f[0])); },                      \
        [](const Tuple &t) { return t.f[2].size() >= 16 ? t.f[2].size() - 16 : 0; }, 0, false, nodc, 2 });                                           \
    V.push_back(Verifier{ #P "_open_detached", { { "key", false, 0 }, { "nonce", false, 0 }, { "ct", true, 0 }, { "mac", false, 0 } },              \
        [](Rng &r, size_t mlen, size_t) { Tuple t; t.msg = r.bytes(mlen); Bytes k = r.bytes(32), n = r.bytes(24), c(mlen), mac(16); P##_detached(D(c), D(mac), D(t.msg), mlen, D(n), D(k)); t.f = { k, n, c, mac }; return t; }, \
        [](const Tuple &t, uint8_t *out, Res &) { return P##_open_detached(out, D(t.f[2]), D(t.f[3]), t.f[2].size(), D(t.f[1]), D(t.f[0])); },       \
        [](const Tuple &t) { return t.f[2].size(); }, 0, false, nodc, 99 });
    SBOX(crypto_secretbox)
    SBOX(crypto_secretbox_xchacha20poly1305)
    // NaCl zero-padded form: c = 16 zero bytes || tag || ct, m = 32 zero bytes || message
    V.push_back(Verifier{ "crypto_secretbox_open(nacl)", { { "key", false, 0 }, { "nonce", false, 0 }, { "ct", true, 16 } },
        [](Rng &r, size_t mlen, size_t) { Tuple t; t.msg = r.bytes(mlen); Bytes k = r.bytes(32), n = r.bytes(24), m(mlen + 32, 0), c(mlen + 32);
            if (mlen) memcpy(&m[32], t.msg.data(), mlen); crypto_secretbox(D(c), D(m), m.size(), D(n), D(k)); t.f = { k, n, c }; return t; },
        [](const Tuple &t, uint8_t *out, Res &) { return crypto_secretbox_open(out, D(t.f[2]), t.f[2].size(), D(t.f[1]), D(t.f[0])); },
        [](const Tuple &t) { return t.f[2].size(); }, 32, false, nodc, 2 });
    // ---------------------------------------------------------------- box (both ciphers): nonce, ciphertext and the precomputed symmetric key are tampered
#define BOXV(P)                                                                                                                                      \
    V.push_back(Verifier{ #P "_open_easy", { { "nonce", false, 0 }, { "ct", true, 0 }, { "pk*", false, 0 }, { "sk*", false, 0 } },                  \
        [](Rng &r, size_t mlen, size_t) { Tuple t; t.msg = r.bytes(mlen); Bytes n = r.bytes(24), c(mlen + 16), pk1(32), sk1(32), pk2(32), sk2(32), s1 = r.bytes(32), s2 = r.bytes(32); \
            P##_seed_keypair(D(pk1), D(sk1), D(s1)); P##_seed_keypair(D(pk2), D(sk2), D(s2)); (void) !P##_easy(D(c), D(t.msg), mlen, D(n), D(pk2), D(sk1)); t.f = { n, c, pk1, sk2 }; return t; }, \
        [](const Tuple &t, uint8_t *out, Res &) { return P##_open_easy(out, D(t.f[1]), t.f[1].size(), D(t.f[0]), D(t.f[2]), D(t.f[3])); },           \
        [](const Tuple &t) { return t.f[1].size() >= 16 ? t.f[1].size() - 16 : 0; }, 0, false, nodc, 1 });                                           \
    V.push_back(Verifier{ #P "_open_detached", { { "nonce", false, 0 }, { "ct", true, 0 }, { "mac", false, 0 }, { "pk*", false, 0 }, { "sk*", false, 0 } }, \
        [](Rng &r, size_t mlen, size_t) { Tuple t; t.msg = r.bytes(mlen); Bytes n = r.bytes(24), c(mlen), mac(16), pk1(32), sk1(32), pk2(32), sk2(32), s1 = r.bytes(32), s2 = r.bytes(32); \
            P##_seed_keypair(D(pk1), D(sk1), D(s1)); P##_seed_keypair(D(pk2), D(sk2), D(s2)); (void) !P##_detached(D(c), D(mac), D(t.msg), mlen, D(n), D(pk2), D(sk1)); t.f = { n, c, mac, pk1, sk2 }; return t; }, \
        [](const Tuple &t, uint8_t *out, Res &) { return P##_open_detached(out, D(t.f[1]), D(t.f[2]), t.f[1].size(), D(t.f[0]), D(t.f[3]), D(t.f[4])); }, \
        [](const Tuple &t) { return t.f[1].size(); }, 0, false, nodc, 99 });                                                                         \
    V.push_back(Verifier{ #P "_open_easy_afternm", { { "key", false, 0 }, { "nonce", false, 0 }, { "ct", true, 0 } },                               \
        [](Rng &r, size_t mlen, size_t) { Tuple t; t.msg = r.bytes(mlen); Bytes k = r.bytes(32), n = r.bytes(24), c(mlen + 16); P##_easy_afternm(D(c), D(t.msg), mlen, D(n), D(k)); t.f = { k, n, c }; return t; }, \
        [](const Tuple &t, uint8_t *out, Res &) { return P##_open_easy_afternm(out, D(t.f[2]), t.f[2].size(), D(t.f[1]), D(t.f[0])); },              \
        [](const Tuple &t) { return t.f[2].size() >= 16 ? t.f[2].size() - 16 : 0; }, 0, false, nodc, 2 });                                           \
    V.push_back(Verifier{ #P "_open_detached_afternm", { { "key", false, 0 }, { "nonce", false, 0 }, { "ct", true, 0 }, { "mac", false, 0 } },      \
        [](Rng &r, size_t mlen, size_t) { Tuple t; t.msg = r.bytes(mlen); Bytes k = r.bytes(32), n = r.bytes(24), c(mlen), mac(16); P##_detached_afternm(D(c), D(mac), D(t.msg), mlen, D(n), D(k)); t.f = { k, n, c, mac }; return t; }, \
        [](const Tuple &t, uint8_t *out, Res &) { return P##_open_detached_afternm(out, D(t.f[2]), D(t.f[3]), t.f[2].size(), D(t.f[1]), D(t.f[0])); }, \
        [](const Tuple &t) { return t.f[2].size(); }, 0, false, nodc, 99 });                                                                         \
    V.push_back(Verifier{ #P "_seal_open", { { "ct", true, 0 }, { "pk*", false, 0 }, { "sk*", false, 0 } },                                         \
        [](Rng &r, size_t mlen, size_t) { Tuple t; t.msg = r.bytes(mlen); Bytes c(mlen + 48), pk(32), sk(32), s = r.bytes(32);                      \
            P##_seed_keypair(D(pk), D(sk), D(s)); (void) !P##_seal(D(c), D(t.msg), mlen, D(pk)); t.f = { c, pk, sk }; return t; },                   \
        [](const Tuple &t, uint8_t *out, Res &) { return P##_seal_open(out, D(t.f[0]), t.f[0].size(), D(t.f[1]), D(t.f[2])); },                      \
        [](const Tuple &t) { return t.f[0].size() >= 48 ? t.f[0].size() - 48 : 0; }, 0, false, nodc, 0 });
    BOXV(crypto_box)
    BOXV(crypto_box_curve25519xchacha20poly1305)
    V.push_back(Verifier{ "crypto_box_open(nacl)", { { "nonce", false, 0 }, { "ct", true, 16 }, { "pk*", false, 0 }, { "sk*", false, 0 } },
        [](Rng &r, size_t mlen, size_t) { Tuple t; t.msg = r.bytes(mlen); Bytes n = r.bytes(24), m(mlen + 32, 0), c(mlen + 32), pk1(32), sk1(32), pk2(32), sk2(32), s1 = r.bytes(32), s2 = r.bytes(32);
            if (mlen) memcpy(&m[32], t.msg.data(), mlen); crypto_box_seed_keypair(D(pk1), D(sk1), D(s1)); crypto_box_seed_keypair(D(pk2), D(sk2), D(s2));
            (void) !crypto_box(D(c), D(m), m.size(), D(n), D(pk2), D(sk1)); t.f = { n, c, pk1, sk2 }; return t; },
        [](const Tuple &t, uint8_t *out, Res &) { return crypto_box_open(out, D(t.f[1]), t.f[1].size(), D(t.f[0]), D(t.f[2]), D(t.f[3])); },
        [](const Tuple &t) { return t.f[1].size(); }, 32, false, nodc, 1 });
    V.push_back(Verifier{ "crypto_box_open_afternm(nacl)", { { "key", false, 0 }, { "nonce", false, 0 }, { "ct", true, 16 } },
        [](Rng &r, size_t mlen, size_t) { Tuple t; t.msg = r.bytes(mlen); Bytes k = r.bytes(32), n = r.bytes(24), m(mlen + 32, 0), c(mlen + 32);
            if (mlen) memcpy(&m[32], t.msg.data(), mlen); crypto_box_afternm(D(c), D(m), m.size(), D(n), D(k)); t.f = { k, n, c }; return t; },
        [](const Tuple &t, uint8_t *out, Res &) { return crypto_box_open_afternm(out, D(t.f[2]), t.f[2].size(), D(t.f[1]), D(t.f[0])); },
        [](const Tuple &t) { return t.f[2].size(); }, 32, false, nodc, 2 });
    // ---------------------------------------------------------------- secretstream: one chunk; key, header, chunk, ad
    V.push_back(Verifier{ "secretstream_pull", { { "key", false, 0 }, { "header", false, 0 }, { "chunk", true, 0 }, { "ad", true, 0 } },
        [](Rng &r, size_t mlen, size_t adlen) { Tuple t; t.msg = r.bytes(mlen); Bytes k = r.bytes(32), h(24), c(mlen + 17), ad = r.bytes(adlen);
            crypto_secretstream_xchacha20poly1305_state st; crypto_secretstream_xchacha20poly1305_init_push(&st, D(h), D(k));
            crypto_secretstream_xchacha20poly1305_push(&st, D(c), nullptr, D(t.msg), mlen, adlen ? D(ad) : nullptr, adlen, (unsigned char) (r.below(4)));
            t.f = { k, h, c, ad }; return t; },
        [](const Tuple &t, uint8_t *out, Res &r) { crypto_secretstream_xchacha20poly1305_state st;
            if (crypto_secretstream_xchacha20poly1305_init_pull(&st, D(t.f[1]), D(t.f[0])) != 0) return -1;
            r.has_len = true; r.has_tag = true;
            return crypto_secretstream_xchacha20poly1305_pull(&st, out, &r.len, &r.tag, D(t.f[2]), t.f[2].size(), t.f[3].empty() ? nullptr : D(t.f[3]), t.f[3].size()); },
        [](const Tuple &t) { return t.f[2].size() >= 17 ? t.f[2].size() - 17 : 0; }, 0, false, nodc, 2 });
    // ---------------------------------------------------------------- MAC verification (no output)
#define MACV(P, KB, TB)                                                                                                                              \
    V.push_back(Verifier{ #P "_verify", { { "key", false, 0 }, { "msg", true, 0 }, { "tag", false, 0 } },                                           \
        [](Rng &r, size_t mlen, size_t) { Tuple t; Bytes k = r.bytes(KB), m = r.bytes(mlen), tag(TB); P(D(tag), D(m), mlen, D(k)); t.f = { k, m, tag }; return t; }, \
        [](const Tuple &t, uint8_t *, Res &) { return P##_verify(D(t.f[2]), D(t.f[1]), t.f[1].size(), D(t.f[0])); },                                 \
        [](const Tuple &) { return (size_t) 0; }, 0, false, nodc, 99 });
    MACV(crypto_auth, 32, 32)
    MACV(crypto_auth_hmacsha256, 32, 32)
    MACV(crypto_auth_hmacsha512, 32, 64)
    MACV(crypto_auth_hmacsha512256, 32, 32)
    MACV(crypto_onetimeauth, 32, 16)
    // Poly1305 clamps 22 bits of r: they are not part of the key in the sense of the specification
    V.back().dontcare = [](int field, size_t bit, size_t mlen) {
        if (field != 0) return false;
        size_t byte = bit / 8, b = bit % 8;
        if (mlen == 0 && byte < 16) return true;      // empty message: the tag is s, r is never used
        if ((byte == 3 || byte == 7 || byte == 11 || byte == 15) && b >= 4) return true;
        if ((byte == 4 || byte == 8 || byte == 12) && b < 2) return true;
        return false;
    };
    // ---------------------------------------------------------------- signatures
    V.push_back(Verifier{ "crypto_sign_open", { { "sm", true, 0 }, { "pk", false, 0 } },
        [](Rng &r, size_t mlen, size_t) { Tuple t; t.msg = r.bytes(mlen); Bytes pk(32), sk(64), s = r.bytes(32), sm(mlen + 64); crypto_sign_seed_keypair(D(pk), D(sk), D(s));
            unsigned long long sl; crypto_sign(D(sm), &sl, D(t.msg), mlen, D(sk)); t.f = { sm, pk }; return t; },
        [](const Tuple &t, uint8_t *out, Res &r) { r.has_len = true; return crypto_sign_open(out, &r.len, D(t.f[0]), t.f[0].size(), D(t.f[1])); },
        [](const Tuple &t) { return t.f[0].size() >= 64 ? t.f[0].size() - 64 : 0; }, 0, false, nodc, 0 });
    V.push_back(Verifier{ "crypto_sign_verify_detached", { { "sig", false, 0 }, { "msg", true, 0 }, { "pk", false, 0 } },
        [](Rng &r, size_t mlen, size_t) { Tuple t; Bytes m = r.bytes(mlen), pk(32), sk(64), s = r.bytes(32), sig(64); crypto_sign_seed_keypair(D(pk), D(sk), D(s));
            crypto_sign_detached(D(sig), nullptr, D(m), mlen, D(sk)); t.f = { sig, m, pk }; return t; },
        [](const Tuple &t, uint8_t *, Res &) { return crypto_sign_verify_detached(D(t.f[0]), D(t.f[1]), t.f[1].size(), D(t.f[2])); },
        [](const Tuple &) { return (size_t) 0; }, 0, false, nodc, 99 });
    V.push_back(Verifier{ "crypto_sign_final_verify(ph)", { { "sig", false, 0 }, { "msg", true, 0 }, { "pk", false, 0 } },
        [](Rng &r, size_t mlen, size_t) { Tuple t; Bytes m = r.bytes(mlen), pk(32), sk(64), s = r.bytes(32), sig(64); crypto_sign_seed_keypair(D(pk), D(sk), D(s));
            crypto_sign_state st; crypto_sign_init(&st); crypto_sign_update(&st, D(m), mlen); crypto_sign_final_create(&st, D(sig), nullptr, D(sk)); t.f = { sig, m, pk }; return t; },
        [](const Tuple &t, uint8_t *, Res &) { crypto_sign_state st; crypto_sign_init(&st); size_t h = t.f[1].size() / 2;
            crypto_sign_update(&st, D(t.f[1]), h); crypto_sign_update(&st, D(t.f[1]) + h, t.f[1].size() - h); return crypto_sign_final_verify(&st, D(t.f[0]), D(t.f[2])); },
        [](const Tuple &) { return (size_t) 0; }, 0, false, nodc, 99 });
    return V;
}

// ---------------------------------------------------------------------------------------------------------------
enum Tamper { NONE, FLIP, TRUNC, EXTEND, SWAPTAG, FLIP2 };
const char *TN[] = { "none", "flip", "truncate", "extend", "swap", "flip2" };

struct Case {
    int v; size_t mlen, adlen; uint64_t cseed; int tamper; int field; size_t arg; unsigned long mask;
    KV kv() const { KV k; k.s("api", verifiers()[v].name).u("mlen", mlen).u("adlen", adlen).u("cseed", cseed).s("tamper", TN[tamper]).u("field", field).u("arg", arg).u("mask", mask); return k; }
};

std::map<std::string, int> &filler_seen() { static std::map<std::string, int> m; return m; }

bool check_reject(const Verifier &V, const Tuple &valid, const Tuple &t, const char *what, std::string &msg) {
    size_t cap = V.outcap(t);
    Bytes prefill(cap);
    for (size_t i = 0; i < cap; i++) prefill[i] = (uint8_t) (0xa0 + (i * 7) % 0x53);
    XBuf out(prefill, 4);
    Res r;
    int rc = V.verify(t, out.p, r);
    char b[400];
    if (rc == 0) { snprintf(b, sizeof b, "%s accepted a tampered input (%s)", V.name, what); msg = b; return false; }
    if (r.has_len && r.len != 0) { snprintf(b, sizeof b, "%s rejected (%s) but reported message length %llu instead of 0", V.name, what, r.len); msg = b; return false; }
    if (r.has_tag && r.tag != 0xff) { snprintf(b, sizeof b, "%s rejected (%s) but set tag to 0x%02x instead of 0xff", V.name, what, r.tag); msg = b; return false; }
    // output: every byte is the pre-fill or one constant filler byte
    Bytes now = out.get();
    int filler = -1;
    for (size_t i = 0; i < cap; i++) {
        if (now[i] == prefill[i]) continue;
        if (filler < 0) filler = now[i];
        if (now[i] != filler) { snprintf(b, sizeof b, "%s rejected (%s) but left data-dependent bytes in the output buffer (offset %zu of %zu)", V.name, what, i, cap); msg = b; return false; }
    }
    if (filler >= 0) {
        auto it = filler_seen().find(V.name);
        if (it == filler_seen().end()) filler_seen()[V.name] = filler;
        else if (it->second != filler) { snprintf(b, sizeof b, "%s: failure filler byte differs between runs (0x%02x vs 0x%02x): depends on key or data", V.name, filler, it->second); msg = b; return false; }
    }
    // no 8-byte window of the true plaintext anywhere in the output
    if (valid.msg.size() >= 16 && cap >= 8) {
        for (size_t i = 0; i + 8 <= valid.msg.size(); i += 8)
            for (size_t j = 0; j + 8 <= cap; j++)
                if (memcmp(&now[j], &valid.msg[i], 8) == 0) { snprintf(b, sizeof b, "%s rejected (%s) but released plaintext bytes (message offset %zu)", V.name, what, i); msg = b; return false; }
    }
    return true;
}

bool run(const Case &c, std::string &msg) {
    const Verifier &V = verifiers()[c.v];
    set_mask(c.mask);
    if (V.needs_aesgcm && !crypto_aead_aes256gcm_is_available()) return true;
    Rng r(c.cseed);
    Tuple valid = V.make(r, c.mlen, c.adlen);
    char b[300];
    if (c.tamper == NONE) {   // inverse direction: the untampered tuple verifies and yields the message
        size_t cap = V.outcap(valid);
        XBuf out(cap, 4, 0xa5); Res res;
        int rc = V.verify(valid, out.p, res);
        if (rc != 0) { snprintf(b, sizeof b, "%s rejected a valid input (mlen %zu)", V.name, c.mlen); msg = b; return false; }
        if (cap && !valid.msg.empty()) {
            if (V.msg_off + valid.msg.size() > cap || memcmp(out.p + V.msg_off, valid.msg.data(), valid.msg.size()) != 0) { snprintf(b, sizeof b, "%s did not return the original message", V.name); msg = b; return false; }
        }
        if (res.has_len && res.len != valid.msg.size()) { snprintf(b, sizeof b, "%s reported length %llu, expected %zu", V.name, res.len, valid.msg.size()); msg = b; return false; }
        return true;
    }
    Tuple t = valid;
    char what[160];
    const FieldDesc &fd = V.fields[c.field];
    switch (c.tamper) {
    case FLIP: {
        size_t bit = c.arg;
        if (bit / 8 >= t.f[c.field].size()) return true;
        t.f[c.field][bit / 8] ^= (uint8_t) (1u << (bit % 8));
        snprintf(what, sizeof what, "bit %zu of %s flipped, mlen %zu", bit, fd.name, c.mlen);
        break;
    }
    case FLIP2: {   // the same bit flipped in two bytes a lane width apart: differences that cancel in an XOR-folding / lane-wise comparison
        size_t bit = c.arg & 0xffffffffu, dist = c.arg >> 32;
        if (bit / 8 + dist >= t.f[c.field].size()) return true;
        t.f[c.field][bit / 8] ^= (uint8_t) (1u << (bit % 8)); t.f[c.field][bit / 8 + dist] ^= (uint8_t) (1u << (bit % 8));
        snprintf(what, sizeof what, "bit %zu of %s flipped together with the same bit %zu bytes further on, mlen %zu", bit, fd.name, dist, c.mlen);
        break;
    }
    case TRUNC:
        if (c.arg >= t.f[c.field].size()) return true;
        if (c.arg < fd.protect_prefix) return true;
        t.f[c.field].resize(c.arg);
        snprintf(what, sizeof what, "%s truncated from %zu to %zu bytes", fd.name, valid.f[c.field].size(), c.arg);
        break;
    case EXTEND: {
        Bytes sfx = r.bytes(c.arg);
        t.f[c.field].insert(t.f[c.field].end(), sfx.begin(), sfx.end());
        snprintf(what, sizeof what, "%s extended by %zu bytes", fd.name, c.arg);
        break;
    }
    case SWAPTAG: {   // field value taken from a second, independent valid tuple of the same shape
        Rng r2(c.cseed ^ 0x1234567);
        Tuple other = V.make(r2, c.mlen, c.adlen);
        t.f[c.field] = other.f[c.field];
        if (t.f[c.field] == valid.f[c.field]) return true;
        snprintf(what, sizeof what, "%s replaced by that of another valid tuple", fd.name);
        break;
    }
    }
    return check_reject(V, valid, t, what, msg);
}

std::vector<unsigned long> masks02(bool thorough) {
    std::vector<unsigned long> out;
    for (auto &m : mask_set(true)) if (m.name == "all" || (thorough && m.name == "-avx2") || m.name == "none" || m.name == "all-aes") out.push_back(m.mask);
    return out;
}

std::string family_of(const std::string &n) {
    if (n.find("secretstream") != std::string::npos) return "secretstream";
    if (n.find("secretbox") != std::string::npos) return "secretbox";
    if (n.find("crypto_box") != std::string::npos) return "box";
    if (n.find("crypto_sign") != std::string::npos) return "sign";
    if (n.find("auth") != std::string::npos) return "mac";
    return "aead";
}
void explore_f(Ctx &ctx, const char *family) {
    auto &VS = verifiers();
    auto masks = masks02(ctx.thorough());
    Rng r = ctx.rng(std::string("c02-") + family);
    uint64_t idx = 0;
    std::vector<size_t> lens = { 0, 1, 15, 16, 17, 31, 32, 33, 63, 64, 65, 96 };
    std::vector<size_t> longs = { 127, 128, 129, 255, 256, 257, 600 };
    if (ctx.thorough()) for (size_t l = 0; l <= 600; l += 13) longs.push_back(l);
    for (size_t vi = 0; vi < VS.size(); vi++) {
        const Verifier &V = VS[vi];
        if (family_of(V.name) != family) continue;
        bool pk_slow = std::string(V.name).find("crypto_box") != std::string::npos || std::string(V.name).find("sign") != std::string::npos;
        std::vector<size_t> all = lens; all.insert(all.end(), longs.begin(), longs.end());
        for (size_t mlen : all) {
            bool full = mlen <= 96;
            if (pk_slow && mlen > 65 && !ctx.thorough() && mlen != 257) continue;
            size_t adlen = mlen <= 96 ? (mlen * 5 + vi) % 40 : (mlen * 7 + vi * 13) % 700;      // long tuples also carry long associated data (sampled bit positions)
            for (unsigned long mask : masks) {
                uint64_t cs = r.next();
                // quick tier: AES-based verifiers under every mask; the others under "all" and, for the exhaustive short lengths, also
                // with every SIMD feature masked off (portable Poly1305 / ChaCha20 / Salsa20 / BLAKE2b backends authenticate too)
                bool aes = std::string(V.name).find("aegis") != std::string::npos || std::string(V.name).find("aes256gcm") != std::string::npos;
                if (mask != masks[0] && !ctx.thorough() && !aes && !(mask == 0 && mlen <= 96 && !pk_slow && (mlen % 16 <= 1 || mlen == 33 || mlen == 65))) continue;
                if (!ctx.mine(idx++)) continue;
                auto go = [&](int tamper, int field, size_t arg, bool nt) {
                    Case c{ (int) vi, mlen, adlen, cs, tamper, field, arg, mask };
                    exec_case(ctx, c, run, mix64(mix64(mix64(vi, mlen), mix64(tamper, field)), mix64(arg, mask)), nt);
                };
                go(NONE, 0, 0, false);
                Rng probe(cs); Tuple shape = V.make(probe, mlen, adlen);     // to learn field sizes
                for (size_t fi = 0; fi < V.fields.size(); fi++) {
                    const FieldDesc &fd = V.fields[fi];
                    if (strchr(fd.name, '*')) continue;                        // asymmetric keys are not in the property's list
                    size_t nbits = shape.f[fi].size() * 8;
                    size_t step = 1;
                    if (!full && nbits > 256) step = nbits / 256;
                    if (pk_slow && nbits > 64 && !ctx.thorough()) step = std::max<size_t>(step, nbits / 64);
                    for (size_t bit = fd.protect_prefix * 8; bit < nbits; bit += step) {
                        size_t bb = step > 1 ? bit + (size_t) ((cs >> 7) % step) : bit;
                        if (bb >= nbits) bb = nbits - 1;
                        if (V.dontcare(fi, bb, mlen)) continue;
                        go(FLIP, (int) fi, bb, true);
                    }
                    if (step > 1) {      // sampled sweep: the structurally special bits are always included (first / last byte, the byte-31 bits an
                                         // X25519 key embedded in the field would have masked, the first bits after a 32-byte header)
                        for (size_t fb : { (size_t) 0, (size_t) 1, (size_t) 7, (size_t) 8, (size_t) 248, (size_t) 249, (size_t) 254, (size_t) 255, (size_t) 256, (size_t) 263, nbits - 1, nbits - 8 })
                            if (fb >= fd.protect_prefix * 8 && fb < nbits && !V.dontcare(fi, fb, mlen)) go(FLIP, (int) fi, fb, true);
                    }
                    if (nbits >= 64 && nbits <= 1024) {       // keys, nonces, tags, short ciphertexts: paired flips 4 / 8 / 16 / 32 bytes apart
                        for (size_t dist : { (size_t) 4, (size_t) 8, (size_t) 16, (size_t) 32 }) {
                            if (dist * 8 >= nbits) continue;
                            size_t span = nbits - dist * 8, st2 = pk_slow && !ctx.thorough() ? span / 4 + 1 : (span > 64 ? span / 32 : 1);
                            for (size_t bit = fd.protect_prefix * 8; bit < span; bit += st2) {
                                size_t bb = bit + (size_t) ((cs >> 11) % st2); if (bb >= span) bb = span - 1;
                                if (V.dontcare(fi, bb, mlen) || V.dontcare(fi, bb + dist * 8, mlen)) continue;
                                go(FLIP2, (int) fi, bb | (dist << 32), true);
                            }
                        }
                    }
                    if (fd.var) {
                        size_t n = shape.f[fi].size();
                        size_t tstep = (full || n < 128) ? 1 : n / 64;
                        if (pk_slow && !ctx.thorough()) tstep = std::max<size_t>(tstep, n / 12 + 1);
                        for (size_t nl = fd.protect_prefix; nl < n; nl += tstep) go(TRUNC, (int) fi, nl, true);
                        for (size_t ext : { (size_t) 1, (size_t) 2, (size_t) 15, (size_t) 16, (size_t) 17 }) go(EXTEND, (int) fi, ext, true);
                    }
                    go(SWAPTAG, (int) fi, 0, true);
                }
            }
        }
    }
}

bool replay(const KV &k, std::string &msg) {
    Case c; c.v = -1;
    for (size_t i = 0; i < verifiers().size(); i++) if (k.gs("api") == verifiers()[i].name) c.v = (int) i;
    if (c.v < 0) { msg = "unknown api"; return false; }
    c.mlen = k.gu("mlen"); c.adlen = k.gu("adlen"); c.cseed = k.gu("cseed"); c.tamper = 0;
    for (int i = 0; i < 6; i++) if (k.gs("tamper") == TN[i]) c.tamper = i;
    c.field = (int) k.gu("field"); c.arg = k.gu("arg"); c.mask = k.gu("mask");
    return run(c, msg);
}

}  // namespace

std::vector<Sub> vh_subs() {
    std::vector<Sub> v;
    for (const char *f : { "aead", "secretbox", "box", "secretstream", "mac", "sign" }) v.push_back(Sub{ f, [f](Ctx &c) { explore_f(c, f); }, replay });
    return v;
}
