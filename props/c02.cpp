// C02 -- forged or altered inputs are rejected and release no plaintext.
// Valid tuples are produced with the library itself (their correctness is C01's claim); each tampering must be
// rejected with a non-zero return, a zero reported length, and an output buffer in which every byte is either
// the pre-fill or one constant filler byte (the same for independent keys/messages).
#include "vh_main.hpp"
#include "giant.hpp"
using namespace vh;

namespace {

inline const uint8_t *D(const Bytes &b) { static uint8_t z[8]; return b.empty() ? z : b.data(); }
inline uint8_t *D(Bytes &b) { static uint8_t z[8]; return b.empty() ? z : b.data(); }

struct FieldDesc { const char *name; bool var; size_t protect_prefix; };   // var: length may change; protect_prefix: calling-convention bytes
struct Tuple { std::vector<Bytes> f; Bytes msg; };
struct Res { unsigned long long len = 0x5a5a5a5a5a5a5a5aULL; bool has_len = false; unsigned char tag = 0x77; bool has_tag = false; };

struct Verifier {
    const char *name;
    std::vector<FieldDesc> fields;
    std::function<Tuple(Rng &, size_t mlen, size_t adlen)> make;
    // out == nullptr: API has no output (MAC verify) or verify-only mode
    std::function<int(const Tuple &, uint8_t *out, Res &)> verify;
    std::function<size_t(const Tuple &)> outcap;         // output capacity the contract requires for this (possibly tampered) tuple
    size_t msg_off;                                      // where the plaintext would appear in the output on success
    bool needs_aesgcm;
    std::function<bool(int field, size_t bit, size_t mlen)> dontcare; // spec-defined don't-care bits
    size_t min_len_field;                                // index of the var field carrying the tag (for "shorter than the tag" truncation), or 99
};

std::vector<Verifier> &verifiers() {
    static std::vector<Verifier> V;
    if (!V.empty()) return V;
    auto nodc = [](int, size_t, size_t) { return false; };

    // ---------------------------------------------------------------- AEADs
#define AEAD(P, KB, NB, AB, GCM)                                                                                                                     \
    {                                                                                                                                                \
        auto mk = [](Rng &r, size_t mlen, size_t adlen) { Tuple t; t.msg = r.bytes(mlen); Bytes k = r.bytes(KB), n = r.bytes(NB), ad = r.bytes(adlen), c(mlen + AB); \
            unsigned long long cl; crypto_aead_##P##_encrypt(D(c), &cl, D(t.msg), mlen, D(ad), adlen, nullptr, D(n), D(k)); t.f = { k, n, ad, c }; return t; }; \
        V.push_back(Verifier{ #P "_decrypt", { { "key", false, 0 }, { "nonce", false, 0 }, { "ad", true, 0 }, { "ct", true, 0 } }, mk,            \
            [](const Tuple &t, uint8_t *out, Res &r) { r.has_len = true; return crypto_aead_##P##_decrypt(out, &r.len, nullptr, D(t.f[3]), t.f[3].size(), D(t.f[2]), t.f[2].size(), D(t.f[1]), D(t.f[0])); }, \
            [](const Tuple &t) { return t.f[3].size() >= AB ? t.f[3].size() - AB : 0; }, 0, GCM, nodc, 3 });                                        \
        V.push_back(Verifier{ #P "_decrypt_verifyonly", { { "key", false, 0 }, { "nonce", false, 0 }, { "ad", true, 0 }, { "ct", true, 0 } }, mk,  \
            [](const Tuple &t, uint8_t *, Res &r) { r.has_len = true; return crypto_aead_##P##_decrypt(nullptr, &r.len, nullptr, D(t.f[3]), t.f[3].size(), D(t.f[2]), t.f[2].size(), D(t.f[1]), D(t.f[0])); }, \
            [](const Tuple &) { return (size_t) 0; }, 0, GCM, nodc, 3 });                                                                            \
        auto mkd = [](Rng &r, size_t mlen, size_t adlen) { Tuple t; t.msg = r.bytes(mlen); Bytes k = r.bytes(KB), n = r.bytes(NB), ad = r.bytes(adlen), c(mlen), mac(AB); \
            unsigned long long ml; crypto_aead_##P##_encrypt_detached(D(c), D(mac), &ml, D(t.msg), mlen, D(ad), adlen, nullptr, D(n), D(k)); t.f = { k, n, ad, c, mac }; return t; }; \
        V.push_back(Verifier{ #P "_decrypt_detached", { { "key", false, 0 }, { "nonce", false, 0 }, { "ad", true, 0 }, { "ct", true, 0 }, { "mac", false, 0 } }, mkd, \
            [](const Tuple &t, uint8_t *out, Res &) { return crypto_aead_##P##_decrypt_detached(out, nullptr, D(t.f[3]), t.f[3].size(), D(t.f[4]), D(t.f[2]), t.f[2].size(), D(t.f[1]), D(t.f[0])); }, \
            [](const Tuple &t) { return t.f[3].size(); }, 0, GCM, nodc, 99 });                                                                       \
        V.push_back(Verifier{ #P "_decrypt_detached_verifyonly", { { "key", false, 0 }, { "nonce", false, 0 }, { "ad", true, 0 }, { "ct", true, 0 }, { "mac", false, 0 } }, mkd, \
            [](const Tuple &t, uint8_t *, Res &) { return crypto_aead_##P##_decrypt_detached(nullptr, nullptr, D(t.f[3]), t.f[3].size(), D(t.f[4]), D(t.f[2]), t.f[2].size(), D(t.f[1]), D(t.f[0])); }, \
            [](const Tuple &) { return (size_t) 0; }, 0, GCM, nodc, 99 });                                                                           \
    }
    AEAD(chacha20poly1305, 32, 8, 16, false)
    AEAD(chacha20poly1305_ietf, 32, 12, 16, false)
    AEAD(xchacha20poly1305_ietf, 32, 24, 16, false)
    AEAD(aes256gcm, 32, 12, 16, true)
    AEAD(aegis128l, 16, 16, 32, false)
    AEAD(aegis256, 32, 32, 32, false)
    {   // AES-256-GCM precomputed key
        auto mk = [](Rng &r, size_t mlen, size_t adlen) { Tuple t; t.msg = r.bytes(mlen); Bytes k = r.bytes(32), n = r.bytes(12), ad = r.bytes(adlen), c(mlen + 16);
            unsigned long long cl; crypto_aead_aes256gcm_encrypt(D(c), &cl, D(t.msg), mlen, D(ad), adlen, nullptr, D(n), D(k)); t.f = { k, n, ad, c }; return t; };
        V.push_back(Verifier{ "aes256gcm_decrypt_afternm", { { "key", false, 0 }, { "nonce", false, 0 }, { "ad", true, 0 }, { "ct", true, 0 } }, mk,
            [](const Tuple &t, uint8_t *out, Res &r) { crypto_aead_aes256gcm_state st; crypto_aead_aes256gcm_beforenm(&st, D(t.f[0])); r.has_len = true;
                return crypto_aead_aes256gcm_decrypt_afternm(out, &r.len, nullptr, D(t.f[3]), t.f[3].size(), D(t.f[2]), t.f[2].size(), D(t.f[1]), &st); },
            [](const Tuple &t) { return t.f[3].size() >= 16 ? t.f[3].size() - 16 : 0; }, 0, true, nodc, 3 });
    }
    // ---------------------------------------------------------------- secretbox (both ciphers)
#define SBOX(P)                                                                                                                                      \
    V.push_back(Verifier{ #P "_open_easy", { { "key", false, 0 }, { "nonce", false, 0 }, { "ct", true, 0 } },                                       \
        [](Rng &r, size_t mlen, size_t) { Tuple t; t.msg = r.bytes(mlen); Bytes k = r.bytes(32), n = r.bytes(24), c(mlen + 16); P##_easy(D(c), D(t.msg), mlen, D(n), D(k)); t.f = { k, n, c }; return t; }, \
        [](const Tuple &t, uint8_t *out, Res &) { return P##_open_easy(out, D(t.f[2]), t.f[2].size(), D(t.f[1]), D(t.f[0])); },                      \
        [](const Tuple &t) { return t.f[2].size() >= 16 ? t.f[2].size() - 16 : 0; }, 0, false, nodc, 2 });                                           \
    V.push_back(Verifier{ #P "_open_detached", { { "key", false, 0 }, { "nonce", false, 0 }, { "ct", true, 0 }, { "mac", false, 0 } },              \
        [](Rng &r, size_t mlen, size_t) { Tuple t; t.msg = r.bytes(mlen); Bytes k = r.bytes(32), n = r.bytes(24), c(mlen), mac(16); P##_detached(D(c), D(mac), D(t.msg), mlen, D(n), D(k)); t.f = { k, n, c, mac }; return t; }, \
        [](const Tuple &t, uint8_t *out, Res &) { return P##_open_detached(out, D(t.f[2]), D(t.f[3]), t.f[2].size(), D(t.f[1]), D(t.f[0])); },       \
        [](const Tuple &t) { return t.f[2].size(); }, 0, false, nodc, 99 });
    SBOX(crypto_secretbox)
    SBOX(crypto_secretbox_xchacha20poly1305)
    // NaCl zero-padded form: c = 16 zero bytes || tag || ct, m = 32 zero bytes || message
    V.push_back(Verifier{ "crypto_secretbox_open(nacl)", { { "key", false, 0 }, { "nonce", false, 0 }, { "ct", true, 16 } },
        [](Rng &r, size_t mlen, size_t) { Tuple t; t.msg = r.bytes(mlen); Bytes k = r.bytes(32), n = r.bytes(24), m(mlen + 32, 0), c(mlen + 32);
            if (mlen) memcpy(&m[32], t.msg.data(), mlen); crypto_secretbox(D(c), D(m), m.size(), D(n), D(k)); t.f = { k, n, c }; return t; },
        [](const Tuple &t, uint8_t *out, Res &) { return crypto_secretbox_open(out, D(t.f[2]), t.f[2].size(), D(t.f[1]), D(t.f[0])); },
        [](const Tuple &t) { return t.f[2].size(); }, 32, false, nodc, 2 });
    // ---------------------------------------------------------------- box (both ciphers): nonce, ciphertext and the precomputed symmetric key are tampered
#define BOXV(P)                                                                                                                                      \
    V.push_back(Verifier{ #P "_open_easy", { { "nonce", false, 0 }, { "ct", true, 0 }, { "pk*", false, 0 }, { "sk*", false, 0 } },                  \
        [](Rng &r, size_t mlen, size_t) { Tuple t; t.msg = r.bytes(mlen); Bytes n = r.bytes(24), c(mlen + 16), pk1(32), sk1(32), pk2(32), sk2(32), s1 = r.bytes(32), s2 = r.bytes(32); \
            P##_seed_keypair(D(pk1), D(sk1), D(s1)); P##_seed_keypair(D(pk2), D(sk2), D(s2)); (void) !P##_easy(D(c), D(t.msg), mlen, D(n), D(pk2), D(sk1)); t.f = { n, c, pk1, sk2 }; return t; }, \
        [](const Tuple &t, uint8_t *out, Res &) { return P##_open_easy(out, D(t.f[1]), t.f[1].size(), D(t.f[0]), D(t.f[2]), D(t.f[3])); },           \
        [](const Tuple &t) { return t.f[1].size() >= 16 ? t.f[1].size() - 16 : 0; }, 0, false, nodc, 1 });                                           \
    V.push_back(Verifier{ #P "_open_detached", { { "nonce", false, 0 }, { "ct", true, 0 }, { "mac", false, 0 }, { "pk*", false, 0 }, { "sk*", false, 0 } }, \
        [](Rng &r, size_t mlen, size_t) { Tuple t; t.msg = r.bytes(mlen); Bytes n = r.bytes(24), c(mlen), mac(16), pk1(32), sk1(32), pk2(32), sk2(32), s1 = r.bytes(32), s2 = r.bytes(32); \
            P##_seed_keypair(D(pk1), D(sk1), D(s1)); P##_seed_keypair(D(pk2), D(sk2), D(s2)); (void) !P##_detached(D(c), D(mac), D(t.msg), mlen, D(n), D(pk2), D(sk1)); t.f = { n, c, mac, pk1, sk2 }; return t; }, \
        [](const Tuple &t, uint8_t *out, Res &) { return P##_open_detached(out, D(t.f[1]), D(t.f[2]), t.f[1].size(), D(t.f[0]), D(t.f[3]), D(t.f[4])); }, \
        [](const Tuple &t) { return t.f[1].size(); }, 0, false, nodc, 99 });                                                                         \
    V.push_back(Verifier{ #P "_open_easy_afternm", { { "key", false, 0 }, { "nonce", false, 0 }, { "ct", true, 0 } },                               \
        [](Rng &r, size_t mlen, size_t) { Tuple t; t.msg = r.bytes(mlen); Bytes k = r.bytes(32), n = r.bytes(24), c(mlen + 16); P##_easy_afternm(D(c), D(t.msg), mlen, D(n), D(k)); t.f = { k, n, c }; return t; }, \
        [](const Tuple &t, uint8_t *out, Res &) { return P##_open_easy_afternm(out, D(t.f[2]), t.f[2].size(), D(t.f[1]), D(t.f[0])); },              \
        [](const Tuple &t) { return t.f[2].size() >= 16 ? t.f[2].size() - 16 : 0; }, 0, false, nodc, 2 });                                           \
    V.push_back(Verifier{ #P "_open_detached_afternm", { { "key", false, 0 }, { "nonce", false, 0 }, { "ct", true, 0 }, { "mac", false, 0 } },      \
        [](Rng &r, size_t mlen, size_t) { Tuple t; t.msg = r.bytes(mlen); Bytes k = r.bytes(32), n = r.bytes(24), c(mlen), mac(16); P##_detached_afternm(D(c), D(mac), D(t.msg), mlen, D(n), D(k)); t.f = { k, n, c, mac }; return t; }, \
        [](const Tuple &t, uint8_t *out, Res &) { return P##_open_detached_afternm(out, D(t.f[2]), D(t.f[3]), t.f[2].size(), D(t.f[1]), D(t.f[0])); }, \
        [](const Tuple &t) { return t.f[2].size(); }, 0, false, nodc, 99 });                                                                         \
    V.push_back(Verifier{ #P "_seal_open", { { "ct", true, 0 }, { "pk*", false, 0 }, { "sk*", false, 0 } },                                         \
        [](Rng &r, size_t mlen, size_t) { Tuple t; t.msg = r.bytes(mlen); Bytes c(mlen + 48), pk(32), sk(32), s = r.bytes(32);                      \
            P##_seed_keypair(D(pk), D(sk), D(s)); (void) !P##_seal(D(c), D(t.msg), mlen, D(pk)); t.f = { c, pk, sk }; return t; },                   \
        [](const Tuple &t, uint8_t *out, Res &) { return P##_seal_open(out, D(t.f[0]), t.f[0].size(), D(t.f[1]), D(t.f[2])); },                      \
        [](const Tuple &t) { return t.f[0].size() >= 48 ? t.f[0].size() - 48 : 0; }, 0, false, nodc, 0 });
    BOXV(crypto_box)
    BOXV(crypto_box_curve25519xchacha20poly1305)
    V.push_back(Verifier{ "crypto_box_open(nacl)", { { "nonce", false, 0 }, { "ct", true, 16 }, { "pk*", false, 0 }, { "sk*", false, 0 } },
        [](Rng &r, size_t mlen, size_t) { Tuple t; t.msg = r.bytes(mlen); Bytes n = r.bytes(24), m(mlen + 32, 0), c(mlen + 32), pk1(32), sk1(32), pk2(32), sk2(32), s1 = r.bytes(32), s2 = r.bytes(32);
            if (mlen) memcpy(&m[32], t.msg.data(), mlen); crypto_box_seed_keypair(D(pk1), D(sk1), D(s1)); crypto_box_seed_keypair(D(pk2), D(sk2), D(s2));
            (void) !crypto_box(D(c), D(m), m.size(), D(n), D(pk2), D(sk1)); t.f = { n, c, pk1, sk2 }; return t; },
        [](const Tuple &t, uint8_t *out, Res &) { return crypto_box_open(out, D(t.f[1]), t.f[1].size(), D(t.f[0]), D(t.f[2]), D(t.f[3])); },
        [](const Tuple &t) { return t.f[1].size(); }, 32, false, nodc, 1 });
    V.push_back(Verifier{ "crypto_box_open_afternm(nacl)", { { "key", false, 0 }, { "nonce", false, 0 }, { "ct", true, 16 } },
        [](Rng &r, size_t mlen, size_t) { Tuple t; t.msg = r.bytes(mlen); Bytes k = r.bytes(32), n = r.bytes(24), m(mlen + 32, 0), c(mlen + 32);
            if (mlen) memcpy(&m[32], t.msg.data(), mlen); crypto_box_afternm(D(c), D(m), m.size(), D(n), D(k)); t.f = { k, n, c }; return t; },
        [](const Tuple &t, uint8_t *out, Res &) { return crypto_box_open_afternm(out, D(t.f[2]), t.f[2].size(), D(t.f[1]), D(t.f[0])); },
        [](const Tuple &t) { return t.f[2].size(); }, 32, false, nodc, 2 });
    // ---------------------------------------------------------------- secretstream: one chunk; key, header, chunk, ad
    V.push_back(Verifier{ "secretstream_pull", { { "key", false, 0 }, { "header", false, 0 }, { "chunk", true, 0 }, { "ad", true, 0 } },
        [](Rng &r, size_t mlen, size_t adlen) { Tuple t; t.msg = r.bytes(mlen); Bytes k = r.bytes(32), h(24), c(mlen + 17), ad = r.bytes(adlen);
            crypto_secretstream_xchacha20poly1305_state st; crypto_secretstream_xchacha20poly1305_init_push(&st, D(h), D(k));
            crypto_secretstream_xchacha20poly1305_push(&st, D(c), nullptr, D(t.msg), mlen, adlen ? D(ad) : nullptr, adlen, (unsigned char) (r.below(4)));
            t.f = { k, h, c, ad }; return t; },
        [](const Tuple &t, uint8_t *out, Res &r) { crypto_secretstream_xchacha20poly1305_state st;
            if (crypto_secretstream_xchacha20poly1305_init_pull(&st, D(t.f[1]), D(t.f[0])) != 0) return -1;
            r.has_len = true; r.has_tag = true;
            return crypto_secretstream_xchacha20poly1305_pull(&st, out, &r.len, &r.tag, D(t.f[2]), t.f[2].size(), t.f[3].empty() ? nullptr : D(t.f[3]), t.f[3].size()); },
        [](const Tuple &t) { return t.f[2].size() >= 17 ? t.f[2].size() - 17 : 0; }, 0, false, nodc, 2 });
    // ---------------------------------------------------------------- MAC verification (no output)
#define MACV(P, KB, TB)                                                                                                                              \
    V.push_back(Verifier{ #P "_verify", { { "key", false, 0 }, { "msg", true, 0 }, { "tag", false, 0 } },                                           \
        [](Rng &r, size_t mlen, size_t) { Tuple t; Bytes k = r.bytes(KB), m = r.bytes(mlen), tag(TB); P(D(tag), D(m), mlen, D(k)); t.f = { k, m, tag }; return t; }, \
        [](const Tuple &t, uint8_t *, Res &) { return P##_verify(D(t.f[2]), D(t.f[1]), t.f[1].size(), D(t.f[0])); },                                 \
        [](const Tuple &) { return (size_t) 0; }, 0, false, nodc, 99 });
    MACV(crypto_auth, 32, 32)
    MACV(crypto_auth_hmacsha256, 32, 32)
    MACV(crypto_auth_hmacsha512, 32, 64)
    MACV(crypto_auth_hmacsha512256, 32, 32)
    MACV(crypto_onetimeauth, 32, 16)
    // Poly1305 clamps 22 bits of r: they are not part of the key in the sense of the specification
    V.back().dontcare = [](int field, size_t bit, size_t mlen) {
        if (field != 0) return false;
        size_t byte = bit / 8, b = bit % 8;
        if (mlen == 0 && byte < 16) return true;      // empty message: the tag is s, r is never used
        if ((byte == 3 || byte == 7 || byte == 11 || byte == 15) && b >= 4) return true;
        if ((byte == 4 || byte == 8 || byte == 12) && b < 2) return true;
        return false;
    };
    // ---------------------------------------------------------------- signatures
    V.push_back(Verifier{ "crypto_sign_open", { { "sm", true, 0 }, { "pk", false, 0 } },
        [](Rng &r, size_t mlen, size_t) { Tuple t; t.msg = r.bytes(mlen); Bytes pk(32), sk(64), s = r.bytes(32), sm(mlen + 64); crypto_sign_seed_keypair(D(pk), D(sk), D(s));
            unsigned long long sl; crypto_sign(D(sm), &sl, D(t.msg), mlen, D(sk)); t.f = { sm, pk }; return t; },
        [](const Tuple &t, uint8_t *out, Res &r) { r.has_len = true; return crypto_sign_open(out, &r.len, D(t.f[0]), t.f[0].size(), D(t.f[1])); },
        [](const Tuple &t) { return t.f[0].size() >= 64 ? t.f[0].size() - 64 : 0; }, 0, false, nodc, 0 });
    V.push_back(Verifier{ "crypto_sign_verify_detached", { { "sig", false, 0 }, { "msg", true, 0 }, { "pk", false, 0 } },
        [](Rng &r, size_t mlen, size_t) { Tuple t; Bytes m = r.bytes(mlen), pk(32), sk(64), s = r.bytes(32), sig(64); crypto_sign_seed_keypair(D(pk), D(sk), D(s));
            crypto_sign_detached(D(sig), nullptr, D(m), mlen, D(sk)); t.f = { sig, m, pk }; return t; },
        [](const Tuple &t, uint8_t *, Res &) { return crypto_sign_verify_detached(D(t.f[0]), D(t.f[1]), t.f[1].size(), D(t.f[2])); },
        [](const Tuple &) { return (size_t) 0; }, 0, false, nodc, 99 });
    V.push_back(Verifier{ "crypto_sign_final_verify(ph)", { { "sig", false, 0 }, { "msg", true, 0 }, { "pk", false, 0 } },
        [](Rng &r, size_t mlen, size_t) { Tuple t; Bytes m = r.bytes(mlen), pk(32), sk(64), s = r.bytes(32), sig(64); crypto_sign_seed_keypair(D(pk), D(sk), D(s));
            crypto_sign_state st; crypto_sign_init(&st); crypto_sign_update(&st, D(m), mlen); crypto_sign_final_create(&st, D(sig), nullptr, D(sk)); t.f = { sig, m, pk }; return t; },
        [](const Tuple &t, uint8_t *, Res &) { crypto_sign_state st; crypto_sign_init(&st); size_t h = t.f[1].size() / 2;
            crypto_sign_update(&st, D(t.f[1]), h); crypto_sign_update(&st, D(t.f[1]) + h, t.f[1].size() - h); return crypto_sign_final_verify(&st, D(t.f[0]), D(t.f[2])); },
        [](const Tuple &) { return (size_t) 0; }, 0, false, nodc, 99 });
    return V;
}

// ---------------------------------------------------------------------------------------------------------------
enum Tamper { NONE, FLIP, TRUNC, EXTEND, SWAPTAG, FLIP2 };
const char *TN[] = { "none", "flip", "truncate", "extend", "swap", "flip2" };

struct Case {
    int v; size_t mlen, adlen; uint64_t cseed; int tamper; int field; size_t arg; unsigned long mask;
    KV kv() const { KV k; k.s("api", verifiers()[v].name).u("mlen", mlen).u("adlen", adlen).u("cseed", cseed).s("tamper", TN[tamper]).u("field", field).u("arg", arg).u("mask", mask); return k; }
};

std::map<std::string, int> &filler_seen() { static std::map<std::string, int> m; return m; }

bool check_reject(const Verifier &V, const Tuple &valid, const Tuple &t, const char *what, std::string &msg) {
    size_t cap = V.outcap(t);
    Bytes prefill(cap);
    for (size_t i = 0; i < cap; i++) prefill[i] = (uint8_t) (0xa0 + (i * 7) % 0x53);
    XBuf out(prefill, 4);
    Res r;
    int rc = V.verify(t, out.p, r);
    char b[400];
    if (rc == 0) { snprintf(b, sizeof b, "%s accepted a tampered input (%s)", V.name, what); msg = b; return false; }
    if (r.has_len && r.len != 0) { snprintf(b, sizeof b, "%s rejected (%s) but reported message length %llu instead of 0", V.name, what, r.len); msg = b; return false; }
    if (r.has_tag && r.tag != 0xff) { snprintf(b, sizeof b, "%s rejected (%s) but set tag to 0x%02x instead of 0xff", V.name, what, r.tag); msg = b; return false; }
    // output: every byte is the pre-fill or one constant filler byte
    Bytes now = out.get();
    int filler = -1;
    for (size_t i = 0; i < cap; i++) {
        if (now[i] == prefill[i]) continue;
        if (filler < 0) filler = now[i];
        if (now[i] != filler) { snprintf(b, sizeof b, "%s rejected (%s) but left data-dependent bytes in the output buffer (offset %zu of %zu)", V.name, what, i, cap); msg = b; return false; }
    }
    if (filler >= 0) {
        auto it = filler_seen().find(V.name);
        if (it == filler_seen().end()) filler_seen()[V.name] = filler;
        else if (it->second != filler) { snprintf(b, sizeof b, "%s: failure filler byte differs between runs (0x%02x vs 0x%02x): depends on key or data", V.name, filler, it->second); msg = b; return false; }
    }
    // no 8-byte window of the true plaintext anywhere in the output
    if (valid.msg.size() >= 16 && cap >= 8) {
        for (size_t i = 0; i + 8 <= valid.msg.size(); i += 8)
            for (size_t j = 0; j + 8 <= cap; j++)
                if (memcmp(&now[j], &valid.msg[i], 8) == 0) { snprintf(b, sizeof b, "%s rejected (%s) but released plaintext bytes (message offset %zu)", V.name, what, i); msg = b; return false; }
    }
    return true;
}

bool run(const Case &c, std::string &msg) {
    const Verifier &V = verifiers()[c.v];
    set_mask(c.mask);
    if (V.needs_aesgcm && !crypto_aead_aes256gcm_is_available()) return true;
    Rng r(c.cseed);
    Tuple valid = V.make(r, c.mlen, c.adlen);
    char b[300];
    if (c.tamper == NONE) {   // inverse direction: the untampered tuple verifies and yields the message
        size_t cap = V.outcap(valid);
        XBuf out(cap, 4, 0xa5); Res res;
        int rc = V.verify(valid, out.p, res);
        if (rc != 0) { snprintf(b, sizeof b, "%s rejected a valid input (mlen %zu)", V.name, c.mlen); msg = b; return false; }
        if (cap && !valid.msg.empty()) {
            if (V.msg_off + valid.msg.size() > cap || memcmp(out.p + V.msg_off, valid.msg.data(), valid.msg.size()) != 0) { snprintf(b, sizeof b, "%s did not return the original message", V.name); msg = b; return false; }
        }
        if (res.has_len && res.len != valid.msg.size()) { snprintf(b, sizeof b, "%s reported length %llu, expected %zu", V.name, res.len, valid.msg.size()); msg = b; return false; }
        return true;
    }
    Tuple t = valid;
    char what[160];
    const FieldDesc &fd = V.fields[c.field];
    switch (c.tamper) {
    case FLIP: {
        size_t bit = c.arg;
        if (bit / 8 >= t.f[c.field].size()) return true;
        t.f[c.field][bit / 8] ^= (uint8_t) (1u << (bit % 8));
        snprintf(what, sizeof what, "bit %zu of %s flipped, mlen %zu", bit, fd.name, c.mlen);
        break;
    }
    case FLIP2: {   // the same bit flipped in two bytes a lane width apart: differences that cancel in an XOR-folding / lane-wise comparison
        size_t bit = c.arg & 0xffffffffu, dist = c.arg >> 32;
        if (bit / 8 + dist >= t.f[c.field].size()) return true;
        t.f[c.field][bit / 8] ^= (uint8_t) (1u << (bit % 8)); t.f[c.field][bit / 8 + dist] ^= (uint8_t) (1u << (bit % 8));
        snprintf(what, sizeof what, "bit %zu of %s flipped together with the same bit %zu bytes further on, mlen %zu", bit, fd.name, dist, c.mlen);
        break;
    }
    case TRUNC:
        if (c.arg >= t.f[c.field].size()) return true;
        if (c.arg < fd.protect_prefix) return true;
        t.f[c.field].resize(c.arg);
        snprintf(what, sizeof what, "%s truncated from %zu to %zu bytes", fd.name, valid.f[c.field].size(), c.arg);
        break;
    case EXTEND: {
        Bytes sfx = r.bytes(c.arg);
        t.f[c.field].insert(t.f[c.field].end(), sfx.begin(), sfx.end());
        snprintf(what, sizeof what, "%s extended by %zu bytes", fd.name, c.arg);
        break;
    }
    case SWAPTAG: {   // field value taken from a second, independent valid tuple of the same shape
        Rng r2(c.cseed ^ 0x1234567);
        Tuple other = V.make(r2, c.mlen, c.adlen);
        t.f[c.field] = other.f[c.field];
        if (t.f[c.field] == valid.f[c.field]) return true;
        snprintf(what, sizeof what, "%s replaced by that of another valid tuple", fd.name);
        break;
    }
    }
    return check_reject(V, valid, t, what, msg);
}

std::vector<unsigned long> masks02(bool thorough) {
    std::vector<unsigned long> out;
    for (auto &m : mask_set(true)) if (m.name == "all" || (thorough && m.name == "-avx2") || m.name == "none" || m.name == "all-aes") out.push_back(m.mask);
    return out;
}

std::string family_of(const std::string &n) {
    if (n.find("secretstream") != std::string::npos) return "secretstream";
    if (n.find("secretbox") != std::string::npos) return "secretbox";
    if (n.find("crypto_box") != std::string::npos) return "box";
    if (n.find("crypto_sign") != std::string::npos) return "sign";
    if (n.find("auth") != std::string::npos) return "mac";
    return "aead";
}
void explore_f(Ctx &ctx, const char *family) {
    auto &VS = verifiers();
    auto masks = masks02(ctx.thorough());
    Rng r = ctx.rng(std::string("c02-") + family);
    uint64_t idx = 0;
    std::vector<size_t> lens = { 0, 1, 15, 16, 17, 31, 32, 33, 63, 64, 65, 96 };
    std::vector<size_t> longs = { 127, 128, 129, 255, 256, 257, 600 };
    if (ctx.thorough()) for (size_t l = 0; l <= 600; l += 13) longs.push_back(l);
    for (size_t vi = 0; vi < VS.size(); vi++) {
        const Verifier &V = VS[vi];
        if (family_of(V.name) != family) continue;
        bool pk_slow = std::string(V.name).find("crypto_box") != std::string::npos || std::string(V.name).find("sign") != std::string::npos;
        std::vector<size_t> all = lens; all.insert(all.end(), longs.begin(), longs.end());
        for (size_t mlen : all) {
            bool full = mlen <= 96;
            if (pk_slow && mlen > 65 && !ctx.thorough() && mlen != 257) continue;
            size_t adlen = mlen <= 96 ? (mlen * 5 + vi) % 40 : (mlen * 7 + vi * 13) % 700;      // long tuples also carry long associated data (sampled bit positions)
            for (unsigned long mask : masks) {
                uint64_t cs = r.next();
                // quick tier: AES-based verifiers under every mask; the others under "all" and, for the exhaustive short lengths, also
                // with every SIMD feature masked off (portable Poly1305 / ChaCha20 / Salsa20 / BLAKE2b backends authenticate too)
                bool aes = std::string(V.name).find("aegis") != std::string::npos || std::string(V.name).find("aes256gcm") != std::string::npos;
                if (mask != masks[0] && !ctx.thorough() && !aes && !(mask == 0 && mlen <= 96 && !pk_slow && (mlen % 16 <= 1 || mlen == 33 || mlen == 65))) continue;
                if (!ctx.mine(idx++)) continue;
                auto go = [&](int tamper, int field, size_t arg, bool nt) {
                    Case c{ (int) vi, mlen, adlen, cs, tamper, field, arg, mask };
                    exec_case(ctx, c, run, mix64(mix64(mix64(vi, mlen), mix64(tamper, field)), mix64(arg, mask)), nt);
                };
                go(NONE, 0, 0, false);
                Rng probe(cs); Tuple shape = V.make(probe, mlen, adlen);     // to learn field sizes
                for (size_t fi = 0; fi < V.fields.size(); fi++) {
                    const FieldDesc &fd = V.fields[fi];
                    if (strchr(fd.name, '*')) continue;                        // asymmetric keys are not in the property's list
                    size_t nbits = shape.f[fi].size() * 8;
                    size_t step = 1;
                    if (!full && nbits > 256) step = nbits / 256;
                    if (pk_slow && nbits > 64 && !ctx.thorough()) step = std::max<size_t>(step, nbits / 64);
                    for (size_t bit = fd.protect_prefix * 8; bit < nbits; bit += step) {
                        size_t bb = step > 1 ? bit + (size_t) ((cs >> 7) % step) : bit;
                        if (bb >= nbits) bb = nbits - 1;
                        if (V.dontcare(fi, bb, mlen)) continue;
                        go(FLIP, (int) fi, bb, true);
                    }
                    if (step > 1) {      // sampled sweep: the structurally special bits are always included (first / last byte, the byte-31 bits an
                                         // X25519 key embedded in the field would have masked, the first bits after a 32-byte header)
                        for (size_t fb : { (size_t) 0, (size_t) 1, (size_t) 7, (size_t) 8, (size_t) 248, (size_t) 249, (size_t) 254, (size_t) 255, (size_t) 256, (size_t) 263, nbits - 1, nbits - 8 })
                            if (fb >= fd.protect_prefix * 8 && fb < nbits && !V.dontcare(fi, fb, mlen)) go(FLIP, (int) fi, fb, true);
                    }
                    if (nbits >= 64 && nbits <= 1024) {       // keys, nonces, tags, short ciphertexts: paired flips 4 / 8 / 16 / 32 bytes apart
                        for (size_t dist : { (size_t) 4, (size_t) 8, (size_t) 16, (size_t) 32 }) {
                            if (dist * 8 >= nbits) continue;
                            size_t span = nbits - dist * 8, st2 = pk_slow && !ctx.thorough() ? span / 4 + 1 : (span > 64 ? span / 32 : 1);
                            for (size_t bit = fd.protect_prefix * 8; bit < span; bit += st2) {
                                size_t bb = bit + (size_t) ((cs >> 11) % st2); if (bb >= span) bb = span - 1;
                                if (V.dontcare(fi, bb, mlen) || V.dontcare(fi, bb + dist * 8, mlen)) continue;
                                go(FLIP2, (int) fi, bb | (dist << 32), true);
                            }
                        }
                    }
                    if (fd.var) {
                        size_t n = shape.f[fi].size();
                        size_t tstep = (full || n < 128) ? 1 : n / 64;
                        if (pk_slow && !ctx.thorough()) tstep = std::max<size_t>(tstep, n / 12 + 1);
                        for (size_t nl = fd.protect_prefix; nl < n; nl += tstep) go(TRUNC, (int) fi, nl, true);
                        for (size_t ext : { (size_t) 1, (size_t) 2, (size_t) 15, (size_t) 16, (size_t) 17 }) go(EXTEND, (int) fi, ext, true);
                    }
                    go(SWAPTAG, (int) fi, 0, true);
                }
            }
        }
    }
}

// ------------------------------------------------------------------ box: ciphertexts anyone can compute
// A sender "public key" of low order makes the X25519 shared point all-zero whatever the recipient's secret key is, so the box key would be
// a public constant.  A ciphertext sealed under such a constant (no secret key involved: a forgery in the plainest sense) must be rejected
// by every opening form, for every recipient, and must release nothing.
struct ForgeCase { int cipher; int pt; int top; int kcand; int form; size_t mlen; uint64_t cseed; unsigned long mask;
    KV kv() const { KV k; k.s("kind", "forge").u("cipher", cipher).u("pt", pt).u("top", top).u("kcand", kcand).u("form", form).u("mlen", mlen).u("cseed", cseed).u("mask", mask); return k; } };
const char *LOWPT[] = { "0000000000000000000000000000000000000000000000000000000000000000", "0100000000000000000000000000000000000000000000000000000000000000",
    "e0eb7a7c3b41b8ae1656e3faf19fc46ada098deb9c32b1fd866205165f49b800", "5f9c95bca3508c24b1d0b1559c83ef5b04445cc4581c8e86d8224eddd09f1157",
    "ecffffffffffffffffffffffffffffffffffffffffffffffffffffffffffff7f", "edffffffffffffffffffffffffffffffffffffffffffffffffffffffffffff7f",
    "eeffffffffffffffffffffffffffffffffffffffffffffffffffffffffffff7f" };
bool run_forge(const ForgeCase &c, std::string &msg) {
    set_mask(c.mask);
    Rng r(c.cseed);
    Bytes pk = unhex(LOWPT[c.pt]); if (c.top) pk[31] |= 0x80;
    Bytes seed = r.bytes(32), rpk(32), rsk(32), n = r.bytes(24), m = r.bytes(c.mlen), k(32, 0), z16(16, 0), z32(32, 0);
    if (c.cipher == 0) crypto_box_seed_keypair(D(rpk), D(rsk), D(seed)); else crypto_box_curve25519xchacha20poly1305_seed_keypair(D(rpk), D(rsk), D(seed));
    switch (c.kcand) {       // keys an outsider can compute
    case 0: crypto_core_hsalsa20(D(k), D(z16), D(z32), nullptr); break;
    case 1: crypto_core_hchacha20(D(k), D(z16), D(z32), nullptr); break;
    case 2: break;                                                        // all-zero key
    case 3: crypto_core_hsalsa20(D(k), D(z16), D(pk), nullptr); break;
    default: crypto_core_hchacha20(D(k), D(z16), D(pk), nullptr); break;
    }
    Bytes ct(c.mlen + 16);
    if (c.cipher == 0) crypto_box_easy_afternm(D(ct), D(m), c.mlen, D(n), D(k)); else crypto_box_curve25519xchacha20poly1305_easy_afternm(D(ct), D(m), c.mlen, D(n), D(k));
    Bytes prefill(c.mlen + 32); for (size_t i = 0; i < prefill.size(); i++) prefill[i] = (uint8_t) (0xa0 + (i * 7) % 0x53);
    XBuf out(prefill, 4);
    int rc; const char *fn; size_t moff = 0;
    if (c.form == 0) { fn = c.cipher == 0 ? "crypto_box_open_easy" : "crypto_box_curve25519xchacha20poly1305_open_easy";
        rc = c.cipher == 0 ? crypto_box_open_easy(out.p, D(ct), ct.size(), D(n), D(pk), D(rsk)) : crypto_box_curve25519xchacha20poly1305_open_easy(out.p, D(ct), ct.size(), D(n), D(pk), D(rsk)); }
    else if (c.form == 1) { fn = c.cipher == 0 ? "crypto_box_open_detached" : "crypto_box_curve25519xchacha20poly1305_open_detached";
        rc = c.cipher == 0 ? crypto_box_open_detached(out.p, D(ct) + 16, D(ct), c.mlen, D(n), D(pk), D(rsk)) : crypto_box_curve25519xchacha20poly1305_open_detached(out.p, D(ct) + 16, D(ct), c.mlen, D(n), D(pk), D(rsk)); }
    else { if (c.cipher != 0) return true; fn = "crypto_box_open"; moff = 32;
        Bytes padded(16, 0); padded.insert(padded.end(), ct.begin(), ct.end());
        rc = crypto_box_open(out.p, D(padded), padded.size(), D(n), D(pk), D(rsk)); }
    char b[400];
    if (rc == 0) { snprintf(b, sizeof b, "%s accepted a ciphertext computed without any secret key: sender public key %s%s (low order), box key candidate %d, message length %zu", fn, LOWPT[c.pt], c.top ? " with the top bit set" : "", c.kcand, c.mlen); msg = b; return false; }
    Bytes now = out.get();
    if (c.mlen >= 8) for (size_t j = 0; j + 8 <= now.size(); j++) if (memcmp(&now[j], m.data(), 8) == 0) { snprintf(b, sizeof b, "%s rejected a public-key-less forgery but released its plaintext at output offset %zu", fn, j); msg = b; return false; }
    (void) moff;
    return true;
}
void explore_forge(Ctx &ctx) {
    Rng r = ctx.rng("c02-forge");
    uint64_t idx = 0;
    for (unsigned long mask : masks02(true)) for (int cipher = 0; cipher < 2; cipher++) for (int pt = 0; pt < 7; pt++) for (int top = 0; top < 2; top++) for (int kc = 0; kc < 5; kc++)
        for (int form = 0; form < 3; form++) for (size_t mlen : { (size_t) 0, (size_t) 1, (size_t) 40 }) {
            uint64_t cs = r.next();
            if (!ctx.mine(idx++)) continue;
            ForgeCase c{ cipher, pt, top, kc, form, mlen, cs, mask };
            exec_case(ctx, c, run_forge, mix64(mix64(mix64(cipher, pt), mix64(top, kc)), mix64(mix64(form, mlen), mask)), !(cipher != 0 && form == 2));
        }
}

// ------------------------------------------------------------------ inputs of 4 GiB and more (thorough tier, non-sanitizer build, first round)
// "Changing any bit ... makes the call fail" also beyond byte 2^32.  Associated data / MAC'ed messages are sparse read-only-cost mappings
// (2^32 + 77 bytes, a few poked bytes); the ciphertext variant encrypts a real 4 GiB buffer in place and verifies with m == NULL.
enum GKind { G_CHACHA, G_CHACHA_IETF, G_XCHACHA, G_AESGCM, G_AEGIS128L, G_AEGIS256, G_SECRETSTREAM, G_ONETIMEAUTH, G_HMAC256, G_HMAC512, G_HMAC512256, NGK };
const char *GKN[] = { "chacha20poly1305", "chacha20poly1305_ietf", "xchacha20poly1305_ietf", "aes256gcm", "aegis128l", "aegis256", "secretstream", "onetimeauth_verify", "auth_hmacsha256_verify", "auth_hmacsha512_verify", "auth_hmacsha512256_verify" };
struct GiantCase { int kind; bool big_ct; size_t len; KV kv() const { KV k; k.s("kind", "giant").s("api", GKN[kind]).u("gk", kind).u("big_ct", big_ct).u("len", len); return k; } };
uint64_t g_giant_skipped = 0;
// one verification: ad / c are the (possibly huge) inputs; returns the library's verdict (0 accept, -1 reject)
int giant_verify(int kind, const uint8_t *c, size_t clen, const uint8_t *mac, const uint8_t *ad, size_t adlen, const uint8_t *npub, const uint8_t *key, crypto_secretstream_xchacha20poly1305_state *st_template) {
    switch (kind) {
    case G_CHACHA: return crypto_aead_chacha20poly1305_decrypt_detached(nullptr, nullptr, c, clen, mac, ad, adlen, npub, key);
    case G_CHACHA_IETF: return crypto_aead_chacha20poly1305_ietf_decrypt_detached(nullptr, nullptr, c, clen, mac, ad, adlen, npub, key);
    case G_XCHACHA: return crypto_aead_xchacha20poly1305_ietf_decrypt_detached(nullptr, nullptr, c, clen, mac, ad, adlen, npub, key);
    case G_AESGCM: return crypto_aead_aes256gcm_decrypt_detached(nullptr, nullptr, c, clen, mac, ad, adlen, npub, key);
    case G_AEGIS128L: return crypto_aead_aegis128l_decrypt_detached(nullptr, nullptr, c, clen, mac, ad, adlen, npub, key);
    case G_AEGIS256: return crypto_aead_aegis256_decrypt_detached(nullptr, nullptr, c, clen, mac, ad, adlen, npub, key);
    case G_SECRETSTREAM: { crypto_secretstream_xchacha20poly1305_state st = *st_template; unsigned char m[64]; unsigned long long ml = 0; unsigned char tag = 0; return crypto_secretstream_xchacha20poly1305_pull(&st, m, &ml, &tag, c, clen, ad, adlen); }
    case G_ONETIMEAUTH: return crypto_onetimeauth_verify(mac, ad, adlen, key);
    case G_HMAC256: return crypto_auth_hmacsha256_verify(mac, ad, adlen, key);
    case G_HMAC512: return crypto_auth_hmacsha512_verify(mac, ad, adlen, key);
    default: return crypto_auth_hmacsha512256_verify(mac, ad, adlen, key);
    }
}
bool run_giant(const GiantCase &g, std::string &msg) {
    set_mask(F_ALL);
    if (g.kind == G_AESGCM && !crypto_aead_aes256gcm_is_available()) return true;
    giant::Map M(g.len); if (!M.ok()) { g_giant_skipped++; return true; }
    unsigned char key[32], npub[32], mac[64], small[64], hdr[24]; unsigned long long l = 0;
    for (int i = 0; i < 32; i++) { key[i] = (unsigned char) (9 * i + 1); npub[i] = (unsigned char) (0x70 + i); }
    for (int i = 0; i < 64; i++) small[i] = (unsigned char) (3 * i);
    memset(mac, 0, sizeof mac);
    crypto_secretstream_xchacha20poly1305_state st0; memset(&st0, 0, sizeof st0);
    const uint8_t *c; size_t clen; const uint8_t *ad; size_t adlen;
    unsigned char sc[64 + crypto_secretstream_xchacha20poly1305_ABYTES];
    bool is_mac = g.kind >= G_ONETIMEAUTH;
    if (g.big_ct) {
        if (is_mac || g.kind == G_SECRETSTREAM) return true;
        if (!giant::have_memory(g.len)) { g_giant_skipped++; return true; }
        M.fill(0x1234 + (uint64_t) g.kind);        // real memory: the library encrypts it in place
        int r = 0;
        switch (g.kind) {
        case G_CHACHA: r = crypto_aead_chacha20poly1305_encrypt_detached(M.p, mac, &l, M.p, g.len, small, 20, nullptr, npub, key); break;
        case G_CHACHA_IETF: r = crypto_aead_chacha20poly1305_ietf_encrypt_detached(M.p, mac, &l, M.p, g.len, small, 20, nullptr, npub, key); break;
        case G_XCHACHA: r = crypto_aead_xchacha20poly1305_ietf_encrypt_detached(M.p, mac, &l, M.p, g.len, small, 20, nullptr, npub, key); break;
        case G_AESGCM: r = crypto_aead_aes256gcm_encrypt_detached(M.p, mac, &l, M.p, g.len, small, 20, nullptr, npub, key); break;
        case G_AEGIS128L: r = crypto_aead_aegis128l_encrypt_detached(M.p, mac, &l, M.p, g.len, small, 20, nullptr, npub, key); break;
        default: r = crypto_aead_aegis256_encrypt_detached(M.p, mac, &l, M.p, g.len, small, 20, nullptr, npub, key); break;
        }
        if (r != 0) { msg = std::string(GKN[g.kind]) + " encrypt_detached over " + std::to_string(g.len) + " bytes returned " + std::to_string(r); return false; }
        c = M.p; clen = g.len; ad = small; adlen = 20;
    } else {
        M.poke();
        ad = M.p; adlen = g.len; c = small; clen = 16;
        int r = 0;
        switch (g.kind) {
        case G_CHACHA: r = crypto_aead_chacha20poly1305_encrypt_detached(small, mac, &l, small, 16, ad, adlen, nullptr, npub, key); break;
        case G_CHACHA_IETF: r = crypto_aead_chacha20poly1305_ietf_encrypt_detached(small, mac, &l, small, 16, ad, adlen, nullptr, npub, key); break;
        case G_XCHACHA: r = crypto_aead_xchacha20poly1305_ietf_encrypt_detached(small, mac, &l, small, 16, ad, adlen, nullptr, npub, key); break;
        case G_AESGCM: r = crypto_aead_aes256gcm_encrypt_detached(small, mac, &l, small, 16, ad, adlen, nullptr, npub, key); break;
        case G_AEGIS128L: r = crypto_aead_aegis128l_encrypt_detached(small, mac, &l, small, 16, ad, adlen, nullptr, npub, key); break;
        case G_AEGIS256: r = crypto_aead_aegis256_encrypt_detached(small, mac, &l, small, 16, ad, adlen, nullptr, npub, key); break;
        case G_SECRETSTREAM: { crypto_secretstream_xchacha20poly1305_state ps; crypto_secretstream_xchacha20poly1305_init_push(&ps, hdr, key); r = crypto_secretstream_xchacha20poly1305_push(&ps, sc, &l, small, 40, ad, adlen, 0); crypto_secretstream_xchacha20poly1305_init_pull(&st0, hdr, key); c = sc; clen = (size_t) l; break; }
        case G_ONETIMEAUTH: r = crypto_onetimeauth(mac, ad, adlen, key); break;
        case G_HMAC256: r = crypto_auth_hmacsha256(mac, ad, adlen, key); break;
        case G_HMAC512: r = crypto_auth_hmacsha512(mac, ad, adlen, key); break;
        default: r = crypto_auth_hmacsha512256(mac, ad, adlen, key); break;
        }
        if (r != 0) { msg = std::string(GKN[g.kind]) + " over " + std::to_string(g.len) + " bytes of associated data / message returned " + std::to_string(r); return false; }
    }
    char b[300];
    int v0 = giant_verify(g.kind, c, clen, mac, ad, adlen, npub, key, &st0);
    if (v0 != 0) { snprintf(b, sizeof b, "%s: the genuine input (%s of %zu bytes) was rejected (%d)", GKN[g.kind], g.big_ct ? "ciphertext" : "associated data / message", g.len, v0); msg = b; return false; }
    const size_t G = (size_t) 1 << 32;
    for (size_t pos : { G + 5, g.len - 1, G - 1, (size_t) 100, G + 64, g.len / 2 + 3 }) {
        if (pos >= g.len) continue;
        M.p[pos] ^= 0x10;
        int v = giant_verify(g.kind, c, clen, mac, ad, adlen, npub, key, &st0);
        M.p[pos] ^= 0x10;
        if (v == 0) { snprintf(b, sizeof b, "%s accepted a tampered input: bit 4 of byte %zu of the %s (%zu bytes) flipped", GKN[g.kind], pos, g.big_ct ? "ciphertext" : "associated data / message", g.len); msg = b; return false; }
    }
    return true;
}
void explore_giant(Ctx &ctx) {
    if (!ctx.thorough() || !giant::fast_build() || !giant::first_round()) { ctx.notes["giant_inputs"] = "thorough tier, non-sanitizer build, first round only"; return; }
    uint64_t idx = 0;
    for (int big_ct = 0; big_ct < 2; big_ct++) for (int k = 0; k < NGK; k++) {
        if (big_ct && k >= G_SECRETSTREAM) continue;
        uint64_t i = idx++;
        if (big_ct ? ctx.worker != (int) (i % (uint64_t) std::min(ctx.nworkers, 2)) : !ctx.mine(i)) continue;      // real 4 GiB buffers: two at a time at most
        GiantCase g{ k, big_ct != 0, ((size_t) 1 << 32) + 77 };
        exec_case(ctx, g, run_giant, mix64(mix64(k, big_ct), g.len), true);
    }
    ctx.notes["giant_inputs_skipped_no_memory"] = std::to_string(g_giant_skipped);
}

bool replay(const KV &k, std::string &msg) {
    if (k.gs("kind") == "forge") { ForgeCase c{ (int) k.gu("cipher"), (int) k.gu("pt"), (int) k.gu("top"), (int) k.gu("kcand"), (int) k.gu("form"), (size_t) k.gu("mlen"), k.gu("cseed"), (unsigned long) k.gu("mask") }; return run_forge(c, msg); }
    if (k.gs("kind") == "giant") { GiantCase g{ (int) k.gu("gk"), k.gu("big_ct") != 0, (size_t) k.gu("len") }; return run_giant(g, msg); }
    Case c; c.v = -1;
    for (size_t i = 0; i < verifiers().size(); i++) if (k.gs("api") == verifiers()[i].name) c.v = (int) i;
    if (c.v < 0) { msg = "unknown api"; return false; }
    c.mlen = k.gu("mlen"); c.adlen = k.gu("adlen"); c.cseed = k.gu("cseed"); c.tamper = 0;
    for (int i = 0; i < 6; i++) if (k.gs("tamper") == TN[i]) c.tamper = i;
    c.field = (int) k.gu("field"); c.arg = k.gu("arg"); c.mask = k.gu("mask");
    return run(c, msg);
}

}  // namespace

std::vector<Sub> vh_subs() {
    std::vector<Sub> v;
    for (const char *f : { "aead", "secretbox", "box", "secretstream", "mac", "sign" }) v.push_back(Sub{ f, [f](Ctx &c) { explore_f(c, f); }, replay });
    v.push_back(Sub{ "box_public_forgery", explore_forge, replay });
    v.push_back(Sub{ "giant_inputs", explore_giant, replay });
    return v;
}
