// C10 -- results do not depend on CPU features, selected backend or build configuration.
// (a) in-process: every corpus case is evaluated under every CPU-feature mask and must give the digest of the
//     reference configuration (mask "none"); (b) across builds: each build writes one digest per corpus case, the
//     driver compares them (records in <out>.xb); (c) AES-256-GCM availability and feature-flag honesty.
#include "vh_main.hpp"
#include "apitable.hpp"
#include <fstream>
#include <sys/mman.h>
#include "giant.hpp"
#include "simcpu.hpp"
#include <sys/wait.h>
using namespace vh;

namespace {

struct Case {
    int entry; uint64_t seed; int policy; unsigned long mask; unsigned long refmask;
    KV kv() const { KV k; k.s("entry", api::table()[entry].name).u("seed", seed).u("policy", policy).u("mask", mask).u("refmask", refmask); return k; }
};
// length policies: block-boundary lengths first, then random
std::vector<size_t> policy_lens(int policy) {
    static const size_t B[] = { 0, 1, 15, 16, 17, 31, 32, 33, 63, 64, 65, 127, 128, 129, 255, 256, 257, 511, 512, 513, 1023, 1024, 1025 };
    size_t n = sizeof B / sizeof B[0];
    if (policy < 0) return {};
    if ((size_t) policy < n) return { B[policy], B[(policy * 7 + 3) % n], B[(policy * 5 + 1) % 9] };
    return {};      // random lengths up to 4 KiB
}
uint64_t eval(int entry, uint64_t seed, int policy, unsigned long mask) {
    set_mask(mask);
    api::Ctx c(seed);
    c.fixed_lens = policy_lens(policy); c.maxlen = 4096;
    api::table()[entry].fn(c);
    return c.finish();
}
bool gcm_entry(int e) { return std::string(api::table()[e].name) == "aead_aes256gcm"; }

bool run(const Case &c, std::string &msg) {
    uint64_t ref = eval(c.entry, c.seed, c.policy, c.refmask), got = eval(c.entry, c.seed, c.policy, c.mask);
    if (ref != got) {
        char b[300]; snprintf(b, sizeof b, "%s (seed %llu, length policy %d): outputs / return codes under CPU mask 0x%lx differ from those under mask 0x%lx", api::table()[c.entry].name, (unsigned long long) c.seed, c.policy, c.mask, c.refmask);
        msg = b; return false;
    }
    return true;
}

std::vector<unsigned long> closed_subsets(Rng &r, int n) {     // random feature subsets closed under avx512f => avx2 => avx, applied to the detected set
    std::vector<unsigned long> out;
    for (int i = 0; i < n; i++) {
        unsigned long m = (unsigned long) r.next() & F_ALL;
        if (!(m & F_AVX)) m &= ~(unsigned long) (F_AVX2 | F_AVX512F);
        if (!(m & F_AVX2)) m &= ~(unsigned long) F_AVX512F;
        out.push_back(m);
    }
    return out;
}

std::ofstream *g_xb = nullptr;

void explore_masks(Ctx &ctx) {
    auto &T = api::table();
    auto masks = mask_set(true);
    unsigned long none = 0, all = F_ALL;
    Rng r = ctx.rng("c10-corpus");
    uint64_t idx = 0;
    int npol = 23 + (ctx.thorough() ? 120 : 40);
    for (size_t e = 0; e < T.size(); e++) {
        int cost = T[e].cost;
        for (int pol = 0; pol < npol; pol++) {
            if (cost == 2 && pol % 6 != 0 && !ctx.thorough()) continue;
            if (cost == 1 && pol % 2 != 0 && !ctx.thorough()) continue;
            uint64_t seed = r.next(); Rng sub(seed ^ 0x5555);
            if (!ctx.mine(idx++)) continue;
            bool gcm = gcm_entry((int) e);
            unsigned long ref = gcm ? all : none;
            std::vector<unsigned long> ms; for (auto &m : masks) ms.push_back(m.mask);
            for (unsigned long m : closed_subsets(sub, ctx.thorough() ? 12 : 2)) ms.push_back(m);
            for (unsigned long m : ms) {
                if (m == ref) continue;
                if (gcm) { unsigned long eff = m & detected_features(); if (!((eff & F_AESNI) && (eff & F_PCLMUL) && (eff & F_AVX))) continue; }
                Case c{ (int) e, seed, pol, m, ref };
                exec_case(ctx, c, run, mix64(mix64(e, seed), mix64(pol, m)), (m & detected_features()) != (ref & detected_features()));
            }
            // cross-build record: digest of the reference configuration of THIS build
            if (g_xb) {
                uint64_t d = eval((int) e, seed, pol, ref);
                bool comparable = !gcm || crypto_aead_aes256gcm_is_available();
                if (comparable) (*g_xb) << std::hex << d << std::dec << "\tentry=" << T[e].name << ";seed=" << seed << ";policy=" << pol << ";refmask=" << ref << "\n";
            }
        }
    }
}

// ------------------------------------------------------------------ AES-256-GCM availability and feature honesty
struct FCase {
    unsigned long mask; int what;     // what 0: availability formula, 1: flags = detected & mask, 2: cpuinfo honesty, 3: stubs when unavailable
    KV kv() const { KV k; k.s("kind", "features").u("mask", mask).u("what", what); return k; }
};
bool cpuinfo_has(const char *flag) {
    static std::string flags;
    if (flags.empty()) { std::ifstream f("/proc/cpuinfo"); std::string line; while (std::getline(f, line)) if (line.compare(0, 5, "flags") == 0) { flags = " " + line.substr(line.find(':') + 1) + " "; break; } }
    return flags.find(std::string(" ") + flag + " ") != std::string::npos;
}
bool run_feat(const FCase &c, std::string &msg) {
    char b[300];
    if (c.what == 2) {
        sodium_verif_set_cpu_mask(F_ALL);
        struct { int (*fn)(void); const char *flag; } tab[] = { { sodium_runtime_has_sse2, "sse2" }, { sodium_runtime_has_sse3, "pni" }, { sodium_runtime_has_ssse3, "ssse3" }, { sodium_runtime_has_sse41, "sse4_1" },
            { sodium_runtime_has_avx, "avx" }, { sodium_runtime_has_avx2, "avx2" }, { sodium_runtime_has_avx512f, "avx512f" }, { sodium_runtime_has_pclmul, "pclmulqdq" }, { sodium_runtime_has_aesni, "aes" }, { sodium_runtime_has_rdrand, "rdrand" } };
        for (auto &t : tab) if (t.fn() && !cpuinfo_has(t.flag)) { snprintf(b, sizeof b, "the library reports CPU feature '%s' but /proc/cpuinfo does not list it", t.flag); msg = b; return false; }
        if (sodium_runtime_has_neon() || sodium_runtime_has_armcrypto()) { msg = "ARM features reported on an x86-64 host"; return false; }
        return true;
    }
    sodium_verif_set_cpu_mask(c.mask);
    unsigned long eff = c.mask & detected_features();
    if (c.what == 1) { if (current_features() != eff) { snprintf(b, sizeof b, "reported features 0x%lx != detected & mask 0x%lx", current_features(), eff); msg = b; return false; } return true; }
    bool hw = (eff & F_AESNI) && (eff & F_PCLMUL) && (eff & F_AVX);
#if defined(VERIF_VARIANT)
    bool compiled_in = std::string(VERIF_VARIANT) != "nosimd";
#else
    bool compiled_in = true;
#endif
    bool want = hw && compiled_in;
    int av = crypto_aead_aes256gcm_is_available();
    if ((av != 0) != want) { snprintf(b, sizeof b, "crypto_aead_aes256gcm_is_available() = %d under mask 0x%lx, expected %d (aesni & pclmul & avx of the masked features, implementation compiled in: %d)", av, c.mask, (int) want, (int) compiled_in); msg = b; return false; }
    if (c.what == 3 && !compiled_in) {   // builds without the implementation: every entry point fails cleanly with ENOSYS
        unsigned char k[32] = { 0 }, n[12] = { 0 }, m[16] = { 0 }, ct[32], mac[16], back[16]; unsigned long long l = 0;
        crypto_aead_aes256gcm_state *st = (crypto_aead_aes256gcm_state *) aligned_alloc(64, 512);
        int rcs[10]; int e[10]; int i = 0;
        errno = 0; rcs[i] = crypto_aead_aes256gcm_encrypt(ct, &l, m, 16, nullptr, 0, nullptr, n, k); e[i++] = errno;
        errno = 0; rcs[i] = crypto_aead_aes256gcm_decrypt(back, &l, nullptr, ct, 32, nullptr, 0, n, k); e[i++] = errno;
        errno = 0; rcs[i] = crypto_aead_aes256gcm_encrypt_detached(ct, mac, &l, m, 16, nullptr, 0, nullptr, n, k); e[i++] = errno;
        errno = 0; rcs[i] = crypto_aead_aes256gcm_decrypt_detached(back, nullptr, ct, 16, mac, nullptr, 0, n, k); e[i++] = errno;
        errno = 0; rcs[i] = crypto_aead_aes256gcm_beforenm(st, k); e[i++] = errno;
        errno = 0; rcs[i] = crypto_aead_aes256gcm_encrypt_afternm(ct, &l, m, 16, nullptr, 0, nullptr, n, st); e[i++] = errno;
        errno = 0; rcs[i] = crypto_aead_aes256gcm_decrypt_afternm(back, &l, nullptr, ct, 32, nullptr, 0, n, st); e[i++] = errno;
        errno = 0; rcs[i] = crypto_aead_aes256gcm_encrypt_detached_afternm(ct, mac, &l, m, 16, nullptr, 0, nullptr, n, st); e[i++] = errno;
        errno = 0; rcs[i] = crypto_aead_aes256gcm_decrypt_detached_afternm(back, nullptr, ct, 16, mac, nullptr, 0, n, st); e[i++] = errno;
        free(st);
        for (int j = 0; j < i; j++) if (rcs[j] != -1 || e[j] != ENOSYS) { snprintf(b, sizeof b, "AES-256-GCM entry point #%d returned %d / errno %d in a build without the implementation (expected -1 / ENOSYS)", j, rcs[j], e[j]); msg = b; return false; }
    }
    return true;
}
void explore_features(Ctx &ctx) {
    uint64_t idx = 0;
    if (ctx.mine(idx++)) { FCase c{ F_ALL, 2 }; exec_case(ctx, c, run_feat, 1, true); }
    for (unsigned long m = 0; m <= F_ALL; m++) {     // every subset of the 10 feature bits
        if (!ctx.mine(idx++)) continue;
        for (int what : { 0, 1 }) { FCase c{ m, what }; exec_case(ctx, c, run_feat, mix64(m, what), true); }
    }
    if (ctx.mine(idx++)) { FCase c{ F_ALL, 3 }; exec_case(ctx, c, run_feat, 3, true); }
}

// ------------------------------------------------------------------ inputs whose bit length (>= 2^29 bytes) or byte length (>= 2^32) no longer fits 32 bits
// Length blocks, bit counters and block counters of every backend are 64-bit quantities; below 512 MiB their upper halves are always zero.
const char *HN[] = { "aegis128l(ad)", "aegis256(ad)", "chacha20poly1305_ietf(ad)", "xchacha20poly1305_ietf(ad)", "generichash", "onetimeauth", "hash_sha256", "hash_sha512", "auth_hmacsha512256", "shorthash", "aes256gcm(ad)", "auth_hmacsha256", "generichash(stream)" };
enum { NHUGE = 13 };
struct HugeCase {
    int what; size_t len; unsigned long mask, refmask;
    KV kv() const { KV k; k.s("kind", "huge").u("what", what).s("name", HN[what]).u("len", len).u("mask", mask).u("refmask", refmask); return k; }
};
uint8_t *huge_buf(size_t len) {
    static uint8_t *p = nullptr; static size_t n = 0;
    if (p && n >= len) return p;
    if (p) munmap(p, n);
    if (len >= ((size_t) 1 << 30) && !giant::have_memory(len)) { p = nullptr; n = 0; return nullptr; }
    void *q = mmap(nullptr, len + 64, PROT_READ | PROT_WRITE, MAP_PRIVATE | MAP_ANONYMOUS, -1, 0);
    if (q == MAP_FAILED) { p = nullptr; n = 0; return nullptr; }
    p = (uint8_t *) q; n = len;
    uint64_t x = 0x9e3779b97f4a7c15ULL; uint64_t *w = (uint64_t *) p;
    for (size_t i = 0; i < (len + 64) / 8; i++) { x ^= x << 13; x ^= x >> 7; x ^= x << 17; w[i] = x; }
    return p;
}
bool huge_eval(int what, size_t len, unsigned long mask, uint64_t &digest) {
    uint8_t *in = huge_buf(len); if (!in) return false;
    set_mask(mask);
    unsigned char key[64], npub[32], m[16], out[16 + 64], mac[32]; unsigned long long l = 0;
    for (int i = 0; i < 64; i++) key[i] = (unsigned char) (i * 7 + 1); for (int i = 0; i < 32; i++) npub[i] = (unsigned char) (0xa0 + i); for (int i = 0; i < 16; i++) m[i] = (unsigned char) i;
    memset(out, 0, sizeof out); memset(mac, 0, sizeof mac);
    int rc = 0;
    switch (what) {
    case 0: rc = crypto_aead_aegis128l_encrypt_detached(out, mac, &l, m, 16, in, len, nullptr, npub, key); break;
    case 1: rc = crypto_aead_aegis256_encrypt_detached(out, mac, &l, m, 16, in, len, nullptr, npub, key); break;
    case 2: rc = crypto_aead_chacha20poly1305_ietf_encrypt_detached(out, mac, &l, m, 16, in, len, nullptr, npub, key); break;
    case 3: rc = crypto_aead_xchacha20poly1305_ietf_encrypt_detached(out, mac, &l, m, 16, in, len, nullptr, npub, key); break;
    case 4: rc = crypto_generichash(out, 64, in, len, key, 32); break;
    case 5: rc = crypto_onetimeauth(out, in, len, key); break;
    case 6: rc = crypto_hash_sha256(out, in, len); break;
    case 7: rc = crypto_hash_sha512(out, in, len); break;
    case 8: rc = crypto_auth_hmacsha512256(out, in, len, key); break;
    case 9: rc = crypto_shorthash(out, in, len, key); break;
    case 10: if (!crypto_aead_aes256gcm_is_available()) return false; rc = crypto_aead_aes256gcm_encrypt_detached(out, mac, &l, m, 16, in, len, nullptr, npub, key); break;
    case 11: rc = crypto_auth_hmacsha256(out, in, len, key); break;
    default: { crypto_generichash_state st; crypto_generichash_init(&st, key, 17, 48); size_t h = len / 2 + 3; crypto_generichash_update(&st, in, h); crypto_generichash_update(&st, in + h, len - h); rc = crypto_generichash_final(&st, out, 48); break; }
    }
    digest = mix64(hash_bytes(out, sizeof out), mix64(hash_bytes(mac, sizeof mac), (uint64_t) (rc + 5)));
    return true;
}
uint64_t g_huge_skipped = 0;
bool run_huge(const HugeCase &c, std::string &msg) {
    uint64_t a = 0, b = 0;
    if (!huge_eval(c.what, c.len, c.refmask, a) || !huge_eval(c.what, c.len, c.mask, b)) { g_huge_skipped++; return true; }
    if (a != b) { char t[300]; snprintf(t, sizeof t, "%s over %zu bytes: output / return code under CPU mask 0x%lx differs from that under mask 0x%lx", HN[c.what], c.len, c.mask, c.refmask); msg = t; return false; }
    return true;
}
void explore_huge(Ctx &ctx) {
    std::ofstream xb;
    if (!ctx.out.empty()) xb.open(ctx.out + ".xb", std::ios::app);
    uint64_t idx = 0;
    std::vector<size_t> lens = { ((size_t) 1 << 29) + 77 };
    if (ctx.thorough()) lens.push_back(((size_t) 1 << 32) + 5);
    std::vector<unsigned long> masks; for (auto &m : mask_set(true)) if (m.name == "-avx2" || m.name == "-sse41" || m.name == "-ssse3" || m.name == "all-aes") masks.push_back(m.mask);
    for (size_t len : lens) for (int what = 0; what < NHUGE; what++) {
        bool aegis = what <= 1;
        bool fast_build = std::string(VERIF_FLAVOUR) == "plain" || std::string(VERIF_FLAVOUR) == "plainclang";
        if (aegis && (!ctx.thorough() || !fast_build || !giant::first_round() || len > ((size_t) 1 << 30))) continue;        // software AES over 512 MiB takes tens of seconds: thorough tier, non-sanitizer builds, never 4 GiB
        if (len > ((size_t) 1 << 30) && (!fast_build || !giant::first_round())) continue;                                       // 4 GiB through a sanitizer build takes minutes per call
        if (len > ((size_t) 1 << 30) && !(what == 2 || what == 4 || what == 5 || what == 6 || what == 7 || what == 9)) continue;      // 4 GiB: the length-block / counter users only
        if (len > ((size_t) 1 << 30) ? ctx.worker != 0 : !ctx.mine(idx++)) continue;    // one 4 GiB buffer per build at most
        unsigned long ref = what == 10 ? F_ALL : 0;
        std::vector<unsigned long> ms = { F_ALL };
        if (what == 4 || what == 12) for (unsigned long m : masks) ms.push_back(m);    // BLAKE2b has four compression backends
        if (what == 10) ms = { F_ALL };
        for (unsigned long m : ms) { if (m == ref && what != 10) continue; HugeCase c{ what, len, m, ref }; exec_case(ctx, c, run_huge, mix64(mix64(what, len), m), true); }
        uint64_t d = 0;
        if (xb.is_open() && huge_eval(what, len, ref, d)) xb << std::hex << d << std::dec << "\tkind=huge;what=" << what << ";len=" << len << ";refmask=" << ref << "\n";
    }
    ctx.notes["huge_input_cases_skipped"] = std::to_string(g_huge_skipped);
}

// ------------------------------------------------------------------ constant accessor functions
// ~280 exported functions only return a documented constant (crypto_secretbox_keybytes() = crypto_secretbox_KEYBYTES ...).  They are
// deterministic public functions like any other: each must return the value of the macro that documents it, in every build.
struct GCase { int idx; KV kv() const { KV k; k.s("kind", "getter").u("idx", idx); return k; } };
struct GRow { const char *name; const char *macro; bool is_str; unsigned long long fn_num, mac_num; const char *fn_str, *mac_str; };
std::vector<GRow> &getters() {
    static std::vector<GRow> v;
    if (!v.empty()) return v;
#define GETTER_NUM(F, M) v.push_back(GRow{ #F, #M, false, (unsigned long long) F(), (unsigned long long) (M), nullptr, nullptr });
#define GETTER_STR(F, M) v.push_back(GRow{ #F, #M, true, 0, 0, (const char *) F(), (const char *) (M) });
#define GETTER(F, M, K) GETTER_##K(F, M)
#include "getters.inc"
#undef GETTER
    return v;
}
bool run_getter(const GCase &c, std::string &msg) {
    const GRow &g = getters()[(size_t) c.idx];
    char b[400];
    if (g.is_str ? (g.fn_str == nullptr || strcmp(g.fn_str, g.mac_str) != 0) : g.fn_num != g.mac_num) {
        if (g.is_str) snprintf(b, sizeof b, "%s() returns \"%s\", the documented constant %s is \"%s\"", g.name, g.fn_str ? g.fn_str : "(null)", g.macro, g.mac_str);
        else snprintf(b, sizeof b, "%s() returns %llu, the documented constant %s is %llu", g.name, g.fn_num, g.macro, g.mac_num);
        msg = b; return false;
    }
    return true;
}
void explore_getters(Ctx &ctx) {
    std::ofstream xb;
    if (!ctx.out.empty() && ctx.worker == 0) xb.open(ctx.out + ".xb", std::ios::app);
    auto &G = getters();
    uint64_t d = 0x6e77;
    for (size_t i = 0; i < G.size(); i++) {
        d = mix64(d, G[i].is_str ? hash_str(G[i].fn_str ? G[i].fn_str : "") : G[i].fn_num);
        if (!ctx.mine(i)) continue;
        GCase c{ (int) i };
        exec_case(ctx, c, run_getter, mix64(i, 0x6e), true);
    }
    if (xb.is_open()) xb << std::hex << d << std::dec << "\tkind=getters;refmask=0\n";
}

// ------------------------------------------------------------------ simulated processors (harness/simcpu.hpp)
// The hook's mask removes features *after* the library's detection ran on the real processor; here the detection code itself and the
// selection that follows meet machines the host is not: in a forked child CPUID is answered by the harness (bits of leaf 1 / leaf 7 cleared
// the way an older processor, a hypervisor or an OS without XSAVE support reports them), detection and selection are re-run, and a fixed set
// of calls is single-stepped.  Oracles: (1) reported flags are a subset of what that machine provides (Intel SDM detection procedure);
// (2) no executed instruction inside this executable belongs to an ISA extension the machine lacks (it would raise SIGILL there);
// (3) every output equals the one computed, on the same simulated machine, with all features masked off; (4) the child is not killed.
// Only in non-sanitizer builds (single stepping an ASan build is out of reach); the "mflags" build variant applies Makefile.am's per-library
// machine flags, so that instruction encodings are those of the real build.
enum { K_SSE2, K_SSE3, K_SSSE3, K_SSE41, K_AESNI, K_PCLMUL, K_RDRAND, K_XSAVE, K_OSXSAVE, K_AVX, K_AVX2, K_AVX512F, NKNOB };
const char *KNOB[] = { "sse2", "sse3", "ssse3", "sse4.1", "aesni", "pclmul", "rdrand", "xsave", "osxsave", "avx", "avx2(leaf7)", "avx512f(leaf7)" };
struct SimCase { unsigned knobs; KV kv() const { std::string n; for (int i = 0; i < NKNOB; i++) if (knobs & (1u << i)) { if (!n.empty()) n += ","; n += KNOB[i]; } KV k; k.s("kind", "simcpu").u("knobs", knobs).s("cleared", n.empty() ? "nothing" : n); return k; } };
simcpu::Machine machine_of(unsigned knobs) {
    using namespace simcpu; Machine m;
    if (knobs & (1u << K_SSE2)) m.clr1_edx |= D1_SSE2;
    if (knobs & (1u << K_SSE3)) m.clr1_ecx |= E1_SSE3;
    if (knobs & (1u << K_SSSE3)) m.clr1_ecx |= E1_SSSE3;
    if (knobs & (1u << K_SSE41)) m.clr1_ecx |= E1_SSE41;
    if (knobs & (1u << K_AESNI)) m.clr1_ecx |= E1_AESNI;
    if (knobs & (1u << K_PCLMUL)) m.clr1_ecx |= E1_PCLMUL;
    if (knobs & (1u << K_RDRAND)) m.clr1_ecx |= E1_RDRAND;
    if (knobs & (1u << K_XSAVE)) m.clr1_ecx |= E1_XSAVE | E1_OSXSAVE;
    if (knobs & (1u << K_OSXSAVE)) m.clr1_ecx |= E1_OSXSAVE;
    if (knobs & (1u << K_AVX)) m.clr1_ecx |= E1_AVX;
    if (knobs & (1u << K_AVX2)) m.clr7_ebx |= B7_AVX2;
    if (knobs & (1u << K_AVX512F)) m.clr7_ebx |= B7_AVX512F;
    return m;
}
struct SimOp { const char *name; bool deterministic; void (*fn)(Bytes &out); };
const unsigned char SK[32] = { 1, 2, 3, 4, 5, 6, 7, 8, 9, 10, 11, 12, 13, 14, 15, 16, 17, 18, 19, 20, 21, 22, 23, 24, 25, 26, 27, 28, 29, 30, 31, 32 };
const unsigned char SN[32] = { 0x40, 0x41, 0x42, 0x43, 0x44, 0x45, 0x46, 0x47, 0x48, 0x49, 0x4a, 0x4b, 0x4c, 0x4d, 0x4e, 0x4f, 0x50, 0x51, 0x52, 0x53, 0x54, 0x55, 0x56, 0x57, 0x58, 0x59, 0x5a, 0x5b, 0x5c, 0x5d, 0x5e, 0x5f };
unsigned char SM[777];
const SimOp SIMOPS[] = {
    { "crypto_stream_chacha20", true, [](Bytes &o) { o.resize(600); crypto_stream_chacha20(o.data(), 600, SN, SK); } },
    { "crypto_stream_chacha20_ietf_xor_ic", true, [](Bytes &o) { o.resize(333); crypto_stream_chacha20_ietf_xor_ic(o.data(), SM, 333, SN, 7, SK); } },
    { "crypto_stream_salsa20_xor", true, [](Bytes &o) { o.resize(700); crypto_stream_salsa20_xor(o.data(), SM, 700, SN, SK); } },
    { "crypto_stream_xsalsa20", true, [](Bytes &o) { o.resize(130); crypto_stream_xsalsa20(o.data(), 130, SN, SK); } },
    { "crypto_stream_salsa2012", true, [](Bytes &o) { o.resize(130); crypto_stream_salsa2012(o.data(), 130, SN, SK); } },
    { "crypto_generichash", true, [](Bytes &o) { o.resize(64); crypto_generichash(o.data(), 64, SM, 500, SK, 32); } },
    { "crypto_onetimeauth", true, [](Bytes &o) { o.resize(16); crypto_onetimeauth(o.data(), SM, 333, SK); } },
    { "crypto_scalarmult", true, [](Bytes &o) { o.resize(32); (void) !crypto_scalarmult(o.data(), SK, SN); } },
    { "crypto_scalarmult_base", true, [](Bytes &o) { o.resize(32); crypto_scalarmult_base(o.data(), SK); } },
    { "crypto_aead_aegis128l", true, [](Bytes &o) { o.resize(333 + 32 + 333); unsigned long long l; crypto_aead_aegis128l_encrypt(o.data(), &l, SM, 333, SN, 20, nullptr, SN, SK);
        if (crypto_aead_aegis128l_decrypt(o.data() + 365, &l, nullptr, o.data(), 365, SN, 20, SN, SK) != 0) o[0] ^= 1; } },
    { "crypto_aead_aegis256", true, [](Bytes &o) { o.resize(333 + 32 + 333); unsigned long long l; crypto_aead_aegis256_encrypt(o.data(), &l, SM, 333, SN, 20, nullptr, SN, SK);
        if (crypto_aead_aegis256_decrypt(o.data() + 365, &l, nullptr, o.data(), 365, SN, 20, SN, SK) != 0) o[0] ^= 1; } },
    { "crypto_aead_aes256gcm", false, [](Bytes &o) { o.assign(333 + 16 + 333, 0); if (!crypto_aead_aes256gcm_is_available()) return; unsigned long long l; crypto_aead_aes256gcm_encrypt(o.data(), &l, SM, 333, SN, 20, nullptr, SN, SK);
        if (crypto_aead_aes256gcm_decrypt(o.data() + 349, &l, nullptr, o.data(), 349, SN, 20, SN, SK) != 0) o[0] ^= 1; } },
    { "crypto_aead_xchacha20poly1305_ietf", true, [](Bytes &o) { o.resize(333 + 16); unsigned long long l; crypto_aead_xchacha20poly1305_ietf_encrypt(o.data(), &l, SM, 333, SN, 20, nullptr, SN, SK); } },
    { "crypto_secretbox_easy", true, [](Bytes &o) { o.resize(200 + 16); crypto_secretbox_easy(o.data(), SM, 200, SN, SK); } },
    { "crypto_pwhash(argon2id)", true, [](Bytes &o) { o.resize(32); (void) !crypto_pwhash(o.data(), 32, (const char *) SM, 20, SN, 1, 8192, crypto_pwhash_ALG_ARGON2ID13); } },
    { "crypto_pwhash_scryptsalsa208sha256_ll", true, [](Bytes &o) { o.resize(40); (void) !crypto_pwhash_scryptsalsa208sha256_ll(SM, 20, SN, 16, 16, 1, 1, o.data(), 40); } },
    { "randombytes_internal", false, [](Bytes &o) { o.resize(64); randombytes_internal_implementation.stir(); randombytes_internal_implementation.buf(o.data(), 64); } },
};
const size_t NSIMOPS = sizeof SIMOPS / sizeof SIMOPS[0];
// instructions followed per call (a trap costs microseconds): enough to be well inside the implementation the dispatcher selected - Argon2 and
// scrypt first hash their inputs (BLAKE2b-long of two 1 KiB blocks, PBKDF2), the compositions run a key derivation before the bulk cipher
unsigned long sim_limit(const char *n) { if (strstr(n, "argon2")) return 150000; if (strstr(n, "scrypt") || strstr(n, "randombytes")) return 60000; if (strstr(n, "aead") || strstr(n, "secretbox")) return 30000; return 15000; }
uint64_t g_sim_skipped = 0;
unsigned long g_sim_steps = 0, g_sim_ext = 0;
// runs in the forked child; returns "" (holds), "SKIP ..." or the failure text
std::string sim_child(const SimCase &c) {
    char b[500];
    for (size_t i = 0; i < sizeof SM; i++) SM[i] = (unsigned char) (i * 37 + 11);
    simcpu::Machine m = machine_of(c.knobs);
    if (!simcpu::enter(m)) return "SKIP CPUID faulting is not available on this host";
    unsigned prov = simcpu::provided(m, true);
    sodium_verif_set_cpu_mask(F_ALL);                       // detection and selection re-run; every CPUID is answered by the harness
    unsigned rep = (unsigned) current_features();
    if (rep & ~prov) { snprintf(b, sizeof b, "the library reports %s, which the machine does not provide (CPUID bits cleared: %s; provided by the Intel SDM detection procedure: %s)", simcpu::feat_list(rep & ~prov).c_str(), c.kv().gs("cleared").c_str(), simcpu::feat_list(prov).c_str()); return b; }
    if (sodium_runtime_has_neon() || sodium_runtime_has_armcrypto()) return "ARM features reported on an x86-64 machine";
    if (crypto_aead_aes256gcm_is_available() && (prov & (simcpu::AESNI | simcpu::PCLMUL | simcpu::AVX)) != (simcpu::AESNI | simcpu::PCLMUL | simcpu::AVX)) return "AES-256-GCM reports itself available on a machine without AES-NI + PCLMUL + AVX";
    std::vector<Bytes> outs(NSIMOPS);
    simcpu::TraceState &t = simcpu::g_trace();
    unsigned long steps = 0, ext = 0;
    for (size_t i = 0; i < NSIMOPS; i++) {
        memset((void *) &t, 0, sizeof t); t.absent = ~prov & 0x3ffu & ~simcpu::SSE2; t.limit = sim_limit(SIMOPS[i].name);
        outs[i].reserve(1024);
        void (*fn)(Bytes &) = SIMOPS[i].fn; Bytes &o = outs[i];
        SIMCPU_TRACE_ON();
        fn(o);
        SIMCPU_TRACE_OFF();
        steps += t.inlib; for (int k = 0; k < 10; k++) ext += t.by_feat[k];
        if (t.n_bad) { snprintf(b, sizeof b, "%s executed %lu instruction(s) of ISA extension(s) the machine lacks (%s; first at executable+0x%lx; CPUID bits cleared: %s; the machine provides %s, the library reports %s): SIGILL on such a machine",
            SIMOPS[i].name, (unsigned long) t.n_bad, simcpu::feat_list(t.first_bad_need).c_str(), (unsigned long) (t.first_bad - (uintptr_t) __executable_start), c.kv().gs("cleared").c_str(), simcpu::feat_list(prov).c_str(), simcpu::feat_list(rep).c_str()); return b; }
        if (SIMOPS[i].deterministic && t.inlib < 50) { snprintf(b, sizeof b, "INFRA tracer saw only %lu instructions in %s", (unsigned long) t.inlib, SIMOPS[i].name); return b; }
    }
    sodium_verif_set_cpu_mask(0);
    for (size_t i = 0; i < NSIMOPS; i++) {
        if (!SIMOPS[i].deterministic) continue;
        Bytes ref; SIMOPS[i].fn(ref);
        if (ref != outs[i]) { snprintf(b, sizeof b, "%s: the result on the simulated machine (library reports %s) differs from the one with every feature masked off", SIMOPS[i].name, simcpu::feat_list(rep).c_str()); return b; }
    }
    snprintf(b, sizeof b, "OK %lu %lu %u %u", steps, ext, prov, rep);
    return b;
}
bool run_sim(const SimCase &c, std::string &msg) {
    int st = simcpu::selftest(); if (st >= 0) { msg = "harness self-check: the instruction classifier disagrees with hand-assembled instruction #" + std::to_string(st); return false; }
    int fd[2]; if (pipe(fd) != 0) { g_sim_skipped++; return true; }
    fflush(nullptr);
    pid_t pid = fork();
    if (pid < 0) { close(fd[0]); close(fd[1]); g_sim_skipped++; return true; }
    if (pid == 0) { close(fd[0]); std::string r = sim_child(c); ssize_t w = write(fd[1], r.data(), r.size()); (void) w; _exit(0); }
    close(fd[1]);
    std::string r; char buf[600]; ssize_t n; while ((n = read(fd[0], buf, sizeof buf)) > 0) r.append(buf, (size_t) n);
    close(fd[0]);
    int status = 0; waitpid(pid, &status, 0);
    if (WIFSIGNALED(status)) { msg = "the child died with signal " + std::to_string(WTERMSIG(status)) + " on the simulated machine (CPUID bits cleared: " + c.kv().gs("cleared") + ")"; return false; }
    if (r.compare(0, 4, "SKIP") == 0) { g_sim_skipped++; return true; }
    if (r.compare(0, 5, "INFRA") == 0) { fprintf(stderr, "VH-INFRA %s\n", r.c_str()); _exit(2); }
    if (r.compare(0, 2, "OK") == 0) { unsigned long a = 0, e = 0; unsigned pv = 0, rp = 0; sscanf(r.c_str(), "OK %lu %lu %u %u", &a, &e, &pv, &rp); g_sim_steps += a; g_sim_ext += e; return true; }
    msg = r.empty() ? "the child returned nothing" : r; return false;
}
void explore_sim(Ctx &ctx) {
    if (!giant::fast_build() || std::string(VERIF_VARIANT) != "mflags") { ctx.notes["simulated_cpus"] = "non-sanitizer builds of the mflags variant only (instruction encodings as in the autotools build)"; return; }
    // SSE level x AVX state x AES/PCLMUL x RDRAND; the SSE chain is downward closed (no processor has SSE4.1 without SSSE3)
    const unsigned sse_levels[] = { 0, 1u << K_SSE41, (1u << K_SSE41) | (1u << K_SSSE3), (1u << K_SSE41) | (1u << K_SSSE3) | (1u << K_SSE3), (1u << K_SSE41) | (1u << K_SSSE3) | (1u << K_SSE3) | (1u << K_SSE2) };
    const unsigned avx_states[] = { 0, 1u << K_AVX512F, (1u << K_AVX512F) | (1u << K_AVX2), 1u << K_AVX2, 1u << K_AVX, 1u << K_OSXSAVE, 1u << K_XSAVE, (1u << K_AVX) | (1u << K_AVX2) | (1u << K_AVX512F), (1u << K_OSXSAVE) | (1u << K_AVX512F) };
    const unsigned aes_states[] = { 0, 1u << K_AESNI, 1u << K_PCLMUL, (1u << K_AESNI) | (1u << K_PCLMUL) };
    uint64_t idx = 0, n = 0;
    for (unsigned a : avx_states) for (unsigned s : sse_levels) for (unsigned e : aes_states) {
        unsigned knobs = a | s | e | ((n % 3 == 1) ? 1u << K_RDRAND : 0);
        n++;
        // quick tier: every AVX state at full SSE / AES, every SSE level without AVX, every AES state with and without AVX, one in eleven of the rest
        bool quick_pick = (s == 0 && e == 0) || (a == avx_states[7] && e == 0) || (s == 0 && (a == 0 || a == (1u << K_AVX))) || n % 11 == 0;
        // all 180 machines: first thorough round of the gcc build (they are enumerated, not seeded; about half an hour); the quick selection elsewhere
        if (!(ctx.thorough() && giant::first_round() && std::string(VERIF_FLAVOUR) == "plain") && !quick_pick) continue;
        if (!ctx.mine(idx++)) continue;
        SimCase c{ knobs };
        if (a) ctx.cls("sim:avx-state-altered"); if (s) ctx.cls("sim:sse-level-lowered"); if (e) ctx.cls("sim:aes/pclmul-absent");
        exec_case(ctx, c, run_sim, mix64(knobs, 0x51), knobs != 0);
    }
    ctx.notes["simulated_cpus_skipped"] = std::to_string(g_sim_skipped);
    ctx.notes["simulated_cpus_instructions_traced"] = std::to_string(g_sim_steps);
    ctx.notes["simulated_cpus_extension_instructions"] = std::to_string(g_sim_ext);
}

bool replay(const KV &k, std::string &msg) {
    if (k.gs("kind") == "simcpu") { SimCase c{ (unsigned) k.gu("knobs") }; return run_sim(c, msg); }
    if (k.gs("kind") == "getter") { GCase c{ (int) k.gu("idx") }; return run_getter(c, msg); }
    if (k.gs("kind") == "getters") { uint64_t d = 0x6e77; for (auto &g : getters()) d = mix64(d, g.is_str ? hash_str(g.fn_str ? g.fn_str : "") : g.fn_num); printf("XB-DIGEST %016llx\n", (unsigned long long) d); return true; }
    if (k.gs("kind") == "huge") {
        HugeCase c{ (int) k.gu("what"), (size_t) k.gu("len"), k.has("mask") ? (unsigned long) k.gu("mask") : (unsigned long) k.gu("refmask"), (unsigned long) k.gu("refmask") };
        if (k.gs("sub") == "xbuild") { uint64_t d = 0; huge_eval(c.what, c.len, c.refmask, d); printf("XB-DIGEST %016llx\n", (unsigned long long) d); return true; }
        return run_huge(c, msg);
    }
    if (k.gs("kind") == "features") { FCase c{ (unsigned long) k.gu("mask"), (int) k.gu("what") }; return run_feat(c, msg); }
    Case c; c.entry = -1;
    for (size_t i = 0; i < api::table().size(); i++) if (k.gs("entry") == api::table()[i].name) c.entry = (int) i;
    if (c.entry < 0) { msg = "unknown entry"; return false; }
    c.seed = k.gu("seed"); c.policy = (int) k.gi("policy"); c.refmask = k.gu("refmask"); c.mask = k.has("mask") ? k.gu("mask") : c.refmask;
    if (k.gs("sub") == "xbuild") { printf("XB-DIGEST %016llx\n", (unsigned long long) eval(c.entry, c.seed, c.policy, c.refmask)); return true; }
    return run(c, msg);
}

void explore_masks_xb(Ctx &ctx) {
    std::ofstream xb;
    if (!ctx.out.empty()) { xb.open(ctx.out + ".xb"); g_xb = &xb; }
    explore_masks(ctx);
    g_xb = nullptr;
}

}  // namespace

std::vector<Sub> vh_subs() { return { { "features", explore_features, replay }, { "simulated_cpus", explore_sim, replay }, { "masks", explore_masks_xb, replay }, { "huge_inputs", explore_huge, replay }, { "constants", explore_getters, replay }, { "xbuild", [](Ctx &) {}, replay } }; }
