// C10 -- results do not depend on CPU features, selected backend or build configuration.
// (a) in-process: every corpus case is evaluated under every CPU-feature mask and must give the digest of the
//     reference configuration (mask "none"); (b) across builds: each build writes one digest per corpus case, the
//     driver compares them (records in <out>.xb); (c) AES-256-GCM availability and feature-flag honesty.
#include "vh_main.hpp"
#include "apitable.hpp"
#include <fstream>
#include <sys/mman.h>
using namespace vh;

namespace {

struct Case {
    int entry; uint64_t seed; int policy; unsigned long mask; unsigned long refmask;
    KV kv() const { KV k; k.s("entry", api::table()[entry].name).u("seed", seed).u("policy", policy).u("mask", mask).u("refmask", refmask); return k; }
};
// length policies: block-boundary lengths first, then random
std::vector<size_t> policy_lens(int policy) {
    static const size_t B[] = { 0, 1, 15, 16, 17, 31, 32, 33, 63, 64, 65, 127, 128, 129, 255, 256, 257, 511, 512, 513, 1023, 1024, 1025 };
    size_t n = sizeof B / sizeof B[0];
    if (policy < 0) return {};
    if ((size_t) policy < n) return { B[policy], B[(policy * 7 + 3) % n], B[(policy * 5 + 1) % 9] };
    return {};      // random lengths up to 4 KiB
}
uint64_t eval(int entry, uint64_t seed, int policy, unsigned long mask) {
    set_mask(mask);
    api::Ctx c(seed);
    c.fixed_lens = policy_lens(policy); c.maxlen = 4096;
    api::table()[entry].fn(c);
    return c.finish();
}
bool gcm_entry(int e) { return std::string(api::table()[e].name) == "aead_aes256gcm"; }

bool run(const Case &c, std::string &msg) {
    uint64_t ref = eval(c.entry, c.seed, c.policy, c.refmask), got = eval(c.entry, c.seed, c.policy, c.mask);
    if (ref != got) {
        char b[300]; snprintf(b, sizeof b, "%s (seed %llu, length policy %d): outputs / return codes under CPU mask 0x%lx differ from those under mask 0x%lx", api::table()[c.entry].name, (unsigned long long) c.seed, c.policy, c.mask, c.refmask);
        msg = b; return false;
    }
    return true;
}

std::vector<unsigned long> closed_subsets(Rng &r, int n) {     // random feature subsets closed under avx512f => avx2 => avx, applied to the detected set
    std::vector<unsigned long> out;
    for (int i = 0; i < n; i++) {
        unsigned long m = (unsigned long) r.next() & F_ALL;
        if (!(m & F_AVX)) m &= ~(unsigned long) (F_AVX2 | F_AVX512F);
        if (!(m & F_AVX2)) m &= ~(unsigned long) F_AVX512F;
        out.push_back(m);
    }
    return out;
}

std::ofstream *g_xb = nullptr;

void explore_masks(Ctx &ctx) {
    auto &T = api::table();
    auto masks = mask_set(true);
    unsigned long none = 0, all = F_ALL;
    Rng r = ctx.rng("c10-corpus");
    uint64_t idx = 0;
    int npol = 23 + (ctx.thorough() ? 120 : 40);
    for (size_t e = 0; e < T.size(); e++) {
        int cost = T[e].cost;
        for (int pol = 0; pol < npol; pol++) {
            if (cost == 2 && pol % 6 != 0 && !ctx.thorough()) continue;
            if (cost == 1 && pol % 2 != 0 && !ctx.thorough()) continue;
            uint64_t seed = r.next(); Rng sub(seed ^ 0x5555);
            if (!ctx.mine(idx++)) continue;
            bool gcm = gcm_entry((int) e);
            unsigned long ref = gcm ? all : none;
            std::vector<unsigned long> ms; for (auto &m : masks) ms.push_back(m.mask);
            for (unsigned long m : closed_subsets(sub, ctx.thorough() ? 12 : 2)) ms.push_back(m);
            for (unsigned long m : ms) {
                if (m == ref) continue;
                if (gcm) { unsigned long eff = m & detected_features(); if (!((eff & F_AESNI) && (eff & F_PCLMUL) && (eff & F_AVX))) continue; }
                Case c{ (int) e, seed, pol, m, ref };
                exec_case(ctx, c, run, mix64(mix64(e, seed), mix64(pol, m)), (m & detected_features()) != (ref & detected_features()));
            }
            // cross-build record: digest of the reference configuration of THIS build
            if (g_xb) {
                uint64_t d = eval((int) e, seed, pol, ref);
                bool comparable = !gcm || crypto_aead_aes256gcm_is_available();
                if (comparable) (*g_xb) << std::hex << d << std::dec << "\tentry=" << T[e].name << ";seed=" << seed << ";policy=" << pol << ";refmask=" << ref << "\n";
            }
        }
    }
}

// ------------------------------------------------------------------ AES-256-GCM availability and feature honesty
struct FCase {
    unsigned long mask; int what;     // what 0: availability formula, 1: flags = detected & mask, 2: cpuinfo honesty, 3: stubs when unavailable
    KV kv() const { KV k; k.s("kind", "features").u("mask", mask).u("what", what); return k; }
};
bool cpuinfo_has(const char *flag) {
    static std::string flags;
    if (flags.empty()) { std::ifstream f("/proc/cpuinfo"); std::string line; while (std::getline(f, line)) if (line.compare(0, 5, "flags") == 0) { flags = " " + line.substr(line.find(':') + 1) + " "; break; } }
    return flags.find(std::string(" ") + flag + " ") != std::string::npos;
}
bool run_feat(const FCase &c, std::string &msg) {
    char b[300];
    if (c.what == 2) {
        sodium_verif_set_cpu_mask(F_ALL);
        struct { int (*fn)(void); const char *flag; } tab[] = { { sodium_runtime_has_sse2, "sse2" }, { sodium_runtime_has_sse3, "pni" }, { sodium_runtime_has_ssse3, "ssse3" }, { sodium_runtime_has_sse41, "sse4_1" },
            { sodium_runtime_has_avx, "avx" }, { sodium_runtime_has_avx2, "avx2" }, { sodium_runtime_has_avx512f, "avx512f" }, { sodium_runtime_has_pclmul, "pclmulqdq" }, { sodium_runtime_has_aesni, "aes" }, { sodium_runtime_has_rdrand, "rdrand" } };
        for (auto &t : tab) if (t.fn() && !cpuinfo_has(t.flag)) { snprintf(b, sizeof b, "the library reports CPU feature '%s' but /proc/cpuinfo does not list it", t.flag); msg = b; return false; }
        if (sodium_runtime_has_neon() || sodium_runtime_has_armcrypto()) { msg = "ARM features reported on an x86-64 host"; return false; }
        return true;
    }
    sodium_verif_set_cpu_mask(c.mask);
    unsigned long eff = c.mask & detected_features();
    if (c.what == 1) { if (current_features() != eff) { snprintf(b, sizeof b, "reported features 0x%lx != detected & mask 0x%lx", current_features(), eff); msg = b; return false; } return true; }
    bool hw = (eff & F_AESNI) && (eff & F_PCLMUL) && (eff & F_AVX);
#if defined(VERIF_VARIANT)
    bool compiled_in = std::string(VERIF_VARIANT) != "nosimd";
#else
    bool compiled_in = true;
#endif
    bool want = hw && compiled_in;
    int av = crypto_aead_aes256gcm_is_available();
    if ((av != 0) != want) { snprintf(b, sizeof b, "crypto_aead_aes256gcm_is_available() = %d under mask 0x%lx, expected %d (aesni & pclmul & avx of the masked features, implementation compiled in: %d)", av, c.mask, (int) want, (int) compiled_in); msg = b; return false; }
    if (c.what == 3 && !compiled_in) {   // builds without the implementation: every entry point fails cleanly with ENOSYS
        unsigned char k[32] = { 0 }, n[12] = { 0 }, m[16] = { 0 }, ct[32], mac[16], back[16]; unsigned long long l = 0;
        crypto_aead_aes256gcm_state *st = (crypto_aead_aes256gcm_state *) aligned_alloc(64, 512);
        int rcs[10]; int e[10]; int i = 0;
        errno = 0; rcs[i] = crypto_aead_aes256gcm_encrypt(ct, &l, m, 16, nullptr, 0, nullptr, n, k); e[i++] = errno;
        errno = 0; rcs[i] = crypto_aead_aes256gcm_decrypt(back, &l, nullptr, ct, 32, nullptr, 0, n, k); e[i++] = errno;
        errno = 0; rcs[i] = crypto_aead_aes256gcm_encrypt_detached(ct, mac, &l, m, 16, nullptr, 0, nullptr, n, k); e[i++] = errno;
        errno = 0; rcs[i] = crypto_aead_aes256gcm_decrypt_detached(back, nullptr, ct, 16, mac, nullptr, 0, n, k); e[i++] = errno;
        errno = 0; rcs[i] = crypto_aead_aes256gcm_beforenm(st, k); e[i++] = errno;
        errno = 0; rcs[i] = crypto_aead_aes256gcm_encrypt_afternm(ct, &l, m, 16, nullptr, 0, nullptr, n, st); e[i++] = errno;
        errno = 0; rcs[i] = crypto_aead_aes256gcm_decrypt_afternm(back, &l, nullptr, ct, 32, nullptr, 0, n, st); e[i++] = errno;
        errno = 0; rcs[i] = crypto_aead_aes256gcm_encrypt_detached_afternm(ct, mac, &l, m, 16, nullptr, 0, nullptr, n, st); e[i++] = errno;
        errno = 0; rcs[i] = crypto_aead_aes256gcm_decrypt_detached_afternm(back, nullptr, ct, 16, mac, nullptr, 0, n, st); e[i++] = errno;
        free(st);
        for (int j = 0; j < i; j++) if (rcs[j] != -1 || e[j] != ENOSYS) { snprintf(b, sizeof b, "AES-256-GCM entry point #%d returned %d / errno %d in a build without the implementation (expected -1 / ENOSYS)", j, rcs[j], e[j]); msg = b; return false; }
    }
    return true;
}
void explore_features(Ctx &ctx) {
    uint64_t idx = 0;
    if (ctx.mine(idx++)) { FCase c{ F_ALL, 2 }; exec_case(ctx, c, run_feat, 1, true); }
    for (unsigned long m = 0; m <= F_ALL; m++) {     // every subset of the 10 feature bits
        if (!ctx.mine(idx++)) continue;
        for (int what : { 0, 1 }) { FCase c{ m, what }; exec_case(ctx, c, run_feat, mix64(m, what), true); }
    }
    if (ctx.mine(idx++)) { FCase c{ F_ALL, 3 }; exec_case(ctx, c, run_feat, 3, true); }
}

// ------------------------------------------------------------------ inputs whose bit length (>= 2^29 bytes) or byte length (>= 2^32) no longer fits 32 bits
// Length blocks, bit counters and block counters of every backend are 64-bit quantities; below 512 MiB their upper halves are always zero.
const char *HN[] = { "aegis128l(ad)", "aegis256(ad)", "chacha20poly1305_ietf(ad)", "xchacha20poly1305_ietf(ad)", "generichash", "onetimeauth", "hash_sha256", "hash_sha512", "auth_hmacsha512256", "shorthash", "aes256gcm(ad)", "auth_hmacsha256", "generichash(stream)" };
enum { NHUGE = 13 };
struct HugeCase {
    int what; size_t len; unsigned long mask, refmask;
    KV kv() const { KV k; k.s("kind", "huge").u("what", what).s("name", HN[what]).u("len", len).u("mask", mask).u("refmask", refmask); return k; }
};
uint8_t *huge_buf(size_t len) {
    static uint8_t *p = nullptr; static size_t n = 0;
    if (p && n >= len) return p;
    if (p) munmap(p, n);
    void *q = mmap(nullptr, len + 64, PROT_READ | PROT_WRITE, MAP_PRIVATE | MAP_ANONYMOUS, -1, 0);
    if (q == MAP_FAILED) { p = nullptr; n = 0; return nullptr; }
    p = (uint8_t *) q; n = len;
    uint64_t x = 0x9e3779b97f4a7c15ULL; uint64_t *w = (uint64_t *) p;
    for (size_t i = 0; i < (len + 64) / 8; i++) { x ^= x << 13; x ^= x >> 7; x ^= x << 17; w[i] = x; }
    return p;
}
bool huge_eval(int what, size_t len, unsigned long mask, uint64_t &digest) {
    uint8_t *in = huge_buf(len); if (!in) return false;
    set_mask(mask);
    unsigned char key[64], npub[32], m[16], out[16 + 64], mac[32]; unsigned long long l = 0;
    for (int i = 0; i < 64; i++) key[i] = (unsigned char) (i * 7 + 1); for (int i = 0; i < 32; i++) npub[i] = (unsigned char) (0xa0 + i); for (int i = 0; i < 16; i++) m[i] = (unsigned char) i;
    memset(out, 0, sizeof out); memset(mac, 0, sizeof mac);
    int rc = 0;
    switch (what) {
    case 0: rc = crypto_aead_aegis128l_encrypt_detached(out, mac, &l, m, 16, in, len, nullptr, npub, key); break;
    case 1: rc = crypto_aead_aegis256_encrypt_detached(out, mac, &l, m, 16, in, len, nullptr, npub, key); break;
    case 2: rc = crypto_aead_chacha20poly1305_ietf_encrypt_detached(out, mac, &l, m, 16, in, len, nullptr, npub, key); break;
    case 3: rc = crypto_aead_xchacha20poly1305_ietf_encrypt_detached(out, mac, &l, m, 16, in, len, nullptr, npub, key); break;
    case 4: rc = crypto_generichash(out, 64, in, len, key, 32); break;
    case 5: rc = crypto_onetimeauth(out, in, len, key); break;
    case 6: rc = crypto_hash_sha256(out, in, len); break;
    case 7: rc = crypto_hash_sha512(out, in, len); break;
    case 8: rc = crypto_auth_hmacsha512256(out, in, len, key); break;
    case 9: rc = crypto_shorthash(out, in, len, key); break;
    case 10: if (!crypto_aead_aes256gcm_is_available()) return false; rc = crypto_aead_aes256gcm_encrypt_detached(out, mac, &l, m, 16, in, len, nullptr, npub, key); break;
    case 11: rc = crypto_auth_hmacsha256(out, in, len, key); break;
    default: { crypto_generichash_state st; crypto_generichash_init(&st, key, 17, 48); size_t h = len / 2 + 3; crypto_generichash_update(&st, in, h); crypto_generichash_update(&st, in + h, len - h); rc = crypto_generichash_final(&st, out, 48); break; }
    }
    digest = mix64(hash_bytes(out, sizeof out), mix64(hash_bytes(mac, sizeof mac), (uint64_t) (rc + 5)));
    return true;
}
uint64_t g_huge_skipped = 0;
bool run_huge(const HugeCase &c, std::string &msg) {
    uint64_t a = 0, b = 0;
    if (!huge_eval(c.what, c.len, c.refmask, a) || !huge_eval(c.what, c.len, c.mask, b)) { g_huge_skipped++; return true; }
    if (a != b) { char t[300]; snprintf(t, sizeof t, "%s over %zu bytes: output / return code under CPU mask 0x%lx differs from that under mask 0x%lx", HN[c.what], c.len, c.mask, c.refmask); msg = t; return false; }
    return true;
}
void explore_huge(Ctx &ctx) {
    std::ofstream xb;
    if (!ctx.out.empty()) xb.open(ctx.out + ".xb", std::ios::app);
    uint64_t idx = 0;
    std::vector<size_t> lens = { ((size_t) 1 << 29) + 77 };
    if (ctx.thorough()) lens.push_back(((size_t) 1 << 32) + 5);
    std::vector<unsigned long> masks; for (auto &m : mask_set(true)) if (m.name == "-avx2" || m.name == "-sse41" || m.name == "-ssse3" || m.name == "all-aes") masks.push_back(m.mask);
    for (size_t len : lens) for (int what = 0; what < NHUGE; what++) {
        bool aegis = what <= 1;
        bool fast_build = std::string(VERIF_FLAVOUR) == "plain" || std::string(VERIF_FLAVOUR) == "plainclang";
        if (aegis && (!ctx.thorough() || !fast_build || len > ((size_t) 1 << 30))) continue;        // software AES over 512 MiB takes tens of seconds: thorough tier, non-sanitizer builds, never 4 GiB
        if (len > ((size_t) 1 << 30) && !fast_build) continue;                                       // 4 GiB through a sanitizer build takes minutes per call
        if (len > ((size_t) 1 << 30) && !(what == 2 || what == 4 || what == 5 || what == 6 || what == 7)) continue;      // 4 GiB: the length-block / counter users only
        if (len > ((size_t) 1 << 30) ? ctx.worker != 0 : !ctx.mine(idx++)) continue;    // one 4 GiB buffer per build at most
        unsigned long ref = what == 10 ? F_ALL : 0;
        std::vector<unsigned long> ms = { F_ALL };
        if (what == 4 || what == 12) for (unsigned long m : masks) ms.push_back(m);    // BLAKE2b has four compression backends
        if (what == 10) ms = { F_ALL };
        for (unsigned long m : ms) { if (m == ref && what != 10) continue; HugeCase c{ what, len, m, ref }; exec_case(ctx, c, run_huge, mix64(mix64(what, len), m), true); }
        uint64_t d = 0;
        if (xb.is_open() && huge_eval(what, len, ref, d)) xb << std::hex << d << std::dec << "\tkind=huge;what=" << what << ";len=" << len << ";refmask=" << ref << "\n";
    }
    ctx.notes["huge_input_cases_skipped"] = std::to_string(g_huge_skipped);
}

// ------------------------------------------------------------------ constant accessor functions
// ~280 exported functions only return a documented constant (crypto_secretbox_keybytes() = crypto_secretbox_KEYBYTES ...).  They are
// deterministic public functions like any other: each must return the value of the macro that documents it, in every build.
struct GCase { int idx; KV kv() const { KV k; k.s("kind", "getter").u("idx", idx); return k; } };
struct GRow { const char *name; const char *macro; bool is_str; unsigned long long fn_num, mac_num; const char *fn_str, *mac_str; };
std::vector<GRow> &getters() {
    static std::vector<GRow> v;
    if (!v.empty()) return v;
#define GETTER_NUM(F, M) v.push_back(GRow{ #F, #M, false, (unsigned long long) F(), (unsigned long long) (M), nullptr, nullptr });
#define GETTER_STR(F, M) v.push_back(GRow{ #F, #M, true, 0, 0, (const char *) F(), (const char *) (M) });
#define GETTER(F, M, K) GETTER_##K(F, M)
#include "getters.inc"
#undef GETTER
    return v;
}
bool run_getter(const GCase &c, std::string &msg) {
    const GRow &g = getters()[(size_t) c.idx];
    char b[400];
    if (g.is_str ? (g.fn_str == nullptr || strcmp(g.fn_str, g.mac_str) != 0) : g.fn_num != g.mac_num) {
        if (g.is_str) snprintf(b, sizeof b, "%s() returns \"%s\", the documented constant %s is \"%s\"", g.name, g.fn_str ? g.fn_str : "(null)", g.macro, g.mac_str);
        else snprintf(b, sizeof b, "%s() returns %llu, the documented constant %s is %llu", g.name, g.fn_num, g.macro, g.mac_num);
        msg = b; return false;
    }
    return true;
}
void explore_getters(Ctx &ctx) {
    std::ofstream xb;
    if (!ctx.out.empty() && ctx.worker == 0) xb.open(ctx.out + ".xb", std::ios::app);
    auto &G = getters();
    uint64_t d = 0x6e77;
    for (size_t i = 0; i < G.size(); i++) {
        d = mix64(d, G[i].is_str ? hash_str(G[i].fn_str ? G[i].fn_str : "") : G[i].fn_num);
        if (!ctx.mine(i)) continue;
        GCase c{ (int) i };
        exec_case(ctx, c, run_getter, mix64(i, 0x6e), true);
    }
    if (xb.is_open()) xb << std::hex << d << std::dec << "\tkind=getters;refmask=0\n";
}

bool replay(const KV &k, std::string &msg) {
    if (k.gs("kind") == "getter") { GCase c{ (int) k.gu("idx") }; return run_getter(c, msg); }
    if (k.gs("kind") == "getters") { uint64_t d = 0x6e77; for (auto &g : getters()) d = mix64(d, g.is_str ? hash_str(g.fn_str ? g.fn_str : "") : g.fn_num); printf("XB-DIGEST %016llx\n", (unsigned long long) d); return true; }
    if (k.gs("kind") == "huge") {
        HugeCase c{ (int) k.gu("what"), (size_t) k.gu("len"), k.has("mask") ? (unsigned long) k.gu("mask") : (unsigned long) k.gu("refmask"), (unsigned long) k.gu("refmask") };
        if (k.gs("sub") == "xbuild") { uint64_t d = 0; huge_eval(c.what, c.len, c.refmask, d); printf("XB-DIGEST %016llx\n", (unsigned long long) d); return true; }
        return run_huge(c, msg);
    }
    if (k.gs("kind") == "features") { FCase c{ (unsigned long) k.gu("mask"), (int) k.gu("what") }; return run_feat(c, msg); }
    Case c; c.entry = -1;
    for (size_t i = 0; i < api::table().size(); i++) if (k.gs("entry") == api::table()[i].name) c.entry = (int) i;
    if (c.entry < 0) { msg = "unknown entry"; return false; }
    c.seed = k.gu("seed"); c.policy = (int) k.gi("policy"); c.refmask = k.gu("refmask"); c.mask = k.has("mask") ? k.gu("mask") : c.refmask;
    if (k.gs("sub") == "xbuild") { printf("XB-DIGEST %016llx\n", (unsigned long long) eval(c.entry, c.seed, c.policy, c.refmask)); return true; }
    return run(c, msg);
}

void explore_masks_xb(Ctx &ctx) {
    std::ofstream xb;
    if (!ctx.out.empty()) { xb.open(ctx.out + ".xb"); g_xb = &xb; }
    explore_masks(ctx);
    g_xb = nullptr;
}

}  // namespace

std::vector<Sub> vh_subs() { return { { "features", explore_features, replay }, { "masks", explore_masks_xb, replay }, { "huge_inputs", explore_huge, replay }, { "constants", explore_getters, replay }, { "xbuild", [](Ctx &) {}, replay } }; }
