// C10 -- results do not depend on CPU features, selected backend or build configuration.
// (a) in-process: every corpus case is evaluated under every CPU-feature mask and must give the digest of the
//     reference configuration (mask "none"); (b) across builds: each build writes one digest per corpus case, the
//     driver compares them (records in <out>.xb); (c) AES-256-GCM availability and feature-flag honesty.
#include "vh_main.hpp"
#include "apitable.hpp"
#include <fstream>
using namespace vh;

namespace {

struct Case {
    int entry; uint64_t seed; int policy; unsigned long mask; unsigned long refmask;
    KV kv() const { KV k; k.s("entry", api::table()[entry].name).u("seed", seed).u("policy", policy).u("mask", mask).u("refmask", refmask); return k; }
};
// length policies: block-boundary lengths first, then random
std::vector<size_t> policy_lens(int policy) {
    static const size_t B[] = { 0, 1, 15, 16, 17, 31, 32, 33, 63, 64, 65, 127, 128, 129, 255, 256, 257, 511, 512, 513, 1023, 1024, 1025 };
    size_t n = sizeof B / sizeof B[0];
    if (policy < 0) return {};
    if ((size_t) policy < n) return { B[policy], B[(policy * 7 + 3) % n], B[(policy * 5 + 1) % 9] };
    return {};      // random lengths up to 4 KiB
}
uint64_t eval(int entry, uint64_t seed, int policy, unsigned long mask) {
    set_mask(mask);
    api::Ctx c(seed);
    c.fixed_lens = policy_lens(policy); c.maxlen = 4096;
    api::table()[entry].fn(c);
    return c.finish();
}
bool gcm_entry(int e) { return std::string(api::table()[e].name) == "aead_aes256gcm"; }

bool run(const Case &c, std::string &msg) {
    uint64_t ref = eval(c.entry, c.seed, c.policy, c.refmask), got = eval(c.entry, c.seed, c.policy, c.mask);
    if (ref != got) {
        char b[300]; snprintf(b, sizeof b, "%s (seed %llu, length policy %d): outputs / return codes under CPU mask 0x%lx differ from those under mask 0x%lx", api::table()[c.entry].name, (unsigned long long) c.seed, c.policy, c.mask, c.refmask);
        msg = b; return false;
    }
    return true;
}

std::vector<unsigned long> closed_subsets(Rng &r, int n) {     // random feature subsets closed under avx512f => avx2 => avx, applied to the detected set
    std::vector<unsigned long> out;
    for (int i = 0; i < n; i++) {
        unsigned long m = (unsigned long) r.next() & F_ALL;
        if (!(m & F_AVX)) m &= ~(unsigned long) (F_AVX2 | F_AVX512F);
        if (!(m & F_AVX2)) m &= ~(unsigned long) F_AVX512F;
        out.push_back(m);
    }
    return out;
}

std::ofstream *g_xb = nullptr;

void explore_masks(Ctx &ctx) {
    auto &T = api::table();
    auto masks = mask_set(true);
    unsigned long none = 0, all = F_ALL;
    Rng r = ctx.rng("c10-corpus");
    uint64_t idx = 0;
    int npol = 23 + (ctx.thorough() ? 120 : 40);
    for (size_t e = 0; e < T.size(); e++) {
        int cost = T[e].cost;
        for (int pol = 0; pol < npol; pol++) {
            if (cost == 2 && pol % 6 != 0 && !ctx.thorough()) continue;
            if (cost == 1 && pol % 2 != 0 && !ctx.thorough()) continue;
            uint64_t seed = r.next(); Rng sub(seed ^ 0x5555);
            if (!ctx.mine(idx++)) continue;
            bool gcm = gcm_entry((int) e);
            unsigned long ref = gcm ? all : none;
            std::vector<unsigned long> ms; for (auto &m : masks) ms.push_back(m.mask);
            for (unsigned long m : closed_subsets(sub, ctx.thorough() ? 12 : 2)) ms.push_back(m);
            for (unsigned long m : ms) {
                if (m == ref) continue;
                if (gcm) { unsigned long eff = m & detected_features(); if (!((eff & F_AESNI) && (eff & F_PCLMUL) && (eff & F_AVX))) continue; }
                Case c{ (int) e, seed, pol, m, ref };
                exec_case(ctx, c, run, mix64(mix64(e, seed), mix64(pol, m)), (m & detected_features()) != (ref & detected_features()));
            }
            // cross-build record: digest of the reference configuration of THIS build
            if (g_xb) {
                uint64_t d = eval((int) e, seed, pol, ref);
                bool comparable = !gcm || crypto_aead_aes256gcm_is_available();
                if (comparable) (*g_xb) << std::hex << d << std::dec << "\tentry=" << T[e].name << ";seed=" << seed << ";policy=" << pol << ";refmask=" << ref << "\n";
            }
        }
    }
}

// ------------------------------------------------------------------ AES-256-GCM availability and feature honesty
struct FCase {
    unsigned long mask; int what;     // what 0: availability formula, 1: flags = detected & mask, 2: cpuinfo honesty, 3: stubs when unavailable
    KV kv() const { KV k; k.s("kind", "features").u("mask", mask).u("what", what); return k; }
};
bool cpuinfo_has(const char *flag) {
    static std::string flags;
    if (flags.empty()) { std::ifstream f("/proc/cpuinfo"); std::string line; while (std::getline(f, line)) if (line.compare(0, 5, "flags") == 0) { flags = " " + line.substr(line.find(':') + 1) + " "; break; } }
    return flags.find(std::string(" ") + flag + " ") != std::string::npos;
}
bool run_feat(const FCase &c, std::string &msg) {
    char b[300];
    if (c.what == 2) {
        sodium_verif_set_cpu_mask(F_ALL);
        struct { int (*fn)(void); const char *flag; } tab[] = { { sodium_runtime_has_sse2, "sse2" }, { sodium_runtime_has_sse3, "pni" }, { sodium_runtime_has_ssse3, "ssse3" }, { sodium_runtime_has_sse41, "sse4_1" },
            { sodium_runtime_has_avx, "avx" }, { sodium_runtime_has_avx2, "avx2" }, { sodium_runtime_has_avx512f, "avx512f" }, { sodium_runtime_has_pclmul, "pclmulqdq" }, { sodium_runtime_has_aesni, "aes" }, { sodium_runtime_has_rdrand, "rdrand" } };
        for (auto &t : tab) if (t.fn() && !cpuinfo_has(t.flag)) { snprintf(b, sizeof b, "the library reports CPU feature '%s' but /proc/cpuinfo does not list it", t.flag); msg = b; return false; }
        if (sodium_runtime_has_neon() || sodium_runtime_has_armcrypto()) { msg = "ARM features reported on an x86-64 host"; return false; }
        return true;
    }
    sodium_verif_set_cpu_mask(c.mask);
    unsigned long eff = c.mask & detected_features();
    if (c.what == 1) { if (current_features() != eff) { snprintf(b, sizeof b, "reported features 0x%lx != detected & mask 0x%lx", current_features(), eff); msg = b; return false; } return true; }
    bool hw = (eff & F_AESNI) && (eff & F_PCLMUL) && (eff & F_AVX);
#if defined(VERIF_VARIANT)
    bool compiled_in = std::string(VERIF_VARIANT) != "nosimd";
#else
    bool compiled_in = true;
#endif
    bool want = hw && compiled_in;
    int av = crypto_aead_aes256gcm_is_available();
    if ((av != 0) != want) { snprintf(b, sizeof b, "crypto_aead_aes256gcm_is_available() = %d under mask 0x%lx, expected %d (aesni & pclmul & avx of the masked features, implementation compiled in: %d)", av, c.mask, (int) want, (int) compiled_in); msg = b; return false; }
    if (c.what == 3 && !compiled_in) {   // builds without the implementation: every entry point fails cleanly with ENOSYS
        unsigned char k[32] = { 0 }, n[12] = { 0 }, m[16] = { 0 }, ct[32], mac[16], back[16]; unsigned long long l = 0;
        crypto_aead_aes256gcm_state *st = (crypto_aead_aes256gcm_state *) aligned_alloc(64, 512);
        int rcs[10]; int e[10]; int i = 0;
        errno = 0; rcs[i] = crypto_aead_aes256gcm_encrypt(ct, &l, m, 16, nullptr, 0, nullptr, n, k); e[i++] = errno;
        errno = 0; rcs[i] = crypto_aead_aes256gcm_decrypt(back, &l, nullptr, ct, 32, nullptr, 0, n, k); e[i++] = errno;
        errno = 0; rcs[i] = crypto_aead_aes256gcm_encrypt_detached(ct, mac, &l, m, 16, nullptr, 0, nullptr, n, k); e[i++] = errno;
        errno = 0; rcs[i] = crypto_aead_aes256gcm_decrypt_detached(back, nullptr, ct, 16, mac, nullptr, 0, n, k); e[i++] = errno;
        errno = 0; rcs[i] = crypto_aead_aes256gcm_beforenm(st, k); e[i++] = errno;
        errno = 0; rcs[i] = crypto_aead_aes256gcm_encrypt_afternm(ct, &l, m, 16, nullptr, 0, nullptr, n, st); e[i++] = errno;
        errno = 0; rcs[i] = crypto_aead_aes256gcm_decrypt_afternm(back, &l, nullptr, ct, 32, nullptr, 0, n, st); e[i++] = errno;
        errno = 0; rcs[i] = crypto_aead_aes256gcm_encrypt_detached_afternm(ct, mac, &l, m, 16, nullptr, 0, nullptr, n, st); e[i++] = errno;
        errno = 0; rcs[i] = crypto_aead_aes256gcm_decrypt_detached_afternm(back, nullptr, ct, 16, mac, nullptr, 0, n, st); e[i++] = errno;
        free(st);
        for (int j = 0; j < i; j++) if (rcs[j] != -1 || e[j] != ENOSYS) { snprintf(b, sizeof b, "AES-256-GCM entry point #%d returned %d / errno %d in a build without the implementation (expected -1 / ENOSYS)", j, rcs[j], e[j]); msg = b; return false; }
    }
    return true;
}
void explore_features(Ctx &ctx) {
    uint64_t idx = 0;
    if (ctx.mine(idx++)) { FCase c{ F_ALL, 2 }; exec_case(ctx, c, run_feat, 1, true); }
    for (unsigned long m = 0; m <= F_ALL; m++) {     // every subset of the 10 feature bits
        if (!ctx.mine(idx++)) continue;
        for (int what : { 0, 1 }) { FCase c{ m, what }; exec_case(ctx, c, run_feat, mix64(m, what), true); }
    }
    if (ctx.mine(idx++)) { FCase c{ F_ALL, 3 }; exec_case(ctx, c, run_feat, 3, true); }
}

bool replay(const KV &k, std::string &msg) {
    if (k.gs("kind") == "features") { FCase c{ (unsigned long) k.gu("mask"), (int) k.gu("what") }; return run_feat(c, msg); }
    Case c; c.entry = -1;
    for (size_t i = 0; i < api::table().size(); i++) if (k.gs("entry") == api::table()[i].name) c.entry = (int) i;
    if (c.entry < 0) { msg = "unknown entry"; return false; }
    c.seed = k.gu("seed"); c.policy = (int) k.gi("policy"); c.refmask = k.gu("refmask"); c.mask = k.has("mask") ? k.gu("mask") : c.refmask;
    if (k.gs("sub") == "xbuild") { printf("XB-DIGEST %016llx\n", (unsigned long long) eval(c.entry, c.seed, c.policy, c.refmask)); return true; }
    return run(c, msg);
}

void explore_masks_xb(Ctx &ctx) {
    std::ofstream xb;
    if (!ctx.out.empty()) { xb.open(ctx.out + ".xb"); g_xb = &xb; }
    explore_masks(ctx);
    g_xb = nullptr;
}

}  // namespace

std::vector<Sub> vh_subs() { return { { "features", explore_features, replay }, { "masks", explore_masks_xb, replay }, { "xbuild", [](Ctx &) {}, replay } }; }
