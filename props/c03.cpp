// C03 -- stream ciphers generate the specified keystream at every length and offset.
// Oracle: ref/stream.hpp (block-at-a-time models with integer counters).
#include "vh_main.hpp"
#include "stream.hpp"
#include "giant.hpp"
#include <sys/wait.h>
using namespace vh;

namespace {

enum Cipher { CHACHA20, CHACHA20_IETF, XCHACHA20, SALSA20, SALSA2012, SALSA208, XSALSA20, NCIPH };
const char *CN[] = { "chacha20", "chacha20_ietf", "xchacha20", "salsa20", "salsa2012", "salsa208", "xsalsa20" };
const size_t NONCE[] = { 8, 12, 24, 8, 8, 8, 24 };
enum Form { STREAM, XOR, XOR_IC, ALIAS_STREAM, ALIAS_XOR, NFORM };
const char *FN[] = { "stream", "xor", "xor_ic", "crypto_stream", "crypto_stream_xor" };
bool has_ic(int c) { return c != SALSA2012 && c != SALSA208; }

struct Case {
    int cipher, form; Bytes key, nonce, msg; uint64_t ic; size_t len; unsigned long mask; size_t align;
    KV kv() const { KV k; k.s("cipher", CN[cipher]).s("form", FN[form]).u("len", len).u("ic", ic).u("mask", mask).u("align", align).b("key", key).b("nonce", nonce).b("msg", msg); return k; }
    static Case from(const KV &k) {
        Case c; c.cipher = 0; c.form = 0;
        for (int i = 0; i < NCIPH; i++) if (k.gs("cipher") == CN[i]) c.cipher = i;
        for (int i = 0; i < NFORM; i++) if (k.gs("form") == FN[i]) c.form = i;
        c.len = k.gu("len"); c.ic = k.gu("ic"); c.mask = k.gu("mask"); c.align = k.gu("align");
        c.key = k.gb("key"); c.nonce = k.gb("nonce"); c.msg = k.gb("msg");
        return c;
    }
};

ref::Bytes model_stream(const Case &c) {
    switch (c.cipher) {
    case CHACHA20: return ref::chacha20_stream(c.key, c.nonce, c.ic, c.len);
    case CHACHA20_IETF: return ref::chacha20_ietf_stream(c.key, c.nonce, (uint32_t) c.ic, c.len);
    case XCHACHA20: return ref::xchacha20_stream(c.key, c.nonce, c.ic, c.len);
    case SALSA20: return ref::salsa_stream(c.key, c.nonce, c.ic, c.len, 20);
    case SALSA2012: return ref::salsa_stream(c.key, c.nonce, c.ic, c.len, 12);
    case SALSA208: return ref::salsa_stream(c.key, c.nonce, c.ic, c.len, 8);
    default: return ref::xsalsa20_stream(c.key, c.nonce, c.ic, c.len);
    }
}

int lib_call(const Case &c, uint8_t *out, const uint8_t *m, const uint8_t *n, const uint8_t *k) {
    unsigned long long L = c.len;
    switch (c.form) {
    case STREAM:
        switch (c.cipher) {
        case CHACHA20: return crypto_stream_chacha20(out, L, n, k);
        case CHACHA20_IETF: return crypto_stream_chacha20_ietf(out, L, n, k);
        case XCHACHA20: return crypto_stream_xchacha20(out, L, n, k);
        case SALSA20: return crypto_stream_salsa20(out, L, n, k);
        case SALSA2012: return crypto_stream_salsa2012(out, L, n, k);
        case SALSA208: return crypto_stream_salsa208(out, L, n, k);
        default: return crypto_stream_xsalsa20(out, L, n, k);
        }
    case XOR:
        switch (c.cipher) {
        case CHACHA20: return crypto_stream_chacha20_xor(out, m, L, n, k);
        case CHACHA20_IETF: return crypto_stream_chacha20_ietf_xor(out, m, L, n, k);
        case XCHACHA20: return crypto_stream_xchacha20_xor(out, m, L, n, k);
        case SALSA20: return crypto_stream_salsa20_xor(out, m, L, n, k);
        case SALSA2012: return crypto_stream_salsa2012_xor(out, m, L, n, k);
        case SALSA208: return crypto_stream_salsa208_xor(out, m, L, n, k);
        default: return crypto_stream_xsalsa20_xor(out, m, L, n, k);
        }
    case XOR_IC:
        switch (c.cipher) {
        case CHACHA20: return crypto_stream_chacha20_xor_ic(out, m, L, n, c.ic, k);
        case CHACHA20_IETF: return crypto_stream_chacha20_ietf_xor_ic(out, m, L, n, (uint32_t) c.ic, k);
        case XCHACHA20: return crypto_stream_xchacha20_xor_ic(out, m, L, n, c.ic, k);
        case SALSA20: return crypto_stream_salsa20_xor_ic(out, m, L, n, c.ic, k);
        default: return crypto_stream_xsalsa20_xor_ic(out, m, L, n, c.ic, k);
        }
    case ALIAS_STREAM: return crypto_stream(out, L, n, k);          // = xsalsa20
    default: return crypto_stream_xor(out, m, L, n, k);
    }
}

bool run(const Case &c, std::string &msg) {
    set_mask(c.mask);
    XBuf k(c.key, c.align + 1), n(c.nonce, c.align + 2), m(c.msg, c.align + 3), out(c.len, c.align);
    bool is_xor = (c.form != STREAM && c.form != ALIAS_STREAM);
    int r = lib_call(c, out.p, m.p, n.p, k.p);
    if (r != 0) { msg = "returned " + std::to_string(r); return false; }
    ref::Bytes ks = model_stream(c), want = is_xor ? ref::xor_bytes(c.msg, ks) : ks, got = out.get();
    if (got != want) {
        size_t i = 0; while (i < got.size() && got[i] == want[i]) i++;
        msg = std::string(CN[c.cipher]) + " " + FN[c.form] + ": output differs from the specification at byte " + std::to_string(i) + " of " + std::to_string(c.len) + " (block " + std::to_string(i / 64) + ")";
        return false;
    }
    if (m.get() != c.msg || k.get() != c.key || n.get() != c.nonce) { msg = "an input buffer was modified"; return false; }
    return true;
}

std::vector<unsigned long> masks_for_streams() {
    std::vector<unsigned long> out;
    for (auto &m : mask_set(false)) {
        // keep the masks that change a stream backend: all (avx2), -avx2 (ssse3 / xmm6 / sse2), -ssse3 (chacha ref), none (salsa ref in noasm)
        if (m.name == "all" || m.name == "-avx2" || m.name == "-ssse3" || m.name == "none") out.push_back(m.mask);
    }
    return out;
}

bool near_carry(uint64_t ic, size_t len) {
    uint64_t blocks = (len + 63) / 64;
    uint64_t lo32 = ic & 0xffffffffULL;
    if (lo32 + blocks + 16 > 0x100000000ULL) return true;
    if (ic + blocks < ic) return true;
    return false;
}

void exec(Ctx &ctx, const Case &c, bool default_backend) {
    bool nt = c.len > 0 && ((c.len % 64) != 0 || near_carry(c.ic, c.len) || !default_backend);
    uint64_t key = mix64(mix64(mix64(mix64(c.cipher, c.form), c.len), c.mask), mix64(c.ic, c.align));
    exec_case(ctx, c, run, key, nt);
}

std::vector<uint64_t> counters(Rng &r, int cipher, size_t len, bool thorough) {
    uint64_t blocks = (len + 63) / 64;
    std::vector<uint64_t> v;
    if (cipher == CHACHA20_IETF) {
        v = { 0, 1, (uint64_t)(r.next() & 0x7fffffff) };
        uint64_t fit = 0x100000000ULL - blocks;          // largest ic that still fits (ic + blocks == 2^32)
        if (fit > 0xffffffffULL) fit = 0xffffffffULL;    // blocks == 0: any 32-bit ic is fine
        v.push_back(fit);
        if (fit >= 3) v.push_back(fit - r.below(3));
        return v;
    }
    v = { 0, 1, r.next() };
    // around the 2^32 carry of the low word and the top of the 64-bit counter
    uint64_t k = r.below(33);
    v.push_back(0x100000000ULL - 16 + k);
    v.push_back((r.next() << 32) | (0xfffffff0ULL + r.below(16)));
    v.push_back(0xffffffffffffffffULL - r.below(17));
    if (thorough) { v.push_back(0xffffffffULL); v.push_back(0x100000000ULL); v.push_back(0xffffffffffffffffULL); v.push_back(0xffffffff00000000ULL + 0xfffffff8ULL); }
    return v;
}

// every length 0..N for every cipher, form, mask
void explore_lengths(Ctx &ctx) {
    auto masks = masks_for_streams();
    size_t maxlen = ctx.thorough() ? 2304 : 2304;
    Rng r = ctx.rng("c03-lengths");
    uint64_t idx = 0;
    for (size_t len = 0; len <= maxlen; len++) {
        for (int ci = 0; ci < NCIPH; ci++) {
            Bytes key = r.bytes_class(32, (int) r.below(8) == 0 ? (int) r.below(5) : 0), nonce = r.bytes(NONCE[ci]), msg = r.bytes_class(len, (int) r.below(6) == 0 ? 2 : 0);
            std::vector<uint64_t> ics = counters(r, ci, len, ctx.thorough());
            uint64_t pick = r.next();
            if (!ctx.mine(idx++)) continue;
            for (size_t mi = 0; mi < masks.size(); mi++) {
                bool def = (mi == 0);
                size_t align = (len + mi) % 16;
                exec(ctx, Case{ ci, STREAM, key, nonce, Bytes(), 0, len, masks[mi], align }, def);
                exec(ctx, Case{ ci, XOR, key, nonce, msg, 0, len, masks[mi], align }, def);
                if (has_ic(ci)) {
                    if (ctx.thorough()) { for (uint64_t ic : ics) exec(ctx, Case{ ci, XOR_IC, key, nonce, msg, ic, len, masks[mi], align }, def); }
                    else {   // quick: two counters per (len, cipher, mask), rotating through the set
                        exec(ctx, Case{ ci, XOR_IC, key, nonce, msg, ics[(pick + mi) % ics.size()], len, masks[mi], align }, def);
                        exec(ctx, Case{ ci, XOR_IC, key, nonce, msg, ics[(pick + mi + 3) % ics.size()], len, masks[mi], align }, def);
                    }
                }
                if (ci == XSALSA20 && (len % 7 == 0 || ctx.thorough())) {
                    exec(ctx, Case{ ci, ALIAS_STREAM, key, nonce, Bytes(), 0, len, masks[mi], align }, def);
                    exec(ctx, Case{ ci, ALIAS_XOR, key, nonce, msg, 0, len, masks[mi], align }, def);
                }
            }
        }
    }
}

// counters walking across the carries: short and long requests starting at every block within +-16 of 2^32 and 2^64-1
void explore_counters(Ctx &ctx) {
    auto masks = masks_for_streams();
    Rng r = ctx.rng("c03-counters");
    uint64_t idx = 0;
    const size_t lens[] = { 1, 63, 64, 65, 128, 255, 256, 257, 511, 512, 513, 640, 1024, 1100, 2048, 2111 };
    for (int ci : { CHACHA20, XCHACHA20, SALSA20, XSALSA20 }) {
        for (int d = -17; d <= 17; d++) {
            for (uint64_t basec : { 0x100000000ULL, 0ULL /* == 2^64 */, 0x0000000200000000ULL, 0xffffffff00000000ULL }) {
                uint64_t ic = basec + (uint64_t)(int64_t) d;
                for (size_t len : lens) {
                    Bytes key = r.bytes(32), nonce = r.bytes(NONCE[ci]), msg = r.bytes(len);
                    if (!ctx.mine(idx++)) continue;
                    for (size_t mi = 0; mi < masks.size(); mi++) exec(ctx, Case{ ci, XOR_IC, key, nonce, msg, ic, len, masks[mi], (size_t)(d & 15) }, mi == 0);
                }
            }
        }
    }
    // IETF: the largest request that still fits must succeed and match
    for (size_t len : lens) for (int slack = 0; slack < 3; slack++) {
        uint64_t blocks = (len + 63) / 64, ic = 0x100000000ULL - blocks - slack;
        Bytes key = r.bytes(32), nonce = r.bytes(12), msg = r.bytes(len);
        if (!ctx.mine(idx++)) continue;
        for (size_t mi = 0; mi < masks.size(); mi++) exec(ctx, Case{ CHACHA20_IETF, XOR_IC, key, nonce, msg, ic, len, masks[mi], 0 }, mi == 0);
    }
}

// long single requests: the block counter of one call walks across its byte carries (block 256 = 16 KiB, block 65536 = 4 MiB); for the
// reduced-round Salsa20 variants, which have no initial-counter parameter, this is the only way to reach those blocks
void explore_long(Ctx &ctx) {
    auto masks = masks_for_streams();
    Rng r = ctx.rng("c03-long");
    uint64_t idx = 0;
    std::vector<size_t> lens = { 16383, 16384, 16385, 16447, 16448, 16449, 16500, 32767, 32768, 32769, 32832, 32900, 40037, 49153, 65600 };
    if (ctx.thorough()) for (size_t l : { (size_t) 16320, (size_t) 16640, (size_t) 32704, (size_t) 33000, (size_t) 65536, (size_t) 131137, (size_t) 262145 }) lens.push_back(l);
    for (int ci = 0; ci < NCIPH; ci++) for (size_t len : lens) {
        Bytes key = r.bytes(32), nonce = r.bytes(NONCE[ci]); uint64_t ms = r.next();
        if (!ctx.mine(idx++)) continue;
        if (has_ic(ci) && !ctx.thorough() && (len % 5) != 0 && len != 40037) continue;      // the ciphers with a counter parameter reach these blocks in "counters" too
        Rng rr(ms); Bytes msg = rr.bytes(len);
        for (size_t mi = 0; mi < masks.size(); mi++) {
            exec(ctx, Case{ ci, STREAM, key, nonce, Bytes(), 0, len, masks[mi], (len + mi) % 16 }, false);
            exec(ctx, Case{ ci, XOR, key, nonce, msg, 0, len, masks[mi], (len + mi) % 16 }, false);
        }
    }
    // across block 65536 (4 MiB): once per cipher and form
    for (int ci = 0; ci < NCIPH; ci++) for (int form : { STREAM, XOR }) {
        Bytes key = r.bytes(32), nonce = r.bytes(NONCE[ci]); uint64_t ms = r.next();
        if (!ctx.mine(idx++)) continue;
        if (has_ic(ci) && !ctx.thorough()) continue;
        size_t len = ((size_t) 1 << 22) + 64 + (size_t) (ms % 100);
        Rng rr(ms); Bytes msg = form == XOR ? rr.bytes(len) : Bytes();
        exec(ctx, Case{ ci, form, key, nonce, msg, 0, len, masks[(size_t) (ms >> 8) % masks.size()], 0 }, false);
    }
}

// ------------------------------------------------------------------ requests of 4 GiB and more (thorough tier, non-sanitizer build)
// One call writes 2^32 + 71 bytes (for the IETF variant: 2^32 + 71 as well, 2^26 + 2 blocks) in place over a zero buffer, so the output is
// the keystream; windows of it at the start, around byte 2^32 and at the end are compared with the model's blocks for those positions.
struct GiantCase {
    int cipher, form; size_t len; uint64_t ic; unsigned long mask;
    KV kv() const { KV k; k.s("kind", "giant").s("cipher", CN[cipher]).u("cipheri", cipher).s("form", FN[form]).u("formi", form).u("len", len).u("ic", ic).u("mask", mask); return k; }
};
uint64_t g_giant_skipped = 0;
bool run_giant(const GiantCase &c, std::string &msg) {
    set_mask(c.mask);
    if (!giant::have_memory(c.len)) { g_giant_skipped++; return true; }
    giant::Map M(c.len); if (!M.ok()) { g_giant_skipped++; return true; }
    Bytes key(32), nonce(NONCE[c.cipher]); for (size_t i = 0; i < 32; i++) key[i] = (uint8_t) (i * 11 + 3 + (size_t) c.cipher); for (size_t i = 0; i < nonce.size(); i++) nonce[i] = (uint8_t) (0xc0 + i);
    Case cc{ c.cipher, c.form, key, nonce, Bytes(), c.ic, c.len, c.mask, 0 };
    int r = lib_call(cc, M.p, M.p, nonce.data(), key.data());
    if (r != 0) { msg = std::string(CN[c.cipher]) + " " + FN[c.form] + " over " + std::to_string(c.len) + " bytes returned " + std::to_string(r); return false; }
    const uint64_t G = (uint64_t) 1 << 32;
    std::vector<uint64_t> wins = { 0, 64, G - 192, G - 64, G, G + 64, (c.len - 1) / 64 * 64, ((c.len - 1) / 64 - 1) * 64, c.len / 2 / 64 * 64 };
    for (uint64_t w : wins) {
        if (w >= c.len) continue;
        size_t n = (size_t) std::min<uint64_t>(128, c.len - w);
        Case wc{ c.cipher, XOR_IC, key, nonce, Bytes(), c.ic + w / 64, n, c.mask, 0 };
        ref::Bytes ks = model_stream(wc);
        if (memcmp(M.p + w, ks.data(), n) != 0) {
            size_t i = 0; while (i < n && M.p[w + i] == ks[i]) i++;
            char b[300]; snprintf(b, sizeof b, "%s %s over %zu bytes (initial counter %llu): output differs from the specification at byte %llu (block %llu): got %02x, keystream byte %02x", CN[c.cipher], FN[c.form], c.len, (unsigned long long) c.ic, (unsigned long long) (w + i), (unsigned long long) ((w + i) / 64), M.p[w + i], ks[i]);
            msg = b; return false;
        }
    }
    return true;
}
void explore_giant(Ctx &ctx) {
    if (!ctx.thorough() || !giant::fast_build() || !giant::first_round()) { ctx.notes["giant_requests"] = "thorough tier, non-sanitizer build, first round only"; return; }
    auto masks = masks_for_streams();
    uint64_t idx = 0;
    for (int ci = 0; ci < NCIPH; ci++) for (int form : { STREAM, XOR, XOR_IC }) {
        if (form == XOR_IC && !has_ic(ci)) continue;
        uint64_t k = idx++;
        if (ctx.worker != (int) (k % (uint64_t) std::min(ctx.nworkers, 2))) continue;      // two 4 GiB buffers at a time at most
        GiantCase c{ ci, form, ((size_t) 1 << 32) + 71, form == XOR_IC ? (ci == CHACHA20_IETF ? (uint64_t) 12345 : ((uint64_t) 7 << 32) + 0xfffff000ULL) : 0, masks[(size_t) k % masks.size()] };
        exec_case(ctx, c, run_giant, mix64(mix64(ci, form), c.mask), true);
    }
    ctx.notes["giant_requests_skipped_no_memory"] = std::to_string(g_giant_skipped);
}

// ------------------------------------------------------------------ IETF counter overflow must hit the misuse handler
struct MisuseCase {
    uint64_t ic; size_t len; unsigned long mask;
    int form = 0;      // 0: xor_ic on real buffers; 1: crypto_stream_chacha20_ietf, 2: _ietf_xor, 3: _ietf_xor_ic with a length claim beyond 2^38 bytes (tiny real buffers)
    KV kv() const { KV k; k.s("kind", "ietf_misuse").u("ic", ic).u("len", len).u("mask", mask).u("form", form); return k; }
};
void misuse_exit(void) { _exit(42); }
bool run_misuse(const MisuseCase &c, std::string &msg) {
    fflush(stdout); fflush(stderr);
    pid_t pid = fork();
    if (pid == 0) {
        inflight().active = false;
        sodium_set_misuse_handler(misuse_exit);
        set_mask(c.mask);
        if (c.form != 0) {
            // the claimed length cannot be backed by memory: a library that does not refuse starts writing and walks off the 4 KiB buffers
            static unsigned char sm[4096], so[4096]; Bytes key(32, 1), nonce(12, 2); int r;
            if (c.form == 1) r = crypto_stream_chacha20_ietf(so, c.len, nonce.data(), key.data());
            else if (c.form == 2) r = crypto_stream_chacha20_ietf_xor(so, sm, c.len, nonce.data(), key.data());
            else r = crypto_stream_chacha20_ietf_xor_ic(so, sm, c.len, nonce.data(), (uint32_t) c.ic, key.data());
            _exit(r == 0 ? 0 : 7);
        }
        Bytes key(32, 1), nonce(12, 2), m(c.len, 3), out(c.len);
        int r = crypto_stream_chacha20_ietf_xor_ic(out.data(), m.data(), c.len, nonce.data(), (uint32_t) c.ic, key.data());
        _exit(r == 0 ? 0 : 7);
    }
    int st = 0; waitpid(pid, &st, 0);
    if (WIFEXITED(st) && WEXITSTATUS(st) == 42) return true;
    char b[200];
    snprintf(b, sizeof b, "%s(ic=%llu, len=%zu) would pass block counter 2^32 but was not refused via the misuse handler (child status 0x%x)", c.form == 1 ? "crypto_stream_chacha20_ietf" : c.form == 2 ? "crypto_stream_chacha20_ietf_xor" : "crypto_stream_chacha20_ietf_xor_ic", (unsigned long long) c.ic, c.len, st);
    msg = b; return false;
}
void explore_misuse(Ctx &ctx) {
    auto masks = masks_for_streams();
    uint64_t idx = 0;
    // length claims beyond the 2^38-byte IETF maximum, through all three entry points
    const uint64_t MAXB = 64ULL << 32;
    for (int form = 1; form <= 3; form++)
        for (uint64_t over : { 1ULL, 2ULL, 63ULL, 64ULL, 65ULL, 1ULL << 20, 1ULL << 40 }) {
            if (!ctx.mine(idx++)) continue;
            MisuseCase c{ 0, (size_t) (MAXB + over), masks[(size_t) (over + (uint64_t) form) % masks.size()] }; c.form = form;
            exec_case(ctx, c, run_misuse, mix64(mix64(form, over), 0x1e7f), true);
            if (form == 3) { MisuseCase d{ over > 1000 ? 1000 : over, (size_t) (MAXB - 63), masks[0] }; d.form = 3; exec_case(ctx, d, run_misuse, mix64(mix64(form, over), 0x1e80), true); }   // fits by length, not from this counter
        }
    for (size_t len : { 1u, 64u, 65u, 128u, 129u, 500u, 1024u, 4096u })
        for (uint64_t over : { 1u, 2u, 17u }) {
            uint64_t blocks = (len + 63) / 64, ic = 0x100000000ULL - blocks + over;
            if (ic > 0xffffffffULL) continue;
            if (!ctx.mine(idx++)) continue;
            for (size_t mi = 0; mi < masks.size(); mi++) {
                MisuseCase c{ ic, len, masks[mi] };
                exec_case(ctx, c, run_misuse, mix64(mix64(ic, len), masks[mi]), true);
            }
        }
}

// ------------------------------------------------------------------ core functions
struct CoreCase {
    int which; Bytes in, key, constant; bool use_const;   // 0 hchacha20, 1 hsalsa20, 2 salsa20, 3 salsa2012, 4 salsa208
    KV kv() const { KV k; k.s("kind", "core").u("which", which).b("in", in).b("key", key).b("const", constant).u("use_const", use_const); return k; }
};
bool run_core(const CoreCase &c, std::string &msg) {
    XBuf in(c.in, 1), key(c.key, 2), cst(c.constant, 3);
    const uint8_t *cp = c.use_const ? cst.p : nullptr;
    ref::Bytes want; size_t outlen = c.which < 2 ? 32 : 64;
    XBuf out(outlen, 5);
    int r;
    switch (c.which) {
    case 0: r = crypto_core_hchacha20(out.p, in.p, key.p, cp); want = ref::hchacha20(c.key, c.in, c.use_const ? c.constant : Bytes()); break;
    case 1: r = crypto_core_hsalsa20(out.p, in.p, key.p, cp); want = ref::hsalsa20(c.in, c.key, c.use_const ? c.constant : Bytes()); break;
    case 2: r = crypto_core_salsa20(out.p, in.p, key.p, cp); want = ref::salsa_core(c.in, c.key, c.use_const ? c.constant : Bytes(), 20); break;
    case 3: r = crypto_core_salsa2012(out.p, in.p, key.p, cp); want = ref::salsa_core(c.in, c.key, c.use_const ? c.constant : Bytes(), 12); break;
    default: r = crypto_core_salsa208(out.p, in.p, key.p, cp); want = ref::salsa_core(c.in, c.key, c.use_const ? c.constant : Bytes(), 8); break;
    }
    if (r != 0) { msg = "core returned non-zero"; return false; }
    if (out.get() != want) { msg = "core function " + std::to_string(c.which) + " differs from the specification"; return false; }
    return true;
}
void explore_core(Ctx &ctx) {
    Rng r = ctx.wrng("c03-core");
    size_t n = (ctx.thorough() ? 40000 : 6000) / (size_t) ctx.nworkers + 1;
    for (size_t i = 0; i < n; i++) {
        int cls = (int) r.below(6);
        CoreCase c{ (int) r.below(5), r.bytes_class(16, cls < 5 ? 0 : (int) r.below(5)), r.bytes_class(32, cls < 4 ? 0 : (int) r.below(5)), r.bytes(16), (bool) r.coin() };
        exec_case(ctx, c, run_core, mix64(mix64(c.which, c.use_const), r.next()), true);
    }
}

bool replay(const KV &k, std::string &msg) {
    if (k.gs("kind") == "ietf_misuse") { MisuseCase c{ k.gu("ic"), (size_t) k.gu("len"), (unsigned long) k.gu("mask") }; c.form = k.has("form") ? (int) k.gu("form") : 0; return run_misuse(c, msg); }
    if (k.gs("kind") == "giant") { GiantCase c{ (int) k.gu("cipheri"), (int) k.gu("formi"), (size_t) k.gu("len"), k.gu("ic"), (unsigned long) k.gu("mask") }; return run_giant(c, msg); }
    if (k.gs("kind") == "core") { CoreCase c{ (int) k.gu("which"), k.gb("in"), k.gb("key"), k.gb("const"), k.gu("use_const") != 0 }; return run_core(c, msg); }
    Case c = Case::from(k); return run(c, msg);
}

}  // namespace

std::vector<Sub> vh_subs() {
    return {
        { "lengths", explore_lengths, replay },
        { "counters", explore_counters, replay },
        { "long_requests", explore_long, replay },
        { "giant_requests", explore_giant, replay },
        { "ietf_misuse", explore_misuse, replay },
        { "core", explore_core, replay },
    };
}
