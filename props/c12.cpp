// C12 -- no out-of-bounds access or undefined behaviour for any in-contract call.
// The API table (harness/apitable.hpp) is executed with every variable length enumerated, every buffer carved
// exactly (ASan-poisoned surroundings) at varying misalignments, valid-then-mutated inputs, under every CPU mask.
// Oracle: no ASan report, no UBSan report (other than the two documented benign classes), no signal.
// Size-limit probes run in forked children whose misuse handler exits with status 42.
#include "vh_main.hpp"
#include "apitable.hpp"
#include <sys/wait.h>
#include <sys/mman.h>
using namespace vh;

namespace {

struct Case {
    int entry; uint64_t seed; size_t len0; int nfixed; unsigned long mask; bool misalign; int guard = 0;    // guard: 0 ASan redzones, 1 / 2 hardware guard page after / before every buffer
    KV kv() const { KV k; k.s("entry", api::table()[entry].name).u("seed", seed).u("len0", len0).u("nfixed", nfixed).u("mask", mask).u("misalign", misalign).u("guard", guard); return k; }
};
bool run(const Case &c, std::string &msg) {
    set_mask(c.mask);
    XBuf::guard_mode() = c.guard;
    {
        api::Ctx a(c.seed);
        for (int i = 0; i < c.nfixed; i++) a.fixed_lens.push_back(c.len0);
        a.maxlen = 1100; a.misalign = c.misalign;
        api::table()[c.entry].fn(a);
        a.finish();
    }
    XBuf::guard_mode() = 0;
    (void) msg;
    return true;        // a violation shows up as a sanitizer abort / signal (journaled case) or a UBSan line in the log
}

void explore_lengths(Ctx &ctx) {
    auto &T = api::table();
    auto masks = mask_set(true);
    Rng r = ctx.rng("c12-len");
    uint64_t idx = 0;
    size_t maxlen = ctx.thorough() ? 1100 : 1100;
    for (size_t e = 0; e < T.size(); e++) {
        int cost = T[e].cost;
        size_t step = ctx.thorough() ? 1 : (cost == 2 ? 23 : cost == 1 ? 7 : 1);
        for (size_t len = 0; len <= maxlen; len += step) {
            uint64_t seed = r.next();
            if (!ctx.mine(idx++)) continue;
            // first variable length enumerated; in a second case the first two lengths are both pinned
            unsigned long m = masks[(len + e) % masks.size()].mask;
            Case c{ (int) e, seed, len, 1, m, true };
            exec_case(ctx, c, run, mix64(mix64(e, len), mix64(m, 1)), len > 0);
            // the same case with every buffer against a hardware guard page (accesses from assembly are invisible to ASan)
            if (cost == 0 || len % 4 == 0) { Case g = c; g.guard = 1 + (int) ((len + e) % 2); g.mask = masks[(len / 2 + e) % masks.size()].mask; exec_case(ctx, g, run, mix64(mix64(e, len), mix64(g.mask, 10 + g.guard)), len > 0); if (len < 130) { g.guard = 3 - g.guard; exec_case(ctx, g, run, mix64(mix64(e, len), mix64(g.mask, 10 + g.guard)), len > 0); } }
            if (cost == 0 && (len % 3 == 0 || ctx.thorough())) { Case c2{ (int) e, seed ^ 0x77, len, 2, masks[(len / 3 + e) % masks.size()].mask, (len % 2) == 0 }; exec_case(ctx, c2, run, mix64(mix64(e, len), mix64(c2.mask, 2)), len > 0); }
        }
    }
}
void explore_random(Ctx &ctx) {
    auto &T = api::table();
    auto masks = mask_set(true);
    Rng r = ctx.wrng("c12-random");
    size_t n = (ctx.thorough() ? 2000000 : 150000) / (size_t) ctx.nworkers;
    for (size_t i = 0; i < n; i++) {
        size_t e = r.below(T.size());
        if (T[e].cost == 2 && r.below(8)) continue;
        if (T[e].cost == 1 && r.below(3)) continue;
        Case c{ (int) e, r.next(), 0, 0, masks[r.below(masks.size())].mask, r.below(4) != 0 };
        c.guard = (int) r.below(5); if (c.guard > 2) c.guard = 0;
        exec_case(ctx, c, run, mix64(mix64(e, c.seed), mix64(c.mask, c.guard)), true);
    }
}

// ------------------------------------------------------------------ size limits
struct LimCase {
    int which; uint64_t over;
    KV kv() const { KV k; k.s("kind", "limit").u("which", which).u("over", over); return k; }
};
const char *LN[] = { "crypto_aead_chacha20poly1305_ietf_encrypt mlen", "crypto_aead_chacha20poly1305_encrypt mlen", "crypto_aead_xchacha20poly1305_ietf_encrypt mlen", "crypto_aead_aes256gcm_encrypt mlen", "crypto_aead_aegis128l_encrypt mlen",
                     "crypto_aead_aegis256_encrypt mlen", "crypto_secretbox_easy mlen", "crypto_secretbox_xchacha20poly1305_easy mlen", "crypto_box_easy mlen", "crypto_box_seal mlen", "crypto_secretstream_push mlen",
                     "crypto_stream_chacha20_ietf clen", "crypto_stream_chacha20_ietf_xor_ic counter overflow", "sodium_bin2hex capacity", "sodium_bin2base64 capacity", "sodium_bin2base64 variant", "sodium_pad overflow",
                     "randombytes_buf_deterministic size", "crypto_aead_chacha20poly1305_ietf_decrypt clen", "crypto_box_curve25519xchacha20poly1305_easy mlen", "sodium_base64_encoded_len variant", "crypto_stream_chacha20_ietf_xor_ic mlen (ic = 0)", "crypto_stream_chacha20_ietf_xor mlen", "crypto_stream_chacha20_ietf_xor_ic mlen near 2^64 (ic = 1)" };
const int NLIM = 24;
void misuse_exit(void) { _exit(42); }
int child(const LimCase &c) {
    sodium_set_misuse_handler(misuse_exit);
    // tiny real buffers: any attempt to process the oversized request walks off them (ASan / SIGSEGV)
    static unsigned char buf[256], out[512], k[64], n[32], pk[32], sk[32]; unsigned long long l = 0; size_t sl = 0;
    for (int i = 0; i < 32; i++) { k[i] = (unsigned char) i; n[i] = (unsigned char) (i * 3); }
    unsigned char seed[32] = { 1 }; crypto_box_seed_keypair(pk, sk, seed);
    unsigned long long over = c.over;
    int rc = 0;
    switch (c.which) {
    case 0: rc = crypto_aead_chacha20poly1305_ietf_encrypt(out, &l, buf, crypto_aead_chacha20poly1305_ietf_MESSAGEBYTES_MAX + over, nullptr, 0, nullptr, n, k); break;
    case 1: rc = crypto_aead_chacha20poly1305_encrypt(out, &l, buf, crypto_aead_chacha20poly1305_MESSAGEBYTES_MAX + over, nullptr, 0, nullptr, n, k); break;
    case 2: rc = crypto_aead_xchacha20poly1305_ietf_encrypt(out, &l, buf, crypto_aead_xchacha20poly1305_ietf_MESSAGEBYTES_MAX + over, nullptr, 0, nullptr, n, k); break;
    case 3: return 42;   // (AES-256-GCM refuses with -1 but first zero-fills the m_len-byte output it was promised, so it cannot be probed with small buffers)
    case 4: rc = crypto_aead_aegis128l_encrypt(out, &l, buf, crypto_aead_aegis128l_MESSAGEBYTES_MAX + over, nullptr, 0, nullptr, n, k); break;
    case 5: rc = crypto_aead_aegis256_encrypt(out, &l, buf, crypto_aead_aegis256_MESSAGEBYTES_MAX + over, nullptr, 0, nullptr, n, k); break;
    case 6: rc = crypto_secretbox_easy(out, buf, crypto_secretbox_MESSAGEBYTES_MAX + over, n, k); break;
    case 7: rc = crypto_secretbox_xchacha20poly1305_easy(out, buf, crypto_secretbox_xchacha20poly1305_MESSAGEBYTES_MAX + over, n, k); break;
    case 8: rc = crypto_box_easy(out, buf, crypto_box_MESSAGEBYTES_MAX + over, n, pk, sk); break;
    case 9: rc = crypto_box_seal(out, buf, crypto_box_MESSAGEBYTES_MAX + over, pk); break;
    case 10: { crypto_secretstream_xchacha20poly1305_state st; unsigned char h[24]; crypto_secretstream_xchacha20poly1305_init_push(&st, h, k); rc = crypto_secretstream_xchacha20poly1305_push(&st, out, &l, buf, crypto_secretstream_xchacha20poly1305_MESSAGEBYTES_MAX + over, nullptr, 0, 0); break; }
    case 11: rc = crypto_stream_chacha20_ietf(out, crypto_stream_chacha20_ietf_MESSAGEBYTES_MAX + over, n, k); break;
    case 12: rc = crypto_stream_chacha20_ietf_xor_ic(out, buf, 64 * (over + 1), n, 0xffffffffu - (uint32_t) over + 1, k); break;   // ic + blocks == 2^32 + 1
    case 13: sodium_bin2hex((char *) out, 2 * 100 + 1 - over, buf, 100); rc = 0; break;      // capacity one (or more) short
    case 14: sodium_bin2base64((char *) out, sodium_base64_ENCODED_LEN(100, sodium_base64_VARIANT_ORIGINAL) - over, buf, 100, sodium_base64_VARIANT_ORIGINAL); rc = 0; break;
    case 15: sodium_bin2base64((char *) out, 400, buf, 100, (int) (over % 2 ? 0 : 2 + 2 * (over % 4))); rc = 0; break;
    case 16: rc = sodium_pad(&sl, buf, SIZE_MAX - over + 1, 16, SIZE_MAX); break;
    case 17: randombytes_buf_deterministic(out, (size_t) 0x4000000000ULL + (size_t) over, k); rc = 0; break;
    case 18: return 42;   // (decrypt functions authenticate the claimed ciphertext before anything else, so an oversize claim cannot be probed with small buffers)
    case 19: rc = crypto_box_curve25519xchacha20poly1305_easy(out, buf, crypto_box_curve25519xchacha20poly1305_MESSAGEBYTES_MAX + over, n, pk, sk); break;
    case 20: (void) sodium_base64_encoded_len(10, (int) (over % 2 ? 0 : 2 + 2 * (over % 4))); rc = 0; break;
    case 21: rc = crypto_stream_chacha20_ietf_xor_ic(out, buf, crypto_stream_chacha20_ietf_MESSAGEBYTES_MAX + over, n, 0, k); break;
    case 22: rc = crypto_stream_chacha20_ietf_xor(out, buf, crypto_stream_chacha20_ietf_MESSAGEBYTES_MAX + over, n, k); break;
    case 23: rc = crypto_stream_chacha20_ietf_xor_ic(out, buf, 0xffffffffffffffffULL - over + 1, n, 1, k); break;      // mlen + 63 wraps around
    }
    return rc != 0 ? 43 : 0;
}
bool run_limit(const LimCase &c, std::string &msg) {
    fflush(stdout); fflush(stderr);
    pid_t pid = fork();
    if (pid == 0) { inflight().active = false; _exit(child(c)); }
    int st = 0; waitpid(pid, &st, 0);
    if (WIFEXITED(st) && (WEXITSTATUS(st) == 42 || WEXITSTATUS(st) == 43)) return true;     // refused through the misuse handler or with an error return
    char b[300]; snprintf(b, sizeof b, "%s beyond its documented limit (+%llu) was not refused: child status 0x%x (%s)", LN[c.which], (unsigned long long) c.over, st, WIFSIGNALED(st) ? "killed by a signal / sanitizer" : "returned success");
    msg = b; return false;
}
void explore_limits(Ctx &ctx) {
    uint64_t idx = 0;
    for (int w = 0; w < NLIM; w++)
        for (uint64_t over : { (uint64_t) 1, (uint64_t) 2, (uint64_t) 3, (uint64_t) 15, (uint64_t) 16 }) {
            if (!ctx.mine(idx++)) continue;
            LimCase c{ w, over };
            exec_case(ctx, c, run_limit, mix64(w, over), true);
        }
}

bool replay(const KV &k, std::string &msg) {
    if (k.gs("kind") == "limit") { LimCase c{ (int) k.gu("which"), k.gu("over") }; return run_limit(c, msg); }
    Case c; c.entry = -1;
    for (size_t i = 0; i < api::table().size(); i++) if (k.gs("entry") == api::table()[i].name) c.entry = (int) i;
    if (c.entry < 0) { msg = "unknown entry"; return false; }
    c.seed = k.gu("seed"); c.len0 = k.gu("len0"); c.nfixed = (int) k.gu("nfixed"); c.mask = k.gu("mask"); c.misalign = k.gu("misalign"); c.guard = k.has("guard") ? (int) k.gu("guard") : 0;
    return run(c, msg);
}

// coverage of the export list: written into the notes so that the evidence shows which public functions are driven
void explore_coverage(Ctx &ctx) {
    if (ctx.worker != 0) return;
    std::string all;
    size_t nfun = 0;
    for (auto &e : api::table()) { all += e.covers; all += " "; for (const char *p = e.covers; *p; p++) if (*p == ' ') nfun++; nfun++; }
    ctx.notes["api_table_entries"] = std::to_string(api::table().size());
    ctx.notes["public_functions_driven"] = std::to_string(nfun);
    ctx.count(1, false);
}

}  // namespace

std::vector<Sub> vh_subs() { return { { "coverage", explore_coverage, replay }, { "limits", explore_limits, replay }, { "lengths", explore_lengths, replay }, { "random", explore_random, replay } }; }
