// C11, second monitor: the same operations on a gcc -O2 build under valgrind memcheck, with the secret bytes marked
// UNDEFINED.  memcheck reports every conditional jump / address computation that depends on undefined data, so one
// execution covers all secret values along its path, and hand-written assembly is visible too.
// Usage: c11vg <seed> <quick|thorough>   (run under valgrind by the driver)
#define CT_VALGRIND_OPS 1
#include "c11ops.hpp"
#include <valgrind/memcheck.h>
#include <cstdio>
#include <cstdlib>

extern "C" int sodium_verif_set_cpu_mask(unsigned long mask);

static uint64_t sm(uint64_t &s) { uint64_t z = (s += 0x9e3779b97f4a7c15ULL); z = (z ^ (z >> 30)) * 0xbf58476d1ce4e5b9ULL; z = (z ^ (z >> 27)) * 0x94d049bb133111ebULL; return z ^ (z >> 31); }

int main(int argc, char **argv) {
    uint64_t seed = argc > 1 ? strtoull(argv[1], nullptr, 10) : 1; bool thorough = argc > 2 && argv[2][0] == 't';
    std::string only = argc > 3 ? argv[3] : "";
    if (sodium_init() < 0) return 2;
    const auto &O = ct::ops();
    static const size_t PL[] = { 0, 1, 8, 12, 16, 24, 33, 64, 65, 128, 257, 600 };
    unsigned long masks[] = { 1023, 1023 & ~96UL, 0 };
    long ran = 0;
    for (unsigned long mask : masks) {
        sodium_verif_set_cpu_mask(mask);
        for (size_t oi = 0; oi < O.size(); oi++) {
            const ct::Op &op = O[oi]; std::string nm = op.name, kind = op.secret_kind;
            // identity-result errors are public by the property: these functions branch on "result is the identity" at the end
            if (nm.find("scalarmult_ed25519") != std::string::npos || nm.find("scalarmult_ristretto255") != std::string::npos) continue;
            // sodium_pad is not in the property's list; memcheck's approximate carry tracking cannot see that only the in-block offset is secret
            if (nm.compare(0, 10, "sodium_pad") == 0) continue;
            { size_t colon = kind.find(':'); if (colon != std::string::npos) kind = kind.substr(0, colon); }       // "padpos:24": same preparation, the operation itself carries the block size
            if (kind == "padpos" && nm != "sodium_unpad") continue;                                                 // the preparation below places the marker for 16-byte blocks only
            if (!only.empty() && nm != only) continue;
            if (op.needs_aesni && !(sodium_runtime_has_aesni() && sodium_runtime_has_avx() && sodium_runtime_has_pclmul())) continue;
            for (size_t pl : PL) {
                if (pl > op.max_publen) continue;
                if (op.max_publen == 0 && pl != 0) continue;
                size_t publen = pl;
                if (kind == "padpos") publen = 16 + pl / 16 * 16;
                if (kind == "padlen") publen = pl / 16 * 16;
                bool slow = kind == "scalar" || kind == "seed";
                if (slow && pl > 64 && !thorough) continue;
                if (!thorough && mask != 1023 && pl > 128) continue;
                size_t sl = op.secret_len(publen);
                for (size_t i = 0; i < sizeof ct::B().pub; i++) ct::B().pub[i] = (unsigned char) sm(seed);
                unsigned char sc[32]; for (int i = 0; i < 32; i++) sc[i] = (unsigned char) sm(seed); sc[31] &= 0x0f; sc[0] |= 1;
                crypto_scalarmult_ed25519_base_noclamp(ct::B().pub + 64, sc); crypto_scalarmult_ristretto255_base(ct::B().pub + 96, sc); ct::B().pub[31] &= 0x7f;
                memset(ct::B().secret, 0, sizeof ct::B().secret);
                for (size_t i = 0; i < sl; i++) ct::B().secret[i] = (unsigned char) sm(seed);
                if (kind == "scalar") { ct::B().secret[31] &= 0x0f; ct::B().secret[0] |= 1; }
                if (kind == "padpos") { size_t p = sm(seed) % 16; for (size_t k = publen - 16 + p; k < publen; k++) ct::B().secret[k] = 0; ct::B().secret[publen - 16 + p] = 0x80; }
                ct::pad_ul() = publen + sm(seed) % 16;
                fprintf(stderr, "OP %s publen=%zu mask=%lx\n", op.name, publen, mask); fflush(stderr);
                VALGRIND_MAKE_MEM_UNDEFINED(ct::B().secret, sl ? sl : 1);
                if (kind == "padlen") VALGRIND_MAKE_MEM_UNDEFINED(&ct::pad_ul(), sizeof(size_t));
                op.run(publen);
                VALGRIND_MAKE_MEM_DEFINED(&ct::B(), sizeof(ct::Bufs));
                VALGRIND_MAKE_MEM_DEFINED(&ct::pad_ul(), sizeof(size_t));
                ran++;
            }
        }
    }
    fprintf(stderr, "VG-DONE ran=%ld\n", ran);
    return 0;
}
