// C07 -- Edwards25519 / Ristretto255 group and scalar arithmetic are exact and validated; hash-to-group maps.
// Oracle: exact integer arithmetic (ref/bigint.hpp, ed25519.hpp, ristretto255.hpp, h2c.hpp).
#include "vh_main.hpp"
#include "giant.hpp"
#include "vh_rc.hpp"
#include "h2c.hpp"
using namespace vh;
using ref::U; using ref::Pt;

namespace {

inline const uint8_t *D(const Bytes &b) { static uint8_t z[8]; return b.empty() ? z : b.data(); }
inline uint8_t *D(Bytes &b) { static uint8_t z[8]; return b.empty() ? z : b.data(); }
#define FAIL(...) do { char b_[500]; snprintf(b_, sizeof b_, __VA_ARGS__); msg = b_; return false; } while (0)

// ------------------------------------------------------------------ Edwards25519 points
enum EdOp { E_VALID, E_ADD, E_SUB, E_MULT, E_MULT_NOCLAMP, E_BASE, E_BASE_NOCLAMP, E_FROM_UNIFORM, NEDOP };
const char *EON[] = { "is_valid_point", "add", "sub", "scalarmult", "scalarmult_noclamp", "scalarmult_base", "scalarmult_base_noclamp", "from_uniform" };
struct EdCase {
    int op; Bytes p, q, n; std::string pc, qc, nc;
    KV kv() const { KV k; k.s("kind", "ed").s("op", EON[op]).b("p", p).b("q", q).b("n", n).s("pclass", pc).s("qclass", qc).s("nclass", nc); return k; }
};

// full model classification of a 32-byte encoding
struct EncInfo { bool decodes, canonical, strict; Pt pt; int order_class; };
EncInfo classify(const Bytes &e) {
    EncInfo i; ref::Dec d = ref::pt_decode_ex(e);
    i.decodes = d.ok_lenient; i.canonical = !d.y_noncanonical && !d.neg_zero; i.strict = d.ok_strict(); i.pt = d.p;
    i.order_class = i.decodes ? ref::pt_order_class(d.p) : 0;
    return i;
}
U scalar_value(const Bytes &n, bool clamp) { Bytes t = n; if (clamp) { t[0] &= 248; t[31] |= 64; } t[31] &= 127; return ref::u_from_le(t); }
bool all_zero(const Bytes &b) { for (auto x : b) if (x) return false; return true; }

bool run_ed(const EdCase &c, std::string &msg) {
    set_mask(F_ALL);
    EncInfo P = classify(c.p);
    switch (c.op) {
    case E_VALID: {
        XBuf pb(c.p, 1);
        int r = crypto_core_ed25519_is_valid_point(pb.p);
        bool want = P.decodes && P.canonical && P.order_class == 101;     // canonical encoding of a point of order exactly L
        if ((r != 0) != want) FAIL("crypto_core_ed25519_is_valid_point returned %d for an encoding that %s (decodes=%d canonical=%d order-class=%d [101 = prime order L, 100+t = order t*L, t = small order])", r,
                                   want ? "IS the canonical encoding of a prime-order point" : "is NOT the canonical encoding of a prime-order point", P.decodes, P.canonical, P.order_class);
        return true;
    }
    case E_ADD: case E_SUB: {
        EncInfo Q = classify(c.q);
        XBuf pb(c.p, 1), qb(c.q, 2), rb(32, 3);
        int r = c.op == E_ADD ? crypto_core_ed25519_add(rb.p, pb.p, qb.p) : crypto_core_ed25519_sub(rb.p, pb.p, qb.p);
        if (!P.decodes || !Q.decodes) { if (r != -1) FAIL("crypto_core_ed25519_%s accepted an encoding that is not on the curve", EON[c.op]); return true; }
        bool both_canon = P.canonical && Q.canonical;
        if (r != 0) { if (both_canon) FAIL("crypto_core_ed25519_%s rejected two canonical on-curve points", EON[c.op]); return true; }   // aliases may be rejected
        Bytes want = ref::pt_encode(c.op == E_ADD ? ref::pt_add(P.pt, Q.pt) : ref::pt_sub(P.pt, Q.pt));
        if (rb.get() != want) { msg = std::string("crypto_core_ed25519_") + EON[c.op] + ": result is not the canonical encoding of the exact sum/difference: got " + hex(rb.get()) + " want " + hex(want); return false; }
        return true;
    }
    case E_MULT: case E_MULT_NOCLAMP: {
        XBuf pb(c.p, 1), nb(c.n, 2), qb(32, 3);
        int r = c.op == E_MULT ? crypto_scalarmult_ed25519(qb.p, nb.p, pb.p) : crypto_scalarmult_ed25519_noclamp(qb.p, nb.p, pb.p);
        bool valid = P.decodes && P.canonical && P.order_class == 101;
        if (!valid) { if (r != -1) FAIL("crypto_scalarmult_ed25519%s accepted a point that is not the canonical encoding of a prime-order point (decodes=%d canonical=%d order-class=%d)", c.op == E_MULT ? "" : "_noclamp", P.decodes, P.canonical, P.order_class); return true; }
        Pt Qm = ref::pt_mul(scalar_value(c.n, c.op == E_MULT), P.pt);
        bool ident = ref::pt_is_identity(Qm);
        if (ident || all_zero(c.n)) { if (r != -1) FAIL("crypto_scalarmult_ed25519%s returned %d although the result is the identity / the scalar is zero", c.op == E_MULT ? "" : "_noclamp", r); return true; }
        if (r != 0 || qb.get() != ref::pt_encode(Qm)) { msg = std::string("crypto_scalarmult_ed25519") + (c.op == E_MULT ? "" : "_noclamp") + ": rc=" + std::to_string(r) + " got " + hex(qb.get()) + " want " + hex(ref::pt_encode(Qm)); return false; }
        return true;
    }
    case E_BASE: case E_BASE_NOCLAMP: {
        XBuf nb(c.n, 2), qb(32, 3);
        int r = c.op == E_BASE ? crypto_scalarmult_ed25519_base(qb.p, nb.p) : crypto_scalarmult_ed25519_base_noclamp(qb.p, nb.p);
        Pt Qm = ref::pt_mul(scalar_value(c.n, c.op == E_BASE), ref::ED_B());
        if (ref::pt_is_identity(Qm) || all_zero(c.n)) { if (r != -1) FAIL("crypto_scalarmult_ed25519_base%s returned %d although the result is the identity / the scalar is zero", c.op == E_BASE ? "" : "_noclamp", r); return true; }
        if (r != 0 || qb.get() != ref::pt_encode(Qm)) { msg = std::string("crypto_scalarmult_ed25519_base") + (c.op == E_BASE ? "" : "_noclamp") + " differs from exact arithmetic"; return false; }
        return true;
    }
    case E_FROM_UNIFORM: {
        XBuf rb(c.p, 1), ob(32, 2);
        if (crypto_core_ed25519_from_uniform(ob.p, rb.p) != 0) FAIL("from_uniform failed");
        EncInfo O = classify(ob.get());
        if (!O.strict || !ref::pt_in_prime_subgroup(O.pt)) FAIL("crypto_core_ed25519_from_uniform output is not a canonical encoding of a point in the prime-order subgroup");
        return true;
    }
    }
    return true;
}

// generators (rapidcheck) -- model-generated points of known order
Bytes gen_bytes(size_t n) { return *rc::gen::container<Bytes>(n, rc::gen::arbitrary<uint8_t>()); }
std::vector<Bytes> alias_encodings(const Pt &t) {
    std::vector<Bytes> v; Bytes e = ref::pt_encode(t);
    U y = ref::fp_red(t.y);
    if (ref::u_cmp(y, U(19)) < 0) { Bytes a = ref::u_to_le(ref::u_add(y, ref::P25519()), 32); a[31] |= (e[31] & 0x80); v.push_back(a); if (ref::u_is_zero(ref::fp_red(t.x))) { Bytes b2 = a; b2[31] ^= 0x80; v.push_back(b2); } }
    if (ref::u_is_zero(ref::fp_red(t.x))) { Bytes b2 = e; b2[31] ^= 0x80; v.push_back(b2); }
    return v;
}
Pt gen_prime_point() { U k = ref::sc_reduce(ref::u_from_le(gen_bytes(40))); if (ref::u_is_zero(k)) k = U(1); return ref::pt_mul(k, ref::ED_B()); }
bool g_known_2L = false;     // known finding "ed25519-order-2L": P + (0,-1) is excluded from the ops that validate the order
Bytes gen_ed_encoding(std::string &cls, bool validating = false) {
    int k = *rc::gen::weightedElement<int>({ { 6, 0 }, { 4, 1 }, { 2, 2 }, { 2, 3 }, { 2, 4 }, { 2, 5 }, { 1, 6 }, { 1, 7 }, { 2, 8 } });
    const auto &T = ref::torsion_points();
    switch (k) {
    case 0: cls = "prime-order"; return ref::pt_encode(gen_prime_point());
    case 1: { int t = *rc::gen::inRange(1, 8); if (g_known_2L && validating && t == 4) t = 5; cls = "prime+torsion" + std::to_string(t); return ref::pt_encode(ref::pt_add(gen_prime_point(), T[t])); }
    case 2: { cls = "torsion"; return ref::pt_encode(T[*rc::gen::inRange(0, 8)]); }
    case 3: { cls = "torsion-alias"; std::vector<Bytes> all; for (auto &t : T) for (auto &a : alias_encodings(t)) all.push_back(a); return *rc::gen::elementOf(all); }
    case 4: { cls = "random-bytes"; Bytes e = gen_bytes(32); if (g_known_2L && validating) { EncInfo i = classify(e); if (i.decodes && i.order_class == 102) e[0] ^= 1; i = classify(e); if (i.decodes && i.order_class == 102) e = Bytes(32, 0x55); } return e; }
    case 5: { cls = "y>=p"; Bytes e = ref::u_to_le(ref::u_add(U((uint64_t) *rc::gen::inRange(0, 19)), ref::P25519()), 32); if (*rc::gen::inRange(0, 2)) e[31] |= 0x80; return e; }
    case 6: { cls = "small-y"; Bytes e = ref::u_to_le(U((uint64_t) *rc::gen::inRange(0, 64)), 32); if (*rc::gen::inRange(0, 2)) e[31] |= 0x80;
              if (g_known_2L && validating) { EncInfo i = classify(e); if (i.decodes && i.order_class == 102) { e = ref::u_to_le(U(4), 32); } }   // y=9, 17, .. have order 2L
              return e; }
    case 8: { cls = "single-byte-y"; Bytes e(32, 0); int pos = *rc::gen::weightedElement<int>({ { 5, 31 }, { 2, 30 }, { 1, 0 }, { 1, 15 }, { 1, 16 } }); if (*rc::gen::inRange(0, 4) == 0) pos = *rc::gen::inRange(0, 32);
              e[(size_t) pos] = (uint8_t) *rc::gen::inRange(1, 256); if (*rc::gen::inRange(0, 3) == 0) e[0] |= 1;
              if (g_known_2L && validating) { EncInfo i = classify(e); if (i.decodes && i.order_class == 102) e[(size_t) pos] ^= 0x02; i = classify(e); if (i.decodes && i.order_class == 102) e = ref::u_to_le(U(4), 32); }
              return e; }
    default: { cls = "prime-order-signflip"; Bytes e = ref::pt_encode(gen_prime_point()); e[31] ^= 0x80; return e; }   // -P: still prime order
    }
}
Bytes gen_scalar(std::string &cls) {
    int k = *rc::gen::weightedElement<int>({ { 6, 0 }, { 1, 1 }, { 1, 2 }, { 3, 3 }, { 2, 4 }, { 2, 5 }, { 1, 6 }, { 2, 7 } });
    U L = ref::L25519();
    auto enc = [](const U &v) { return ref::u_to_le(v, 32); };
    switch (k) {
    case 0: cls = "random"; return gen_bytes(32);
    case 1: cls = "zero"; return Bytes(32, 0);
    case 2: cls = "one"; { Bytes b(32, 0); b[0] = 1; return b; }
    case 3: { int d = *rc::gen::inRange(-3, 4); cls = "L" + std::string(d >= 0 ? "+" : "") + std::to_string(d); return enc(d >= 0 ? ref::u_add(L, U((uint64_t) d)) : ref::u_sub(L, U((uint64_t) -d))); }
    case 4: { int m = *rc::gen::inRange(1, 16); cls = "k*L"; U v = ref::u_mul_small(L, (uint64_t) m); int d = *rc::gen::inRange(-1, 2); v = d >= 0 ? ref::u_add(v, U((uint64_t) d)) : ref::u_sub(v, U(1)); if (ref::u_bitlen(v) > 256) v = L; return enc(v); }
    case 5: { int e = *rc::gen::element(252, 253, 254, 255); int d = *rc::gen::inRange(-3, 4); cls = "2^" + std::to_string(e) + "+-k"; U v = ref::u_shl(U(1), e); v = d >= 0 ? ref::u_add(v, U((uint64_t) d)) : ref::u_sub(v, U((uint64_t) -d)); return enc(v); }
    case 6: cls = "all-ones"; return Bytes(32, 0xff);
    default: { cls = "clamp-bits"; Bytes b = gen_bytes(32); int pat = *rc::gen::inRange(0, 32); b[0] = (uint8_t) ((b[0] & 0xf8) | (pat & 7)); b[31] = (uint8_t) ((b[31] & 0x3f) | ((pat >> 3) << 6)); return b; }
    }
}
void explore_ed(Ctx &ctx) {
    g_known_2L = ctx.is_known("ed25519-order-2L");
    rc_explore<EdCase>(ctx, "c07-ed", ctx.thorough() ? 200000 : 16000, 100, [&]() {
        EdCase c; c.op = *rc::gen::weightedElement<int>({ { 5, E_VALID }, { 3, E_ADD }, { 2, E_SUB }, { 4, E_MULT }, { 4, E_MULT_NOCLAMP }, { 1, E_BASE }, { 2, E_BASE_NOCLAMP }, { 1, E_FROM_UNIFORM } });
        if (c.op == E_FROM_UNIFORM) { c.p = gen_bytes(32); if (*rc::gen::inRange(0, 6) == 0) c.p = Bytes(32, (uint8_t) *rc::gen::element(0, 0xff)); c.pc = "uniform"; }
        else c.p = gen_ed_encoding(c.pc, c.op == E_VALID || c.op == E_MULT || c.op == E_MULT_NOCLAMP);
        if (c.op == E_ADD || c.op == E_SUB) { c.q = gen_ed_encoding(c.qc); if (*rc::gen::inRange(0, 8) == 0) { c.q = c.p; c.qc = "same"; } }
        if (c.op >= E_MULT && c.op <= E_BASE_NOCLAMP) c.n = gen_scalar(c.nc);
        ctx.cls("ed:" + std::string(EON[c.op])); ctx.cls("ed-point:" + c.pc); if (!c.nc.empty()) ctx.cls("scalar:" + c.nc);
        return c;
    }, run_ed, [](const EdCase &c) { return mix64(mix64(c.op, hash_bytes(c.p.data(), c.p.size())), mix64(hash_bytes(c.q.data(), c.q.size()), hash_bytes(c.n.data(), c.n.size()))); },
       [](const EdCase &c) { return c.pc != "random-bytes" || !c.nc.empty(); });
}
// deterministic: every torsion point and alias, prime+each torsion, through every predicate
void explore_ed_sweep(Ctx &ctx) {
    Rng r = ctx.rng("c07-sweep");
    uint64_t idx = 0;
    const auto &T = ref::torsion_points();
    std::vector<std::pair<Bytes, std::string>> encs;
    for (size_t t = 0; t < 8; t++) { encs.push_back({ ref::pt_encode(T[t]), "torsion" + std::to_string(t) }); for (auto &a : alias_encodings(T[t])) encs.push_back({ a, "torsion-alias" + std::to_string(t) }); }
    for (int rep = 0; rep < (ctx.thorough() ? 16 : 4); rep++) {
        U k = ref::sc_reduce(ref::u_from_le(r.bytes(40))); Pt P = ref::pt_mul(k, ref::ED_B());
        for (size_t t = 0; t < 8; t++) encs.push_back({ ref::pt_encode(ref::pt_add(P, T[t])), t ? "prime+torsion" + std::to_string(t) : "prime-order" });
    }
    // every encoding whose only non-zero byte is the last one (y = k * 2^248, both signs): 24 of them are valid prime-order points
    for (int k = 1; k < 256; k++) { Bytes e(32, 0); e[31] = (uint8_t) k; EncInfo i = classify(e); encs.push_back({ e, (i.decodes && i.order_class == 102) ? "prime+torsion4" : "top-byte-only" }); }
    bool known2L = ctx.is_known("ed25519-order-2L"); bool witness_done = false;
    for (auto &e : encs) {
        Bytes n = r.bytes(32), q = ref::pt_encode(ref::pt_mul(U(7), ref::ED_B()));
        bool mine = ctx.mine(idx++);
        for (int op : { E_VALID, E_MULT, E_MULT_NOCLAMP, E_ADD, E_SUB }) {
            EdCase c{ op, e.first, q, n, e.second, "7B", "random" };
            bool validating = op == E_VALID || op == E_MULT || op == E_MULT_NOCLAMP;
            if (known2L && validating && e.second == "prime+torsion4") {
                // listed known finding: excluded by construction, except one witness (worker 0) that keeps the finding visible
                ctx.excluded_known++;
                if (!witness_done && op == E_VALID && ctx.worker == 0) { witness_done = true; exec_case(ctx, c, run_ed, 777, true); ctx.cur_failed = false; ctx.sub_failed.erase(ctx.cur_sub); }
                continue;
            }
            if (!mine) continue;
            exec_case(ctx, c, run_ed, mix64(mix64(op, hash_bytes(e.first.data(), 32)), 1), true);
        }
    }
}


// ------------------------------------------------------------------ solved sums: the RESULT encoding is chosen first
// (y with all-ones limbs in radix 2^51 / 2^25.5 / 2^64 and one limb perturbed, y just below p, tiny y), then operands are solved
// for: Q = R* - P, so that add(P, Q) must return exactly the encoding R*.  Aims the final reduction / packing code at values that
// random operands reach with probability ~2^-200.  The oracle is unchanged (exact model sum).
void explore_solved_sums(Ctx &ctx) {
    using namespace ref;
    Rng r = ctx.rng("c07-solved");
    U p = P25519();
    std::vector<U> ys;
    static const int B51[] = { 0, 51, 102, 153, 204, 255 }, B64[] = { 0, 64, 128, 192, 255 }, B26[] = { 0, 26, 51, 77, 102, 128, 153, 179, 204, 230, 255 };
    auto add_radix = [&](const int *b, int n) {
        for (int li = 0; li + 1 < n; li++) for (int rep = 0; rep < (ctx.thorough() ? 24 : 8); rep++) {
            U d = u_low_bits(u_from_le(r.bytes(8)), b[li + 1] - b[li]); if (u_is_zero(d) || rep == 0) d = U(1);
            U v = u_sub(u_add(p, U(r.below(19))), u_shl(d, b[li])); if (u_cmp(v, p) < 0) ys.push_back(v);
        }
    };
    add_radix(B51, 6); add_radix(B64, 5); add_radix(B26, 11);
    for (uint64_t j = 0; j <= 24; j++) { ys.push_back(U(j)); ys.push_back(u_sub(p, U(j + 1))); }
    uint64_t idx = 0;
    for (auto &y : ys) {
        uint64_t rs = r.next();
        if (!ctx.mine(idx++)) continue;
        Rng rr(rs);
        for (int sign = 0; sign < 2; sign++) {
            Bytes enc = u_to_le(y, 32); if (sign) enc[31] |= 0x80;
            Dec d = pt_decode_ex(enc);
            if (!d.ok_strict()) { ctx.cls("solved-sum:candidate-not-on-curve"); continue; }
            Pt P = pt_mul(sc_reduce(u_from_le(rr.bytes(40))), ED_B()), Q = pt_sub(d.p, P);
            EdCase a{ E_ADD, pt_encode(P), pt_encode(Q), Bytes(), "solved", "solved", "" };
            exec_case(ctx, a, run_ed, mix64(hash_bytes(enc.data(), 32), 11), true);
            EdCase b{ E_SUB, pt_encode(d.p) == enc ? pt_encode(pt_add(d.p, P)) : pt_encode(P), pt_encode(P), Bytes(), "solved", "solved", "" };
            exec_case(ctx, b, run_ed, mix64(hash_bytes(enc.data(), 32), 12), true);
            ctx.cls("solved-sum:aimed");
            // scalar multiplication landing exactly on R* (only possible for prime-order R*)
            if (pt_in_prime_subgroup(d.p) && !pt_is_identity(d.p)) {
                Bytes n = rr.bytes(32); n[31] &= 0x0f; n[0] |= 1; U nv = u_from_le(n);
                Pt S = pt_mul(sc_inv(sc_reduce(nv)), d.p);
                EdCase m{ E_MULT_NOCLAMP, pt_encode(S), Bytes(), n, "solved", "", "solved" };
                exec_case(ctx, m, run_ed, mix64(hash_bytes(enc.data(), 32), 13), true);
                ctx.cls("solved-scalarmult:aimed");
            }
        }
        // the same value used as the x coordinate of the result: y^2 = (1 + x^2) / (1 - d x^2)
        {
            U x = y, xx = fp_sq(x), yv;
            if (u_is_zero(x) || !fp_sqrt(fp_mul(fp_add(U(1), xx), fp_inv(fp_sub(U(1), fp_mul(ED_D(), xx)))), yv)) { ctx.cls("solved-sum:x-candidate-not-on-curve"); continue; }
            for (int which = 0; which < 2; which++) {
                Pt R = Pt(x, which ? fp_neg(yv) : yv);
                if (!pt_on_curve(R)) continue;
                Bytes enc = pt_encode(R);
                Pt P = pt_mul(sc_reduce(u_from_le(rr.bytes(40))), ED_B()), Q = pt_sub(R, P);
                EdCase a{ E_ADD, pt_encode(P), pt_encode(Q), Bytes(), "solved-x", "solved-x", "" };
                exec_case(ctx, a, run_ed, mix64(hash_bytes(enc.data(), 32), 21), true);
                EdCase b{ E_SUB, pt_encode(pt_add(R, P)), pt_encode(P), Bytes(), "solved-x", "solved-x", "" };
                exec_case(ctx, b, run_ed, mix64(hash_bytes(enc.data(), 32), 22), true);
                ctx.cls("solved-sum:x-aimed");
                if (pt_in_prime_subgroup(R) && !pt_is_identity(R)) {
                    Bytes n = rr.bytes(32); n[31] &= 0x0f; n[0] |= 1;
                    Pt S = pt_mul(sc_inv(sc_reduce(u_from_le(n))), R);
                    EdCase m{ E_MULT_NOCLAMP, pt_encode(S), Bytes(), n, "solved-x", "", "solved-x" };
                    exec_case(ctx, m, run_ed, mix64(hash_bytes(enc.data(), 32), 23), true);
                    ctx.cls("solved-scalarmult:x-aimed");
                }
            }
        }
    }
    // results exactly one byte away from the encoding of the identity (01 00 .. 00): the "is the result the identity" tests look at all 32 bytes.
    // The library's own validity test is used as a cheap pre-filter only; the expected results come from the model.
    size_t nb = ctx.thorough() ? 255 : 64;
    for (int j = 1; j < 32; j++) for (size_t bs = 0; bs < nb; bs++) {
        uint64_t rs = r.next();
        if (!ctx.mine(idx++)) continue;
        Rng rr(rs);
        int bv = ctx.thorough() ? (int) bs + 1 : 1 + (int) rr.below(255);
        for (int sign = 0; sign < 2; sign++) {
            Bytes enc(32, 0); enc[0] = 1; enc[(size_t) j] = (uint8_t) (j == 31 ? (bv & 0x7f) : bv); if (sign) enc[31] |= 0x80;
            if (all_zero(Bytes(enc.begin() + 1, enc.end()))) continue;
            if (crypto_core_ed25519_is_valid_point(enc.data()) != 1) { ctx.cls("identity-neighbour:filtered-out"); continue; }
            Dec d = pt_decode_ex(enc);
            if (!d.ok_strict() || !pt_in_prime_subgroup(d.p) || pt_is_identity(d.p)) { ctx.cls("identity-neighbour:not-prime-order"); continue; }
            Bytes n = rr.bytes(32); n[31] &= 0x0f; n[0] |= 1;
            Pt S = pt_mul(sc_inv(sc_reduce(u_from_le(n))), d.p);
            EdCase m{ E_MULT_NOCLAMP, pt_encode(S), Bytes(), n, "solved-identity-neighbour", "", "solved" };
            exec_case(ctx, m, run_ed, mix64(hash_bytes(enc.data(), 32), 31), true);
            Bytes n2 = rr.bytes(32);
            Pt S2 = pt_mul(sc_inv(sc_reduce(scalar_value(n2, true))), d.p);
            EdCase m2{ E_MULT, pt_encode(S2), Bytes(), n2, "solved-identity-neighbour", "", "solved" };
            exec_case(ctx, m2, run_ed, mix64(hash_bytes(enc.data(), 32), 32), true);
            ctx.cls("solved-scalarmult:identity-neighbour");
        }
    }
}

// ------------------------------------------------------------------ scalar arithmetic with solved results
// The result T is chosen first - one 21-bit limb (the representation of sc25519_*) all zeros / all ones / a single bit, next limb odd or even,
// also 64-bit words - and the operands are solved for: mul(a, T/a), reduce(T + k*L), add / sub, and the multiply-add s = a*b + c mod L that
// only signing uses (called through the library's internal entry point; skipped if the symbol does not exist).
extern "C" void _sodium_sc25519_muladd(unsigned char *s, const unsigned char *a, const unsigned char *b, const unsigned char *c) __attribute__((weak));
enum { SV_MUL, SV_REDUCE, SV_MULADD, SV_ADD, SV_SUB, SV_INVERT };
const char *SVN[] = { "crypto_core_ed25519_scalar_mul", "crypto_core_ed25519_scalar_reduce", "sc25519_muladd (internal; S = h*a + r of Ed25519 signing)", "crypto_core_ed25519_scalar_add", "crypto_core_ed25519_scalar_sub", "crypto_core_ed25519_scalar_invert" };
struct SvCase {
    int op; Bytes a, b, c, want;
    KV kv() const { KV k; k.s("kind", "scalar_solved").u("op", op).b("a", a).b("b", b).b("c", c).b("want", want); return k; }
};
uint64_t g_muladd_missing = 0;
bool run_sv(const SvCase &c, std::string &msg) {
    XBuf ab(c.a, 1), bb(c.b, 2), cb(c.c, 3), zb(32, 4);
    switch (c.op) {
    case SV_MUL: crypto_core_ed25519_scalar_mul(zb.p, ab.p, bb.p); break;
    case SV_REDUCE: crypto_core_ed25519_scalar_reduce(zb.p, ab.p); break;
    case SV_MULADD: if (!_sodium_sc25519_muladd) { g_muladd_missing++; return true; } _sodium_sc25519_muladd(zb.p, ab.p, bb.p, cb.p); break;
    case SV_ADD: crypto_core_ed25519_scalar_add(zb.p, ab.p, bb.p); break;
    case SV_SUB: crypto_core_ed25519_scalar_sub(zb.p, ab.p, bb.p); break;
    default: if (crypto_core_ed25519_scalar_invert(zb.p, ab.p) != 0) { msg = "crypto_core_ed25519_scalar_invert failed on a non-zero scalar"; return false; } break;
    }
    if (zb.get() != c.want) { msg = std::string(SVN[c.op]) + " differs from integer arithmetic mod L on operands solved for a structured result: got " + hex(zb.get()) + " want " + hex(c.want) + " (a=" + hex(c.a) + " b=" + hex(c.b) + (c.c.empty() ? "" : " c=" + hex(c.c)) + ")"; return false; }
    return true;
}
void explore_scalar_solved(Ctx &ctx) {
    using namespace ref;
    Rng r = ctx.rng("c07-scalar-solved");
    U L = L25519();
    uint64_t idx = 0;
    int reps = ctx.thorough() ? 48 : 10;
    auto target = [&](Rng &rr, int radix, int limb, int pat, int nextodd) {
        int nl = (252 + radix - 1) / radix;
        U t(0);
        for (int i = 0; i < nl; i++) {
            int width = std::min(radix, 252 - radix * i); if (width <= 0) break;
            U v = u_low_bits(u_from_le(rr.bytes(8)), width);
            if (i == limb) v = pat == 0 ? U(0) : pat == 1 ? u_sub(u_shl(U(1), width), U(1)) : pat == 2 ? U(1) : u_shl(U(1), width - 1);
            if (i == limb + 1 && nextodd >= 0) { v = u_shl(u_low_bits(u_from_le(rr.bytes(8)), width - 1), 1); if (nextodd) v = u_add(v, U(1)); }
            t = u_add(t, u_shl(v, radix * i));
        }
        if (u_cmp(t, L) >= 0) t = u_low_bits(t, 251);
        return t;
    };
    for (int radix : { 21, 64, 32 }) {
        int nl = (252 + radix - 1) / radix;
        for (int limb = 0; limb < nl; limb++) for (int pat = 0; pat < 4; pat++) for (int rep = 0; rep < reps; rep++) {
            uint64_t rs = r.next();
            if (!ctx.mine(idx++)) continue;
            Rng rr(rs);
            U T = target(rr, radix, limb, pat, rep % 3 - 1);
            Bytes want = u_to_le(T, 32);
            uint64_t key = mix64(mix64(radix, limb), mix64(pat, rs));
            U a = u_mod(u_from_le(rr.bytes(40)), L); if (u_is_zero(a)) a = U(1);
            {   // mul: b = T / a; also with b + L (mul is specified for every byte string)
                U b = u_mod(u_mul(T, u_invmod_prime(a, L)), L);
                SvCase c{ SV_MUL, u_to_le(a, 32), u_to_le(rep % 2 ? u_add(b, L) : b, 32), Bytes(), want };
                exec_case(ctx, c, run_sv, mix64(key, 1), true);
            }
            {   // reduce: T + k*L for a random k that fills the 64 bytes
                U k = u_low_bits(u_from_le(rr.bytes(40)), rep % 4 == 0 ? 20 : 258);
                SvCase c{ SV_REDUCE, u_to_le(u_add(T, u_mul(k, L)), 64), Bytes(), Bytes(), want };
                exec_case(ctx, c, run_sv, mix64(key, 2), true);
            }
            {   // muladd as in signing: a reduced (the hash h), b a clamped secret scalar (not reduced), c reduced (the nonce r)
                Bytes bb = rr.bytes(32); bb[0] &= 248; bb[31] &= 127; bb[31] |= 64;
                U cv = u_submod(T, u_mod(u_mul(a, u_from_le(bb)), L), L);
                SvCase c{ SV_MULADD, u_to_le(a, 32), bb, u_to_le(cv, 32), want };
                exec_case(ctx, c, run_sv, mix64(key, 3), true);
            }
            {   // add / sub on reduced operands
                SvCase c1{ SV_ADD, u_to_le(a, 32), u_to_le(u_submod(T, a, L), 32), Bytes(), want };
                exec_case(ctx, c1, run_sv, mix64(key, 4), true);
                SvCase c2{ SV_SUB, u_to_le(u_mod(u_add(T, a), L), 32), u_to_le(a, 32), Bytes(), want };
                exec_case(ctx, c2, run_sv, mix64(key, 5), true);
            }
            if (!u_is_zero(T) && rep < 3) {   // invert: the operand is 1/T (sc25519_invert is a chain of mul / sq: costly in the model, sampled)
                SvCase c{ SV_INVERT, u_to_le(u_invmod_prime(T, L), 32), Bytes(), Bytes(), want };
                exec_case(ctx, c, run_sv, mix64(key, 6), true);
            }
            ctx.cls("scalar-solved:radix" + std::to_string(radix));
        }
    }
    ctx.notes["muladd_cases_skipped_symbol_missing"] = std::to_string(g_muladd_missing);
}

// ------------------------------------------------------------------ Ristretto255
enum RiOp { R_VALID, R_ADD, R_SUB, R_MULT, R_BASE, R_FROM_HASH, NRIOP };
const char *RON[] = { "is_valid_point", "add", "sub", "scalarmult", "scalarmult_base", "from_hash" };
struct RiCase {
    int op; Bytes p, q, n; std::string pc;
    KV kv() const { KV k; k.s("kind", "ristretto").s("op", RON[op]).b("p", p).b("q", q).b("n", n).s("pclass", pc); return k; }
};
bool run_ri(const RiCase &c, std::string &msg) {
    set_mask(F_ALL);
    Pt P; bool pv = c.op == R_FROM_HASH || c.op == R_BASE ? true : ref::ristretto_decode(c.p, P);
    switch (c.op) {
    case R_VALID: { XBuf pb(c.p, 1); int r = crypto_core_ristretto255_is_valid_point(pb.p); if ((r != 0) != pv) FAIL("crypto_core_ristretto255_is_valid_point returned %d, RFC 9496 decoding %s (%s)", r, pv ? "succeeds" : "fails", c.pc.c_str()); return true; }
    case R_ADD: case R_SUB: {
        Pt Q; bool qv = ref::ristretto_decode(c.q, Q);
        XBuf pb(c.p, 1), qb(c.q, 2), rb(32, 3);
        int r = c.op == R_ADD ? crypto_core_ristretto255_add(rb.p, pb.p, qb.p) : crypto_core_ristretto255_sub(rb.p, pb.p, qb.p);
        if (!pv || !qv) { if (r != -1) FAIL("crypto_core_ristretto255_%s accepted an invalid encoding", RON[c.op]); return true; }
        Bytes want = ref::ristretto_encode(c.op == R_ADD ? ref::pt_add(P, Q) : ref::pt_sub(P, Q));
        if (r != 0 || rb.get() != want) { msg = std::string("crypto_core_ristretto255_") + RON[c.op] + ": rc=" + std::to_string(r) + " got " + hex(rb.get()) + " want " + hex(want); return false; }
        return true;
    }
    case R_MULT: {
        XBuf pb(c.p, 1), nb(c.n, 2), qb(32, 3);
        int r = crypto_scalarmult_ristretto255(qb.p, nb.p, pb.p);
        if (!pv) { if (r != -1) FAIL("crypto_scalarmult_ristretto255 accepted an invalid encoding"); return true; }
        Bytes want = ref::ristretto_encode(ref::pt_mul(scalar_value(c.n, false), P));
        if (all_zero(want)) { if (r != -1) FAIL("crypto_scalarmult_ristretto255 returned %d although the result is the identity", r); return true; }
        if (r != 0 || qb.get() != want) { msg = "crypto_scalarmult_ristretto255: rc=" + std::to_string(r) + " got " + hex(qb.get()) + " want " + hex(want); return false; }
        return true;
    }
    case R_BASE: {
        XBuf nb(c.n, 2), qb(32, 3);
        int r = crypto_scalarmult_ristretto255_base(qb.p, nb.p);
        Bytes want = ref::ristretto_encode(ref::pt_mul(scalar_value(c.n, false), ref::ED_B()));
        if (all_zero(want)) { if (r != -1) FAIL("crypto_scalarmult_ristretto255_base returned %d although the result is the identity", r); return true; }
        if (r != 0 || qb.get() != want) { msg = "crypto_scalarmult_ristretto255_base differs from exact arithmetic"; return false; }
        return true;
    }
    case R_FROM_HASH: {
        XBuf hb(c.p, 1), ob(32, 2);
        if (crypto_core_ristretto255_from_hash(ob.p, hb.p) != 0) FAIL("from_hash failed");
        Bytes want = ref::ristretto_from_uniform(c.p);
        if (ob.get() != want) { msg = "crypto_core_ristretto255_from_hash differs from the RFC 9496 one-way map: got " + hex(ob.get()) + " want " + hex(want); return false; }
        Pt O; if (!ref::ristretto_decode(ob.get(), O)) FAIL("from_hash output is not a valid ristretto255 encoding");
        return true;
    }
    }
    return true;
}
Bytes gen_ri_encoding(std::string &cls) {
    int k = *rc::gen::weightedElement<int>({ { 6, 0 }, { 2, 1 }, { 2, 2 }, { 2, 3 }, { 1, 4 }, { 1, 5 }, { 1, 6 } });
    const auto &T = ref::torsion_points();
    switch (k) {
    case 0: cls = "valid"; return ref::ristretto_encode(gen_prime_point());
    case 1: cls = "valid(coset+torsion)"; return ref::ristretto_encode(ref::pt_add(gen_prime_point(), T[*rc::gen::inRange(1, 8)]));
    case 2: { cls = "negative-s"; Bytes e = ref::ristretto_encode(gen_prime_point()); return ref::u_to_le(ref::fp_neg(ref::u_from_le(e)), 32); }
    case 3: cls = "random-bytes"; return gen_bytes(32);
    case 4: { cls = "s>=p"; Bytes e = ref::u_to_le(ref::u_add(U((uint64_t) *rc::gen::inRange(0, 19)), ref::P25519()), 32); return e; }
    case 5: { cls = "high-bit"; Bytes e = ref::ristretto_encode(gen_prime_point()); e[31] |= 0x80; return e; }
    default: { cls = "small"; return ref::u_to_le(U((uint64_t) *rc::gen::inRange(0, 40)), 32); }
    }
}
void explore_ri(Ctx &ctx) {
    rc_explore<RiCase>(ctx, "c07-ristretto", ctx.thorough() ? 120000 : 9000, 100, [&]() {
        RiCase c; c.op = *rc::gen::weightedElement<int>({ { 5, R_VALID }, { 3, R_ADD }, { 2, R_SUB }, { 4, R_MULT }, { 2, R_BASE }, { 3, R_FROM_HASH } });
        std::string nc;
        if (c.op == R_FROM_HASH) { c.p = gen_bytes(64); int m = *rc::gen::inRange(0, 8); if (m == 0) c.p = Bytes(64, 0); if (m == 1) c.p = Bytes(64, 0xff); if (m == 2) { c.p[31] |= 0x80; c.p[63] |= 0x80; } c.pc = "hash"; }
        else if (c.op != R_BASE) c.p = gen_ri_encoding(c.pc);
        if (c.op == R_ADD || c.op == R_SUB) { std::string qc; c.q = gen_ri_encoding(qc); if (*rc::gen::inRange(0, 8) == 0) c.q = c.p; }
        if (c.op == R_MULT || c.op == R_BASE) c.n = gen_scalar(nc);
        ctx.cls("ristretto:" + std::string(RON[c.op])); if (!c.pc.empty()) ctx.cls("ristretto-enc:" + c.pc);
        return c;
    }, run_ri, [](const RiCase &c) { return mix64(mix64(c.op + 50, hash_bytes(c.p.data(), c.p.size())), mix64(hash_bytes(c.q.data(), c.q.size()), hash_bytes(c.n.data(), c.n.size()))); },
       [](const RiCase &c) { return c.pc != "random-bytes"; });
}

// ------------------------------------------------------------------ scalar arithmetic
enum ScOp { S_ADD, S_SUB, S_MUL, S_NEG, S_COMP, S_INV, S_REDUCE, S_CANON, NSCOP };
const char *SON[] = { "add", "sub", "mul", "negate", "complement", "invert", "reduce", "is_canonical" };
struct ScCase {
    int op; bool ristretto; Bytes x, y;
    KV kv() const { KV k; k.s("kind", "scalar").s("op", SON[op]).u("ristretto", ristretto).b("x", x).b("y", y); return k; }
};
bool run_sc(const ScCase &c, std::string &msg) {
    set_mask(F_ALL);
    XBuf xb(c.x, 1), yb(c.y, 2), zb(32, 3);
    U L = ref::L25519(), x = ref::u_from_le(c.x), y = ref::u_from_le(c.y), want; int rc = 0, want_rc = 0; bool has_rc = false;
    bool R = c.ristretto;
    switch (c.op) {
    case S_ADD: R ? crypto_core_ristretto255_scalar_add(zb.p, xb.p, yb.p) : crypto_core_ed25519_scalar_add(zb.p, xb.p, yb.p); want = ref::u_mod(ref::u_add(x, y), L); break;
    case S_SUB: R ? crypto_core_ristretto255_scalar_sub(zb.p, xb.p, yb.p) : crypto_core_ed25519_scalar_sub(zb.p, xb.p, yb.p); want = ref::u_submod(ref::u_mod(x, L), ref::u_mod(y, L), L); break;
    case S_MUL: R ? crypto_core_ristretto255_scalar_mul(zb.p, xb.p, yb.p) : crypto_core_ed25519_scalar_mul(zb.p, xb.p, yb.p); want = ref::u_mod(ref::u_mul(x, y), L); break;
    case S_NEG: R ? crypto_core_ristretto255_scalar_negate(zb.p, xb.p) : crypto_core_ed25519_scalar_negate(zb.p, xb.p); want = ref::u_submod(U(0), ref::u_mod(x, L), L); break;
    case S_COMP: R ? crypto_core_ristretto255_scalar_complement(zb.p, xb.p) : crypto_core_ed25519_scalar_complement(zb.p, xb.p); want = ref::u_submod(U(1), ref::u_mod(x, L), L); break;
    case S_INV: rc = R ? crypto_core_ristretto255_scalar_invert(zb.p, xb.p) : crypto_core_ed25519_scalar_invert(zb.p, xb.p); want = ref::u_invmod_prime(ref::u_mod(x, L), L); has_rc = true; want_rc = all_zero(c.x) ? -1 : 0; break;
    case S_REDUCE: R ? crypto_core_ristretto255_scalar_reduce(zb.p, xb.p) : crypto_core_ed25519_scalar_reduce(zb.p, xb.p); want = ref::u_mod(x, L); break;
    case S_CANON: { int r = R ? crypto_core_ristretto255_scalar_is_canonical(xb.p) : crypto_core_ed25519_scalar_is_canonical(xb.p); bool w = ref::u_cmp(x, L) < 0; if ((r != 0) != w) FAIL("scalar_is_canonical returned %d, value %s L", r, w ? "<" : ">="); return true; }
    }
    if (has_rc && rc != want_rc) FAIL("scalar_%s returned %d, expected %d", SON[c.op], rc, want_rc);
    if (has_rc && want_rc != 0) return true;
    Bytes w = ref::u_to_le(want, 32);
    if (zb.get() != w) { msg = std::string("crypto_core_") + (R ? "ristretto255" : "ed25519") + "_scalar_" + SON[c.op] + " differs from integer arithmetic mod L: got " + hex(zb.get()) + " want " + hex(w); return false; }
    return true;
}
void explore_sc(Ctx &ctx) {
    rc_explore<ScCase>(ctx, "c07-scalars", ctx.thorough() ? 400000 : 40000, 100, [&]() {
        ScCase c; c.op = *rc::gen::inRange(0, (int) NSCOP); c.ristretto = *rc::gen::inRange(0, 3) == 0;
        std::string xc, yc;
        c.x = gen_scalar(xc); c.y = gen_scalar(yc);
        if (c.op == S_REDUCE) { c.x = gen_bytes(64); int m = *rc::gen::inRange(0, 6); if (m == 0) c.x = Bytes(64, 0xff); if (m == 1) { c.x = Bytes(64, 0); Bytes l = ref::u_to_le(ref::L25519(), 32); std::copy(l.begin(), l.end(), c.x.begin() + *rc::gen::inRange(0, 33)); } if (m == 2) c.x = ref::u_to_le(ref::u_mul(ref::L25519(), ref::u_from_le(gen_bytes(31))), 64); c.y.clear(); }
        if (c.op == S_ADD || c.op == S_SUB) {   // the property covers reduced inputs for add/sub
            c.x = ref::u_to_le(ref::u_mod(ref::u_from_le(c.x), ref::L25519()), 32); c.y = ref::u_to_le(ref::u_mod(ref::u_from_le(c.y), ref::L25519()), 32);
            int m = *rc::gen::inRange(0, 8); U Lm1 = ref::u_sub(ref::L25519(), U(1));
            if (m == 0) c.x = ref::u_to_le(Lm1, 32); if (m == 1) c.y = ref::u_to_le(Lm1, 32); if (m == 2) { c.x = ref::u_to_le(Lm1, 32); c.y = c.x; } if (m == 3) c.y = c.x;
        }
        ctx.cls("scalar-op:" + std::string(SON[c.op])); ctx.cls("scalar-x:" + xc);
        return c;
    }, run_sc, [](const ScCase &c) { return mix64(mix64(c.op + 100, c.ristretto), mix64(hash_bytes(c.x.data(), c.x.size()), hash_bytes(c.y.data(), c.y.size()))); }, [](const ScCase &) { return true; });
}

// ------------------------------------------------------------------ hash-to-group
struct HCase {
    int fn;   // 0 ed from_string (NU), 1 ed from_string_ro, 2 ristretto from_string, 3 ristretto from_string_ro
    int hash; Bytes msg; std::string ctx; bool null_ctx, null_msg; bool tolerate_known = false;
    KV kv() const { KV k; k.s("kind", "h2c").u("fn", fn).u("hash", hash).b("msg", msg).b("ctx", (const uint8_t *) ctx.data(), ctx.size()).u("null_ctx", null_ctx).u("null_msg", null_msg).u("tolerate_known", tolerate_known); return k; }
};
bool run_h2c(const HCase &c, std::string &msg) {
    set_mask(F_ALL);
    ref::HashId h = c.hash == 1 ? ref::H_SHA256 : ref::H_SHA512;
    Bytes dst(c.ctx.begin(), c.ctx.end());
    XBuf ob(32, 1), mb(c.msg, 2);
    Bytes ctxz(c.ctx.begin(), c.ctx.end()); ctxz.push_back(0); XBuf cb(ctxz, 3);
    const char *cp = c.null_ctx ? nullptr : (const char *) cb.p;
    const uint8_t *mp = (c.null_msg && c.msg.empty()) ? nullptr : mb.p;
    int r;
    switch (c.fn) {
    case 0: r = crypto_core_ed25519_from_string(ob.p, cp, mp, c.msg.size(), c.hash); break;
    case 1: r = crypto_core_ed25519_from_string_ro(ob.p, cp, mp, c.msg.size(), c.hash); break;
    case 2: r = crypto_core_ristretto255_from_string(ob.p, cp, mp, c.msg.size(), c.hash); break;
    default: r = crypto_core_ristretto255_from_string_ro(ob.p, cp, mp, c.msg.size(), c.hash); break;
    }
    if (r != 0) FAIL("hash-to-group function %d returned %d", c.fn, r);
    Bytes want = c.fn <= 1 ? ref::h2c_edwards25519(h, c.fn == 1, c.msg, dst) : ref::h2c_ristretto255(h, c.msg, dst);
    Bytes got = ob.get();
    // membership: every output lies in the prime-order (sub)group
    if (c.fn <= 1) { EncInfo O = classify(got); if (!O.strict || !ref::pt_in_prime_subgroup(O.pt)) FAIL("hash-to-curve output is not in the prime-order subgroup"); }
    else { Pt O; if (!ref::ristretto_decode(got, O)) FAIL("hash-to-ristretto255 output is not a valid encoding"); }
    if (got == want) return true;
    if (dst.size() > 255) {
        Bytes quirk = c.fn <= 1 ? ref::h2c_edwards25519(h, c.fn == 1, c.msg, dst, true) : ref::h2c_ristretto255(h, c.msg, dst, true);
        if (got == quirk && c.tolerate_known) return true;     // listed known finding: compared against the model of the documented deviation instead
        if (got == quirk) { msg = "context longer than 255 bytes: output differs from RFC 9380 section 5.3.3 (b_1.. are computed with DST' = b_0 || len because the hashed DST and b_0 share one buffer)"; return false; }
    }
    msg = std::string(c.fn <= 1 ? "edwards25519" : "ristretto255") + " hash-to-group (" + (c.hash == 1 ? "SHA-256" : "SHA-512") + (c.fn == 1 ? ", RO" : c.fn == 0 ? ", NU" : "") + ") differs from RFC 9380: got " + hex(got) + " want " + hex(want);
    return false;
}
std::string gen_ctx(size_t len) { std::string s; for (size_t i = 0; i < len; i++) s.push_back((char) *rc::gen::inRange(1, 256)); return s; }
void explore_h2c_impl(Ctx &ctx, bool oversize, bool tolerate = false) {
    rc_explore<HCase>(ctx, oversize ? "c07-h2c-oversize" : "c07-h2c", oversize ? (ctx.thorough() ? 4000 : 600) : (ctx.thorough() ? 60000 : 5000), 100, [&]() {
        HCase c; c.fn = *rc::gen::inRange(0, 4); c.hash = *rc::gen::element(1, 2);
        size_t ml = *rc::gen::weightedOneOf<size_t>({ { 2, rc::gen::just<size_t>(0) }, { 4, rc::gen::inRange<size_t>(1, 64) }, { 2, rc::gen::element<size_t>(63, 64, 65, 127, 128, 129, 200) }, { 1, rc::gen::inRange<size_t>(64, 600) } });
        c.msg = gen_bytes(ml);
        size_t cl = oversize ? *rc::gen::element<size_t>(256, 257, 300, 511, 512, 1000) : *rc::gen::weightedOneOf<size_t>({ { 2, rc::gen::just<size_t>(0) }, { 4, rc::gen::inRange<size_t>(1, 64) }, { 2, rc::gen::element<size_t>(127, 128, 200, 254, 255) } });
        c.ctx = gen_ctx(cl);
        c.null_ctx = cl == 0 && *rc::gen::inRange(0, 2) == 0; c.null_msg = ml == 0 && *rc::gen::inRange(0, 2) == 0; c.tolerate_known = tolerate;
        ctx.cls("h2c-fn" + std::to_string(c.fn) + "-hash" + std::to_string(c.hash)); ctx.cls(cl == 0 ? "h2c-ctx-empty" : cl > 255 ? "h2c-ctx-oversize" : cl == 255 ? "h2c-ctx-255" : "h2c-ctx");
        return c;
    }, run_h2c, [](const HCase &c) { return mix64(mix64(c.fn + 200, c.hash), mix64(hash_bytes(c.msg.data(), c.msg.size()), hash_str(c.ctx))); }, [](const HCase &) { return true; });
}
void explore_h2c(Ctx &ctx) { explore_h2c_impl(ctx, false); }
void explore_h2c_oversize(Ctx &ctx) {
    if (ctx.is_known("h2c-oversize-dst")) {
        // known finding: one witness is executed so the finding stays visible; the rest of this input class is compared with the
        // model of the listed deviation instead of RFC 9380 (so any OTHER change of behaviour on long contexts is still reported)
        HCase c{ 1, 2, Bytes{ 'm', 's', 'g' }, std::string(300, 'X'), false, false };
        if (ctx.worker == 0) exec_case(ctx, c, run_h2c, 424242, true);
        ctx.cur_failed = false; ctx.sub_failed.erase(ctx.cur_sub);
        uint64_t before = ctx.evaluations;
        explore_h2c_impl(ctx, true, true);
        ctx.excluded_known += ctx.evaluations - before;
        return;
    }
    explore_h2c_impl(ctx, true);
}

// ------------------------------------------------------------------ hash-to-group of messages of 4 GiB and more (thorough, non-sanitizer build, first round)
// expand_message_xmd hashes Z_pad || msg || l_i_b_str || 0 || DST' once (b_0); everything after that is a function of b_0.  b_0 is recomputed
// with the library's streaming SHA-256 / SHA-512 over the sparse message (their correctness for such lengths is C04's claim), the rest by
// the reference model.  The composition is validated against the full reference model on a short message in the same run.
struct GH2CCase { int fn; int hash; size_t len; KV kv() const { KV k; k.s("kind", "giant_h2c").u("fn", fn).u("hash", hash).u("len", len); return k; } };
uint64_t g_giant_skipped = 0;
Bytes composed_h2c(int fn, int hash, const uint8_t *m, size_t mlen, const Bytes &dst) {
    ref::HashId h = hash == 1 ? ref::H_SHA256 : ref::H_SHA512;
    size_t hl = ref::hash_len(h), bl = ref::hash_block(h), len = fn == 1 ? 96 : fn == 0 ? 48 : 64;
    Bytes dst_prime = dst; dst_prime.push_back((uint8_t) dst.size());
    Bytes zpad(bl, 0), tail = { (uint8_t) (len >> 8), (uint8_t) len, 0 }; tail.insert(tail.end(), dst_prime.begin(), dst_prime.end());
    Bytes b0(hl);
    if (hash == 1) { crypto_hash_sha256_state st; crypto_hash_sha256_init(&st); crypto_hash_sha256_update(&st, zpad.data(), bl); crypto_hash_sha256_update(&st, m, mlen); crypto_hash_sha256_update(&st, tail.data(), tail.size()); crypto_hash_sha256_final(&st, b0.data()); }
    else { crypto_hash_sha512_state st; crypto_hash_sha512_init(&st); crypto_hash_sha512_update(&st, zpad.data(), bl); crypto_hash_sha512_update(&st, m, mlen); crypto_hash_sha512_update(&st, tail.data(), tail.size()); crypto_hash_sha512_final(&st, b0.data()); }
    Bytes uniform, prev(hl, 0);
    for (size_t i = 1; uniform.size() < len; i++) {
        Bytes x(hl); for (size_t j = 0; j < hl; j++) x[j] = b0[j] ^ prev[j];
        x.push_back((uint8_t) i); x.insert(x.end(), dst_prime.begin(), dst_prime.end());
        prev = ref::hash(h, x); uniform.insert(uniform.end(), prev.begin(), prev.end());
    }
    uniform.resize(len);
    if (fn >= 2) return ref::ristretto_from_uniform(uniform);
    auto fe = [&](size_t i) { return ref::fp_red(ref::u_from_be(ref::sub(uniform, i * 48, 48))); };
    if (fn == 1) return ref::pt_encode(ref::pt_mul(ref::U(8), ref::pt_add(ref::h2c_map_to_edwards25519(fe(0)), ref::h2c_map_to_edwards25519(fe(1)))));
    return ref::pt_encode(ref::pt_mul(ref::U(8), ref::h2c_map_to_edwards25519(fe(0))));
}
int call_h2c(int fn, uint8_t *out, const char *ctx, const uint8_t *m, size_t mlen, int hash) {
    switch (fn) {
    case 0: return crypto_core_ed25519_from_string(out, ctx, m, mlen, hash);
    case 1: return crypto_core_ed25519_from_string_ro(out, ctx, m, mlen, hash);
    case 2: return crypto_core_ristretto255_from_string(out, ctx, m, mlen, hash);
    default: return crypto_core_ristretto255_from_string_ro(out, ctx, m, mlen, hash);
    }
}
bool run_giant_h2c(const GH2CCase &c, std::string &msg) {
    set_mask(F_ALL);
    const char *ctx = "giant-h2c-context"; Bytes dst(ctx, ctx + strlen(ctx));
    {   // the composition against the full model, short message
        Bytes sm = { 1, 2, 3, 4, 5, 6, 7 }; ref::HashId h = c.hash == 1 ? ref::H_SHA256 : ref::H_SHA512;
        Bytes full = c.fn <= 1 ? ref::h2c_edwards25519(h, c.fn == 1, sm, dst) : ref::h2c_ristretto255(h, sm, dst);
        if (composed_h2c(c.fn, c.hash, sm.data(), sm.size(), dst) != full) { msg = "harness self-check: the composed hash-to-group model differs from the reference model"; return false; }
    }
    giant::Map M(c.len); if (!M.ok()) { g_giant_skipped++; return true; }
    M.poke();
    unsigned char out[32], trunc[32];
    int r = call_h2c(c.fn, out, ctx, M.p, c.len, c.hash);
    if (r != 0) FAIL("hash-to-group function %d returned %d for a message of %zu bytes", c.fn, r, c.len);
    Bytes want = composed_h2c(c.fn, c.hash, M.p, c.len, dst), got(out, out + 32);
    if (got != want) {
        (void) !call_h2c(c.fn, trunc, ctx, M.p, (size_t) (uint32_t) c.len, c.hash);
        FAIL("%s hash-to-group (%s, function %d) of a %zu-byte message differs from RFC 9380%s", c.fn <= 1 ? "edwards25519" : "ristretto255", c.hash == 1 ? "SHA-256" : "SHA-512", c.fn, c.len,
             memcmp(out, trunc, 32) == 0 ? ": it equals the result for the first (length mod 2^32) bytes" : "");
    }
    return true;
}
void explore_giant_h2c(Ctx &ctx) {
    if (!ctx.thorough() || !giant::fast_build() || !giant::first_round()) { ctx.notes["giant_h2c"] = "thorough tier, non-sanitizer build, first round only"; return; }
    uint64_t idx = 0;
    for (int fn = 0; fn < 4; fn++) for (int hash = 1; hash <= 2; hash++) {
        if (!ctx.mine(idx++)) continue;
        GH2CCase c{ fn, hash, ((size_t) 1 << 32) + 5 + (size_t) fn };
        exec_case(ctx, c, run_giant_h2c, mix64(mix64(fn, hash), c.len), true);
    }
    ctx.notes["giant_h2c_skipped_no_memory"] = std::to_string(g_giant_skipped);
}

bool replay(const KV &k, std::string &msg) {
    std::string kind = k.gs("kind");
    if (kind == "giant_h2c") { GH2CCase c{ (int) k.gu("fn"), (int) k.gu("hash"), (size_t) k.gu("len") }; return run_giant_h2c(c, msg); }
    if (kind == "ed") { EdCase c; c.op = 0; for (int i = 0; i < NEDOP; i++) if (k.gs("op") == EON[i]) c.op = i; c.p = k.gb("p"); c.q = k.gb("q"); c.n = k.gb("n"); return run_ed(c, msg); }
    if (kind == "ristretto") { RiCase c; c.op = 0; for (int i = 0; i < NRIOP; i++) if (k.gs("op") == RON[i]) c.op = i; c.p = k.gb("p"); c.q = k.gb("q"); c.n = k.gb("n"); c.pc = k.gs("pclass"); return run_ri(c, msg); }
    if (kind == "scalar_solved") { SvCase c{ (int) k.gu("op"), k.gb("a"), k.gb("b"), k.gb("c"), k.gb("want") }; return run_sv(c, msg); }
    if (kind == "scalar") { ScCase c; c.op = 0; for (int i = 0; i < NSCOP; i++) if (k.gs("op") == SON[i]) c.op = i; c.ristretto = k.gu("ristretto"); c.x = k.gb("x"); c.y = k.gb("y"); return run_sc(c, msg); }
    HCase c; c.fn = (int) k.gu("fn"); c.hash = (int) k.gu("hash"); c.msg = k.gb("msg"); Bytes cb = k.gb("ctx"); c.ctx.assign(cb.begin(), cb.end()); c.null_ctx = k.gu("null_ctx"); c.null_msg = k.gu("null_msg"); c.tolerate_known = k.gu("tolerate_known");
    return run_h2c(c, msg);
}

}  // namespace

std::vector<Sub> vh_subs() {
    return { { "ed_sweep", explore_ed_sweep, replay }, { "ed_points", explore_ed, replay }, { "ed_solved_results", explore_solved_sums, replay }, { "ristretto", explore_ri, replay }, { "scalars", explore_sc, replay }, { "scalar_solved_results", explore_scalar_solved, replay }, { "h2c", explore_h2c, replay }, { "giant_h2c", explore_giant_h2c, replay }, { "h2c_oversize_dst", explore_h2c_oversize, replay } };
}
