// C01 -- authenticated encryption computes the standard constructions and round-trips; all call forms agree.
// Oracle: ref/constructions.hpp, ref/aes256gcm.hpp, ref/aegis.hpp.
#define VH_NO_SODIUM_INIT 1
#include "vh_main.hpp"
#include "giant.hpp"
#include "constructions.hpp"
#include "aes256gcm.hpp"
#include "aegis.hpp"
using namespace vh;

namespace {

inline const uint8_t *D(const Bytes &b) { static uint8_t z[8]; return b.empty() ? z : b.data(); }
inline uint8_t *D(Bytes &b) { static uint8_t z[8]; return b.empty() ? z : b.data(); }

// scripted random source (needed to know the ephemeral key of sealed boxes)
Bytes g_script; size_t g_pos = 0;
const char *impl_name() { return "verif-scripted"; }
void impl_buf(void *p, size_t n) { uint8_t *b = (uint8_t *) p; for (size_t i = 0; i < n; i++) b[i] = g_script.empty() ? (uint8_t) (i * 7 + 1) : g_script[(g_pos + i) % g_script.size()]; g_pos += n; }
uint32_t impl_random() { uint32_t v; impl_buf(&v, 4); return v; }
randombytes_implementation IMPL = { impl_name, impl_random, nullptr, nullptr, impl_buf, nullptr };
void init_once() {
    static bool done = false; if (done) return; done = true;
    randombytes_set_implementation(&IMPL);
    if (sodium_init() < 0) { fprintf(stderr, "VH-INFRA sodium_init failed\n"); _exit(2); }
    sodium_verif_set_cpu_mask(F_ALL); detected_ref() = current_features();
}

enum Cons { CHACHA, CHACHA_IETF, XCHACHA, AESGCM, AEGIS128L, AEGIS256, SBOX_XSALSA, SBOX_XCHACHA, BOX_XSALSA, BOX_XCHACHA, SEAL_XSALSA, SEAL_XCHACHA, NCONS };
const char *CN[] = { "chacha20poly1305", "chacha20poly1305_ietf", "xchacha20poly1305_ietf", "aes256gcm", "aegis128l", "aegis256", "secretbox_xsalsa20poly1305", "secretbox_xchacha20poly1305",
                     "box_curve25519xsalsa20poly1305", "box_curve25519xchacha20poly1305", "seal_xsalsa20", "seal_xchacha20" };
const size_t KEYB[] = { 32, 32, 32, 32, 16, 32, 32, 32, 32, 32, 32, 32 };
const size_t NONCEB[] = { 8, 12, 24, 12, 16, 32, 24, 24, 24, 24, 0, 0 };
const size_t TAGB[] = { 16, 16, 16, 16, 32, 32, 16, 16, 16, 16, 16, 16 };

struct Case {
    int cons; size_t mlen, adlen; uint64_t seed; int mcls; unsigned long mask;
    KV kv() const { KV k; k.s("cons", CN[cons]).u("mlen", mlen).u("adlen", adlen).u("seed", seed).u("mcls", mcls).u("mask", mask); return k; }
};

// model keypairs are expensive (big-integer X25519): a small fixed set derived from the seed, cached
struct KP { Bytes pk, sk; };
KP &keypair(uint64_t sel) {
    static std::map<uint64_t, KP> cache;
    auto it = cache.find(sel);
    if (it != cache.end()) return it->second;
    Rng r(mix64(sel, 0xb0c5)); KP kp; Bytes seed = r.bytes(32);
    ref::box_seed_keypair(seed, kp.pk, kp.sk);
    return cache[sel] = kp;
}
Bytes &shared_key(uint64_t a, uint64_t b, bool xchacha) {     // model beforenm(pk_b, sk_a)
    static std::map<uint64_t, Bytes> cache;
    uint64_t key = mix64(mix64(a, b), xchacha);
    auto it = cache.find(key);
    if (it != cache.end()) return it->second;
    Bytes k; if (xchacha) ref::box_beforenm_xchacha20(keypair(b).pk, keypair(a).sk, k); else ref::box_beforenm_xsalsa20(keypair(b).pk, keypair(a).sk, k);
    return cache[key] = k;
}

#define FAIL(...) do { char b_[400]; snprintf(b_, sizeof b_, __VA_ARGS__); msg = b_; return false; } while (0)

// compare one form's output with the model; `what` names the form
bool eq(const char *cons, const char *what, const Bytes &got, const Bytes &want, std::string &msg) {
    if (got == want) return true;
    size_t i = 0; while (i < got.size() && i < want.size() && got[i] == want[i]) i++;
    char b[400]; snprintf(b, sizeof b, "%s %s: differs from the specification at byte %zu of %zu (got %zu bytes)", cons, what, i, want.size(), got.size()); msg = b; return false;
}

bool run(const Case &c, std::string &msg) {
    init_once(); set_mask(c.mask);
    Rng r(c.seed);
    Bytes key = r.bytes(KEYB[c.cons]), nonce = r.bytes(NONCEB[c.cons]), ad = r.bytes_class(c.adlen, c.mcls == 0 ? 0 : (int) r.below(3)), m = r.bytes_class(c.mlen, c.mcls);
    const char *N = CN[c.cons];
    size_t T = TAGB[c.cons], ml = c.mlen, al = c.adlen;
    ref::Bytes ct, tag;
    const uint8_t *adp = al ? ad.data() : ((c.seed & 1) ? nullptr : D(ad));     // NULL ad with length 0 is in contract
    // ---------------------------------------------------------------- AEADs
    if (c.cons <= AEGIS256) {
        switch (c.cons) {
        case CHACHA: ref::aead_chacha20poly1305_encrypt(key, nonce, ad, m, ct, tag); break;
        case CHACHA_IETF: ref::aead_chacha20poly1305_ietf_encrypt(key, nonce, ad, m, ct, tag); break;
        case XCHACHA: ref::aead_xchacha20poly1305_encrypt(key, nonce, ad, m, ct, tag); break;
        case AESGCM: if (!crypto_aead_aes256gcm_is_available()) return true; ref::aes256gcm_encrypt(key, nonce, ad, m, ct, tag); break;
        case AEGIS128L: ref::aegis128l_encrypt(key, nonce, ad, m, ct, tag, 32); break;
        default: ref::aegis256_encrypt(key, nonce, ad, m, ct, tag, 32); break;
        }
        Bytes want = ref::cat(ct, tag);
        XBuf mb(m, 3), kb(key, 1), nb(nonce, 2);
        typedef int (*EncF)(unsigned char *, unsigned long long *, const unsigned char *, unsigned long long, const unsigned char *, unsigned long long, const unsigned char *, const unsigned char *, const unsigned char *);
        typedef int (*DecF)(unsigned char *, unsigned long long *, unsigned char *, const unsigned char *, unsigned long long, const unsigned char *, unsigned long long, const unsigned char *, const unsigned char *);
        typedef int (*EncDF)(unsigned char *, unsigned char *, unsigned long long *, const unsigned char *, unsigned long long, const unsigned char *, unsigned long long, const unsigned char *, const unsigned char *, const unsigned char *);
        typedef int (*DecDF)(unsigned char *, unsigned char *, const unsigned char *, unsigned long long, const unsigned char *, const unsigned char *, unsigned long long, const unsigned char *, const unsigned char *);
        static const EncF ENC[] = { crypto_aead_chacha20poly1305_encrypt, crypto_aead_chacha20poly1305_ietf_encrypt, crypto_aead_xchacha20poly1305_ietf_encrypt, crypto_aead_aes256gcm_encrypt, crypto_aead_aegis128l_encrypt, crypto_aead_aegis256_encrypt };
        static const DecF DEC[] = { crypto_aead_chacha20poly1305_decrypt, crypto_aead_chacha20poly1305_ietf_decrypt, crypto_aead_xchacha20poly1305_ietf_decrypt, crypto_aead_aes256gcm_decrypt, crypto_aead_aegis128l_decrypt, crypto_aead_aegis256_decrypt };
        static const EncDF ENCD[] = { crypto_aead_chacha20poly1305_encrypt_detached, crypto_aead_chacha20poly1305_ietf_encrypt_detached, crypto_aead_xchacha20poly1305_ietf_encrypt_detached, crypto_aead_aes256gcm_encrypt_detached, crypto_aead_aegis128l_encrypt_detached, crypto_aead_aegis256_encrypt_detached };
        static const DecDF DECD[] = { crypto_aead_chacha20poly1305_decrypt_detached, crypto_aead_chacha20poly1305_ietf_decrypt_detached, crypto_aead_xchacha20poly1305_ietf_decrypt_detached, crypto_aead_aes256gcm_decrypt_detached, crypto_aead_aegis128l_decrypt_detached, crypto_aead_aegis256_decrypt_detached };
        {   // combined
            XBuf cb(ml + T, 5); unsigned long long cl = 12345;
            if (ENC[c.cons](cb.p, &cl, mb.p, ml, adp, al, nullptr, nb.p, kb.p) != 0) FAIL("%s encrypt returned non-zero", N);
            if (cl != ml + T) FAIL("%s encrypt reported ciphertext length %llu, expected %zu", N, cl, ml + T);
            if (!eq(N, "encrypt (combined)", cb.get(), want, msg)) return false;
            XBuf back(ml, 7); unsigned long long bl = 999;
            if (DEC[c.cons](back.p, &bl, nullptr, cb.p, ml + T, adp, al, nb.p, kb.p) != 0) FAIL("%s decrypt rejected its own ciphertext (mlen %zu, adlen %zu)", N, ml, al);
            if (bl != ml || back.get() != m) FAIL("%s decrypt did not return the original message / length", N);
            if (ENC[c.cons](cb.p, nullptr, mb.p, ml, adp, al, nullptr, nb.p, kb.p) != 0 || cb.get() != want) FAIL("%s encrypt with clen_p == NULL differs", N);
            // the decrypt call forms with optional outputs left out: no length output, and no message output at all (verify-only)
            XBuf back2(ml, 3);
            if (DEC[c.cons](back2.p, nullptr, nullptr, cb.p, ml + T, adp, al, nb.p, kb.p) != 0 || back2.get() != m) FAIL("%s decrypt with mlen_p == NULL disagrees with the full form (mlen %zu, adlen %zu)", N, ml, al);
            bl = 999;
            if (DEC[c.cons](nullptr, &bl, nullptr, cb.p, ml + T, adp, al, nb.p, kb.p) != 0) FAIL("%s decrypt with m == NULL (verify only) rejected a ciphertext that the decrypting form accepts (mlen %zu, adlen %zu)", N, ml, al);
            if (DEC[c.cons](nullptr, nullptr, nullptr, cb.p, ml + T, adp, al, nb.p, kb.p) != 0) FAIL("%s decrypt with m == NULL and mlen_p == NULL rejected a genuine ciphertext (mlen %zu, adlen %zu)", N, ml, al);
        }
        {   // detached
            XBuf cb(ml, 5), tb(T, 9); unsigned long long tl = 777;
            if (ENCD[c.cons](cb.p, tb.p, &tl, mb.p, ml, adp, al, nullptr, nb.p, kb.p) != 0) FAIL("%s encrypt_detached returned non-zero", N);
            if (tl != T) FAIL("%s encrypt_detached reported mac length %llu", N, tl);
            if (!eq(N, "encrypt_detached ciphertext", cb.get(), ct, msg) || !eq(N, "encrypt_detached tag", tb.get(), tag, msg)) return false;
            XBuf back(ml, 7);
            if (DECD[c.cons](back.p, nullptr, cb.p, ml, tb.p, adp, al, nb.p, kb.p) != 0 || back.get() != m) FAIL("%s decrypt_detached did not return the original message", N);
            if (DECD[c.cons](nullptr, nullptr, cb.p, ml, tb.p, adp, al, nb.p, kb.p) != 0) FAIL("%s decrypt_detached with m == NULL (verify only) rejected a genuine ciphertext (mlen %zu, adlen %zu)", N, ml, al);
        }
        if (c.cons == AESGCM) {   // precomputed key forms
            crypto_aead_aes256gcm_state *st = (crypto_aead_aes256gcm_state *) aligned_alloc(64, (sizeof(crypto_aead_aes256gcm_state) + 63) / 64 * 64);
            if (crypto_aead_aes256gcm_beforenm(st, kb.p) != 0) { free(st); FAIL("aes256gcm beforenm failed"); }
            XBuf cb(ml + T, 5), cd(ml, 6), tb(T, 9), back(ml, 7), back2(ml, 8); unsigned long long cl = 0, tl = 0, bl = 0; bool ok = true; std::string why;
            if (crypto_aead_aes256gcm_encrypt_afternm(cb.p, &cl, mb.p, ml, adp, al, nullptr, nb.p, st) != 0 || cl != ml + T || cb.get() != want) { ok = false; why = "encrypt_afternm"; }
            else if (crypto_aead_aes256gcm_decrypt_afternm(back.p, &bl, nullptr, cb.p, ml + T, adp, al, nb.p, st) != 0 || bl != ml || back.get() != m) { ok = false; why = "decrypt_afternm"; }
            else if (crypto_aead_aes256gcm_encrypt_detached_afternm(cd.p, tb.p, &tl, mb.p, ml, adp, al, nullptr, nb.p, st) != 0 || tl != T || cd.get() != ct || tb.get() != tag) { ok = false; why = "encrypt_detached_afternm"; }
            else if (crypto_aead_aes256gcm_decrypt_detached_afternm(back2.p, nullptr, cd.p, ml, tb.p, adp, al, nb.p, st) != 0 || back2.get() != m) { ok = false; why = "decrypt_detached_afternm"; }
            else if (crypto_aead_aes256gcm_decrypt_afternm(nullptr, nullptr, nullptr, cb.p, ml + T, adp, al, nb.p, st) != 0) { ok = false; why = "decrypt_afternm (m == NULL, verify only)"; }
            else if (crypto_aead_aes256gcm_decrypt_detached_afternm(nullptr, nullptr, cd.p, ml, tb.p, adp, al, nb.p, st) != 0) { ok = false; why = "decrypt_detached_afternm (m == NULL, verify only)"; }
            free(st);
            if (!ok) FAIL("aes256gcm %s disagrees with the one-shot form / specification (mlen %zu adlen %zu)", why.c_str(), ml, al);
        }
        return true;
    }
    // ---------------------------------------------------------------- secretbox
    if (c.cons == SBOX_XSALSA || c.cons == SBOX_XCHACHA) {
        bool x = c.cons == SBOX_XCHACHA;
        if (x) ref::secretbox_xchacha20poly1305(key, nonce, m, ct, tag); else ref::secretbox_xsalsa20poly1305(key, nonce, m, ct, tag);
        Bytes easy = ref::cat(tag, ct);
        XBuf mb(m, 3), kb(key, 1), nb(nonce, 2), cb(ml + 16, 5), cd(ml, 6), tb(16, 9), back(ml, 7), back2(ml, 8);
        int r1 = x ? crypto_secretbox_xchacha20poly1305_easy(cb.p, mb.p, ml, nb.p, kb.p) : crypto_secretbox_easy(cb.p, mb.p, ml, nb.p, kb.p);
        if (r1 != 0 || !eq(N, "easy", cb.get(), easy, msg)) { if (msg.empty()) msg = "easy returned non-zero"; return false; }
        int r2 = x ? crypto_secretbox_xchacha20poly1305_detached(cd.p, tb.p, mb.p, ml, nb.p, kb.p) : crypto_secretbox_detached(cd.p, tb.p, mb.p, ml, nb.p, kb.p);
        if (r2 != 0 || !eq(N, "detached ciphertext", cd.get(), ct, msg) || !eq(N, "detached tag", tb.get(), tag, msg)) { if (msg.empty()) msg = "detached returned non-zero"; return false; }
        int r3 = x ? crypto_secretbox_xchacha20poly1305_open_easy(back.p, cb.p, ml + 16, nb.p, kb.p) : crypto_secretbox_open_easy(back.p, cb.p, ml + 16, nb.p, kb.p);
        if (r3 != 0 || back.get() != m) FAIL("%s open_easy did not return the original message", N);
        int r4 = x ? crypto_secretbox_xchacha20poly1305_open_detached(back2.p, cd.p, tb.p, ml, nb.p, kb.p) : crypto_secretbox_open_detached(back2.p, cd.p, tb.p, ml, nb.p, kb.p);
        if (r4 != 0 || back2.get() != m) FAIL("%s open_detached did not return the original message", N);
        if (!x) {   // NaCl zero-padded form: 32 zero bytes || m  ->  16 zero bytes || tag || ct
            Bytes zm(32, 0); zm.insert(zm.end(), m.begin(), m.end());
            XBuf zmb(zm, 4), zc(ml + 32, 5), zback(ml + 32, 6);
            if (crypto_secretbox(zc.p, zmb.p, ml + 32, nb.p, kb.p) != 0) FAIL("crypto_secretbox returned non-zero");
            Bytes wantz(16, 0); wantz.insert(wantz.end(), easy.begin(), easy.end());
            if (!eq(N, "NaCl form (crypto_secretbox)", zc.get(), wantz, msg)) return false;
            if (crypto_secretbox_open(zback.p, zc.p, ml + 32, nb.p, kb.p) != 0 || zback.get() != zm) FAIL("crypto_secretbox_open did not return 32 zero bytes || message");
            XBuf zc2(ml + 32, 7);
            if (crypto_secretbox_xsalsa20poly1305(zc2.p, zmb.p, ml + 32, nb.p, kb.p) != 0 || zc2.get() != wantz) FAIL("crypto_secretbox_xsalsa20poly1305 differs from crypto_secretbox");
        }
        return true;
    }
    // ---------------------------------------------------------------- box
    if (c.cons == BOX_XSALSA || c.cons == BOX_XCHACHA) {
        bool x = c.cons == BOX_XCHACHA;
        uint64_t ia = c.seed % 3, ib = 3 + (c.seed / 3) % 3;
        KP &A = keypair(ia), &B = keypair(ib);
        Bytes k = shared_key(ia, ib, x);
        if (x) ref::secretbox_xchacha20poly1305(k, nonce, m, ct, tag); else ref::secretbox_xsalsa20poly1305(k, nonce, m, ct, tag);
        Bytes easy = ref::cat(tag, ct);
        XBuf mb(m, 3), nb(nonce, 2), pkb(B.pk, 1), skb(A.sk, 4), pka(A.pk, 5), skbb(B.sk, 6), cb(ml + 16, 5), cd(ml, 6), tb(16, 9), back(ml, 7), back2(ml, 8), kk(32, 10);
        int r0 = x ? crypto_box_curve25519xchacha20poly1305_beforenm(kk.p, pkb.p, skb.p) : crypto_box_beforenm(kk.p, pkb.p, skb.p);
        if (r0 != 0 || !eq(N, "beforenm", kk.get(), k, msg)) { if (msg.empty()) msg = "beforenm failed"; return false; }
        int r1 = x ? crypto_box_curve25519xchacha20poly1305_easy(cb.p, mb.p, ml, nb.p, pkb.p, skb.p) : crypto_box_easy(cb.p, mb.p, ml, nb.p, pkb.p, skb.p);
        if (r1 != 0 || !eq(N, "easy", cb.get(), easy, msg)) { if (msg.empty()) msg = "box_easy returned non-zero"; return false; }
        int r2 = x ? crypto_box_curve25519xchacha20poly1305_detached(cd.p, tb.p, mb.p, ml, nb.p, pkb.p, skb.p) : crypto_box_detached(cd.p, tb.p, mb.p, ml, nb.p, pkb.p, skb.p);
        if (r2 != 0 || !eq(N, "detached ciphertext", cd.get(), ct, msg) || !eq(N, "detached tag", tb.get(), tag, msg)) { if (msg.empty()) msg = "box_detached returned non-zero"; return false; }
        // the receiver opens with (pk_A, sk_B)
        int r3 = x ? crypto_box_curve25519xchacha20poly1305_open_easy(back.p, cb.p, ml + 16, nb.p, pka.p, skbb.p) : crypto_box_open_easy(back.p, cb.p, ml + 16, nb.p, pka.p, skbb.p);
        if (r3 != 0 || back.get() != m) FAIL("%s open_easy (receiver side) did not return the original message", N);
        int r4 = x ? crypto_box_curve25519xchacha20poly1305_open_detached(back2.p, cd.p, tb.p, ml, nb.p, pka.p, skbb.p) : crypto_box_open_detached(back2.p, cd.p, tb.p, ml, nb.p, pka.p, skbb.p);
        if (r4 != 0 || back2.get() != m) FAIL("%s open_detached did not return the original message", N);
        {   // afternm forms
            XBuf c2(ml + 16, 5), c3(ml, 6), t3(16, 7), b4(ml, 8), b5(ml, 9);
            int a1 = x ? crypto_box_curve25519xchacha20poly1305_easy_afternm(c2.p, mb.p, ml, nb.p, kk.p) : crypto_box_easy_afternm(c2.p, mb.p, ml, nb.p, kk.p);
            int a2 = x ? crypto_box_curve25519xchacha20poly1305_detached_afternm(c3.p, t3.p, mb.p, ml, nb.p, kk.p) : crypto_box_detached_afternm(c3.p, t3.p, mb.p, ml, nb.p, kk.p);
            if (a1 != 0 || a2 != 0 || c2.get() != easy || c3.get() != ct || t3.get() != tag) FAIL("%s afternm(beforenm(..)) forms differ from the direct forms", N);
            int a3 = x ? crypto_box_curve25519xchacha20poly1305_open_easy_afternm(b4.p, c2.p, ml + 16, nb.p, kk.p) : crypto_box_open_easy_afternm(b4.p, c2.p, ml + 16, nb.p, kk.p);
            int a4 = x ? crypto_box_curve25519xchacha20poly1305_open_detached_afternm(b5.p, c3.p, t3.p, ml, nb.p, kk.p) : crypto_box_open_detached_afternm(b5.p, c3.p, t3.p, ml, nb.p, kk.p);
            if (a3 != 0 || a4 != 0 || b4.get() != m || b5.get() != m) FAIL("%s open_*_afternm did not return the original message", N);
        }
        if (!x) {   // NaCl forms
            Bytes zm(32, 0); zm.insert(zm.end(), m.begin(), m.end());
            Bytes wantz(16, 0); wantz.insert(wantz.end(), easy.begin(), easy.end());
            XBuf zmb(zm, 4), zc(ml + 32, 5), zc2(ml + 32, 6), zback(ml + 32, 7), zback2(ml + 32, 8);
            if (crypto_box(zc.p, zmb.p, ml + 32, nb.p, pkb.p, skb.p) != 0 || !eq(N, "NaCl form (crypto_box)", zc.get(), wantz, msg)) { if (msg.empty()) msg = "crypto_box returned non-zero"; return false; }
            if (crypto_box_afternm(zc2.p, zmb.p, ml + 32, nb.p, kk.p) != 0 || zc2.get() != wantz) FAIL("crypto_box_afternm differs from crypto_box");
            if (crypto_box_open(zback.p, zc.p, ml + 32, nb.p, pka.p, skbb.p) != 0 || zback.get() != zm) FAIL("crypto_box_open did not return 32 zero bytes || message");
            if (crypto_box_open_afternm(zback2.p, zc.p, ml + 32, nb.p, kk.p) != 0 || zback2.get() != zm) FAIL("crypto_box_open_afternm did not return 32 zero bytes || message");
        }
        return true;
    }
    // ---------------------------------------------------------------- sealed boxes (ephemeral key served by the scripted source)
    {
        bool x = c.cons == SEAL_XCHACHA;
        KP &R = keypair(6 + c.seed % 2);
        Bytes esk = r.bytes(32), want;
        g_script = esk; g_pos = 0;
        if (!ref::box_seal(x, m, R.pk, esk, want)) return true;
        XBuf mb(m, 3), pk(R.pk, 1), sk(R.sk, 2), cb(ml + 48, 5), back(ml, 7);
        int r1 = x ? crypto_box_curve25519xchacha20poly1305_seal(cb.p, mb.p, ml, pk.p) : crypto_box_seal(cb.p, mb.p, ml, pk.p);
        g_script.clear();
        if (r1 != 0 || !eq(N, "seal", cb.get(), want, msg)) { if (msg.empty()) msg = "seal returned non-zero"; return false; }
        int r2 = x ? crypto_box_curve25519xchacha20poly1305_seal_open(back.p, cb.p, ml + 48, pk.p, sk.p) : crypto_box_seal_open(back.p, cb.p, ml + 48, pk.p, sk.p);
        if (r2 != 0 || back.get() != m) FAIL("%s seal_open did not return the original message", N);
        return true;
    }
}

std::vector<unsigned long> masks_for(int cons, bool thorough) {
    std::vector<std::string> names;
    switch (cons) {
    case CHACHA: case CHACHA_IETF: case XCHACHA: case SBOX_XCHACHA: names = { "all", "-avx2", "-ssse3", "none" }; break;
    case AESGCM: names = { "all", "-avx2" }; break;
    case AEGIS128L: case AEGIS256: names = { "all", "all-aes", "-avx" }; break;
    case SBOX_XSALSA: names = { "all", "-avx2", "none" }; break;
    default: names = { "all", "-avx", "none" }; break;
    }
    if (thorough && cons != AESGCM) names = { "all", "-avx512f", "-avx2", "-avx", "-sse41", "-ssse3", "-sse3", "none", "all-aes" };
    std::vector<unsigned long> out;
    for (auto &m : mask_set(true)) if (std::find(names.begin(), names.end(), m.name) != names.end()) out.push_back(m.mask);
    return out;
}
bool crosses(size_t n) { for (size_t b : { 16u, 32u, 64u, 112u, 224u, 256u, 512u }) if (n >= b) return true; return false; }
void go(Ctx &ctx, const Case &c, bool defmask) {
    exec_case(ctx, c, run, mix64(mix64(mix64(c.cons, c.mlen), mix64(c.adlen, c.mask)), c.mcls), (c.mlen + c.adlen > 0) && (crosses(c.mlen) || crosses(c.adlen) || !defmask));
}

void explore_lengths(Ctx &ctx) {
    init_once();
    Rng r = ctx.rng("c01-len");
    uint64_t idx = 0;
    static const size_t ADS[] = { 0, 1, 15, 16, 17, 31, 32, 33 };
    size_t full = ctx.thorough() ? 2200 : 320;
    std::vector<size_t> lens; for (size_t l = 0; l <= full; l++) lens.push_back(l);
    if (!ctx.thorough()) { for (size_t i = 0; i < 400; i++) lens.push_back(321 + (i * 4703) % 1880); }    // 400 sampled longer lengths up to 2200
    for (size_t ml : lens)
        for (int cons = 0; cons < NCONS; cons++) {
            bool seal = cons >= SEAL_XSALSA;
            uint64_t seed = r.next(); size_t adsel = r.below(10);
            if (seal && !ctx.thorough() && ml > 64 && ml % 9 != 0) continue;       // big-integer X25519 model per case
            if (!ctx.mine(idx++)) continue;
            auto masks = masks_for(cons, ctx.thorough());
            size_t adlen = cons <= AEGIS256 ? (adsel < 8 ? ADS[adsel] : (size_t) (seed % (adsel == 8 ? 300 : 2300))) : 0;
            for (size_t mi = 0; mi < masks.size(); mi++) {
                if (seal && mi > 0 && ml % 4 != 0) continue;
                go(ctx, Case{ cons, ml, adlen, seed, (int) (ml % 11 == 0 ? 1 + ml % 2 : 0), masks[mi] }, mi == 0);
            }
        }
    // every associated-data length 0..320 (thorough: 0..2200) plus 260 sampled lengths up to 2200, with mlen in {0, 1, random}
    std::vector<size_t> als; for (size_t l = 0; l <= (ctx.thorough() ? 2200u : 320u); l++) als.push_back(l);
    if (!ctx.thorough()) { for (size_t i = 0; i < 260; i++) als.push_back(321 + (i * 5711) % 1880); for (size_t b : { 447u, 448u, 449u, 671u, 672u, 673u, 895u, 896u, 897u, 1023u, 1024u, 1025u, 2047u, 2048u, 2049u }) als.push_back(b); }
    for (size_t al : als)
        for (int cons = 0; cons <= AEGIS256; cons++) {
            uint64_t seed = r.next();
            if (!ctx.mine(idx++)) continue;
            auto masks = masks_for(cons, ctx.thorough());
            for (size_t mi = 0; mi < masks.size(); mi++)
                for (size_t ml : { (size_t) 0, (size_t) 1, (size_t) (seed % 200) }) go(ctx, Case{ cons, ml, al, seed, 0, masks[mi] }, mi == 0);
        }
}

void explore_large(Ctx &ctx) {
    init_once();
    Rng r = ctx.rng("c01-large");
    uint64_t idx = 0;
    size_t n = ctx.thorough() ? 40 : 8;
    for (int cons = 0; cons < SEAL_XSALSA; cons++)
        for (size_t i = 0; i < n; i++) {
            uint64_t seed = r.next();
            size_t ml = 2201 + r.below(i == 0 ? (ctx.thorough() ? (8u << 20) : (256u << 10)) : 65536), al = r.below(300);
            if (cons == AESGCM && !ctx.thorough() && i > 3) continue;
            if (!ctx.mine(idx++)) continue;
            auto masks = masks_for(cons, false);
            go(ctx, Case{ cons, ml, al, seed, 0, masks[i % masks.size()] }, i % masks.size() == 0);
        }
    // messages around one, two and three MiB: an implementation that processes long inputs in pieces would use such a piece size
    std::vector<size_t> big = { ((size_t) 1 << 20) + 1, ((size_t) 1 << 20) + 65, ((size_t) 1 << 21) + 17 };
    if (ctx.thorough()) for (size_t l : { ((size_t) 1 << 20) - 1, (size_t) 1 << 20, ((size_t) 1 << 21) - 1, ((size_t) 3 << 20) + 5, ((size_t) 1 << 22) + 1, ((size_t) 1 << 16) + 1, ((size_t) 1 << 18) + 1 }) big.push_back(l);
    for (int cons = 0; cons < SEAL_XSALSA; cons++)
        for (size_t bi = 0; bi < big.size(); bi++) {
            uint64_t seed = r.next();
            if (cons == AESGCM && !ctx.thorough() && bi > 0) continue;
            if (!ctx.mine(idx++)) continue;
            auto masks = masks_for(cons, false);
            go(ctx, Case{ cons, big[bi], (size_t) (seed % 40), seed, 0, masks[(bi + (size_t) cons) % masks.size()] }, true);
        }
}

// ------------------------------------------------------------------ messages of 4 GiB and more (thorough tier, non-sanitizer build, first round)
// One real buffer of 2^32 + 77 bytes is encrypted in place.  ChaCha20-Poly1305 (three variants) and the two secretboxes: windows of the
// ciphertext around 2^32 and at the end against plaintext XOR the model keystream at that offset; the tag against a composition - one-time key
// from the model, the MAC input of the construction fed through the library's streaming Poly1305 (its correctness over such lengths is C04's
// claim).  AES-256-GCM: ciphertext windows against the model's counter mode at that block; AEGIS: the ciphertext of the first 1024 bytes equals
// the ciphertext of that prefix alone.  All: decryption in place succeeds and restores the sampled plaintext windows.
struct GMCase { int cons; size_t len; unsigned long mask; KV kv() const { KV k; k.s("kind", "giant").s("cons", CN[cons]).u("consi", cons).u("len", len).u("mask", mask); return k; } };
uint64_t g_giant_skipped = 0;
bool run_giant(const GMCase &c, std::string &msg) {
    init_once(); set_mask(c.mask);
    if (c.cons == AESGCM && !crypto_aead_aes256gcm_is_available()) return true;
    if (!giant::have_memory(c.len)) { g_giant_skipped++; return true; }
    giant::Map M(c.len); if (!M.ok()) { g_giant_skipped++; return true; }
    M.fill(0xc01 + (uint64_t) c.cons);
    Bytes key(KEYB[c.cons]), nonce(NONCEB[c.cons]), ad(37); for (size_t i = 0; i < key.size(); i++) key[i] = (uint8_t) (i * 13 + 2 + (size_t) c.cons); for (size_t i = 0; i < nonce.size(); i++) nonce[i] = (uint8_t) (0x90 + i); for (size_t i = 0; i < ad.size(); i++) ad[i] = (uint8_t) (i * 3 + 7);
    bool sbox = c.cons == SBOX_XSALSA || c.cons == SBOX_XCHACHA, poly = c.cons <= XCHACHA || sbox;
    const size_t G = (size_t) 1 << 32, L = c.len, sh = sbox ? 32 : 0;      // secretbox: the message keystream starts 32 bytes into block 0
    std::vector<size_t> ws = { 0 + sh, 64 + sh, G - 128 + sh, G - 64 + sh, G + sh, (L - 1 - sh) / 64 * 64 + sh - 64, L / 2 / 64 * 64 + sh };
    if (sbox) ws.push_back(0);
    std::vector<Bytes> pts; for (size_t w : ws) pts.push_back(Bytes(M.p + w, M.p + w + std::min<size_t>(128, L - w)));
    Bytes prefix(M.p, M.p + 1024);
    unsigned char mac[32]; unsigned long long ml = 0; int r;
    switch (c.cons) {
    case CHACHA: r = crypto_aead_chacha20poly1305_encrypt_detached(M.p, mac, &ml, M.p, L, D(ad), ad.size(), nullptr, D(nonce), D(key)); break;
    case CHACHA_IETF: r = crypto_aead_chacha20poly1305_ietf_encrypt_detached(M.p, mac, &ml, M.p, L, D(ad), ad.size(), nullptr, D(nonce), D(key)); break;
    case XCHACHA: r = crypto_aead_xchacha20poly1305_ietf_encrypt_detached(M.p, mac, &ml, M.p, L, D(ad), ad.size(), nullptr, D(nonce), D(key)); break;
    case AESGCM: r = crypto_aead_aes256gcm_encrypt_detached(M.p, mac, &ml, M.p, L, D(ad), ad.size(), nullptr, D(nonce), D(key)); break;
    case AEGIS128L: r = crypto_aead_aegis128l_encrypt_detached(M.p, mac, &ml, M.p, L, D(ad), ad.size(), nullptr, D(nonce), D(key)); break;
    case AEGIS256: r = crypto_aead_aegis256_encrypt_detached(M.p, mac, &ml, M.p, L, D(ad), ad.size(), nullptr, D(nonce), D(key)); break;
    case SBOX_XSALSA: r = crypto_secretbox_detached(M.p, mac, M.p, L, D(nonce), D(key)); ml = 16; break;
    default: r = crypto_secretbox_xchacha20poly1305_detached(M.p, mac, M.p, L, D(nonce), D(key)); ml = 16; break;
    }
    if (r != 0 || ml != TAGB[c.cons]) FAIL("%s: encrypting %zu bytes in place returned %d (tag length %llu)", CN[c.cons], L, r, ml);
    // ---- ciphertext windows
    Bytes sub, n12;
    if (c.cons == XCHACHA) { sub = ref::hchacha20(key, Bytes(nonce.begin(), nonce.begin() + 16)); n12 = Bytes(4, 0); n12.insert(n12.end(), nonce.begin() + 16, nonce.end()); }
    auto keystream = [&](size_t off, size_t n) -> Bytes {       // keystream of the construction's cipher at byte offset `off` (multiple of 64) of its stream
        switch (c.cons) {
        case CHACHA: return ref::chacha20_stream(key, nonce, off / 64, n);
        case CHACHA_IETF: return ref::chacha20_ietf_stream(key, nonce, (uint32_t) (off / 64), n);
        case XCHACHA: return ref::chacha20_ietf_stream(sub, n12, (uint32_t) (off / 64), n);
        case SBOX_XSALSA: return ref::xsalsa20_stream(key, nonce, off / 64, n);
        default: return ref::xchacha20_stream(key, nonce, off / 64, n);
        }
    };
    if (poly) {
        for (size_t i = 0; i < ws.size(); i++) {
            size_t w = ws[i], n = pts[i].size();
            size_t soff = sbox ? w + 32 : w + 64;                    // AEADs: block 0 is the one-time key, the message starts at block 1
            Bytes ks = keystream(soff / 64 * 64, n + soff % 64); ks.erase(ks.begin(), ks.begin() + (long) (soff % 64));
            for (size_t j = 0; j < n; j++) if (M.p[w + j] != (uint8_t) (pts[i][j] ^ ks[j])) FAIL("%s over %zu bytes: ciphertext byte %zu differs from plaintext XOR keystream (block %zu)", CN[c.cons], L, w + j, (soff + j) / 64);
        }
        // ---- tag by composition
        Bytes otk = keystream(0, 32);
        crypto_onetimeauth_state st; crypto_onetimeauth_init(&st, otk.data());
        static const unsigned char zero[16] = { 0 }; unsigned char le[8]; unsigned char want[16];
        auto le64 = [&](uint64_t v) { for (int i = 0; i < 8; i++) le[i] = (unsigned char) (v >> (8 * i)); crypto_onetimeauth_update(&st, le, 8); };
        if (c.cons == CHACHA) { crypto_onetimeauth_update(&st, D(ad), ad.size()); le64(ad.size()); crypto_onetimeauth_update(&st, M.p, L); le64(L); }
        else if (!sbox) { crypto_onetimeauth_update(&st, D(ad), ad.size()); crypto_onetimeauth_update(&st, zero, (16 - ad.size() % 16) % 16); crypto_onetimeauth_update(&st, M.p, L); crypto_onetimeauth_update(&st, zero, (16 - L % 16) % 16); le64(ad.size()); le64(L); }
        else crypto_onetimeauth_update(&st, M.p, L);
        crypto_onetimeauth_final(&st, want);
        if (memcmp(want, mac, 16) != 0) FAIL("%s over %zu bytes: the tag differs from Poly1305(one-time key, MAC input of the construction) computed by composition", CN[c.cons], L);
    } else if (c.cons == AESGCM) {
        uint8_t rk[15][16]; ref::aes256_key_expand(key.data(), rk);
        for (size_t i = 0; i < ws.size(); i++) {
            size_t w = ws[i], n = pts[i].size(); uint8_t icb[16]; memcpy(icb, nonce.data(), 12); ref::st32be(icb + 12, (uint32_t) (2 + w / 16));
            Bytes ct = ref::gcm_gctr(rk, icb, pts[i]);
            if (memcmp(M.p + w, ct.data(), n) != 0) FAIL("aes256gcm over %zu bytes: ciphertext window at byte %zu differs from counter mode at block %zu", L, w, w / 16);
        }
    }
    if (c.cons == AEGIS128L || c.cons == AEGIS256 || c.cons == AESGCM) {
        Bytes pc(1024); unsigned char pm[32];
        if (c.cons == AEGIS128L) crypto_aead_aegis128l_encrypt_detached(pc.data(), pm, &ml, prefix.data(), 1024, D(ad), ad.size(), nullptr, D(nonce), D(key));
        else if (c.cons == AEGIS256) crypto_aead_aegis256_encrypt_detached(pc.data(), pm, &ml, prefix.data(), 1024, D(ad), ad.size(), nullptr, D(nonce), D(key));
        else crypto_aead_aes256gcm_encrypt_detached(pc.data(), pm, &ml, prefix.data(), 1024, D(ad), ad.size(), nullptr, D(nonce), D(key));
        if (memcmp(pc.data(), M.p, 1024) != 0) FAIL("%s over %zu bytes: the first 1024 ciphertext bytes differ from the ciphertext of that prefix alone", CN[c.cons], L);
        if (memcmp(pm, mac, TAGB[c.cons]) == 0) FAIL("%s over %zu bytes: the tag equals the tag of the 1024-byte prefix", CN[c.cons], L);
    }
    // ---- decryption in place
    switch (c.cons) {
    case CHACHA: r = crypto_aead_chacha20poly1305_decrypt_detached(M.p, nullptr, M.p, L, mac, D(ad), ad.size(), D(nonce), D(key)); break;
    case CHACHA_IETF: r = crypto_aead_chacha20poly1305_ietf_decrypt_detached(M.p, nullptr, M.p, L, mac, D(ad), ad.size(), D(nonce), D(key)); break;
    case XCHACHA: r = crypto_aead_xchacha20poly1305_ietf_decrypt_detached(M.p, nullptr, M.p, L, mac, D(ad), ad.size(), D(nonce), D(key)); break;
    case AESGCM: r = crypto_aead_aes256gcm_decrypt_detached(M.p, nullptr, M.p, L, mac, D(ad), ad.size(), D(nonce), D(key)); break;
    case AEGIS128L: r = crypto_aead_aegis128l_decrypt_detached(M.p, nullptr, M.p, L, mac, D(ad), ad.size(), D(nonce), D(key)); break;
    case AEGIS256: r = crypto_aead_aegis256_decrypt_detached(M.p, nullptr, M.p, L, mac, D(ad), ad.size(), D(nonce), D(key)); break;
    case SBOX_XSALSA: r = crypto_secretbox_open_detached(M.p, M.p, mac, L, D(nonce), D(key)); break;
    default: r = crypto_secretbox_xchacha20poly1305_open_detached(M.p, M.p, mac, L, D(nonce), D(key)); break;
    }
    if (r != 0) FAIL("%s: decrypting its own %zu-byte ciphertext returned %d", CN[c.cons], L, r);
    for (size_t i = 0; i < ws.size(); i++) if (memcmp(M.p + ws[i], pts[i].data(), pts[i].size()) != 0) FAIL("%s over %zu bytes: decryption does not restore the plaintext at byte %zu", CN[c.cons], L, ws[i]);
    return true;
}
void explore_giant(Ctx &ctx) {
    init_once();
    if (!ctx.thorough() || !giant::fast_build() || !giant::first_round()) { ctx.notes["giant_messages"] = "thorough tier, non-sanitizer build, first round only"; return; }
    uint64_t idx = 0;
    for (int cons : { CHACHA, CHACHA_IETF, XCHACHA, AESGCM, AEGIS128L, AEGIS256, SBOX_XSALSA, SBOX_XCHACHA }) {
        uint64_t i = idx++;
        if (ctx.worker != (int) (i % (uint64_t) std::min(ctx.nworkers, 2))) continue;       // two 4 GiB buffers at a time at most
        GMCase c{ cons, ((size_t) 1 << 32) + 77, F_ALL };
        exec_case(ctx, c, run_giant, mix64(cons, c.len), true);
    }
    ctx.notes["giant_messages_skipped_no_memory"] = std::to_string(g_giant_skipped);
}

bool replay(const KV &k, std::string &msg) {
    if (k.gs("kind") == "giant") { GMCase c{ (int) k.gu("consi"), (size_t) k.gu("len"), (unsigned long) k.gu("mask") }; return run_giant(c, msg); }
    Case c; c.cons = -1;
    for (int i = 0; i < NCONS; i++) if (k.gs("cons") == CN[i]) c.cons = i;
    if (c.cons < 0) { msg = "unknown construction"; return false; }
    c.mlen = k.gu("mlen"); c.adlen = k.gu("adlen"); c.seed = k.gu("seed"); c.mcls = (int) k.gu("mcls"); c.mask = k.gu("mask");
    return run(c, msg);
}

}  // namespace

std::vector<Sub> vh_subs() { return { { "lengths", explore_lengths, replay }, { "large", explore_large, replay }, { "giant_messages", explore_giant, replay } }; }
