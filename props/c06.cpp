// C06 -- Ed25519: RFC 8032 signing, complete and sound strict verification, key conversion.
// Oracle: ref/ed25519.hpp (RFC 8032 on big integers) + the acceptance predicate of the property.
#include "vh_main.hpp"
#include "giant.hpp"
#include "vh_rc.hpp"
#include "ed25519.hpp"
#include "x25519.hpp"
using namespace vh;

namespace {

inline const uint8_t *D(const Bytes &b) { static uint8_t z[8]; return b.empty() ? z : b.data(); }
inline uint8_t *D(Bytes &b) { static uint8_t z[8]; return b.empty() ? z : b.data(); }
using ref::U;

// ------------------------------------------------------------------ honest direction
struct HCase {
    Bytes seed; uint64_t mseed; size_t mlen; std::vector<size_t> chunks;
    KV kv() const { KV k; k.s("kind", "honest").b("seed", seed).u("mseed", mseed).u("mlen", mlen); std::string cs; for (size_t c : chunks) { if (!cs.empty()) cs += ","; cs += std::to_string(c); } k.s("chunks", cs.empty() ? "-" : cs); return k; }
};
bool run_honest(const HCase &c, std::string &msg) {
    set_mask(F_ALL);
    Bytes m = bytes_from_seed(c.mseed, c.mlen);
    Bytes pk, sk; ref::ed25519_seed_keypair(c.seed, pk, sk);
    XBuf lpk(32, 1), lsk(64, 2), sd(c.seed, 3);
    if (crypto_sign_seed_keypair(lpk.p, lsk.p, sd.p) != 0 || lpk.get() != pk || lsk.get() != sk) { msg = "crypto_sign_seed_keypair differs from RFC 8032 key generation"; return false; }
    {   // sk_to_seed / sk_to_pk
        XBuf s2(32, 4), p2(32, 5);
        if (crypto_sign_ed25519_sk_to_seed(s2.p, lsk.p) != 0 || s2.get() != c.seed || crypto_sign_ed25519_sk_to_pk(p2.p, lsk.p) != 0 || p2.get() != pk) { msg = "sk_to_seed / sk_to_pk inconsistent"; return false; }
    }
    Bytes want = ref::ed25519_sign(m, sk);
    XBuf mb(m, 6), sig(64, 7); unsigned long long sl = 0;
    if (crypto_sign_detached(sig.p, &sl, mb.p, m.size(), lsk.p) != 0 || sl != 64) { msg = "crypto_sign_detached failed"; return false; }
    if (sig.get() != want) { msg = "crypto_sign_detached differs from RFC 8032: got " + hex(sig.get()) + " want " + hex(want); return false; }
    XBuf sm(m.size() + 64, 8); unsigned long long sml = 0;
    if (crypto_sign(sm.p, &sml, mb.p, m.size(), lsk.p) != 0 || sml != m.size() + 64 || sm.get() != ref::cat(want, m)) { msg = "crypto_sign (combined) is not signature || message"; return false; }
    if (crypto_sign_verify_detached(sig.p, mb.p, m.size(), lpk.p) != 0) { msg = "an honest signature was rejected by crypto_sign_verify_detached"; return false; }
    XBuf back(m.size(), 9); unsigned long long bl = 77;
    if (crypto_sign_open(back.p, &bl, sm.p, sml, lpk.p) != 0 || bl != m.size() || back.get() != m) { msg = "an honest signed message was rejected / altered by crypto_sign_open"; return false; }
    // the message output and the length output are optional (only sm and pk are declared nonnull)
    bl = 0xdeadbeefULL;
    if (crypto_sign_open(nullptr, &bl, sm.p, sml, lpk.p) != 0 || bl != m.size()) { msg = "crypto_sign_open(m == NULL) rejected an honest signed message or did not report its length (got " + std::to_string(bl) + ")"; return false; }
    { XBuf back3(m.size(), 3); if (crypto_sign_open(back3.p, nullptr, sm.p, sml, lpk.p) != 0 || back3.get() != m) { msg = "crypto_sign_open(mlen_p == NULL) rejected / altered an honest signed message"; return false; } }
    if (!m.empty()) { XBuf bad(sm.get(), 4); bad.p[64 + m.size() / 2] ^= 0x20; bl = 0xdeadbeefULL;
        if (crypto_sign_open(nullptr, &bl, bad.p, sml, lpk.p) != -1 || bl != 0) { msg = "crypto_sign_open(m == NULL) on an altered message: must return -1 and report length 0 (reported " + std::to_string(bl) + ")"; return false; } }
    // pre-hashed multi-part
    Bytes wantph = ref::ed25519ph_sign(m, sk);
    crypto_sign_state st; XBuf sigph(64, 10); unsigned long long spl = 0;
    crypto_sign_init(&st);
    { size_t off = 0; for (size_t cs : c.chunks) { XBuf ch(Bytes(m.begin() + off, m.begin() + off + cs), off % 16); crypto_sign_update(&st, ch.p, cs); off += cs; } if (off < m.size()) { XBuf ch(Bytes(m.begin() + off, m.end()), 1); crypto_sign_update(&st, ch.p, m.size() - off); } }
    if (crypto_sign_final_create(&st, sigph.p, &spl, lsk.p) != 0 || spl != 64 || sigph.get() != wantph) { msg = "Ed25519ph init/update/final_create differs from RFC 8032 Ed25519ph"; return false; }
    crypto_sign_init(&st); crypto_sign_update(&st, mb.p, m.size());
    if (crypto_sign_final_verify(&st, sigph.p, lpk.p) != 0) { msg = "an honest Ed25519ph signature was rejected by final_verify"; return false; }
    // a ph signature is not a pure signature and vice versa
    if (crypto_sign_verify_detached(sigph.p, mb.p, m.size(), lpk.p) == 0) { msg = "Ed25519ph signature accepted as pure Ed25519"; return false; }
    // conversion commutes with public-key derivation
    XBuf xpk(32, 11), xsk(32, 12), xb(32, 13);
    Bytes wx; ref::ed25519_pk_to_x25519(pk, wx);
    if (crypto_sign_ed25519_pk_to_curve25519(xpk.p, lpk.p) != 0 || xpk.get() != wx) { msg = "pk_to_curve25519 != (1+y)/(1-y)"; return false; }
    if (crypto_sign_ed25519_sk_to_curve25519(xsk.p, lsk.p) != 0 || xsk.get() != ref::ed25519_sk_to_x25519(sk)) { msg = "sk_to_curve25519 != clamp(SHA-512(seed)[0..32))"; return false; }
    if (crypto_scalarmult_base(xb.p, xsk.p) != 0 || xb.get() != xpk.get()) { msg = "Ed25519->X25519 conversion does not commute with public-key derivation"; return false; }
    return true;
}

// ------------------------------------------------------------------ adversarial direction
const char *AK[] = { "honest", "S+kL", "S-highbits", "R=torsion", "A=torsion", "R+torsion", "bitflip", "pk-noncanonical", "A+torsion", "R=torsion-alias", "A=torsion-alias", "random-sig" };
struct ACase {
    int kind; Bytes sig, msg, pk; bool ph;
    KV kv() const { KV k; k.s("kind", "adv").s("how", AK[kind]).b("sig", sig).b("msg", msg).b("pk", pk).u("ph", ph); return k; }
};
bool predicate(const ref::VerifyInfo &vi) {
    return vi.len_ok && vi.s_canonical && vi.pk_canonical && !vi.pk_neg_zero && vi.pk_decodes && !vi.pk_small_order && vi.r_decodes && !vi.r_small_order && vi.cofactored_eq;
}
std::string why_not(const ref::VerifyInfo &vi) {
    std::string s;
    if (!vi.s_canonical) s += " S>=L";
    if (!vi.pk_canonical || vi.pk_neg_zero) s += " pk-non-canonical";
    if (!vi.pk_decodes) s += " pk-not-on-curve";
    if (vi.pk_small_order) s += " pk-small-order";
    if (!vi.r_decodes) s += " R-not-on-curve";
    if (vi.r_small_order) s += " R-small-order";
    if (vi.pk_decodes && vi.r_decodes && !vi.cofactored_eq) s += " equation-fails";
    return s;
}
bool run_adv(const ACase &c, std::string &msg) {
    set_mask(F_ALL);
    ref::VerifyInfo vi = ref::ed25519_verify_info(c.sig, c.msg, c.pk, c.ph);
    bool ok_model = predicate(vi);
    XBuf sig(c.sig, 1), mb(c.msg, 2), pk(c.pk, 3);
    int r_det, r_open = 1;
    if (c.ph) { crypto_sign_state st; crypto_sign_init(&st); crypto_sign_update(&st, mb.p, c.msg.size()); r_det = crypto_sign_final_verify(&st, sig.p, pk.p); }
    else {
        r_det = crypto_sign_verify_detached(sig.p, mb.p, c.msg.size(), pk.p);
        Bytes smv = ref::cat(c.sig, c.msg); XBuf sm(smv, 4), out(c.msg.size(), 5); unsigned long long ml = 55;
        r_open = crypto_sign_open(out.p, &ml, sm.p, smv.size(), pk.p);
        if ((r_open == 0) != (r_det == 0)) { msg = "crypto_sign_open and crypto_sign_verify_detached disagree on the same triple"; return false; }
        if (r_open == 0 && (ml != c.msg.size() || out.get() != c.msg)) { msg = "crypto_sign_open accepted but returned a different message"; return false; }
        { unsigned long long ml2 = 0x5151; int r2 = crypto_sign_open(nullptr, &ml2, sm.p, smv.size(), pk.p);
          if ((r2 == 0) != (r_open == 0) || ml2 != (r_open == 0 ? c.msg.size() : 0)) { msg = "crypto_sign_open(m == NULL) disagrees with the full form on verdict or reported length"; return false; } }
    }
    if (r_det == 0 && !ok_model) { msg = std::string("verification ACCEPTED a triple (") + AK[c.kind] + ") that violates a necessary condition:" + why_not(vi); return false; }
    if (c.kind == 0 && r_det != 0) { msg = "honest signature rejected"; return false; }
    return true;
}

struct Keys { Bytes seed, pk, sk; U a; Bytes prefix; };
Keys make_keys(const Bytes &seed) { Keys k; k.seed = seed; ref::ed25519_seed_keypair(seed, k.pk, k.sk); Bytes h = ref::sha512(seed); k.a = ref::u_from_le(ref::ed25519_clamp(ref::sub(h, 0, 32))); k.prefix = ref::sub(h, 32, 32); return k; }
U hram(const Bytes &R, const Bytes &A, const Bytes &M, bool ph) { Bytes m2 = ph ? ref::sha512(M) : M; return ref::sc_reduce(ref::u_from_le(ref::sha512(ref::cat(ref::cat(ref::ed25519_dom2(ph), R), ref::cat(A, m2))))); }

// encodings of a (torsion) point: canonical plus the non-canonical aliases (y + p, sign bit on x == 0)
std::vector<Bytes> aliases(const ref::Pt &t) {
    std::vector<Bytes> v; Bytes e = ref::pt_encode(t); v.push_back(e);
    U y = ref::fp_red(t.y);
    if (ref::u_cmp(y, U(19)) < 0) { Bytes a = ref::u_to_le(ref::u_add(y, ref::P25519()), 32); a[31] |= (e[31] & 0x80); v.push_back(a); if (ref::u_is_zero(ref::fp_red(t.x))) { Bytes b2 = a; b2[31] ^= 0x80; v.push_back(b2); } }
    if (ref::u_is_zero(ref::fp_red(t.x))) { Bytes b2 = e; b2[31] ^= 0x80; v.push_back(b2); }
    return v;
}

ACase make_adv(int kind, const Bytes &seed, const Bytes &m, bool ph, uint64_t sel, size_t pos) {
    Keys K = make_keys(seed);
    ACase c; c.kind = kind; c.msg = m; c.pk = K.pk; c.ph = ph;
    Bytes sig = ph ? ref::ed25519ph_sign(m, K.sk) : ref::ed25519_sign(m, K.sk);
    Bytes Rb = ref::sub(sig, 0, 32), Sb = ref::sub(sig, 32, 32);
    const auto &T = ref::torsion_points();
    Bytes m2 = ph ? ref::sha512(m) : m;
    U r = ref::sc_reduce(ref::u_from_le(ref::sha512(ref::cat(ref::cat(ref::ed25519_dom2(ph), K.prefix), m2))));
    switch (kind) {
    case 0: c.sig = sig; break;
    case 1: { U s = ref::u_from_le(Sb); int k = 1 + (int) (sel % 15); for (int i = 0; i < k; i++) s = ref::u_add(s, ref::L25519()); if (ref::u_bitlen(s) > 256) s = ref::u_add(ref::u_from_le(Sb), ref::L25519()); c.sig = ref::cat(Rb, ref::u_to_le(s, 32)); break; }
    case 2: { Bytes s = Sb; s[31] |= (uint8_t) (0x10 << (sel % 4)); c.sig = ref::cat(Rb, s); break; }
    case 3: case 9: {   // R is a torsion point, S = h*a so that the cofactored equation holds
        const ref::Pt &t = T[sel % 8]; auto al = aliases(t); Bytes R = kind == 3 ? al[0] : al[(sel / 8) % al.size()];
        U h = hram(R, K.pk, m, ph); c.sig = ref::cat(R, ref::sc_to_bytes32(ref::sc_mul(h, K.a))); break; }
    case 4: case 10: {  // A is a torsion point, R = s*B, S = s
        const ref::Pt &t = T[sel % 8]; auto al = aliases(t); c.pk = kind == 4 ? al[0] : al[(sel / 8) % al.size()];
        U s = ref::sc_reduce(ref::u_from_le(ref::sha512(seed))); Bytes R = ref::pt_encode(ref::pt_mul(s, ref::ED_B()));
        c.sig = ref::cat(R, ref::sc_to_bytes32(s)); break; }
    case 5: {   // R' = R + T with matching S: cofactored-valid, the library may accept or reject
        ref::Pt Rp = ref::pt_add(ref::pt_mul(r, ref::ED_B()), T[1 + sel % 7]); Bytes R = ref::pt_encode(Rp);
        U h = hram(R, K.pk, m, ph); c.sig = ref::cat(R, ref::sc_to_bytes32(ref::sc_add(r, ref::sc_mul(h, K.a)))); break; }
    case 6: {   // single-bit flip in signature, message or key
        c.sig = sig; size_t which = sel % 3;
        if (which == 0) c.sig[(pos / 8) % 64] ^= (uint8_t) (1u << (pos % 8));
        else if (which == 1 && !m.empty()) c.msg[(pos / 8) % m.size()] ^= (uint8_t) (1u << (pos % 8));
        else c.pk[(pos / 8) % 32] ^= (uint8_t) (1u << (pos % 8));
        break; }
    case 7: {   // pk is a non-canonical alias (y + p) of a curve point with y < 19
        static std::vector<Bytes> nc;
        if (nc.empty()) for (uint64_t y = 0; y < 19; y++) for (int sign = 0; sign < 2; sign++) { Bytes e = ref::u_to_le(ref::u_add(U(y), ref::P25519()), 32); if (sign) e[31] |= 0x80; ref::Dec d = ref::pt_decode_ex(e); if (d.ok_lenient) nc.push_back(e); }
        c.pk = nc[sel % nc.size()]; c.sig = sig; break; }
    case 8: {   // A' = A + T (mixed order), signed with a: cofactored-valid
        ref::Pt Ap = ref::pt_add(ref::pt_mul(K.a, ref::ED_B()), T[1 + sel % 7]); c.pk = ref::pt_encode(Ap);
        U h = hram(Rb, c.pk, m, ph); c.sig = ref::cat(Rb, ref::sc_to_bytes32(ref::sc_add(r, ref::sc_mul(h, K.a)))); break; }
    default: { Rng rr(sel); c.sig = rr.bytes(64); c.sig[63] &= 0x0f; break; }
    }
    return c;
}

uint64_t hkey(const HCase &c) { return mix64(mix64(c.mlen, c.chunks.size()), hash_bytes(c.seed.data(), 32)); }

void explore_honest(Ctx &ctx) {
    // every message length 0..300 with generated seeds, then sampled larger
    Rng r = ctx.rng("c06-honest");
    uint64_t idx = 0;
    size_t maxl = ctx.thorough() ? 700 : 300;
    for (size_t len = 0; len <= maxl; len++) {
        HCase c{ r.bytes_class(32, r.below(20) == 0 ? (int) r.below(5) : 0), r.next(), len, { len / 3, 0, len / 2 - len / 3 } };
        if (!ctx.mine(idx++)) continue;
        exec_case(ctx, c, run_honest, hkey(c), true);
    }
    for (size_t i = 0; i < (ctx.thorough() ? 200u : 24u); i++) {
        HCase c{ r.bytes(32), r.next(), 301 + r.below(i % 6 == 0 ? 65536 : 4000), {} };
        size_t left = c.mlen; while (left) { size_t k = std::min<size_t>(left, 1 + r.below(3000)); c.chunks.push_back(k); left -= k; }
        if (!ctx.mine(idx++)) continue;
        exec_case(ctx, c, run_honest, hkey(c), true);
    }
}

void explore_adversarial(Ctx &ctx) {
    rc_explore<ACase>(ctx, "c06-adv", ctx.thorough() ? 300000 : 16000, 100, [&]() {
        int kind = *rc::gen::weightedElement<int>({ { 1, 0 }, { 3, 1 }, { 2, 2 }, { 4, 3 }, { 4, 4 }, { 3, 5 }, { 6, 6 }, { 2, 7 }, { 3, 8 }, { 3, 9 }, { 3, 10 }, { 1, 11 } });
        Bytes seed = *rc::gen::container<Bytes>(32, rc::gen::arbitrary<uint8_t>());
        size_t mlen = *rc::gen::weightedOneOf<size_t>({ { 1, rc::gen::just<size_t>(0) }, { 4, rc::gen::inRange<size_t>(1, 40) }, { 1, rc::gen::inRange<size_t>(40, 300) } });
        Bytes m = bytes_from_seed(*rc::gen::arbitrary<uint64_t>(), mlen);
        bool ph = *rc::gen::inRange(0, 5) == 0;
        uint64_t sel = *rc::gen::arbitrary<uint64_t>(); size_t pos = *rc::gen::inRange<size_t>(0, 4096);
        ACase c = make_adv(kind, seed, m, ph, sel, pos);
        ctx.cls(std::string("adv=") + AK[kind]);
        ref::VerifyInfo vi = ref::ed25519_verify_info(c.sig, c.msg, c.pk, c.ph);
        if (!predicate(vi)) { std::string w = why_not(vi); size_t n = std::count(w.begin(), w.end(), ' '); if (n == 1) ctx.cls("single-reason:" + w); } else ctx.cls("predicate-holds");
        return c;
    }, run_adv, [](const ACase &c) { return mix64(mix64(c.kind, hash_bytes(c.sig.data(), c.sig.size())), hash_bytes(c.pk.data(), 32)); }, [](const ACase &c) { return c.kind != 0; });
}

// deterministic sweep: all 8 torsion points and all their aliases as R and as A; every bit of sig and pk flipped once
void explore_sweep(Ctx &ctx) {
    Rng r = ctx.rng("c06-sweep");
    uint64_t idx = 0;
    for (int ph = 0; ph < 2; ph++)
        for (uint64_t ti = 0; ti < 8; ti++)
            for (uint64_t ai = 0; ai < 4; ai++)
                for (int kind : { 9, 10 }) {
                    Bytes seed = r.bytes(32), m = r.bytes(1 + r.below(40));
                    if (!ctx.mine(idx++)) continue;
                    ACase c = make_adv(kind, seed, m, ph != 0, ti + 8 * ai, 0);
                    exec_case(ctx, c, run_adv, mix64(mix64(kind, ti), mix64(ai, ph)), true);
                }
    for (int rep = 0; rep < (ctx.thorough() ? 8 : 2); rep++) {
        Bytes seed = r.bytes(32), m = r.bytes(33);
        for (size_t bit = 0; bit < 512 + 256 + 264; bit++) {
            if (!ctx.mine(idx++)) continue;
            uint64_t sel = bit < 512 ? 0 : bit < 768 ? 2 : 1; size_t pos = bit < 512 ? bit : bit < 768 ? bit - 512 : bit - 768;
            ACase c = make_adv(6, seed, m, false, sel, pos);
            exec_case(ctx, c, run_adv, mix64(mix64(6, bit), rep), true);
        }
    }
    for (uint64_t k = 1; k <= 15; k++) { Bytes seed = r.bytes(32), m = r.bytes(20); if (!ctx.mine(idx++)) continue; ACase c = make_adv(1, seed, m, false, k - 1, 0); exec_case(ctx, c, run_adv, mix64(1, k), true); }
}

// ------------------------------------------------------------------ messages of 4 GiB and more (thorough tier, non-sanitizer build, first round)
// RFC 8032 hashes the message twice (r = H(prefix || M), k = H(R || A || M)); everything else is arithmetic on 32-byte values.  The two
// hashes over the sparse message are recomputed with the library's streaming SHA-512 (its correctness over such lengths is C04's claim),
// the arithmetic by the reference model; the composition is validated against the full reference model on a short message in the same run.
struct GSCase { int mode; size_t len; KV kv() const { KV k; k.s("kind", "giant_sign").u("mode", mode).u("len", len); return k; } };   // 0 pure detached, 1 prehashed multi-part
uint64_t g_giant_skipped = 0;
Bytes sha512_parts(std::initializer_list<std::pair<const uint8_t *, size_t>> parts) {
    crypto_hash_sha512_state st; crypto_hash_sha512_init(&st);
    for (auto &p : parts) crypto_hash_sha512_update(&st, p.first, p.second);
    Bytes h(64); crypto_hash_sha512_final(&st, h.data()); return h;
}
Bytes composed_sign(const uint8_t *m, size_t mlen, const Bytes &sk64, bool ph) {
    Bytes h = ref::sha512(ref::sub(sk64, 0, 32));
    U a = ref::u_from_le(ref::ed25519_clamp(ref::sub(h, 0, 32)));
    Bytes prefix = ref::sub(h, 32, 32), A = ref::sub(sk64, 32, 32), dom = ref::ed25519_dom2(ph);
    Bytes phm; if (ph) { phm = sha512_parts({ { m, mlen } }); m = phm.data(); mlen = 64; }
    U r = ref::sc_reduce(ref::u_from_le(sha512_parts({ { D(dom), dom.size() }, { prefix.data(), 32 }, { m, mlen } })));
    Bytes R = ref::pt_encode(ref::pt_mul(r, ref::ED_B()));
    U k = ref::sc_reduce(ref::u_from_le(sha512_parts({ { D(dom), dom.size() }, { R.data(), 32 }, { A.data(), 32 }, { m, mlen } })));
    return ref::cat(R, ref::sc_to_bytes32(ref::sc_add(r, ref::sc_mul(k, a))));
}
bool run_giant_sign(const GSCase &c, std::string &msg) {
    set_mask(F_ALL);
    Bytes seed(32); for (int i = 0; i < 32; i++) seed[(size_t) i] = (uint8_t) (i * 9 + 4);
    Bytes pk, sk; ref::ed25519_seed_keypair(seed, pk, sk);
    {   // the composition against the full model, short message
        Bytes sm = { 9, 8, 7, 6, 5 };
        if (composed_sign(sm.data(), sm.size(), sk, c.mode == 1) != (c.mode == 1 ? ref::ed25519ph_sign(sm, sk) : ref::ed25519_sign(sm, sk))) { msg = "harness self-check: the composed Ed25519 model differs from the reference model"; return false; }
    }
    giant::Map M(c.len); if (!M.ok()) { g_giant_skipped++; return true; }
    M.poke();
    unsigned char sig[64]; unsigned long long sl = 0; char b[300];
    if (c.mode == 0) {
        if (crypto_sign_detached(sig, &sl, M.p, c.len, sk.data()) != 0 || sl != 64) { snprintf(b, sizeof b, "crypto_sign_detached over %zu bytes failed (signature length %llu)", c.len, sl); msg = b; return false; }
    } else {
        crypto_sign_state st; crypto_sign_init(&st);
        const size_t piece = ((size_t) 1 << 31) + 9;       // pieces whose own length needs 32 bits
        for (size_t off = 0; off < c.len; off += piece) crypto_sign_update(&st, M.p + off, std::min(piece, c.len - off));
        if (crypto_sign_final_create(&st, sig, &sl, sk.data()) != 0 || sl != 64) { msg = "crypto_sign_final_create failed after a 4 GiB message"; return false; }
    }
    Bytes want = composed_sign(M.p, c.len, sk, c.mode == 1);
    if (memcmp(sig, want.data(), 64) != 0) { snprintf(b, sizeof b, "%s over a %zu-byte message differs from RFC 8032", c.mode ? "crypto_sign_init/update/final_create (Ed25519ph)" : "crypto_sign_detached", c.len); msg = b; return false; }
    // verification accepts it, and rejects the message with one bit flipped beyond byte 2^32
    auto verify = [&]() -> int {
        if (c.mode == 0) return crypto_sign_verify_detached(sig, M.p, c.len, pk.data());
        crypto_sign_state st; crypto_sign_init(&st); crypto_sign_update(&st, M.p, c.len); return crypto_sign_final_verify(&st, sig, pk.data());
    };
    if (verify() != 0) { snprintf(b, sizeof b, "verification rejects the genuine signature of a %zu-byte message (mode %d)", c.len, c.mode); msg = b; return false; }
    size_t pos = ((size_t) 1 << 32) + 3; M.p[pos] ^= 0x20;
    int v = verify(); M.p[pos] ^= 0x20;
    if (v == 0) { snprintf(b, sizeof b, "verification accepts a %zu-byte message with a bit flipped at byte %zu (mode %d)", c.len, pos, c.mode); msg = b; return false; }
    return true;
}
void explore_giant_sign(Ctx &ctx) {
    if (!ctx.thorough() || !giant::fast_build() || !giant::first_round()) { ctx.notes["giant_sign"] = "thorough tier, non-sanitizer build, first round only"; return; }
    uint64_t idx = 0;
    for (int mode = 0; mode < 2; mode++) { if (!ctx.mine(idx++)) continue; GSCase c{ mode, ((size_t) 1 << 32) + 21 + (size_t) mode }; exec_case(ctx, c, run_giant_sign, mix64(mode, c.len), true); }
    ctx.notes["giant_sign_skipped_no_memory"] = std::to_string(g_giant_skipped);
}

bool replay(const KV &k, std::string &msg) {
    if (k.gs("kind") == "giant_sign") { GSCase c{ (int) k.gu("mode"), (size_t) k.gu("len") }; return run_giant_sign(c, msg); }
    if (k.gs("kind") == "honest") { HCase c{ k.gb("seed"), k.gu("mseed"), (size_t) k.gu("mlen"), {} }; std::string cs = k.gs("chunks"); if (cs != "-") { size_t p = 0; while (p < cs.size()) { size_t e = cs.find(',', p); if (e == std::string::npos) e = cs.size(); c.chunks.push_back(strtoull(cs.substr(p, e - p).c_str(), nullptr, 10)); p = e + 1; } } return run_honest(c, msg); }
    ACase c; c.kind = 0; for (int i = 0; i < 12; i++) if (k.gs("how") == AK[i]) c.kind = i;
    c.sig = k.gb("sig"); c.msg = k.gb("msg"); c.pk = k.gb("pk"); c.ph = k.gu("ph") != 0;
    return run_adv(c, msg);
}

}  // namespace

std::vector<Sub> vh_subs() { return { { "honest", explore_honest, replay }, { "sweep", explore_sweep, replay }, { "adversarial", explore_adversarial, replay }, { "giant_sign", explore_giant_sign, replay } }; }
