// C16 -- padding round-trips for every length and block size and rejects invalid padding.
// Oracle: ref/codecs.hpp pad_len / unpad_model (ISO/IEC 7816-4 as documented in utils.h).
#include "vh_main.hpp"
#include "codecs.hpp"
#include <sys/mman.h>
using namespace vh;

namespace {

struct PadCase {
    size_t unpadded, blocksize, cap; bool null_lenp; uint64_t cseed;
    KV kv() const { KV k; k.s("kind", "pad").u("unpadded", unpadded).u("blocksize", blocksize).u("cap", cap).u("null_lenp", null_lenp).u("cseed", cseed); return k; }
};

bool run_pad(const PadCase &c, std::string &msg) {
    Rng r(c.cseed);
    size_t real = std::max(c.cap, c.unpadded);          // the buffer really holds the data even when the stated capacity is smaller
    Bytes orig(real);
    r.fill(orig.data(), orig.size());
    for (auto &b : orig) if (b == 0 || b == 0x80) b = 0x33;       // so that untouched bytes are distinguishable from padding
    XBuf buf(orig, c.cseed % 16);
    size_t plen = 0x1234567, padded = 0;
    bool fits = ref::pad_len(c.unpadded, c.blocksize, padded) && padded <= c.cap;
    int rc = sodium_pad(c.null_lenp ? nullptr : &plen, buf.p, c.unpadded, c.blocksize, c.cap);
    char b[256];
    Bytes now = buf.get();
    if (!fits) {
        if (rc != -1) { snprintf(b, sizeof b, "sodium_pad(unpadded=%zu, blocksize=%zu, max=%zu) returned %d, expected -1", c.unpadded, c.blocksize, c.cap, rc); msg = b; return false; }
        if (now != orig) { msg = "sodium_pad failed but wrote to the buffer"; return false; }
        if (!c.null_lenp && plen != 0x1234567) { msg = "sodium_pad failed but wrote the padded length"; return false; }
        return true;
    }
    if (rc != 0) { snprintf(b, sizeof b, "sodium_pad(unpadded=%zu, blocksize=%zu, max=%zu) returned %d, expected 0", c.unpadded, c.blocksize, c.cap, rc); msg = b; return false; }
    if (!c.null_lenp && plen != padded) { snprintf(b, sizeof b, "sodium_pad reported padded length %zu, expected %zu", plen, padded); msg = b; return false; }
    for (size_t i = 0; i < real; i++) {
        uint8_t e = i < c.unpadded ? orig[i] : i == c.unpadded ? 0x80 : i < padded ? 0x00 : orig[i];
        if (now[i] != e) { snprintf(b, sizeof b, "sodium_pad(unpadded=%zu, blocksize=%zu): byte %zu is %02x expected %02x", c.unpadded, c.blocksize, i, now[i], e); msg = b; return false; }
    }
    size_t ulen = 0x7654321;
    int urc = sodium_unpad(&ulen, buf.p, padded, c.blocksize);
    if (urc != 0 || ulen != c.unpadded) { snprintf(b, sizeof b, "sodium_unpad(pad(x)) returned %d with length %zu, expected 0 / %zu", urc, ulen, c.unpadded); msg = b; return false; }
    return true;
}

struct UnpadCase {
    Bytes buf; size_t blocksize;
    KV kv() const { KV k; k.s("kind", "unpad").b("buf", buf).u("blocksize", blocksize); return k; }
};
bool run_unpad(const UnpadCase &c, std::string &msg) {
    size_t len = c.buf.size();
    size_t prefix = (c.blocksize <= len && c.blocksize > 0) ? len - c.blocksize : 0;
    XBuf buf(c.buf, (8 - prefix % 8) % 8);      // final block starts 8-aligned so the prefix can be poisoned exactly
#ifdef VH_ASAN
    if (prefix) __asan_poison_memory_region(buf.p, prefix);
#endif
    size_t ulen = 0x7654321;
    int rc = sodium_unpad(&ulen, buf.p, len, c.blocksize);
#ifdef VH_ASAN
    if (prefix) __asan_unpoison_memory_region(buf.p, prefix);
#endif
    long long want = ref::unpad_model(c.buf, c.blocksize);
    char b[256];
    if (want < 0) {
        if (rc != -1) { snprintf(b, sizeof b, "sodium_unpad(len=%zu, blocksize=%zu) accepted an invalid final block (returned %d)", len, c.blocksize, rc); msg = b; return false; }
        return true;
    }
    if (rc != 0 || ulen != (size_t) want) { snprintf(b, sizeof b, "sodium_unpad(len=%zu, blocksize=%zu) returned %d length %zu, expected 0 / %lld", len, c.blocksize, rc, ulen, want); msg = b; return false; }
    return true;
}

void explore_pad(Ctx &ctx) {
    uint64_t idx = 0;
    std::vector<size_t> bss;
    for (size_t b = 0; b <= (ctx.thorough() ? 300u : 130u); b++) bss.push_back(b);
    for (size_t b : { 255u, 256u, 257u, 1000u, 4096u, 65536u, 1u << 20 }) bss.push_back(b);
    if (ctx.thorough()) for (size_t b : { 511u, 512u, 513u, 1023u, 1024u, 1025u, 4095u, 4097u, 65535u, 65537u, (1u << 20) - 1, (1u << 20) + 1, 1u << 22 }) bss.push_back(b);
    size_t maxun = ctx.thorough() ? 1100 : 320;
    for (size_t bs : bss)
        for (size_t un = 0; un <= maxun; un++) {
            if (!ctx.mine(idx++)) continue;
            if (bs > 1000 && un % 37 != 0 && un != maxun) continue;      // big blocks: thin out
            size_t padded = 0;
            std::vector<size_t> caps;
            if (!ref::pad_len(un, bs, padded)) caps = { un, un + 16 };
            else caps = { un, padded - 1, padded, padded + 1, padded + bs + 3 };
            // the capacity is whatever the caller states, also less than the data length: the call must then fail without writing
            caps.push_back(0); if (un > 0) { caps.push_back(un - 1); caps.push_back(un / 2); }
            for (size_t cap : caps) {
                PadCase c{ un, bs, cap, (un + bs) % 5 == 0, mix64(ctx.seed, mix64(un, bs)) };
                exec_case(ctx, c, run_pad, mix64(mix64(un, bs), cap), bs >= 2);
            }
        }
}

// block sizes above 2^24, i.e. more than 2^24 padding bytes: position arithmetic done in fewer than 32 useful bits would show here
void explore_pad_huge(Ctx &ctx) {
    uint64_t idx = 0;
    std::vector<size_t> bss = { ((size_t) 1 << 24) + 1, (size_t) 1 << 25, ((size_t) 1 << 25) + 3 };
    if (ctx.thorough()) { bss.push_back((size_t) 1 << 26); bss.push_back(((size_t) 1 << 24) - 1); bss.push_back((size_t) 1 << 24); bss.push_back(((size_t) 1 << 27) + 1); }
    for (size_t bs : bss)
        for (size_t un : { (size_t) 10, bs - 1, bs + 5 }) {
            if (!ctx.mine(idx++)) continue;
            size_t padded = 0; if (!ref::pad_len(un, bs, padded)) continue;
            PadCase c{ un, bs, padded, false, mix64(ctx.seed, mix64(un, bs)) };
            exec_case(ctx, c, run_pad, mix64(mix64(un, bs), padded), true);
        }
    // block sizes up to SIZE_MAX with a small buffer: the padded length (one block) exists as a number but never fits: -1, nothing written
    // (a request whose padded length itself would exceed SIZE_MAX is a misuse by contract and is not made)
    for (size_t bs : { SIZE_MAX, SIZE_MAX - 1, SIZE_MAX - 9, SIZE_MAX - 10, SIZE_MAX - 63, ((size_t) 1 << 63) + 1, (size_t) 1 << 63, ((size_t) 1 << 63) - 1, SIZE_MAX / 3, ((size_t) 1 << 32) + 1 })
        for (size_t un : { (size_t) 0, (size_t) 1, (size_t) 10, (size_t) 63 })
            for (size_t cap : { un, un + 1, (size_t) 64, (size_t) 200 }) {
                if (!ctx.mine(idx++)) continue;
                size_t padded = 0; if (!ref::pad_len(un, bs, padded) || padded <= cap) continue;
                PadCase c{ un, bs, cap, (un + cap) % 3 == 0, mix64(ctx.seed, mix64(un, bs)) };
                exec_case(ctx, c, run_pad, mix64(mix64(un, bs), cap), true);
            }
}

// buffers of 4 GiB and more (size_t is 64 bits wide; the arithmetic on lengths and positions must be too).  The buffer is a sparse private
// mapping: untouched pages are the kernel's zero page, sodium_pad only touches the last `blocksize` bytes, sodium_unpad only reads.
struct GiantCase {
    int kind; size_t unpadded, blocksize; int capd;     // kind 0: pad (capacity = padded + capd) and unpad it again; 1: unpad one giant block with the marker at `unpadded`
    KV kv() const { KV k; k.s("kind", "giant").u("op", kind).u("unpadded", unpadded).u("blocksize", blocksize).i("capd", capd); return k; }
};
uint64_t g_giant_skipped = 0;
struct GiantMap {
    uint8_t *p = nullptr; size_t n = 0;
    explicit GiantMap(size_t n_) : n(n_) { void *q = mmap(nullptr, n, PROT_READ | PROT_WRITE, MAP_PRIVATE | MAP_ANONYMOUS | MAP_NORESERVE, -1, 0); p = q == MAP_FAILED ? nullptr : (uint8_t *) q; }
    ~GiantMap() { if (p) munmap(p, n); }
};
bool run_giant(const GiantCase &c, std::string &msg) {
    char b[300];
    if (c.kind == 0) {
        size_t padded = 0;
        if (!ref::pad_len(c.unpadded, c.blocksize, padded) || c.unpadded < 2) return true;
        GiantMap M(padded + 8192); if (!M.p) { g_giant_skipped++; return true; }
        M.p[c.unpadded - 1] = 0x33; M.p[c.unpadded - 2] = 0x44; M.p[padded] = 0x55; M.p[padded + 1] = 0x66;
        size_t cap = padded + (size_t) (long long) c.capd, plen = 0x1234567;
        bool fits = padded <= cap;
        int rc = sodium_pad(&plen, M.p, c.unpadded, c.blocksize, cap);
        size_t lo = padded - std::min(padded, c.blocksize + 2); if (lo > c.unpadded - 2) lo = c.unpadded - 2;
        auto expect = [&](size_t i, bool done) -> uint8_t { if (i == c.unpadded - 1) return 0x33; if (i == c.unpadded - 2) return 0x44; if (i == padded) return 0x55; if (i == padded + 1) return 0x66; if (done && i == c.unpadded) return 0x80; return 0; };
        if (!fits) {
            if (rc != -1) { snprintf(b, sizeof b, "sodium_pad(unpadded=%zu, blocksize=%zu, max=%zu) returned %d, expected -1 (padded length is %zu)", c.unpadded, c.blocksize, cap, rc, padded); msg = b; return false; }
            for (size_t i = lo; i <= padded + 1; i++) if (M.p[i] != expect(i, false)) { snprintf(b, sizeof b, "sodium_pad(unpadded=%zu, blocksize=%zu, max=%zu) failed but wrote byte %zu", c.unpadded, c.blocksize, cap, i); msg = b; return false; }
            if (plen != 0x1234567) { msg = "sodium_pad failed but wrote the padded length"; return false; }
            return true;
        }
        if (rc != 0 || plen != padded) { snprintf(b, sizeof b, "sodium_pad(unpadded=%zu, blocksize=%zu, max=%zu) returned %d with padded length %zu, expected 0 / %zu", c.unpadded, c.blocksize, cap, rc, plen, padded); msg = b; return false; }
        for (size_t i = lo; i <= padded + 1; i++) if (M.p[i] != expect(i, true)) { snprintf(b, sizeof b, "sodium_pad(unpadded=%zu, blocksize=%zu): byte %zu is %02x expected %02x", c.unpadded, c.blocksize, i, M.p[i], expect(i, true)); msg = b; return false; }
        size_t ulen = 0x7654321; int urc = sodium_unpad(&ulen, M.p, padded, c.blocksize);
        if (urc != 0 || ulen != c.unpadded) { snprintf(b, sizeof b, "sodium_unpad(pad(x)) for unpadded=%zu blocksize=%zu returned %d with length %zu", c.unpadded, c.blocksize, urc, ulen); msg = b; return false; }
        return true;
    }
    GiantMap M(c.blocksize + 8192); if (!M.p) { g_giant_skipped++; return true; }
    M.p[c.unpadded] = 0x80; if (c.unpadded) M.p[c.unpadded - 1] = 0x33;
    size_t ulen = 0x7654321; int rc = sodium_unpad(&ulen, M.p, c.blocksize, c.blocksize);
    if (rc != 0 || ulen != c.unpadded) { snprintf(b, sizeof b, "sodium_unpad(len=blocksize=%zu) with the marker at %zu returned %d with length %zu", c.blocksize, c.unpadded, rc, ulen); msg = b; return false; }
    return true;
}
void explore_giant(Ctx &ctx) {
    uint64_t idx = 0;
    const size_t G = (size_t) 1 << 32;
    std::vector<size_t> uns = { G + 5, G + ((size_t) 1 << 20) + 3, 2 * G - 1, G - 1, G, 3 * G + 12345 };
    std::vector<size_t> bss = { 3, 7, 10, 16, 100, 255, 1000, 4096, 4097, 65537 };
    if (ctx.thorough()) { uns.push_back(5 * G + 77); uns.push_back(G + 4095); for (size_t b : { 5u, 6u, 9u, 11u, 13u, 17u, 31u, 33u, 127u, 129u, 257u, 1023u, 65535u, 65536u, 1000003u }) bss.push_back(b); }
    for (size_t un : uns) for (size_t bs : bss) for (int capd : { 0, -1, 1 }) {
        if (!ctx.mine(idx++)) continue;
        GiantCase c{ 0, un, bs, capd };
        exec_case(ctx, c, run_giant, mix64(mix64(un, bs), (uint64_t) (capd + 2)), true);
    }
    // one block of more than 2^32 bytes with more than 2^32 zero bytes after the marker (the scan is linear: ~4.3e9 steps each)
    std::vector<std::pair<size_t, size_t>> ub = { { 5, G + 16 } };
    if (ctx.thorough()) { ub.push_back({ ((size_t) 1 << 20) + 1, G + ((size_t) 1 << 21) }); ub.push_back({ G + 9, 2 * G + 100 }); }
    for (auto &p : ub) {
        if (!ctx.mine(idx++)) continue;
        GiantCase c{ 1, p.first, p.second, 0 };
        exec_case(ctx, c, run_giant, mix64(p.first, p.second), true);
    }
    ctx.notes["giant_cases_skipped_mmap_failed"] = std::to_string(g_giant_skipped);
}

void explore_unpad(Ctx &ctx) {
    uint64_t idx = 0;
    static const uint8_t SYM[] = { 0x00, 0x80, 0x01, 0xff };
    Rng r = ctx.rng("c16-unpad");
    // exhaustive final blocks over {00,80,01,ff} for block sizes 1..6 (thorough: ..8), with 0..2 preceding blocks
    size_t maxbs = ctx.thorough() ? 8 : 6;
    for (size_t bs = 1; bs <= maxbs; bs++) {
        uint64_t n = 1; for (size_t i = 0; i < bs; i++) n *= 4;
        for (uint64_t v = 0; v < n; v++) {
            if (!ctx.mine(idx++)) continue;
            Bytes fin(bs); uint64_t t = v; for (size_t i = 0; i < bs; i++) { fin[i] = SYM[t % 4]; t /= 4; }
            for (size_t pre : { (size_t) 0, bs, 2 * bs + 0 }) {
                Bytes buf(pre, 0x80); buf.insert(buf.end(), fin.begin(), fin.end());   // the prefix is full of markers: must not be looked at
                UnpadCase c{ buf, bs };
                exec_case(ctx, c, run_unpad, mix64(mix64(bs, v), pre), bs >= 2);
            }
        }
    }
    // sampled for larger block sizes: marker at every position, with junk before / after it
    for (size_t bs : { 7u, 8u, 9u, 15u, 16u, 17u, 31u, 32u, 33u, 63u, 64u, 65u, 100u, 127u, 128u, 129u, 255u, 256u, 257u, 1000u, 4096u }) {
        for (size_t pos = 0; pos <= bs; pos++) {
            if (bs > 300 && pos % 13 != 0 && pos != bs && pos != bs - 1) continue;
            uint64_t rs = r.next();
            if (!ctx.mine(idx++)) continue;
            Rng rr(rs);
            for (int kind = 0; kind < 6; kind++) {
                Bytes fin(bs, 0);
                for (size_t i = 0; i < pos && i < bs; i++) fin[i] = (uint8_t) rr.next();       // data before the marker: arbitrary
                if (pos < bs) fin[pos] = 0x80;
                switch (kind) {
                case 0: break;                                                                     // valid (or no marker at all when pos == bs)
                case 1: if (pos < bs) fin[pos] = 0x81; break;                                      // wrong marker
                case 2: if (pos + 1 < bs) fin[rr.range(pos + 1, bs - 1)] = 0x01; break;            // junk after the marker
                case 3: if (pos + 1 < bs) fin[bs - 1] = 0x80; break;                               // a later marker wins
                case 4: if (pos < bs) fin[pos] = 0x00; break;                                      // marker missing, data may contain one
                case 5: for (size_t i = 0; i < pos && i < bs; i++) fin[i] = 0x80; break;           // markers everywhere before
                }
                for (size_t pre : { (size_t) 0, bs, (size_t) 3 }) {       // pre == 3: padded length not a multiple of the block size
                    Bytes buf(pre, 0x80); buf.insert(buf.end(), fin.begin(), fin.end());
                    UnpadCase c{ buf, bs };
                    exec_case(ctx, c, run_unpad, mix64(mix64(bs, pos), mix64(kind, pre)), true);
                }
            }
        }
    }
    // too short / zero block size
    for (size_t bs : { 0u, 1u, 2u, 16u, 17u })
        for (size_t len = 0; len < bs + 2; len++) {
            if (!ctx.mine(idx++)) continue;
            Bytes buf(len, 0); if (len) buf[len - 1] = 0x80;
            UnpadCase c{ buf, bs };
            exec_case(ctx, c, run_unpad, mix64(mix64(bs, len), 77), true);
        }
}

bool replay(const KV &k, std::string &msg) {
    if (k.gs("kind") == "unpad") { UnpadCase c{ k.gb("buf"), (size_t) k.gu("blocksize") }; return run_unpad(c, msg); }
    if (k.gs("kind") == "giant") { GiantCase c{ (int) k.gu("op"), (size_t) k.gu("unpadded"), (size_t) k.gu("blocksize"), (int) k.gi("capd") }; return run_giant(c, msg); }
    PadCase c{ (size_t) k.gu("unpadded"), (size_t) k.gu("blocksize"), (size_t) k.gu("cap"), k.gu("null_lenp") != 0, k.gu("cseed") };
    return run_pad(c, msg);
}

}  // namespace

std::vector<Sub> vh_subs() {
    return { { "pad", explore_pad, replay }, { "pad_huge_blocks", explore_pad_huge, replay }, { "unpad", explore_unpad, replay }, { "giant_buffers", explore_giant, replay } };
}
