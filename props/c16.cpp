// C16 -- padding round-trips for every length and block size and rejects invalid padding.
// Oracle: ref/codecs.hpp pad_len / unpad_model (ISO/IEC 7816-4 as documented in utils.h).
#include "vh_main.hpp"
#include "codecs.hpp"
using namespace vh;

namespace {

struct PadCase {
    size_t unpadded, blocksize, cap; bool null_lenp; uint64_t cseed;
    KV kv() const { KV k; k.s("kind", "pad").u("unpadded", unpadded).u("blocksize", blocksize).u("cap", cap).u("null_lenp", null_lenp).u("cseed", cseed); return k; }
};

bool run_pad(const PadCase &c, std::string &msg) {
    Rng r(c.cseed);
    size_t real = std::max(c.cap, c.unpadded);          // the buffer really holds the data even when the stated capacity is smaller
    Bytes orig(real);
    r.fill(orig.data(), orig.size());
    for (auto &b : orig) if (b == 0 || b == 0x80) b = 0x33;       // so that untouched bytes are distinguishable from padding
    XBuf buf(orig, c.cseed % 16);
    size_t plen = 0x1234567, padded = 0;
    bool fits = ref::pad_len(c.unpadded, c.blocksize, padded) && padded <= c.cap;
    int rc = sodium_pad(c.null_lenp ? nullptr : &plen, buf.p, c.unpadded, c.blocksize, c.cap);
    char b[256];
    Bytes now = buf.get();
    if (!fits) {
        if (rc != -1) { snprintf(b, sizeof b, "sodium_pad(unpadded=%zu, blocksize=%zu, max=%zu) returned %d, expected -1", c.unpadded, c.blocksize, c.cap, rc); msg = b; return false; }
        if (now != orig) { msg = "sodium_pad failed but wrote to the buffer"; return false; }
        if (!c.null_lenp && plen != 0x1234567) { msg = "sodium_pad failed but wrote the padded length"; return false; }
        return true;
    }
    if (rc != 0) { snprintf(b, sizeof b, "sodium_pad(unpadded=%zu, blocksize=%zu, max=%zu) returned %d, expected 0", c.unpadded, c.blocksize, c.cap, rc); msg = b; return false; }
    if (!c.null_lenp && plen != padded) { snprintf(b, sizeof b, "sodium_pad reported padded length %zu, expected %zu", plen, padded); msg = b; return false; }
    for (size_t i = 0; i < real; i++) {
        uint8_t e = i < c.unpadded ? orig[i] : i == c.unpadded ? 0x80 : i < padded ? 0x00 : orig[i];
        if (now[i] != e) { snprintf(b, sizeof b, "sodium_pad(unpadded=%zu, blocksize=%zu): byte %zu is %02x expected %02x", c.unpadded, c.blocksize, i, now[i], e); msg = b; return false; }
    }
    size_t ulen = 0x7654321;
    int urc = sodium_unpad(&ulen, buf.p, padded, c.blocksize);
    if (urc != 0 || ulen != c.unpadded) { snprintf(b, sizeof b, "sodium_unpad(pad(x)) returned %d with length %zu, expected 0 / %zu", urc, ulen, c.unpadded); msg = b; return false; }
    return true;
}

struct UnpadCase {
    Bytes buf; size_t blocksize;
    KV kv() const { KV k; k.s("kind", "unpad").b("buf", buf).u("blocksize", blocksize); return k; }
};
bool run_unpad(const UnpadCase &c, std::string &msg) {
    size_t len = c.buf.size();
    size_t prefix = (c.blocksize <= len && c.blocksize > 0) ? len - c.blocksize : 0;
    XBuf buf(c.buf, (8 - prefix % 8) % 8);      // final block starts 8-aligned so the prefix can be poisoned exactly
#ifdef VH_ASAN
    if (prefix) __asan_poison_memory_region(buf.p, prefix);
#endif
    size_t ulen = 0x7654321;
    int rc = sodium_unpad(&ulen, buf.p, len, c.blocksize);
#ifdef VH_ASAN
    if (prefix) __asan_unpoison_memory_region(buf.p, prefix);
#endif
    long long want = ref::unpad_model(c.buf, c.blocksize);
    char b[256];
    if (want < 0) {
        if (rc != -1) { snprintf(b, sizeof b, "sodium_unpad(len=%zu, blocksize=%zu) accepted an invalid final block (returned %d)", len, c.blocksize, rc); msg = b; return false; }
        return true;
    }
    if (rc != 0 || ulen != (size_t) want) { snprintf(b, sizeof b, "sodium_unpad(len=%zu, blocksize=%zu) returned %d length %zu, expected 0 / %lld", len, c.blocksize, rc, ulen, want); msg = b; return false; }
    return true;
}

void explore_pad(Ctx &ctx) {
    uint64_t idx = 0;
    std::vector<size_t> bss;
    for (size_t b = 0; b <= (ctx.thorough() ? 300u : 130u); b++) bss.push_back(b);
    for (size_t b : { 255u, 256u, 257u, 1000u, 4096u, 65536u, 1u << 20 }) bss.push_back(b);
    if (ctx.thorough()) for (size_t b : { 511u, 512u, 513u, 1023u, 1024u, 1025u, 4095u, 4097u, 65535u, 65537u, (1u << 20) - 1, (1u << 20) + 1, 1u << 22 }) bss.push_back(b);
    size_t maxun = ctx.thorough() ? 1100 : 320;
    for (size_t bs : bss)
        for (size_t un = 0; un <= maxun; un++) {
            if (!ctx.mine(idx++)) continue;
            if (bs > 1000 && un % 37 != 0 && un != maxun) continue;      // big blocks: thin out
            size_t padded = 0;
            std::vector<size_t> caps;
            if (!ref::pad_len(un, bs, padded)) caps = { un, un + 16 };
            else caps = { un, padded - 1, padded, padded + 1, padded + bs + 3 };
            // the capacity is whatever the caller states, also less than the data length: the call must then fail without writing
            caps.push_back(0); if (un > 0) { caps.push_back(un - 1); caps.push_back(un / 2); }
            for (size_t cap : caps) {
                PadCase c{ un, bs, cap, (un + bs) % 5 == 0, mix64(ctx.seed, mix64(un, bs)) };
                exec_case(ctx, c, run_pad, mix64(mix64(un, bs), cap), bs >= 2);
            }
        }
}

// block sizes above 2^24, i.e. more than 2^24 padding bytes: position arithmetic done in fewer than 32 useful bits would show here
void explore_pad_huge(Ctx &ctx) {
    uint64_t idx = 0;
    std::vector<size_t> bss = { ((size_t) 1 << 24) + 1, (size_t) 1 << 25, ((size_t) 1 << 25) + 3 };
    if (ctx.thorough()) { bss.push_back((size_t) 1 << 26); bss.push_back(((size_t) 1 << 24) - 1); bss.push_back((size_t) 1 << 24); bss.push_back(((size_t) 1 << 27) + 1); }
    for (size_t bs : bss)
        for (size_t un : { (size_t) 10, bs - 1, bs + 5 }) {
            if (!ctx.mine(idx++)) continue;
            size_t padded = 0; if (!ref::pad_len(un, bs, padded)) continue;
            PadCase c{ un, bs, padded, false, mix64(ctx.seed, mix64(un, bs)) };
            exec_case(ctx, c, run_pad, mix64(mix64(un, bs), padded), true);
        }
}

void explore_unpad(Ctx &ctx) {
    uint64_t idx = 0;
    static const uint8_t SYM[] = { 0x00, 0x80, 0x01, 0xff };
    Rng r = ctx.rng("c16-unpad");
    // exhaustive final blocks over {00,80,01,ff} for block sizes 1..6 (thorough: ..8), with 0..2 preceding blocks
    size_t maxbs = ctx.thorough() ? 8 : 6;
    for (size_t bs = 1; bs <= maxbs; bs++) {
        uint64_t n = 1; for (size_t i = 0; i < bs; i++) n *= 4;
        for (uint64_t v = 0; v < n; v++) {
            if (!ctx.mine(idx++)) continue;
            Bytes fin(bs); uint64_t t = v; for (size_t i = 0; i < bs; i++) { fin[i] = SYM[t % 4]; t /= 4; }
            for (size_t pre : { (size_t) 0, bs, 2 * bs + 0 }) {
                Bytes buf(pre, 0x80); buf.insert(buf.end(), fin.begin(), fin.end());   // the prefix is full of markers: must not be looked at
                UnpadCase c{ buf, bs };
                exec_case(ctx, c, run_unpad, mix64(mix64(bs, v), pre), bs >= 2);
            }
        }
    }
    // sampled for larger block sizes: marker at every position, with junk before / after it
    for (size_t bs : { 7u, 8u, 9u, 15u, 16u, 17u, 31u, 32u, 33u, 63u, 64u, 65u, 100u, 127u, 128u, 129u, 255u, 256u, 257u, 1000u, 4096u }) {
        for (size_t pos = 0; pos <= bs; pos++) {
            if (bs > 300 && pos % 13 != 0 && pos != bs && pos != bs - 1) continue;
            uint64_t rs = r.next();
            if (!ctx.mine(idx++)) continue;
            Rng rr(rs);
            for (int kind = 0; kind < 6; kind++) {
                Bytes fin(bs, 0);
                for (size_t i = 0; i < pos && i < bs; i++) fin[i] = (uint8_t) rr.next();       // data before the marker: arbitrary
                if (pos < bs) fin[pos] = 0x80;
                switch (kind) {
                case 0: break;                                                                     // valid (or no marker at all when pos == bs)
                case 1: if (pos < bs) fin[pos] = 0x81; break;                                      // wrong marker
                case 2: if (pos + 1 < bs) fin[rr.range(pos + 1, bs - 1)] = 0x01; break;            // junk after the marker
                case 3: if (pos + 1 < bs) fin[bs - 1] = 0x80; break;                               // a later marker wins
                case 4: if (pos < bs) fin[pos] = 0x00; break;                                      // marker missing, data may contain one
                case 5: for (size_t i = 0; i < pos && i < bs; i++) fin[i] = 0x80; break;           // markers everywhere before
                }
                for (size_t pre : { (size_t) 0, bs, (size_t) 3 }) {       // pre == 3: padded length not a multiple of the block size
                    Bytes buf(pre, 0x80); buf.insert(buf.end(), fin.begin(), fin.end());
                    UnpadCase c{ buf, bs };
                    exec_case(ctx, c, run_unpad, mix64(mix64(bs, pos), mix64(kind, pre)), true);
                }
            }
        }
    }
    // too short / zero block size
    for (size_t bs : { 0u, 1u, 2u, 16u, 17u })
        for (size_t len = 0; len < bs + 2; len++) {
            if (!ctx.mine(idx++)) continue;
            Bytes buf(len, 0); if (len) buf[len - 1] = 0x80;
            UnpadCase c{ buf, bs };
            exec_case(ctx, c, run_unpad, mix64(mix64(bs, len), 77), true);
        }
}

bool replay(const KV &k, std::string &msg) {
    if (k.gs("kind") == "unpad") { UnpadCase c{ k.gb("buf"), (size_t) k.gu("blocksize") }; return run_unpad(c, msg); }
    PadCase c{ (size_t) k.gu("unpadded"), (size_t) k.gu("blocksize"), (size_t) k.gu("cap"), k.gu("null_lenp") != 0, k.gu("cseed") };
    return run_pad(c, msg);
}

}  // namespace

std::vector<Sub> vh_subs() {
    return { { "pad", explore_pad, replay }, { "pad_huge_blocks", explore_pad_huge, replay }, { "unpad", explore_unpad, replay } };
}
