// C14 -- constant-time helpers compute exact comparisons and little-endian arithmetic.
// Oracle: byte-vector big-integer model written here (no shared code with utils.c / verify.c).
#include "vh_main.hpp"
#include "giant.hpp"
using namespace vh;

namespace {

enum Op { MEMCMP, VERIFY, ISZERO, COMPARE, INCREMENT, ADD, SUB, MEMZERO, STACKZERO, NOPS };
const char *OPN[] = { "memcmp", "verify", "is_zero", "compare", "increment", "add", "sub", "memzero", "stackzero" };

struct Case {
    int op; Bytes a, b; size_t align; size_t off, zlen;   // off/zlen only for memzero
    KV kv() const { KV k; k.s("op", OPN[op]).u("len", a.size()).b("a", a).b("b", b).u("align", align).u("off", off).u("zlen", zlen); return k; }
    static Case from(const KV &k) {
        Case c; std::string o = k.gs("op"); c.op = 0;
        for (int i = 0; i < NOPS; i++) if (o == OPN[i]) c.op = i;
        c.a = k.gb("a"); c.b = k.gb("b"); c.align = k.gu("align"); c.off = k.gu("off"); c.zlen = k.gu("zlen");
        return c;
    }
};

// ---- model
int m_equal(const Bytes &a, const Bytes &b) { for (size_t i = 0; i < a.size(); i++) if (a[i] != b[i]) return 0; return 1; }
int m_compare(const Bytes &a, const Bytes &b) {   // little endian numbers
    for (size_t i = a.size(); i-- > 0;) { if (a[i] < b[i]) return -1; if (a[i] > b[i]) return 1; }
    return 0;
}
Bytes m_add(const Bytes &a, const Bytes &b) { Bytes r(a.size()); unsigned c = 0; for (size_t i = 0; i < a.size(); i++) { unsigned s = a[i] + b[i] + c; r[i] = (uint8_t) s; c = s >> 8; } return r; }
Bytes m_sub(const Bytes &a, const Bytes &b) { Bytes r(a.size()); int br = 0; for (size_t i = 0; i < a.size(); i++) { int s = (int) a[i] - (int) b[i] - br; br = s < 0; r[i] = (uint8_t)(s & 0xff); } return r; }
Bytes m_inc(const Bytes &a) { Bytes one(a.size()); if (!one.empty()) one[0] = 1; return m_add(a, one); }

// exact-size, poisoned-around buffers at a chosen misalignment
// exact-size buffer against a hardware guard page (mode 1: page right after the end, 2: right before the start); pooled, no syscalls
struct GX {
    XBuf *x; uint8_t *p;
    GX(const Bytes &v, int mode) { XBuf::guard_mode() = mode; x = new XBuf(v, 0); XBuf::guard_mode() = 0; p = x->p; }
    GX(const GX &) = delete;
    Bytes get() const { return x->get(); }
    ~GX() { delete x; }
};
struct Buf {
    uint8_t *base, *p; size_t n; bool pooled;
    Buf(const Bytes &v, size_t align) : n(v.size()) {
        static uint8_t pool[8][512]; static unsigned slot = 0;
        pooled = n + 128 <= 512;
        base = pooled ? pool[slot++ % 8] : (uint8_t *) malloc(n + 64 + 64);
        p = base + 32 + (align % 16);
        memset(base, 0xa5, n + 128);
        if (n) memcpy(p, v.data(), n);
#ifdef VH_ASAN
        __asan_poison_memory_region(base, (size_t)(p - base));
        __asan_poison_memory_region(p + n, (size_t)(base + n + 128 - (p + n)));
#endif
    }
    Bytes get() const { return Bytes(p, p + n); }
    // the bytes around the operand were filled with 0xa5 before poisoning: any other value means a stray write (e.g. from assembly)
    bool surroundings_intact() {
#ifdef VH_ASAN
        __asan_unpoison_memory_region(base, n + 128);
#endif
        bool ok = true;
        for (uint8_t *q = base; q < p; q++) if (*q != 0xa5) ok = false;
        for (uint8_t *q = p + n; q < base + n + 128; q++) if (*q != 0xa5) ok = false;
        return ok;
    }
    ~Buf() {
#ifdef VH_ASAN
        __asan_unpoison_memory_region(base, n + 128);
#endif
        if (!pooled) free(base);
    }
};

bool run(const Case &c, std::string &msg) {
    size_t len = c.a.size();
    char tmp[256];
    switch (c.op) {
    case MEMCMP: {
        Buf a(c.a, c.align), b(c.b, c.align + 3);
        int r = sodium_memcmp(a.p, b.p, len), e = m_equal(c.a, c.b) ? 0 : -1;
        if (r != e) { snprintf(tmp, sizeof tmp, "sodium_memcmp returned %d, expected %d", r, e); msg = tmp; return false; }
        if (a.get() != c.a || b.get() != c.b) { msg = "sodium_memcmp modified an operand"; return false; }
        if (c.align % 4 == 0) { GX ga(c.a, 1), gb(c.b, 1); if (sodium_memcmp(ga.p, gb.p, len) != e || sodium_compare(ga.p, gb.p, len) != m_compare(c.a, c.b)) { msg = "comparison on guard-page buffers wrong"; return false; } }
        return true;
    }
    case VERIFY: {
        Buf a(c.a, c.align), b(c.b, c.align + 5);
        int r, e = m_equal(c.a, c.b) ? 0 : -1;
        if (len == 16) r = crypto_verify_16(a.p, b.p); else if (len == 32) r = crypto_verify_32(a.p, b.p); else if (len == 64) r = crypto_verify_64(a.p, b.p); else return true;
        if (r != e) { snprintf(tmp, sizeof tmp, "crypto_verify_%zu returned %d, expected %d", len, r, e); msg = tmp; return false; }
        return true;
    }
    case ISZERO: {
        Buf a(c.a, c.align);
        int e = 1; for (auto x : c.a) if (x) e = 0;
        int r = sodium_is_zero(a.p, len);
        if (r != e) { snprintf(tmp, sizeof tmp, "sodium_is_zero returned %d, expected %d", r, e); msg = tmp; return false; }
        return true;
    }
    case COMPARE: {
        Buf a(c.a, c.align), b(c.b, c.align + 7);
        int r = sodium_compare(a.p, b.p, len), e = m_compare(c.a, c.b);
        if (r != e) { snprintf(tmp, sizeof tmp, "sodium_compare returned %d, expected %d", r, e); msg = tmp; return false; }
        return true;
    }
    case INCREMENT: {
        Buf a(c.a, c.align);
        sodium_increment(a.p, len);
        if (a.get() != m_inc(c.a)) { msg = "sodium_increment: got " + hex(a.get()) + " expected " + hex(m_inc(c.a)); return false; }
        if (!a.surroundings_intact()) { msg = "sodium_increment wrote outside its " + std::to_string(len) + "-byte operand"; return false; }
        if (c.align % 2 == 0) {   // hardware guard pages right after / before the operand: catches accesses from inline assembly that ASan cannot see
            GX g(c.a, 1); sodium_increment(g.p, len); if (g.get() != m_inc(c.a)) { msg = "sodium_increment (guard-page buffer) wrong result"; return false; }
            GX h(c.a, 2); sodium_increment(h.p, len);
        }
        return true;
    }
    case ADD: case SUB: {
        Buf a(c.a, c.align), b(c.b, c.align + 1);
        Bytes e = c.op == ADD ? m_add(c.a, c.b) : m_sub(c.a, c.b);
        if (c.op == ADD) sodium_add(a.p, b.p, len); else sodium_sub(a.p, b.p, len);
        if (a.get() != e) { msg = std::string(c.op == ADD ? "sodium_add" : "sodium_sub") + ": got " + hex(a.get()) + " expected " + hex(e); return false; }
        if (b.get() != c.b) { msg = "second operand modified"; return false; }
        if (!a.surroundings_intact() || !b.surroundings_intact()) { msg = "sodium_add/sub wrote outside its operands"; return false; }
        if (c.align % 2 == 0) {
            GX ga(c.a, 1), gb(c.b, 1); if (c.op == ADD) sodium_add(ga.p, gb.p, len); else sodium_sub(ga.p, gb.p, len);
            if (ga.get() != e) { msg = "sodium_add/sub (guard-page buffers) wrong result"; return false; }
            GX ha(c.a, 2), hb(c.b, 2); if (c.op == ADD) sodium_add(ha.p, hb.p, len); else sodium_sub(ha.p, hb.p, len);
        }
        return true;
    }
    case MEMZERO: {
        // plain (unpoisoned) arena: bytes outside [off, off+zlen) must survive
        Bytes arena = c.a;
        if (c.off + c.zlen > arena.size()) return true;
        sodium_memzero(arena.data() + c.off, c.zlen);
        for (size_t i = 0; i < arena.size(); i++) {
            uint8_t e = (i >= c.off && i < c.off + c.zlen) ? 0 : c.a[i];
            if (arena[i] != e) { snprintf(tmp, sizeof tmp, "sodium_memzero(off=%zu,len=%zu): byte %zu is %02x expected %02x", c.off, c.zlen, i, arena[i], e); msg = tmp; return false; }
        }
        // exact-size poisoned buffer variant
        Bytes z(c.zlen, 0x5a); Buf zb(z, c.align);
        sodium_memzero(zb.p, c.zlen);
        for (auto x : zb.get()) if (x) { msg = "sodium_memzero left a non-zero byte"; return false; }
        return true;
    }
    case STACKZERO:
        sodium_stackzero(c.zlen);
        return true;
    }
    return true;
}

bool nontrivial(const Case &c, int cls) { return (c.a.size() >= 1 || c.zlen >= 1) && cls != 0; }

// cls: 0 random pair, 1 equal, 2 one-bit, 3 ms/ls byte, 4 carry chain, 5 exhaustive block, 6 all-ff/00
void exec(Ctx &ctx, const Case &c, int cls, uint64_t extra) {
    if (ctx.failed()) return;
    std::string msg;
    Guard g(ctx.cur_sub, c);
    bool ok = run(c, msg);
    uint64_t key = mix64(mix64(mix64(c.op, c.a.size()), cls), extra);
    ctx.count(key, nontrivial(c, cls));
    if (ctx.want_sample()) ctx.sample(c.kv());
    if (!ok) ctx.fail(c.kv(), msg);
}

const int BIN_OPS[] = { MEMCMP, COMPARE, ADD, SUB };

void explore_structured(Ctx &ctx) {
    Rng r = ctx.rng("c14-structured");
    size_t maxlen = ctx.thorough() ? 200 : 130;
    uint64_t idx = 0;
    for (size_t len = 0; len <= maxlen; len++) {
        Bytes base = r.bytes(len), other = r.bytes(len);
        bool mineflag = ctx.mine(idx++);
        if (!mineflag) continue;
        size_t align = len % 16;
        for (int op : { MEMCMP, VERIFY, COMPARE, ADD, SUB }) {
            if (op == VERIFY && len != 16 && len != 32 && len != 64) continue;
            exec(ctx, Case{ op, base, other, align, 0, 0 }, 0, 0);                  // random pair
            exec(ctx, Case{ op, base, base, align, 0, 0 }, 1, 0);                   // equal
            exec(ctx, Case{ op, Bytes(len, 0xff), Bytes(len, 0xff), align, 0, 0 }, 6, 0);
            exec(ctx, Case{ op, Bytes(len, 0x00), Bytes(len, 0xff), align, 0, 1 }, 6, 1);
            exec(ctx, Case{ op, Bytes(len, 0xff), Bytes(len, 0x00), align, 0, 2 }, 6, 2);
            for (size_t bit = 0; bit < 8 * len; bit++) {                            // exactly one bit differs
                Bytes o = base; o[bit / 8] ^= (uint8_t)(1u << (bit % 8));
                exec(ctx, Case{ op, base, o, align, 0, 0 }, 2, bit);
                if (op == COMPARE || op == SUB) exec(ctx, Case{ op, o, base, align, 0, 0 }, 2, bit + 100000);
            }
            if (len >= 2) {                                                         // ms byte vs ls byte disagree
                Bytes x = base, y = base;
                x[0] = 1; y[0] = 2; x[len - 1] = 2; y[len - 1] = 1;
                exec(ctx, Case{ op, x, y, align, 0, 0 }, 3, 0);
                exec(ctx, Case{ op, y, x, align, 0, 0 }, 3, 1);
            }
        }
        // is_zero: all-zero, single bit anywhere
        exec(ctx, Case{ ISZERO, Bytes(len, 0), Bytes(), align, 0, 0 }, 1, 0);
        for (size_t bit = 0; bit < 8 * len; bit++) { Bytes z(len, 0); z[bit / 8] = (uint8_t)(1u << (bit % 8)); exec(ctx, Case{ ISZERO, z, Bytes(), align, 0, 0 }, 2, bit); }
        exec(ctx, Case{ ISZERO, base, Bytes(), align, 0, 0 }, 0, 0);
        // carry / borrow chains of every length k starting at every offset s
        for (size_t s = 0; s < len; s++) {
            for (size_t k = 0; s + k <= len; k++) {
                if (!ctx.thorough() && len > 40 && (k % 3) && k != len - s && s + k != len) continue;   // thin out long ones in quick
                Bytes a = base, one(len, 0), zero(len, 0);
                for (size_t i = 0; i < len; i++) if (a[i] == 0xff) a[i] = 0x7f;
                for (size_t i = s; i < s + k; i++) a[i] = 0xff;
                one[s] = 1;
                Bytes z = base; for (size_t i = 0; i < len; i++) if (z[i] == 0) z[i] = 0x80;
                for (size_t i = s; i < s + k; i++) z[i] = 0x00;
                uint64_t ex = s * 1000 + k;
                exec(ctx, Case{ ADD, a, one, align, 0, 0 }, 4, ex);
                exec(ctx, Case{ SUB, z, one, align, 0, 0 }, 4, ex);
                if (s == 0) {
                    exec(ctx, Case{ INCREMENT, a, Bytes(), align, 0, 0 }, 4, ex);
                }
            }
        }
        exec(ctx, Case{ INCREMENT, base, Bytes(), align, 0, 0 }, 0, 0);
        exec(ctx, Case{ INCREMENT, Bytes(len, 0xff), Bytes(), align, 0, 0 }, 6, 0);
        exec(ctx, Case{ INCREMENT, Bytes(len, 0x00), Bytes(), align, 0, 0 }, 6, 1);
    }
}

void explore_exhaustive(Ctx &ctx) {
    // all 65536 pairs of 1-byte operands, all binary ops
    uint64_t idx = 0;
    for (int a = 0; a < 256; a++) {
        if (!ctx.mine(idx++)) continue;
        for (int b = 0; b < 256; b++)
            for (int op : BIN_OPS) exec(ctx, Case{ op, Bytes{ (uint8_t) a }, Bytes{ (uint8_t) b }, 0, 0, 0 }, 5, (uint64_t) a * 256 + b);
        exec(ctx, Case{ INCREMENT, Bytes{ (uint8_t) a }, Bytes(), 0, 0, 0 }, 5, a);
        exec(ctx, Case{ ISZERO, Bytes{ (uint8_t) a }, Bytes(), 0, 0, 0 }, 5, a);
    }
    // all 2-byte operands for unary ops; 2-byte pairs: every a x structured b (thorough: 144 b values)
    std::vector<uint16_t> bs = { 0, 1, 2, 0x7f, 0x80, 0xff, 0x100, 0x101, 0x1ff, 0x7fff, 0x8000, 0xfeff, 0xff00, 0xfffe, 0xffff, 0x00ff };
    if (ctx.thorough()) for (int i = 0; i < 65536; i += 512) bs.push_back((uint16_t)(i + (i >> 9) % 512));
    for (int a = 0; a < 65536; a++) {
        if (!ctx.mine(idx++)) continue;
        Bytes av{ (uint8_t) a, (uint8_t)(a >> 8) };
        exec(ctx, Case{ INCREMENT, av, Bytes(), 0, 0, 0 }, 5, a);
        exec(ctx, Case{ ISZERO, av, Bytes(), 0, 0, 0 }, 5, a);
        for (uint16_t b : bs) {
            Bytes bv{ (uint8_t) b, (uint8_t)(b >> 8) };
            for (int op : BIN_OPS) exec(ctx, Case{ op, av, bv, 0, 0, 0 }, 5, (uint64_t) a * 65536 + b);
        }
    }
}

void explore_fastpaths(Ctx &ctx) {
    // lengths with dedicated assembly paths (8/12/24/64) and verify sizes: many random + carry-heavy operands
    Rng r = ctx.wrng("c14-fast");
    size_t n = ctx.thorough() ? 40000 : 4000;
    for (size_t len : { 8u, 12u, 16u, 24u, 32u, 64u }) {
        for (size_t i = 0; i < n / (size_t) ctx.nworkers + 1; i++) {
            Bytes a = r.bytes(len), b = r.bytes(len);
            // make carries likely: runs of ff / 00 at 32/64-bit limb borders
            int mode = (int) r.below(4);
            if (mode == 1) { size_t s = r.below(len), e = r.range(s, len); for (size_t j = s; j < e; j++) a[j] = 0xff; }
            if (mode == 2) { size_t s = r.below(len), e = r.range(s, len); for (size_t j = s; j < e; j++) { a[j] = 0xff; b[j] = 0; } b[s] = 1; }
            if (mode == 3) { size_t s = r.below(len), e = r.range(s, len); for (size_t j = s; j < e; j++) { a[j] = 0; b[j] = 0; } b[s] = 1; }
            for (int op : { MEMCMP, VERIFY, COMPARE, ADD, SUB, INCREMENT }) {
                if (op == VERIFY && len != 16 && len != 32 && len != 64) continue;
                exec(ctx, Case{ op, a, op == INCREMENT ? Bytes() : b, (size_t) r.below(16), 0, 0 }, mode ? 4 : 0, mix64(i, mode));
            }
        }
    }
}

void explore_memzero(Ctx &ctx) {
    Rng r = ctx.rng("c14-memzero");
    uint64_t idx = 0;
    size_t maxn = ctx.thorough() ? 140 : 80;
    for (size_t off = 0; off <= maxn; off++)
        for (size_t zl = 0; off + zl <= maxn + 16; zl++) {
            if (!ctx.mine(idx++)) continue;
            Bytes arena(off + zl + 16);
            for (size_t i = 0; i < arena.size(); i++) arena[i] = (uint8_t)(1 + (i * 7 + off) % 255);
            exec(ctx, Case{ MEMZERO, arena, Bytes(), off % 16, off, zl }, 5, off * 1000 + zl);
        }
    for (size_t sz : { 1u, 2u, 15u, 16u, 17u, 255u, 256u, 1024u, 4096u, 8192u })
        if (ctx.mine(idx++)) exec(ctx, Case{ STACKZERO, Bytes(), Bytes(), 0, 0, sz }, 5, sz);
    (void) r;
}

// ------------------------------------------------------------------ operands of 4 GiB and more (thorough tier, non-sanitizer build, first round)
// Two sparse mappings of 2^32 + 16 bytes (all zero except the bytes set here; reading costs no memory).  sodium_compare treats the LAST byte
// as the most significant one: a length truncated to 32 bits would look at the first 16 bytes only.
struct GiantCase { int op; int variant; size_t len; KV kv() const { KV k; k.s("kind", "giant").u("op", op).u("variant", variant).u("len", len); return k; } };
uint64_t g_giant_skipped = 0;
bool run_giant(const GiantCase &c, std::string &msg) {
    giant::Map A(c.len), B(c.len); if (!A.ok() || !B.ok()) { g_giant_skipped++; return true; }
    const size_t G = (size_t) 1 << 32;
    char b[300]; int got, want;
    switch (c.op) {
    case 0:      // sodium_compare
        switch (c.variant) {
        case 0: A.p[c.len - 1] = 1; B.p[c.len - 1] = 2; A.p[3] = 9; B.p[3] = 1; want = -1; break;          // decided by the most significant byte, low bytes say the opposite
        case 1: A.p[G + 2] = 7; B.p[G + 2] = 6; A.p[3] = 1; B.p[3] = 9; want = 1; break;                    // decided just above 2^32
        case 2: A.p[5] = 2; B.p[5] = 1; want = 1; break;                                                    // equal everywhere above
        case 3: A.p[G - 1] = 1; B.p[G - 1] = 1; A.p[G] = 0x80; B.p[G] = 0x80; want = 0; break;              // equal
        default: A.p[G] = 1; want = 1; break;
        }
        got = sodium_compare(A.p, B.p, c.len);
        if (got != want) { snprintf(b, sizeof b, "sodium_compare over %zu-byte operands (variant %d) returned %d, little-endian order says %d", c.len, c.variant, got, want); msg = b; return false; }
        return true;
    case 1:      // sodium_memcmp
        if (c.variant == 0) { A.p[G + 9] = 1; want = -1; } else if (c.variant == 1) { A.p[c.len - 1] = 0x40; want = -1; } else if (c.variant == 2) { A.p[7] = 3; B.p[7] = 3; A.p[G + 1] = 5; B.p[G + 1] = 5; want = 0; } else { A.p[0] = 1; want = -1; }
        got = sodium_memcmp(A.p, B.p, c.len);
        if (got != want) { snprintf(b, sizeof b, "sodium_memcmp over %zu bytes (variant %d) returned %d, expected %d", c.len, c.variant, got, want); msg = b; return false; }
        return true;
    default:     // sodium_is_zero
        if (c.variant == 0) want = 1; else if (c.variant == 1) { A.p[G + 3] = 1; want = 0; } else if (c.variant == 2) { A.p[c.len - 1] = 0x80; want = 0; } else { A.p[G - 1] = 2; want = 0; }
        got = sodium_is_zero(A.p, c.len);
        if (got != want) { snprintf(b, sizeof b, "sodium_is_zero over %zu bytes (variant %d) returned %d, expected %d", c.len, c.variant, got, want); msg = b; return false; }
        return true;
    }
}
void explore_giant(Ctx &ctx) {
    if (!ctx.thorough() || !giant::fast_build() || !giant::first_round()) { ctx.notes["giant_operands"] = "thorough tier, non-sanitizer build, first round only"; return; }
    uint64_t idx = 0;
    for (size_t len : { ((size_t) 1 << 32) + 16, (size_t) 1 << 32 })
        for (int op = 0; op < 3; op++) for (int v = 0; v < (op == 0 ? 5 : 4); v++) {
            if (len == ((size_t) 1 << 32) && (v == 1 || (op == 1 && (v == 0 || v == 2)) || (op == 2 && v == 1) || (op == 0 && v >= 3))) continue;      // these variants set bytes at or above 2^32
            if (!ctx.mine(idx++)) continue;
            GiantCase c{ op, v, len };
            exec_case(ctx, c, run_giant, mix64(mix64(op, v), len), true);
        }
    ctx.notes["giant_operands_skipped_no_memory"] = std::to_string(g_giant_skipped);
}

bool replay(const KV &k, std::string &msg) { if (k.gs("kind") == "giant") { GiantCase c{ (int) k.gu("op"), (int) k.gu("variant"), (size_t) k.gu("len") }; return run_giant(c, msg); } Case c = Case::from(k); return run(c, msg); }

}  // namespace

std::vector<Sub> vh_subs() {
    return {
        { "giant_operands", explore_giant, replay },
        { "structured", explore_structured, replay },
        { "exhaustive", explore_exhaustive, replay },
        { "fastpaths", explore_fastpaths, replay },
        { "memzero", explore_memzero, replay },
    };
}
