// C11 -- secret data never influences branches or memory addresses.
// Metamorphic oracle: for fixed public inputs, two executions with different secrets must produce the identical
// sequence of basic-block edges and load/store addresses.  The library is compiled with
// -fsanitize-coverage=trace-pc-guard,trace-loads,trace-stores; this (uninstrumented) harness implements the callbacks.
#include "vh_main.hpp"
#include "c11ops.hpp"
using namespace vh;

// ------------------------------------------------------------------ trace recorder (callbacks from the instrumented library)
namespace tr {
bool recording = false, full = false;
uint64_t hash = 0, count = 0;
struct Ev { uint64_t kind, val, pc; };
std::vector<Ev> events;
inline void ev(uint64_t kind, uint64_t val, void *pc) {
    if (!recording) return;
    hash = (hash ^ (val + kind * 0x9e3779b97f4a7c15ULL)) * 0x100000001b3ULL; hash ^= hash >> 29;
    count++;
    if (full && events.size() < 4000000) events.push_back(Ev{ kind, val, (uint64_t) pc });
}
}  // namespace tr
extern "C" {
void __sanitizer_cov_trace_pc_guard_init(uint32_t *start, uint32_t *stop) { static uint32_t n = 0; for (uint32_t *g = start; g < stop; g++) if (!*g) *g = ++n; }
void __sanitizer_cov_trace_pc_guard(uint32_t *guard) { tr::ev(1, *guard, __builtin_return_address(0)); }
#define LS(N) void __sanitizer_cov_load##N(void *a) { tr::ev(2, (uint64_t) a, __builtin_return_address(0)); } void __sanitizer_cov_store##N(void *a) { tr::ev(3, (uint64_t) a, __builtin_return_address(0)); }
LS(1) LS(2) LS(4) LS(8) LS(16)
}

namespace {

struct Case {
    int op; size_t publen; Bytes s1, s2; uint64_t pubseed; unsigned long mask; std::string pairclass; size_t pad1 = 0, pad2 = 0;
    KV kv() const { KV k; k.s("op", ct::ops()[op].name).u("publen", publen).b("s1", s1).b("s2", s2).u("pubseed", pubseed).u("mask", mask).s("pairclass", pairclass).u("pad1", pad1).u("pad2", pad2); return k; }
};

void prepare_public(uint64_t seed) {
    Rng r(seed);
    r.fill(ct::B().pub, sizeof ct::B().pub);
    unsigned char sc[32]; r.fill(sc, 32); sc[31] &= 0x0f; sc[0] |= 1;
    crypto_scalarmult_ed25519_base_noclamp(ct::B().pub + 64, sc);      // a valid prime-order Edwards point
    crypto_scalarmult_ristretto255_base(ct::B().pub + 96, sc);         // a valid Ristretto element
    ct::B().pub[31] &= 0x7f;
}
__attribute__((noinline)) void one_run(const ct::Op &op, size_t publen, const Bytes &secret, size_t padul, uint64_t &h, uint64_t &n) {
    memset(ct::B().secret, 0, sizeof ct::B().secret); memset(ct::B().out, 0, sizeof ct::B().out); memset(ct::B().tmp, 0, 256);
    memcpy(ct::B().secret, secret.data(), secret.size());
    ct::pad_ul() = padul;
    tr::hash = 0xcbf29ce484222325ULL; tr::count = 0;
    tr::recording = true;
    op.run(publen);
    tr::recording = false;
    h = tr::hash; n = tr::count;
}
std::string symbolize(uint64_t pc) {
    char cmd[256]; snprintf(cmd, sizeof cmd, "llvm-symbolizer --obj=/proc/%d/exe --functions=short --no-inlines 0x%llx 2>/dev/null", (int) getpid(), (unsigned long long) pc);
    FILE *f = popen(cmd, "r"); if (!f) return "?";
    std::string out; char b[256]; while (fgets(b, sizeof b, f)) out += b; pclose(f);
    for (auto &ch : out) if (ch == '\n') ch = ' ';
    return out;
}
uint64_t g_last_events = 0;
bool run(const Case &c, std::string &msg) {
    const ct::Op &op = ct::ops()[c.op];
    set_mask(c.mask);
    if (op.needs_aesni && !(sodium_runtime_has_aesni() && sodium_runtime_has_avx() && sodium_runtime_has_pclmul())) return true;
    prepare_public(c.pubseed);
    uint64_t h0, n0, h1, n1, h2, n2;
    one_run(op, c.publen, c.s1, c.pad1, h0, n0);          // warm-up (lazy initialisation, page faults)
    one_run(op, c.publen, c.s1, c.pad1, h1, n1);
    one_run(op, c.publen, c.s2, c.pad2, h2, n2);
    g_last_events = n1;
    if (h1 == h2 && n1 == n2) return true;
    // divergence: record both traces in full and locate the first differing event
    tr::full = true;
    tr::events.clear(); one_run(op, c.publen, c.s1, c.pad1, h1, n1); std::vector<tr::Ev> e1 = tr::events;
    tr::events.clear(); one_run(op, c.publen, c.s2, c.pad2, h2, n2); std::vector<tr::Ev> e2 = tr::events;
    tr::full = false; tr::events.clear();
    size_t i = 0; while (i < e1.size() && i < e2.size() && e1[i].kind == e2[i].kind && e1[i].val == e2[i].val) i++;
    char b[700];
    if (i < e1.size() && i < e2.size()) {
        const char *what = e1[i].kind != e2[i].kind || e1[i].kind == 1 ? "a different branch / basic block" : (e1[i].kind == 2 ? "a load from a different address" : "a store to a different address");
        snprintf(b, sizeof b, "%s (public length %zu, mask 0x%lx, pair '%s'): the execution traces of two secrets diverge at event %zu of %zu/%zu: %s, in %s", op.name, c.publen, c.mask, c.pairclass.c_str(), i, e1.size(), e2.size(), what, symbolize(e1[i].pc - 1).c_str());
    } else snprintf(b, sizeof b, "%s (public length %zu, mask 0x%lx, pair '%s'): trace lengths differ between two secrets (%zu vs %zu events)", op.name, c.publen, c.mask, c.pairclass.c_str(), e1.size(), e2.size());
    msg = b; return false;
}

// structured secret pairs
struct Pair { Bytes a, b; std::string cls; size_t p1 = 0, p2 = 0; };
Bytes scalar_const(int which) {
    Bytes s(32, 0);
    static const char *Lm1 = "ecd3f55c1a631258d69cf7a2def9de1400000000000000000000000000000010";
    switch (which) { case 0: s[0] = 1; break; case 1: s[0] = 2; break; case 2: s = unhex(Lm1); break; case 3: s[31] = 0x10; break; case 4: s[0] = 8; s[16] = 1; break; case 5: s.assign(32, 0xff); s[31] = 0x0f; break; default: s.assign(32, 0x55); s[31] = 0x05; break; }
    return s;
}
std::vector<Pair> make_pairs(const ct::Op &op, size_t publen, Rng &r, bool thorough) {
    std::vector<Pair> v; size_t L = op.secret_len(publen); std::string kind = op.secret_kind;
    auto rnd = [&](size_t n) { return r.bytes(n); };
    if (kind == "scalar") {
        int n = thorough ? 7 : 5;
        for (int i = 0; i < n; i++) { int j = (i + 1 + (int) r.below(6)) % 7; if (j == i) j = (i + 1) % 7; v.push_back(Pair{ scalar_const(i), scalar_const(j), "scalar-const" + std::to_string(i) + "-" + std::to_string(j) }); }
        Bytes a = rnd(32), b = rnd(32); a[31] &= 0x0f; b[31] &= 0x0f; a[0] |= 1; b[0] |= 1; v.push_back(Pair{ a, b, "random" });
        Bytes c = a; c[r.below(31)] ^= (uint8_t) (1u << r.below(8)); v.push_back(Pair{ a, c, "one-bit" });
        // secrets chosen by a property of the (secret) RESULT: an encoding whose first byte is 0x01 / 0x00 resembles the identity for a
        // test that short-circuits, the last byte carries the sign bit.  Found by search with the public base-point functions.
        std::string nm = op.name;
        if (nm.find("scalarmult_ed25519_base") != std::string::npos || nm.find("scalarmult_ristretto255_base") != std::string::npos) {
            auto result_of = [&](const Bytes &s, Bytes &out) { out.assign(32, 0);
                if (nm.find("ristretto") != std::string::npos) return crypto_scalarmult_ristretto255_base(out.data(), s.data()) == 0;
                if (nm.find("noclamp") != std::string::npos) return crypto_scalarmult_ed25519_base_noclamp(out.data(), s.data()) == 0;
                return crypto_scalarmult_ed25519_base(out.data(), s.data()) == 0; };
            for (int target : { 0x01, 0x00 }) {
                Bytes hit, miss, out;
                for (int tries = 0; tries < 6000 && (hit.empty() || miss.empty()); tries++) {
                    Bytes s = rnd(32); s[31] &= 0x0f; s[0] |= 1;
                    if (!result_of(s, out)) continue;
                    if (out[0] == target) { if (hit.empty()) hit = s; } else if (miss.empty()) miss = s;
                }
                if (!hit.empty() && !miss.empty()) v.push_back(Pair{ hit, miss, std::string("result-byte0-") + (target ? "01" : "00") + "-vs-other" });
            }
        }
        return v;
    }
    size_t bs = 16; { size_t colon = kind.find(':'); if (colon != std::string::npos) { bs = (size_t) atoi(kind.c_str() + colon + 1); kind = kind.substr(0, colon); } }
    if (kind == "padpos") {          // marker position within the final block (16 bytes, or the block size given after the colon)
        if (L < bs) return v;
        for (int i = 0; i < (thorough ? 16 : 6); i++) {
            size_t p1 = r.below(bs), p2 = (p1 + 1 + r.below(bs - 1)) % bs;
            Bytes a = rnd(L), b = a;
            for (size_t k = L - bs + p1; k < L; k++) a[k] = 0; a[L - bs + p1] = 0x80;
            for (size_t k = L - bs + p2; k < L; k++) b[k] = 0; b[L - bs + p2] = 0x80;
            v.push_back(Pair{ a, b, "marker@" + std::to_string(p1) + "-vs-" + std::to_string(p2) });
        }
        return v;
    }
    if (kind == "padlen") {
        for (int i = 0; i < (thorough ? 16 : 6); i++) {
            size_t base = publen / bs * bs, p1 = r.below(bs), p2 = (p1 + 1 + r.below(bs - 1)) % bs; Bytes a = rnd(L);
            Pair p{ a, a, "unpadded-len@" + std::to_string(p1) + "-vs-" + std::to_string(p2) }; p.p1 = base + p1; p.p2 = base + p2; v.push_back(p);
        }
        return v;
    }
    if (L == 0) return v;
    if (kind == "pair") {
        size_t h = L / 2; Bytes a = rnd(h);
        auto cat2 = [](const Bytes &x, const Bytes &y) { Bytes z = x; z.insert(z.end(), y.begin(), y.end()); return z; };
        Bytes first = a, last = a; first[0] ^= 1; last[h - 1] ^= 0x80;
        v.push_back(Pair{ cat2(a, a), cat2(a, first), "equal-vs-first-byte-differs" });
        v.push_back(Pair{ cat2(a, a), cat2(a, last), "equal-vs-last-byte-differs" });
        v.push_back(Pair{ cat2(a, first), cat2(a, last), "first-vs-last-byte-differs" });
        v.push_back(Pair{ cat2(a, a), cat2(a, rnd(h)), "equal-vs-random" });
        v.push_back(Pair{ cat2(Bytes(h, 0), Bytes(h, 0)), cat2(Bytes(h, 0xff), Bytes(h, 0)), "zero-vs-ff" });
        for (int i = 0; i < (thorough ? 16 : 3); i++) { Bytes o = a; size_t bit = r.below(8 * h); o[bit / 8] ^= (uint8_t) (1u << (bit % 8)); v.push_back(Pair{ cat2(a, a), cat2(a, o), "equal-vs-bit" + std::to_string(bit) }); }
        return v;
    }
    Bytes a = rnd(L);
    v.push_back(Pair{ a, rnd(L), "random" });
    v.push_back(Pair{ Bytes(L, 0), Bytes(L, 0xff), "zero-vs-ff" });
    { Bytes b = a; b[0] ^= 0x80; v.push_back(Pair{ a, b, "first-byte" }); }
    { Bytes b = a; b[L - 1] ^= 0x01; v.push_back(Pair{ a, b, "last-byte" }); }
    v.push_back(Pair{ a, Bytes(L, 0), "random-vs-zero" });
    for (int i = 0; i < (thorough ? 12 : 2); i++) { Bytes b = a; size_t bit = r.below(8 * L); b[bit / 8] ^= (uint8_t) (1u << (bit % 8)); v.push_back(Pair{ a, b, "bit" + std::to_string(bit) }); }
    if (L > 32) { Bytes b = a; for (size_t k = 32; k < L; k++) b[k] = (uint8_t) r.next(); v.push_back(Pair{ a, b, "same-key-other-message" }); Bytes c = a; for (size_t k = 0; k < 32; k++) c[k] = (uint8_t) r.next(); v.push_back(Pair{ a, c, "other-key-same-message" }); }
    return v;
}

void explore(Ctx &ctx) {
    const auto &O = ct::ops();
    std::vector<unsigned long> masks; for (auto &m : mask_set(false)) if (m.name == "all" || m.name == "-avx2" || m.name == "-ssse3" || m.name == "none") masks.push_back(m.mask);
    Rng r = ctx.rng("c11");
    uint64_t idx = 0;
    // includes the lengths for which the helpers have (or could be given) dedicated word-wise / assembly fast paths: 4, 8, 12, 24, 48
    static const size_t PL[] = { 0, 1, 2, 3, 4, 7, 8, 9, 12, 15, 16, 17, 24, 31, 32, 33, 48, 63, 64, 65, 100, 127, 128, 129, 255, 256, 257, 300, 511, 512, 513, 600 };
    for (size_t oi = 0; oi < O.size(); oi++) {
        const ct::Op &op = O[oi];
        if (op.vg_only) continue;          // allocates internally: addresses are not comparable between two executions (valgrind stage only)
        std::vector<size_t> pls;
        if (op.max_publen == 0) pls = { 0 };
        else for (size_t l : PL) if (l <= op.max_publen) pls.push_back(l);
        std::string kind = op.secret_kind;
        if (kind == "padpos") { pls.clear(); for (size_t l = 16; l <= op.max_publen; l += 16) pls.push_back(l); }
        if (kind == "padlen") { pls.clear(); for (size_t l = 0; l <= op.max_publen; l += 16) pls.push_back(l); }
        bool slow = kind == "scalar" || kind == "seed";
        for (size_t pl : pls) {
            uint64_t rs = r.next(), pubseed = r.next();
            if (slow && pl != pls[0] && pl % 64 != 0 && !ctx.thorough()) continue;
            if (!ctx.mine(idx++)) continue;
            Rng rr(rs);
            auto pairs = make_pairs(op, pl, rr, ctx.thorough());
            for (size_t mi = 0; mi < masks.size(); mi++) {
                if (slow && mi > 1 && !ctx.thorough()) continue;
                if (op.needs_aesni && mi > 1) continue;
                for (auto &p : pairs) {
                    if (p.a == p.b && p.p1 == p.p2) continue;
                    Case c{ (int) oi, pl, p.a, p.b, pubseed, masks[mi], p.cls, p.p1, p.p2 };
                    g_last_events = 0;
                    exec_case(ctx, c, run, mix64(mix64(oi, pl), mix64(masks[mi], hash_str(p.cls))), true);
                    if (g_last_events < 20) ctx.cls("pairs_with_fewer_than_20_events");
                    ctx.cls(std::string("op:") + op.name);
                }
            }
        }
    }
}

bool replay(const KV &k, std::string &msg) {
    Case c; c.op = -1;
    for (size_t i = 0; i < ct::ops().size(); i++) if (k.gs("op") == ct::ops()[i].name) c.op = (int) i;
    if (c.op < 0) { msg = "unknown op"; return false; }
    c.publen = k.gu("publen"); c.s1 = k.gb("s1"); c.s2 = k.gb("s2"); c.pubseed = k.gu("pubseed"); c.mask = k.gu("mask"); c.pairclass = k.gs("pairclass"); c.pad1 = k.gu("pad1"); c.pad2 = k.gu("pad2");
    return run(c, msg);
}

}  // namespace

std::vector<Sub> vh_subs() { return { { "trace_equality", explore, replay } }; }
