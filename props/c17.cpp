// C17 -- guarded allocations trap overflows, detect underflows and honour protections.
// Every probe runs in a forked child of a NON-sanitized build so the raw signal is observed; the expected
// outcome comes from a four-state model (RW / RO / NONE / freed) of the documented behaviour.
#include "vh_main.hpp"
#include "giant.hpp"
#include <sys/wait.h>
#include <sys/mman.h>
#include <sys/resource.h>
#include <errno.h>
using namespace vh;

namespace {

enum Probe { OK_RW, OVER_READ, OVER_WRITE, UNDER_WRITE_FREE, STATE_READ_FIRST, STATE_READ_LAST, STATE_WRITE_FIRST, STATE_WRITE_LAST, STATE_FREE, UNDER_READ_PAGE, NPROBE };
const char *PN[] = { "ok_rw", "over_read", "over_write", "under_write_then_free", "read_first", "read_last", "write_first", "write_last", "free", "read_before_region" };

struct Case {
    size_t size; std::string hist; int probe; int k; bool array; size_t count;
    int sigmode = 0;     // disposition of SIGSEGV while sodium_free() runs: 0 default, 1 ignored, 2 blocked, 3 a handler that returns ("terminates the process" must not depend on it)
    KV kv() const { KV kv; kv.s("kind", "probe").u("size", size).s("hist", hist.empty() ? "-" : hist).s("probe", PN[probe]).u("k", k).u("array", array).u("count", count).u("sigmode", sigmode); return kv; }
};

volatile unsigned char sink;

// child exit codes: 0 ok, 10+ = harness-detected deviation
int child(const Case &c) {
    for (int s : { SIGSEGV, SIGBUS, SIGABRT, SIGILL, SIGFPE }) signal(s, SIG_DFL);
    struct rlimit rl = { 0, 0 }; setrlimit(RLIMIT_CORE, &rl);
    unsigned char *p = (unsigned char *) (c.array ? sodium_allocarray(c.count, c.size / (c.count ? c.count : 1)) : sodium_malloc(c.size));
    if (!p) return 11;
    size_t size = c.size;
    // fill pattern: one non-zero value over the whole region
    if (size) { unsigned char v = p[0]; if (v == 0) return 12; for (size_t i = 0; i < size; i++) if (p[i] != v) return 13; }
    for (char h : c.hist) {
        int r = h == 'N' ? sodium_mprotect_noaccess(p) : h == 'R' ? sodium_mprotect_readonly(p) : sodium_mprotect_readwrite(p);
        if (r != 0) return 14;
    }
    switch (c.probe) {
    case OK_RW:
        if (size) { p[0] = 1; p[size - 1] = 2; sink = p[0]; sink = p[size - 1]; for (size_t i = 0; i < size; i += 97) p[i] = (unsigned char) i; }
        sodium_free(p);
        return 0;
    case OVER_READ: sink = p[size]; return 20;             // must not get here
    case OVER_WRITE: p[size] = 1; return 21;
    case UNDER_WRITE_FREE:
        p[-c.k] ^= 0xff;
        if (c.sigmode == 1) signal(SIGSEGV, SIG_IGN);
        else if (c.sigmode == 2) { sigset_t ss; sigemptyset(&ss); sigaddset(&ss, SIGSEGV); sigprocmask(SIG_BLOCK, &ss, nullptr); }
        else if (c.sigmode == 3) signal(SIGSEGV, [](int) {});
        sodium_free(p); return 22;
    case STATE_READ_FIRST: sink = p[0]; return 0;
    case STATE_READ_LAST: sink = p[size - 1]; return 0;
    case STATE_WRITE_FIRST: p[0] = 7; return 0;
    case STATE_WRITE_LAST: p[size - 1] = 7; return 0;
    case STATE_FREE: sodium_free(p); return 0;
    case UNDER_READ_PAGE: {     // the page before the user region (behind the canary page) is inaccessible
        long ps = sysconf(_SC_PAGESIZE);
        unsigned char *q = (unsigned char *) (((uintptr_t) (p - 16)) & ~(uintptr_t) (ps - 1));
        sink = q[-1]; return 23;
    }
    }
    return 0;
}

char final_state(const std::string &h) { return h.empty() ? 'W' : h.back(); }

// expected: 0 = exits 0; 1 = killed by access signal (SEGV/BUS); 2 = killed by SEGV/ABRT (canary)
int expected(const Case &c) {
    char st = final_state(c.hist);
    switch (c.probe) {
    case OK_RW: case STATE_FREE: return 0;
    case OVER_READ: case OVER_WRITE: case UNDER_READ_PAGE: return 1;
    case UNDER_WRITE_FREE: return 2;
    case STATE_READ_FIRST: case STATE_READ_LAST: return st == 'N' ? 1 : 0;
    case STATE_WRITE_FIRST: case STATE_WRITE_LAST: return st == 'W' ? 0 : 1;
    }
    return 0;
}

uint64_t g_giant_skipped = 0;
bool run(const Case &c, std::string &msg) {
    if (c.size >= ((size_t) 1 << 30) && !giant::have_memory(c.size)) { g_giant_skipped++; return true; }      // 4 GiB regions are filled by the library: real memory
    fflush(stdout); fflush(stderr);
    pid_t pid = fork();
    if (pid == 0) { inflight().active = false; _exit(child(c)); }
    int st = 0; waitpid(pid, &st, 0);
    int e = expected(c);
    char b[300];
    if (e == 0) {
        if (WIFEXITED(st) && WEXITSTATUS(st) == 0) return true;
        snprintf(b, sizeof b, "size=%zu hist=%s probe=%s: expected a clean exit, got status 0x%x (exit %d / signal %d)", c.size, c.hist.c_str(), PN[c.probe], st, WIFEXITED(st) ? WEXITSTATUS(st) : -1, WIFSIGNALED(st) ? WTERMSIG(st) : 0);
    } else if (e == 1) {
        if (WIFSIGNALED(st) && (WTERMSIG(st) == SIGSEGV || WTERMSIG(st) == SIGBUS)) return true;
        snprintf(b, sizeof b, "size=%zu hist=%s probe=%s: the access must fault, got status 0x%x (exit %d / signal %d)", c.size, c.hist.c_str(), PN[c.probe], st, WIFEXITED(st) ? WEXITSTATUS(st) : -1, WIFSIGNALED(st) ? WTERMSIG(st) : 0);
    } else {
        if (WIFSIGNALED(st) && (WTERMSIG(st) == SIGSEGV || WTERMSIG(st) == SIGABRT || WTERMSIG(st) == SIGKILL)) return true;
        snprintf(b, sizeof b, "size=%zu: byte %d before the region was altered but sodium_free did not terminate the process (status 0x%x; SIGSEGV %s)", c.size, c.k, st, c.sigmode == 0 ? "default" : c.sigmode == 1 ? "ignored" : c.sigmode == 2 ? "blocked" : "handled by a handler that returns");
    }
    msg = b; return false;
}

void go(Ctx &ctx, const Case &c, bool nt) { exec_case(ctx, c, run, mix64(mix64(mix64(c.size, hash_str(c.hist)), c.probe), mix64(mix64(c.k, c.sigmode), c.count)), nt); }

void explore_sizes(Ctx &ctx) {
    size_t page = (size_t) sysconf(_SC_PAGESIZE);
    uint64_t idx = 0;
    for (size_t size = 0; size <= 3 * page + 1; size++) {
        size_t mod = size % page;
        bool near = mod <= 17 || mod >= page - 17;
        if (!near && !ctx.thorough() && size % 7 != 0) continue;
        if (!ctx.mine(idx++)) continue;
        bool nt = (size % 16 != 0) || near;
        go(ctx, Case{ size, "", OK_RW, 0, false, 0 }, nt);
        go(ctx, Case{ size, "", OVER_READ, 0, false, 0 }, nt);
        go(ctx, Case{ size, "", OVER_WRITE, 0, false, 0 }, nt);
        if (near || ctx.thorough()) { for (int k = 1; k <= 16; k++) go(ctx, Case{ size, "", UNDER_WRITE_FREE, k, false, 0 }, nt); }
        else go(ctx, Case{ size, "", UNDER_WRITE_FREE, 1 + (int) (size % 16), false, 0 }, nt);
        if (near) go(ctx, Case{ size, "", UNDER_READ_PAGE, 0, false, 0 }, nt);
        if (near && size % 3 == 0) for (int sm = 1; sm <= 3; sm++) { Case c{ size, "", UNDER_WRITE_FREE, 1 + (int) ((size + (size_t) sm) % 16), false, 0 }; c.sigmode = sm; go(ctx, c, true); }
    }
    // allocarray with exact products
    for (size_t count : { 1u, 2u, 3u, 7u, 64u })
        for (size_t esz : { 1u, 5u, 16u, 33u, 4096u }) {
            if (!ctx.mine(idx++)) continue;
            go(ctx, Case{ count * esz, "", OK_RW, 0, true, count }, true);
            go(ctx, Case{ count * esz, "", OVER_WRITE, 0, true, count }, true);
        }
}

// regions of 4 GiB and more (thorough tier, first round): sizes and element products that do not fit 32 bits; same probes as the small sizes
void explore_giant(Ctx &ctx) {
    if (!ctx.thorough() || !giant::first_round() || std::string(VERIF_VARIANT) != "native") { ctx.notes["giant_allocations"] = "thorough tier, native variant, first round only"; return; }
    size_t page = (size_t) sysconf(_SC_PAGESIZE); const size_t G = (size_t) 1 << 32;
    uint64_t idx = 0;
    auto mine2 = [&](uint64_t i) { return ctx.worker == (int) (i % (uint64_t) std::min(ctx.nworkers, 2)); };     // every probe fills 4 GiB of real memory: two at a time per build
    for (size_t size : { G - 1, G, G + 17, G + page + 1 }) {
        if (!mine2(idx++)) continue;
        go(ctx, Case{ size, "", OK_RW, 0, false, 0 }, true);
        go(ctx, Case{ size, "", OVER_WRITE, 0, false, 0 }, true);
        go(ctx, Case{ size, "", OVER_READ, 0, false, 0 }, true);
        go(ctx, Case{ size, "", UNDER_WRITE_FREE, 1 + (int) (size % 16), false, 0 }, true);
        go(ctx, Case{ size, "", UNDER_READ_PAGE, 0, false, 0 }, true);
        go(ctx, Case{ size, "NW", STATE_WRITE_LAST, 0, false, 0 }, true);
        go(ctx, Case{ size, "R", STATE_WRITE_LAST, 0, false, 0 }, true);
    }
    for (size_t count : { (size_t) 65537, (size_t) 3, ((size_t) 1 << 31) + 1 }) {       // exact products above 2^32 with factors below / above 2^32
        size_t esz = count == 65537 ? 65537 : count == 3 ? ((size_t) 1 << 31) - 5 : 2;
        if (!mine2(idx++)) continue;
        go(ctx, Case{ count * esz, "", OK_RW, 0, true, count }, true);
        go(ctx, Case{ count * esz, "", OVER_WRITE, 0, true, count }, true);
    }
    ctx.notes["giant_allocations_skipped_no_memory"] = std::to_string(g_giant_skipped);
}

void explore_histories(Ctx &ctx) {
    size_t page = (size_t) sysconf(_SC_PAGESIZE);
    std::vector<std::string> hs;
    const char *S = "NRW";
    for (int len = 1; len <= 4; len++) {
        int n = 1; for (int i = 0; i < len; i++) n *= 3;
        for (int v = 0; v < n; v++) { std::string h; int t = v; for (int i = 0; i < len; i++) { h += S[t % 3]; t /= 3; } hs.push_back(h); }
    }
    uint64_t idx = 0;
    std::vector<size_t> sizes = { 1, 17, page - 1, page, page + 1, 2 * page + 5 };
    if (ctx.thorough()) { sizes.push_back(16); sizes.push_back(3 * page); sizes.push_back(100); }
    for (auto &h : hs)
        for (size_t size : sizes) {
            if (!ctx.mine(idx++)) continue;
            bool nt = false; for (char ch : h) if (ch != h[0]) nt = true;
            for (int probe : { STATE_READ_FIRST, STATE_READ_LAST, STATE_WRITE_FIRST, STATE_WRITE_LAST, STATE_FREE }) go(ctx, Case{ size, h, probe, 0, false, 0 }, nt || h.size() == 1);
            if (final_state(h) == 'W') go(ctx, Case{ size, h, OK_RW, 0, false, 0 }, true);
        }
}

// ------------------------------------------------------------------ failing requests (in-process: they must return NULL)
struct NullCase {
    bool array; size_t a, b;
    KV kv() const { KV k; k.s("kind", "null").u("array", array).u("a", a).u("b", b); return k; }
};
bool run_null(const NullCase &c, std::string &msg) {
    errno = 0;
    void *p = c.array ? sodium_allocarray(c.a, c.b) : sodium_malloc(c.a);
    int e = errno;
    char b[256];
    if (p != nullptr) {
        sodium_free(p);
        snprintf(b, sizeof b, "%s(%zu, %zu) succeeded but the request cannot be satisfied (overflow / oversize)", c.array ? "sodium_allocarray" : "sodium_malloc", c.a, c.b);
        msg = b; return false;
    }
    if (e != ENOMEM) { snprintf(b, sizeof b, "%s(%zu, %zu) returned NULL with errno %d, expected ENOMEM", c.array ? "sodium_allocarray" : "sodium_malloc", c.a, c.b, e); msg = b; return false; }
    return true;
}
struct ArrOkCase {
    size_t a, b;
    KV kv() const { KV k; k.s("kind", "arrok").u("a", a).u("b", b); return k; }
};
bool run_arrok(const ArrOkCase &c, std::string &msg) {     // products that do not overflow and are small must succeed
    void *p = sodium_allocarray(c.a, c.b);
    if (!p) { msg = "sodium_allocarray failed for a small non-overflowing product"; return false; }
    sodium_free(p);
    return true;
}
void explore_limits(Ctx &ctx) {
    size_t page = (size_t) sysconf(_SC_PAGESIZE);
    uint64_t idx = 0;
    std::vector<size_t> big;
    for (size_t k = 0; k < 40; k++) big.push_back(SIZE_MAX - k);
    for (size_t k = 0; k <= 4 * page + 40; k += (k < 64 || k + 64 > 4 * page ? 1 : 509)) big.push_back(SIZE_MAX - k);
    for (size_t k = 0; k < 3; k++) big.push_back(SIZE_MAX - 4 * page + k);
    for (size_t v : { SIZE_MAX / 2, SIZE_MAX / 2 + 1, (size_t) 1 << 62, (size_t) 1 << 48, ((size_t) 1 << 63) - page }) big.push_back(v);
    // every size whose guarded layout (canary + rounding + 3 pages) cannot exist in a 64-bit address space
    for (size_t v : big) { if (!ctx.mine(idx++)) continue; NullCase c{ false, v, 0 }; exec_case(ctx, c, run_null, mix64(v, 1), true); }
    // allocarray: count*size at the overflow boundary
    std::vector<std::pair<size_t, size_t>> ov;
    for (size_t cnt : { (size_t) 2, (size_t) 3, (size_t) 16, (size_t) 1 << 32, ((size_t) 1 << 32) + 1, (size_t) 1 << 33, SIZE_MAX / 2, SIZE_MAX / 3, SIZE_MAX - 1, SIZE_MAX }) {
        size_t q = SIZE_MAX / cnt;
        for (size_t d = 0; d < 3; d++) { ov.push_back({ cnt, q + d }); ov.push_back({ q + d, cnt }); }
        ov.push_back({ cnt, SIZE_MAX }); ov.push_back({ SIZE_MAX, cnt });
    }
    // both factors above 2^32 (and other splits of 64 bits): the true product exceeds 2^64 while the wrapped product is a moderate, allocatable
    // number that is not smaller than either factor - the add-style overflow idiom (total < count) does not notice these
    for (size_t i = 0; i < 4; i++) for (size_t j = 0; j < 4; j++) ov.push_back({ ((size_t) 1 << 32) + i, ((size_t) 1 << 32) + j });
    for (int sh : { 33, 40, 48, 56, 63 }) for (size_t i = 1; i < 3; i++) { ov.push_back({ ((size_t) 1 << sh) + i, ((size_t) 1 << (64 - sh)) + i }); ov.push_back({ ((size_t) 1 << (64 - sh)) + i, ((size_t) 1 << sh) + i }); }
    for (auto &pr : ov) {
        if (!ctx.mine(idx++)) continue;
        // count*size >= SIZE_MAX (mathematically) or wraps: must fail with ENOMEM
        unsigned __int128 prod = (unsigned __int128) pr.first * pr.second;
        if (prod >= (unsigned __int128) (SIZE_MAX - 4 * page - 40)) { NullCase c{ true, pr.first, pr.second }; exec_case(ctx, c, run_null, mix64(pr.first, pr.second), true); }
    }
    for (auto pr : std::vector<std::pair<size_t, size_t>>{ { 0, 0 }, { 0, 5 }, { 5, 0 }, { 0, SIZE_MAX }, { SIZE_MAX, 0 }, { 1, 1 }, { 1, 4097 }, { 4097, 1 }, { 65536, 3 }, { 3, 65536 }, { (size_t) 1 << 16, (size_t) 1 << 4 } }) {
        if (!ctx.mine(idx++)) continue;
        ArrOkCase c{ pr.first, pr.second }; exec_case(ctx, c, run_arrok, mix64(pr.first, pr.second), true);
    }
}

bool replay(const KV &k, std::string &msg) {
    if (k.gs("kind") == "null") { NullCase c{ k.gu("array") != 0, (size_t) k.gu("a"), (size_t) k.gu("b") }; return run_null(c, msg); }
    if (k.gs("kind") == "arrok") { ArrOkCase c{ (size_t) k.gu("a"), (size_t) k.gu("b") }; return run_arrok(c, msg); }
    Case c; c.size = k.gu("size"); c.hist = k.gs("hist") == "-" ? "" : k.gs("hist"); c.probe = 0;
    for (int i = 0; i < NPROBE; i++) if (k.gs("probe") == PN[i]) c.probe = i;
    c.k = (int) k.gu("k"); c.array = k.gu("array"); c.count = k.gu("count"); c.sigmode = k.has("sigmode") ? (int) k.gu("sigmode") : 0;
    return run(c, msg);
}

}  // namespace

std::vector<Sub> vh_subs() {
    return { { "sizes", explore_sizes, replay }, { "giant_allocations", explore_giant, replay }, { "histories", explore_histories, replay }, { "limits", explore_limits, replay } };
}
