// C08 -- password hashing equals Argon2 / scrypt; the string API is self-consistent.
// Oracle: ref/argon2.hpp (RFC 9106 incl. lanes), ref/scrypt.hpp (RFC 7914 + $7$ codec), strict PHC string parser.
#define VH_NO_SODIUM_INIT 1
#include "vh_main.hpp"
#include "giant.hpp"
#include "vh_rc.hpp"
#include "argon2.hpp"
#include "scrypt.hpp"
#include <errno.h>
using namespace vh;

namespace {

inline const uint8_t *D(const Bytes &b) { static uint8_t z[8]; return b.empty() ? z : b.data(); }
inline uint8_t *D(Bytes &b) { static uint8_t z[8]; return b.empty() ? z : b.data(); }
#define FAIL(...) do { char b_[600]; snprintf(b_, sizeof b_, __VA_ARGS__); msg = b_; return false; } while (0)

// scripted random source so that the salt of generated hash strings is known
Bytes g_script; size_t g_pos = 0;
const char *impl_name() { return "verif-scripted"; }
void impl_buf(void *p, size_t n) { uint8_t *b = (uint8_t *) p; for (size_t i = 0; i < n; i++) b[i] = g_script.empty() ? (uint8_t) (i * 13 + 5) : g_script[(g_pos + i) % g_script.size()]; g_pos += n; }
uint32_t impl_random() { uint32_t v; impl_buf(&v, 4); return v; }
randombytes_implementation IMPL = { impl_name, impl_random, nullptr, nullptr, impl_buf, nullptr };
void init_once() {
    static bool done = false; if (done) return; done = true;
    randombytes_set_implementation(&IMPL);
    if (sodium_init() < 0) { fprintf(stderr, "VH-INFRA sodium_init failed\n"); _exit(2); }
    sodium_verif_set_cpu_mask(F_ALL); detected_ref() = current_features();
}
std::vector<unsigned long> masks08() { std::vector<unsigned long> out; for (auto &m : mask_set(false)) if (m.name == "all" || m.name == "-avx512f" || m.name == "-avx2" || m.name == "-ssse3" || m.name == "none") out.push_back(m.mask); return out; }

// ------------------------------------------------------------------ cost guard for generated / mutated strings
// true if running the library on this string could cost more than the harness allows (skipped and counted)
bool too_expensive(const std::string &s) {
    auto num_after = [&](const char *key, uint64_t &v) -> bool {
        size_t p = s.find(key); if (p == std::string::npos) return false; p += strlen(key); v = 0; bool any = false;
        // decimals that do not fit 32 bits must be rejected by the parser; a parser that wrongly truncates them would see the low 32 bits,
        // so the cost is judged on those (the generator only builds such aliases of CHEAP values)
        unsigned __int128 w = 0; int digits = 0;
        while (p < s.size() && s[p] >= '0' && s[p] <= '9') { w = w * 10 + (unsigned) (s[p] - '0'); p++; any = true; if (++digits > 24) return true; }
        v = w > 0xffffffffULL ? (uint64_t) (w & 0xffffffffULL) : (uint64_t) w;
        return any;
    };
    if (s.compare(0, 7, "$argon2") == 0) {
        uint64_t m = 0, t = 0, p = 0;
        if (num_after("m=", m) && m > 2048) return true;
        if (num_after("t=", t) && t > 6) return true;
        if (num_after("p=", p) && p > 6) return true;
        return false;
    }
    if (s.compare(0, 3, "$7$") == 0 && s.size() >= 14) {
        auto val = [&](size_t pos, size_t n) { uint64_t v = 0; for (size_t c = 0; c < n; c++) { int d = ref::scrypt_b64_value(s[pos + c]); if (d < 0) d = 63; v |= (uint64_t) d << (6 * c); } return v; };
        uint64_t nl = val(3, 1), r = val(4, 5), p = val(9, 5);
        if (nl > 12 || r > 16 || p > 4) return true;
        if (((uint64_t) 1 << nl) * r * p > (1u << 15)) return true;
        return false;
    }
    return false;
}

// ------------------------------------------------------------------ raw Argon2
struct RawCase {
    int alg; Bytes pw, salt; size_t outlen; uint64_t ops; size_t mem; unsigned long mask; int api;   // api 0 crypto_pwhash, 1 specific
    KV kv() const { KV k; k.s("kind", "raw").u("alg", alg).b("pw", pw).b("salt", salt).u("outlen", outlen).u("ops", ops).u("mem", mem).u("mask", mask).u("api", api); return k; }
};
bool run_raw(const RawCase &c, std::string &msg) {
    init_once(); set_mask(c.mask);
    XBuf out(c.outlen, 3, 0xcd), pw(c.pw, 1), salt(c.salt, 2);
    int rc;
    if (c.api == 0) rc = crypto_pwhash(out.p, c.outlen, (const char *) pw.p, c.pw.size(), salt.p, c.ops, c.mem, c.alg);
    else rc = c.alg == 1 ? crypto_pwhash_argon2i(out.p, c.outlen, (const char *) pw.p, c.pw.size(), salt.p, c.ops, c.mem, c.alg) : crypto_pwhash_argon2id(out.p, c.outlen, (const char *) pw.p, c.pw.size(), salt.p, c.ops, c.mem, c.alg);
    if (rc != 0) FAIL("crypto_pwhash(alg=%d, outlen=%zu, ops=%llu, mem=%zu) returned %d for in-range parameters", c.alg, c.outlen, (unsigned long long) c.ops, c.mem, rc);
    Bytes want = ref::pwhash_argon2(c.alg, c.pw, c.salt, c.ops, c.mem, (uint32_t) c.outlen);
    if (want.empty()) return true;
    if (out.get() != want) FAIL("crypto_pwhash(alg=%s, outlen=%zu, t=%llu, m=%zu KiB, pwlen=%zu) differs from RFC 9106: got %s want %s", c.alg == 1 ? "argon2i" : "argon2id", c.outlen, (unsigned long long) c.ops, c.mem / 1024, c.pw.size(), hexshort(out.get()).c_str(), hexshort(want).c_str());
    return true;
}
void explore_raw(Ctx &ctx) {
    init_once();
    auto masks = masks08();
    Rng r = ctx.rng("c08-raw");
    uint64_t idx = 0;
    std::vector<size_t> ms = { 8, 9, 10, 11, 12, 13, 14, 15, 16, 17, 19, 23, 24, 31, 32, 33, 47, 48, 63, 64, 65, 100, 127, 128, 129, 255, 256, 257, 511, 512, 1000, 1024 };
    if (ctx.thorough()) for (size_t m = 8; m <= 300; m++) ms.push_back(m);
    std::vector<size_t> ols = { 16, 17, 31, 32, 33, 63, 64, 65, 66, 127, 128, 129, 200 };
    for (size_t m : ms)
        for (int alg : { 1, 2 })
            for (uint64_t t = (alg == 1 ? 3 : 1); t <= 4; t++) {
                size_t ol = ols[r.below(ols.size())], pwl = r.below(8) == 0 ? 0 : r.below(201), sub = r.below(1024);
                Bytes pw = r.bytes(pwl), salt = r.bytes(16); if (pwl > 4 && r.coin()) pw[pwl / 2] = 0;    // embedded NUL
                if (!ctx.mine(idx++)) continue;
                if (m > 300 && t > 2 && !ctx.thorough()) continue;
                for (size_t mi = 0; mi < masks.size(); mi++) {
                    RawCase c{ alg, pw, salt, ol, t, m * 1024 + (mi % 2 ? sub : 0), masks[mi], (int) ((m + t) % 2) };
                    exec_case(ctx, c, run_raw, mix64(mix64(m, alg * 10 + t), mix64(ol, masks[mi])), m >= 16);
                }
            }
    // every output length 16..130 at one small cost
    for (size_t ol = 16; ol <= 130; ol++) { Bytes pw = r.bytes(r.below(40)), salt = r.bytes(16); if (!ctx.mine(idx++)) continue; RawCase c{ 1 + (int) (ol % 2), pw, salt, ol, 3, 8192 + 1024 * (ol % 5), masks[ol % masks.size()], 0 }; exec_case(ctx, c, run_raw, mix64(ol, 4242), true); }
}

// ------------------------------------------------------------------ raw scrypt
struct ScCase {
    Bytes pw, salt; uint64_t N; uint32_t r, p; size_t outlen; bool ll; uint64_t ops; size_t mem; unsigned long mask;
    KV kv() const { KV k; k.s("kind", "scrypt").b("pw", pw).b("salt", salt).u("N", N).u("r", r).u("p", p).u("outlen", outlen).u("ll", ll).u("ops", ops).u("mem", mem).u("mask", mask); return k; }
};
bool run_scrypt(const ScCase &c, std::string &msg) {
    init_once(); set_mask(c.mask);
    XBuf out(c.outlen, 3, 0xcd), pw(c.pw, 1), salt(c.salt, 2);
    Bytes want; int rc;
    if (c.ll) { rc = crypto_pwhash_scryptsalsa208sha256_ll(pw.p, c.pw.size(), salt.p, c.salt.size(), c.N, c.r, c.p, out.p, c.outlen); want = ref::scrypt(c.pw, c.salt, c.N, c.r, c.p, c.outlen); }
    else { rc = crypto_pwhash_scryptsalsa208sha256(out.p, c.outlen, (const char *) pw.p, c.pw.size(), salt.p, c.ops, c.mem); want = ref::pwhash_scrypt(c.pw, c.salt, c.ops, c.mem, c.outlen); }
    if (rc != 0) FAIL("scrypt (%s) returned %d for in-range parameters (N=%llu r=%u p=%u ops=%llu mem=%zu)", c.ll ? "_ll" : "opslimit/memlimit", rc, (unsigned long long) c.N, c.r, c.p, (unsigned long long) c.ops, c.mem);
    if (want.empty()) return true;
    if (out.get() != want) FAIL("scrypt (%s N=%llu r=%u p=%u ops=%llu mem=%zu outlen=%zu) differs from RFC 7914", c.ll ? "_ll" : "front end", (unsigned long long) c.N, c.r, c.p, (unsigned long long) c.ops, c.mem, c.outlen);
    return true;
}
void explore_scrypt(Ctx &ctx) {
    init_once();
    Rng r = ctx.rng("c08-scrypt");
    uint64_t idx = 0;
    std::vector<unsigned long> masks; for (auto &m : mask_set(false)) if (m.name == "all" || m.name == "none") masks.push_back(m.mask);
    for (int nl = 1; nl <= (ctx.thorough() ? 12 : 10); nl++)
        for (uint32_t rr : { 1u, 2u, 3u, 8u })
            for (uint32_t p = 1; p <= 3; p++) {
                Bytes pw = r.bytes(r.below(60)), salt = r.bytes(r.below(4) == 0 ? 0 : r.below(40)); size_t ol = 1 + r.below(100);
                if (!ctx.mine(idx++)) continue;
                if (((uint64_t) 1 << nl) * rr * p > 16384 && !ctx.thorough()) continue;
                for (unsigned long m : masks) { ScCase c{ pw, salt, (uint64_t) 1 << nl, rr, p, ol, true, 0, 0, m }; exec_case(ctx, c, run_scrypt, mix64(mix64(nl, rr), mix64(p, m)), true); }
            }
    // front end: (opslimit, memlimit) -> (N, r, p)
    for (uint64_t ops : { (uint64_t) 32768, (uint64_t) 32769, (uint64_t) 65536, (uint64_t) 100000, (uint64_t) 262144, (uint64_t) 524288, (uint64_t) 1000000 })
        for (size_t mem : { (size_t) 1 << 14, (size_t) 1 << 15, (size_t) 1 << 16, (size_t) 300000, (size_t) 1 << 20, (size_t) 1 << 22 }) {
            Bytes pw = r.bytes(r.below(60)), salt = r.bytes(32); size_t ol = 16 + r.below(100);
            if (!ctx.mine(idx++)) continue;
            uint32_t nl, rr, p; ref::scrypt_pickparams(ops, mem, nl, rr, p);
            if (((uint64_t) 1 << nl) * rr * p > 65536) continue;
            for (unsigned long m : masks) { ScCase c{ pw, salt, 0, 0, 0, ol, false, ops, mem, m }; exec_case(ctx, c, run_scrypt, mix64(mix64(ops, mem), m), true); }
        }
}

// ------------------------------------------------------------------ scrypt with 4 GiB of output, or 4 GiB between its two PBKDF2 passes
// Output lengths up to (2^32-1)*32 bytes and r*p < 2^30 are inside the documented limits.  (thorough tier, non-sanitizer build, first round)
//  kind 0: N=2, r=1, p=1, a giant output: sampled 32-byte blocks T_i = HMAC-SHA-256(P, B || INT(i)) from the reference model
//          (B: 128 bytes through the reference PBKDF2 and ROMix), the partial last block, nothing written beyond the requested length;
//  kind 1: N=2, r=1, giant p (B is p*128 bytes = 4 GiB): the whole derivation recomputed by composition - the library's streaming
//          HMAC-SHA-256 (its correctness is C01/C04's claim) and the reference BlockMix; the composition itself is validated against
//          the full reference model at p = 3 in the same run.
struct GScCase { int kind; size_t outlen; uint32_t p; unsigned long mask;
    KV kv() const { KV k; k.s("kind", "giant_scrypt").u("gkind", kind).u("outlen", outlen).u("p", p).u("mask", mask); return k; } };
uint64_t g_giant_skipped = 0;
void composed_scrypt_n2r1(const Bytes &pw, const Bytes &salt, uint32_t p, uint8_t *B, uint8_t *out, size_t outlen) {
    crypto_auth_hmacsha256_state ps, h; uint8_t ib[4], T[32];
    crypto_auth_hmacsha256_init(&ps, pw.data(), pw.size()); crypto_auth_hmacsha256_update(&ps, salt.data(), salt.size());
    size_t blen = (size_t) p * 128;
    for (size_t i = 0; i * 32 < blen; i++) { h = ps; ref::st32be(ib, (uint32_t) (i + 1)); crypto_auth_hmacsha256_update(&h, ib, 4); crypto_auth_hmacsha256_final(&h, T); memcpy(B + i * 32, T, std::min<size_t>(32, blen - i * 32)); }
    for (size_t j = 0; j < p; j++) {
        uint32_t X[32], Y[32], V[2][32]; uint8_t *b = B + 128 * j;
        for (int k = 0; k < 32; k++) X[k] = (uint32_t) b[4 * k] | ((uint32_t) b[4 * k + 1] << 8) | ((uint32_t) b[4 * k + 2] << 16) | ((uint32_t) b[4 * k + 3] << 24);
        for (int i = 0; i < 2; i++) { memcpy(V[i], X, sizeof X); ref::scrypt_blockmix_words(X, Y, 1); memcpy(X, Y, sizeof X); }
        for (int i = 0; i < 2; i++) { uint32_t jj = X[16] & 1; for (int k = 0; k < 32; k++) X[k] ^= V[jj][k]; ref::scrypt_blockmix_words(X, Y, 1); memcpy(X, Y, sizeof X); }
        for (int k = 0; k < 32; k++) { b[4 * k] = (uint8_t) X[k]; b[4 * k + 1] = (uint8_t) (X[k] >> 8); b[4 * k + 2] = (uint8_t) (X[k] >> 16); b[4 * k + 3] = (uint8_t) (X[k] >> 24); }
    }
    crypto_auth_hmacsha256_init(&ps, pw.data(), pw.size()); crypto_auth_hmacsha256_update(&ps, B, blen);
    for (size_t i = 0; i * 32 < outlen; i++) { h = ps; ref::st32be(ib, (uint32_t) (i + 1)); crypto_auth_hmacsha256_update(&h, ib, 4); crypto_auth_hmacsha256_final(&h, T); memcpy(out + i * 32, T, std::min<size_t>(32, outlen - i * 32)); }
}
bool run_giant_scrypt(const GScCase &c, std::string &msg) {
    init_once(); set_mask(c.mask);
    Bytes pw = { 'p', 'l', 'e', 'a', 's', 'e', 'l', 'e', 't', 'm', 'e', 'i', 'n' }, salt = { 'S', 'o', 'd', 'i', 'u', 'm', 'C', 'h', 'l', 'o', 'r', 'i', 'd', 'e', 0, 1 };
    if (c.kind == 0) {
        if (!giant::have_memory(c.outlen)) { g_giant_skipped++; return true; }
        giant::Map out(c.outlen + 64); if (!out.ok()) { g_giant_skipped++; return true; }
        memset(out.p + c.outlen, 0x5c, 64);
        int rc = crypto_pwhash_scryptsalsa208sha256_ll(pw.data(), pw.size(), salt.data(), salt.size(), 2, 1, 1, out.p, c.outlen);
        if (rc != 0) FAIL("scrypt_ll (N=2 r=1 p=1) returned %d for an output of %zu bytes (limit: (2^32-1)*32)", rc, c.outlen);
        Bytes B = ref::scrypt_romix(ref::pbkdf2_sha256(pw, salt, 1, 128), 2, 1);
        size_t nblk = (c.outlen + 31) / 32;
        for (size_t i : { (size_t) 1, (size_t) 2, (size_t) 3, (size_t) 1 << 16, ((size_t) 1 << 26) + 1, ((size_t) 1 << 27) - 1, (size_t) 1 << 27, ((size_t) 1 << 27) + 1, nblk - 1, nblk }) {
            if (i < 1 || i > nblk) continue;
            Bytes in = B; uint8_t ib[4]; ref::st32be(ib, (uint32_t) i); in.insert(in.end(), ib, ib + 4);
            Bytes T = ref::hmac(ref::H_SHA256, pw, in);
            size_t off = (i - 1) * 32, n = std::min<size_t>(32, c.outlen - off);
            if (memcmp(out.p + off, T.data(), n) != 0) FAIL("scrypt_ll (N=2 r=1 p=1, %zu bytes of output): block %zu (offset %zu, %zu bytes) differs from RFC 7914 / PBKDF2-HMAC-SHA-256", c.outlen, i, off, n);
        }
        for (int k = 0; k < 64; k++) if (out.p[c.outlen + k] != 0x5c) FAIL("scrypt_ll wrote beyond the requested %zu bytes of output (offset +%d)", c.outlen, k);
        return true;
    }
    size_t blen = (size_t) c.p * 128;
    if (blen >= ((size_t) 1 << 30) && !giant::have_memory(2 * blen)) { g_giant_skipped++; return true; }
    giant::Map B(blen); if (!B.ok()) { g_giant_skipped++; return true; }
    Bytes want(c.outlen), got(c.outlen, 0xcd);
    composed_scrypt_n2r1(pw, salt, c.p, B.p, want.data(), c.outlen);
    if (c.p <= 64) { Bytes full = ref::scrypt(pw, salt, 2, 1, c.p, c.outlen); if (full != want) FAIL("harness self-check: the composed scrypt model differs from the reference model at p=%u", c.p); }
    int rc = crypto_pwhash_scryptsalsa208sha256_ll(pw.data(), pw.size(), salt.data(), salt.size(), 2, 1, c.p, got.data(), c.outlen);
    if (rc != 0) FAIL("scrypt_ll (N=2 r=1 p=%u) returned %d (r*p < 2^30 is within the limits)", c.p, rc);
    if (got != want) FAIL("scrypt_ll (N=2 r=1 p=%u: %zu bytes between the two PBKDF2 passes) differs from RFC 7914", c.p, blen);
    return true;
}
void explore_giant_scrypt(Ctx &ctx) {
    init_once();
    unsigned long all = 0, none = 0; for (auto &m : mask_set(false)) { if (m.name == "all") all = m.mask; if (m.name == "none") none = m.mask; }
    uint64_t idx = 0;
    // the composition model against the full reference (cheap, every tier and build)
    for (uint32_t p : { 1u, 3u, 33u }) for (unsigned long m : { all, none }) { if (!ctx.mine(idx++)) continue; GScCase c{ 1, 40 + p, p, m }; exec_case(ctx, c, run_giant_scrypt, mix64(p, m), false); }
    if (!ctx.thorough() || !giant::fast_build() || !giant::first_round()) { ctx.notes["giant_scrypt"] = "4 GiB cases: thorough tier, non-sanitizer build, first round only"; return; }
    std::vector<GScCase> cs = {
        { 0, ((size_t) 1 << 32) - 31, 1, all }, { 0, ((size_t) 1 << 32) + 40, 1, none }, { 0, ((size_t) 1 << 32), 1, all },
        { 1, 64, (uint32_t) 1 << 25, all }, { 1, 70, ((uint32_t) 1 << 25) + 1, none },
    };
    for (auto &c : cs) { uint64_t i = idx++; if (ctx.worker != (int) (i % (uint64_t) std::min(ctx.nworkers, 3))) continue; exec_case(ctx, c, run_giant_scrypt, mix64(mix64(c.kind, c.outlen), mix64(c.p, c.mask)), true); }
    ctx.notes["giant_scrypt_skipped_no_memory"] = std::to_string(g_giant_skipped);
}

// ------------------------------------------------------------------ limits
struct LimCase {
    int which; uint64_t ops; uint64_t mem; uint64_t outlen; int alg;
    KV kv() const { KV k; k.s("kind", "limit").u("which", which).u("ops", ops).u("mem", mem).u("outlen", outlen).u("alg", alg); return k; }
};
bool run_limit(const LimCase &c, std::string &msg) {   // which 0: crypto_pwhash, 1: str, 2: scrypt raw
    init_once(); set_mask(F_ALL);
    Bytes pw = { 'p', 'w' }, salt(32, 7);
    size_t cap = c.outlen > 256 ? 16 : (size_t) c.outlen;     // absurd outlen values: the call must fail before writing (the buffer is then smaller on purpose)
    bool absurd = c.outlen > 256;
    if (c.which == 0) {
        bool valid = c.outlen >= 16 && c.outlen <= 256 && c.ops >= (c.alg == 1 ? 3u : 1u) && c.ops <= 4 && c.mem >= 8192 && c.mem <= (1u << 20) && (c.alg == 1 || c.alg == 2);
        if (absurd) return true;    // libsodium zero-fills out[0..outlen) before range-checking, so an undersized buffer would be the harness's fault
        XBuf out(cap, 3, 0xcd);
        errno = 0;
        int rc = crypto_pwhash(out.p, c.outlen, (const char *) pw.data(), pw.size(), salt.data(), c.ops, (size_t) c.mem, c.alg);
        if (valid != (rc == 0)) FAIL("crypto_pwhash(outlen=%llu, ops=%llu, mem=%llu, alg=%d) returned %d, expected %s", (unsigned long long) c.outlen, (unsigned long long) c.ops, (unsigned long long) c.mem, c.alg, rc, valid ? "0" : "-1");
        if (!valid && errno != EINVAL && errno != EFBIG) FAIL("crypto_pwhash rejected out-of-range parameters with errno %d (expected EINVAL or EFBIG)", errno);
        return true;
    }
    if (c.which == 1) {
        bool valid = c.ops >= (c.alg == 1 ? 3u : 1u) && c.ops <= 4 && c.mem >= 8192 && c.mem <= (1u << 20);
        XBuf out(crypto_pwhash_STRBYTES, 3, 0xcd);
        int rc = c.alg == 1 ? crypto_pwhash_argon2i_str((char *) out.p, (const char *) pw.data(), pw.size(), c.ops, (size_t) c.mem) : crypto_pwhash_str((char *) out.p, (const char *) pw.data(), pw.size(), c.ops, (size_t) c.mem);
        if (valid != (rc == 0)) FAIL("crypto_pwhash_str(ops=%llu, mem=%llu, alg=%d) returned %d, expected %s", (unsigned long long) c.ops, (unsigned long long) c.mem, c.alg, rc, valid ? "0" : "-1");
        if (!valid && out.p[0] != 0 && memchr(out.p, '$', crypto_pwhash_STRBYTES)) FAIL("crypto_pwhash_str failed but left a hash string in the output");
        return true;
    }
    {
        // scrypt front end: only the output length is range-checked (opslimit is clamped to its minimum and small memlimits are processed;
        // the pinned tests rely on that), so only outlen < BYTES_MIN must fail
        if (absurd) return true;
        XBuf out(cap, 3, 0xcd);
        int rc = crypto_pwhash_scryptsalsa208sha256(out.p, c.outlen, (const char *) pw.data(), pw.size(), salt.data(), c.ops, (size_t) c.mem);
        if (c.outlen < 16 && rc == 0) FAIL("crypto_pwhash_scryptsalsa208sha256(outlen=%llu) succeeded with an output length below BYTES_MIN", (unsigned long long) c.outlen);
        if (c.outlen >= 16 && rc != 0) FAIL("crypto_pwhash_scryptsalsa208sha256(outlen=%llu, ops=%llu, mem=%llu) failed", (unsigned long long) c.outlen, (unsigned long long) c.ops, (unsigned long long) c.mem);
        return true;
    }
}
void explore_limits(Ctx &ctx) {
    init_once();
    uint64_t idx = 0;
    for (int alg : { 0, 1, 2, 3 })
        for (uint64_t ops : { (uint64_t) 0, (uint64_t) 1, (uint64_t) 2, (uint64_t) 3, (uint64_t) 4, (uint64_t) 4294967295ULL, (uint64_t) 4294967296ULL })
            for (uint64_t mem : { (uint64_t) 0, (uint64_t) 1024, (uint64_t) 8191, (uint64_t) 8192, (uint64_t) 8193, (uint64_t) 16384, (uint64_t) 4398046510080ULL, (uint64_t) 4398046510081ULL })
                for (uint64_t ol : { (uint64_t) 0, (uint64_t) 15, (uint64_t) 16, (uint64_t) 17, (uint64_t) 64 }) {
                    if (!ctx.mine(idx++)) continue;
                    if (ops > 4 && mem >= 8192 && mem <= 16384 && ops <= 4294967295ULL) continue;     // would be a valid, very slow hash
                    if (mem > 16384 && mem <= 4398046510080ULL && ops >= 1 && ops <= 4294967295ULL) continue;   // valid but huge memory
                    LimCase c{ 0, ops, mem, ol, alg }; exec_case(ctx, c, run_limit, mix64(mix64(alg, ops), mix64(mem, ol)), true);
                    if (alg == 1 || alg == 2) { LimCase s{ 1, ops, mem, 0, alg }; exec_case(ctx, s, run_limit, mix64(mix64(alg + 10, ops), mem), true); }
                }
    for (uint64_t ops : { (uint64_t) 0, (uint64_t) 32768 }) for (uint64_t mem : { (uint64_t) 65536, (uint64_t) 1048576 }) for (uint64_t ol : { (uint64_t) 0, (uint64_t) 1, (uint64_t) 15, (uint64_t) 16, (uint64_t) 32 }) {
        if (!ctx.mine(idx++)) continue;
        LimCase c{ 2, ops, mem, ol, 0 }; exec_case(ctx, c, run_limit, mix64(mix64(77, ops), mix64(mem, ol)), true);
    }
}

// ------------------------------------------------------------------ strings produced by the library
struct StrCase {
    int alg; Bytes pw, salt; uint64_t ops; size_t mem; unsigned long mask;   // alg 1 argon2i, 2 argon2id, 3 scrypt
    KV kv() const { KV k; k.s("kind", "str").u("alg", alg).b("pw", pw).b("salt", salt).u("ops", ops).u("mem", mem).u("mask", mask); return k; }
};
bool run_str(const StrCase &c, std::string &msg) {
    init_once(); set_mask(c.mask);
    g_script = c.salt; g_pos = 0;
    XBuf out(c.alg == 3 ? crypto_pwhash_scryptsalsa208sha256_STRBYTES : crypto_pwhash_STRBYTES, 3, 0xcd), pw(c.pw, 1);
    int rc; std::string want;
    int form = (int) (c.pw.size() % 3);
    if (c.alg == 3) { rc = crypto_pwhash_scryptsalsa208sha256_str((char *) out.p, (const char *) pw.p, c.pw.size(), c.ops, c.mem); want = ref::pwhash_scrypt_str(c.pw, c.salt, c.ops, c.mem); }
    else {
        if (form == 0) rc = crypto_pwhash_str_alg((char *) out.p, (const char *) pw.p, c.pw.size(), c.ops, c.mem, c.alg);
        else if (c.alg == 1) rc = crypto_pwhash_argon2i_str((char *) out.p, (const char *) pw.p, c.pw.size(), c.ops, c.mem);
        else rc = form == 1 ? crypto_pwhash_str((char *) out.p, (const char *) pw.p, c.pw.size(), c.ops, c.mem) : crypto_pwhash_argon2id_str((char *) out.p, (const char *) pw.p, c.pw.size(), c.ops, c.mem);
        want = ref::pwhash_argon2_str(c.alg, c.pw, c.salt, c.ops, c.mem);
    }
    g_script.clear();
    if (rc != 0) FAIL("hash-string creation failed (alg %d, ops %llu, mem %zu)", c.alg, (unsigned long long) c.ops, c.mem);
    size_t n = strnlen((char *) out.p, out.n);
    if (n >= out.n) FAIL("hash string is not NUL-terminated within STRBYTES");
    std::string got((char *) out.p, n);
    if (got != want) FAIL("hash string differs from the standard encoding of (alg, params, served salt, model hash): got '%s' want '%s'", got.c_str(), want.c_str());
    for (size_t i = n; i < out.n; i++) if (out.p[i] != 0) FAIL("bytes after the hash string terminator are not zero");
    // verify with the same / another password; needs_rehash with equal / different parameters
    Bytes other = c.pw; if (other.empty()) other.push_back('x'); else other[other.size() / 2] ^= 1;
    XBuf o2(other, 2);
    if (c.alg == 3) {
        if (crypto_pwhash_scryptsalsa208sha256_str_verify((char *) out.p, (const char *) pw.p, c.pw.size()) != 0) FAIL("scrypt string does not verify with its own password");
        if (crypto_pwhash_scryptsalsa208sha256_str_verify((char *) out.p, (const char *) o2.p, other.size()) == 0) FAIL("scrypt string verifies with a different password");
        if (crypto_pwhash_scryptsalsa208sha256_str_needs_rehash((char *) out.p, c.ops, c.mem) != 0) FAIL("scrypt needs_rehash != 0 for the parameters the string was created with");
        uint32_t a1, a2, a3, b1, b2, b3; ref::scrypt_pickparams(c.ops, c.mem, a1, a2, a3); ref::scrypt_pickparams(c.ops * 2, c.mem * 2, b1, b2, b3);
        int nr = crypto_pwhash_scryptsalsa208sha256_str_needs_rehash((char *) out.p, c.ops * 2, c.mem * 2), wantnr = (a1 != b1 || a2 != b2 || a3 != b3) ? 1 : 0;
        if (nr != wantnr) FAIL("scrypt needs_rehash(ops*2, mem*2) returned %d, expected %d", nr, wantnr);
        return true;
    }
    auto V = [&](const uint8_t *p, size_t l) { return form == 0 ? crypto_pwhash_str_verify((char *) out.p, (const char *) p, l) : c.alg == 1 ? crypto_pwhash_argon2i_str_verify((char *) out.p, (const char *) p, l) : crypto_pwhash_argon2id_str_verify((char *) out.p, (const char *) p, l); };
    if (V(pw.p, c.pw.size()) != 0) FAIL("hash string does not verify with its own password");
    if (V(o2.p, other.size()) == 0) FAIL("hash string verifies with a different password");
    // the verifier of the other algorithm must refuse it
    if ((c.alg == 1 ? crypto_pwhash_argon2id_str_verify((char *) out.p, (const char *) pw.p, c.pw.size()) : crypto_pwhash_argon2i_str_verify((char *) out.p, (const char *) pw.p, c.pw.size())) == 0) FAIL("hash string accepted by the verifier of the other Argon2 variant");
    auto NR = [&](uint64_t ops, size_t mem) { return form == 0 ? crypto_pwhash_str_needs_rehash((char *) out.p, ops, mem) : c.alg == 1 ? crypto_pwhash_argon2i_str_needs_rehash((char *) out.p, ops, mem) : crypto_pwhash_argon2id_str_needs_rehash((char *) out.p, ops, mem); };
    if (NR(c.ops, c.mem) != 0) FAIL("needs_rehash != 0 for equal parameters");
    if (NR(c.ops, c.mem / 1024 * 1024 + 1023) != 0) FAIL("needs_rehash != 0 although memlimit/1024 is unchanged");
    if (NR(c.ops + 1, c.mem) != 1) FAIL("needs_rehash != 1 for a different opslimit");
    if (NR(c.ops, c.mem + 1024) != 1) FAIL("needs_rehash != 1 for a different memlimit");
    if (c.mem >= 9216 && NR(c.ops, c.mem - 1024) != 1) FAIL("needs_rehash != 1 for a smaller memlimit");
    // limits up to the documented maxima are valid queries (the answer is "different": 1); beyond them -1
    if (NR(c.ops, (size_t) crypto_pwhash_memlimit_max()) != 1) FAIL("needs_rehash(memlimit = crypto_pwhash_MEMLIMIT_MAX) != 1");
    if (NR(c.ops, (size_t) 0x100000000ULL) != 1 || NR(c.ops, (size_t) 0x200000000ULL + 5) != 1) FAIL("needs_rehash(memlimit = 4 GiB / 8 GiB) != 1");
    if (NR(0xffffffffULL, c.mem) != 1) FAIL("needs_rehash(opslimit = 2^32-1) != 1");
    if (NR(c.ops, (size_t) 0x100000000ULL * 1024) != -1) FAIL("needs_rehash(memlimit = 2^42, above the maximum) != -1");
    if (NR(0x100000000ULL, c.mem) != -1) FAIL("needs_rehash(opslimit = 2^32, above the maximum) != -1");
    return true;
}
void explore_str(Ctx &ctx) {
    init_once();
    auto masks = masks08();
    Rng r = ctx.rng("c08-str");
    uint64_t idx = 0;
    size_t n = ctx.thorough() ? 1500 : 400;
    for (size_t i = 0; i < n; i++) {
        int alg = 1 + (int) (i % 3);
        Bytes pw = r.bytes(i % 17 == 0 ? 0 : r.below(80)); if (pw.size() > 3 && r.below(4) == 0) pw[1] = 0;
        StrCase c{ alg, pw, r.bytes_class(alg == 3 ? 32 : 16, r.below(10) == 0 ? (int) r.below(5) : 0), alg == 3 ? (uint64_t) 32768 << r.below(3) : (alg == 1 ? 3 + r.below(2) : 1 + r.below(3)),
                   alg == 3 ? (size_t) 16777216 : (size_t) (8192 + 1024 * r.below(120) + r.below(1024)), masks[i % masks.size()] };
        // small memory limit with a larger operations limit: p takes values whose $7$ digits cover the top of the alphabet (63 = 'z', 64, 127, ...)
        if (alg == 3 && i % 2 == 0) { static const uint32_t PS[] = { 63, 64, 127, 128, 255, 62, 65 }; c.mem = 32768; c.ops = (uint64_t) 1024 * PS[(i / 2) % 7] + r.below(1024); }
        if (alg == 3) { uint32_t nl, rr, p; ref::scrypt_pickparams(c.ops, c.mem, nl, rr, p); if (((uint64_t) 1 << nl) * rr * p > 65536) { c.ops = 32768; c.mem = 16777216; } if ((i / 3) % 2 != 0 && !ctx.thorough()) continue; }   // (alg == 3 <=> i % 3 == 2: a filter on i % 9 == 0 would never let a scrypt case through)
        if (!ctx.mine(idx++)) continue;
        exec_case(ctx, c, run_str, mix64(mix64(alg, c.ops), mix64(c.mem, hash_bytes(c.salt.data(), c.salt.size()))), true);
    }
}

// ------------------------------------------------------------------ foreign and mutated strings
struct MutCase {
    std::string s; Bytes pw; uint64_t ops; size_t mem; std::string how;
    KV kv() const { KV k; k.s("kind", "mut").b("s", (const uint8_t *) s.data(), s.size()).b("pw", pw).u("ops", ops).u("mem", mem).s("how", how); return k; }
};
bool run_mut(const MutCase &c, std::string &msg) {
    init_once(); set_mask(F_ALL);
    if (c.s.find('\0') != std::string::npos) return true;
    bool costly = too_expensive(c.s);          // verification would hash with these parameters: skipped; needs_rehash only parses and is always checked
    Bytes sz(c.s.begin(), c.s.end()); sz.push_back(0);
    XBuf sb(sz, 3), pw(c.pw, 1);
    bool is_scrypt = c.s.compare(0, 3, "$7$") == 0;
    if (is_scrypt) {
        if (!costly) {
            int v = crypto_pwhash_scryptsalsa208sha256_str_verify((const char *) sb.p, (const char *) pw.p, c.pw.size());
            bool mv = ref::scrypt_verify_string(c.s, c.pw, false);
            if ((v == 0) != mv) FAIL("scrypt str_verify returned %d, model verdict %s for '%s' (%s)", v, mv ? "match" : "no match", c.s.c_str(), c.how.c_str());
        }
        int nr = crypto_pwhash_scryptsalsa208sha256_str_needs_rehash((const char *) sb.p, c.ops, c.mem);
        // structural malformation of the parameter part / length => -1; otherwise compare the derived (N, r, p)
        bool structural_ok = c.s.size() == 101 && ref::scrypt_b64_value(c.s[3]) >= 0;
        for (size_t i = 4; i < 14 && structural_ok; i++) if (ref::scrypt_b64_value(c.s[i]) < 0) structural_ok = false;
        if (!structural_ok) { if (nr != -1) FAIL("scrypt needs_rehash returned %d for a malformed string '%s' (%s)", nr, c.s.c_str(), c.how.c_str()); return true; }
        ref::ScryptStr ps = ref::scrypt_parse_string(c.s, false);
        if (ps.ok) { uint32_t nl, rr, p; ref::scrypt_pickparams(c.ops, c.mem, nl, rr, p); int want = (nl != ps.N_log2 || rr != ps.r || p != ps.p) ? 1 : 0; if (nr != want) FAIL("scrypt needs_rehash returned %d, expected %d", nr, want); }
        return true;
    }
    ref::Argon2Str ps = ref::argon2_parse_string(c.s);
    if (!costly) {
    int v = crypto_pwhash_str_verify((const char *) sb.p, (const char *) pw.p, c.pw.size());
    bool mv = ref::argon2_verify_string(c.s, c.pw);
    if ((v == 0) != mv) FAIL("crypto_pwhash_str_verify returned %d, model verdict %s for '%s' (%s)", v, mv ? "match" : "no match", c.s.c_str(), c.how.c_str());
    // specific verifiers insist on their own variant
    if (c.s.compare(0, 10, "$argon2id$") == 0 || c.s.compare(0, 9, "$argon2i$") == 0) {
        int vi = crypto_pwhash_argon2i_str_verify((const char *) sb.p, (const char *) pw.p, c.pw.size()), vid = crypto_pwhash_argon2id_str_verify((const char *) sb.p, (const char *) pw.p, c.pw.size());
        if ((vi == 0) != (mv && ps.type == 1) || (vid == 0) != (mv && ps.type == 2)) FAIL("variant-specific str_verify disagrees with the model for '%s' (%s)", c.s.c_str(), c.how.c_str());
    }
    }
    int nr = crypto_pwhash_str_needs_rehash((const char *) sb.p, c.ops, c.mem);
    // limits are given in bytes; memlimit / 1024 and opslimit must fit 32 bits (crypto_pwhash_MEMLIMIT_MAX = (2^32 - 1) KiB), else EINVAL
    bool limits_ok = c.ops <= 0xffffffffULL && (uint64_t) c.mem / 1024 <= 0xffffffffULL;
    int want = (!limits_ok || !ps.ok || !ps.params_ok || c.s.size() >= crypto_pwhash_STRBYTES) ? -1 : ((ps.t != c.ops || ps.m != c.mem / 1024) ? 1 : 0);
    if (nr != want) FAIL("crypto_pwhash_str_needs_rehash returned %d, expected %d for '%s' (%s)", nr, want, c.s.c_str(), c.how.c_str());
    return true;
}

std::string mutate(const std::string &base, int kind, uint64_t sel, std::string &how) {
    std::string s = base; size_t n = s.size(); size_t pos = n ? sel % n : 0;
    static const char SUBS[] = "$,=+/.0123456789Aazm tpv-_ \x7f\x80\xff!";
    char ch = SUBS[(sel >> 16) % (sizeof SUBS - 1)];
    switch (kind) {
    case 0: how = "none"; break;
    case 1: how = "substitute@" + std::to_string(pos); if (n) s[pos] = ch; break;
    case 2: how = "insert@" + std::to_string(pos); s.insert(pos, 1, ch); break;
    case 3: how = "delete@" + std::to_string(pos); if (n) s.erase(pos, 1); break;
    case 4: how = "truncate@" + std::to_string(pos); s.resize(pos); break;
    case 5: how = "append"; s += ch; break;
    case 6: { how = "leading-zero"; size_t p = s.find((sel & 1) ? "t=" : "m="); if (p != std::string::npos) s.insert(p + 2, "0"); break; }
    case 7: { how = "pad-b64"; s += "="; break; }
    case 8: { how = "drop-field"; size_t p = s.rfind('$'); if (p != std::string::npos) s.resize(p); break; }
    case 9: { how = "version"; size_t p = s.find("v=19"); if (p != std::string::npos) s.replace(p, 4, (sel & 1) ? "v=16" : "v=20"); break; }
    case 10: { how = "swap-prefix"; if (s.compare(0, 10, "$argon2id$") == 0) s.replace(0, 10, "$argon2i$"); else if (s.compare(0, 9, "$argon2i$") == 0) s.replace(0, 9, "$argon2id$"); else if (s.compare(0, 3, "$7$") == 0) s.replace(0, 3, "$8$"); break; }
    case 11: { how = "reorder-params"; size_t p = s.find("m="), q = s.find(",t="); if (p != std::string::npos && q != std::string::npos) { size_t e = s.find(',', q + 1); if (e != std::string::npos) { std::string mpart = s.substr(p, q - p), tpart = s.substr(q + 1, e - q - 1); s.replace(p, e - p, tpart + "," + mpart); } } break; }
    case 12: { how = "trailing-bits"; if (n) { char c2 = s[n - 1]; s[n - 1] = (c2 == 'A') ? 'B' : (char) (c2 + 1); } break; }
    case 13: { how = "uppercase-prefix"; if (n > 3) s[1] = (char) toupper(s[1]); break; }
    case 14: { how = "plus-sign"; size_t p = s.find("t="); if (p != std::string::npos) s.insert(p + 2, "+"); break; }
    default: {   // a decimal that only differs from the real value by a multiple of 2^32 / 2^64 (must be rejected, not truncated)
        static const char *KEYS[] = { "t=", "m=", "p=", "v=" }; const char *key = KEYS[sel % 4]; how = std::string("alias-2^32:") + key;
        size_t p = s.find(key); if (p == std::string::npos) break; p += 2; size_t e = p; while (e < s.size() && s[e] >= '0' && s[e] <= '9') e++;
        if (e == p) break;
        unsigned __int128 v = 0; for (size_t i = p; i < e; i++) v = v * 10 + (unsigned) (s[i] - '0');
        unsigned __int128 add = ((sel >> 8) % 3 == 0) ? ((unsigned __int128) 1 << 64) : ((unsigned __int128) (1 + (sel >> 10) % 5) << 32);
        v += add; std::string d; while (v) { d.insert(d.begin(), (char) ('0' + (int) (v % 10))); v /= 10; }
        s.replace(p, e - p, d); break; }
    }
    return s;
}

void explore_mut(Ctx &ctx) {
    init_once();
    int cases = ctx.thorough() ? 200000 : 40000;
    rc_explore<MutCase>(ctx, "c08-mut", cases, 100, [&]() {
        MutCase c;
        int src = *rc::gen::weightedElement<int>({ { 4, 0 }, { 3, 1 }, { 2, 2 } });    // 0 argon2 (foreign params), 1 argon2 standard shape, 2 scrypt
        uint64_t seed = *rc::gen::arbitrary<uint64_t>(); Rng r(seed);
        c.pw = r.bytes(r.below(24));
        std::string base;
        if (src == 2 && *rc::gen::inRange(0, 3) == 0) {
            // parameter digits over the whole $7$ alphabet (every digit value 0..63 in every position): too costly to verify, but
            // needs_rehash only decodes.  Half of the time the string carries exactly the parameters the queried limits select.
            c.ops = (uint64_t) 32768 << *rc::gen::inRange(0, 18); c.ops += (uint64_t) *rc::gen::inRange(0, 4) * (c.ops / 4);
            c.mem = (size_t) 16384 << *rc::gen::inRange(0, 17);
            uint32_t nl, rr, p; ref::scrypt_pickparams(c.ops, c.mem, nl, rr, p);
            if (*rc::gen::inRange(0, 2)) {
                uint32_t d = (uint32_t) *rc::gen::inRange(0, 64), k = (uint32_t) *rc::gen::inRange(0, 5);
                switch (*rc::gen::inRange(0, 3)) { case 0: nl = d; break; case 1: rr = (rr & ~(63u << (6 * k))) | (d << (6 * k)); break; default: p = (p & ~(63u << (6 * k))) | (d << (6 * k)); break; }
            }
            base = ref::scrypt_encode_string_raw(nl, rr, p, r.bytes(32), r.bytes(32));
        } else if (src == 2) {
            uint32_t nl = 1 + (uint32_t) *rc::gen::inRange(0, 6), rr = (uint32_t) *rc::gen::element(1, 2, 8), p = (uint32_t) *rc::gen::inRange(1, 3);
            base = ref::scrypt_encode_string(nl, rr, p, r.bytes(32), c.pw);
            c.ops = 32768; c.mem = 16777216;
        } else if (*rc::gen::inRange(0, 8) == 0) {
            // Argon2 strings with large m / t (decoded, never hashed) queried with limits up to and beyond crypto_pwhash_MEMLIMIT_MAX
            int type = *rc::gen::element(1, 2);
            uint64_t m = *rc::gen::element<uint64_t>(8, 2048, 4194303, 4194304, 8388608, 0x7fffffffULL, 0xfffffffeULL, 0xffffffffULL), t = *rc::gen::element<uint64_t>(1, 3, 7, 0x7fffffffULL, 0xffffffffULL);
            Bytes salt = r.bytes(16), tag = r.bytes(32);
            base = ref::argon2_encode_string(type, (uint32_t) m, (uint32_t) t, 1, salt, tag);
            c.ops = *rc::gen::elementOf(std::vector<uint64_t>{ t, t, t + 1, 0xffffffffULL, 0x100000000ULL });
            c.mem = (size_t) *rc::gen::elementOf(std::vector<uint64_t>{ m * 1024, m * 1024 + 1023, (m + 1) * 1024, 0xffffffffULL * 1024, 0xffffffffULL * 1024 + 1023, 0x100000000ULL * 1024, 0x100000000ULL * 1024 * 4 });
        } else {
            int type = *rc::gen::element(1, 2);
            uint32_t p = src == 0 ? (uint32_t) *rc::gen::inRange(1, 5) : 1;
            uint32_t m = (uint32_t) *rc::gen::weightedOneOf<int>({ { 3, rc::gen::element(8, 9, 16, 32, 64) }, { 1, rc::gen::inRange(8, 200) } }); if (m < 8 * p) m = 8 * p;
            uint32_t t = (uint32_t) *rc::gen::inRange(1, 4);
            size_t sl = src == 0 ? *rc::gen::element<size_t>(8, 9, 15, 16, 17, 24) : 16, hl = src == 0 ? *rc::gen::element<size_t>(16, 17, 31, 32, 33, 48) : 32;
            Bytes salt = r.bytes(sl);
            Bytes tag = ref::argon2(type, c.pw, salt, t, m, p, (uint32_t) hl);
            if (*rc::gen::inRange(0, 6) == 0 && !tag.empty()) tag[0] ^= 1;          // well-formed string, wrong hash
            // too little memory for the number of lanes (RFC 9106: m >= 8p): well-formed syntax, parameters that must be refused
            // (the hash field is what a lenient implementation that rounds the memory up would compute, so that accepting is visible)
            if (p >= 2 && *rc::gen::inRange(0, 5) == 0) { m = (uint32_t) *rc::gen::inRange((int) std::max(8u, 2 * p), (int) (8 * p)); tag = ref::argon2(type, c.pw, salt, t, 8 * p, p, (uint32_t) hl); if (tag.empty()) tag = r.bytes(hl); }
            base = ref::argon2_encode_string(type, m, t, p, salt, tag);
            c.ops = *rc::gen::inRange(0, 3) ? t : t + 1; c.mem = (size_t) (*rc::gen::inRange(0, 3) ? m : m + 1) * 1024 + (size_t) *rc::gen::inRange(0, 1024);
        }
        int kind = *rc::gen::weightedElement<int>({ { 4, 0 }, { 6, 1 }, { 3, 2 }, { 3, 3 }, { 3, 4 }, { 1, 5 }, { 2, 6 }, { 1, 7 }, { 1, 8 }, { 1, 9 }, { 1, 10 }, { 1, 11 }, { 1, 12 }, { 1, 13 }, { 1, 14 }, { 3, 15 } });
        c.s = mutate(base, kind, *rc::gen::arbitrary<uint64_t>(), c.how);
        if (*rc::gen::inRange(0, 8) == 0) { c.pw = r.bytes(1 + r.below(10)); c.how += "+other-password"; }
        ctx.cls(std::string("src") + std::to_string(src)); ctx.cls("mut:" + c.how.substr(0, c.how.find('@')));
        if (too_expensive(c.s)) ctx.cls("skipped-by-cost-guard");
        return c;
    }, run_mut, [](const MutCase &c) { return mix64(hash_str(c.s), hash_bytes(c.pw.data(), c.pw.size())); }, [](const MutCase &) { return true; });
}
// deterministic: one standard string of each kind, every position truncated / every position substituted with a few characters
void explore_mut_sweep(Ctx &ctx) {
    init_once();
    Rng r = ctx.rng("c08-sweep");
    uint64_t idx = 0;
    Bytes pw = { 'h', 'u', 'n', 't', 'e', 'r', '2' };
    std::vector<std::string> bases;
    for (int type : { 1, 2 }) { Bytes salt = r.bytes(16); bases.push_back(ref::argon2_encode_string(type, 8, type == 1 ? 3 : 1, 1, salt, ref::argon2(type, pw, salt, type == 1 ? 3 : 1, 8, 1, 32))); }
    bases.push_back(ref::scrypt_encode_string(4, 1, 1, r.bytes(32), pw));
    static const char CH[] = { '$', ',', '=', '/', '+', '.', '0', '9', 'A', 'z', ' ', (char) 0x80, (char) 0xff, '-', '_' };
    for (auto &b : bases)
        for (size_t pos = 0; pos <= b.size(); pos++) {
            if (!ctx.mine(idx++)) continue;
            { MutCase c{ b.substr(0, pos), pw, 1, 8192, "truncate@" + std::to_string(pos) }; if (pos < b.size()) exec_case(ctx, c, run_mut, mix64(hash_str(c.s), 1), true); }
            if (pos < b.size()) for (char ch : CH) { if (b[pos] == ch) continue; std::string s = b; s[pos] = ch; MutCase c{ s, pw, b[1] == '7' ? 32768u : (b[8] == 'd' ? 1u : 3u), b[1] == '7' ? (size_t) 16777216 : (size_t) 8192, "substitute@" + std::to_string(pos) }; exec_case(ctx, c, run_mut, mix64(hash_str(s), 2), true); }
            { std::string s = b; s.insert(pos, 1, '0'); MutCase c{ s, pw, 1, 8192, "insert0@" + std::to_string(pos) }; exec_case(ctx, c, run_mut, mix64(hash_str(s), 3), true); }
        }
}

bool replay(const KV &k, std::string &msg) {
    std::string kind = k.gs("kind");
    if (kind == "raw") { RawCase c{ (int) k.gu("alg"), k.gb("pw"), k.gb("salt"), (size_t) k.gu("outlen"), k.gu("ops"), (size_t) k.gu("mem"), (unsigned long) k.gu("mask"), (int) k.gu("api") }; return run_raw(c, msg); }
    if (kind == "giant_scrypt") { GScCase c{ (int) k.gu("gkind"), (size_t) k.gu("outlen"), (uint32_t) k.gu("p"), (unsigned long) k.gu("mask") }; return run_giant_scrypt(c, msg); }
    if (kind == "scrypt") { ScCase c{ k.gb("pw"), k.gb("salt"), k.gu("N"), (uint32_t) k.gu("r"), (uint32_t) k.gu("p"), (size_t) k.gu("outlen"), k.gu("ll") != 0, k.gu("ops"), (size_t) k.gu("mem"), (unsigned long) k.gu("mask") }; return run_scrypt(c, msg); }
    if (kind == "limit") { LimCase c{ (int) k.gu("which"), k.gu("ops"), k.gu("mem"), k.gu("outlen"), (int) k.gu("alg") }; return run_limit(c, msg); }
    if (kind == "str") { StrCase c{ (int) k.gu("alg"), k.gb("pw"), k.gb("salt"), k.gu("ops"), (size_t) k.gu("mem"), (unsigned long) k.gu("mask") }; return run_str(c, msg); }
    Bytes sb = k.gb("s"); MutCase c{ std::string(sb.begin(), sb.end()), k.gb("pw"), k.gu("ops"), (size_t) k.gu("mem"), k.gs("how") }; return run_mut(c, msg);
}

}  // namespace

std::vector<Sub> vh_subs() {
    return { { "raw_argon2", explore_raw, replay }, { "raw_scrypt", explore_scrypt, replay }, { "giant_scrypt", explore_giant_scrypt, replay }, { "limits", explore_limits, replay }, { "strings", explore_str, replay }, { "mutation_sweep", explore_mut_sweep, replay }, { "mutations", explore_mut, replay } };
}
