// C05 -- X25519 follows RFC 7748 and all key-agreement APIs derive matching secrets.
// Oracle: ref/x25519.hpp (RFC 7748 ladder on big integers), ref/constructions.hpp (beforenm, kx, seeded key pairs).
#include "vh_main.hpp"
#include "vh_rc.hpp"
#include "constructions.hpp"
#include "bigint.hpp"
using namespace vh;

namespace {

inline const uint8_t *D(const Bytes &b) { static uint8_t z[8]; return b.empty() ? z : b.data(); }
inline uint8_t *D(Bytes &b) { static uint8_t z[8]; return b.empty() ? z : b.data(); }

const char *PCLS[] = { "random", "low-order", "near-p", "near-2^255", "small", "pow2", "p-pow2", "limb-ones", "low-order+random-high", "solved-output" };
const char *SCLS[] = { "random", "clamp-pattern", "zero", "all-ff", "pow2", "small", "sparse" };

struct Case {
    int kind;            // 0 scalarmult, 1 base, 2 beforenm xsalsa, 3 beforenm xchacha, 4 kx, 5 box_seed_keypair, 6 kx_seed_keypair, 7 dh-symmetry
    Bytes scalar, point, extra; int pcls, scls; unsigned long mask;
    KV kv() const { KV k; k.u("kind", kind).b("scalar", scalar).b("point", point).b("extra", extra).s("pcls", PCLS[pcls]).s("scls", SCLS[scls]).u("pclsi", pcls).u("sclsi", scls).u("mask", mask); return k; }
    static Case from(const KV &k) { Case c; c.kind = (int) k.gu("kind"); c.scalar = k.gb("scalar"); c.point = k.gb("point"); c.extra = k.gb("extra"); c.pcls = (int) k.gu("pclsi"); c.scls = (int) k.gu("sclsi"); c.mask = k.gu("mask"); return c; }
};

std::vector<Bytes> &low_order_points() {
    static std::vector<Bytes> v;
    if (!v.empty()) return v;
    const char *dec[] = { "0", "1", "325606250916557431795983626356110631294008115727848805560023387167927233504", "39382357235489614581723060781553021112529911719440698176882885853963445705823" };
    for (auto d : dec) v.push_back(ref::u_to_le(ref::u_from_dec(d), 32));
    ref::U p = ref::P25519();
    v.push_back(ref::u_to_le(ref::u_sub(p, ref::U(1)), 32)); v.push_back(ref::u_to_le(p, 32)); v.push_back(ref::u_to_le(ref::u_add(p, ref::U(1)), 32));
    return v;
}

bool run(const Case &c, std::string &msg) {
    set_mask(c.mask);
    char b[400];
    switch (c.kind) {
    case 0: case 7: {
        ref::Bytes want = ref::x25519(c.scalar, c.point);
        bool zero = ref::is_all_zero(want);
        XBuf q(32, 3), n(c.scalar, 1), p(c.point, 2);
        int rc = (c.scalar[0] & 1) ? crypto_scalarmult(q.p, n.p, p.p) : crypto_scalarmult_curve25519(q.p, n.p, p.p);
        if (zero) { if (rc != -1) { snprintf(b, sizeof b, "crypto_scalarmult returned %d for a point whose shared secret is all-zero (must report failure)", rc); msg = b; return false; } return true; }
        if (rc != 0) { snprintf(b, sizeof b, "crypto_scalarmult returned %d although the RFC 7748 result is non-zero", rc); msg = b; return false; }
        if (q.get() != want) { msg = "crypto_scalarmult differs from RFC 7748 X25519: got " + hex(q.get()) + " want " + hex(want); return false; }
        // the result does not depend on where it is written: over the point (the usual in-place idiom) or over the scalar
        { XBuf qp(c.point, 2), n2(c.scalar, 1); int r2 = crypto_scalarmult(qp.p, n2.p, qp.p);
          if (r2 != 0 || qp.get() != want) { msg = "crypto_scalarmult(q, n, q) (result written over the point) differs from RFC 7748: rc=" + std::to_string(r2) + " got " + hex(qp.get()) + " want " + hex(want); return false; } }
        { XBuf qn(c.scalar, 1), p2(c.point, 2); int r3 = crypto_scalarmult(qn.p, qn.p, p2.p);
          if (r3 != 0 || qn.get() != want) { msg = "crypto_scalarmult(q, q, p) (result written over the scalar) differs from RFC 7748: rc=" + std::to_string(r3) + " got " + hex(qn.get()) + " want " + hex(want); return false; } }
        if (c.kind == 7) {   // DH symmetry: the other side computes the same secret
            Bytes pkA(32), pkB(32), s2(32);
            crypto_scalarmult_base(D(pkA), c.scalar.data()); crypto_scalarmult_base(D(pkB), c.extra.data());
            Bytes s1(32); int r1 = crypto_scalarmult(D(s1), c.scalar.data(), D(pkB)), r2 = crypto_scalarmult(D(s2), c.extra.data(), D(pkA));
            if (r1 != 0 || r2 != 0 || s1 != s2) { msg = "the two sides of a Diffie-Hellman exchange computed different secrets"; return false; }
            if (s1 != ref::x25519(c.scalar, ref::x25519_base(c.extra))) { msg = "shared secret differs from the model"; return false; }
        }
        return true;
    }
    case 1: {
        ref::Bytes want = ref::x25519_base(c.scalar);
        XBuf q(32, 3), n(c.scalar, 1);
        int rc = (c.scalar[0] & 1) ? crypto_scalarmult_base(q.p, n.p) : crypto_scalarmult_curve25519_base(q.p, n.p);
        // the base point has prime order, so the result is non-zero for every clamped scalar
        if (rc != 0 || q.get() != want) { msg = "crypto_scalarmult_base: rc=" + std::to_string(rc) + " got " + hex(q.get()) + " want " + hex(want); return false; }
        XBuf pk(32, 4), sk(32, 5);   // key-pair derivation consistency
        (void) pk; (void) sk;
        return true;
    }
    case 2: case 3: {
        ref::Bytes want; bool ok = c.kind == 2 ? ref::box_beforenm_xsalsa20(c.point, c.scalar, want) : ref::box_beforenm_xchacha20(c.point, c.scalar, want);
        XBuf k(32, 3), pk(c.point, 1), sk(c.scalar, 2);
        int rc = c.kind == 2 ? crypto_box_beforenm(k.p, pk.p, sk.p) : crypto_box_curve25519xchacha20poly1305_beforenm(k.p, pk.p, sk.p);
        if (!ok) { if (rc != -1) { snprintf(b, sizeof b, "box beforenm returned %d for a low-order peer key (must fail)", rc); msg = b; return false; } return true; }
        if (rc != 0 || k.get() != want) { msg = std::string("box beforenm differs from ") + (c.kind == 2 ? "HSalsa20" : "HChaCha20") + "(0^16, X25519(sk, pk)): rc=" + std::to_string(rc); return false; }
        return true;
    }
    case 4: {   // kx: scalar = client sk, extra = server sk; point (optional) replaces the server pk as seen by the client (adversarial)
        Bytes cpk = ref::x25519_base(c.scalar), spk = ref::x25519_base(c.extra);
        Bytes spk_seen = c.pcls == 0 ? spk : c.point;
        Bytes first, second; bool ok = ref::kx_session_keys(cpk, spk_seen, c.scalar, spk_seen, first, second);
        XBuf rx(32, 1), tx(32, 2), a(cpk, 3), s(c.scalar, 4), p(spk_seen, 5);
        int rc = crypto_kx_client_session_keys(rx.p, tx.p, a.p, s.p, p.p);
        if (!ok) { if (rc != -1) { msg = "crypto_kx_client_session_keys accepted a low-order server key"; return false; } return true; }
        if (rc != 0 || rx.get() != first || tx.get() != second) { msg = "crypto_kx_client_session_keys: (rx||tx) != BLAKE2b-512(shared || client_pk || server_pk)"; return false; }
        if (c.pcls == 0) {
            XBuf srx(32, 1), stx(32, 2), sp(spk, 3), ss(c.extra, 4), cp(cpk, 5);
            if (crypto_kx_server_session_keys(srx.p, stx.p, sp.p, ss.p, cp.p) != 0) { msg = "crypto_kx_server_session_keys failed"; return false; }
            if (srx.get() != tx.get() || stx.get() != rx.get()) { msg = "kx session keys are not cross-equal (client rx != server tx or client tx != server rx)"; return false; }
            // rx or tx may be NULL when only one session key is wanted.  The statement does not say which half that single key is, so only
            // success and cross-equality between the two sides are asserted (client's single rx == server's single tx, and vice versa).
            XBuf c_rx(32, 6), c_tx(32, 7), s_rx(32, 8), s_tx(32, 9);
            if (crypto_kx_client_session_keys(c_rx.p, nullptr, a.p, s.p, p.p) != 0 || crypto_kx_client_session_keys(nullptr, c_tx.p, a.p, s.p, p.p) != 0 ||
                crypto_kx_server_session_keys(s_rx.p, nullptr, sp.p, ss.p, cp.p) != 0 || crypto_kx_server_session_keys(nullptr, s_tx.p, sp.p, ss.p, cp.p) != 0) { msg = "crypto_kx_*_session_keys failed with a NULL rx or tx"; return false; }
            if (c_rx.get() != s_tx.get() || c_tx.get() != s_rx.get()) { msg = "kx single-key mode (NULL rx/tx): the two sides derived different keys"; return false; }
            if (c_rx.get() != first && c_rx.get() != second) { msg = "kx single-key mode: key is not part of BLAKE2b-512(shared || client_pk || server_pk)"; return false; }
            // The client's tx key and the server's rx key are the same specified value (the second half of the hash) whether or not the
            // other key is requested as well; the library returns exactly that in these two forms.  (In the other two forms - client rx
            // alone, server tx alone - the library also returns the second half, which its pinned test asserts; the statement does not
            // quantify over those forms, so nothing beyond the cross-equality above is required of them: see DESIGN.md 9.2.)
            if (c_tx.get() != second) { msg = "crypto_kx_client_session_keys(NULL, tx, ...): tx differs from the tx key of the full call / the specification"; return false; }
            if (s_rx.get() != second) { msg = "crypto_kx_server_session_keys(rx, NULL, ...): rx differs from the rx key of the full call / the specification"; return false; }
        }
        return true;
    }
    case 5: case 6: {
        Bytes pk, sk;
        if (c.kind == 5) ref::box_seed_keypair(c.scalar, pk, sk); else ref::kx_seed_keypair(c.scalar, pk, sk);
        XBuf lpk(32, 1), lsk(32, 2), seed(c.scalar, 3);
        int rc = c.kind == 5 ? ((c.scalar[1] & 1) ? crypto_box_seed_keypair(lpk.p, lsk.p, seed.p) : crypto_box_curve25519xchacha20poly1305_seed_keypair(lpk.p, lsk.p, seed.p)) : crypto_kx_seed_keypair(lpk.p, lsk.p, seed.p);
        if (rc != 0 || lsk.get() != sk || lpk.get() != pk) { msg = std::string(c.kind == 5 ? "crypto_box_seed_keypair" : "crypto_kx_seed_keypair") + " is not the specified deterministic function of the seed"; return false; }
        return true;
    }
    }
    return true;
}

// ------------------------------------------------------------------ generators (all randomness from rapidcheck)
Bytes gen_bytes32() { return *rc::gen::container<Bytes>(32, rc::gen::arbitrary<uint8_t>()); }
Bytes gen_point(int &cls) {
    cls = *rc::gen::weightedElement<int>({ { 5, 0 }, { 3, 1 }, { 2, 2 }, { 2, 3 }, { 1, 4 }, { 1, 5 }, { 1, 6 }, { 2, 7 }, { 1, 8 } });
    ref::U p = ref::P25519();
    Bytes out;
    switch (cls) {
    case 0: out = gen_bytes32(); break;
    case 1: case 8: out = *rc::gen::elementOf(low_order_points()); break;
    case 2: { int d = *rc::gen::inRange(-24, 25); out = ref::u_to_le(d >= 0 ? ref::u_add(p, ref::U((uint64_t) d)) : ref::u_sub(p, ref::U((uint64_t) -d)), 32); break; }
    case 3: { int d = *rc::gen::inRange(1, 40); ref::U t = ref::u_shl(ref::U(1), 255); out = ref::u_to_le(ref::u_sub(t, ref::U((uint64_t) d)), 32); break; }
    case 4: out = ref::u_to_le(ref::U((uint64_t) *rc::gen::inRange(0, 4000)), 32); break;
    case 5: out = ref::u_to_le(ref::u_shl(ref::U(1), *rc::gen::inRange(0, 255)), 32); break;
    case 6: out = ref::u_to_le(ref::u_sub(p, ref::u_shl(ref::U(1), *rc::gen::inRange(0, 254))), 32); break;
    default: {   // limbs of all ones in radix 2^51 / 2^25.5 / 2^64, with one limb perturbed
        int radix = *rc::gen::element(51, 64, 26);
        out.assign(32, 0xff); out[31] = 0x7f;
        int k = *rc::gen::inRange(0, 256 / radix + 1), lo = k * radix;
        int mode = *rc::gen::inRange(0, 3);
        for (int bit = lo; bit < lo + radix && bit < 255; bit++) { if (mode == 0) out[bit / 8] &= (uint8_t) ~(1u << (bit % 8)); else if (mode == 1 && bit == lo) out[bit / 8] &= (uint8_t) ~(1u << (bit % 8)); }
        break; }
    }
    if (cls == 8) {   // the first 29..31 bytes of a low-order encoding, arbitrary bytes after them: valid points that a blocklist comparison
                      // which stops early (or masks the wrong byte) would take for low-order ones
        int keep = *rc::gen::element(30, 31, 29, 30);
        for (int i = keep; i < 32; i++) out[(size_t) i] = *rc::gen::arbitrary<uint8_t>();
    }
    if (*rc::gen::inRange(0, 3) == 0) out[31] ^= 0x80;     // bit 255 must be ignored
    return out;
}
Bytes gen_scalar(int &cls) {
    cls = *rc::gen::weightedElement<int>({ { 6, 0 }, { 4, 1 }, { 1, 2 }, { 1, 3 }, { 1, 4 }, { 1, 5 }, { 1, 6 } });
    Bytes s = gen_bytes32();
    switch (cls) {
    case 1: { int pat = *rc::gen::inRange(0, 32); s[0] = (uint8_t) ((s[0] & 0xf8) | (pat & 7)); s[31] = (uint8_t) ((s[31] & 0x3f) | ((pat >> 3) << 6)); break; }
    case 2: s.assign(32, 0); break;
    case 3: s.assign(32, 0xff); break;
    case 4: s.assign(32, 0); { int k = *rc::gen::inRange(0, 256); s[k / 8] = (uint8_t) (1u << (k % 8)); } break;
    case 5: s.assign(32, 0); s[0] = (uint8_t) *rc::gen::inRange(0, 256); break;
    case 6: for (auto &x : s) x &= (uint8_t) *rc::gen::element(0x01, 0x80, 0x11, 0x00); break;
    }
    return s;
}
std::vector<unsigned long> masks05() { std::vector<unsigned long> out; for (auto &m : mask_set(false)) if (m.name == "all" || m.name == "-avx") out.push_back(m.mask); return out; }

uint64_t ckey(const Case &c) { return mix64(mix64(mix64(c.kind, c.pcls), mix64(c.scls, c.mask)), hash_bytes(c.point.data(), c.point.size(), hash_bytes(c.scalar.data(), c.scalar.size()))); }

void explore_scalarmult(Ctx &ctx) {
    auto masks = masks05();
    rc_explore<Case>(ctx, "c05-scalarmult", ctx.thorough() ? 200000 : 16000, 100, [&]() {
        Case c; c.kind = *rc::gen::weightedElement<int>({ { 8, 0 }, { 2, 1 }, { 1, 7 } });
        c.scalar = gen_scalar(c.scls); c.point = gen_point(c.pcls);
        if (c.kind == 7) { int d; c.extra = gen_scalar(d); c.point = ref::x25519_base(c.extra); c.pcls = 0; }
        c.mask = *rc::gen::elementOf(masks);
        ctx.cls(std::string("point=") + PCLS[c.pcls]); ctx.cls(std::string("scalar=") + SCLS[c.scls]);
        return c;
    }, run, ckey, [](const Case &c) { return c.pcls != 0 || c.scls != 0 || c.kind != 0; });
}
void explore_agreement(Ctx &ctx) {
    auto masks = masks05();
    rc_explore<Case>(ctx, "c05-agreement", ctx.thorough() ? 60000 : 6000, 100, [&]() {
        Case c; c.kind = *rc::gen::weightedElement<int>({ { 3, 2 }, { 3, 3 }, { 4, 4 }, { 2, 5 }, { 2, 6 } });
        c.scalar = gen_scalar(c.scls);
        if (c.kind == 2 || c.kind == 3) c.point = gen_point(c.pcls);
        else if (c.kind == 4) { int d; c.extra = gen_scalar(d); if (*rc::gen::inRange(0, 4) == 0) { c.point = gen_point(c.pcls); if (c.pcls == 0) c.pcls = 8; } else c.pcls = 0; }
        else { c.pcls = 0; }
        c.mask = *rc::gen::elementOf(masks);
        ctx.cls(std::string("kind=") + std::to_string(c.kind));
        return c;
    }, run, ckey, [](const Case &) { return true; });
}
// deterministic sweep: every low-order encoding x both top bits x clamp patterns, under every mask
void explore_loworder(Ctx &ctx) {
    auto masks = masks05();
    Rng r = ctx.rng("c05-low");
    uint64_t idx = 0;
    for (auto &pt : low_order_points())
        for (int top = 0; top < 2; top++)
            for (int pat = 0; pat < 32; pat++) {
                Bytes s = r.bytes(32); s[0] = (uint8_t) ((s[0] & 0xf8) | (pat & 7)); s[31] = (uint8_t) ((s[31] & 0x3f) | ((pat >> 3) << 6));
                Bytes p = pt; if (top) p[31] |= 0x80;
                if (!ctx.mine(idx++)) continue;
                for (unsigned long m : masks) for (int kind : { 0, 2, 3 }) { Case c{ kind, s, p, Bytes(), 1, 1, m }; exec_case(ctx, c, run, ckey(c), true); }
            }
}


// ------------------------------------------------------------------ solved outputs
// Field-arithmetic / final-reduction defects need one specific 255-bit VALUE to appear as the result, which random inputs
// reach with probability ~2^-200.  Here the result is chosen first (all-ones limbs in radix 2^51, 2^25.5 and 2^64 with one limb
// perturbed, values just below p, tiny values) and the input point is SOLVED for:  P = (n^-1 mod ord) * Q*  where ord is the
// prime order of Q* on the curve or on its twist, so that X25519(n, P) = Q* exactly.  The oracle is still the RFC 7748 model.
bool solve_point(const ref::U &ustar, const Bytes &scalar, Bytes &point) {
    using namespace ref;
    U L = L25519(), p = P25519();
    U Lt = u_div(u_sub(u_add(u_add(p, p), U(2)), u_mul_small(L, 8)), U(4));      // twist order = 4 * Lt
    if (u_is_zero(fp_red(ustar))) return false;
    U ord;
    if (u_is_zero(x25519_ladder(L, ustar))) ord = L; else if (u_is_zero(x25519_ladder(Lt, ustar))) ord = Lt; else return false;
    U n = u_from_le(x25519_clamp(scalar));
    U nm = u_mod(n, ord); if (u_is_zero(nm)) return false;
    U P = x25519_ladder(u_invmod_prime(nm, ord), ustar);
    point = u_to_le(P, 32);
    return x25519(scalar, point) == u_to_le(fp_red(ustar), 32);     // aim check (fails e.g. for points of order 2L)
}
std::vector<ref::U> solved_targets(Rng &r, bool thorough) {
    using namespace ref;
    std::vector<U> t; U p = P25519();
    static const int B51[] = { 0, 51, 102, 153, 204, 255 }, B64[] = { 0, 64, 128, 192, 255 }, B26[] = { 0, 26, 51, 77, 102, 128, 153, 179, 204, 230, 255 };
    auto add_radix = [&](const int *b, int n) {
        for (int li = 0; li + 1 < n; li++) {
            int lo = b[li], hi = b[li + 1];
            for (int rep = 0; rep < (thorough ? 40 : 14); rep++) {
                // value = p + j - d * 2^lo : every limb all ones except limb li (and limb 0 >= 2^k - 19)
                U d = u_from_le(r.bytes(8)); d = u_low_bits(d, hi - lo); if (u_is_zero(d)) d = U(1); if (rep == 0) d = U(1);
                U v = u_sub(u_add(p, U(r.below(19))), u_shl(d, lo));
                if (u_cmp(v, p) < 0) t.push_back(v);
                // one limb all zero, the others all ones
                U w = u_sub(u_sub(u_shl(U(1), 255), U(1)), u_shl(u_sub(u_shl(U(1), hi - lo), U(1)), lo));
                if (u_cmp(w, p) < 0 && rep == 0) t.push_back(w);
            }
        }
    };
    add_radix(B51, 6); add_radix(B64, 5); add_radix(B26, 11);
    for (uint64_t j = 1; j <= (thorough ? 40u : 20u); j++) { t.push_back(U(j)); t.push_back(u_sub(p, U(j))); }
    for (int k : { 25, 26, 50, 51, 52, 63, 64, 101, 102, 127, 128, 153, 204, 230, 254 }) { t.push_back(u_shl(U(1), k)); t.push_back(u_sub(u_shl(U(1), k), U(1))); t.push_back(u_sub(p, u_shl(U(1), k))); }
    // sparse results: non-zero in a single 64-bit word, 32-bit word or byte of the 32-byte output (the "is the shared secret all-zero" scan
    // and every word-wise store see exactly one non-zero unit)
    for (int w = 0; w < 4; w++) for (int rep = 0; rep < (thorough ? 20 : 6); rep++) { U k = u_from_le(r.bytes(8)); if (w == 3) k = u_low_bits(k, 62); if (u_is_zero(k)) k = U(1); t.push_back(u_shl(k, 64 * w)); }
    for (int w = 0; w < 8; w++) for (int rep = 0; rep < (thorough ? 8 : 3); rep++) { U k = u_low_bits(u_from_le(r.bytes(8)), w == 7 ? 30 : 32); if (u_is_zero(k)) k = U(1); t.push_back(u_shl(k, 32 * w)); }
    for (int j = 0; j < 32; j++) for (int rep = 0; rep < (thorough ? 6 : 2); rep++) { uint64_t b = 1 + r.below(j == 31 ? 0x3f : 255); t.push_back(u_shl(U(b), 8 * j)); }
    return t;
}
void explore_solved(Ctx &ctx) {
    auto masks = masks05();
    Rng r = ctx.rng("c05-solved");
    auto targets = solved_targets(r, ctx.thorough());
    uint64_t idx = 0;
    for (auto &t : targets) {
        uint64_t rs = r.next();
        if (!ctx.mine(idx++)) continue;
        Rng rr(rs);
        Bytes s = rr.bytes(32), pt;
        if (!solve_point(t, s, pt)) { ctx.cls("solved-output:candidate-not-of-prime-order"); continue; }     // only prime-order values can be results at all
        ctx.cls("solved-output:aimed");
        for (int rep = 0; rep < (ctx.thorough() ? 4 : 2); rep++) {
            if (rep) { s = rr.bytes(32); if (!solve_point(t, s, pt)) break; }
            for (unsigned long m : masks) { Case c{ 0, s, pt, Bytes(), 9, 0, m }; exec_case(ctx, c, run, ckey(c), true); }
        }
    }
}

// ------------------------------------------------------------------ bulk differential between the two ladders
// Defects in the lazily-reduced limb arithmetic of one ladder that depend on INTERNAL values (not on the result) cannot be aimed at; what
// remains is volume: uniformly random (scalar, point) pairs through the AVX assembly ladder and the portable ladder, compared with each other
// (no big-integer model in the loop, so millions of pairs are affordable); a disagreeing pair is then judged against the RFC 7748 model.
bool run_pair(const Case &c, std::string &msg) {
    auto masks = masks05();
    Bytes q[2] = { Bytes(32), Bytes(32) }; int rc[2] = { 0, 0 };
    for (size_t i = 0; i < masks.size() && i < 2; i++) { set_mask(masks[i]); XBuf qb(32, 3), n(c.scalar, 1), p(c.point, 2); rc[i] = crypto_scalarmult(qb.p, n.p, p.p); q[i] = qb.get(); }
    ref::Bytes want = ref::x25519(c.scalar, c.point);
    bool zero = ref::is_all_zero(want);
    for (size_t i = 0; i < masks.size() && i < 2; i++) {
        if (zero ? rc[i] != -1 : (rc[i] != 0 || q[i] != want)) {
            char b[200]; snprintf(b, sizeof b, "crypto_scalarmult under CPU mask 0x%lx (%s ladder): rc=%d got ", masks[i], i == 0 ? "AVX assembly" : "portable", rc[i]);
            msg = std::string(b) + hex(q[i]) + " want " + (zero ? std::string("failure (all-zero secret)") : hex(want)) + "; the other ladder returned rc=" + std::to_string(rc[1 - i]) + " " + hex(q[1 - i]);
            return false;
        }
    }
    return true;
}
void explore_bulk(Ctx &ctx) {
    auto masks = masks05();
    if (masks.size() < 2) { ctx.notes["bulk_pairs"] = "skipped: a single ladder is available on this CPU / in this build"; return; }
    Rng r = ctx.wrng("c05-bulk");
    size_t total = ctx.thorough() ? 400000 : 128000;          // per worker
    const size_t B = 512;
    std::vector<Bytes> S(B), P(B), Q0(B, Bytes(32)); std::vector<int> R0(B);
    uint64_t pairs = 0;
    for (size_t done = 0; done < total && !ctx.failed(); done += B) {
        for (size_t i = 0; i < B; i++) { S[i] = r.bytes(32); P[i] = r.bytes(32); }
        set_mask(masks[0]); for (size_t i = 0; i < B; i++) R0[i] = crypto_scalarmult(Q0[i].data(), S[i].data(), P[i].data());
        set_mask(masks[1]);
        for (size_t i = 0; i < B; i++) {
            uint8_t q[32]; int rc = crypto_scalarmult(q, S[i].data(), P[i].data());
            bool differ = rc != R0[i] || (rc == 0 && memcmp(q, Q0[i].data(), 32) != 0);
            if (differ || i == 0) { Case c{ 8, S[i], P[i], Bytes(), 0, 0, masks[0] }; exec_case(ctx, c, run_pair, ckey(c), false); }   // i == 0: one pair per batch also goes through the model
        }
        pairs += B; ctx.evaluations += B - 1; (*ctx.cur_evals) += B - 1;
    }
    ctx.cls("bulk-random-pairs-both-ladders", pairs);
}

bool replay(const KV &k, std::string &msg) { Case c = Case::from(k); return c.kind == 8 ? run_pair(c, msg) : run(c, msg); }

}  // namespace

std::vector<Sub> vh_subs() { return { { "loworder", explore_loworder, replay }, { "solved_outputs", explore_solved, replay }, { "bulk_ladders", explore_bulk, replay }, { "scalarmult", explore_scalarmult, replay }, { "agreement", explore_agreement, replay } }; }
