// ref/codecs.hpp -- table-driven hex / RFC 4648 Base64 encoder and STRICT decoder model with the
// ignore-set, end-pointer and capacity semantics documented for sodium_hex2bin / sodium_base642bin,
// and the ISO/IEC 7816-4 padding model for sodium_pad / sodium_unpad.
#pragma once
#include "common.hpp"

namespace ref {

enum { B64_ORIGINAL = 1, B64_ORIGINAL_NOPAD = 3, B64_URLSAFE = 5, B64_URLSAFE_NOPAD = 7 };
inline bool b64_padded(int variant) { return (variant & 2) == 0; }
inline const char *b64_alphabet(int variant) {
    return (variant & 4) ? "ABCDEFGHIJKLMNOPQRSTUVWXYZabcdefghijklmnopqrstuvwxyz0123456789-_"
                         : "ABCDEFGHIJKLMNOPQRSTUVWXYZabcdefghijklmnopqrstuvwxyz0123456789+/";
}
inline std::string hex_encode(const Bytes &b) { return to_hex(b); }
inline std::string b64_encode(const Bytes &b, int variant) {
    const char *al = b64_alphabet(variant);
    std::string o;
    size_t i = 0;
    for (; i + 3 <= b.size(); i += 3) {
        uint32_t v = (b[i] << 16) | (b[i + 1] << 8) | b[i + 2];
        o += al[(v >> 18) & 63]; o += al[(v >> 12) & 63]; o += al[(v >> 6) & 63]; o += al[v & 63];
    }
    size_t rem = b.size() - i;
    if (rem == 1) { uint32_t v = b[i] << 16; o += al[(v >> 18) & 63]; o += al[(v >> 12) & 63]; if (b64_padded(variant)) o += "=="; }
    if (rem == 2) { uint32_t v = (b[i] << 16) | (b[i + 1] << 8); o += al[(v >> 18) & 63]; o += al[(v >> 12) & 63]; o += al[(v >> 6) & 63]; if (b64_padded(variant)) o += "="; }
    return o;
}

// Outcome of a strict decode. rc: 0 success, -1 failure, 2 = "unspecified by the contract" (either is acceptable;
// when the library returns 0 the decoded bytes / end must equal the lenient result stored here).
struct DecodeResult { int rc; Bytes bin; size_t end; };

inline bool in_ignore(const char *ignore, unsigned char c) {
    if (!ignore || c == 0) return false;   // NUL can never be a member of a C-string set
    for (const char *p = ignore; *p; p++) if ((unsigned char) *p == c) return true;
    return false;
}
inline int hexval(unsigned char c) {
    if (c >= '0' && c <= '9') return c - '0';
    if (c >= 'a' && c <= 'f') return c - 'a' + 10;
    if (c >= 'A' && c <= 'F') return c - 'A' + 10;
    return -1;
}

// text: hex_len characters (may contain any byte). have_end: caller passes a non-NULL end pointer.
inline DecodeResult hex_decode(const std::string &text, size_t maxlen, const char *ignore, bool have_end) {
    DecodeResult r; r.rc = 0; r.end = 0;
    size_t pos = 0; int hi = -1; bool ignore_inside_pair = false;
    while (pos < text.size()) {
        unsigned char c = (unsigned char) text[pos];
        int v = hexval(c);
        if (v < 0) {
            if (in_ignore(ignore, c)) {
                if (hi >= 0) { ignore_inside_pair = true; break; }   // documented as "any location", implemented between pairs only: unspecified
                pos++; continue;
            }
            break;
        }
        if (r.bin.size() >= maxlen) { r.rc = -1; return r; }    // more than bin_maxlen bytes would be required
        if (hi < 0) hi = v; else { r.bin.push_back((uint8_t)(hi * 16 + v)); hi = -1; }
        pos++;
    }
    if (ignore_inside_pair) { r.rc = 2; return r; }
    if (hi >= 0) { r.rc = -1; return r; }                        // odd number of digits
    r.end = pos;
    if (!have_end && pos != text.size()) r.rc = -1;              // could not be fully parsed and no end pointer given
    return r;
}

inline int b64val(unsigned char c, int variant) {
    const char *al = b64_alphabet(variant);
    if (c == 0) return -1;
    for (int i = 0; i < 64; i++) if ((unsigned char) al[i] == c) return i;
    return -1;
}

inline DecodeResult b64_decode(const std::string &text, size_t maxlen, const char *ignore, bool have_end, int variant) {
    DecodeResult r; r.rc = 0; r.end = 0;
    size_t pos = 0; uint32_t acc = 0; int acc_bits = 0;
    while (pos < text.size()) {
        unsigned char c = (unsigned char) text[pos];
        int v = b64val(c, variant);
        if (v < 0) {
            if (in_ignore(ignore, c)) { pos++; continue; }
            break;
        }
        acc = (acc << 6) | (uint32_t) v; acc_bits += 6;
        if (acc_bits >= 8) {
            acc_bits -= 8;
            if (r.bin.size() >= maxlen) { r.rc = -1; return r; }   // fail rather than truncate
            r.bin.push_back((uint8_t)(acc >> acc_bits));
            acc &= (1u << acc_bits) - 1;
        }
        pos++;
    }
    if (acc_bits > 4) { r.rc = -1; return r; }                      // a lone character: incomplete quantum
    if (acc != 0) { r.rc = -1; return r; }                          // non-zero trailing bits
    if (b64_padded(variant)) {
        int need = acc_bits / 2;                                    // 4 leftover bits -> "==", 2 -> "="
        while (need > 0) {
            if (pos >= text.size()) { r.rc = -1; return r; }
            unsigned char c = (unsigned char) text[pos];
            if (c == '=') need--;
            else if (!in_ignore(ignore, c)) { r.rc = -1; return r; }
            pos++;
        }
    }
    while (pos < text.size() && in_ignore(ignore, (unsigned char) text[pos])) pos++;
    r.end = pos;
    if (!have_end && pos != text.size()) r.rc = -1;
    return r;
}
inline size_t b64_encoded_len_with_nul(size_t binlen, int variant) { return b64_encode(Bytes(binlen, 0), variant).size() + 1; }

// ------------------------------------------------------------------ padding (ISO/IEC 7816-4)
// returns false when blocksize == 0; padded length = next multiple of blocksize strictly greater than unpadded_len
inline bool pad_len(size_t unpadded, size_t blocksize, size_t &padded) {
    if (blocksize == 0) return false;
    padded = (unpadded / blocksize + 1) * blocksize;
    return true;
}
// returns -1 if the final block has no valid marker, else the unpadded length
inline long long unpad_model(const Bytes &buf, size_t blocksize) {
    if (blocksize == 0 || buf.size() < blocksize) return -1;
    size_t i = buf.size();
    size_t lo = buf.size() - blocksize;
    while (i > lo) {
        i--;
        if (buf[i] == 0x80) return (long long) i;
        if (buf[i] != 0) return -1;
    }
    return -1;
}

inline int selftest_codecs() {
    T t("codecs");
    // RFC 4648 section 10 vectors
    const char *in[] = { "", "f", "fo", "foo", "foob", "fooba", "foobar" };
    const char *out[] = { "", "Zg==", "Zm8=", "Zm9v", "Zm9vYg==", "Zm9vYmE=", "Zm9vYmFy" };
    for (int i = 0; i < 7; i++) {
        t.ok("b64 enc", b64_encode(str(in[i]), B64_ORIGINAL) == out[i]);
        DecodeResult d = b64_decode(out[i], 100, nullptr, false, B64_ORIGINAL);
        t.ok("b64 dec", d.rc == 0 && d.bin == str(in[i]));
    }
    t.ok("b64 url", b64_encode(from_hex("fbff"), B64_URLSAFE_NOPAD) == "-_8" && b64_encode(from_hex("fbff"), B64_ORIGINAL) == "+/8=");
    t.ok("b64 strict pad", b64_decode("Zg=", 10, nullptr, false, B64_ORIGINAL).rc == -1 && b64_decode("Zg", 10, nullptr, false, B64_ORIGINAL_NOPAD).rc == 0);
    t.ok("b64 trailing bits", b64_decode("Zh==", 10, nullptr, false, B64_ORIGINAL).rc == -1);
    t.ok("hex", hex_decode("00ff1A", 3, nullptr, false).bin == from_hex("00ff1a") && hex_decode("0", 3, nullptr, false).rc == -1 && hex_decode("0011", 1, nullptr, false).rc == -1);
    t.ok("hex ignore", hex_decode("00:ff", 3, ":", false).rc == 0 && hex_decode("00:ff", 3, nullptr, true).end == 2);
    t.ok("unpad", unpad_model(from_hex("aa800000"), 4) == 1 && unpad_model(from_hex("aa810000"), 4) == -1 && unpad_model(from_hex("00000000"), 4) == -1 && unpad_model(from_hex("80"), 1) == 0);
    return t.fails;
}

}  // namespace ref
