// ref/scrypt.hpp -- scrypt (RFC 7914) on top of PBKDF2-HMAC-SHA-256 from sha2.hpp, plus the libsodium-specific
// parameter derivation (opslimit, memlimit) -> (N, r, p) and the escrypt "$7$" password-hash string format.
// Written from the RFC for clarity; no libsodium code or headers.
#pragma once
#include <string>
#include <vector>
#include "common.hpp"
#include "sha2.hpp"

namespace ref {

// Safety cap for the reference model itself: scrypt() refuses (returns an empty vector) when V (128*r*N bytes) plus
// B (128*r*p bytes) would exceed this, so that a fuzzer-mutated "$7$" string can never stall the machine.
// This is a property of the oracle, not of scrypt. Callers must treat "empty" as "oracle has no answer".
#ifndef REF_SCRYPT_MAX_BYTES
#define REF_SCRYPT_MAX_BYTES (256ull * 1024 * 1024)
#endif

// All three building blocks below work on little-endian 32-bit words (the RFC's octet strings are converted once on
// the way in and once on the way out), which is how the RFC's own reference code treats the Salsa20/8 core input.
inline std::vector<uint32_t> scrypt_words_from_bytes(const Bytes &b) {
    std::vector<uint32_t> w(b.size() / 4);
    for (size_t i = 0; i < w.size(); i++) w[i] = ld32le(&b[4 * i]);
    return w;
}
inline Bytes scrypt_words_to_bytes(const std::vector<uint32_t> &w) {
    Bytes b(w.size() * 4);
    for (size_t i = 0; i < w.size(); i++) st32le(&b[4 * i], w[i]);
    return b;
}

// RFC 7914 section 3: Salsa20/8 core, a 64-byte -> 64-byte function on 16 little-endian words, in place.
inline void scrypt_salsa20_8_core(uint32_t B[16]) {
    uint32_t x[16];
    for (int i = 0; i < 16; i++) x[i] = B[i];
    for (int round = 8; round > 0; round -= 2) {
        // column round
        x[4] ^= rotl32(x[0] + x[12], 7);   x[8] ^= rotl32(x[4] + x[0], 9);
        x[12] ^= rotl32(x[8] + x[4], 13);  x[0] ^= rotl32(x[12] + x[8], 18);
        x[9] ^= rotl32(x[5] + x[1], 7);    x[13] ^= rotl32(x[9] + x[5], 9);
        x[1] ^= rotl32(x[13] + x[9], 13);  x[5] ^= rotl32(x[1] + x[13], 18);
        x[14] ^= rotl32(x[10] + x[6], 7);  x[2] ^= rotl32(x[14] + x[10], 9);
        x[6] ^= rotl32(x[2] + x[14], 13);  x[10] ^= rotl32(x[6] + x[2], 18);
        x[3] ^= rotl32(x[15] + x[11], 7);  x[7] ^= rotl32(x[3] + x[15], 9);
        x[11] ^= rotl32(x[7] + x[3], 13);  x[15] ^= rotl32(x[11] + x[7], 18);
        // row round
        x[1] ^= rotl32(x[0] + x[3], 7);    x[2] ^= rotl32(x[1] + x[0], 9);
        x[3] ^= rotl32(x[2] + x[1], 13);   x[0] ^= rotl32(x[3] + x[2], 18);
        x[6] ^= rotl32(x[5] + x[4], 7);    x[7] ^= rotl32(x[6] + x[5], 9);
        x[4] ^= rotl32(x[7] + x[6], 13);   x[5] ^= rotl32(x[4] + x[7], 18);
        x[11] ^= rotl32(x[10] + x[9], 7);  x[8] ^= rotl32(x[11] + x[10], 9);
        x[9] ^= rotl32(x[8] + x[11], 13);  x[10] ^= rotl32(x[9] + x[8], 18);
        x[12] ^= rotl32(x[15] + x[14], 7); x[13] ^= rotl32(x[12] + x[15], 9);
        x[14] ^= rotl32(x[13] + x[12], 13); x[15] ^= rotl32(x[14] + x[13], 18);
    }
    for (int i = 0; i < 16; i++) B[i] += x[i];
}
inline Bytes scrypt_salsa20_8(const Bytes &in) {
    if (in.size() != 64) return Bytes();
    std::vector<uint32_t> w = scrypt_words_from_bytes(in);
    scrypt_salsa20_8_core(w.data());
    return scrypt_words_to_bytes(w);
}

// RFC 7914 section 4: scryptBlockMix. in/out: 2r blocks of 64 bytes (16 words each); in and out must not overlap.
//   X = B[2r-1];  for i = 0..2r-1: X = Salsa20/8(X xor B[i]), Y[i] = X;  B' = (Y[0], Y[2], .., Y[2r-2], Y[1], Y[3], .., Y[2r-1])
inline void scrypt_blockmix_words(const uint32_t *in, uint32_t *out, size_t r) {
    uint32_t X[16];
    for (int k = 0; k < 16; k++) X[k] = in[(2 * r - 1) * 16 + k];
    for (size_t i = 0; i < 2 * r; i++) {
        for (int k = 0; k < 16; k++) X[k] ^= in[i * 16 + k];
        scrypt_salsa20_8_core(X);
        size_t dst = (i % 2 == 0) ? i / 2 : r + i / 2;   // even-numbered Y first, then the odd-numbered ones
        for (int k = 0; k < 16; k++) out[dst * 16 + k] = X[k];
    }
}
inline Bytes scrypt_blockmix(const Bytes &B, size_t r) {
    if (r == 0 || B.size() != 128 * r) return Bytes();
    std::vector<uint32_t> in = scrypt_words_from_bytes(B), out(in.size());
    scrypt_blockmix_words(in.data(), out.data(), r);
    return scrypt_words_to_bytes(out);
}

// RFC 7914 section 5: scryptROMix(r, B, N).
//   X = B;  for i = 0..N-1: V[i] = X, X = BlockMix(X);
//   for i = 0..N-1: j = Integerify(X) mod N, X = BlockMix(X xor V[j]);   B' = X
//   Integerify(X) = the last 64-byte block of X read as a little-endian integer (its low 64 bits suffice: N <= 2^63).
inline Bytes scrypt_romix(const Bytes &B, uint64_t N, size_t r) {
    const size_t bw = 32 * r;                                  // words per 128*r-byte block
    if (r == 0 || B.size() != 128 * r || N < 2 || (N & (N - 1)) != 0) return Bytes();
    std::vector<uint32_t> V((size_t) N * bw), X = scrypt_words_from_bytes(B), Y(bw);
    for (uint64_t i = 0; i < N; i++) {
        for (size_t k = 0; k < bw; k++) V[(size_t) i * bw + k] = X[k];
        scrypt_blockmix_words(X.data(), Y.data(), r);
        X.swap(Y);
    }
    for (uint64_t i = 0; i < N; i++) {
        const uint32_t *last = &X[(2 * r - 1) * 16];
        uint64_t j = ((uint64_t) last[0] | ((uint64_t) last[1] << 32)) % N;
        for (size_t k = 0; k < bw; k++) X[k] ^= V[(size_t) j * bw + k];
        scrypt_blockmix_words(X.data(), Y.data(), r);
        X.swap(Y);
    }
    return scrypt_words_to_bytes(X);
}

// Memory scrypt needs, in bytes (V plus B), saturating.
inline uint64_t scrypt_mem_bytes(uint64_t N, uint32_t r, uint32_t p) {
    unsigned __int128 need = (unsigned __int128) 128 * r * N + (unsigned __int128) 128 * r * p;
    return need > (unsigned __int128) UINT64_MAX ? UINT64_MAX : (uint64_t) need;
}

// RFC 7914 section 6: scrypt(P, S, N, r, p, dkLen).
//   B[0] || .. || B[p-1] = PBKDF2-HMAC-SHA256(P, S, 1, p * 128 * r);  B[i] = ROMix(r, B[i], N);
//   DK = PBKDF2-HMAC-SHA256(P, B[0] || .. || B[p-1], 1, dkLen)
// Parameter requirements of RFC 7914 section 2 that are enforced: N > 1 and a power of two, r >= 1, p >= 1,
// p <= (2^32-1)*32/(128*r) (checked as r*p < 2^30, the form libsodium uses), dkLen <= (2^32-1)*32.
// NOT enforced: the RFC's "N < 2^(128*r/8)" (only relevant for r <= 3 with N >= 2^(16r)); libsodium does not check it
// either and the algorithm is well defined there (OpenSSL / hashlib do reject such N).
// Anything invalid, or needing more than REF_SCRYPT_MAX_BYTES, returns an empty vector; nothing aborts.
inline Bytes scrypt(const Bytes &pw, const Bytes &salt, uint64_t N, uint32_t r, uint32_t p, size_t dklen) {
    if (N < 2 || (N & (N - 1)) != 0 || r == 0 || p == 0) return Bytes();
    if ((uint64_t) r * p >= (1ull << 30)) return Bytes();                 // p <= (2^32-1)*32 / (128*r)
    if ((uint64_t) dklen > 0xffffffffULL * 32) return Bytes();
    if (scrypt_mem_bytes(N, r, p) > REF_SCRYPT_MAX_BYTES) return Bytes();
    const size_t bs = 128 * (size_t) r;
    Bytes B = pbkdf2_sha256(pw, salt, 1, (size_t) p * bs);
    for (uint32_t i = 0; i < p; i++) {
        Bytes Bi = scrypt_romix(sub(B, (size_t) i * bs, bs), N, r);
        memcpy(&B[(size_t) i * bs], Bi.data(), bs);
    }
    return pbkdf2_sha256(pw, B, 1, dklen);
}

// ---------------------------------------------------------------------------------------------------------
// libsodium specifics
// ---------------------------------------------------------------------------------------------------------

// (opslimit, memlimit) -> (N_log2, r, p), the derivation crypto_pwhash_scryptsalsa208sha256*() applies
// (function pickparams, /repo/src/libsodium/crypto_pwhash/scryptsalsa208sha256/pwhash_scryptsalsa208sha256.c:18-53).
// Restated:
//   * opslimit is raised to at least 32768; r is always 8.
//   * "CPU-bound" case, opslimit < memlimit/32:  p = 1 and the N budget is maxN = opslimit / (4*r).
//   * "memory-bound" case otherwise:             the N budget is maxN = memlimit / (128*r).
//   * N_log2 = the smallest k in 1..62 with 2^k > maxN/2 (i.e. the largest power of two not exceeding maxN, but at
//     least 2); 63 if no such k exists.
//   * memory-bound only: p = min((opslimit/4) / 2^N_log2, 2^30 - 1) / r   (integer divisions throughout).
inline void scrypt_pickparams(uint64_t opslimit, size_t memlimit, uint32_t &N_log2, uint32_t &r, uint32_t &p) {
    if (opslimit < 32768) opslimit = 32768;
    r = 8;
    const bool cpu_bound = opslimit < (uint64_t) memlimit / 32;
    const uint64_t maxN = cpu_bound ? opslimit / (4 * (uint64_t) r) : (uint64_t) memlimit / (128 * (uint64_t) r);
    N_log2 = 1;
    while (N_log2 < 63 && (1ull << N_log2) <= maxN / 2) N_log2++;
    if (cpu_bound) {
        p = 1;
    } else {
        uint64_t maxrp = (opslimit / 4) >> N_log2;
        if (maxrp > 0x3fffffff) maxrp = 0x3fffffff;
        p = (uint32_t) maxrp / r;
    }
}

// crypto_pwhash_scryptsalsa208sha256(out, outlen, passwd, salt[32], opslimit, memlimit)
// (pwhash_scryptsalsa208sha256.c:157-188): scrypt with the picked parameters over the raw 32-byte salt.
inline Bytes pwhash_scrypt(const Bytes &pw, const Bytes &salt32, uint64_t opslimit, size_t memlimit, size_t outlen) {
    uint32_t N_log2, r, p;
    scrypt_pickparams(opslimit, memlimit, N_log2, r, p);
    return scrypt(pw, salt32, 1ull << N_log2, r, p, outlen);
}

// The crypt(3)-style base64 of escrypt: alphabet "./0-9A-Za-z", least-significant 6 bits first.
static const char *const SCRYPT_ITOA64 = "./0123456789ABCDEFGHIJKLMNOPQRSTUVWXYZabcdefghijklmnopqrstuvwxyz";
inline int scrypt_b64_value(char c) {           // -1 if c is not one of the 64 alphabet characters
    if (c == '.') return 0;
    if (c == '/') return 1;
    if (c >= '0' && c <= '9') return 2 + (c - '0');
    if (c >= 'A' && c <= 'Z') return 12 + (c - 'A');
    if (c >= 'a' && c <= 'z') return 38 + (c - 'a');
    return -1;
}
// `bits` bits of v, 6 at a time starting from the least significant ones (30 bits -> 5 characters).
inline std::string scrypt_b64_uint(uint32_t v, unsigned bits) {
    std::string s;
    for (unsigned b = 0; b < bits; b += 6) { s.push_back(SCRYPT_ITOA64[v & 63]); v >>= 6; }
    return s;
}
// Bytes are taken three at a time as a 24-bit little-endian number -> 4 characters; a tail of 2 bytes -> 3 characters,
// of 1 byte -> 2 characters. 32 bytes -> 43 characters.
inline std::string scrypt_b64_bytes(const Bytes &in) {
    std::string s;
    for (size_t i = 0; i < in.size(); i += 3) {
        uint32_t v = 0;
        unsigned bits = 0;
        for (size_t k = i; k < in.size() && k < i + 3; k++) { v |= (uint32_t) in[k] << bits; bits += 8; }
        s += scrypt_b64_uint(v, bits);
    }
    return s;
}
// Strict inverse of scrypt_b64_bytes for a known byte count: exact character count, alphabet only, and the unused
// high bits of the last group must be zero.
inline bool scrypt_b64_bytes_decode(const std::string &s, size_t nbytes, Bytes &out) {
    out.clear();
    if (s.size() != (nbytes * 8 + 5) / 6) return false;
    size_t pos = 0;
    for (size_t i = 0; i < nbytes; i += 3) {
        size_t nb = (nbytes - i < 3) ? nbytes - i : 3;
        size_t nc = (nb * 8 + 5) / 6;
        uint32_t v = 0;
        for (size_t c = 0; c < nc; c++) {
            int d = scrypt_b64_value(s[pos++]);
            if (d < 0) return false;
            v |= (uint32_t) d << (6 * c);
        }
        if ((v >> (8 * nb)) != 0) return false;
        for (size_t k = 0; k < nb; k++) out.push_back((uint8_t)(v >> (8 * k)));
    }
    return true;
}

// Parameter limits libsodium applies before computing (escrypt_kdf_nosse / _sse:
// /repo/src/libsodium/crypto_pwhash/scryptsalsa208sha256/nosse/pwhash_scryptsalsa208sha256_nosse.c:246-276, and
// escrypt_gensalt_r, crypto_scrypt-common.c:216): r*p < 2^30, N = 2^N_log2 with 2 <= N <= 2^32-1 (so 1 <= N_log2 <= 31),
// r >= 1, p >= 1. (Further "ENOMEM" size_t overflow checks cannot trigger on 64-bit within these bounds.)
inline bool scrypt_params_ok(uint32_t N_log2, uint32_t r, uint32_t p) {
    return N_log2 >= 1 && N_log2 <= 31 && r >= 1 && p >= 1 && (uint64_t) r * p < (1ull << 30);
}

// The string crypto_pwhash_scryptsalsa208sha256_str() yields when its random 32-byte salt is `salt32_raw`
// (pwhash_scryptsalsa208sha256.c:213-224; escrypt_gensalt_r and escrypt_r in crypto_scrypt-common.c:137-241):
//   setting = "$7$" + 1 char N_log2 + 5 chars r + 5 chars p + 43 chars encoded salt            (57 characters)
//   hash    = scrypt(pw, salt = THE 43 ENCODED SALT CHARACTERS as ASCII bytes, 2^N_log2, r, p, 32)
//             -- escrypt_r never decodes the salt; it feeds the text between the parameters and the last '$' to the KDF
//             (crypto_scrypt-common.c:165-171, 183)
//   result  = setting + "$" + 43 chars encoded hash                                            (101 characters)
// Returns "" if the salt is not 32 bytes, the parameters are outside scrypt_params_ok(), or the oracle's memory cap is hit.
inline std::string scrypt_encode_string_from_saltchars(uint32_t N_log2, uint32_t r, uint32_t p, const std::string &salt_chars, const Bytes &pw) {
    if (!scrypt_params_ok(N_log2, r, p)) return std::string();
    Bytes hash = scrypt(pw, Bytes(salt_chars.begin(), salt_chars.end()), 1ull << N_log2, r, p, 32);
    if (hash.empty()) return std::string();
    std::string s = "$7$";
    s.push_back(SCRYPT_ITOA64[N_log2]);
    s += scrypt_b64_uint(r, 30);
    s += scrypt_b64_uint(p, 30);
    s += salt_chars;
    s += "$";
    s += scrypt_b64_bytes(hash);
    return s;
}
inline std::string scrypt_encode_string(uint32_t N_log2, uint32_t r, uint32_t p, const Bytes &salt32_raw, const Bytes &pw) {
    if (salt32_raw.size() != 32) return std::string();
    return scrypt_encode_string_from_saltchars(N_log2, r, p, scrypt_b64_bytes(salt32_raw), pw);
}
// A syntactically well-formed $7$ string with arbitrary parameter digits and an arbitrary (not computed) hash field: for the
// functions that only decode (needs_rehash).  N_log2 is one digit (0..63), r and p are 30-bit values (five digits each).
inline std::string scrypt_encode_string_raw(uint32_t N_log2, uint32_t r, uint32_t p, const Bytes &salt32_raw, const Bytes &hash32_raw) {
    std::string s = "$7$";
    s.push_back(SCRYPT_ITOA64[N_log2 & 63]);
    s += scrypt_b64_uint(r & 0x3fffffffu, 30);
    s += scrypt_b64_uint(p & 0x3fffffffu, 30);
    s += scrypt_b64_bytes(salt32_raw);
    s += "$";
    s += scrypt_b64_bytes(hash32_raw);
    return s;
}
// Same, starting from (opslimit, memlimit) like the public API.
inline std::string pwhash_scrypt_str(const Bytes &pw, const Bytes &salt32_raw, uint64_t opslimit, size_t memlimit) {
    uint32_t N_log2, r, p;
    scrypt_pickparams(opslimit, memlimit, N_log2, r, p);
    return scrypt_encode_string(N_log2, r, p, salt32_raw, pw);
}

struct ScryptStr {
    bool ok = false;            // well-formed (syntax only)
    uint32_t N_log2 = 0, r = 0, p = 0;
    std::string salt_chars;     // the 43 characters between the parameters and the '$' before the hash: this IS the KDF salt
    Bytes hash;                 // 32 bytes
    bool params_ok = false;     // ok and scrypt_params_ok(N_log2, r, p)
};

// Strict parser for the 101-character strings that crypto_pwhash_scryptsalsa208sha256_str() produces.
//  [LS] = libsodium behaviour, [FMT] = the "$7$" format as produced by the encoder.
//  S1 [LS pwhash_scryptsalsa208sha256.c:253-256] total length is exactly 101 (STRBYTES - 1), no embedded NUL.
//  S2 [LS crypto_scrypt-common.c:115]            prefix "$7$".
//  S3 [LS :120-133]                              1 + 5 + 5 characters of the "./0-9A-Za-z" alphabet: N_log2, r, p (30 bits each,
//                                                 least-significant group first). Every alphabet character is a valid digit, so
//                                                 N_log2 in 0..63 parses; range checking is params_ok.
//  S4 [FMT]                                       43 salt characters from the same alphabet. libsodium itself does NOT validate
//                                                 them: it takes everything up to the LAST '$' of the string as salt, whatever the
//                                                 bytes are (crypto_scrypt-common.c:165-171). With strict_salt = false this parser
//                                                 accepts any 43 bytes there (other than NUL), which is what libsodium can verify.
//  S5 [LS :166 + length arithmetic :172-176]      '$' at offset 57, and no later '$' (guaranteed by S6).
//  S6 [FMT]                                       43 hash characters of the alphabet decoding canonically to 32 bytes (the top two
//                                                 bits of the last character are zero). libsodium never decodes the hash: it
//                                                 re-encodes and compares text, so a non-canonical hash can never verify there either.
//  Not mirrored on purpose: libsodium's character lookup is strchr() on the alphabet, so a NUL byte "decodes" as 64; std::string
//  input with an embedded NUL is rejected here (S1).
inline ScryptStr scrypt_parse_string(const std::string &s, bool strict_salt = true) {
    ScryptStr r;
    if (s.size() != 101 || s.find('\0') != std::string::npos) return r;           // S1
    if (s.compare(0, 3, "$7$") != 0) return r;                                      // S2
    auto uint_at = [&](size_t pos, size_t nchars, uint32_t &v) -> bool {            // S3
        v = 0;
        for (size_t c = 0; c < nchars; c++) {
            int d = scrypt_b64_value(s[pos + c]);
            if (d < 0) return false;
            v |= (uint32_t) d << (6 * c);
        }
        return true;
    };
    if (!uint_at(3, 1, r.N_log2) || !uint_at(4, 5, r.r) || !uint_at(9, 5, r.p)) return r;
    r.salt_chars = s.substr(14, 43);                                                // S4
    if (strict_salt) {
        for (char c : r.salt_chars) if (scrypt_b64_value(c) < 0) return r;
    }
    if (s[57] != '$') return r;                                                     // S5
    if (!scrypt_b64_bytes_decode(s.substr(58, 43), 32, r.hash)) return r;           // S6
    r.ok = true;
    r.params_ok = scrypt_params_ok(r.N_log2, r.r, r.p);
    return r;
}

// crypto_pwhash_scryptsalsa208sha256_str_verify(): recompute the whole string from the embedded setting and compare
// (pwhash_scryptsalsa208sha256.c:244-272). False for malformed strings, parameters outside the limits, cost above the oracle's
// own memory cap, or mismatch.
inline bool scrypt_verify_string(const std::string &s, const Bytes &pw, bool strict_salt = true) {
    ScryptStr ps = scrypt_parse_string(s, strict_salt);
    if (!ps.ok || !ps.params_ok) return false;
    std::string again = scrypt_encode_string_from_saltchars(ps.N_log2, ps.r, ps.p, ps.salt_chars, pw);
    return !again.empty() && again == s;
}

// ---------------------------------------------------------------------------------------------------------
// Self-test
// ---------------------------------------------------------------------------------------------------------
inline int selftest_scrypt() {
    T t("scrypt");
    char name[160];
    // deterministic filler shared with the python generator script: byte i = (seed + 13*i + 7*(i>>8)) mod 256
    auto pat = [](size_t n, unsigned seed) { Bytes b(n); for (size_t i = 0; i < n; i++) b[i] = (uint8_t)(seed + 13 * i + 7 * (i >> 8)); return b; };

    // RFC 7914 section 8: Salsa20/8 core
    t.eqh("rfc7914 s8 salsa20/8",
          scrypt_salsa20_8(from_hex("7e879a214f3ec9867ca940e641718f26baee555b8c61c1b50df846116dcd3b1dee24f319df9b3d8514121e4b5ac5aa3276021d2909c74829edebc68db8b8c25e")),
          "a41f859c6608cc993b81cacb020cef05044b2181a2fd337dfd7b1c6396682f29b4393168e3c9e6bcfe6bc5b7a06d96bae424cc102c91745c24ad673dc7618f81");
    // RFC 7914 section 9: scryptBlockMix, r = 1
    const char *b_in =
        "f7ce0b653d2d72a4108cf5abe912ffdd777616dbbb27a70e8204f3ae2d0f6fad89f68f4811d1e87bcc3bd7400a9ffd29094f0184639574f39ae5a1315217bcd7"
        "894991447213bb226c25b54da86370fbcd984380374666bb8ffcb5bf40c254b067d27c51ce4ad5fed829c90b505a571b7f4d1cad6a523cda770e67bceaaf7e89";
    t.eqh("rfc7914 s9 blockmix", scrypt_blockmix(from_hex(b_in), 1),
          "a41f859c6608cc993b81cacb020cef05044b2181a2fd337dfd7b1c6396682f29b4393168e3c9e6bcfe6bc5b7a06d96bae424cc102c91745c24ad673dc7618f81"
          "20edc975323881a80540f64c162dcd3c21077cfe5f8d5fe2b1a4168f953678b77d3b3d803b60e4ab920996e59b4d53b65d2a225877d5edf5842cb9f14eefe425");
    // RFC 7914 section 10: scryptROMix, r = 1, N = 16
    t.eqh("rfc7914 s10 romix", scrypt_romix(from_hex(b_in), 16, 1),
          "79ccc193629debca047f0b70604bf6b62ce3dd4a9626e355fafc6198e6ea2b46d58413673b99b029d665c357601fb426a0b2f4bba200ee9f0a43d19b571a9c71"
          "ef1142e65d5a266fddca832ce59faa7cac0b9cf1be2bffca300d01ee387619c4ae12fd4438f203a0e4e1c47ec314861f4e9087cb33396a6873e8f9d2539a4b8e");
    // RFC 7914 section 11: PBKDF2-HMAC-SHA-256 second vector (the first one is in sha2.hpp), c = 80000 is too slow to keep.
    // RFC 7914 section 12: scrypt vectors 1-3 (also in /repo/test/default/pwhash_scrypt_ll.exp). Vector 4 (N = 2^20, 1 GiB) is skipped.
    t.eqh("rfc7914 s12 #1", scrypt(str(""), str(""), 16, 1, 1, 64),
          "77d6576238657b203b19ca42c18a0497f16b4844e3074ae8dfdffa3fede21442fcd0069ded0948f8326a753a0fc81f17e8d3e0fb2e0d3628cf35e20c38d18906");
    t.eqh("rfc7914 s12 #2", scrypt(str("password"), str("NaCl"), 1024, 8, 16, 64),
          "fdbabe1c9d3472007856e7190d01e9fe7c6ad7cbc8237830e77376634b3731622eaf30d92e22a3886ff109279d9830dac727afb94a83ee6d8360cbdfa2cc0640");
    t.eqh("rfc7914 s12 #3", scrypt(str("pleaseletmein"), str("SodiumChloride"), 16384, 8, 1, 64),
          "7023bdcb3afd7348461c06cd81fd38ebfda8fbba904f8e3ea9b543f6545da1f2d5432955613f0fcf62d49705242a9af9e61e85dc0d651e40dfcf017b45575887");

    // Development-time KATs generated with python3 hashlib.scrypt (OpenSSL EVP_PBE_scrypt):
    //   hashlib.scrypt(pat(pwlen,8), salt=pat(saltlen,9), n=N, r=r, p=p, dklen=dklen)
    // with pat(n, seed) = bytes((seed + 13*i + 7*(i>>8)) & 0xff for i in range(n)), the lambda above.
    // Columns: N, r, p, pwlen, saltlen, dklen, output.
    {
        static const struct { uint64_t N; uint32_t r, p; int pwlen, saltlen, dklen; const char *hex; } kat[] = {
            {    2, 1,  1,   0,   0,   1, "fa" },
            {    2, 1,  2,   1,   4,  16, "981dd975c9c3bee647808aa6f3edd9c6" },
            {    2, 1,  3,   8,  32,  32, "d938b6874a99bf6da686fd3e0997f568cc1eb5085014905bfe2631cb40039a0b" },
            {    2, 2,  1,  64,  43,  33, "48019bf588c2d441aa03cc840a2639e54c68b11e8d2da74dea1fd7453f8922b52e" },
            {    2, 2,  2,  65, 100,  64, "43a9a7d3f4f8c73b78ecc0d686adcf785f2abca68c3641e2783e06a9162e50cb5fd2bef8f7e982eeefe2453147224e70769188f2309af0b8bb124c3da1f1f250" },
            {    2, 2,  3, 200,   0, 100, "e6a39eb28c13088a3eb826d2da1dc09de76fd2ef70c121b4e57946fe5f06eb862b5d0ba93d956a24112db1acbc450123bb480bdfff6eb8b6ae273a12404ac82c3df730143f7650aa8fe1f84cd86b106ea0ac22263dbb6f593d289c4affe1b250ec91eb54" },
            {    2, 3,  1,   0,   4,   1, "8c" },
            {    2, 3,  2,   1,  32,  16, "0a65a56fae47dce56d2180e4d41d9dbf" },
            {    2, 3,  3,   8,  43,  32, "b7da259cc843283cd620cf826c38313396f19f73730bd1198f139b5166a44f0d" },
            {    2, 8,  1,  64, 100,  33, "8db996018c4ecaba94f67494dbde49c030753b7d401b6b7d58e98dcdeee258c0eb" },
            {    2, 8,  2,  65,   0,  64, "c99cc70dcbe8fbe6f39920ce5bb441b174d225575deac790ed49dbea7ee09cafd6ab757b2e9b386233b1fd9467fec6f29ac58c653f0c11e8e79a9279d58590cf" },
            {    2, 8,  3, 200,   4, 100, "36fc395b4d77a864198f98f388ceb6180c3507442f4da7abd64f98292a54c238b442c491f14c596b1b26bf56a3496e373dccd2044ed1c53b4a3b054c73fae04cb1332447452cacbd74afbd67b054eb4bc893a28c0583fada7180dd7e5627a01e3f96cd5b" },
            {    4, 1,  1,   0,  32,   1, "cc" },
            {    4, 1,  2,   1,  43,  16, "b468030a2da63b98d7aecddc191a5230" },
            {    4, 1,  3,   8, 100,  32, "77692890f2ff05fcbaf49b9cce462ba211b2c3487946abb779a48e34106f0634" },
            {    4, 2,  1,  64,   0,  33, "744607d29541aeed011a5b5535d11eb09db06d3f0c2174b7cdc92387f30d0dafdd" },
            {    4, 2,  2,  65,   4,  64, "967d986c905840283a1418142973bb544ff3c12a085ff35be507b9433ee3659cf96d80eaf7fdbd9a1294f06ecaadbede12c5c60a7a3a08a9b0c13c052bd6d4af" },
            {    4, 2,  3, 200,  32, 100, "bdcc86188997174eeac0d744ab3cab734d2a13e8fee99bd2999a6066f5c0484754f90e445d0d390f1675fc31ff965bc93214aed85194a12772d2f4b928398cb336b5787ffa5f3431e98a3d003308898265473ab9f702a32115c16b6d70a9f050bd19a9db" },
            {    4, 3,  1,   0,  43,   1, "fc" },
            {    4, 3,  2,   1, 100,  16, "358682aa8764645a789d000efa1371fd" },
            {    4, 3,  3,   8,   0,  32, "ac199f0874ac34afdfee17c0d84039ce5fac74c50a8d5024fac6cff0a2fb126e" },
            {    4, 8,  1,  64,   4,  33, "27f0e3e01508290d74eb5502ca1be634fd32a3db34d76f62321cea934968e70e77" },
            {    4, 8,  2,  65,  32,  64, "64f53060cce08e31d6e1830dd1ca68dc7bccedfcdc318af4a719697e6bdf4d8696efa97f068234abfd4b78beee5a7995deef98de8a7dacd99058e0e78f32ed56" },
            {    4, 8,  3, 200,  43, 100, "d20238ead504740712c01389b40321f8f4e213ec3f92f6f085975b0f07ad69099217a339b848d69280255369c5f0fa8b4e503da65b99609e1cd80b424eac1ffd1f4f40c78a7b16f4ae1b7083e8d8be9d53c33382e0e1200b0a510ec73c2bec46a6a4663c" },
            {   16, 1,  1,   0, 100,   1, "81" },
            {   16, 1,  2,   1,   0,  16, "c25697156602a3ba6e7a4967374a9e51" },
            {   16, 1,  3,   8,   4,  32, "2614f00839c7b86b595bd74b1450219af493f4b3d22055cc8d6b5e6a7bee3572" },
            {   16, 2,  1,  64,  32,  33, "6e8eb2714efca4fbe2ee63dadf0b045c644bd109263f07ee5dd830c5e6c36b5ca9" },
            {   16, 2,  2,  65,  43,  64, "c1ca2e0cabf45f0f5d7c6fc0a4d464d70cc80cdc3a2e5c2e6f26e0cca5de636402042e413f98e9a0a66cba52a3b7f2badc9e7903756b8d5c1bd3702d218fc073" },
            {   16, 2,  3, 200, 100, 100, "e8a867cd35abde5e9fae63e6ddfc1a87bd2491fb42d4b0e1ee3607bae6d04afc7f66e5b799f562729590a3379b62c246a4526ac37abc194206feb9d387ec27f10cdb77870928646032926b9e969f2130c5ee6224f77b0581e5bd0564b66a4854e19ecd9d" },
            {   16, 3,  1,   0,   0,   1, "dc" },
            {   16, 3,  2,   1,   4,  16, "6e894912a82e2a1801177ef48743b45e" },
            {   16, 3,  3,   8,  32,  32, "0d06cf0458cbfa1e3adaea1e0a88381981d8264bb9dcb008eb648375be6a2b15" },
            {   16, 8,  1,  64,  43,  33, "214fdf06303b89217186ffe9c3bd8c199f7054dfc2a798d761729fce01bf919479" },
            {   16, 8,  2,  65, 100,  64, "fc34d87fd18e82113c3ecd486f21008e66cb0b906741970dc1f80adb98172c1f4740683e0563a083608cff08eaf35c8640ad01b685b62975d0533b440c221ccd" },
            {   16, 8,  3, 200,   0, 100, "b7bb945613677e6b97f0afb92415b643b42261e7487d0055ff74c595887287595faa72fb4550d0fdf1aec82dc35ae1fb3d1a068c40975f47ef064312881cc22eaee7a4277758976cd5070d3f0473cd2e954c76042f2c367e8a06dff6bbc6e36e2c2103f8" },
            {   64, 1,  1,   0,   4,   1, "69" },
            {   64, 1,  2,   1,  32,  16, "2700b46c46576ae9329ddd676b392d5e" },
            {   64, 1,  3,   8,  43,  32, "eb5ed5dc54aaf4eec1c3c61b7f071c3e3d85b3febdb9c310aa96214b029d8fef" },
            {   64, 2,  1,  64, 100,  33, "f81e1908cddb2dbcd78f7f30a94bb2491e38d8f1db2bdd16d602d4a2fe223965b0" },
            {   64, 2,  2,  65,   0,  64, "5eaa6fac6ad06a4d5186e4d8241d2f9b24293768b28714844df3ba42353f8e2eee975984a7d9f5cfaf1d5f26f60f1c765a2e8f7bb9221d5eace020daf2602c0f" },
            {   64, 2,  3, 200,   4, 100, "18503bae68dbff4f131bbddf4789436f117873e33b764c510585656c27eceb7d4abc9a6af194f879aab335104aa82ec99883b6fe1965a0d82a8ce55d25ba8db5532b6b301e4b45394d37f46fbb8368d0d82ca5c466e4d0761de0250d0cbf4e3a932a750f" },
            {   64, 3,  1,   0,  32,   1, "e6" },
            {   64, 3,  2,   1,  43,  16, "6ccf7d1824e24fa34c8d000102eb40a1" },
            {   64, 3,  3,   8, 100,  32, "3692956138dc5edf4097fb56623e8978d46e7d89c9dfd0045d8041d1530cedb4" },
            {   64, 8,  1,  64,   0,  33, "2ed40a6d5c5f331260151586984eeead4ebb1c982230249e531c6463d5920d7dbc" },
            {   64, 8,  2,  65,   4,  64, "9e22a02553d162684e2c74711b6b62470e6ba61e7468e3200ee5fced5bf910ea26e58fc216ebf254644cd43ce7bd2a2f35a081aa3fdb9083be37ce16c72a6b49" },
            {   64, 8,  3, 200,  32, 100, "3b695188ed6db0c0fb039db7180f7a2de9c90a1b261aa67f6afbe4fe49899361fd5e66aa671995195fc81976f649e43229a29849a20dd742e23f79bb466c8f9670a5a548b0de81db8800dae0913990869511fe7a500115d6e9198e3ab7efe8853b95d417" },
            { 1024, 1,  1,   0,  43,   1, "5d" },
            { 1024, 1,  3,   1, 100,  16, "9087a4f9d431738f5bd6d0dc39f8aa01" },
            { 1024, 2,  1,   8,   0,  32, "5390c94a69e1dd4a8b6c6be2c58bcc0f857849d4542490a26f86ad65f20fc0a2" },
            { 1024, 2,  2,  64,   4,  33, "9111c72e106eb89a131a785c3c15ecb1bd7a7a19ad128c68c3f9a35319c4be09aa" },
            { 1024, 3,  1,  65,  32,  64, "4598c1a950623da9b6718d5de4f86f0a4d83d488c1bcecf8c40093aa928b357d3f04b3139071448cde79b31217ef695803524f2f818ccc3f56e2fd6a49457d3f" },
            { 1024, 8,  1, 200,  43, 100, "e84a95b4cb1a9a9e876259ac289ad3da67cbee5deb626ef49d3ac0de2dc2caad6ca3f72acbdc5a9c20ff272e06350f5f2f21a54e1badb0ee885307b7899ca274a949e631849729f574f165b5a409db1b4cd212764111ad5c9dbfb0ed19907b822d6770a1" },
            { 4096, 1,  1,   0, 100,   1, "f4" },
            { 4096, 2,  1,   1,   0,  16, "7de1c7e1b93132544201c9fd9c26c4a6" },
            { 4096, 3,  2,   8,   4,  32, "0f781c42f64f0c21c07885809c276ac91cc81ef9d254e22cf66471c4e7151103" },
            { 4096, 8,  1,  64,  32,  33, "047b7f7964f4f048a6ff383c7fafe06e21855d4ef9b2191b1f5868f0c7b529cd3e" },
            {    2, 8,  3,   0,   0, 100, "30896678437802f50efdf91102bf71f03e31c53f40d533879c9edc63d4a0e3ca14becbfed8c03796a4607567e7289051d8a2f910ff3477d9f4df2d135435aac8deaa6b112a3ebcead7e6ec7059cc8bfc122fa68f67495ff8f8259e4b75c71174f6fd9901" },
            {    2, 1,  1,   0,   0,   1, "fa" },
            {   16, 8, 16,   8,  32,  32, "e69d158197e0f87730b68d4cf0588213d517ab3aa4de102f2e6cb0846b41a5c5" },
        };
        for (size_t k = 0; k < sizeof kat / sizeof kat[0]; k++) {
            snprintf(name, sizeof name, "hashlib kat N=%llu r=%u p=%u pw=%d salt=%d dklen=%d", (unsigned long long) kat[k].N, kat[k].r, kat[k].p, kat[k].pwlen, kat[k].saltlen, kat[k].dklen);
            t.eqh(name, scrypt(pat((size_t) kat[k].pwlen, 8), pat((size_t) kat[k].saltlen, 9), kat[k].N, kat[k].r, kat[k].p, (size_t) kat[k].dklen), kat[k].hex);
        }
    }

    // pickparams: values worked out by hand from the rules above, plus the libsodium named limits
    {
        static const struct { uint64_t ops; uint64_t mem; uint32_t N_log2, r, p; } pp[] = {
            { 524288, 16777216, 14, 8, 1 },              // OPSLIMIT/MEMLIMIT_INTERACTIVE: ops == mem/32 -> memory-bound: maxN=16384, maxrp=131072/16384=8
            { 33554432, 1073741824, 20, 8, 1 },          // OPSLIMIT/MEMLIMIT_SENSITIVE
            { 32768, 16777216, 10, 8, 1 },               // OPSLIMIT_MIN with plenty of memory: CPU-bound, maxN = 1024
            { 0, 16777216, 10, 8, 1 },                   // opslimit below the floor behaves like 32768
            { 64, 1397645, 10, 8, 1 },                   // pwhash_scrypt.c tv2[0]
            { 481326, 7256678, 12, 8, 3 },               // pwhash_scrypt.c tv[0]: maxN = 7086 -> 4096; maxrp = 120331/4096 = 29 -> p = 3
            { 535778, 7849083, 12, 8, 4 },               // tv[1]: maxN = 7665 -> 4096; maxrp = 133944/4096 = 32 -> p = 4
            { 1000000, 10000000, 13, 8, 3 },             // OPSLIMIT/MEMLIMIT of the str tests: maxN = 9765 -> 8192; maxrp = 250000/8192 = 30 -> p = 3
            { 32768, 0, 1, 8, 512 },                     // no memory at all: N = 2, maxrp = 8192/2 = 4096
            { 32768, 4096, 2, 8, 256 },                  // maxN = 4 -> N_log2 = 2
            { 1ull << 40, 1ull << 20, 10, 8, 33554432 }, // maxN = 1024; maxrp = 2^38/2^10 = 2^28 -> p = 2^25
            { ~0ull, 2048, 1, 8, 134217727 },            // maxrp clamps to 2^30-1 -> p = (2^30-1)/8
        };
        for (size_t k = 0; k < sizeof pp / sizeof pp[0]; k++) {
            uint32_t nl = 0, r = 0, p = 0;
            scrypt_pickparams(pp[k].ops, (size_t) pp[k].mem, nl, r, p);
            snprintf(name, sizeof name, "pickparams ops=%llu mem=%llu -> got N_log2=%u r=%u p=%u", (unsigned long long) pp[k].ops, (unsigned long long) pp[k].mem, nl, r, p);
            t.ok(name, nl == pp[k].N_log2 && r == pp[k].r && p == pp[k].p);
        }
    }

    // libsodium vectors for crypto_pwhash_scryptsalsa208sha256(): /repo/test/default/pwhash_scrypt.c tv()/tv2() with
    // outputs from pwhash_scrypt.exp. Only tv2[0] (CPU-bound branch of pickparams) and tv[0] (memory-bound branch, p = 3)
    // are kept to bound the self-test time; all 11 were checked once at development time.
    {
        static const struct { const char *pw_hex, *salt_hex; size_t outlen; uint64_t ops; size_t mem; const char *out_hex; } tv[] = {
            { "a347ae92bce9f80f6f595a4480fc9c2fe7e7d7148d371e9487d75f5c23008ffae065577a928febd9b1973a5a95073acdbeb6a030cfc0d79caa2dc5cd011cef02c08da232d76d52dfbca38ca8dcbd665b17d1665f7cf5fe59772ec909733b24de97d6f58d220b20c60d7c07ec1fd93c52c31020300c6c1facd77937a597c7a6",
              "5541fbc995d5c197ba290346d2c559dedf405cf97e5f95482143202f9e74f5c2", 155, 64, 1397645,
              "d54916748076b9d9f72198c8fbef563462dc8c706e1ad38abd1fac570016721acd0a7659ab49a47299a996b43597690c0c947143069f35d83e606273dbf2d622321393949b8ed5a68315362c4f84804384d05e0e0e86bc00e3641233f9f975ab46b60ba185c5e5fe47f78efd207e69fd8f6390730828b93b9b3763ea1283caa03bc36726763715de811915681dd214524f5ad4dd386608cac6c7f2" },   // tv #10 -> N_log2=10 r=8 p=1
            { "a347ae92bce9f80f6f595a4480fc9c2fe7e7d7148d371e9487d75f5c23008ffae065577a928febd9b1973a5a95073acdbeb6a030cfc0d79caa2dc5cd011cef02c08da232d76d52dfbca38ca8dcbd665b17d1665f7cf5fe59772ec909733b24de97d6f58d220b20c60d7c07ec1fd93c52c31020300c6c1facd77937a597c7a6",
              "5541fbc995d5c197ba290346d2c559dedf405cf97e5f95482143202f9e74f5c2", 155, 481326, 7256678,
              "8d40f5f8c6a1791204f03e19a98cd74f918b6e331b39cfc2415e5014d7738b7bb0a83551fb14a035e07fdd4dc0c60c1a6822ac253918979f6324ff0c87cba75d3b91f88f41ca5414a0f152bdc4d636f42ab2250afd058c19ec31a3374d1bd7133289bf21513ff67cbf8482e626aee9864c58fd05f9ea02e508a10182b7d838157119866f072004987ef6c56683ed207705923921af9d76444a331a" },   // tv #0 -> N_log2=12 r=8 p=3
        };
        for (size_t k = 0; k < sizeof tv / sizeof tv[0]; k++) {
            snprintf(name, sizeof name, "libsodium tv ops=%llu mem=%zu", (unsigned long long) tv[k].ops, tv[k].mem);
            t.eqh(name, pwhash_scrypt(from_hex(tv[k].pw_hex), from_hex(tv[k].salt_hex), tv[k].ops, tv[k].mem, tv[k].outlen), tv[k].out_hex);
        }
    }

    // "$7$" strings: /repo/test/default/pwhash_scrypt.c tv3(); pwhash_scrypt.exp says entries 0..9 verify and 10..32 do not.
    // To bound the self-test time only the entries that cost at most N*r*p = 100000 are kept: of the valid ones [2] and [9];
    // dropped are [0],[1],[3]..[8], [20] (valid string, empty password) and [22] (r mutated to 35: still hashable, 4096*35*3).
    // All 33 entries were checked once at development time. The remaining invalid ones are cheap or fail before hashing.
    {
        static const struct { int idx; const char *pw; const char *s; bool want; } sv[] = {
            {  2, "Py >e.5b+tLo@rL`dC2k@eJ&4eVl!W=JJ4+k&mAt@gt',FS1JjqKW3aq21:]^kna`mde7kVkN5NrpKUptu)@4*b&?BE_sJMG1=&@`3GBCV]Wg7xwgo7x3El",
              "$7$96..../....f6bEusKt79kK4wdYN0ki2nw4bJQ7P3rN6k3BSigsK/D$Dsvuw7vXj5xijmrb/NOhdgoyK/OiSIYv88cEtl9Cik7", true },
            {  9, "Y0!?iQa9M%5ekffW(`",
              "$7$A6....1....TrXs5Zk6s8sWHpQgWDIXTR8kUU3s6Jc3s.DtdS8M2i4$a4ik5hGDN7foMuHOW.cp.CtX01UyCeO0.JAG.AHPpx5", true },
            { 10, "Y0!?iQa9M%5ekffW(`",
              "$7$A6....1....$TrXs5Zk6s8sWHpQgWDIXTR8kUU3s6Jc3s.DtdS8M2i4a4ik5hGDN7foMuHOW.cp.CtX01UyCeO0.JAG.AHPpx5", false },
            { 11, "Y0!?iQa9M%5ekffW(`",
              "$7$.6....1....TrXs5Zk6s8sWHpQgWDIXTR8kUU3s6Jc3s.DtdS8M2i4$a4ik5hGDN7foMuHOW.cp.CtX01UyCeO0.JAG.AHPpx5", false },
            { 12, "Y0!?iQa9M%5ekffW(`",
              "$7$A.....1....TrXs5Zk6s8sWHpQgWDIXTR8kUU3s6Jc3s.DtdS8M2i4$a4ik5hGDN7foMuHOW.cp.CtX01UyCeO0.JAG.AHPpx5", false },
            { 13, "Y0!?iQa9M%5ekffW(`",
              "$7$A6.........TrXs5Zk6s8sWHpQgWDIXTR8kUU3s6Jc3s.DtdS8M2i4$a4ik5hGDN7foMuHOW.cp.CtX01UyCeO0.JAG.AHPpx5", false },
            { 14, "Y0!?iQa9M%5ekffW(`",
              "$7$A6....1....TrXs5Zk6s8sWHpQgWDIXTR8kUU3s6Jc3s.DtdS8M2i44269$a4ik5hGDN7foMuHOW.cp.CtX01UyCeO0.JAG.AH", false },
            { 15, "Y0!?iQa9M%5ekffW(`",
              "$7$A6....1....TrXs5Zk6s8sWHpQgWDIXTR8kUU3s6Jc3s.DtdS8M2i4$a4ik5hGDN7foMuHOW.cp.CtX01UyCeO0.JAG.AHPpx54269", false },
            { 16, "Y0!?iQa9M%5ekffW(`",
              "$7^A6....1....TrXs5Zk6s8sWHpQgWDIXTR8kUU3s6Jc3s.DtdS8M2i4$a4ik5hGDN7foMuHOW.cp.CtX01UyCeO0.JAG.AHPpx5", false },
            { 17, "Y0!?iQa9M%5ekffW(`",
              "$7$!6....1....TrXs5Zk6s8sWHpQgWDIXTR8kUU3s6Jc3s.DtdS8M2i4$a4ik5hGDN7foMuHOW.cp.CtX01UyCeO0.JAG.AHPpx5", false },
            { 18, "Y0!?iQa9M%5ekffW(`",
              "$7$A!....1....TrXs5Zk6s8sWHpQgWDIXTR8kUU3s6Jc3s.DtdS8M2i4$a4ik5hGDN7foMuHOW.cp.CtX01UyCeO0.JAG.AHPpx5", false },
            { 19, "Y0!?iQa9M%5ekffW(`",
              "$7$A6....!....TrXs5Zk6s8sWHpQgWDIXTR8kUU3s6Jc3s.DtdS8M2i4$a4ik5hGDN7foMuHOW.cp.CtX01UyCeO0.JAG.AHPpx5", false },
            { 21, "Y0!?iQa9M%5ekffW(`",
              "$7fA6....1....TrXs5Zk6s8sWHpQgWDIXTR8kUU3s6Jc3s.DtdS8M2i4#a4ik5hGDN7foMuHOW.cp.CtX01UyCeO0.JAG.AHPpx5", false },
            { 23, "Y0!?iQa9M%5ekffW(`",
              "$7$A6....1!...TrXs5Zk6s8sWHpQgWDIXTR8kUU3s6Jc3s.DtdS8M2i4$a4ik5hGDN7foMuHOW.cp.CtX01UyCeO0.JAG.AHPpx5", false },
            { 24, "Y0!?iQa9M%5ekffW(`",
              "$7$A6....1", false },
            { 25, "Y0!?iQa9M%5ekffW(`",
              "$7$", false },
            { 26, "Y0!?iQa9M%5ekffW(`",
              "", false },
            { 27, "Y0!?iQa9M%5ekffW(`",
              "$7$A6....1....TrXs5Zk6s8sWHpQgWDIXTR8kUU3s6Jc3s.DtdS8M2i4$", false },
            { 28, "test",
              "$7$.6..../.....lgPchkGHqbeONR/xtuXyjCrt9kUSg6NlKFQO0OSxo/$.DbajbPYH9T7sg3fOtcgxvJzzfIgJBIxMkeQ8b24YQ.", false },
            { 29, "test",
              "$7$z6..../.....lgPchkGHqbeONR/xtuXyjCrt9kUSg6NlKFQO0OSxo/$.DbajbPYH9T7sg3fOtcgxvJzzfIgJBIxMkeQ8b24YQ.", false },
            { 30, "test",
              "$7$8zzzzzzzzzz.lgPchkGHqbeONR/xtuXyjCrt9kUSg6NlKFQO0OSxo/$.DbajbPYH9T7sg3fOtcgxvJzzfIgJBIxMkeQ8b24YQ.", false },
            { 31, "test",
              "$7$8.....zzzzz.lgPchkGHqbeONR/xtuXyjCrt9kUSg6NlKFQO0OSxo/$.DbajbPYH9T7sg3fOtcgxvJzzfIgJBIxMkeQ8b24YQ.", false },
            { 32, "test",
              "$7$86..../..../lgPchkGHqbeONR/xtuXyjCrt9kUSg6NlKFQO0OSxo/$.DbajbPYH9T7sg3fOtcgxvJzzfIgJBIxMkeQ8b24YQ.", false },
        };
        for (size_t k = 0; k < sizeof sv / sizeof sv[0]; k++) {
            snprintf(name, sizeof name, "libsodium $7$ vector [%d] strict", sv[k].idx);
            t.ok(name, scrypt_verify_string(sv[k].s, str(sv[k].pw)) == sv[k].want);
            if (!scrypt_parse_string(sv[k].s).ok) {   // the salt-lenient reading can only differ where the strict parse fails
                snprintf(name, sizeof name, "libsodium $7$ vector [%d] lenient salt", sv[k].idx);
                t.ok(name, scrypt_verify_string(sv[k].s, str(sv[k].pw), false) == sv[k].want);
            }
        }
    }

    // encoder / parser
    {
        // hand-checked encodings: value 8 -> "6....", 1 -> "/....", 2^30-1 -> "zzzzz"; N_log2 14 -> 'C'
        t.ok("enc30(8)", scrypt_b64_uint(8, 30) == "6....");
        t.ok("enc30(1)", scrypt_b64_uint(1, 30) == "/....");
        t.ok("enc30(max)", scrypt_b64_uint(0x3fffffff, 30) == "zzzzz");
        t.ok("enc30(64)", scrypt_b64_uint(64, 30) == "./...");
        // three bytes 0x01 0x02 0x03 -> 24-bit LE 0x030201: groups 1, 8, 48, 0 -> "/6k."
        t.ok("bytes 010203", scrypt_b64_bytes(from_hex("010203")) == "/6k.");
        t.ok("bytes ff", scrypt_b64_bytes(from_hex("ff")) == "z1");
        t.ok("bytes ffff", scrypt_b64_bytes(from_hex("ffff")) == "zzD");
        Bytes salt = pat(32, 10), pw = str("correct horse");
        std::string s = scrypt_encode_string(4, 8, 1, salt, pw);
        t.ok("encode length 101", s.size() == 101);
        t.ok("encode prefix", s.compare(0, 14, "$7$26..../....") == 0 && s[57] == '$');
        ScryptStr ps = scrypt_parse_string(s);
        t.ok("parse roundtrip", ps.ok && ps.params_ok && ps.N_log2 == 4 && ps.r == 8 && ps.p == 1 && ps.salt_chars == scrypt_b64_bytes(salt));
        t.eq("hash uses the encoded salt characters as salt", ps.hash, scrypt(pw, str(ps.salt_chars.c_str()), 16, 8, 1, 32));
        t.ok("hash does not use the raw salt", ps.hash != scrypt(pw, salt, 16, 8, 1, 32));
        t.ok("verify", scrypt_verify_string(s, pw));
        t.ok("verify wrong password", !scrypt_verify_string(s, str("correct horsf")));
        {   // pwhash_scrypt_str goes through pickparams: (32768, 65536) -> maxN = 64 -> N_log2 6, r 8; maxrp = 8192/64 = 128 -> p 16
            std::string s2 = pwhash_scrypt_str(pw, salt, 32768, 65536);
            ScryptStr p2 = scrypt_parse_string(s2);
            t.ok("pwhash_scrypt_str", p2.ok && p2.N_log2 == 6 && p2.r == 8 && p2.p == 16 && scrypt_verify_string(s2, pw));
        }
        std::string bad;
        bad = s; bad[100] = 'z';                     t.ok("non-canonical last hash char", !scrypt_parse_string(bad).ok);
        bad = s; bad[57] = '.';                      t.ok("no $ at 57", !scrypt_parse_string(bad).ok);
        bad = s; bad[20] = '$';                      t.ok("$ inside salt: strict rejects", !scrypt_parse_string(bad).ok);
        bad = s; bad[20] = '!';                      t.ok("! inside salt: strict rejects", !scrypt_parse_string(bad).ok);
        bad = s; bad[20] = '!';                      t.ok("! inside salt: lenient accepts", scrypt_parse_string(bad, false).ok);
        bad = s; bad[70] = '!';                      t.ok("! inside hash", !scrypt_parse_string(bad, false).ok);
        bad = s; bad[1] = '8';                       t.ok("$8$", !scrypt_parse_string(bad).ok);
        bad = s + ".";                               t.ok("102 chars", !scrypt_parse_string(bad).ok);
        bad = s.substr(0, 100);                      t.ok("100 chars", !scrypt_parse_string(bad).ok);
        bad = s; bad[50] = '\0';                     t.ok("embedded NUL", !scrypt_parse_string(bad, false).ok);
        bad = s; bad[3] = '.';                       t.ok("N_log2 = 0: ok, not params_ok", scrypt_parse_string(bad).ok && !scrypt_parse_string(bad).params_ok && !scrypt_verify_string(bad, pw));
        bad = s; bad[3] = 'U';                       t.ok("N_log2 = 32: ok, not params_ok", scrypt_parse_string(bad).ok && scrypt_parse_string(bad).N_log2 == 32 && !scrypt_parse_string(bad).params_ok);
        bad = s; bad[4] = '.';                       t.ok("r = 0: not params_ok", scrypt_parse_string(bad).ok && !scrypt_parse_string(bad).params_ok);
        {   // a string over a salt with a foreign character verifies under the lenient reading only
            std::string sc = scrypt_b64_bytes(salt);
            sc[5] = '!';
            std::string s3 = scrypt_encode_string_from_saltchars(4, 8, 1, sc, pw);
            t.ok("foreign salt char: lenient verifies", scrypt_verify_string(s3, pw, false));
            t.ok("foreign salt char: strict rejects", !scrypt_verify_string(s3, pw, true));
        }
        t.ok("encode: bad salt length", scrypt_encode_string(4, 8, 1, Bytes(31, 0), pw).empty());
        t.ok("encode: N_log2 0", scrypt_encode_string(0, 8, 1, salt, pw).empty());
        t.ok("encode: r*p too large", scrypt_encode_string(4, 1u << 15, 1u << 15, salt, pw).empty());
    }

    // invalid parameters never abort
    t.ok("N=0", scrypt(Bytes(), Bytes(), 0, 1, 1, 32).empty());
    t.ok("N=1", scrypt(Bytes(), Bytes(), 1, 1, 1, 32).empty());
    t.ok("N=3", scrypt(Bytes(), Bytes(), 3, 1, 1, 32).empty());
    t.ok("r=0", scrypt(Bytes(), Bytes(), 16, 0, 1, 32).empty());
    t.ok("p=0", scrypt(Bytes(), Bytes(), 16, 1, 0, 32).empty());
    t.ok("above memory cap", scrypt(Bytes(), Bytes(), 1ull << 40, 8, 1, 32).empty());
    t.ok("N=2^63", scrypt(Bytes(), Bytes(), 1ull << 63, 8, 1, 32).empty());
    return t.fails;
}

}  // namespace ref
