// ref/x25519.hpp -- X25519 exactly as the pseudocode of RFC 7748 section 5, on top of the U / fp_* integers.
#pragma once
#include <utility>
#include "bigint.hpp"

namespace ref {

inline bool is_all_zero(const Bytes &b) {
    for (uint8_t v : b) if (v) return false;
    return true;
}

// RFC 7748 section 5, decodeScalar25519: clear bits 0,1,2 and 255, set bit 254.
inline Bytes x25519_clamp(const Bytes &k32) {
    Bytes k = k32;
    if (k.size() != 32) return k;
    k[0] &= 248;
    k[31] &= 127;
    k[31] |= 64;
    return k;
}

// The Montgomery ladder of RFC 7748 section 5 for an arbitrary (already decoded) scalar k < 2^255 and u-coordinate.
inline U x25519_ladder(const U &k, const U &u) {
    const U a24(121665);
    U x_1 = fp_red(u), x_2(1), z_2(0), x_3 = fp_red(u), z_3(1);
    bool swap = false;
    for (int t = 254; t >= 0; t--) {
        bool k_t = u_bit(k, t);
        swap ^= k_t;
        if (swap) { std::swap(x_2, x_3); std::swap(z_2, z_3); }  // cswap
        swap = k_t;

        U A = fp_add(x_2, z_2);
        U AA = fp_sq(A);
        U B = fp_sub(x_2, z_2);
        U BB = fp_sq(B);
        U E = fp_sub(AA, BB);
        U C = fp_add(x_3, z_3);
        U D = fp_sub(x_3, z_3);
        U DA = fp_mul(D, A);
        U CB = fp_mul(C, B);
        x_3 = fp_sq(fp_add(DA, CB));
        z_3 = fp_mul(x_1, fp_sq(fp_sub(DA, CB)));
        x_2 = fp_mul(AA, BB);
        z_2 = fp_mul(E, fp_add(AA, fp_mul(a24, E)));
    }
    if (swap) { std::swap(x_2, x_3); std::swap(z_2, z_3); }
    return fp_mul(x_2, fp_inv(z_2));  // x_2 * z_2^(p-2); 0 when z_2 == 0
}

// X25519(k, u). The scalar is clamped; bit 255 of u is masked; a non-canonical u (2^255-19 <= u < 2^255) is accepted
// and reduced mod p, as required by RFC 7748 section 5. Returns an empty string if an input is not 32 bytes long.
inline Bytes x25519(const Bytes &scalar32, const Bytes &u32) {
    if (scalar32.size() != 32 || u32.size() != 32) return Bytes();
    U k = u_from_le(x25519_clamp(scalar32));
    Bytes ub = u32;
    ub[31] &= 127;
    U u = fp_red(u_from_le(ub));
    return u_to_le(x25519_ladder(k, u), 32);
}

// X25519(k, 9)
inline Bytes x25519_base(const Bytes &scalar32) {
    Bytes nine(32, 0);
    nine[0] = 9;
    return x25519(scalar32, nine);
}

}  // namespace ref
