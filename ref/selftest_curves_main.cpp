// ref/selftest_curves_main.cpp -- runs the curve reference-model self-test. `--bench` additionally prints timings.
#include <chrono>
#include <cstdio>
#include <cstring>
#include "selftest_curves.hpp"

using namespace ref;

template <class F> static double us_per_op(int iters, F f) {
    auto t0 = std::chrono::steady_clock::now();
    for (int i = 0; i < iters; i++) f();
    auto t1 = std::chrono::steady_clock::now();
    return std::chrono::duration<double, std::micro>(t1 - t0).count() / iters;
}

static void bench() {
    SelftestLcg rng(7);
    U a = fp_red(u_from_le(rng.bytes(32))), b = fp_red(u_from_le(rng.bytes(32)));
    volatile uint32_t sink = 0;
    printf("fp_mul            %10.3f us\n", us_per_op(20000, [&] { a = fp_mul(a, b); }));
    printf("u_mulmod (mod L)  %10.3f us\n", us_per_op(2000, [&] { a = u_mulmod(a, b, L25519()); }));
    printf("fp_inv            %10.3f us\n", us_per_op(50, [&] { a = fp_inv(u_add(a, U(1))); }));
    Bytes k = rng.bytes(32), u = rng.bytes(32);
    printf("x25519            %10.3f us\n", us_per_op(20, [&] { u = x25519(k, u); }));
    Pt P = ED_B();
    U s = u_from_le(rng.bytes(32));
    printf("pt_add (affine)   %10.3f us\n", us_per_op(50, [&] { P = pt_add(P, ED_B()); }));
    printf("pt_mul (256-bit)  %10.3f us\n", us_per_op(20, [&] { P = pt_mul(s, P); }));
    Bytes pk, sk, msg = rng.bytes(64), sig;
    ed25519_seed_keypair(rng.bytes(32), pk, sk);
    printf("ed25519_sign      %10.3f us\n", us_per_op(20, [&] { sig = ed25519_sign(msg, sk); }));
    printf("verify_info       %10.3f us\n", us_per_op(20, [&] { sink = sink + ed25519_verify_info(sig, msg, pk).cofactored_eq; }));
    Bytes r;
    printf("ristretto uniform %10.3f us\n", us_per_op(20, [&] { r = ristretto_from_uniform(rng.bytes(64)); }));
    printf("h2c ed25519 RO    %10.3f us\n", us_per_op(20, [&] { r = h2c_edwards25519(H_SHA512, true, msg, str("dst")); }));
    sink = sink + a.w[0] + r[0];
}

int main(int argc, char **argv) {
    auto t0 = std::chrono::steady_clock::now();
    int fails = selftest_curves();
    auto t1 = std::chrono::steady_clock::now();
    printf("curves selftest: %d failures\n", fails);
    if (argc > 1 && strcmp(argv[1], "--bench") == 0) {
        printf("selftest time     %10.3f s\n", std::chrono::duration<double>(t1 - t0).count());
        bench();
    }
    return fails ? 1 : 0;
}
