// ref/selftest_aes_main.cpp -- runs the self-tests of the AES-based reference models.
// Build/run:
//   clang++ -std=gnu++17 -O1 -g -fsanitize=address,undefined -I/verif/ref /verif/ref/selftest_aes_main.cpp -o /tmp/selftest_aes && /tmp/selftest_aes
#include "aes.hpp"
#include "aes256gcm.hpp"
#include "aegis.hpp"

int main() {
    int f_aes = ref::selftest_aes();
    int f_gcm = ref::selftest_aes256gcm();
    int f_aegis = ref::selftest_aegis();
    int total = f_aes + f_gcm + f_aegis;
    printf("selftest aes: %d failed, aes256gcm: %d failed, aegis: %d failed -> %s\n", f_aes, f_gcm, f_aegis, total == 0 ? "OK" : "FAIL");
    return total == 0 ? 0 : 1;
}
