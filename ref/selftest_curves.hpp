// ref/selftest_curves.hpp -- self-test of the curve reference models against published vectors:
//   RFC 7748 (X25519), RFC 8032 (Ed25519, Ed25519ph), RFC 9496 (ristretto255), RFC 9380 (hash to curve),
//   plus internal consistency checks (generic vs folding reduction, affine vs extended group law, torsion, ...).
// Returns the number of failed checks; mismatches are printed to stderr by ref::T.
#pragma once
#include "bigint.hpp"
#include "x25519.hpp"
#include "ed25519.hpp"
#include "ristretto255.hpp"
#include "h2c.hpp"

#ifndef REF_SELFTEST_X25519_ITERS
#define REF_SELFTEST_X25519_ITERS 1000  // RFC 7748 section 5.2 iterated test: 1 and 1000 iterations are checked
#endif

namespace ref {

// fixed-seed LCG (Knuth MMIX constants) producing test bytes
struct SelftestLcg {
    uint64_t s;
    explicit SelftestLcg(uint64_t seed) : s(seed) {}
    uint8_t byte() { s = s * 6364136223846793005ULL + 1442695040888963407ULL; return (uint8_t)(s >> 56); }
    Bytes bytes(size_t n) { Bytes b(n); for (auto &v : b) v = byte(); return b; }
};

// RFC 8032 section 7.1, TEST 1024: the 1023-byte message
inline const char *selftest_rfc8032_test1024_msg_hex() {
    return
        "08b8b2b733424243760fe426a4b54908632110a66c2f6591eabd3345e3e4eb98fa6e264bf09efe12ee50f8f54e9f77b1e355f6c50544e23fb1433ddf73be84d8"
        "79de7c0046dc4996d9e773f4bc9efe5738829adb26c81b37c93a1b270b20329d658675fc6ea534e0810a4432826bf58c941efb65d57a338bbd2e26640f89ffbc"
        "1a858efcb8550ee3a5e1998bd177e93a7363c344fe6b199ee5d02e82d522c4feba15452f80288a821a579116ec6dad2b3b310da903401aa62100ab5d1a36553e"
        "06203b33890cc9b832f79ef80560ccb9a39ce767967ed628c6ad573cb116dbefefd75499da96bd68a8a97b928a8bbc103b6621fcde2beca1231d206be6cd9ec7"
        "aff6f6c94fcd7204ed3455c68c83f4a41da4af2b74ef5c53f1d8ac70bdcb7ed185ce81bd84359d44254d95629e9855a94a7c1958d1f8ada5d0532ed8a5aa3fb2"
        "d17ba70eb6248e594e1a2297acbbb39d502f1a8c6eb6f1ce22b3de1a1f40cc24554119a831a9aad6079cad88425de6bde1a9187ebb6092cf67bf2b13fd65f270"
        "88d78b7e883c8759d2c4f5c65adb7553878ad575f9fad878e80a0c9ba63bcbcc2732e69485bbc9c90bfbd62481d9089beccf80cfe2df16a2cf65bd92dd597b07"
        "07e0917af48bbb75fed413d238f5555a7a569d80c3414a8d0859dc65a46128bab27af87a71314f318c782b23ebfe808b82b0ce26401d2e22f04d83d1255dc51a"
        "ddd3b75a2b1ae0784504df543af8969be3ea7082ff7fc9888c144da2af58429ec96031dbcad3dad9af0dcbaaaf268cb8fcffead94f3c7ca495e056a9b47acdb7"
        "51fb73e666c6c655ade8297297d07ad1ba5e43f1bca32301651339e22904cc8c42f58c30c04aafdb038dda0847dd988dcda6f3bfd15c4b4c4525004aa06eeff8"
        "ca61783aacec57fb3d1f92b0fe2fd1a85f6724517b65e614ad6808d6f6ee34dff7310fdc82aebfd904b01e1dc54b2927094b2db68d6f903b68401adebf5a7e08"
        "d78ff4ef5d63653a65040cf9bfd4aca7984a74d37145986780fc0b16ac451649de6188a7dbdf191f64b5fc5e2ab47b57f7f7276cd419c17a3ca8e1b939ae49e4"
        "88acba6b965610b5480109c8b17b80e1b7b750dfc7598d5d5011fd2dcc5600a32ef5b52a1ecc820e308aa342721aac0943bf6686b64b2579376504ccc493d97e"
        "6aed3fb0f9cd71a43dd497f01f17c0e2cb3797aa2a2f256656168e6c496afc5fb93246f6b1116398a346f1a641f3b041e989f7914f90cc2c7fff357876e506b5"
        "0d334ba77c225bc307ba537152f3f1610e4eafe595f6d9d90d11faa933a15ef1369546868a7f3a45a96768d40fd9d03412c091c6315cf4fde7cb68606937380d"
        "b2eaaa707b4c4185c32eddcdd306705e4dc1ffc872eeee475a64dfac86aba41c0618983f8741c5ef68d3a101e8a3b8cac60c905c15fc910840b94c00a0b9d0"
        ;
}

// ---------------------------------------------------------------- bigint
inline void selftest_bigint(T &t) {
    SelftestLcg rng(1);
    // constants, cross-checked against their well-known hexadecimal forms
    t.ok("p hex", P25519() == u_from_hex("7fffffffffffffffffffffffffffffffffffffffffffffffffffffffffffffed"));
    t.ok("L hex", L25519() == u_from_hex("1000000000000000000000000000000014def9dea2f79cd65812631a5cf5d3ed"));
    t.eqh("L le bytes", u_to_le(L25519(), 32), "edd3f55c1a631258d69cf7a2def9de1400000000000000000000000000000010");
    t.ok("from_dec", u_from_dec("18446744073709551616") == u_shl(U(1), 64));
    t.ok("to_hex", u_to_hex(u_from_dec("4886718345")) == "0123456789");
    t.ok("bitlen", u_bitlen(U(0)) == 0 && u_bitlen(U(1)) == 1 && u_bitlen(P25519()) == 255 && u_bitlen(L25519()) == 253);
    t.ok("small powmod", u_powmod(U(2), U(10), U(1000)) == U(24) && u_powmod(U(5), U(117), U(19)) == U(1) && u_powmod(U(7), U(0), U(13)) == U(1));
    t.ok("small invmod", u_mulmod(u_invmod_prime(U(12345), U(1000003)), U(12345), U(1000003)) == U(1));
    {
        bool borrow = false;
        U d = u_sub(U(5), U(7), &borrow);
        t.ok("sub borrow", borrow && u_add(d, U(7)) == U(5));
        u_sub(U(7), U(5), &borrow);
        t.ok("sub no borrow", !borrow);
    }
    U q, r;
    t.ok("div by zero", !u_divmod(U(5), U(0), q, r) && u_is_zero(q) && u_is_zero(r));
    for (int i = 0; i < 40; i++) {
        U a = u_from_le(rng.bytes(64)), b = u_from_le(rng.bytes(32)), m = u_from_le(rng.bytes(1 + rng.byte() % 32));
        if (u_is_zero(m)) m = U(7);
        // shifts
        int n = rng.byte() % 100;
        t.ok("shl/shr", u_shr(u_shl(a, n), n) == a && u_add(u_shl(u_shr(a, n), n), u_low_bits(a, n)) == a);
        // a = q*m + r, r < m
        u_divmod(a, m, q, r);
        t.ok("divmod", u_cmp(r, m) < 0 && u_add(u_mul(q, m), r) == a);
        // byte round trips
        t.ok("le round trip", u_from_le(u_to_le(a, 64)) == a);
        Bytes be = u_to_le(a, 64);
        be = Bytes(be.rbegin(), be.rend());
        t.ok("be", u_from_be(be) == a);
        // generic reduction vs folding reduction mod p, on 512-bit and on 640-bit values
        t.ok("fp_red 512", u_mod(a, P25519()) == fp_red(a));
        U wide = u_from_le(rng.bytes(80));
        t.ok("fp_red 640", u_mod(wide, P25519()) == fp_red(wide));
        t.ok("fp_fold", fp_fold(wide) == fp_fold_slow(wide) && fp_fold(a) == fp_fold_slow(a) && fp_fold(b) == fp_fold_slow(b));
        t.ok("fp_mul", u_mulmod(a, b, P25519()) == fp_mul(fp_red(a), b));
        t.ok("fp_add", u_addmod(a, b, P25519()) == fp_add(fp_red(a), b));
        t.ok("fp_sub", u_submod(a, b, P25519()) == fp_sub(fp_red(a), b));
        // L arithmetic
        U am = u_mod(a, L25519()), bm = u_mod(b, L25519());
        t.ok("L sub/add", u_addmod(u_submod(am, bm, L25519()), bm, L25519()) == am);
    }
    // values near p
    for (uint64_t k = 0; k < 40; k++) {
        U v = u_add(u_sub(P25519(), U(20)), U(k));
        t.ok("fp_red near p", u_mod(v, P25519()) == fp_red(v));
        U v2 = u_add(u_sub(u_shl(U(1), 256), U(40)), U(k));
        t.ok("fp_red near 2^256", u_mod(v2, P25519()) == fp_red(v2));
        t.ok("fp_fold near p / 2^256", fp_fold(v) == fp_fold_slow(v) && fp_fold(v2) == fp_fold_slow(v2));
    }
    {
        U a = u_from_le(rng.bytes(32));
        t.ok("fp_inv", fp_mul(fp_inv(a), a) == U(1) && u_invmod_prime(a, P25519()) == fp_inv(a));
        t.ok("fp_inv 0", u_is_zero(fp_inv(U(0))));
        t.ok("fp_pow", u_powmod(a, U(1000003), P25519()) == fp_pow(a, U(1000003)));
        t.ok("sqrt(-1)", fp_sq(FP_SQRT_M1()) == fp_neg(U(1)) && !fp_is_odd(FP_SQRT_M1()));
        t.ok("sqrt(-1) value", FP_SQRT_M1() == u_from_dec("19681161376707505956807079304988542015446066515923890162744021073123829784752"));
        U sq = fp_sq(a), root;
        t.ok("fp_sqrt", fp_sqrt(sq, root) && fp_sq(root) == sq && fp_is_square(sq));
        t.ok("fp_sqrt nonsquare", !fp_sqrt(U(2), root) && !fp_is_square(U(2)));  // 2 is a non-square mod p
        U li = u_invmod_prime(a, L25519());
        t.ok("L inv", u_mulmod(li, a, L25519()) == U(1));
    }
}

// ---------------------------------------------------------------- X25519 (RFC 7748)
inline void selftest_x25519(T &t) {
    // section 5.2, the two single vectors
    t.eqh("rfc7748 5.2 #1",
          x25519(from_hex("a546e36bf0527c9d3b16154b82465edd62144c0ac1fc5a18506a2244ba449ac4"), from_hex("e6db6867583030db3594c1a424b15f7c726624ec26b3353b10a903a6d0ab1c4c")),
          "c3da55379de9c6908e94ea4df28d084f32eccf03491c71f754b4075577a28552");
    // (this u-coordinate has bit 255 set: checks the masking)
    t.eqh("rfc7748 5.2 #2",
          x25519(from_hex("4b66e9d4d1b4673c5ad22691957d6af5c11b6421e0ea01d42ca4169e7918ba0d"), from_hex("e5210f12786811d3f4b7959d0538ae2c31dbe7106fc03c3efc4cd549c715a493")),
          "95cbde9476e8907d7aade45cb4b873f88b595a68799fa152e6f8f7647aac7957");
    // section 5.2, iterated: k = u = 9; then (k, u) <- (X25519(k, u), k)
    {
        Bytes k(32, 0), u(32, 0);
        k[0] = u[0] = 9;
        for (int i = 1; i <= REF_SELFTEST_X25519_ITERS; i++) {
            Bytes r = x25519(k, u);
            u = k;
            k = r;
            if (i == 1) t.eqh("rfc7748 iter 1", k, "422c8e7a6227d7bca1350b3e2bb7279f7897b87bb6854b783c60e80311ae3079");
            if (i == 1000) t.eqh("rfc7748 iter 1000", k, "684cf59ba83309552800ef566f2f4d3c1c3887c49360e3875f2eb94d99532c51");
        }
    }
    // section 6.1 Diffie-Hellman
    Bytes a = from_hex("77076d0a7318a57d3c16c17251b26645df4c2f87ebc0992ab177fba51db92c2a");
    Bytes b = from_hex("5dab087e624a8a4b79e17f8b83800ee66f3bb1292618b6fd1c2f8b27ff88e0eb");
    Bytes A = x25519_base(a), B = x25519_base(b);
    t.eqh("rfc7748 6.1 A", A, "8520f0098930a754748b7ddcb43ef75a0dbf3a0d26381af4eba4a98eaa9b4e6a");
    t.eqh("rfc7748 6.1 B", B, "de9edb7d7b7dc1b4d35b61c2ece435373f8343c85b78674dadfc7e146f882b4f");
    t.eqh("rfc7748 6.1 K (a,B)", x25519(a, B), "4a5d9d5ba4ce2de1728e3bf480350f25e07e21c947d19e3376f09b3c1e161742");
    t.eqh("rfc7748 6.1 K (b,A)", x25519(b, A), "4a5d9d5ba4ce2de1728e3bf480350f25e07e21c947d19e3376f09b3c1e161742");
    // non-canonical u is reduced mod p: u = p + 9 behaves as 9; u = p behaves as 0 (all-zero output)
    t.eq("non-canonical u", x25519(a, u_to_le(u_add(P25519(), U(9)), 32)), A);
    t.ok("u = p -> zero", is_all_zero(x25519(a, u_to_le(P25519(), 32))) && is_all_zero(x25519(a, Bytes(32, 0))));
    t.ok("is_all_zero", is_all_zero(Bytes(5, 0)) && !is_all_zero(A) && is_all_zero(Bytes()));
    t.ok("bad length", x25519(Bytes(31, 1), B).empty() && x25519(a, Bytes(33, 1)).empty());
}

// ---------------------------------------------------------------- edwards25519 group + Ed25519 (RFC 8032)
inline void selftest_ed25519_case(T &t, const char *name, const char *seed_hex, const char *pk_hex, const char *msg_hex, const char *sig_hex) {
    Bytes seed = from_hex(seed_hex), msg = from_hex(msg_hex), pk, sk;
    ed25519_seed_keypair(seed, pk, sk);
    t.eqh((std::string(name) + " pk").c_str(), pk, pk_hex);
    t.eq((std::string(name) + " sk").c_str(), sk, cat(seed, from_hex(pk_hex)));
    Bytes sig = ed25519_sign(msg, sk);
    t.eqh((std::string(name) + " sig").c_str(), sig, sig_hex);
    t.eq((std::string(name) + " sig from seed only").c_str(), ed25519_sign(msg, seed), sig);
    VerifyInfo vi = ed25519_verify_info(sig, msg, pk);
    t.ok((std::string(name) + " verify").c_str(),
         vi.len_ok && vi.s_canonical && vi.pk_canonical && vi.pk_decodes && !vi.pk_small_order && vi.r_decodes && vi.r_canonical && !vi.r_small_order &&
             !vi.pk_neg_zero && !vi.r_neg_zero && vi.cofactored_eq && vi.cofactorless_eq);
    Bytes bad = msg;
    bad.push_back(0);
    VerifyInfo vb = ed25519_verify_info(sig, bad, pk);
    t.ok((std::string(name) + " verify other msg").c_str(), !vb.cofactored_eq && !vb.cofactorless_eq);
}

inline void selftest_ed25519(T &t) {
    SelftestLcg rng(2);
    const Pt &B = ED_B();
    // constants as printed in RFC 8032 section 5.1
    t.ok("d", ED_D() == u_from_dec("37095705934669439343138083508754565189542113879843219016388785533085940283555"));
    t.ok("B.x", B.x == u_from_dec("15112221349535400772501151409588531511454012693041857206046113283949847762202"));
    t.ok("B.y", B.y == u_from_dec("46316835694926478169428394003475163141307993866256225615783033603165251855960"));
    t.eqh("B enc", pt_encode(B), "5866666666666666666666666666666666666666666666666666666666666666");
    t.ok("B on curve", pt_on_curve(B) && pt_on_curve(Pt()) && !pt_on_curve(Pt(U(1), U(2))));
    t.ok("L*B = 0", pt_is_identity(pt_mul(L25519(), B)) && pt_in_prime_subgroup(B) && !pt_has_small_order(B));
    t.ok("(L-1)*B = -B", pt_eq(pt_mul(u_sub(L25519(), U(1)), B), pt_neg(B)));
    t.ok("order class B", pt_order_class(B) == 101 && pt_order_class(Pt()) == 1);
    // group law sanity: small multiples by repeated affine addition vs pt_mul
    {
        Pt acc;
        bool ok = true;
        for (uint64_t k = 0; k < 20; k++) {
            ok = ok && pt_eq(acc, pt_mul(U(k), B)) && pt_on_curve(acc);
            acc = pt_add(acc, B);
        }
        t.ok("k*B small k", ok);
        t.ok("double", pt_eq(pt_double(B), pt_mul(U(2), B)));
    }
    // extended-coordinate double-and-add vs purely affine double-and-add, on a random point and random 256/512-bit k
    {
        Pt P = pt_mul(u_from_le(rng.bytes(32)), B);
        U k1 = u_from_le(rng.bytes(32)), k2 = u_from_le(rng.bytes(64));
        t.ok("pt_mul vs affine (256)", pt_eq(pt_mul(k1, P), pt_mul_affine(k1, P)));
        t.ok("pt_mul 512-bit k = k mod L", pt_eq(pt_mul(k2, P), pt_mul(sc_reduce(k2), P)));
        t.ok("distributive", pt_eq(pt_mul(sc_add(k1, k2), P), pt_add(pt_mul(k1, P), pt_mul(k2, P))));
        t.ok("P - P", pt_is_identity(pt_sub(P, P)) && pt_is_identity(pt_add(P, pt_neg(P))));
        Bytes e = pt_encode(P);
        Pt Q;
        bool canon = false;
        t.ok("encode/decode", pt_decode(e, Q, canon) && canon && pt_eq(P, Q) && pt_decode_strict(e, Q));
    }
    // torsion subgroup
    {
        const std::vector<Pt> &tp = torsion_points();
        bool ok = tp.size() == 8;
        for (size_t i = 0; ok && i < 8; i++) {
            ok = ok && pt_on_curve(tp[i]) && pt_is_identity(pt_mul(U(8), tp[i])) && pt_has_small_order(tp[i]);
            for (size_t j = 0; j < i; j++) ok = ok && !pt_eq(tp[i], tp[j]);
        }
        t.ok("8 distinct torsion points", ok);
        t.ok("torsion orders", ok && pt_order_class(tp[0]) == 1 && pt_order_class(tp[4]) == 2 && pt_order_class(tp[2]) == 4 && pt_order_class(tp[6]) == 4 &&
                                   pt_order_class(tp[1]) == 8 && pt_order_class(tp[3]) == 8 && pt_order_class(tp[5]) == 8 && pt_order_class(tp[7]) == 8);
        t.ok("order 2 point is (0,-1)", ok && pt_eq(tp[4], Pt(U(0), fp_neg(U(1)))));
        t.ok("order 4 points are (+-sqrt(-1), 0)", ok && u_is_zero(tp[2].y) && u_is_zero(tp[6].y) && (tp[2].x == FP_SQRT_M1() || tp[6].x == FP_SQRT_M1()));
        // the set of encodings must be the well-known list of small-order encodings
        const char *known[8] = { "0100000000000000000000000000000000000000000000000000000000000000", "ecffffffffffffffffffffffffffffffffffffffffffffffffffffffffffff7f",
                                 "0000000000000000000000000000000000000000000000000000000000000000", "0000000000000000000000000000000000000000000000000000000000000080",
                                 "26e8958fc2b227b045c3f489f2ef98f0d5dfac05d3c63339b13802886d53fc05", "26e8958fc2b227b045c3f489f2ef98f0d5dfac05d3c63339b13802886d53fc85",
                                 "c7176a703d4dd84fba3c0b760d10670f2a2053fa2c39ccc64ec7fd7792ac037a", "c7176a703d4dd84fba3c0b760d10670f2a2053fa2c39ccc64ec7fd7792ac03fa" };
        int found = 0;
        for (int i = 0; i < 8; i++)
            for (size_t j = 0; ok && j < 8; j++)
                if (pt_encode(tp[j]) == from_hex(known[i])) found++;
        t.ok("torsion encodings", found == 8);
        // mixed-order points
        Pt m = pt_add(B, tp[1]);
        t.ok("B + T8: order 8L", ok && pt_on_curve(m) && pt_order_class(m) == 108 && !pt_in_prime_subgroup(m) && !pt_has_small_order(m) && pt_torsion_order(m) == 8);
        t.ok("B + T2: order 2L", ok && pt_order_class(pt_add(B, tp[4])) == 102);
        t.ok("B + T4: order 4L", ok && pt_order_class(pt_add(B, tp[2])) == 104);
    }
    // decoding flags
    {
        // (a) non-canonical y: y_raw = p + 1 encodes y = 1 -> the identity
        Dec d = pt_decode_ex(u_to_le(u_add(P25519(), U(1)), 32));
        t.ok("dec y=p+1", d.ok_lenient && d.y_noncanonical && !d.neg_zero && d.on_curve && pt_is_identity(d.p) && !d.ok_strict());
        // y_raw = p (y = 0): x = +-sqrt(-1), an order-4 point, non-canonical
        d = pt_decode_ex(u_to_le(P25519(), 32));
        t.ok("dec y=p", d.ok_lenient && d.y_noncanonical && d.on_curve && pt_order_class(d.p) == 4);
        // (b) negative zero: y = 1 with the sign bit
        d = pt_decode_ex(from_hex("0100000000000000000000000000000000000000000000000000000000000080"));
        t.ok("dec neg zero", d.ok_lenient && !d.y_noncanonical && d.neg_zero && d.on_curve && pt_is_identity(d.p) && !d.ok_strict());
        // (a) + (b): y_raw = p + 1 with the sign bit
        Bytes e = u_to_le(u_add(P25519(), U(1)), 32);
        e[31] |= 0x80;
        d = pt_decode_ex(e);
        t.ok("dec noncanonical neg zero", d.ok_lenient && d.y_noncanonical && d.neg_zero);
        // (c) not on curve: roughly half of the small y values have no x
        int fails_c = 0, succ = 0;
        for (uint64_t y = 2; y < 40; y++) {
            d = pt_decode_ex(u_to_le(U(y), 32));
            if (d.ok_lenient) { succ++; if (!pt_on_curve(d.p) || d.y_noncanonical || d.neg_zero || !d.on_curve || fp_is_odd(d.p.x)) fails_c += 100; }
            else { fails_c++; if (d.on_curve || d.y_noncanonical || d.neg_zero) fails_c += 100; }
        }
        t.ok("dec small y: about half decode", fails_c < 100 && fails_c > 5 && succ > 5);
        Pt P;
        bool canon = true;
        t.ok("pt_decode wrong length", !pt_decode(Bytes(31, 0), P, canon) && !canon && !pt_decode_ex(Bytes(33, 0)).len_ok);
        // sign bit selects x
        Bytes be = pt_encode(B);
        be[31] |= 0x80;
        t.ok("sign bit", pt_decode(be, P, canon) && canon && pt_eq(P, pt_neg(B)));
    }
    // scalars
    {
        t.ok("sc canonical", sc_is_canonical(u_to_le(u_sub(L25519(), U(1)), 32)) && !sc_is_canonical(u_to_le(L25519(), 32)) && sc_is_canonical(Bytes(32, 0)) && !sc_is_canonical(Bytes(32, 0xff)));
        U x = sc_from_bytes(rng.bytes(64));
        t.ok("sc_reduce", u_cmp(sc_reduce(x), L25519()) < 0 && sc_is_canonical(sc_to_bytes32(sc_reduce(x))));
        U xr = sc_reduce(x);
        t.ok("sc ops", sc_add(xr, sc_neg(xr)) == U(0) && (u_is_zero(xr) || sc_mul(xr, sc_inv(xr)) == U(1)) && sc_sub(xr, xr) == U(0));
    }
    // RFC 8032 section 7.1 (seed, pk, msg, sig); vectors 1, 2, 3 and 1024 taken from the RFC table
    selftest_ed25519_case(t, "rfc8032 TEST 1", "9d61b19deffd5a60ba844af492ec2cc44449c5697b326919703bac031cae7f60", "d75a980182b10ab7d54bfed3c964073a0ee172f3daa62325af021a68f707511a", "",
                          "e5564300c360ac729086e2cc806e828a84877f1eb8e5d974d873e065224901555fb8821590a33bacc61e39701cf9b46bd25bf5f0595bbe24655141438e7a100b");
    selftest_ed25519_case(t, "rfc8032 TEST 2", "4ccd089b28ff96da9db6c346ec114e0f5b8a319f35aba624da8cf6ed4fb8a6fb", "3d4017c3e843895a92b70aa74d1b7ebc9c982ccf2ec4968cc0cd55f12af4660c", "72",
                          "92a009a9f0d4cab8720e820b5f642540a2b27b5416503f8fb3762223ebdb69da085ac1e43e15996e458f3613d0f11d8c387b2eaeb4302aeeb00d291612bb0c00");
    selftest_ed25519_case(t, "rfc8032 TEST 3", "c5aa8df43f9f837bedb7442f31dcb7b166d38535076f094b85ce3a2e0b4458f7", "fc51cd8e6218a1a38da47ed00230f0580816ed13ba3303ac5deb911548908025", "af82",
                          "6291d657deec24024827e69c3abe01a30ce548a284743a445e3680d7db5ac3ac18ff9b538d16f290ae67f760984dc6594a7c15e9716ed28dc027beceea1ec40a");
    selftest_ed25519_case(t, "rfc8032 TEST 1024", "f5e5767cf153319517630f226876b86c8160cc583bc013744c6bf255f5cc0ee5", "278117fc144c72340f67d0f2316e8386ceffbf2b2428c9c51fef7c597f1d426e",
                          selftest_rfc8032_test1024_msg_hex(),
                          "0aab4c900501b3e24d7cdf4663326a3a87df5e4843b2cbdb67cbf6e460fec350aa5371b1508f9f4528ecea23c436d94b5e8fcd4f681e30a6ac00a9704a188a03");
    // TEST SHA(abc): the message is SHA-512("abc")
    selftest_ed25519_case(t, "rfc8032 TEST SHA(abc)", "833fe62409237b9d62ec77587520911e9a759cec1d19755b7da901b96dca3d42", "ec172b93ad5e563bf4932c70e1245034c35467ef2efd4d64ebf819683467e2bf",
                          to_hex(sha512(str("abc"))).c_str(),
                          "dc2a4459e7369633a52b1bf277839a00201009a3efbf3ecb69bea2186c26b58909351fc9ac90b3ecfdfbc7c66431e0303dca179c138ac17ad9bef1177331a704");
    // RFC 8032 section 7.3, Ed25519ph: message "abc"
    {
        Bytes seed = from_hex("833fe62409237b9d62ec77587520911e9a759cec1d19755b7da901b96dca3d42"), pk, sk;
        ed25519_seed_keypair(seed, pk, sk);
        Bytes sig = ed25519ph_sign(str("abc"), sk);
        t.eqh("rfc8032 7.3 ph sig", sig, "98a70222f0b8121aa9d30f813d683f809e462b469c7ff87639499bb94e6dae4131f85042463c2a355a2003d062adf5aaa10b8c61e636062aaad11c2a26083406");
        VerifyInfo vi = ed25519_verify_info(sig, str("abc"), pk, true);
        t.ok("ph verify", vi.cofactored_eq && vi.cofactorless_eq && vi.s_canonical);
        VerifyInfo vp = ed25519_verify_info(sig, str("abc"), pk, false);
        t.ok("ph sig is not a pure sig", !vp.cofactored_eq && !vp.cofactorless_eq);
    }
    // verification predicate on malleated / torsion-shifted signatures
    {
        Bytes seed = rng.bytes(32), pk, sk, msg = rng.bytes(17);
        ed25519_seed_keypair(seed, pk, sk);
        Bytes sig = ed25519_sign(msg, sk);
        // S + L: same point equations, but not canonical
        Bytes s2 = u_to_le(u_add(u_from_le(sub(sig, 32, 32)), L25519()), 32);
        VerifyInfo vi = ed25519_verify_info(cat(sub(sig, 0, 32), s2), msg, pk);
        t.ok("S+L", !vi.s_canonical && vi.cofactored_eq && vi.cofactorless_eq);
        // R + T8: cofactored equation holds, cofactorless does not
        // (changing R changes h, so the signature is built from scratch with a known nonce)
        U a = u_from_le(ed25519_clamp(sub(sha512(seed), 0, 32)));
        U r = sc_reduce(u_from_le(rng.bytes(64)));
        Bytes Rt = pt_encode(pt_add(pt_mul(r, ED_B()), torsion_points()[1]));
        U h = sc_reduce(u_from_le(sha512(cat(Rt, pk, msg))));
        Bytes St = sc_to_bytes32(sc_add(r, sc_mul(h, a)));
        vi = ed25519_verify_info(cat(Rt, St), msg, pk);
        t.ok("R + T8", vi.s_canonical && vi.r_decodes && vi.r_canonical && !vi.r_small_order && vi.cofactored_eq && !vi.cofactorless_eq && vi.h == h);
        // small-order pk and R: S = 0, R = identity, A = identity verifies under both equations
        Bytes idenc = pt_encode(Pt());
        vi = ed25519_verify_info(cat(idenc, Bytes(32, 0)), msg, idenc);
        t.ok("all-identity", vi.pk_small_order && vi.r_small_order && vi.cofactored_eq && vi.cofactorless_eq && vi.pk_canonical && vi.r_canonical);
        // non-canonical pk (y = p + 1): flags reported, equations still evaluated on the reduced point
        Bytes ncid = u_to_le(u_add(P25519(), U(1)), 32);
        vi = ed25519_verify_info(cat(idenc, Bytes(32, 0)), msg, ncid);
        t.ok("non-canonical pk", !vi.pk_canonical && vi.pk_decodes && vi.pk_small_order && vi.cofactored_eq && vi.cofactorless_eq);
        // undecodable pk
        vi = ed25519_verify_info(sig, msg, u_to_le(U(2), 32));
        t.ok("undecodable pk", vi.len_ok && !vi.pk_decodes && vi.pk_canonical && !vi.cofactored_eq && !vi.cofactorless_eq);
        t.ok("bad lengths", !ed25519_verify_info(Bytes(63, 0), msg, pk).len_ok && !ed25519_verify_info(sig, msg, Bytes(31, 0)).len_ok && ed25519_sign(msg, Bytes(33, 0)).empty());
        // key conversion: X25519 base multiplication of the converted secret equals the converted public key
        Bytes xpk;
        t.ok("pk_to_x25519", ed25519_pk_to_x25519(pk, xpk) && xpk == x25519_base(ed25519_sk_to_x25519(sk)) && ed25519_sk_to_x25519(sk) == ed25519_sk_to_x25519(seed));
        t.ok("pk_to_x25519 undecodable", !ed25519_pk_to_x25519(u_to_le(U(2), 32), xpk));
        // B maps to u = 9
        t.ok("B -> u=9", ed25519_pk_to_x25519(pt_encode(ED_B()), xpk) && u_from_le(xpk) == U(9));
    }
}

// ---------------------------------------------------------------- ristretto255 (RFC 9496)
inline void selftest_ristretto(T &t) {
    SelftestLcg rng(3);
    // constants: defining equations (a = -1)
    t.ok("SQRT_AD_MINUS_ONE^2 = -d-1", fp_sq(RISTRETTO_SQRT_AD_MINUS_ONE()) == fp_sub(fp_neg(ED_D()), U(1)));
    t.ok("INVSQRT_A_MINUS_D^2 * (-1-d) = 1", fp_mul(fp_sq(RISTRETTO_INVSQRT_A_MINUS_D()), fp_sub(fp_neg(U(1)), ED_D())) == U(1));
    t.ok("ONE_MINUS_D_SQ", RISTRETTO_ONE_MINUS_D_SQ() == u_from_dec("1159843021668779879193775521855586647937357759715417654439879720876111806838"));
    t.ok("D_MINUS_ONE_SQ", RISTRETTO_D_MINUS_ONE_SQ() == u_from_dec("40440834346308536858101042469323190826248399146238708352240133220865137265952"));
    // RFC 9496 appendix A.1: multiples 0..15 of the generator
    static const char *mult[16] = {
        "0000000000000000000000000000000000000000000000000000000000000000", "e2f2ae0a6abc4e71a884a961c500515f58e30b6aa582dd8db6a65945e08d2d76",
        "6a493210f7499cd17fecb510ae0cea23a110e8d5b901f8acadd3095c73a3b919", "94741f5d5d52755ece4f23f044ee27d5d1ea1e2bd196b462166b16152a9d0259",
        "da80862773358b466ffadfe0b3293ab3d9fd53c5ea6c955358f568322daf6a57", "e882b131016b52c1d3337080187cf768423efccbb517bb495ab812c4160ff44e",
        "f64746d3c92b13050ed8d80236a7f0007c3b3f962f5ba793d19a601ebb1df403", "44f53520926ec81fbd5a387845beb7df85a96a24ece18738bdcfa6a7822a176d",
        "903293d8f2287ebe10e2374dc1a53e0bc887e592699f02d077d5263cdd55601c", "02622ace8f7303a31cafc63f8fc48fdc16e1c8c8d234b2f0d6685282a9076031",
        "20706fd788b2720a1ed2a5dad4952b01f413bcf0e7564de8cdc816689e2db95f", "bce83f8ba5dd2fa572864c24ba1810f9522bc6004afe95877ac73241cafdab42",
        "e4549ee16b9aa03099ca208c67adafcafa4c3f3e4e5303de6026e3ca8ff84460", "aa52e000df2e16f55fb1032fc33bc42742dad6bd5a8fc0be0167436c5948501f",
        "46376b80f409b29dc2b5f6f0c52591990896e5716f41477cd30085ab7f10301e", "e0c418f7c8d9c4cdd7395b93ea124f3ad99021bb681dfc3302a9d99a2e53e64e" };
    {
        Pt acc;
        for (int i = 0; i < 16; i++) {
            std::string nm = "rfc9496 A.1 multiple " + std::to_string(i);
            t.eqh(nm.c_str(), ristretto_encode(acc), mult[i]);
            Pt dec;
            bool ok = ristretto_decode(from_hex(mult[i]), dec);
            t.ok((nm + " decodes").c_str(), ok && pt_on_curve(dec) && ristretto_eq(dec, acc) && ristretto_encode(dec) == from_hex(mult[i]));
            acc = pt_add(acc, ED_B());
        }
    }
    // RFC 9496 appendix A.2: invalid encodings
    static const char *bad[] = {
        // non-canonical field encodings
        "00ffffffffffffffffffffffffffffffffffffffffffffffffffffffffffffff", "ffffffffffffffffffffffffffffffffffffffffffffffffffffffffffffff7f",
        "f3ffffffffffffffffffffffffffffffffffffffffffffffffffffffffffff7f", "edffffffffffffffffffffffffffffffffffffffffffffffffffffffffffff7f",
        "0100000000000000000000000000000000000000000000000000000000000080",
        // negative field elements
        "0100000000000000000000000000000000000000000000000000000000000000", "01ffffffffffffffffffffffffffffffffffffffffffffffffffffffffffff7f",
        "ed57ffd8c914fb201471d1c3d245ce3c746fcbe63a3679d51b6a516ebebe0e20", "c34c4e1826e5d403b78e246e88aa051c36ccf0aafebffe137d148a2bf9104562",
        "c940e5a4404157cfb1628b108db051a8d439e1a421394ec4ebccb9ec92a8ac78", "47cfc5497c53dc8e61c91d17fd626ffb1c49e2bca94eed052281b510b1117a24",
        "f1c6165d33367351b0da8f6e4511010c68174a03b6581212c71c0e1d026c3c72", "87260f7a2f12495118360f02c26a470f450dadf34a413d21042b43b9d93e1309",
        // non-square x^2
        "26948d35ca62e643e26a83177332e6b6afeb9d08e4268b650f1f5bbd8d81d371", "4eac077a713c57b4f4397629a4145982c661f48044dd3f96427d40b147d9742f",
        "de6a7b00deadc788eb6b6c8d20c0ae96c2f2019078fa604fee5b87d6e989ad7b", "bcab477be20861e01e4a0e295284146a510150d9817763caf1a6f4b422d67042",
        "2a292df7e32cababbd9de088d1d1abec9fc0440f637ed2fba145094dc14bea08", "f4a9e534fc0d216c44b218fa0c42d99635a0127ee2e53c712f70609649fdff22",
        "8268436f8c4126196cf64b3c7ddbda90746a378625f9813dd9b8457077256731", "2810e5cbc2cc4d4eece54f61c6f69758e289aa7ab440b3cbeaa21995c2f4232b",
        // negative x*y
        "3eb858e78f5a7254d8c9731174a94f76755fd3941c0ac93735c07ba14579630e", "a45fdc55c76448c049a1ab33f17023edfb2be3581e9c7aade8a6125215e04220",
        "d483fe813c6ba647ebbfd3ec41adca1c6130c2beeee9d9bf065c8d151c5f396e", "8a2e1d30050198c65a54483123960ccc38aef6848e1ec8f5f780e8523769ba32",
        "32888462f8b486c68ad7dd9610be5192bbeaf3b443951ac1a8118419d9fa097b", "227142501b9d4355ccba290404bde41575b037693cef1f438c47f8fbf35d1165",
        "5c37cc491da847cfeb9281d407efc41e15144c876e0170b499a96a22ed31e01e", "445425117cb8c90edcbc7c1cc0e74f747f2c1efa5630a967c64f287792a48a4b",
        // s = -1, which causes y = 0
        "ecffffffffffffffffffffffffffffffffffffffffffffffffffffffffffff7f" };
    for (size_t i = 0; i < sizeof bad / sizeof bad[0]; i++) {
        Pt p;
        t.ok((std::string("rfc9496 A.2 bad encoding ") + bad[i]).c_str(), !ristretto_decode(from_hex(bad[i]), p));
    }
    // RFC 9496 appendix A.3: one-way map; inputs are the SHA-512 hashes listed in the RFC
    static const char *fu[7][2] = {
        { "5d1be09e3d0c82fc538112490e35701979d99e06ca3e2b5b54bffe8b4dc772c14d98b696a1bbfb5ca32c436cc61c16563790306c79eaca7705668b47dffe5bb6", "3066f82a1a747d45120d1740f14358531a8f04bbffe6a819f86dfe50f44a0a46" },
        { "f116b34b8f17ceb56e8732a60d913dd10cce47a6d53bee9204be8b44f6678b270102a56902e2488c46120e9276cfe54638286b9e4b3cdb470b542d46c2068d38", "f26e5b6f7d362d2d2a94c5d0e7602cb4773c95a2e5c31a64f133189fa76ed61b" },
        { "8422e1bbdaab52938b81fd602effb6f89110e1e57208ad12d9ad767e2e25510c27140775f9337088b982d83d7fcf0b2fa1edffe51952cbe7365e95c86eaf325c", "006ccd2a9e6867e6a2c5cea83d3302cc9de128dd2a9a57dd8ee7b9d7ffe02826" },
        { "ac22415129b61427bf464e17baee8db65940c233b98afce8d17c57beeb7876c2150d15af1cb1fb824bbd14955f2b57d08d388aab431a391cfc33d5bafb5dbbaf", "f8f0c87cf237953c5890aec3998169005dae3eca1fbb04548c635953c817f92a" },
        { "165d697a1ef3d5cf3c38565beefcf88c0f282b8e7dbd28544c483432f1cec7675debea8ebb4e5fe7d6f6e5db15f15587ac4d4d4a1de7191e0c1ca6664abcc413", "ae81e7dedf20a497e10c304a765c1767a42d6e06029758d2d7e8ef7cc4c41179" },
        { "a836e6c9a9ca9f1e8d486273ad56a78c70cf18f0ce10abb1c7172ddd605d7fd2979854f47ae1ccf204a33102095b4200e5befc0465accc263175485f0e17ea5c", "e2705652ff9f5e44d3e841bf1c251cf7dddb77d140870d1ab2ed64f1a9ce8628" },
        { "2cdc11eaeb95daf01189417cdddbf95952993aa9cb9c640eb5058d09702c74622c9965a697a3b345ec24ee56335b556e677b30e6f90ac77d781064f866a3c982", "80bd07262511cdde4863f8a7434cef696750681cb9510eea557088f76d9e5065" } };
    for (int i = 0; i < 7; i++) t.eqh((std::string("rfc9496 A.3 from_uniform ") + std::to_string(i)).c_str(), ristretto_from_uniform(from_hex(fu[i][0])), fu[i][1]);
    // The first A.3 input is SHA-512("Ristretto is traditionally a short shot of espresso coffee")
    t.eq("rfc9496 A.3 input 0 is a SHA-512", sha512(str("Ristretto is traditionally a short shot of espresso coffee")), from_hex(fu[0][0]));
    t.ok("from_uniform bad length", ristretto_from_uniform(Bytes(63, 0)).empty());
    // the top bit of each half is ignored
    {
        Bytes in = from_hex(fu[2][0]);
        in[31] ^= 0x80;
        in[63] ^= 0x80;
        t.eqh("from_uniform masks bit 255", ristretto_from_uniform(in), fu[2][1]);
    }
    // coset invariance: P + T encodes identically for every 4-torsion point T... (ristretto quotients by E[4]);
    // the map output is always a curve point whose double is in the prime-order subgroup
    {
        const std::vector<Pt> &tp = torsion_points();
        Pt P = pt_mul(u_from_le(rng.bytes(32)), ED_B());
        Bytes e = ristretto_encode(P);
        bool ok = true;
        for (int i = 0; i < 8; i += 2) {
            Pt Q = pt_add(P, tp[(size_t) i]);
            ok = ok && ristretto_encode(Q) == e && ristretto_eq(P, Q);
        }
        t.ok("encode invariant under E[4]", ok);
        t.ok("ristretto_eq distinguishes", !ristretto_eq(P, pt_double(P)) && !ristretto_eq(P, pt_neg(P)));
        Pt D;
        t.ok("decode(encode(P))", ristretto_decode(e, D) && ristretto_eq(D, P) && pt_on_curve(D));
        for (int i = 0; i < 4; i++) {
            Pt M = ristretto_map(u_from_le(rng.bytes(32)));
            Pt R;
            t.ok("map output on curve", pt_on_curve(M));
            t.ok("map output order divides 4L", pt_in_prime_subgroup(pt_mul(U(4), M)));
            t.ok("map output round trip", ristretto_decode(ristretto_encode(M), R) && ristretto_eq(R, M));
        }
        t.ok("map(0) valid", pt_on_curve(ristretto_map(U(0))));
        t.ok("decode wrong length", !ristretto_decode(Bytes(31, 0), D));
    }
}

// ---------------------------------------------------------------- hash to curve (RFC 9380)
inline void selftest_h2c(T &t) {
    // appendix J.5.1 (RO) and J.5.2 (NU): edwards25519_XMD:SHA-512_ELL2_{RO,NU}_. P.x / P.y are big-endian hex in the RFC.
    struct V { bool ro; const char *msg; const char *px; const char *py; };
    static const std::string q128 = "q128_" + std::string(128, 'q'), a512 = "a512_" + std::string(512, 'a');
    const V vec[] = {
        { false, "", "1ff2b70ecf862799e11b7ae744e3489aa058ce805dd323a936375a84695e76da", "222e314d04a4d5725e9f2aff9fb2a6b69ef375a1214eb19021ceab2d687f0f9b" },
        { false, "abc", "5f13cc69c891d86927eb37bd4afc6672360007c63f68a33ab423a3aa040fd2a8", "67732d50f9a26f73111dd1ed5dba225614e538599db58ba30aaea1f5c827fa42" },
        { false, "abcdef0123456789", "1dd2fefce934ecfd7aae6ec998de088d7dd03316aa1847198aecf699ba6613f1", "2f8a6c24dd1adde73909cada6a4a137577b0f179d336685c4a955a0a8e1a86fb" },
        { false, q128.c_str(), nullptr, "2af6ff6ef5ebba128b0774f4296cb4c2279a074658b083b8dcca91f57a603450" },
        { false, a512.c_str(), nullptr, "2c90c3d39eb18ff291d33441b35f3262cdd307162cc97c31bfcc7a4245891a37" },
        { true, "", "3c3da6925a3c3c268448dcabb47ccde5439559d9599646a8260e47b1e4822fc6", "09a6c8561a0b22bef63124c588ce4c62ea83a3c899763af26d795302e115dc21" },
        { true, "abc", "608040b42285cc0d72cbb3985c6b04c935370c7361f4b7fbdb1ae7f8c1a8ecad", "1a8395b88338f22e435bbd301183e7f20a5f9de643f11882fb237f88268a5531" },
        { true, "abcdef0123456789", "6d7fabf47a2dc03fe7d47f7dddd21082c5fb8f86743cd020f3fb147d57161472", "53060a3d140e7fbcda641ed3cf42c88a75411e648a1add71217f70ea8ec561a6" },
        { true, q128.c_str(), nullptr, "2eca15e355fcfa39d2982f67ddb0eea138e2994f5956ed37b7f72eea5e89d2f7" },
        { true, a512.c_str(), nullptr, "6dc2fc04f266c5c27f236a80b14f92ccd051ef1ff027f26a07f8c0f327d8f995" } };
    for (const V &v : vec) {
        Bytes dst = str(v.ro ? "QUUX-V01-CS02-with-edwards25519_XMD:SHA-512_ELL2_RO_" : "QUUX-V01-CS02-with-edwards25519_XMD:SHA-512_ELL2_NU_");
        std::string nm = std::string("rfc9380 J.5 ") + (v.ro ? "RO" : "NU") + " msg=" + std::string(v.msg).substr(0, 16);
        Pt P = h2c_edwards25519_pt(H_SHA512, v.ro, str(v.msg), dst);
        t.ok((nm + " y").c_str(), P.y == u_from_hex(v.py));
        if (v.px) t.ok((nm + " x").c_str(), P.x == u_from_hex(v.px));
        t.ok((nm + " subgroup").c_str(), pt_on_curve(P) && pt_in_prime_subgroup(P));
        t.eq((nm + " enc").c_str(), h2c_edwards25519(H_SHA512, v.ro, str(v.msg), dst), pt_encode(P));
    }
    // appendix K.1 (SHA-256) and K.3 (SHA-512) expand_message_xmd, len_in_bytes = 0x20
    t.eqh("rfc9380 K.1 ''", expand_message_xmd(H_SHA256, str(""), str("QUUX-V01-CS02-with-expander-SHA256-128"), 32), "68a985b87eb6b46952128911f2a4412bbc302a9d759667f87f7a21d803f07235");
    t.eqh("rfc9380 K.1 abc", expand_message_xmd(H_SHA256, str("abc"), str("QUUX-V01-CS02-with-expander-SHA256-128"), 32), "d8ccab23b5985ccea865c6c97b6e5b8350e794e603b4b97902f53a8a0d605615");
    t.eqh("rfc9380 K.3 ''", expand_message_xmd(H_SHA512, str(""), str("QUUX-V01-CS02-with-expander-SHA512-256"), 32), "6b9a7312411d92f921c6f68ca0b6380730a1a4d982c507211a90964c394179ba");
    t.eqh("rfc9380 K.3 abc", expand_message_xmd(H_SHA512, str("abc"), str("QUUX-V01-CS02-with-expander-SHA512-256"), 32), "0da749f12fbe5483eb066a5f595055679b976e93abe9be6f0f6318bce7aca8dc");
    // structural checks
    {
        Bytes dst = str("QUUX-V01-CS02-with-expander-SHA256-128"), m = str("abcdef0123456789");
        Bytes a = expand_message_xmd(H_SHA256, m, dst, 100), b = expand_message_xmd(H_SHA256, m, dst, 32);
        t.ok("xmd lengths", a.size() == 100 && b.size() == 32 && sub(a, 0, 32) != b);  // len_in_bytes is hashed in
        t.ok("xmd limits", expand_message_xmd(H_SHA256, m, dst, 255 * 32).size() == 255 * 32 && expand_message_xmd(H_SHA256, m, dst, 255 * 32 + 1).empty() &&
                               expand_message_xmd(H_SHA512, m, dst, 255 * 64).size() == 255 * 64 && expand_message_xmd(H_SHA512, m, dst, 255 * 64 + 1).empty() &&
                               expand_message_xmd(H_SHA512, m, dst, 65536).empty() && expand_message_xmd(H_SHA256, m, dst, 0).empty());
        // oversize DST (section 5.3.3): same as using H("H2C-OVERSIZE-DST-" || DST) as the DST
        Bytes longdst(256, 'X'), dst255(255, 'X');
        t.eq("xmd oversize dst 256", expand_message_xmd(H_SHA256, m, longdst, 48), expand_message_xmd(H_SHA256, m, sha256(cat(str("H2C-OVERSIZE-DST-"), longdst)), 48));
        t.eq("xmd oversize dst 512", expand_message_xmd(H_SHA512, m, longdst, 48), expand_message_xmd(H_SHA512, m, sha512(cat(str("H2C-OVERSIZE-DST-"), longdst)), 48));
        t.ok("clobbered-DST model only differs for oversize DST", expand_message_xmd_oversize_dst_clobbered(H_SHA512, m, dst255, 96) == expand_message_xmd(H_SHA512, m, dst255, 96) &&
                                                                       expand_message_xmd_oversize_dst_clobbered(H_SHA512, m, longdst, 96) != expand_message_xmd(H_SHA512, m, longdst, 96));
        t.ok("xmd dst 255 is not oversize", expand_message_xmd(H_SHA256, m, dst255, 48) != expand_message_xmd(H_SHA256, m, sha256(cat(str("H2C-OVERSIZE-DST-"), dst255)), 48));
        // Elligator 2 output is on curve25519 and the rational map lands on edwards25519, for a few field elements
        bool ok = true;
        for (uint64_t u = 0; u < 12; u++) {
            U s, tt;
            h2c_map_to_curve25519(U(u), s, tt);
            U rhs = fp_add(fp_add(fp_mul(fp_sq(s), s), fp_mul(U(486662), fp_sq(s))), s);
            ok = ok && fp_sq(tt) == rhs && pt_on_curve(h2c_mont_to_edwards(s, tt));
        }
        t.ok("elligator2 on curve", ok);
        // SHA-256 variant and ristretto255 hash: well-formed outputs
        Pt P;
        bool canon;
        t.ok("h2c sha256 RO", pt_decode(h2c_edwards25519(H_SHA256, true, m, dst), P, canon) && canon && pt_in_prime_subgroup(P));
        t.ok("h2c sha256 NU", pt_decode(h2c_edwards25519(H_SHA256, false, m, dst), P, canon) && canon && pt_in_prime_subgroup(P));
        Bytes r = h2c_ristretto255(H_SHA512, m, str("ristretto255_XMD:SHA-512_R255MAP_RO_"));
        t.ok("h2c ristretto", r.size() == 32 && ristretto_decode(r, P) && r == ristretto_from_uniform(expand_message_xmd(H_SHA512, m, str("ristretto255_XMD:SHA-512_R255MAP_RO_"), 64)));
    }
}

inline int selftest_curves() {
    T t("curves");
    selftest_bigint(t);
    selftest_x25519(t);
    selftest_ed25519(t);
    selftest_ristretto(t);
    selftest_h2c(t);
    return t.fails;
}

}  // namespace ref
