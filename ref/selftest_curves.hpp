// ref/selftest_curves.hpp -- self-test of the curve reference models against published vectors:
//   RFC 7748 (X25519), RFC 8032 (Ed25519, Ed25519ph), RFC 9496 (ristretto255), RFC 9380 (hash to curve),
//   plus internal consistency checks (generic vs folding reduction, affine vs extended group law, torsion, ...).
// Returns the number of failed checks; mismatches are printed to stderr by ref::T.
#pragma once
#include "bigint.hpp"
#include "x25519.hpp"
#include "ed25519.hpp"
#include "ristretto255.hpp"
#include "h2c.hpp"

#ifndef REF_SELFTEST_X25519_ITERS
#define REF_SELFTEST_X25519_ITERS 1000  // RFC 7748 section 5.2 iterated test: 1 and 1000 iterations are checked
#endif

namespace ref {

// fixed-seed LCG (Knuth MMIX constants) producing test bytes
struct SelftestLcg {
    uint64_t s;
    explicit SelftestLcg(uint64_t seed) : s(seed) {}
    uint8_t byte() { s = s * 6364136223846793005ULL + 1442695040888963407ULL; return (uint8_t)(s >> 56); }
    Bytes bytes(size_t n) { Bytes b(n); for (auto &v : b) v = byte(); return b; }
};

// RFC 8032 section 7.1, TEST 1024: the 1023-byte message
inline const char *selftest_rfc8032_test1024_msg_hex() {
    return
        "08b8b2b733424243760fe426a4b54908632110a66c2f6591eabd3345e3e4eb98fa6e264bf09efe12ee50f8f54e9f77b1e355f6c50544e23fb1433ddf73be84d8"
        "79de7c0046dc4996d9e773f4bc9efe5738829adb26c81b37c93a1b270b20329d658675fc6ea534e0810a4432826bf58c941efb65d57a338bbd2e26640f89ffbc"
        "1a858efcb8550ee3a5e1998bd177e93a7363c344fe6b199ee5d02e82d522c4feba15452f80288a821a579116ec6dad2b3b310da903401aa62100ab5d1a36553e"
        "06203b33890cc9b832f79ef80560ccb9a39ce767967ed628c6ad573cb116dbefefd75499da96bd68a8a97b928a8bbc103b6621fcde2beca1231d206be6cd9ec7"
        "aff6f6c94fcd7204ed3455c68c83f4a41da4af2b74ef5c53f1d8ac70bdcb7ed185ce81bd84359d44254d95629e9855a94a7c1958d1f8ada5d0532ed8a5aa3fb2"
        "d17ba70eb6248e594e1a2297acbbb39d502f1a8c6eb6f1ce22b3de1a1f40cc24554119a831a9aad6079cad88425de6bde1a9187ebb6092cf67bf2b13fd65f270"
        "88d78b7e883c8759d2c4f5c65adb7553878ad575f9fad878e80a0c9ba63bcbcc2732e69485bbc9c90bfbd62481d9089beccf80cfe2df16a2cf65bd92dd597b07"
        "07e0917af48bbb75fed413d238f5555a7a569d80c3414a8d0859dc65a46128bab27af87a71314f318c782b23ebfe808b82b0ce26401d2e22f04d83d1255dc51a"
        "ddd3b75a2b1ae0784504df543af8969be3ea7082ff7fc9888c144da2af58429ec96031dbcad3dad9af0dcbaaaf268cb8fcffead94f3c7ca495e056a9b47acdb7"
        "51fb73e666c6c655ade8297297d07ad1ba5e43f1bca32301651339e22904cc8c42f58c30c04aafdb038dda0847dd988dcda6f3bfd15c4b4c4525004aa06eeff8"
        "ca61783aacec57fb3d1f92b0fe2fd1a85f6724517b65e614ad6808d6f6ee34dff7310fdc82aebfd904b01e1dc54b2927094b2db68d6f903b68401adebf5a7e08"
        "d78ff4ef5d63653a65040cf9bfd4aca7984a74d37145986780fc0b16ac451649de6188a7dbdf191f64b5fc5e2ab47b57f7f7276cd419c17a3ca8e1b939ae49e4"
        "88acba6b965610b5480109c8b17b80e1b7b750dfc7598d5d5011fd2dcc5600a32ef5b52a1ecc820e308aa342721aac0943bf6686b64b2579376504ccc493d97e"
        "6aed3fb0f9cd71a43dd497f01f17c0e2cb3797aa2a2f256656168e6c496afc5fb93246f6b1116398a346f1a641f3b041e989f7914f90cc2c7fff357876e506b5"
        "0d334ba77c225bc307ba537152f3f1610e4eafe595f6d9d90d11faa933a15ef1369546868a7f3a45a96768d40fd9d03412c091c6315cf4fde7cb68606937380d"
        "b2eaaa707b4c4185c32eddcdd306705e4dc1ffc872eeee475a64dfac86aba41c0618983f8741c5ef68d3a101e8a3b8cac60c905c15fc910840b94c00a0b9d0"
        ;
}

