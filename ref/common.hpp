// ref/common.hpp -- shared helpers for the reference models.
// The reference models never include a libsodium header and share no code with it.
#pragma once
#include <cstdint>
#include <cstdio>
#include <cstring>
#include <string>
#include <vector>

namespace ref {

typedef std::vector<uint8_t> Bytes;

inline std::string to_hex(const uint8_t *p, size_t n) {
    static const char *d = "0123456789abcdef";
    std::string s;
    for (size_t i = 0; i < n; i++) { s.push_back(d[p[i] >> 4]); s.push_back(d[p[i] & 15]); }
    return s;
}
inline std::string to_hex(const Bytes &b) { return to_hex(b.data(), b.size()); }
inline Bytes from_hex(const std::string &s) {
    Bytes b;
    auto v = [](char c) -> int { if (c >= '0' && c <= '9') return c - '0'; if (c >= 'a' && c <= 'f') return c - 'a' + 10; if (c >= 'A' && c <= 'F') return c - 'A' + 10; return -1; };
    int hi = -1;
    for (char c : s) { int x = v(c); if (x < 0) continue; if (hi < 0) hi = x; else { b.push_back((uint8_t)(hi * 16 + x)); hi = -1; } }
    return b;
}
inline Bytes cat(const Bytes &a, const Bytes &b) { Bytes r = a; r.insert(r.end(), b.begin(), b.end()); return r; }
inline Bytes cat(const Bytes &a, const Bytes &b, const Bytes &c) { return cat(cat(a, b), c); }
inline Bytes sub(const Bytes &a, size_t off, size_t n) { return Bytes(a.begin() + off, a.begin() + off + n); }
inline Bytes str(const char *s) { return Bytes((const uint8_t *) s, (const uint8_t *) s + strlen(s)); }

inline uint32_t ld32le(const uint8_t *p) { return (uint32_t) p[0] | ((uint32_t) p[1] << 8) | ((uint32_t) p[2] << 16) | ((uint32_t) p[3] << 24); }
inline uint64_t ld64le(const uint8_t *p) { return (uint64_t) ld32le(p) | ((uint64_t) ld32le(p + 4) << 32); }
inline void st32le(uint8_t *p, uint32_t v) { p[0] = (uint8_t) v; p[1] = (uint8_t)(v >> 8); p[2] = (uint8_t)(v >> 16); p[3] = (uint8_t)(v >> 24); }
inline void st64le(uint8_t *p, uint64_t v) { st32le(p, (uint32_t) v); st32le(p + 4, (uint32_t)(v >> 32)); }
inline uint32_t ld32be(const uint8_t *p) { return ((uint32_t) p[0] << 24) | ((uint32_t) p[1] << 16) | ((uint32_t) p[2] << 8) | (uint32_t) p[3]; }
inline uint64_t ld64be(const uint8_t *p) { return ((uint64_t) ld32be(p) << 32) | ld32be(p + 4); }
inline void st32be(uint8_t *p, uint32_t v) { p[0] = (uint8_t)(v >> 24); p[1] = (uint8_t)(v >> 16); p[2] = (uint8_t)(v >> 8); p[3] = (uint8_t) v; }
inline void st64be(uint8_t *p, uint64_t v) { st32be(p, (uint32_t)(v >> 32)); st32be(p + 4, (uint32_t) v); }
inline uint32_t rotl32(uint32_t x, int n) { return (x << n) | (x >> (32 - n)); }
inline uint32_t rotr32(uint32_t x, int n) { return (x >> n) | (x << (32 - n)); }
inline uint64_t rotl64(uint64_t x, int n) { return (x << n) | (x >> (64 - n)); }
inline uint64_t rotr64(uint64_t x, int n) { return (x >> n) | (x << (64 - n)); }

// self-test helper
struct T {
    int fails = 0, checks = 0;
    const char *suite;
    explicit T(const char *s) : suite(s) {}
    void eq(const char *what, const Bytes &got, const Bytes &want) {
        checks++;
        if (got != want) { fails++; fprintf(stderr, "[selftest %s] %s: got %s want %s\n", suite, what, to_hex(got).c_str(), to_hex(want).c_str()); }
    }
    void eqh(const char *what, const Bytes &got, const char *want_hex) { eq(what, got, from_hex(want_hex)); }
    void ok(const char *what, bool c) { checks++; if (!c) { fails++; fprintf(stderr, "[selftest %s] %s failed\n", suite, what); } }
};

}  // namespace ref
