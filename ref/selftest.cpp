// Reference-model self-test: every model against known answers that do not come from libsodium at run time.
#include "sha2.hpp"
#include "stream.hpp"
#include "poly1305.hpp"
#if __has_include("selftest_extra.hpp")
#include "selftest_extra.hpp"
#endif
int main() {
    int f = 0;
    f += ref::selftest_sha2();
    f += ref::selftest_stream();
    f += ref::selftest_poly1305();
#ifdef REF_SELFTEST_EXTRA
    f += ref::selftest_extra();
#endif
    printf("reference-model selftest: %d failures\n", f);
    return f ? 1 : 0;
}
