// Reference-model self-test: every model against known answers that do not come from libsodium at run time.
#include "sha2.hpp"
#include "stream.hpp"
#include "poly1305.hpp"
#include "codecs.hpp"
#include "aes.hpp"
#include "aes256gcm.hpp"
#include "aegis.hpp"
#include "selftest_curves.hpp"
#include "blake2b.hpp"
#include "argon2.hpp"
#include "scrypt.hpp"
#include "constructions.hpp"
int main() {
    int f = 0;
    f += ref::selftest_sha2();
    f += ref::selftest_stream();
    f += ref::selftest_poly1305();
    f += ref::selftest_codecs();
    f += ref::selftest_aes();
    f += ref::selftest_aes256gcm();
    f += ref::selftest_aegis();
    f += ref::selftest_curves();
    f += ref::selftest_blake2b();
    f += ref::selftest_argon2();
    f += ref::selftest_scrypt();
    f += ref::selftest_constructions();
    printf("reference-model selftest: %d failures\n", f);
    return f ? 1 : 0;
}
