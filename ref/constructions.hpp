// ref/constructions.hpp -- the documented compositions: ChaCha20-Poly1305 (original / IETF RFC 8439 2.8 / XChaCha20),
// secretbox and box in both cipher variants, sealed boxes, secretstream, key exchange, BLAKE2b KDF.
// Built only from the other reference models.
#pragma once
#include "common.hpp"
#include "stream.hpp"
#include "poly1305.hpp"
#include "blake2b.hpp"
#include "x25519.hpp"
#include "sha2.hpp"

namespace ref {

inline Bytes le64(uint64_t v) { Bytes b(8); st64le(b.data(), v); return b; }
inline Bytes pad16(size_t n) { return Bytes((16 - n % 16) % 16, 0); }

// ---------------------------------------------------------------- AEAD: ChaCha20-Poly1305
// original construction (draft-agl): 64-bit nonce; MAC over ad || le64(adlen) || ct || le64(mlen)
inline void aead_chacha20poly1305_encrypt(const Bytes &key, const Bytes &nonce8, const Bytes &ad, const Bytes &msg, Bytes &ct, Bytes &tag) {
    Bytes polykey = chacha20_stream(key, nonce8, 0, 32);
    ct = xor_bytes(msg, chacha20_stream(key, nonce8, 1, msg.size()));
    Bytes macdata = ad; Bytes t = le64(ad.size()); macdata.insert(macdata.end(), t.begin(), t.end());
    macdata.insert(macdata.end(), ct.begin(), ct.end()); t = le64(msg.size()); macdata.insert(macdata.end(), t.begin(), t.end());
    tag = poly1305(macdata, polykey);
}
// RFC 8439 section 2.8: 96-bit nonce; MAC over ad || pad || ct || pad || le64(adlen) || le64(mlen)
inline Bytes ietf_macdata(const Bytes &ad, const Bytes &ct) {
    Bytes d = ad; Bytes p = pad16(ad.size()); d.insert(d.end(), p.begin(), p.end());
    d.insert(d.end(), ct.begin(), ct.end()); p = pad16(ct.size()); d.insert(d.end(), p.begin(), p.end());
    Bytes t = le64(ad.size()); d.insert(d.end(), t.begin(), t.end()); t = le64(ct.size()); d.insert(d.end(), t.begin(), t.end());
    return d;
}
inline void aead_chacha20poly1305_ietf_encrypt(const Bytes &key, const Bytes &nonce12, const Bytes &ad, const Bytes &msg, Bytes &ct, Bytes &tag) {
    Bytes polykey = chacha20_ietf_stream(key, nonce12, 0, 32);
    ct = xor_bytes(msg, chacha20_ietf_stream(key, nonce12, 1, msg.size()));
    tag = poly1305(ietf_macdata(ad, ct), polykey);
}
// XChaCha20-Poly1305 (draft-irtf-cfrg-xchacha): subkey = HChaCha20(key, nonce[0..16)), nonce' = 0^4 || nonce[16..24)
inline void aead_xchacha20poly1305_encrypt(const Bytes &key, const Bytes &nonce24, const Bytes &ad, const Bytes &msg, Bytes &ct, Bytes &tag) {
    Bytes sk = hchacha20(key, sub(nonce24, 0, 16));
    Bytes n12(4, 0); n12.insert(n12.end(), nonce24.begin() + 16, nonce24.end());
    aead_chacha20poly1305_ietf_encrypt(sk, n12, ad, msg, ct, tag);
}

// ---------------------------------------------------------------- secretbox
// XSalsa20-Poly1305 (NaCl): first 32 keystream bytes are the Poly1305 key, the message is encrypted from byte 32 on
inline void secretbox_xsalsa20poly1305(const Bytes &key, const Bytes &nonce24, const Bytes &msg, Bytes &ct, Bytes &tag) {
    Bytes ks = xsalsa20_stream(key, nonce24, 0, 32 + msg.size());
    ct = xor_bytes(msg, sub(ks, 32, msg.size()));
    tag = poly1305(ct, sub(ks, 0, 32));
}
// same layout on XChaCha20 (libsodium's crypto_secretbox_xchacha20poly1305)
inline void secretbox_xchacha20poly1305(const Bytes &key, const Bytes &nonce24, const Bytes &msg, Bytes &ct, Bytes &tag) {
    Bytes ks = xchacha20_stream(key, nonce24, 0, 32 + msg.size());
    ct = xor_bytes(msg, sub(ks, 32, msg.size()));
    tag = poly1305(ct, sub(ks, 0, 32));
}

// ---------------------------------------------------------------- box
// returns false when the shared point is all-zero (low-order peer key)
inline bool box_beforenm_xsalsa20(const Bytes &pk, const Bytes &sk, Bytes &k) {
    Bytes s = x25519(sk, pk); if (is_all_zero(s)) return false;
    k = hsalsa20(Bytes(16, 0), s); return true;
}
inline bool box_beforenm_xchacha20(const Bytes &pk, const Bytes &sk, Bytes &k) {
    Bytes s = x25519(sk, pk); if (is_all_zero(s)) return false;
    k = hchacha20(s, Bytes(16, 0)); return true;
}
inline void box_seed_keypair(const Bytes &seed32, Bytes &pk, Bytes &sk) { sk = sub(sha512(seed32), 0, 32); pk = x25519_base(sk); }

// sealed box: epk || box(m, nonce = BLAKE2b-192(epk || pk), pk, esk)
inline Bytes seal_nonce(const Bytes &epk, const Bytes &pk) { return blake2b(cat(epk, pk), 24); }
inline bool box_seal(bool xchacha, const Bytes &msg, const Bytes &pk, const Bytes &esk, Bytes &out) {
    Bytes epk = x25519_base(esk), k, ct, tag;
    if (!(xchacha ? box_beforenm_xchacha20(pk, esk, k) : box_beforenm_xsalsa20(pk, esk, k))) return false;
    Bytes n = seal_nonce(epk, pk);
    if (xchacha) secretbox_xchacha20poly1305(k, n, msg, ct, tag); else secretbox_xsalsa20poly1305(k, n, msg, ct, tag);
    out = cat(epk, tag, ct);
    return true;
}

// ---------------------------------------------------------------- key exchange / KDF
inline void kx_seed_keypair(const Bytes &seed32, Bytes &pk, Bytes &sk) { sk = blake2b(seed32, 32); pk = x25519_base(sk); }
// keys = BLAKE2b-512(shared || client_pk || server_pk); client: rx = first half, tx = second; server: the reverse
inline bool kx_session_keys(const Bytes &client_pk, const Bytes &server_pk, const Bytes &my_sk, const Bytes &their_pk, Bytes &first, Bytes &second) {
    Bytes q = x25519(my_sk, their_pk); if (is_all_zero(q)) return false;
    Bytes h = blake2b(cat(q, client_pk, server_pk), 64);
    first = sub(h, 0, 32); second = sub(h, 32, 32); return true;
}
inline Bytes kdf_blake2b(const Bytes &key32, uint64_t id, const Bytes &ctx8, size_t len) {
    Bytes salt(16, 0), pers(16, 0); st64le(salt.data(), id); memcpy(pers.data(), ctx8.data(), 8);
    return blake2b(Bytes(), len, key32, salt, pers);
}

// ---------------------------------------------------------------- secretstream (XChaCha20-Poly1305 based)
struct SecretStream {
    Bytes k, nonce;    // nonce = 4-byte little-endian counter || 8-byte inonce
    enum { TAG_MESSAGE = 0, TAG_PUSH = 1, TAG_REKEY = 2, TAG_FINAL = 3 };
    void init(const Bytes &key32, const Bytes &header24) {
        k = hchacha20(key32, sub(header24, 0, 16));
        nonce.assign(12, 0); nonce[0] = 1; memcpy(&nonce[4], &header24[16], 8);
    }
    void rekey() {
        Bytes buf = k; buf.insert(buf.end(), nonce.begin() + 4, nonce.end());
        buf = xor_bytes(buf, chacha20_ietf_stream(k, nonce, 0, 40));
        k = sub(buf, 0, 32); memcpy(&nonce[4], &buf[32], 8);
        nonce[0] = 1; nonce[1] = nonce[2] = nonce[3] = 0;
    }
    // push: returns tagbyte || ct || mac and advances the state
    Bytes push(const Bytes &msg, const Bytes &ad, uint8_t tag) {
        Bytes polykey = chacha20_ietf_stream(k, nonce, 0, 32);
        Bytes block(64, 0); block[0] = tag;
        block = xor_bytes(block, chacha20_ietf_stream(k, nonce, 1, 64));
        Bytes ct = xor_bytes(msg, chacha20_ietf_stream(k, nonce, 2, msg.size()));
        Bytes mac = poly1305(macdata(ad, block, ct), polykey);
        Bytes out; out.push_back(block[0]); out.insert(out.end(), ct.begin(), ct.end()); out.insert(out.end(), mac.begin(), mac.end());
        advance(mac, tag);
        return out;
    }
    // documented layout incl. the padding quirk: the second pad is (mlen mod 16) zero bytes
    static Bytes macdata(const Bytes &ad, const Bytes &block64, const Bytes &ct) {
        Bytes d = ad; Bytes p = pad16(ad.size()); d.insert(d.end(), p.begin(), p.end());
        d.insert(d.end(), block64.begin(), block64.end());
        d.insert(d.end(), ct.begin(), ct.end());
        d.insert(d.end(), (size_t) ((0x10 - 64 + ct.size()) & 0xf), 0);
        Bytes t = le64(ad.size()); d.insert(d.end(), t.begin(), t.end()); t = le64(64 + ct.size()); d.insert(d.end(), t.begin(), t.end());
        return d;
    }
    void advance(const Bytes &mac, uint8_t tag) {
        for (int i = 0; i < 8; i++) nonce[4 + i] ^= mac[i];
        uint32_t c = ld32le(&nonce[0]) + 1; st32le(&nonce[0], c);
        if ((tag & TAG_REKEY) != 0 || c == 0) rekey();
    }
    // pull: returns false (state unchanged) unless the chunk authenticates
    bool pull(const Bytes &chunk, const Bytes &ad, Bytes &msg, uint8_t &tag) {
        if (chunk.size() < 17) return false;
        Bytes polykey = chacha20_ietf_stream(k, nonce, 0, 32);
        Bytes block(64, 0); block[0] = chunk[0];
        block = xor_bytes(block, chacha20_ietf_stream(k, nonce, 1, 64));
        uint8_t t = block[0];          // decrypted tag
        block[0] = chunk[0];           // MAC covers the encrypted block
        Bytes ct(chunk.begin() + 1, chunk.end() - 16), mac(chunk.end() - 16, chunk.end());
        if (poly1305(macdata(ad, block, ct), polykey) != mac) return false;
        msg = xor_bytes(ct, chacha20_ietf_stream(k, nonce, 2, ct.size()));
        tag = t;
        advance(mac, t);
        return true;
    }
    Bytes state_bytes() const { return cat(k, nonce); }
};

inline int selftest_constructions() {
    T t("constructions");
    // RFC 8439 2.8.2
    {
        Bytes key = from_hex("808182838485868788898a8b8c8d8e8f909192939495969798999a9b9c9d9e9f"), nonce = from_hex("070000004041424344454647"), ad = from_hex("50515253c0c1c2c3c4c5c6c7");
        Bytes pt = str("Ladies and Gentlemen of the class of '99: If I could offer you only one tip for the future, sunscreen would be it."), ct, tag;
        aead_chacha20poly1305_ietf_encrypt(key, nonce, ad, pt, ct, tag);
        t.eqh("rfc8439 2.8.2 tag", tag, "1ae10b594f09e26a7e902ecbd0600691");
        t.eqh("rfc8439 2.8.2 ct head", sub(ct, 0, 16), "d31a8d34648e60db7b86afbc53ef7ec2");
    }
    // draft-irtf-cfrg-xchacha A.3.1
    {
        Bytes key = from_hex("808182838485868788898a8b8c8d8e8f909192939495969798999a9b9c9d9e9f"), nonce = from_hex("404142434445464748494a4b4c4d4e4f5051525354555657"), ad = from_hex("50515253c0c1c2c3c4c5c6c7");
        Bytes pt = str("Ladies and Gentlemen of the class of '99: If I could offer you only one tip for the future, sunscreen would be it."), ct, tag;
        aead_xchacha20poly1305_encrypt(key, nonce, ad, pt, ct, tag);
        t.eqh("xchacha A.3.1 tag", tag, "c0875924c1c7987947deafd8780acf49");
        t.eqh("xchacha A.3.1 ct head", sub(ct, 0, 16), "bd6d179d3e83d43b9576579493c0e939");
    }
    // NaCl secretbox test vector (tests/secretbox.c): first 16 bytes of the boxed output are the tag
    {
        Bytes key = from_hex("1b27556473e985d462cd51197a9a46c76009549eac6474f206c4ee0844f68389"), nonce = from_hex("69696ee955b62b73cd62bda875fc73d68219e0036b7a0b37");
        Bytes m = from_hex("be075fc53c81f2d5cf141316ebeb0c7b5228c52a4c62cbd44b66849b64244ffce5ecbaaf33bd751a1ac728d45e6c61296cdc3c01233561f41db66cce314adb310e3be8250c46f06dceea3a7fa1348057e2f6556ad6b1318a024a838f21af1fde048977eb48f59ffd4924ca1c60902e52f0a089bc76897040e082f937763848645e0705");
        Bytes ct, tag; secretbox_xsalsa20poly1305(key, nonce, m, ct, tag);
        t.eqh("nacl secretbox tag", tag, "f3ffc7703f9400e52a7dfb4b3d3305d9");
        t.eqh("nacl secretbox ct head", sub(ct, 0, 16), "8e993b9f48681273c29650ba32fc76ce");
        // NaCl box: alice sk, bob pk -> the same key
        Bytes alicesk = from_hex("77076d0a7318a57d3c16c17251b26645df4c2f87ebc0992ab177fba51db92c2a"), bobpk = from_hex("de9edb7d7b7dc1b4d35b61c2ece435373f8343c85b78674dadfc7e146f882b4f"), k;
        t.ok("box beforenm", box_beforenm_xsalsa20(bobpk, alicesk, k) && k == key);
    }
    return t.fails;
}

}  // namespace ref
