// ref/sha2.hpp -- SHA-256, SHA-512 (FIPS 180-4), HMAC (RFC 2104), HKDF (RFC 5869), PBKDF2-HMAC-SHA-256 (RFC 8018).
// Whole-message style: the message is padded into one buffer, then processed; no streaming state.
#pragma once
#include "common.hpp"

namespace ref {

inline Bytes sha256(const Bytes &msg) {
    static const uint32_t K[64] = {
        0x428a2f98, 0x71374491, 0xb5c0fbcf, 0xe9b5dba5, 0x3956c25b, 0x59f111f1, 0x923f82a4, 0xab1c5ed5, 0xd807aa98, 0x12835b01, 0x243185be, 0x550c7dc3, 0x72be5d74, 0x80deb1fe, 0x9bdc06a7, 0xc19bf174,
        0xe49b69c1, 0xefbe4786, 0x0fc19dc6, 0x240ca1cc, 0x2de92c6f, 0x4a7484aa, 0x5cb0a9dc, 0x76f988da, 0x983e5152, 0xa831c66d, 0xb00327c8, 0xbf597fc7, 0xc6e00bf3, 0xd5a79147, 0x06ca6351, 0x14292967,
        0x27b70a85, 0x2e1b2138, 0x4d2c6dfc, 0x53380d13, 0x650a7354, 0x766a0abb, 0x81c2c92e, 0x92722c85, 0xa2bfe8a1, 0xa81a664b, 0xc24b8b70, 0xc76c51a3, 0xd192e819, 0xd6990624, 0xf40e3585, 0x106aa070,
        0x19a4c116, 0x1e376c08, 0x2748774c, 0x34b0bcb5, 0x391c0cb3, 0x4ed8aa4a, 0x5b9cca4f, 0x682e6ff3, 0x748f82ee, 0x78a5636f, 0x84c87814, 0x8cc70208, 0x90befffa, 0xa4506ceb, 0xbef9a3f7, 0xc67178f2 };
    uint32_t H[8] = { 0x6a09e667, 0xbb67ae85, 0x3c6ef372, 0xa54ff53a, 0x510e527f, 0x9b05688c, 0x1f83d9ab, 0x5be0cd19 };
    Bytes m = msg;
    m.push_back(0x80);
    while (m.size() % 64 != 56) m.push_back(0);
    uint8_t lb[8]; st64be(lb, (uint64_t) msg.size() * 8);
    m.insert(m.end(), lb, lb + 8);
    for (size_t off = 0; off < m.size(); off += 64) {
        uint32_t w[64];
        for (int t = 0; t < 16; t++) w[t] = ld32be(&m[off + 4 * t]);
        for (int t = 16; t < 64; t++) {
            uint32_t s0 = rotr32(w[t - 15], 7) ^ rotr32(w[t - 15], 18) ^ (w[t - 15] >> 3);
            uint32_t s1 = rotr32(w[t - 2], 17) ^ rotr32(w[t - 2], 19) ^ (w[t - 2] >> 10);
            w[t] = w[t - 16] + s0 + w[t - 7] + s1;
        }
        uint32_t a = H[0], b = H[1], c = H[2], d = H[3], e = H[4], f = H[5], g = H[6], h = H[7];
        for (int t = 0; t < 64; t++) {
            uint32_t S1 = rotr32(e, 6) ^ rotr32(e, 11) ^ rotr32(e, 25);
            uint32_t ch = (e & f) ^ (~e & g);
            uint32_t t1 = h + S1 + ch + K[t] + w[t];
            uint32_t S0 = rotr32(a, 2) ^ rotr32(a, 13) ^ rotr32(a, 22);
            uint32_t mj = (a & b) ^ (a & c) ^ (b & c);
            uint32_t t2 = S0 + mj;
            h = g; g = f; f = e; e = d + t1; d = c; c = b; b = a; a = t1 + t2;
        }
        H[0] += a; H[1] += b; H[2] += c; H[3] += d; H[4] += e; H[5] += f; H[6] += g; H[7] += h;
    }
    Bytes out(32);
    for (int i = 0; i < 8; i++) st32be(&out[4 * i], H[i]);
    return out;
}

inline Bytes sha512(const Bytes &msg) {
    static const uint64_t K[80] = {
        0x428a2f98d728ae22ULL, 0x7137449123ef65cdULL, 0xb5c0fbcfec4d3b2fULL, 0xe9b5dba58189dbbcULL, 0x3956c25bf348b538ULL, 0x59f111f1b605d019ULL, 0x923f82a4af194f9bULL, 0xab1c5ed5da6d8118ULL,
        0xd807aa98a3030242ULL, 0x12835b0145706fbeULL, 0x243185be4ee4b28cULL, 0x550c7dc3d5ffb4e2ULL, 0x72be5d74f27b896fULL, 0x80deb1fe3b1696b1ULL, 0x9bdc06a725c71235ULL, 0xc19bf174cf692694ULL,
        0xe49b69c19ef14ad2ULL, 0xefbe4786384f25e3ULL, 0x0fc19dc68b8cd5b5ULL, 0x240ca1cc77ac9c65ULL, 0x2de92c6f592b0275ULL, 0x4a7484aa6ea6e483ULL, 0x5cb0a9dcbd41fbd4ULL, 0x76f988da831153b5ULL,
        0x983e5152ee66dfabULL, 0xa831c66d2db43210ULL, 0xb00327c898fb213fULL, 0xbf597fc7beef0ee4ULL, 0xc6e00bf33da88fc2ULL, 0xd5a79147930aa725ULL, 0x06ca6351e003826fULL, 0x142929670a0e6e70ULL,
        0x27b70a8546d22ffcULL, 0x2e1b21385c26c926ULL, 0x4d2c6dfc5ac42aedULL, 0x53380d139d95b3dfULL, 0x650a73548baf63deULL, 0x766a0abb3c77b2a8ULL, 0x81c2c92e47edaee6ULL, 0x92722c851482353bULL,
        0xa2bfe8a14cf10364ULL, 0xa81a664bbc423001ULL, 0xc24b8b70d0f89791ULL, 0xc76c51a30654be30ULL, 0xd192e819d6ef5218ULL, 0xd69906245565a910ULL, 0xf40e35855771202aULL, 0x106aa07032bbd1b8ULL,
        0x19a4c116b8d2d0c8ULL, 0x1e376c085141ab53ULL, 0x2748774cdf8eeb99ULL, 0x34b0bcb5e19b48a8ULL, 0x391c0cb3c5c95a63ULL, 0x4ed8aa4ae3418acbULL, 0x5b9cca4f7763e373ULL, 0x682e6ff3d6b2b8a3ULL,
        0x748f82ee5defb2fcULL, 0x78a5636f43172f60ULL, 0x84c87814a1f0ab72ULL, 0x8cc702081a6439ecULL, 0x90befffa23631e28ULL, 0xa4506cebde82bde9ULL, 0xbef9a3f7b2c67915ULL, 0xc67178f2e372532bULL,
        0xca273eceea26619cULL, 0xd186b8c721c0c207ULL, 0xeada7dd6cde0eb1eULL, 0xf57d4f7fee6ed178ULL, 0x06f067aa72176fbaULL, 0x0a637dc5a2c898a6ULL, 0x113f9804bef90daeULL, 0x1b710b35131c471bULL,
        0x28db77f523047d84ULL, 0x32caab7b40c72493ULL, 0x3c9ebe0a15c9bebcULL, 0x431d67c49c100d4cULL, 0x4cc5d4becb3e42b6ULL, 0x597f299cfc657e2aULL, 0x5fcb6fab3ad6faecULL, 0x6c44198c4a475817ULL };
    uint64_t H[8] = { 0x6a09e667f3bcc908ULL, 0xbb67ae8584caa73bULL, 0x3c6ef372fe94f82bULL, 0xa54ff53a5f1d36f1ULL, 0x510e527fade682d1ULL, 0x9b05688c2b3e6c1fULL, 0x1f83d9abfb41bd6bULL, 0x5be0cd19137e2179ULL };
    Bytes m = msg;
    m.push_back(0x80);
    while (m.size() % 128 != 112) m.push_back(0);
    uint8_t lb[16]; st64be(lb, 0); st64be(lb + 8, (uint64_t) msg.size() * 8);
    m.insert(m.end(), lb, lb + 16);
    for (size_t off = 0; off < m.size(); off += 128) {
        uint64_t w[80];
        for (int t = 0; t < 16; t++) w[t] = ld64be(&m[off + 8 * t]);
        for (int t = 16; t < 80; t++) {
            uint64_t s0 = rotr64(w[t - 15], 1) ^ rotr64(w[t - 15], 8) ^ (w[t - 15] >> 7);
            uint64_t s1 = rotr64(w[t - 2], 19) ^ rotr64(w[t - 2], 61) ^ (w[t - 2] >> 6);
            w[t] = w[t - 16] + s0 + w[t - 7] + s1;
        }
        uint64_t a = H[0], b = H[1], c = H[2], d = H[3], e = H[4], f = H[5], g = H[6], h = H[7];
        for (int t = 0; t < 80; t++) {
            uint64_t S1 = rotr64(e, 14) ^ rotr64(e, 18) ^ rotr64(e, 41);
            uint64_t ch = (e & f) ^ (~e & g);
            uint64_t t1 = h + S1 + ch + K[t] + w[t];
            uint64_t S0 = rotr64(a, 28) ^ rotr64(a, 34) ^ rotr64(a, 39);
            uint64_t mj = (a & b) ^ (a & c) ^ (b & c);
            uint64_t t2 = S0 + mj;
            h = g; g = f; f = e; e = d + t1; d = c; c = b; b = a; a = t1 + t2;
        }
        H[0] += a; H[1] += b; H[2] += c; H[3] += d; H[4] += e; H[5] += f; H[6] += g; H[7] += h;
    }
    Bytes out(64);
    for (int i = 0; i < 8; i++) st64be(&out[8 * i], H[i]);
    return out;
}

enum HashId { H_SHA256, H_SHA512 };
inline Bytes hash(HashId h, const Bytes &m) { return h == H_SHA256 ? sha256(m) : sha512(m); }
inline size_t hash_block(HashId h) { return h == H_SHA256 ? 64 : 128; }
inline size_t hash_len(HashId h) { return h == H_SHA256 ? 32 : 64; }

inline Bytes hmac(HashId h, const Bytes &key, const Bytes &msg) {
    size_t B = hash_block(h);
    Bytes k = key;
    if (k.size() > B) k = hash(h, k);
    k.resize(B, 0);
    Bytes ipad(B), opad(B);
    for (size_t i = 0; i < B; i++) { ipad[i] = k[i] ^ 0x36; opad[i] = k[i] ^ 0x5c; }
    return hash(h, cat(opad, hash(h, cat(ipad, msg))));
}
inline Bytes hmac_sha512256(const Bytes &key, const Bytes &msg) { Bytes t = hmac(H_SHA512, key, msg); t.resize(32); return t; }

inline Bytes hkdf_extract(HashId h, const Bytes &salt, const Bytes &ikm) {
    // RFC 5869: an absent salt is a string of HashLen zeros (equivalent to the empty key for HMAC)
    return hmac(h, salt, ikm);
}
inline Bytes hkdf_expand(HashId h, const Bytes &prk, const Bytes &info, size_t L) {
    Bytes okm, t;
    for (unsigned i = 1; okm.size() < L; i++) {
        Bytes in = cat(t, info);
        in.push_back((uint8_t) i);
        t = hmac(h, prk, in);
        okm.insert(okm.end(), t.begin(), t.end());
    }
    okm.resize(L);
    return okm;
}

inline Bytes pbkdf2_sha256(const Bytes &pw, const Bytes &salt, uint64_t c, size_t dklen) {
    Bytes out;
    for (uint32_t i = 1; out.size() < dklen; i++) {
        Bytes s = salt; uint8_t ib[4]; st32be(ib, i); s.insert(s.end(), ib, ib + 4);
        Bytes u = hmac(H_SHA256, pw, s), t = u;
        for (uint64_t j = 1; j < c; j++) { u = hmac(H_SHA256, pw, u); for (size_t k = 0; k < t.size(); k++) t[k] ^= u[k]; }
        out.insert(out.end(), t.begin(), t.end());
    }
    out.resize(dklen);
    return out;
}

inline int selftest_sha2() {
    T t("sha2");
    t.eqh("sha256 abc", sha256(str("abc")), "ba7816bf8f01cfea414140de5dae2223b00361a396177a9cb410ff61f20015ad");
    t.eqh("sha256 empty", sha256(Bytes()), "e3b0c44298fc1c149afbf4c8996fb92427ae41e4649b934ca495991b7852b855");
    t.eqh("sha256 448", sha256(str("abcdbcdecdefdefgefghfghighijhijkijkljklmklmnlmnomnopnopq")), "248d6a61d20638b8e5c026930c3e6039a33ce45964ff2167f6ecedd419db06c1");
    t.eqh("sha512 abc", sha512(str("abc")), "ddaf35a193617abacc417349ae20413112e6fa4e89a97ea20a9eeee64b55d39a2192992a274fc1a836ba3c23a3feebbd454d4423643ce80e2a9ac94fa54ca49f");
    t.eqh("sha512 empty", sha512(Bytes()), "cf83e1357eefb8bdf1542850d66d8007d620e4050b5715dc83f4a921d36ce9ce47d0d13c5d85f2b0ff8318d2877eec2f63b931bd47417a81a538327af927da3e");
    t.eqh("sha512 896", sha512(str("abcdefghbcdefghicdefghijdefghijkefghijklfghijklmghijklmnhijklmnoijklmnopjklmnopqklmnopqrlmnopqrsmnopqrstnopqrstu")),
          "8e959b75dae313da8cf4f72814fc143f8f7779c6eb9f7fa17299aeadb6889018501d289e4900f7e4331b99dec4b5433ac7d329eeb6dd26545e96e55b874be909");
    // RFC 4231 test case 2
    t.eqh("hmac256 tc2", hmac(H_SHA256, str("Jefe"), str("what do ya want for nothing?")), "5bdcc146bf60754e6a042426089575c75a003f089d2739839dec58b964ec3843");
    t.eqh("hmac512 tc2", hmac(H_SHA512, str("Jefe"), str("what do ya want for nothing?")),
          "164b7a7bfcf819e2e395fbe73b56e0a387bd64222e831fd610270cd7ea2505549758bf75c05a994a6d034f65f8f0e6fdcaeab1a34d4a6b4b636e070a38bce737");
    // RFC 4231 test case 6 (key longer than block)
    t.eqh("hmac256 tc6", hmac(H_SHA256, Bytes(131, 0xaa), str("Test Using Larger Than Block-Size Key - Hash Key First")), "60e431591ee0b67f0d8a26aacbf5b77f8e0bc6213728c5140546040f0ee37f54");
    // RFC 5869 A.1
    {
        Bytes ikm(22, 0x0b), salt = from_hex("000102030405060708090a0b0c"), info = from_hex("f0f1f2f3f4f5f6f7f8f9");
        Bytes prk = hkdf_extract(H_SHA256, salt, ikm);
        t.eqh("hkdf prk", prk, "077709362c2e32df0ddc3f0dc47bba6390b6c73bb50f9c3122ec844ad7c2b3e5");
        t.eqh("hkdf okm", hkdf_expand(H_SHA256, prk, info, 42), "3cb25f25faacd57a90434f64d0362f2a2d2d0a90cf1a5a4c5db02d56ecc4c5bf34007208d5b887185865");
    }
    // RFC 7914 section 11 PBKDF2-HMAC-SHA-256
    t.eqh("pbkdf2", pbkdf2_sha256(str("passwd"), str("salt"), 1, 64),
          "55ac046e56e3089fec1691c22544b605f94185216dde0465e68b9d57c20dacbc49ca9cccf179b645991664b39d77ef317c71b845b1e30bd509112041d3a19783");
    return t.fails;
}

}  // namespace ref
