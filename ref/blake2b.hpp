// ref/blake2b.hpp -- BLAKE2b (RFC 7693) with the full parameter block (salt / personalization),
// and the variable-length hash H' of Argon2 (RFC 9106 section 3.3).
// Whole-message style, written from the RFCs for clarity; no libsodium code or headers.
#pragma once
#include "common.hpp"

namespace ref {

// RFC 7693 section 2.6: IV (same as SHA-512)
static const uint64_t BLAKE2B_IV[8] = {
    0x6a09e667f3bcc908ULL, 0xbb67ae8584caa73bULL, 0x3c6ef372fe94f82bULL, 0xa54ff53a5f1d36f1ULL,
    0x510e527fade682d1ULL, 0x9b05688c2b3e6c1fULL, 0x1f83d9abfb41bd6bULL, 0x5be0cd19137e2179ULL };

// RFC 7693 section 2.7: message schedule SIGMA (rounds 10 and 11 reuse rows 0 and 1)
static const uint8_t BLAKE2B_SIGMA[10][16] = {
    { 0, 1, 2, 3, 4, 5, 6, 7, 8, 9, 10, 11, 12, 13, 14, 15 },
    { 14, 10, 4, 8, 9, 15, 13, 6, 1, 12, 0, 2, 11, 7, 5, 3 },
    { 11, 8, 12, 0, 5, 2, 15, 13, 10, 14, 3, 6, 7, 1, 9, 4 },
    { 7, 9, 3, 1, 13, 12, 11, 14, 2, 6, 5, 10, 4, 0, 15, 8 },
    { 9, 0, 5, 7, 2, 4, 10, 15, 14, 1, 11, 12, 6, 8, 3, 13 },
    { 2, 12, 6, 10, 0, 11, 8, 3, 4, 13, 7, 5, 15, 14, 1, 9 },
    { 12, 5, 1, 15, 14, 13, 4, 10, 0, 7, 6, 3, 9, 2, 8, 11 },
    { 13, 11, 7, 14, 12, 1, 3, 9, 5, 0, 15, 4, 8, 6, 2, 10 },
    { 6, 15, 14, 9, 11, 3, 0, 8, 12, 2, 13, 7, 1, 4, 10, 5 },
    { 10, 2, 8, 4, 7, 6, 1, 5, 15, 11, 9, 14, 3, 12, 13, 0 } };

// RFC 7693 section 3.1: mixing function G (rotations 32, 24, 16, 63)
inline void blake2b_G(uint64_t v[16], int a, int b, int c, int d, uint64_t x, uint64_t y) {
    v[a] = v[a] + v[b] + x; v[d] = rotr64(v[d] ^ v[a], 32);
    v[c] = v[c] + v[d];     v[b] = rotr64(v[b] ^ v[c], 24);
    v[a] = v[a] + v[b] + y; v[d] = rotr64(v[d] ^ v[a], 16);
    v[c] = v[c] + v[d];     v[b] = rotr64(v[b] ^ v[c], 63);
}

// RFC 7693 section 3.2: compression function F(h, block, t, last). t is a 128-bit byte counter (t0 low, t1 high).
inline void blake2b_F(uint64_t h[8], const uint8_t block[128], uint64_t t0, uint64_t t1, bool last) {
    uint64_t v[16], m[16];
    for (int i = 0; i < 8; i++) { v[i] = h[i]; v[i + 8] = BLAKE2B_IV[i]; }
    v[12] ^= t0;
    v[13] ^= t1;
    if (last) v[14] = ~v[14];
    for (int i = 0; i < 16; i++) m[i] = ld64le(block + 8 * i);
    for (int r = 0; r < 12; r++) {
        const uint8_t *s = BLAKE2B_SIGMA[r % 10];
        blake2b_G(v, 0, 4, 8, 12, m[s[0]], m[s[1]]);
        blake2b_G(v, 1, 5, 9, 13, m[s[2]], m[s[3]]);
        blake2b_G(v, 2, 6, 10, 14, m[s[4]], m[s[5]]);
        blake2b_G(v, 3, 7, 11, 15, m[s[6]], m[s[7]]);
        blake2b_G(v, 0, 5, 10, 15, m[s[8]], m[s[9]]);
        blake2b_G(v, 1, 6, 11, 12, m[s[10]], m[s[11]]);
        blake2b_G(v, 2, 7, 8, 13, m[s[12]], m[s[13]]);
        blake2b_G(v, 3, 4, 9, 14, m[s[14]], m[s[15]]);
    }
    for (int i = 0; i < 8; i++) h[i] ^= v[i] ^ v[i + 8];
}

// The full chaining value h (64 bytes, little-endian words) after hashing `msg` with the given parameters.
// The digest is its first `outlen` bytes. Exposed separately because some callers want to look at the
// untruncated state. Invalid parameters (outlen not in 1..64, key > 64 bytes, salt/personal neither empty
// nor 16 bytes) return an empty vector instead of aborting.
inline Bytes blake2b_full_state(const Bytes &msg, size_t outlen, const Bytes &key = Bytes(), const Bytes &salt = Bytes(), const Bytes &personal = Bytes()) {
    if (outlen < 1 || outlen > 64 || key.size() > 64) return Bytes();
    if (!(salt.empty() || salt.size() == 16) || !(personal.empty() || personal.size() == 16)) return Bytes();

    // RFC 7693 section 2.5 (parameter block; sequential mode: fanout = depth = 1, everything else 0).
    //   byte 0 digest length, 1 key length, 2 fanout, 3 depth, 4..7 leaf length, 8..15 node offset,
    //   16 node depth, 17 inner length, 18..31 reserved, 32..47 salt, 48..63 personalization.
    uint8_t P[64];
    memset(P, 0, sizeof P);
    P[0] = (uint8_t) outlen;
    P[1] = (uint8_t) key.size();
    P[2] = 1;
    P[3] = 1;
    if (!salt.empty()) memcpy(P + 32, salt.data(), 16);
    if (!personal.empty()) memcpy(P + 48, personal.data(), 16);
    uint64_t h[8];
    for (int i = 0; i < 8; i++) h[i] = BLAKE2B_IV[i] ^ ld64le(P + 8 * i);

    // RFC 7693 section 3.3: if there is a key, it is zero-padded to a full block and prepended to the data.
    Bytes d;
    if (!key.empty()) { d = key; d.resize(128, 0); }
    d.insert(d.end(), msg.begin(), msg.end());
    const uint64_t total = d.size();            // byte count that the final counter value must show
    // The data is cut into 128-byte blocks, the last one zero-padded. Empty data (no key, no message) is still
    // one all-zero block. The last block is never empty otherwise: 256 bytes of data are exactly 2 blocks.
    size_t nblocks = d.empty() ? 1 : (d.size() + 127) / 128;
    d.resize(nblocks * 128, 0);
    for (size_t i = 0; i < nblocks; i++) {
        bool last = (i + 1 == nblocks);
        uint64_t t = last ? total : (uint64_t)(i + 1) * 128;   // counter = number of data bytes fed so far
        blake2b_F(h, &d[i * 128], t, 0, last);                 // t1 = 0: messages here are far below 2^64 bytes
    }
    Bytes out(64);
    for (int i = 0; i < 8; i++) st64le(&out[8 * i], h[i]);
    return out;
}

// BLAKE2b digest. outlen 1..64, key 0..64 bytes, salt / personal empty or exactly 16 bytes.
// Returns an empty vector on invalid parameters.
inline Bytes blake2b(const Bytes &msg, size_t outlen, const Bytes &key = Bytes(), const Bytes &salt = Bytes(), const Bytes &personal = Bytes()) {
    Bytes h = blake2b_full_state(msg, outlen, key, salt, personal);
    if (h.empty()) return h;
    h.resize(outlen);
    return h;
}

// RFC 9106 section 3.3: variable-length hash function H'^T(A), T = outlen (1 <= T < 2^32).
//   T <= 64: H^T(LE32(T) || A)
//   else:    r = ceil(T/32) - 2
//            V_1 = H^64(LE32(T) || A), V_i = H^64(V_{i-1}) for i = 2..r, V_{r+1} = H^(T-32r)(V_r)
//            result = W_1 || ... || W_r || V_{r+1}, W_i = first 32 bytes of V_i
inline Bytes blake2b_long(const Bytes &in, uint32_t outlen) {
    if (outlen == 0) return Bytes();
    uint8_t le[4];
    st32le(le, outlen);
    Bytes first(le, le + 4);
    first.insert(first.end(), in.begin(), in.end());
    if (outlen <= 64) return blake2b(first, outlen);
    uint64_t r = ((uint64_t) outlen + 31) / 32 - 2;
    Bytes out;
    Bytes V = blake2b(first, 64);                       // V_1
    out.insert(out.end(), V.begin(), V.begin() + 32);   // W_1
    for (uint64_t i = 2; i <= r; i++) {
        V = blake2b(V, 64);                             // V_i
        out.insert(out.end(), V.begin(), V.begin() + 32);
    }
    Bytes last = blake2b(V, (size_t)(outlen - 32 * r)); // V_{r+1}, between 33 and 64 bytes long
    out.insert(out.end(), last.begin(), last.end());
    return out;
}

// ---------------------------------------------------------------------------------------------------------
// Self-test
// ---------------------------------------------------------------------------------------------------------

// Deterministic filler shared with the python generator scripts: byte i = (seed + 13*i + 7*(i>>8)) mod 256.
inline Bytes pwhash_kat_pattern(size_t n, unsigned seed) {
    Bytes b(n);
    for (size_t i = 0; i < n; i++) b[i] = (uint8_t)(seed + 13 * i + 7 * (i >> 8));
    return b;
}

inline int selftest_blake2b() {
    T t("blake2b");
    char name[128];

    // RFC 7693 Appendix A: BLAKE2b-512("abc")
    t.eqh("rfc7693 abc", blake2b(str("abc"), 64),
          "ba80a53f981c4d0d6a2797b69f12f6e94c212f14685ac4b74b12bb6fdbffa2d17d87c5392aab792dc252d5de4533cc9518d38aa8dbf1925ab92386edd4009923");
    // BLAKE2b-512("") (reference implementation / blake2b-kat.txt of the unkeyed hash)
    t.eqh("empty", blake2b(Bytes(), 64),
          "786a02f742015903c6c6fd852552d272912f4740e15847618a86e217f71f5419d25e1031afee585313896444934eb04b903a685b1448b755d56f701afe9be2ce");

    // Official keyed KAT (blake2b-kat.txt: key = 00 01 .. 3f, input = 00 .. n-1, 64-byte digest), as listed in
    // /repo/test/default/generichash.c `tests[]`. Entry index = n.
    {
        static const struct { int n; const char *hex; } kat[] = {
            {   0, "10ebb67700b1868efb4417987acf4690ae9d972fb7a590c2f02871799aaa4786b5e996e8f0f4eb981fc214b005f42d2ff4233499391653df7aefcbc13fc51568" },
            {   1, "961f6dd1e4dd30f63901690c512e78e4b45e4742ed197c3c5e45c549fd25f2e4187b0bc9fe30492b16b0d0bc4ef9b0f34c7003fac09a5ef1532e69430234cebd" },
            {   2, "da2cfbe2d8409a0f38026113884f84b50156371ae304c4430173d08a99d9fb1b983164a3770706d537f49e0c916d9f32b95cc37a95b99d857436f0232c88a965" },
            {   3, "33d0825dddf7ada99b0e7e307104ad07ca9cfd9692214f1561356315e784f3e5a17e364ae9dbb14cb2036df932b77f4b292761365fb328de7afdc6d8998f5fc1" },
            {   4, "beaa5a3d08f3807143cf621d95cd690514d0b49efff9c91d24b59241ec0eefa5f60196d407048bba8d2146828ebcb0488d8842fd56bb4f6df8e19c4b4daab8ac" },
            {   5, "098084b51fd13deae5f4320de94a688ee07baea2800486689a8636117b46c1f4c1f6af7f74ae7c857600456a58a3af251dc4723a64cc7c0a5ab6d9cac91c20bb" },
            {   6, "6044540d560853eb1c57df0077dd381094781cdb9073e5b1b3d3f6c7829e12066bbaca96d989a690de72ca3133a83652ba284a6d62942b271ffa2620c9e75b1f" },
            {   7, "7a8cfe9b90f75f7ecb3acc053aaed6193112b6f6a4aeeb3f65d3de541942deb9e2228152a3c4bbbe72fc3b12629528cfbb09fe630f0474339f54abf453e2ed52" },
            {   8, "380beaf6ea7cc9365e270ef0e6f3a64fb902acae51dd5512f84259ad2c91f4bc4108db73192a5bbfb0cbcf71e46c3e21aee1c5e860dc96e8eb0b7b8426e6abe9" },
            {   9, "60fe3c4535e1b59d9a61ea8500bfac41a69dffb1ceadd9aca323e9a625b64da5763bad7226da02b9c8c4f1a5de140ac5a6c1124e4f718ce0b28ea47393aa6637" },
            {  10, "4fe181f54ad63a2983feaaf77d1e7235c2beb17fa328b6d9505bda327df19fc37f02c4b6f0368ce23147313a8e5738b5fa2a95b29de1c7f8264eb77b69f585cd" },
            {  11, "f228773ce3f3a42b5f144d63237a72d99693adb8837d0e112a8a0f8ffff2c362857ac49c11ec740d1500749dac9b1f4548108bf3155794dcc9e4082849e2b85b" },
            {  12, "962452a8455cc56c8511317e3b1f3b2c37df75f588e94325fdd77070359cf63a9ae6e930936fdf8e1e08ffca440cfb72c28f06d89a2151d1c46cd5b268ef8563" },
            {  13, "43d44bfa18768c59896bf7ed1765cb2d14af8c260266039099b25a603e4ddc5039d6ef3a91847d1088d401c0c7e847781a8a590d33a3c6cb4df0fab1c2f22355" },
            {  14, "dcffa9d58c2a4ca2cdbb0c7aa4c4c1d45165190089f4e983bb1c2cab4aaeff1fa2b5ee516fecd780540240bf37e56c8bcca7fab980e1e61c9400d8a9a5b14ac6" },
            {  15, "6fbf31b45ab0c0b8dad1c0f5f4061379912dde5aa922099a030b725c73346c524291adef89d2f6fd8dfcda6d07dad811a9314536c2915ed45da34947e83de34e" },
            {  16, "a0c65bddde8adef57282b04b11e7bc8aab105b99231b750c021f4a735cb1bcfab87553bba3abb0c3e64a0b6955285185a0bd35fb8cfde557329bebb1f629ee93" },
            {  17, "f99d815550558e81eca2f96718aed10d86f3f1cfb675cce06b0eff02f617c5a42c5aa760270f2679da2677c5aeb94f1142277f21c7f79f3c4f0cce4ed8ee62b1" },
            {  18, "95391da8fc7b917a2044b3d6f5374e1ca072b41454d572c7356c05fd4bc1e0f40b8bb8b4a9f6bce9be2c4623c399b0dca0dab05cb7281b71a21b0ebcd9e55670" },
            {  19, "04b9cd3d20d221c09ac86913d3dc63041989a9a1e694f1e639a3ba7e451840f750c2fc191d56ad61f2e7936bc0ac8e094b60caeed878c18799045402d61ceaf9" },
            {  20, "ec0e0ef707e4ed6c0c66f9e089e4954b058030d2dd86398fe84059631f9ee591d9d77375355149178c0cf8f8e7c49ed2a5e4f95488a2247067c208510fadc44c" },
            {  21, "9a37cce273b79c09913677510eaf7688e89b3314d3532fd2764c39de022a2945b5710d13517af8ddc0316624e73bec1ce67df15228302036f330ab0cb4d218dd" },
            {  22, "4cf9bb8fb3d4de8b38b2f262d3c40f46dfe747e8fc0a414c193d9fcf753106ce47a18f172f12e8a2f1c26726545358e5ee28c9e2213a8787aafbc516d2343152" },
            {  23, "64e0c63af9c808fd893137129867fd91939d53f2af04be4fa268006100069b2d69daa5c5d8ed7fddcb2a70eeecdf2b105dd46a1e3b7311728f639ab489326bc9" },
            {  24, "5e9c93158d659b2def06b0c3c7565045542662d6eee8a96a89b78ade09fe8b3dcc096d4fe48815d88d8f82620156602af541955e1f6ca30dce14e254c326b88f" },
            {  25, "7775dff889458dd11aef417276853e21335eb88e4dec9cfb4e9edb49820088551a2ca60339f12066101169f0dfe84b098fddb148d9da6b3d613df263889ad64b" },
            {  26, "f0d2805afbb91f743951351a6d024f9353a23c7ce1fc2b051b3a8b968c233f46f50f806ecb1568ffaa0b60661e334b21dde04f8fa155ac740eeb42e20b60d764" },
            {  27, "86a2af316e7d7754201b942e275364ac12ea8962ab5bd8d7fb276dc5fbffc8f9a28cae4e4867df6780d9b72524160927c855da5b6078e0b554aa91e31cb9ca1d" },
            {  28, "10bdf0caa0802705e706369baf8a3f79d72c0a03a80675a7bbb00be3a45e516424d1ee88efb56f6d5777545ae6e27765c3a8f5e493fc308915638933a1dfee55" },
            {  29, "b01781092b1748459e2e4ec178696627bf4ebafebba774ecf018b79a68aeb84917bf0b84bb79d17b743151144cd66b7b33a4b9e52c76c4e112050ff5385b7f0b" },
            {  30, "c6dbc61dec6eaeac81e3d5f755203c8e220551534a0b2fd105a91889945a638550204f44093dd998c076205dffad703a0e5cd3c7f438a7e634cd59fededb539e" },
            {  31, "eba51acffb4cea31db4b8d87e9bf7dd48fe97b0253ae67aa580f9ac4a9d941f2bea518ee286818cc9f633f2a3b9fb68e594b48cdd6d515bf1d52ba6c85a203a7" },
            {  32, "86221f3ada52037b72224f105d7999231c5e5534d03da9d9c0a12acb68460cd375daf8e24386286f9668f72326dbf99ba094392437d398e95bb8161d717f8991" },
            {  33, "5595e05c13a7ec4dc8f41fb70cb50a71bce17c024ff6de7af618d0cc4e9c32d9570d6d3ea45b86525491030c0d8f2b1836d5778c1ce735c17707df364d054347" },
            {  34, "ce0f4f6aca89590a37fe034dd74dd5fa65eb1cbd0a41508aaddc09351a3cea6d18cb2189c54b700c009f4cbf0521c7ea01be61c5ae09cb54f27bc1b44d658c82" },
            {  35, "7ee80b06a215a3bca970c77cda8761822bc103d44fa4b33f4d07dcb997e36d55298bceae12241b3fa07fa63be5576068da387b8d5859aeab701369848b176d42" },
            {  36, "940a84b6a84d109aab208c024c6ce9647676ba0aaa11f86dbb7018f9fd2220a6d901a9027f9abcf935372727cbf09ebd61a2a2eeb87653e8ecad1bab85dc8327" },
            {  37, "2020b78264a82d9f4151141adba8d44bf20c5ec062eee9b595a11f9e84901bf148f298e0c9f8777dcdbc7cc4670aac356cc2ad8ccb1629f16f6a76bcefbee760" },
            {  38, "d1b897b0e075ba68ab572adf9d9c436663e43eb3d8e62d92fc49c9be214e6f27873fe215a65170e6bea902408a25b49506f47babd07cecf7113ec10c5dd31252" },
            {  39, "b14d0c62abfa469a357177e594c10c194243ed2025ab8aa5ad2fa41ad318e0ff48cd5e60bec07b13634a711d2326e488a985f31e31153399e73088efc86a5c55" },
            {  40, "4169c5cc808d2697dc2a82430dc23e3cd356dc70a94566810502b8d655b39abf9e7f902fe717e0389219859e1945df1af6ada42e4ccda55a197b7100a30c30a1" },
            {  41, "258a4edb113d66c839c8b1c91f15f35ade609f11cd7f8681a4045b9fef7b0b24c82cda06a5f2067b368825e3914e53d6948ede92efd6e8387fa2e537239b5bee" },
            {  42, "79d2d8696d30f30fb34657761171a11e6c3f1e64cbe7bebee159cb95bfaf812b4f411e2f26d9c421dc2c284a3342d823ec293849e42d1e46b0a4ac1e3c86abaa" },
            {  43, "8b9436010dc5dee992ae38aea97f2cd63b946d94fedd2ec9671dcde3bd4ce9564d555c66c15bb2b900df72edb6b891ebcadfeff63c9ea4036a998be7973981e7" },
            {  44, "c8f68e696ed28242bf997f5b3b34959508e42d613810f1e2a435c96ed2ff560c7022f361a9234b9837feee90bf47922ee0fd5f8ddf823718d86d1e16c6090071" },
            {  45, "b02d3eee4860d5868b2c39ce39bfe81011290564dd678c85e8783f29302dfc1399ba95b6b53cd9ebbf400cca1db0ab67e19a325f2d115812d25d00978ad1bca4" },
            {  46, "7693ea73af3ac4dad21ca0d8da85b3118a7d1c6024cfaf557699868217bc0c2f44a199bc6c0edd519798ba05bd5b1b4484346a47c2cadf6bf30b785cc88b2baf" },
            {  47, "a0e5c1c0031c02e48b7f09a5e896ee9aef2f17fc9e18e997d7f6cac7ae316422c2b1e77984e5f3a73cb45deed5d3f84600105e6ee38f2d090c7d0442ea34c46d" },
            {  48, "41daa6adcfdb69f1440c37b596440165c15ada596813e2e22f060fcd551f24dee8e04ba6890387886ceec4a7a0d7fc6b44506392ec3822c0d8c1acfc7d5aebe8" },
            {  49, "14d4d40d5984d84c5cf7523b7798b254e275a3a8cc0a1bd06ebc0bee726856acc3cbf516ff667cda2058ad5c3412254460a82c92187041363cc77a4dc215e487" },
            {  50, "d0e7a1e2b9a447fee83e2277e9ff8010c2f375ae12fa7aaa8ca5a6317868a26a367a0b69fbc1cf32a55d34eb370663016f3d2110230eba754028a56f54acf57c" },
            {  51, "e771aa8db5a3e043e8178f39a0857ba04a3f18e4aa05743cf8d222b0b095825350ba422f63382a23d92e4149074e816a36c1cd28284d146267940b31f8818ea2" },
            {  52, "feb4fd6f9e87a56bef398b3284d2bda5b5b0e166583a66b61e538457ff0584872c21a32962b9928ffab58de4af2edd4e15d8b35570523207ff4e2a5aa7754caa" },
            {  53, "462f17bf005fb1c1b9e671779f665209ec2873e3e411f98dabf240a1d5ec3f95ce6796b6fc23fe171903b502023467dec7273ff74879b92967a2a43a5a183d33" },
            {  54, "d3338193b64553dbd38d144bea71c5915bb110e2d88180dbc5db364fd6171df317fc7268831b5aef75e4342b2fad8797ba39eddcef80e6ec08159350b1ad696d" },
            {  55, "e1590d585a3d39f7cb599abd479070966409a6846d4377acf4471d065d5db94129cc9be92573b05ed226be1e9b7cb0cabe87918589f80dadd4ef5ef25a93d28e" },
            {  56, "f8f3726ac5a26cc80132493a6fedcb0e60760c09cfc84cad178175986819665e76842d7b9fedf76dddebf5d3f56faaad4477587af21606d396ae570d8e719af2" },
            {  57, "30186055c07949948183c850e9a756cc09937e247d9d928e869e20bafc3cd9721719d34e04a0899b92c736084550186886efba2e790d8be6ebf040b209c439a4" },
            {  58, "f3c4276cb863637712c241c444c5cc1e3554e0fddb174d035819dd83eb700b4ce88df3ab3841ba02085e1a99b4e17310c5341075c0458ba376c95a6818fbb3e2" },
            {  59, "0aa007c4dd9d5832393040a1583c930bca7dc5e77ea53add7e2b3f7c8e231368043520d4a3ef53c969b6bbfd025946f632bd7f765d53c21003b8f983f75e2a6a" },
            {  60, "08e9464720533b23a04ec24f7ae8c103145f765387d738777d3d343477fd1c58db052142cab754ea674378e18766c53542f71970171cc4f81694246b717d7564" },
            {  61, "d37ff7ad297993e7ec21e0f1b4b5ae719cdc83c5db687527f27516cbffa822888a6810ee5c1ca7bfe3321119be1ab7bfa0a502671c8329494df7ad6f522d440f" },
            {  62, "dd9042f6e464dcf86b1262f6accfafbd8cfd902ed3ed89abf78ffa482dbdeeb6969842394c9a1168ae3d481a017842f660002d42447c6b22f7b72f21aae021c9" },
            {  63, "bd965bf31e87d70327536f2a341cebc4768eca275fa05ef98f7f1b71a0351298de006fba73fe6733ed01d75801b4a928e54231b38e38c562b2e33ea1284992fa" },
            {  64, "65676d800617972fbd87e4b9514e1c67402b7a331096d3bfac22f1abb95374abc942f16e9ab0ead33b87c91968a6e509e119ff07787b3ef483e1dcdccf6e3022" },
            {  65, "939fa189699c5d2c81ddd1ffc1fa207c970b6a3685bb29ce1d3e99d42f2f7442da53e95a72907314f4588399a3ff5b0a92beb3f6be2694f9f86ecf2952d5b41c" },
            { 127, "76d2d819c92bce55fa8e092ab1bf9b9eab237a25267986cacf2b8ee14d214d730dc9a5aa2d7b596e86a1fd8fa0804c77402d2fcd45083688b218b1cdfa0dcbcb" },
            { 128, "72065ee4dd91c2d8509fa1fc28a37c7fc9fa7d5b3f8ad3d0d7a25626b57b1b44788d4caf806290425f9890a3a2a35a905ab4b37acfd0da6e4517b2525c9651e4" },
            { 129, "64475dfe7600d7171bea0b394e27c9b00d8e74dd1e416a79473682ad3dfdbb706631558055cfc8a40e07bd015a4540dcdea15883cbbf31412df1de1cd4152b91" },
            { 254, "d444bfa2362a96df213d070e33fa841f51334e4e76866b8139e8af3bb3398be2dfaddcbc56b9146de9f68118dc5829e74b0c28d7711907b121f9161cb92b69a9" },
            { 255, "142709d62e28fcccd0af97fad0f8465b971e82201dc51070faa0372aa43e92484be1c1e73ba10906d5d1853db6a4106e0a7bf9800d373d6dee2d46d62ef2a461" },
        };
        Bytes key(64);
        for (int i = 0; i < 64; i++) key[i] = (uint8_t) i;
        for (size_t k = 0; k < sizeof kat / sizeof kat[0]; k++) {
            Bytes in((size_t) kat[k].n);
            for (int i = 0; i < kat[k].n; i++) in[i] = (uint8_t) i;
            snprintf(name, sizeof name, "keyed kat n=%d", kat[k].n);
            t.eqh(name, blake2b(in, 64, key), kat[k].hex);
        }
    }

    // /repo/test/default/generichash.exp: line i (0..63) = BLAKE2b(in = 00..i-1, key = first 1+i bytes of 00..3f,
    // outlen = 1+i); line 64 = unkeyed 64-byte hash of 00..3f.
    // /repo/test/default/generichash2.exp: same key/outlen, but the input 00..i-1 is fed three times.
    // /repo/test/default/generichash3.exp: as generichash.exp with salt "5b6b41ed9b343fe0" and personal "5126fb2a37400d2a"
    // (16 ASCII bytes each), followed by a few salt-only / personal-only / unkeyed combinations of in = 00..3f.
    {
        static const char *exp1[65] = {
            "05",
            "5d8c",
            "22221b",
            "d4974470",
            "be8492fb36",
            "edc178279907",
            "26848f2ae0c2e6",
            "045cf1235112b9f6",
            "5110bad569356dfa6c",
            "1339d95145bc8a33d3aa",
            "3dbb39b4d57c5566808a88",
            "22378260939cee01022686a2",
            "e18b37abcead6cc520e6504dac",
            "3cbb356604cf862e62ad2f534323",
            "44c41ba227b191961b475ec5875057",
            "0c7c9c3922d41a7b2b3b20f92685d560",
            "8508c01d19709bdd881866aa1f8c63ca06",
            "f6b2dddfbece6d7d52e114c7e5a97772e18d",
            "d36b5af9591d0cd3747254e26bc6e1de5b6081",
            "f7f7ce69149418d7ec33327bd86e14bcca4b8ed7",
            "2c9aba9a56de21165753c4f3cee9310a9c8fe546b9",
            "ee5e08cee5fbbcb51900341bb30db6695920faecda6a",
            "fe9ffb56dc5716b91bc7d77ce7b05e7cc39c31683bec91",
            "c500ae0f5bff0f1106ce104ae9c291add7207e0d8ebcb1ed",
            "68e23d12000b387158afd6458d3bcef9c26936ca68b5c0f3d6",
            "220efa2c09f67dbb02aa623bbc0cb92107a30f53b633e78d4b44",
            "54df984b47e4bcd489d9c045c488743fac91c9b3e0cbcc37495fac",
            "b4852cf66c6ce164c002bbb62ded0faeb4a39c39fdffb372ff14dd31",
            "d79cafb5565e7775616e1c9b09100d61fb71efaf25affcf2d480d2c980",
            "ae557883145e374adef583ba0550429d5cdd86b254c33bf52d02e070efda",
            "9f53d28c0df7b327c2eb4c8a12c742829225b7f30fda7baf64135098fdb01b",
            "a9f51bb7f6a3e9cdb96ce652c07d177962a348a9cced1b92f948187e59b44463",
            "f2960cf5fd57fc92f549cd5a2803147964f60e7703e1b8897c088cded74c7bd39f",
            "89981acbb690eb03ed2a67510d1d85a1b4f9d496fdfe134550ae14146bb05fd5fedd",
            "6d8245383fd7c418b46511339e711b9d4a0d1f5fdf6de45fdd3d0664164b7bf878a124",
            "1f0b6b083d524e0741710ddef499ce88f51083bb3ad80a1815cc57acf006436e9b6ad72b",
            "fc35bfe34c915020bb8b44fa0a19933774eaaf61919780fd55564e085bc31646dfc1d426e9",
            "117d58f1f8cb2c036102686035975be90550795e5a0e3469a8f7a2cba9bc88961852b18c8ae3",
            "c679c950818729c799bb7f39cef2d89fa80a147817f379a073ef1ccafea5d369815c70373bf5be",
            "d487ad2143024ee8c645a066c035b74abe3a11f1c9fcd738b154b8ca37134d74fb78c40d1a2274cf",
            "2d3ee00828b0ccea6812b40f214fab6d4f23f7e74ae228115bcb208ced2d5e1cb9cdff41de912af7a8",
            "a697b26d4c4475e312288b98ae2ec4954d3c74c8e144c0ab518616ff9f52918a946fd765af75e761178c",
            "f647bcba2a711f431d6d453aa7d75dcf5bb9ab6f8b83f89117230f633e7580f27c71c4f4c211cadd04f587",
            "1fc1d6a4db753e2f4fd1456b2b709dd70ad58547eeda9d5a55762b5cd4097a7a1bd73cc633ec27168ee65631",
            "1cfe0f63ab155379b4a1b5bf694a33635097b8e4b6dbd3b983d62454d36d7bf4550bece301abdd27b2dd76ca9f",
            "73dee8a0a558e7b6f6eefe411280e253b05ef006d499849fea5d6a95f9141ee160322fff3a3f70e10c84025e02ce",
            "edf9e706f4acae4f4bed72404f14458ba075d2b9d9a4a1ed46d1f1c5e23113a74cce9f7735432a922a3d8097f22c7a",
            "95d5cd54c6722ac4335fa0ab38d388c9fd0baea48a9078605e400534ef38f13abb1d770da84b90b0256e1c1b64f54ba9",
            "fe6b85ee8b5eb7da035264ed46e6dcd948571018d1f6976de4102fcb4bb5f1422e7df1b5aaa5b6b56c5961966db29ead6e",
            "499ab83c01e4bf74ea5036392f9f810eae8a066fff49e316e4288baccb2001efa24f64cef7bfae70c90f139b198e53ad87f1",
            "eac6c9d97264241a8adba22ee925438ed9787a547018608a10676a7594bc51c60294bd9159fbcada9022b44880a37c5b07c1b4",
            "0771e3ae24bbfe424800d4bae776fef3da1607990019e7c4b30bc8140061ebf0b64aad7b018a878d579caa67154b98a04402735e",
            "d569e5f5fe197387451441911a2be2effa606dad39820af44cea056bd9d1499dde41fa1c6c3a0459d5866c944bec2ac83328953726",
            "68e523ded865c4d8318d61c312189a59597bbc3995e312e85137611af761a5f73508ac79e359edf729d4508830fc642b432f09185914",
            "601af664ae596166707244adbb4f704593b355c6a659c844d853c6647fb265cdbcea26ed43657251dec37f2d6453fa0ace55f22d303cb0",
            "703d8e552236b2090143444545f0a61a809d8ef9843bcf6883f61671fb31c8d6ac9fd373e7f9f79a0c72fa6a37dc655ba1fb01a5f41e36d1",
            "03896f594afd1bf97acb862106eb05a1d8b54ec08d184812a79f4dc7b287a7486e60927b6c23e5f51fcbc94798648b28fd13438300567bec95",
            "cc66a891768e95a2717b040c111996f14942f10f2475c33aa5f1c97476e6f8386733d6b21c16102d01ff1f715475f01099e1f19aa763238a38a9",
            "007aac8eae29e5bf2be1b54857f5fe80c324424a3273b46e55482fbc4ae1033df4a97016b60c81a5344abd6366f56d8cee2c2e94619418293990de",
            "50c81e92605a6111ea4c7c602acfb3945d4c2631c8c08fa4b594134577f5c2ffcca90d48604162cfdb2a0bb40416ff9134a275461b829ff1b875f995",
            "661b7a1c70170aa7559aa82639fa65c1bdcfb5e336cb23b40a9edf5b4f6eeca1a176a9844da705cafb990dd94b9dc6194eb6b2de3eca9dbd255bb267a1",
            "9ff11c233aaf5e0242b0dbe6e110a42e58b86141ad0ef130fd2bb895700019782de66d435bf0a8d6f5eda5d7d1105e7a6f3ef17a9da8f9c16fc21075431a",
            "bdd3d0fafe8ba2b29d1ac0b79aa46e249cc9d3a82d0f772d690637bbdd353722356658d00436ff5dd5239ab747979329345eb8c7ed11b7331456ae87350fcf",
            "bd965bf31e87d70327536f2a341cebc4768eca275fa05ef98f7f1b71a0351298de006fba73fe6733ed01d75801b4a928e54231b38e38c562b2e33ea1284992fa",
            "2fc6e69fa26a89a5ed269092cb9b2a449a4409a7a44011eecad13d7c4b0456602d402fa5844f1a7a758136ce3d5d8d0e8b86921ffff4f692dd95bdc8e5ff0052",
        };
        static const char *exp2[64] = {
            "05",
            "22a8",
            "287a9d",
            "d8eeab1c",
            "d4ce34973f",
            "584f7ac46f0c",
            "32c848bb67545b",
            "8438e21361bca125",
            "27a6faae998b4fabb4",
            "508c05a4f2daee150bad",
            "68c886c97dce370e8c72fa",
            "d41e90824ace31ba7bf512ac",
            "6e0d7a1e2b92a68e45ea867895",
            "1fc5ee8715312db38da9066152a5",
            "3138504ba58fcd56c62752bc98a6d2",
            "b689ecd5357cb5276007627fbdf4082e",
            "afe251881beb8b9dfa3d4f76aafc7b2995",
            "980eaa215cb0911027c5564db809bb8ac0a1",
            "56048436883efdfc8feaa239d960fa5ce24d42",
            "fce905b6d57fd841f58899a77887a4988e6aa2d1",
            "6f7afd81d24ccf4d98188b71bdbb7e6c637620879b",
            "50406b4c37b48621505942b35dff30a75f7d2868146b",
            "32c21792e18e7a79a4a20ef291721d7eab4e4cf99fbe79",
            "4b9d9ac5dbfb825acd87588667e6683e0fde4cdcd0a532f9",
            "2b55a3ebb461623e5de4fbacfb8b26819cfa8adeb094c8c13b",
            "4c7d261780b25a864a008352ad64d1ae7fc21d608317813cf63f",
            "f0ca06b8e12c48f1511d0991ba562f06dbe6ba6d5e18280224cc6a",
            "838a5f7056bfbca65a245796dd3510cb07ff1614b44989d91ac650b2",
            "a58a8da276577160441f8b9e9c52a041b7caf7cd316acc506f620ab0e1",
            "e03940a7231049ff2b86c47a28e4951f105d2a3aa3421190fe0ed6aa4ad6",
            "a7af977c0b34294b1a03d0cc2dcf6eb72f9a32721c3f70128384aeb1f56047",
            "0e5625d74ada70b8a3b23ca76894e9a0f9dee88f5e3e370e27ad25061ea9dd6f",
            "775fd9257b265997a16557a445985091798af60e68d06e3ae8e2e886d23ed12f6e",
            "852e8d4208166a990e215ed06b86c708f491e014584ac9b08f97f24d9f08a84c8e83",
            "fbdca0db9a933fcffcce2ae694d7e16e7571b100564fcb3d69cec82ea42f254a493a32",
            "50530ae5eb9780f3fafc5d179f7b363a0d69314a8545d68588b5fec28c8e8d1a011857f6",
            "5eb71553ff1ac4aba3f84faeb70281c738e3428aae68edc9842ebf55ffd7184a015e323445",
            "39b279c6d9cca89f8052f953abf71041faf3491b2b965cef503d715e8bf339e02a58fd0e0fba",
            "e315bef5f4918e881dc8d39d3c6b3948c2ea8e21ac00ee7c7ab875a53e194add0c3d9b8bcba5b2",
            "4e950f0e1da3111d054136fbdf10b4b88b20de6ad0c6bd5024a5e0a8b4cd7059685c0b663a00cbfa",
            "b1ed8d99fd62a4f504ecdd58a01759a85932a7783f88f314cdca5019e05063dcc1fcb3c39b8c07758e",
            "e4d78e734b0cb5bbd83e22bc67f97bbc8a3644f789f6c26a3ec2fe72c75b4d48a3bc000e6f2f2f0726fe",
            "162e01beb796433a2771eab54611fc93677ed12c73a93ea4d75e148bec7ab14b3e31ab7f395456fb2b47ab",
            "759c30631fd52e80a22f0614125dcd136287db65079908b75fb5b03be1cdf6dd0a1c9de0cc759cdd82c33758",
            "af2992acdaf0908f03a2025854de6446123c919b1e24db711df6cb070091343b4e6f5b2716c20c2547f50f1fde",
            "b833064955778a611fe41a9f1a2de730a16fb4e61a7e2fb67425ce199101d4e71dd7b0c731ea4188e9cc30e9bc52",
            "e546ee327168d9b4e0d73d9a043f9ef03f880bc8aee91b0923704eb7361ac916b00f5c71c872e2f911a77ef76704b5",
            "83d86f056729fa1a6e1d3fe8c3d2ebe42b327025747f2e6ba923d2b7b893e31571839937222852033844e585b17d462f",
            "5d70402524fbef569552a3ff6854087e090ff9ac9ea03aba92cf9f33a28845fa6a1631090dca10e05cdd3341b391a15fcf",
            "64f4d3ebf0717900f7c04512d1e18f9985975991d4254d76c4e2ee02c0edd6f912f715991984731b808b8370be1f201e53bf",
            "7d45eae6626dfc9ec3591764b8c39c72ca67e6c1893ab590963a75922719937d1d0ff188a510ffbdf9c777a4d565b3683cbf38",
            "68e007db5067874548c0d12a9ca709221f9bd352e3eb9847fde6c5de4a8550f4b85b67fe4e5aad70626ebb27d71e5b528effb2e6",
            "b0dc4dc0bd0d41a8ccfa45a127542079bc4e6f63a63863a9ce21f44481d23eff1060ea03851759b9317209405d5b7cc4387cc2759b",
            "adf6a9df484e93eb3a6113c3fd68a49b2166878fc652833c9cbef3fd8dd281d385ad0374bc25bc865b216ca395e21c30b9eda1d58a8d",
            "f1df9bc169323da338daa8a94867db96a1a2a6feb26569198fb4591ae602ba6f766a879e745d71e93b6cb8886b914f2bf4aa55d4c48045",
            "0c7446078a5077f33bba1ebfad60bbf1b1df47aab2eb3f3f3274ce56ead7800cf095af8208b6d570c4c832fe33227bbbc0842a13e1e82ad9",
            "accd0b4682e56698ecc55a60a8db8b3f950b6bffc5a1d160daf6ca25e13e3b4983ced5903df0bdc21f70c2ec5adb1a2ec9617df645cdd17ac9",
            "b787bae190ff2608eb383e0299cc10d6b7232de67ab74285e7bfa933d79f91226066537d74a9d40140d7b1683c2d42cd1935f6430cc554db2b69",
            "d09b717a0c80f581c07b8813e0ae79cec2188f77122f7477954610655a20420f13eb1b68cacde8c1fdf7a9a398efa72f40c85f0122812eaa33aba0",
            "87fff156d9895917468e92848fdcfacc134ca3bfc7fce484bd6db41c682ee2ee47151df0fa863d5641633d908c0328e6cbe080e80d8293530ffd2c4f",
            "1b17b2c0e7afcd224ec9bbe9ce9a13a00bd0a336b863f1b4d5304043778244323bd23fb6154a2e1e94aa48f6ff0e12787a50ca09e9e72ece9e038f6218",
            "23ac1ccd5e7df51b65b284650158d662e7ef51ebae01b879f39cec484b688c792f8e854bd8ca31ffe8796d28f10e49ab402dab47878a21cb95556dc32b0a",
            "f8f5323ebcc28bf927e72d342b5b70d80ba67794afb4c28debad21b0dae24c7a9252e862eb4b83bea6d9c0bb7c108983c987f13d73f250c7f14483f0454a24",
            "55b97ca594d68ccf69a0a93fe7fa4004c7e2947a8cac4ca4a44e17ac6876f472e3f221b341a28004cd35a79cfad7fabb9378ce5af03e4c0445ebbe9540943bbd",
        };
        static const char *exp3[75] = {
            "ba",
            "6139",
            "3a1666",
            "5797e9d0",
            "834a26efe6",
            "d7e9e862bbce",
            "40d8b84c374750",
            "276789189244cf04",
            "16f73ffe0673cc9992",
            "b3835bfaf6eb71d94078",
            "8c624e844d34f4a59f34cc",
            "e0a394962413ad09975df3cf",
            "47f043c3aacb501f97e0458ae3",
            "b4a11f2fb72a7e6f96fdacf98d49",
            "f434079e9adeb244047cb6855f9854",
            "5fbe885c4b2d4e0d78dc5905622a277a",
            "e262ba3e2ab76efdf83513108e3b987d1b",
            "add93dde78d32e77bc039c34a49043f19d26",
            "093842ac10e2eb1237ddc9ca9e7990cf397772",
            "09e7f6a0e2ea4888f1dbf6562effd1561c65029c",
            "bd33a9ec914f5b81864a49184338e4062d6c6b2b2e",
            "8dc46295235d94f5881d429a5ad47f9db9e35cf8c6b3",
            "ba5df554dca7ac1cba4889fa88adf3070fbf4ab5d187b5",
            "1ff84715e71c66214d271d421395fb6166db97b1d47ed697",
            "75a0d227c70549f5b0c933b7b21f151355bd47e04b6085c91f",
            "a32a5c9439a0fa771dcbe7f338b5dcef62a754edc4952614d6f0",
            "53a87de519cdcc7f64730d58bce6baaf7b44c5c428a4611a208ad4",
            "5e5ad8f0c4f083f9b7a5154d9c0dfd0f3d2fce94cf54fc215450314a",
            "9c76b9e63c77e6564b1e5111c2fb140046e1e5a4f900a7cfc2bac3fcfa",
            "bb919251ca310eb9b994e5d7883bc9fa2144b59b8d5d940677b7130ac777",
            "faa492a66f08ef0c7adb868fcb7b523aedd35b8ff1414bd1d554794f144474",
            "9b273ebe335540b87be899abe169389ed61ed262c3a0a16e4998bbf752f0bee3",
            "1e0070b92429c151b33bdd1bb4430a0e650a3dfc94d404054e93c8568330ecc505",
            "e3b64149f1b76231686d592d1d4af984ce2826ba03c2224a92f95f9526130ce4eb40",
            "5f8e378120b73db9eefa65ddcdcdcb4acd8046c31a5e47f298caa400937d5623f1394b",
            "74c757a4165a1782c933e587353a9fd8f6d7bf26b7f51b52c542747030bfb3d560c2e5c2",
            "2d5ee85cc238b923806dd98db18919d1924f2340ec88917d4ce1799cbfd5f2cb9df99db2e1",
            "c93ff727e6f9822efec0a77eed0025c0eff19127bf8746b7c71c2a098f57cef02febb86a1e6c",
            "adfb6d7ba13779a5dd1bbf268e400f4156f0f5c9d5b670ff539e1d9c1a63373416f3001f338407",
            "3a6900e58a448887d77c5911e4bdde620e64f25b2d71723fa60f7cb3efa7c320b6153bdbc3287949",
            "413eb0fd379b32dd88e82242a87cc58ce3e64c72352387a4c70f92ee5c8d23fa7ecd86f6df170a32d2",
            "92d0d3cacc3e25628caf6f2c4cd50d25d154ac45098f531d690230b859f37cfe089eb169f76bba72a3ff",
            "92f6ccc11a9a3bee520b17e0cddc4550c0e9cf47ddd9a6161284259ffb161c1d0675b505cb1066872768e8",
            "a3cd675804e6be7f120138a9eaadcd56bb7763d1c046e87fe0d358c8276b0d24621f46c60b46e397933b75b4",
            "304a1af53cbdd6486b8419d1ebd5e9528c540d8dc46a10be49067f46a0617229577015d776783f702b2954df43",
            "d8a6358970446453ac0c82c758644ab68989b5b4f06f9768807ce0c5f2a0dbac1e8450f4e3a02deecf7b54b6a45d",
            "1264b8dee9ac4aa8de69a43ada95cc95f20230f33836d4a1db8c2466ab38361686e5ac282025ccc2e0f6a1cd98a4dd",
            "7eed787abaa7f4e8b8aa3090f0676201cfbaaf350899661cdd5216ac0b5cd874443f5c0688ffd7ca1ccbfe1ca7e1a3f5",
            "8907f0218585167962a8e8213559a643dd03c2bf1a7a5ad3e3bc5f88c0ff1532ee8cd29880e7e0e68da22a5798aef27cc5",
            "12dea17b0733e5060751b1115e10c3d4b2f4583bcd009d9f1f42ec23d4a6a0df1185d3abbdbe86de08569e70583d6de1c1fe",
            "8ff75e91f1de547dc3a25472db2f51f5910a290c449603da54207b5e39bd735d240ec913b52df90709b5d29357971d6c341452",
            "4a3b16b12400f38e74778efc3a4caa52ec6fdf6b0180a5bfac9189e52e162c10e8911a54ab33e2b389ee1949e58edaa119e2b2b9",
            "c9943e7186fdc9bbfa1d7087fa7086babe6fcf95a6196d1772187854071304e2f1fff39e6e6f48f76addb16d5c00249e0523aac91f",
            "0297f16fdd34add9cc87b4adf816525b590ba08ac733c43f8d225d194df4f9c83b4dce617be51e25b5f6c80dff249f27c707de20e422",
            "576bb891eab9930998e2e73b5d0498e3c5f040f8dec9397a8c7a622c17de01fee7cc936e3bd4de1f7fd8b31dea9e70c65462bbb5dc7b50",
            "9416a57ae7c8c51c6e008f940fe06d8ebc02c350c19a2f71583a6d260b085670d73a95248fef0f4cae5292ba7db1189a7cd9c51122ba7913",
            "ea644b9051cca5eee8868a553e3f0f4e14739e1555474151156e10578256b288a233870dd43a380765400ea446df7f452c1e03a9e5b6731256",
            "f99cc1603de221abc1ecb1a7eb4bbf06e99561d1cc5541d8d601bae2b1dd3cbe448ac276667f26de5e269183a09f7deaf35d33174b3cc8ad4aa2",
            "ee2be1ec57fdac23f89402a534177eca0f4b982a4ed2c2e900b6a79e1f47a2d023eff2e647baf4f4c0da3a28d08a44bc780516974074e2523e6651",
            "9cda001868949a2bad96c5b3950a8315e6e5214d0b54dcd596280565d351806ef22cf3053f63623da72fcad9afa3896641658632334c9ec4f644c984",
            "c6d6722a916651a8671383d8260873347d9c248696b4cb3dac4dea9ba57ed971127cb18e44211d7e14177ace248b3c6e0785356ee261ebdc6ef0faf143",
            "5dd258a3e7505bc6b9776b0df25676a1c19e2c8258c7b5f2e361423523d96299eb6827bc7c27e7bca2d2b59d717c2ebcb05e6dcaa32289d96fae9a4077ef",
            "19c14de35fe19c92cc0e624280e4136355d4cfa9a0a98b090c4b06f5665021920725852ff1f566b0c8c37157b25fb9f947a2e70b40577a17860a0732c170ac",
            "5fcdcc02be7714a0dbc77df498bf999ea9225d564adca1c121c9af03af92cac8177b9b4a86bcc47c79aa32aac58a3fef967b2132e9352d4613fe890beed2571b",
            "1afc8ec818bef0a479d2b4cac81d40a52cafa27f6d80c42fc23cbaf4141882ab59ab1101922fcb6e707ef2f61efd07cce5d09094e6bee420b1b96998c7cee96d",
            "1afc8ec818bef0a479d2b4cac81d40a52cafa27f6d80c42fc23cbaf4141882ab59ab1101922fcb6e707ef2f61efd07cce5d09094e6bee420b1b96998c7cee96d",
            "5789f474edd5206ededaccfc35e7dd3ed730748125b5395abf802b2601126b19b109a1db67556945bc79bb25e1ab59610599d155070e0e04354f11a6a5d6f3ac",
            "e78efc663a5547c089f2b3b08973c974c4bfd365eac18b80c68bdb3b1ba4554b54d6b8465a68a3b9aa0bc020621f16efd5b8dd8c7c01ed9ee3ec5544aae465ff",
            "1afc8ec818bef0a479d2b4cac81d40a52cafa27f6d80c42fc23cbaf4141882ab59ab1101922fcb6e707ef2f61efd07cce5d09094e6bee420b1b96998c7cee96d",
            "1afc8ec818bef0a479d2b4cac81d40a52cafa27f6d80c42fc23cbaf4141882ab59ab1101922fcb6e707ef2f61efd07cce5d09094e6bee420b1b96998c7cee96d",
            "fb4e2ad6b7fe6afd2ba06d5c1d79379c5bf10e336a35c89a1aaf408a805171716e0635a5b1d18190131e15b6888510bcb3e3752b050f892a09dbbde60b051495",
            "5789f474edd5206ededaccfc35e7dd3ed730748125b5395abf802b2601126b19b109a1db67556945bc79bb25e1ab59610599d155070e0e04354f11a6a5d6f3ac",
            "e78efc663a5547c089f2b3b08973c974c4bfd365eac18b80c68bdb3b1ba4554b54d6b8465a68a3b9aa0bc020621f16efd5b8dd8c7c01ed9ee3ec5544aae465ff",
            "4f9875a42ba0da8ae3448d2d62b1ff51be672eb1b8a1b0fa5bcd5334c861eff06b5903d672d318fd04e0ef94ddd37eca6d4ad2051a36a0236dc4cc09a5a44358",
            "ec9f272db92d1fa99324115f34cda8b4690ad029c1df36986cf9e1f844d8fdeca8e8e8311620ad24cbbfa12eccb676b979565405c8e2e20a2e4f18fb27c93d76",
        };
        Bytes k64(64), in64(64);
        for (int i = 0; i < 64; i++) { k64[i] = (uint8_t) i; in64[i] = (uint8_t) i; }
        Bytes salt = str("5b6b41ed9b343fe0"), pers = str("5126fb2a37400d2a");
        for (size_t i = 0; i < 64; i++) {
            Bytes in = sub(in64, 0, i), key = sub(k64, 0, 1 + i);
            snprintf(name, sizeof name, "generichash.exp line %zu", i);
            t.eqh(name, blake2b(in, 1 + i, key), exp1[i]);
            snprintf(name, sizeof name, "generichash2.exp line %zu", i);
            t.eqh(name, blake2b(cat(in, in, in), 1 + i, key), exp2[i]);
            snprintf(name, sizeof name, "generichash3.exp line %zu", i);
            t.eqh(name, blake2b(in, 1 + i, key, salt, pers), exp3[i]);
        }
        t.eqh("generichash.exp line 64", blake2b(in64, 64), exp1[64]);
        // generichash3.c after the loop (in = 00..3f, 64-byte output):
        t.eqh("gh3 unkeyed salt+pers (keylen 0)", blake2b(in64, 64, Bytes(), salt, pers), exp3[64]);
        t.eqh("gh3 unkeyed salt+pers (key NULL)", blake2b(in64, 64, Bytes(), salt, pers), exp3[65]);
        t.eqh("gh3 keyed pers only", blake2b(in64, 64, k64, Bytes(), pers), exp3[66]);
        t.eqh("gh3 keyed salt only", blake2b(in64, 64, k64, salt, Bytes()), exp3[67]);
        t.eqh("gh3 one-shot unkeyed salt+pers", blake2b(in64, 64, Bytes(), salt, pers), exp3[68]);
        t.eqh("gh3 one-shot unkeyed (NULL) salt+pers", blake2b(in64, 64, Bytes(), salt, pers), exp3[69]);
        t.eqh("gh3 one-shot keyed salt+pers", blake2b(in64, 64, k64, salt, pers), exp3[70]);
        t.eqh("gh3 one-shot keyed pers only", blake2b(in64, 64, k64, Bytes(), pers), exp3[71]);
        t.eqh("gh3 one-shot keyed salt only", blake2b(in64, 64, k64, salt, Bytes()), exp3[72]);
        // The last two lines come from a state initialised for a 32-byte digest whose full 64-byte chaining value
        // is printed (final() called with a larger outlen): compare against the untruncated state.
        t.eqh("gh3 outlen 32 pers only, full state", blake2b_full_state(in64, 32, Bytes(), Bytes(), pers), exp3[73]);
        t.eqh("gh3 outlen 32 salt only, full state", blake2b_full_state(in64, 32, Bytes(), salt, Bytes()), exp3[74]);
    }

    // Development-time KATs generated with python3 hashlib:
    //   hashlib.blake2b(pat(msglen,1), digest_size=outlen, key=pat(keylen,2), salt=pat(16,3) or b'', person=pat(16,4) or b'')
    // with pat(n, seed) = bytes((seed + 13*i + 7*(i>>8)) & 0xff for i in range(n))  (== pwhash_kat_pattern above).
    // Columns: msglen, outlen, keylen, salt present, personal present, digest.
    {
        static const struct { int msglen, outlen, keylen, has_salt, has_pers; const char *hex; } kat[] = {
            {    0, 64,  0, 1, 0, "93e3151189580e0d6b32c5b1024ab79cbf15dc5a8bb4f4776e782ae8496b29f8789255bd739a3590bced3ca77e8ea9488585698a0dc1af84c57a67e721235465" },
            {  257, 32,  0, 1, 1, "567c7e192842d95609141c657f3897dc56933e120235d4686ac1a2b1963eb18d" },
            {    0,  1, 64, 1, 0, "52" },
            {  127, 64,  0, 0, 1, "5931afd080f990c84fee297306c6ccb29440ce3e15c92addb31f53f2f96585f0619bcfc2008b6e6822b4accb65516d0a401f23c6b558f9d9c844ba436db0cbaa" },
            {  127, 16, 32, 1, 1, "44c3b6c7337c406cefaad1262648420f" },
            {    0, 32,  1, 0, 1, "b241f7eaec1fbc82c13f0cdb303282c11b6371a1ed1c7fd937c50893a65537a4" },
            {  257, 32,  0, 0, 0, "0c2971167b6080590db31aca2568f766a6f6d6817228e718caf1a8441f7709cd" },
            {  255, 64, 32, 1, 1, "ffdff0262430b7cc5ce3964331414ff38190da99e85a0394abfa208dddf6aeb91f45689c11d4836ef16276ae63cbf9cc20028ffdc0eb1fe2395ba748bcdad6ee" },
            {  128, 16, 32, 1, 0, "7f10c7087cff21ffe5abd02d533ed7d4" },
            {  129, 64,  1, 1, 0, "fae6eb7eb9c251965be7b71ceaf8a86681376a22e4040b3384053b13490bef65031c050435fb83cac02777aae3607ce21761c81d97106be2c546add857a802b0" },
            {  127,  1,  0, 0, 0, "26" },
            {  256,  1, 32, 0, 0, "f8" },
            {  128, 64,  0, 1, 0, "c98149f8bd3760c3301f25aa4988a808f1911d174f4a6ad620f35643def6eafa58f5abf078ec51c41c506d705da9b5aa9dbd11147bbf01d12a21926a43dc21c7" },
            {  256, 63,  1, 1, 1, "1f8631b8903ab56166e8a882b133f0d7c5eacb6935e6d4f405a032a823112f3d7c2bf9fbf96ba526567e4317c8cdbf37c924c80d04b92d3e2a523a183e5667" },
            {  129,  1,  1, 0, 1, "30" },
            {    0, 16, 64, 0, 1, "a78a73a1433c41ac4960e769faf93230" },
            {  128, 16, 64, 1, 0, "053fecb8c5a6ef22b02cb6eccc6d46a7" },
            {  129,  1, 64, 0, 0, "44" },
            {  127,  1, 64, 1, 0, "a9" },
            {    0, 16, 32, 1, 0, "d8c66abfe373f5c2051c64d7e7054ea8" },
            {  255, 16,  0, 1, 0, "8ef0058b26c3797adc1e0d84ab38b1af" },
            {  128, 63,  1, 0, 0, "4f607040392ab972998294dec403ac3e98fac1f38aadbebcc7a6a5cd709ff3259517b7dbcc08d5d109d9880ff7607fa176965674d6114ac331e0c6dac6f7c1" },
            {  129, 16,  1, 0, 0, "4489cbc336a91807d65a9a729e286b05" },
            { 1000, 63, 64, 0, 1, "e8a28d302b52cf2c29840927398600175bb7d058babf265cd6deb68dc6274b05174f9a4e179b89b9b97d76a02c760c2208a066fa57d61d771b73800ab67ae5" },
            {  257, 63,  1, 1, 0, "43487c12c07fdddf4ea7a0d0121ad4e2c06bfdb1ed728193ecb1ee7a1bb84449a8e8bec78500cd4e15ac75a789c708e280fe1e0747a0708d4d6530dad2fbc3" },
            {    1, 63, 32, 1, 1, "b38fd95205ea2a38082f397e75e0b5856af5c55451ffa20a81bee00102b5abd58522e8e7c14972edd8a3189773bd214c78ea3e8b9e9aea1f069ee9df91cdb3" },
            {  255, 16, 64, 1, 1, "e90f9ab261d10a18c07b84d936e3879d" },
            {    0, 64, 64, 1, 1, "70c92df5323f1b3bef09003ca59519bb60b51b7183201bc1eb5fce2855437ab9651ace2e60c509b848b3a2ca128517e1fbcfedca3b6adceaebe4ecbecc3da642" },
            {  256, 16, 64, 1, 1, "483966902ef17786a8839153eca8cec8" },
            {  256,  1,  0, 0, 1, "a9" },
            { 1000, 16, 32, 0, 0, "81a387c01bd8912c52eea8295e909c51" },
            {  128, 64,  1, 0, 0, "ba84a64ab7376bd3498481acc9295f40f39f34e4cf3883d3c68cb0938c6257b24c1bd547d4f9a5b9d346c52becbebec8b2a3365711ee2757e958182f429c5239" },
            {  127, 64, 64, 0, 1, "c7e1223db2442e155abbee04d193870e4637dea0b1ec3b6f3c672f2bddc6ca40afa014a8cbb4cbddac0d10ddc8fdd49252e861d3b6641559ba203999b95accca" },
            {  129, 16,  0, 0, 1, "e7599d3ee55b94aca4df4f41a3089658" },
            {  256,  1, 32, 0, 1, "f2" },
            {  128, 64, 32, 0, 0, "8fe592bce3cdbcb0f9dc0e6598aa957857736fc817eb3fb89a32723318820416344ccd703330b40046388eb16e20a509981a09ce66fc73942de869c1bc47f7ad" },
            {  257, 16, 32, 1, 0, "a404b5619e22ce3ca6f534ce2e647e9a" },
            {  127, 63, 32, 0, 1, "2a14c4ceebc8b36932b82acf23e9732a3c8e8163cb95cd3c62e2e6c9810480edccf06d2aa1f7ebe6ceaa98f85359cc5b855dd993a64c2e30dcf7c8f3b90694" },
            {    0, 64,  1, 1, 0, "f2839899d1401f22b97bfc002eb46681c88d52584e374aeafe266f9a6186658cab68beb578bdf618951442ee22c0ea95bbe08b76ca9d89a6ecb159d213081102" },
            {  255, 16,  1, 0, 0, "d436c0b5238fb9de8def7b7b1f260315" },
            {    0, 16,  0, 1, 1, "aa159890de02b89ac59252a55c428559" },
            {  129, 32, 32, 1, 0, "e25904a88e110031f13ed4f117b27a8d851ee40488eff69b1dfe3f27742aaf9d" },
            { 1000,  1, 32, 1, 0, "74" },
            {    0,  1, 64, 0, 0, "86" },
            {    0, 64,  0, 0, 0, "786a02f742015903c6c6fd852552d272912f4740e15847618a86e217f71f5419d25e1031afee585313896444934eb04b903a685b1448b755d56f701afe9be2ce" },
            {    0, 64, 64, 0, 0, "cb0689c48405cffc81db21818a7698edc71fd2df65b78fe3de06a71f50bc827c52396a24fa5d76c767c3aa903d8fe04d25dc47a8ce95ae8c207ec62d4c167cac" },
            {  128, 64, 64, 1, 1, "3049dd8867b3273dae9e5f41eb14240ad29ee1801895d2195023a6dcb6d474bf0023ceb60c337b4059d8acb463406669d8d26810dd0133e38815a4ff7f76b970" },
            {    0,  1,  1, 1, 1, "c3" },
            {  256, 32,  0, 1, 0, "9b4f45ed20486b773f0d979a69344c36cecd1a834d6a2d8316cf0e7c254888cb" },
            {  129, 63, 32, 0, 1, "5e0a248288fb454019026e1d7e7126822769500a3e338dccb31748b31af5a50cca91a0dfd551a00516ce3cc669218ae4882f90c720639ddc2381e845110baf" },
        };
        for (size_t k = 0; k < sizeof kat / sizeof kat[0]; k++) {
            snprintf(name, sizeof name, "hashlib kat msg=%d out=%d key=%d salt=%d pers=%d", kat[k].msglen, kat[k].outlen, kat[k].keylen, kat[k].has_salt, kat[k].has_pers);
            t.eqh(name, blake2b(pwhash_kat_pattern((size_t) kat[k].msglen, 1), (size_t) kat[k].outlen, pwhash_kat_pattern((size_t) kat[k].keylen, 2),
                                kat[k].has_salt ? pwhash_kat_pattern(16, 3) : Bytes(), kat[k].has_pers ? pwhash_kat_pattern(16, 4) : Bytes()), kat[k].hex);
        }
    }

    // H' (RFC 9106 3.3): structural checks against its definition in terms of H, for lengths around the 64-byte
    // switch-over and the 32-byte chunking (end-to-end values are covered by the Argon2 vectors in argon2.hpp).
    {
        Bytes A = pwhash_kat_pattern(72, 9);
        auto le_A = [&](uint32_t T) { uint8_t le[4]; st32le(le, T); return cat(Bytes(le, le + 4), A); };
        t.eq("H' T=1", blake2b_long(A, 1), blake2b(le_A(1), 1));
        t.eq("H' T=64", blake2b_long(A, 64), blake2b(le_A(64), 64));
        {   // T = 65: r = 1: W_1 || H^33(V_1)
            Bytes V1 = blake2b(le_A(65), 64);
            t.eq("H' T=65", blake2b_long(A, 65), cat(sub(V1, 0, 32), blake2b(V1, 33)));
        }
        {   // T = 96: r = 1: W_1 || H^64(V_1)
            Bytes V1 = blake2b(le_A(96), 64);
            t.eq("H' T=96", blake2b_long(A, 96), cat(sub(V1, 0, 32), blake2b(V1, 64)));
        }
        {   // T = 97: r = 2: W_1 || W_2 || H^33(V_2)
            Bytes V1 = blake2b(le_A(97), 64), V2 = blake2b(V1, 64);
            t.eq("H' T=97", blake2b_long(A, 97), cat(sub(V1, 0, 32), sub(V2, 0, 32), blake2b(V2, 33)));
        }
        t.ok("H' T=1024 length", blake2b_long(A, 1024).size() == 1024);
        t.ok("H' T=0 -> empty", blake2b_long(A, 0).empty());
    }

    // invalid parameters never abort
    t.ok("outlen 0 rejected", blake2b(Bytes(), 0).empty());
    t.ok("outlen 65 rejected", blake2b(Bytes(), 65).empty());
    t.ok("key 65 rejected", blake2b(Bytes(), 64, Bytes(65, 1)).empty());
    t.ok("salt 15 rejected", blake2b(Bytes(), 64, Bytes(), Bytes(15, 1)).empty());
    t.ok("personal 17 rejected", blake2b(Bytes(), 64, Bytes(), Bytes(), Bytes(17, 1)).empty());
    return t.fails;
}

}  // namespace ref
