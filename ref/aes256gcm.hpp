// ref/aes256gcm.hpp -- AES-256-GCM reference model (NIST SP 800-38D), 96-bit IV and 128-bit tag only.
//
// Written from SP 800-38D for clarity: bitwise GF(2^128) multiplication (Algorithm 1, the right-shift
// method), GHASH (Algorithm 2), GCTR (Algorithm 3), GCM-AE (Algorithm 4) and GCM-AD (Algorithm 5).
// Not constant time. Oracle use only. Never aborts on bad input: bad sizes give empty outputs / false.
#pragma once
#include "aes.hpp"

namespace ref {

// A 128-bit block seen as the bit string x0 x1 ... x127 of SP 800-38D section 6.3: x0 is the most
// significant bit of the first byte. hi holds x0..x63 (x0 = bit 63 of hi), lo holds x64..x127.
struct Gf128 {
    uint64_t hi, lo;
};
inline Gf128 gf128_load(const uint8_t b[16]) { return Gf128{ ld64be(b), ld64be(b + 8) }; }
inline void  gf128_store(uint8_t b[16], Gf128 x) { st64be(b, x.hi); st64be(b + 8, x.lo); }
inline Gf128 gf128_xor(Gf128 a, Gf128 b) { return Gf128{ a.hi ^ b.hi, a.lo ^ b.lo }; }

// V -> V * x: SP 800-38D Algorithm 1 step 3, second assignment:
//   V_(i+1) = V_i >> 1 if LSB_1(V_i) = 0, else (V_i >> 1) xor R,   R = 11100001 || 0^120.
inline Gf128 gf128_mul_x(Gf128 v) {
    uint64_t lsb = v.lo & 1;
    Gf128    r;
    r.lo = (v.lo >> 1) | (v.hi << 63);
    r.hi = (v.hi >> 1) ^ (lsb ? 0xe100000000000000ULL : 0);
    return r;
}

// SP 800-38D Algorithm 1: Z = X * Y in GF(2^128), written exactly as in the specification.
inline Gf128 gf128_mul(Gf128 x, Gf128 y) {
    Gf128 z = { 0, 0 }, v = y;
    for (int i = 0; i < 128; i++) {
        uint64_t xi = (i < 64) ? (x.hi >> (63 - i)) & 1 : (x.lo >> (127 - i)) & 1;
        if (xi) z = gf128_xor(z, v);
        v = gf128_mul_x(v);
    }
    return z;
}

// GHASH_H, SP 800-38D Algorithm 2: Y_0 = 0, Y_i = (Y_(i-1) xor X_i) * H.
// In Algorithm 1 the sequence V_0 = H, V_(i+1) = V_i * x does not depend on the left operand, so when
// many blocks are multiplied by the same H the 128 values V_i are computed once; the product
// X * H is then the xor of the V_i for which bit x_i of X is set. Same algorithm, loop-invariant hoisted
// (selftest checks it against gf128_mul()).
struct Ghash {
    Gf128 v[128];  // v[i] = H * x^i
    Gf128 y;       // running Y_i
    explicit Ghash(const uint8_t h[16]) {
        v[0] = gf128_load(h);
        for (int i = 1; i < 128; i++) v[i] = gf128_mul_x(v[i - 1]);
        y.hi = y.lo = 0;
    }
    Gf128 mul_h(Gf128 x) const {
        uint64_t zh = 0, zl = 0;
        for (int i = 0; i < 64; i++) {
            uint64_t m = (uint64_t) 0 - ((x.hi >> (63 - i)) & 1);  // all-ones iff x_i = 1
            zh ^= v[i].hi & m;
            zl ^= v[i].lo & m;
        }
        for (int i = 0; i < 64; i++) {
            uint64_t m = (uint64_t) 0 - ((x.lo >> (63 - i)) & 1);  // x_(64+i)
            zh ^= v[64 + i].hi & m;
            zl ^= v[64 + i].lo & m;
        }
        return Gf128{ zh, zl };
    }
    void block(const uint8_t b[16]) { y = mul_h(gf128_xor(y, gf128_load(b))); }
    // Absorb `data` followed by the minimum number of zero bytes to reach a multiple of 16
    // (the A || 0^v and C || 0^u parts of Algorithm 4 step 5).
    void update_padded(const Bytes &data) {
        size_t n = data.size(), off = 0;
        for (; off + 16 <= n; off += 16) block(&data[off]);
        if (off < n) {
            uint8_t last[16] = { 0 };
            memcpy(last, &data[off], n - off);
            block(last);
        }
    }
    void digest(uint8_t out[16]) const { gf128_store(out, y); }
};

// inc_32, SP 800-38D section 6.2: the rightmost 32 bits are incremented modulo 2^32, the rest is unchanged.
inline void gcm_inc32(uint8_t cb[16]) { st32be(cb + 12, ld32be(cb + 12) + 1u); }

// GCTR_K(ICB, X), SP 800-38D Algorithm 3.
inline Bytes gcm_gctr(const uint8_t rk[15][16], const uint8_t icb[16], const Bytes &x) {
    Bytes y(x.size());
    if (x.empty()) return y;  // step 1
    uint8_t cb[16], ks[16];
    memcpy(cb, icb, 16);
    for (size_t off = 0; off < x.size(); off += 16) {
        aes256_encrypt_block(rk, cb, ks);
        size_t n = x.size() - off < 16 ? x.size() - off : 16;  // last block: MSB_len(X_n*)(CIPH(CB_n))
        for (size_t i = 0; i < n; i++) y[off + i] = (uint8_t)(x[off + i] ^ ks[i]);
        gcm_inc32(cb);
    }
    return y;
}

// The part shared by GCM-AE (Algorithm 4, steps 1-2 and 4-6) and GCM-AD (Algorithm 5, steps 2-3 and 5-7):
// tag over (A, C) for a 96-bit IV.
inline Bytes gcm_tag(const uint8_t rk[15][16], const uint8_t j0[16], const Bytes &ad, const Bytes &ct) {
    uint8_t h[16] = { 0 };
    aes256_encrypt_block(rk, h, h);  // H = CIPH_K(0^128)
    Ghash g(h);
    g.update_padded(ad);  // A || 0^v
    g.update_padded(ct);  // C || 0^u
    uint8_t lens[16];
    st64be(lens, (uint64_t) ad.size() * 8);      // [len(A)]_64
    st64be(lens + 8, (uint64_t) ct.size() * 8);  // [len(C)]_64
    g.block(lens);
    uint8_t s[16];
    g.digest(s);
    return gcm_gctr(rk, j0, Bytes(s, s + 16));  // T = MSB_t(GCTR_K(J0, S)), t = 128
}

// GCM-AE_K(IV, P, A), SP 800-38D Algorithm 4, |IV| = 96, t = 128.
// On bad key/nonce size: ct and tag16 are cleared and nothing else happens.
inline void aes256gcm_encrypt(const Bytes &key32, const Bytes &nonce12, const Bytes &ad, const Bytes &msg, Bytes &ct, Bytes &tag16) {
    ct.clear();
    tag16.clear();
    if (key32.size() != 32 || nonce12.size() != 12) return;
    uint8_t rk[15][16];
    aes256_key_expand(key32.data(), rk);
    uint8_t j0[16] = { 0 }, icb[16];
    memcpy(j0, nonce12.data(), 12);  // J0 = IV || 0^31 || 1
    j0[15] = 1;
    memcpy(icb, j0, 16);
    gcm_inc32(icb);
    ct    = gcm_gctr(rk, icb, msg);  // C = GCTR_K(inc32(J0), P)
    tag16 = gcm_tag(rk, j0, ad, ct);
}

// GCM-AD_K(IV, C, A, T), SP 800-38D Algorithm 5. Returns false (and clears msg) for FAIL or bad sizes.
inline bool aes256gcm_decrypt(const Bytes &key32, const Bytes &nonce12, const Bytes &ad, const Bytes &ct, const Bytes &tag16, Bytes &msg) {
    msg.clear();
    if (key32.size() != 32 || nonce12.size() != 12 || tag16.size() != 16) return false;
    uint8_t rk[15][16];
    aes256_key_expand(key32.data(), rk);
    uint8_t j0[16] = { 0 }, icb[16];
    memcpy(j0, nonce12.data(), 12);
    j0[15] = 1;
    memcpy(icb, j0, 16);
    gcm_inc32(icb);
    if (gcm_tag(rk, j0, ad, ct) != tag16) return false;
    msg = gcm_gctr(rk, icb, ct);
    return true;
}

// ---------------------------------------------------------------------------------------------------
// Self-test
// ---------------------------------------------------------------------------------------------------
struct GcmKat {  // key, nonce, message, ad, ciphertext, tag (hex)
    const char *key, *nonce, *msg, *ad, *ct, *tag;
};
struct GcmWycheproofKat {  // key, nonce, ad, message, ciphertext, tag (hex), expected verification result
    const char *key, *nonce, *ad, *msg, *ct, *tag;
    bool        valid;
};

inline void selftest_gcm_kat(T &t, const char *group, int idx, const GcmKat &k) {
    char what[96];
    Bytes key = from_hex(k.key), nonce = from_hex(k.nonce), msg = from_hex(k.msg), ad = from_hex(k.ad), ct, tag, dec;
    aes256gcm_encrypt(key, nonce, ad, msg, ct, tag);
    snprintf(what, sizeof what, "%s[%d] ct (mlen=%zu adlen=%zu)", group, idx, msg.size(), ad.size());
    t.eqh(what, ct, k.ct);
    snprintf(what, sizeof what, "%s[%d] tag (mlen=%zu adlen=%zu)", group, idx, msg.size(), ad.size());
    t.eqh(what, tag, k.tag);
    snprintf(what, sizeof what, "%s[%d] decrypt", group, idx);
    t.ok(what, aes256gcm_decrypt(key, nonce, ad, from_hex(k.ct), from_hex(k.tag), dec) && dec == msg);
    // any single-bit corruption of tag / ciphertext / ad must be rejected and must leave msg empty
    Bytes bad = from_hex(k.tag);
    bad[(size_t) idx % 16] ^= (uint8_t)(1u << (idx % 8));
    snprintf(what, sizeof what, "%s[%d] reject bad tag", group, idx);
    t.ok(what, !aes256gcm_decrypt(key, nonce, ad, ct, bad, dec) && dec.empty());
    if (!ct.empty()) {
        Bytes c2 = ct;
        c2[(size_t) idx % c2.size()] ^= 0x80;
        snprintf(what, sizeof what, "%s[%d] reject bad ct", group, idx);
        t.ok(what, !aes256gcm_decrypt(key, nonce, ad, c2, tag, dec) && dec.empty());
    }
    if (!ad.empty()) {
        Bytes a2 = ad;
        a2[(size_t) idx % a2.size()] ^= 0x01;
        snprintf(what, sizeof what, "%s[%d] reject bad ad", group, idx);
        t.ok(what, !aes256gcm_decrypt(key, nonce, a2, ct, tag, dec) && dec.empty());
    }
}

inline int selftest_aes256gcm() {
    T t("aes256gcm");

    // --- GF(2^128): identity element is 1 = x^0 = 10000...0, commutativity, hoisted form == Algorithm 1
    {
        Gf128 one = { 0x8000000000000000ULL, 0 };
        Gf128 a = { 0x0123456789abcdefULL, 0xfedcba9876543210ULL }, b = { 0xdeadbeefcafebabeULL, 0x0f1e2d3c4b5a6978ULL };
        Gf128 ab = gf128_mul(a, b), ba = gf128_mul(b, a), a1 = gf128_mul(a, one);
        t.ok("gf128 a*1 == a", a1.hi == a.hi && a1.lo == a.lo);
        t.ok("gf128 commutative", ab.hi == ba.hi && ab.lo == ba.lo);
        uint8_t hb[16];
        gf128_store(hb, b);
        Ghash g(hb);
        Gf128 ab2 = g.mul_h(a);
        t.ok("Ghash::mul_h == Algorithm 1", ab2.hi == ab.hi && ab2.lo == ab.lo);
        // x^127 * x = R (reduction): element x^127 is lo = 1
        Gf128 r = gf128_mul_x(Gf128{ 0, 1 });
        t.ok("x^127 * x == R", r.hi == 0xe100000000000000ULL && r.lo == 0);
    }
    // --- GHASH known answer from the GCM specification (McGrew & Viega), Test Case 2 (128-bit key section):
    //     H = 66e94bd4ef8a2c3b884cfa59ca342b2e, C = 0388dace60b6a392f328c2b971b2fe78, len = 0 || 128
    //     GHASH(H, {}, C) = f38cbb1ad69223dcc3457ae5b6b0f885
    {
        Bytes h = from_hex("66e94bd4ef8a2c3b884cfa59ca342b2e");
        Ghash g(h.data());
        g.update_padded(from_hex("0388dace60b6a392f328c2b971b2fe78"));
        g.block(from_hex("00000000000000000000000000000080").data());
        uint8_t out[16];
        g.digest(out);
        t.eqh("GHASH spec TC2", Bytes(out, out + 16), "f38cbb1ad69223dcc3457ae5b6b0f885");
    }
    // --- inc32 wraps modulo 2^32 without carrying into the IV part
    {
        Bytes cb = from_hex("00112233445566778899aabbffffffff");
        gcm_inc32(cb.data());
        t.eqh("inc32 wrap", cb, "00112233445566778899aabb00000000");
    }

    // --- GCM specification (McGrew & Viega, also reproduced in the NIST GCM validation material) 256-bit key cases
    static const GcmKat spec[] = {
        // Test Case 13
        { "0000000000000000000000000000000000000000000000000000000000000000", "000000000000000000000000", "", "", "",
          "530f8afbc74536b9a963b4f1c4cb738b" },
        // Test Case 14
        { "0000000000000000000000000000000000000000000000000000000000000000", "000000000000000000000000",
          "00000000000000000000000000000000", "", "cea7403d4d606b6e074ec5d3baf39d18", "d0d1c8a799996bf0265b98b5d48ab919" },
        // Test Case 15
        { "feffe9928665731c6d6a8f9467308308feffe9928665731c6d6a8f9467308308", "cafebabefacedbaddecaf888",
          "d9313225f88406e5a55909c5aff5269a86a7a9531534f7da2e4c303d8a318a721c3c0c95956809532fcf0e2449a6b525"
          "b16aedf5aa0de657ba637b391aafd255",
          "",
          "522dc1f099567d07f47f37a32a84427d643a8cdcbfe5c0c97598a2bd2555d1aa8cb08e48590dbb3da7b08b1056828838"
          "c5f61e6393ba7a0abcc9f662898015ad",
          "b094dac5d93471bdec1a502270e3cc6c" },
        // Test Case 16
        { "feffe9928665731c6d6a8f9467308308feffe9928665731c6d6a8f9467308308", "cafebabefacedbaddecaf888",
          "d9313225f88406e5a55909c5aff5269a86a7a9531534f7da2e4c303d8a318a721c3c0c95956809532fcf0e2449a6b525"
          "b16aedf5aa0de657ba637b39",
          "feedfacedeadbeeffeedfacedeadbeefabaddad2",
          "522dc1f099567d07f47f37a32a84427d643a8cdcbfe5c0c97598a2bd2555d1aa8cb08e48590dbb3da7b08b1056828838"
          "c5f61e6393ba7a0abcc9f662",
          "76fc6ece0f4e1768cddf8853bb2d551b" },
    };
    for (size_t i = 0; i < sizeof spec / sizeof spec[0]; i++) selftest_gcm_kat(t, "spec-TC13..16", (int) i, spec[i]);

    // --- Vectors harvested from /repo/test/default/aead_aes256gcm.c (NIST CAVP gcmEncryptExtIV256-style table);
    //     "#n" is the index in that file's tests[] array.
    static const GcmKat repo[] = {
        // #0: mlen=0 adlen=0
        { "b52c505a37d78eda5dd34f20c22540ea1b58963cf8e5bf8ffa85f9f2492505b4",
          "516c33929df5a3284ff463d7",
          "",
          "",
          "",
          "bdc1ac884d332457a1d2664f168c76f0" },
        // #1: mlen=0 adlen=0
        { "5fe0861cdc2690ce69b3658c7f26f8458eec1c9243c5ba0845305d897e96ca0f",
          "770ac1a5a3d476d5d96944a1",
          "",
          "",
          "",
          "196d691e1047093ca4b3d2ef4baba216" },
        // #15: mlen=0 adlen=16
        { "78dc4e0aaf52d935c3c01eea57428f00ca1fd475f5da86a49c8dd73d68c8e223",
          "d79cf22d504cc793c3fb6c8a",
          "",
          "b96baa8c1c75a671bfb2d08d06be5f36",
          "",
          "3e5d486aa2e30b22e040b85723a06e76" },
        // #30: mlen=0 adlen=20
        { "886cff5f3e6b8d0e1ad0a38fcdb26de97e8acbe79f6bed66959a598fa5047d65",
          "3a8efa1cd74bbab5448f9945",
          "",
          "519fee519d25c7a304d6c6aa1897ee1eb8c59655",
          "",
          "f6d47505ec96c98a42dc3ae719877b87" },
        // #45: mlen=0 adlen=48
        { "f4069bb739d07d0cafdcbc609ca01597f985c43db63bbaaa0debbb04d384e49c",
          "d25ff30fdc3d464fe173e805",
          "",
          "3e1449c4837f0892f9d55127c75c4b25d69be334baf5f19394d2d8bb460cbf2120e14736d0f634aa792feca20e455f11",
          "",
          "805ec2931c2181e5bfb74fa0a975f0cf" },
        // #60: mlen=0 adlen=90
        { "03ccb7dbc7b8425465c2c3fc39ed0593929ffd02a45ff583bd89b79c6f646fe9",
          "fd119985533bd5520b301d12",
          "",
          "98e68c10bf4b5ae62d434928fc6405147c6301417303ef3a703dcfd2c0c339a4d0a89bd29fe61fecf1066ab06d7a5c31"
          "a48ffbfed22f749b17e9bd0dc1c6f8fbd6fd4587184db964d5456132106d782338c3f117ec05229b0899",
          "",
          "cf54e7141349b66f248154427810c87a" },
        // #75: mlen=16 adlen=0
        { "31bdadd96698c204aa9ce1448ea94ae1fb4a9a0b3c9d773b51bb1822666b8f22",
          "0d18e06c7c725ac9e362e1ce",
          "2db5168e932556f8089a0622981d017d",
          "",
          "fa4362189661d163fcd6a56d8bf0405a",
          "d636ac1bbedd5cc3ee727dc2ab4a9489" },
        // #90: mlen=16 adlen=16
        { "92e11dcdaa866f5ce790fd24501f92509aacf4cb8b1339d50c9c1240935dd08b",
          "ac93a1a6145299bde902f21a",
          "2d71bcfa914e4ac045b2aa60955fad24",
          "1e0889016f67601c8ebea4943bc23ad6",
          "8995ae2e6df3dbf96fac7b7137bae67f",
          "eca5aa77d51d4a0a14d9c51e1da474ab" },
        // #105: mlen=16 adlen=20
        { "83688deb4af8007f9b713b47cfa6c73e35ea7a3aa4ecdb414dded03bf7a0fd3a",
          "0b459724904e010a46901cf3",
          "33d893a2114ce06fc15d55e454cf90c3",
          "794a14ccd178c8ebfd1379dc704c5e208f9d8424",
          "cc66bee423e3fcd4c0865715e9586696",
          "0fb291bd3dba94a1dfd8b286cfb97ac5" },
        // #120: mlen=16 adlen=48
        { "e4fed339c7b0cd267305d11ab0d5c3273632e8872d35bdc367a1363438239a35",
          "0365882cf75432cfd23cbd42",
          "fff39a087de39a03919fbd2f2fa5f513",
          "8a97d2af5d41160ac2ff7dd8ba098e7aa4d618f0f455957d6a6d0801796747ba57c32dfbaaaf15176528fe3a0e4550c9",
          "8d9e68f03f7e5f4a0ffaa7650d026d08",
          "3554542c478c0635285a61d1b51f6afa" },
        // #135: mlen=16 adlen=90
        { "80d755e24d129e68a5259ec2cf618e39317074a83c8961d3768ceb2ed8d5c3d7",
          "7598c07ba7b16cd12cf50813",
          "5e7fd1298c4f15aa0f1c1e47217aa7a9",
          "0e94f4c48fd0c9690c853ad2a5e197c5de262137b69ed0cdfa28d8d12413e4ffff15374e1cccb0423e8ed829a954a335"
          "ed705a272ad7f9abd1057c849bb0d54b768e9d79879ec552461cc04adb6ca0040c5dd5bc733d21a93702",
          "5762a38cf3f2fdf3645d2f6696a7eead",
          "8a6708e69468915c5367573924fe1ae3" },
        // #150: mlen=13 adlen=0
        { "82c4f12eeec3b2d3d157b0f992d292b237478d2cecc1d5f161389b97f999057a",
          "7b40b20f5f397177990ef2d1",
          "982a296ee1cd7086afad976945",
          "",
          "ec8e05a0471d6b43a59ca5335f",
          "113ddeafc62373cac2f5951bb9165249" },
        // #165: mlen=13 adlen=16
        { "dad89d9be9bba138cdcf8752c45b579d7e27c3dbb40f53e771dd8cfd500aa2d5",
          "cfb2aec82cfa6c7d89ee72ff",
          "b526ba1050177d05b0f72f8d67",
          "6e43784a91851a77667a02198e28dc32",
          "8b29e66e924ecae84f6d8f7d68",
          "1e365805c8f28b2ed8a5cadfd9079158" },
        // #180: mlen=13 adlen=20
        { "69b458f2644af9020463b40ee503cdf083d693815e2659051ae0d039e606a970",
          "8d1da8ab5f91ccd09205944b",
          "f3e0e09224256bf21a83a5de8d",
          "036ad5e5494ef817a8af2f5828784a4bfedd1653",
          "c0a62d77e6031bfdc6b13ae217",
          "a794a9aaee48cd92e47761bf1baff0af" },
        // #181: mlen=13 adlen=20
        { "97431e565e8370a4879de962746a2fd67eca868b1c8e51eece2c1f94f74af407",
          "17fb63066e2726d282ecc610",
          "e21629cc973fbe40176e621d9d",
          "78e7374da7c77be5938de8dd76cf0308618306a9",
          "80dbd469de480389ba6c2fca52",
          "4e284abb8b4f9f13c7497ae56df05fa5" },
        // #195: mlen=13 adlen=48
        { "5f671466378f470ba5f5160e2209f3d95a48b7e560625d5a08654414de23aee2",
          "6b3c08a663d04132243dd96c",
          "c428592d9f8a7f107ec4d0df05",
          "12965559c31d538f937bda6eee9c93b0387318dc5d9496fb1c3a0b9b978dbfebff2a5823974ee9d679834dbe59f7ec51",
          "1d8d7fe4357080c817303ce19c",
          "e88d6b566fdc7b4fd62106bd2eb806ec" },
        // #210: mlen=13 adlen=90
        { "ff9506b4d46ba54128876fadfcc673a4c927c618ea7d95cfcaa508cbc8f7fc66",
          "3742ad2208a0484345eee1be",
          "7fd0d6cadc92cad27bb2d7d8c8",
          "f1360a27fdc244be8739d85af6491c762a693aafe668c449515fdeeedb6a90aeee3891bbc8b69adc6a6426cb12fcdebc"
          "32c9f58c5259d128b91efa28620a3a9a0168b0ff5e76951cb41647ba4aa1f87fac0d97ac580e42cffc7e",
          "bdb8346b28eb4d7226493611a6",
          "7484d827b767647f44c7f94a39f8175c" },
        // #225: mlen=32 adlen=0
        { "268ed1b5d7c9c7304f9cae5fc437b4cd3aebe2ec65f0d85c3918d3d3b5bba89b",
          "9ed9d8180564e0e945f5e5d4",
          "fe29a40d8ebf57262bdb87191d01843f4ca4b2de97d88273154a0b7d9e2fdb80",
          "",
          "791a4a026f16f3a5ea06274bf02baab469860abde5e645f3dd473a5acddeecfc",
          "05b2b74db0662550435ef1900e136b15" },
        // #240: mlen=32 adlen=16
        { "37ccdba1d929d6436c16bba5b5ff34deec88ed7df3d15d0f4ddf80c0c731ee1f",
          "5c1b21c8998ed6299006d3f9",
          "ad4260e3cdc76bcc10c7b2c06b80b3be948258e5ef20c508a81f51e96a518388",
          "22ed235946235a85a45bc5fad7140bfa",
          "3b335f8b08d33ccdcad228a74700f1007542a4d1e7fc1ebe3f447fe71af29816",
          "1fbf49cc46f458bf6e88f6370975e6d4" },
        // #255: mlen=32 adlen=20
        { "5853c020946b35f2c58ec427152b840420c40029636adcbb027471378cfdde0f",
          "eec313dd07cc1b3e6b068a47",
          "ce7458e56aef9061cb0c42ec2315565e6168f5a6249ffd31610b6d17ab64935e",
          "1389b522c24a774181700553f0246bbabdd38d6f",
          "eadc3b8766a77ded1a58cb727eca2a9790496c298654cda78febf0da16b6903b",
          "3d49a5b32fde7eafcce90079217ffb57" },
        // #270: mlen=32 adlen=48
        { "dc776f0156c15d032623854b625c61868e5db84b7b6f9fbd3672f12f0025e0f6",
          "67130951c4a57f6ae7f13241",
          "9378a727a5119595ad631b12a5a6bc8a91756ef09c8d6eaa2b718fe86876da20",
          "fd0920faeb7b212932280a009bac969145e5c316cf3922622c3705c3457c4e9f124b2076994323fbcfb523f8ed16d241",
          "6d958c20870d401a3c1f7a0ac092c97774d451c09f7aae992a8841ff0ab9d60d",
          "b876831b4ecd7242963b040aa45c4114" },
        // #285: mlen=32 adlen=90
        { "26bf255bee60ef0f653769e7034db95b8c791752754e575c761059e9ee8dcf78",
          "cecd97ab07ce57c1612744f5",
          "96983917a036650763aca2b4e927d95ffc74339519ed40c4336dba91edfbf9ad",
          "afebbe9f260f8c118e52b84d8880a34622675faef334cdb41be9385b7d059b79c0f8a432d25f8b71e781b177fce4d4c5"
          "7ac5734543e85d7513f96382ff4b2d4b95b2f1fdbaf9e78bbd1db13a7dd26e8a4ac83a3e8ab42d1d545f",
          "e34b1540a769f7913331d66796e00bdc3ee0f258cf244eb7663375cc5ad6c658",
          "3841f02beb7a7fca7e578922d0a2f80c" },
        // #300: mlen=51 adlen=0
        { "1fded32d5999de4a76e0f8082108823aef60417e1896cf4218a2fa90f632ec8a",
          "1f3afa4711e9474f32e70462",
          "06b2c75853df9aeb17befd33cea81c630b0fc53667ff45199c629c8e15dce41e530aa792f796b8138eeab2e86c7b7bee"
          "1d40b0",
          "",
          "91fbd061ddc5a7fcc9513fcdfdc9c3a7c5d4d64cedf6a9c24ab8a77c36eefbf1c5dc00bc50121b96456c8cd8b6ff1f8b"
          "3e480f",
          "30096d340f3d5c42d82a6f475def23eb" },
        // #315: mlen=51 adlen=16
        { "5fe01c4baf01cbe07796d5aaef6ec1f45193a98a223594ae4f0ef4952e82e330",
          "bd587321566c7f1a5dd8652d",
          "881dc6c7a5d4509f3c4bd2daab08f165ddc204489aa8134562a4eac3d0bcad7965847b102733bb63d1e5c598ece0c3e5"
          "dadddd",
          "9013617817dda947e135ee6dd3653382",
          "16e375b4973b339d3f746c1c5a568bc7526e909ddff1e19c95c94a6ccff210c9a4a40679de5760c396ac0e2ceb1234f9"
          "f5fe26",
          "abd3d26d65a6275f7a4f56b422acab49" },
        // #330: mlen=51 adlen=20
        { "24501ad384e473963d476edcfe08205237acfd49b5b8f33857f8114e863fec7f",
          "9ff18563b978ec281b3f2794",
          "27f348f9cdc0c5bd5e66b1ccb63ad920ff2219d14e8d631b3872265cf117ee86757accb158bd9abb3868fdc0d0b074b5"
          "f01b2c",
          "adb5ec720ccf9898500028bf34afccbcaca126ef",
          "eb7cb754c824e8d96f7c6d9b76c7d26fb874ffbf1d65c6f64a698d839b0b06145dae82057ad55994cf59ad7f67c0fa5e"
          "85fab8",
          "bc95c532fecc594c36d1550286a7a3f0" },
        // #345: mlen=51 adlen=48
        { "463b412911767d57a0b33969e674ffe7845d313b88c6fe312f3d724be68e1fca",
          "611ce6f9a6880750de7da6cb",
          "e7d1dcf668e2876861940e012fe52a98dacbd78ab63c08842cc9801ea581682ad54af0c34d0d7f6f59e8ee0bf4900e0f"
          "d85042",
          "0a682fbc6192e1b47a5e0868787ffdafe5a50cead3575849990cdd2ea9b3597749403efb4a56684f0c6bde352d4aeec5",
          "8886e196010cb3849d9c1a182abe1eeab0a5f3ca423c3669a4a8703c0f146e8e956fb122e0d721b869d2b6fcd4216d7d"
          "4d3758",
          "2469cecd70fd98fec9264f71df1aee9a" },
        // #360: mlen=51 adlen=90
        { "148579a3cbca86d5520d66c0ec71ca5f7e41ba78e56dc6eebd566fed547fe691",
          "b08a5ea1927499c6ecbfd4e0",
          "9d0b15fdf1bd595f91f8b3abc0f7dec927dfd4799935a1795d9ce00c9b879434420fe42c275a7cd7b39d638fb81ca52b"
          "49dc41",
          "e4f963f015ffbb99ee3349bbaf7e8e8e6c2a71c230a48f9d59860a29091d2747e01a5ca572347e247d25f56ba7ae8e05"
          "cde2be3c97931292c02370208ecd097ef692687fecf2f419d3200162a6480a57dad408a0dfeb492e2c5d",
          "2097e372950a5e9383c675e89eea1c314f999159f5611344b298cda45e62843716f215f82ee663919c64002a5c198d78"
          "78fd3f",
          "adbecdb0d5c2224d804d2886ff9a5760" },
        // #361: mlen=51 adlen=90
        { "e49af19182faef0ebeeba9f2d3be044e77b1212358366e4ef59e008aebcd9788",
          "e7f37d79a6a487a5a703edbb",
          "461cd0caf7427a3d44408d825ed719237272ecd503b9094d1f62c97d63ed83a0b50bdc804ffdd7991da7a5b6dcf48d4b"
          "cd2cbc",
          "19a9a1cfc647346781bef51ed9070d05f99a0e0192a223c5cd2522dbdf97d9739dd39fb178ade3339e68774b058aa03e"
          "9a20a9a205bc05f32381df4d63396ef691fefd5a71b49a2ad82d5ea428778ca47ee1398792762413cff4",
          "32ca3588e3e56eb4c8301b009d8b84b8a900b2b88ca3c21944205e9dd7311757b51394ae90d8bb3807b471677614f419"
          "8af909",
          "3e403d035c71d88f1be1a256c89ba6ad" },
        // #375: mlen=0 adlen=128
        { "0000000000000000000000000000000000000000000000000000000000000000",
          "000000000000000000000000",
          "",
          "d9313225f88406e5a55909c5aff5269a86a7a9531534f7da2e4c303d8a318a721c3c0c95956809532fcf0e2449a6b525"
          "b16aedf5aa0de657ba637b391aafd255522dc1f099567d07f47f37a32a84427d643a8cdcbfe5c0c97598a2bd2555d1aa"
          "8cb08e48590dbb3da7b08b1056828838c5f61e6393ba7a0abcc9f662898015ad",
          "",
          "f4c58f80a3a1a9cd52755214bdbb6ad0" },
        // #376: mlen=48 adlen=0
        { "0000000000000000000000000000000000000000000000000000000000000000",
          "000000000000000000000000",
          "000000000000000000000000000000000000000000000000000000000000000000000000000000000000000000000000",
          "",
          "cea7403d4d606b6e074ec5d3baf39d18726003ca37a62a74d1a2f58e7506358edd4ab1284d4ae17b41e85924470c36f7",
          "0eb41c52b074ecacb213f6de062f7897" },
        // #377: mlen=128 adlen=0
        { "0000000000000000000000000000000000000000000000000000000000000000",
          "000000000000000000000000",
          "000000000000000000000000000000000000000000000000000000000000000000000000000000000000000000000000"
          "000000000000000000000000000000000000000000000000000000000000000000000000000000000000000000000000"
          "0000000000000000000000000000000000000000000000000000000000000000",
          "",
          "cea7403d4d606b6e074ec5d3baf39d18726003ca37a62a74d1a2f58e7506358edd4ab1284d4ae17b41e85924470c36f7"
          "4741cbe181bb7f30617c1de3ab0c3a1fd0c48f7321a82d376095ace0419167a0bcaf49b0c0cea62de6bc1c66545e1dad"
          "abfa77cd6e85da245fb0bdc5e52cfc29ba0ae1ab2837e0f36387b70e93176012",
          "ae1753b346fd6971d20cb69a2d6148bc" },
        // #378: mlen=128 adlen=0
        { "0000000000000000000000000000000000000000000000000000000000000000",
          "ffffffff0000000000000000",
          "000000000000000000000000000000000000000000000000000000000000000000000000000000000000000000000000"
          "000000000000000000000000000000000000000000000000000000000000000000000000000000000000000000000000"
          "0000000000000000000000000000000000000000000000000000000000000000",
          "",
          "ee2491af7588cbd4ccccaea18a6118cdf00222178a0b53be8a7a0ef9806991a81c70151316ef97ffea3d83e8905d933c"
          "253b56a63f115a2cd4005281bfbdd9a07a1b19d7e07caf3f90a11228785d7bf749449598214a4222c3c476ea5df9d602"
          "50b8d66787b568762a5cb70149e2957c1cc5ef636113b1e1752096ec404fe2b6",
          "0c23c9176aedc5bacbca56f777324aa4" },
        // #379: mlen=129 adlen=13
        { "0000000000000000000000000000000000000000000000000000000000000000",
          "ffffffffffffffffffffffff",
          "010000000000000000000000000000000000000000000000000000000000000000000000000000000000000000000000"
          "000000000000000000000000000000000000000000000000000000000000000000000000000000000000000000000000"
          "000000000000000000000000000000000000000000000000000000000000000002",
          "0102030405060708090a0b0c0d",
          "d3b089dead85b8b6874327390d0fff1575051e2a96243ab8ca0927447f58d7053d99918491eeeee470cd929077ccb404"
          "ef140354241e12e2e36e3aea89a06e79c064479d7cdd711220dff6059ab913a1ea3ba7bcdb2d5b8746a990ec54cf2aab"
          "55c11c9c849ab552fc03cc4425db4e54b13d334e9ef145805c73680d7899b64bab",
          "c9ee768b5473f678ac00203affa6a34e" },
        // #380: mlen=80 adlen=32
        { "843ffcf5d2b72694d19ed01d01249412d5cb4a08f134d246513633e84d006bbb",
          "dbcca32ebf9b804617c3aa9e",
          "000102030405060708090a0b0c0d0e0f101112131415161718191a1b1c1d1e1f202122232425262728292a2b2c2d2e2f"
          "303132333435363738393a3b3c3d3e3f404142434445464748494a4b4c4d4e4f",
          "00000000000000000000000000000000101112131415161718191a1b1c1d1e1f",
          "3847bb9e60181f62ba36beae09cc3cfeb5958a16e37c72e87add8be814ee6dbbb98c0727709c84d26a6adf5e7b4e17cd"
          "fd84977b328d3eda489a30ff8d1875b530239d4abaf15a5903f516cac0c91b3a",
          "39fa8fc1c78405e86326c97d428cd1c6" },
    };
    for (size_t i = 0; i < sizeof repo / sizeof repo[0]; i++) selftest_gcm_kat(t, "repo-aead_aes256gcm.c", (int) i, repo[i]);

    // --- Wycheproof vectors harvested from /repo/test/default/aead_aes256gcm2.c (all 41 entries, in file order);
    //     the "invalid" ones carry a modified tag and must be rejected.
    static const GcmWycheproofKat wy[] = {
        { "92ace3e348cd821092cd921aa3546374299ab46209691bc28b8752d17f123c20", "00112233445566778899aabb",
          "00000000ffffffff", "00010203040506070809",
          "e27abdd2d2a53d2f136b", "9a4a2579529301bcfb71c78d4060f52c", true },
        { "29d3a44f8723dc640239100c365423a312934ac80239212ac3df3421a2098123", "00112233445566778899aabb",
          "aabbccddeeff", "",
          "", "2a7d77fa526b8250cb296078926b5020", true },
        { "cc56b680552eb75008f5484b4cb803fa5063ebd6eab91f6ab6aef4916a766273", "99e23ec48985bccdeeab60f1",
          "", "2a",
          "06", "633c1e9703ef744ffffb40edf9d14355", true },
        { "51e4bf2bad92b7aff1a4bc05550ba81df4b96fabf41c12c7b00e60e48db7e152", "4f07afedfdc3b6c2361823d3",
          "", "be3308f72a2c6aed",
          "cf332a12fdee800b", "602e8d7c4799d62c140c9bb834876b09", true },
        { "67119627bd988eda906219e08c0d0d779a07d208ce8a4fe0709af755eeec6dcb", "68ab7fdbf61901dad461d23c",
          "", "51f8c1f731ea14acdb210a6d973e07",
          "43fc101bff4b32bfadd3daf57a590e", "ec04aacb7148a8b8be44cb7eaf4efa69", true },
        { "59d4eafb4de0cfc7d3db99a8f54b15d7b39f0acc8da69763b019c1699f87674a", "2fcb1b38a99e71b84740ad9b",
          "", "549b365af913f3b081131ccb6b825588",
          "f58c16690122d75356907fd96b570fca", "28752c20153092818faba2a334640d6e", true },
        { "3b2458d8176e1621c0cc24c0c0e24c1e80d72f7ee9149a4b166176629616d011", "45aaa3e5d16d2d42dc03445d",
          "", "3ff1514b1c503915918f0c0c31094a6e1f",
          "73a6b6f45f6ccc5131e07f2caa1f2e2f56", "2d7379ec1db5952d4e95d30c340b1b1d", true },
        { "0212a8de5007ed87b33f1a7090b6114f9e08cefd9607f2c276bdcfdbc5ce9cd7", "e6b1adf2fd58a8762c65f31b",
          "", "10f1ecf9c60584665d9ae5efe279e7f7377eea6916d2b111",
          "0843fff52d934fc7a071ea62c0bd351ce85678cde3ea2c9e", "7355fde599006715053813ce696237a8", true },
        { "b279f57e19c8f53f2f963f5f2519fdb7c1779be2ca2b3ae8e1128b7d6c627fc4", "98bc2c7438d5cd7665d76f6e",
          "c0", "fcc515b294408c8645c9183e3f4ecee5127846d1",
          "eb5500e3825952866d911253f8de860c00831c81", "ecb660e1fb0541ec41e8d68a64141b3a", true },
        { "cdccfe3f46d782ef47df4e72f0c02d9c7f774def970d23486f11a57f54247f17", "376187894605a8d45e30de51",
          "956846a209e087ed", "e28e0e9f9d22463ac0e42639b530f42102fded75",
          "feca44952447015b5df1f456df8ca4bb4eee2ce2", "082e91924deeb77880e1b1c84f9b8d30", true },
        { "f32364b1d339d82e4f132d8f4a0ec1ff7e746517fa07ef1a7f422f4e25a48194", "5a86a50a0e8a179c734b996d",
          "ab2ac7c44c60bdf8228c7884adb20184", "43891bccb522b1e72a6b53cf31c074e9d6c2df8e",
          "43dda832e942e286da314daa99bef5071d9d2c78", "c3922583476ced575404ddb85dd8cd44", true },
        { "ff0089ee870a4a39f645b0a5da774f7a5911e9696fc9cad646452c2aa8595a12", "bc2a7757d0ce2d8b1f14ccd9",
          "972ab4e06390caae8f99dd6e2187be6c7ff2c08a24be16ef", "748b28031621d95ee61812b4b4f47d04c6fc2ff3",
          "a929ee7e67c7a2f91bbcec6389a3caf43ab49305", "ebec6774b955e789591c822dab739e12", true },
        { "00112233445566778899aabbccddeeff102132435465768798a9bacbdcedfe0f", "000000000000000000000000",
          "", "561008fa07a68f5c61285cd013464eaf",
          "23293e9b07ca7d1b0cae7cc489a973b3", "ffffffffffffffffffffffffffffffff", true },
        { "00112233445566778899aabbccddeeff102132435465768798a9bacbdcedfe0f", "ffffffffffffffffffffffff",
          "", "c6152244cea1978d3e0bc274cf8c0b3b",
          "7cb6fc7c6abc009efe9551a99f36a421", "00000000000000000000000000000000", true },
        { "000102030405060708090a0b0c0d0e0f101112131415161718191a1b1c1d1e1f", "505152535455565758595a5b",
          "", "202122232425262728292a2b2c2d2e2f",
          "b2061457c0759fc1749f174ee1ccadfa", "9de8fef6d8ab1bf1bf887232eab590dd", false },
        { "000102030405060708090a0b0c0d0e0f101112131415161718191a1b1c1d1e1f", "505152535455565758595a5b",
          "", "202122232425262728292a2b2c2d2e2f",
          "b2061457c0759fc1749f174ee1ccadfa", "9ee8fef6d8ab1bf1bf887232eab590dd", false },
        { "000102030405060708090a0b0c0d0e0f101112131415161718191a1b1c1d1e1f", "505152535455565758595a5b",
          "", "202122232425262728292a2b2c2d2e2f",
          "b2061457c0759fc1749f174ee1ccadfa", "1ce8fef6d8ab1bf1bf887232eab590dd", false },
        { "000102030405060708090a0b0c0d0e0f101112131415161718191a1b1c1d1e1f", "505152535455565758595a5b",
          "", "202122232425262728292a2b2c2d2e2f",
          "b2061457c0759fc1749f174ee1ccadfa", "9ce9fef6d8ab1bf1bf887232eab590dd", false },
        { "000102030405060708090a0b0c0d0e0f101112131415161718191a1b1c1d1e1f", "505152535455565758595a5b",
          "", "202122232425262728292a2b2c2d2e2f",
          "b2061457c0759fc1749f174ee1ccadfa", "9ce8fe76d8ab1bf1bf887232eab590dd", false },
        { "000102030405060708090a0b0c0d0e0f101112131415161718191a1b1c1d1e1f", "505152535455565758595a5b",
          "", "202122232425262728292a2b2c2d2e2f",
          "b2061457c0759fc1749f174ee1ccadfa", "9ce8fef6d9ab1bf1bf887232eab590dd", false },
        { "000102030405060708090a0b0c0d0e0f101112131415161718191a1b1c1d1e1f", "505152535455565758595a5b",
          "", "202122232425262728292a2b2c2d2e2f",
          "b2061457c0759fc1749f174ee1ccadfa", "9ce8fef6daab1bf1bf887232eab590dd", false },
        { "000102030405060708090a0b0c0d0e0f101112131415161718191a1b1c1d1e1f", "505152535455565758595a5b",
          "", "202122232425262728292a2b2c2d2e2f",
          "b2061457c0759fc1749f174ee1ccadfa", "9ce8fef6d8ab1b71bf887232eab590dd", false },
        { "000102030405060708090a0b0c0d0e0f101112131415161718191a1b1c1d1e1f", "505152535455565758595a5b",
          "", "202122232425262728292a2b2c2d2e2f",
          "b2061457c0759fc1749f174ee1ccadfa", "9ce8fef6d8ab1bf1be887232eab590dd", false },
        { "000102030405060708090a0b0c0d0e0f101112131415161718191a1b1c1d1e1f", "505152535455565758595a5b",
          "", "202122232425262728292a2b2c2d2e2f",
          "b2061457c0759fc1749f174ee1ccadfa", "9ce8fef6d8ab1bf13f887232eab590dd", false },
        { "000102030405060708090a0b0c0d0e0f101112131415161718191a1b1c1d1e1f", "505152535455565758595a5b",
          "", "202122232425262728292a2b2c2d2e2f",
          "b2061457c0759fc1749f174ee1ccadfa", "9ce8fef6d8ab1bf1bfa87232eab590dd", false },
        { "000102030405060708090a0b0c0d0e0f101112131415161718191a1b1c1d1e1f", "505152535455565758595a5b",
          "", "202122232425262728292a2b2c2d2e2f",
          "b2061457c0759fc1749f174ee1ccadfa", "9ce8fef6d8ab1bf1bf887332eab590dd", false },
        { "000102030405060708090a0b0c0d0e0f101112131415161718191a1b1c1d1e1f", "505152535455565758595a5b",
          "", "202122232425262728292a2b2c2d2e2f",
          "b2061457c0759fc1749f174ee1ccadfa", "9ce8fef6d8ab1bf1bf887232ebb590dd", false },
        { "000102030405060708090a0b0c0d0e0f101112131415161718191a1b1c1d1e1f", "505152535455565758595a5b",
          "", "202122232425262728292a2b2c2d2e2f",
          "b2061457c0759fc1749f174ee1ccadfa", "9ce8fef6d8ab1bf1bf887232e8b590dd", false },
        { "000102030405060708090a0b0c0d0e0f101112131415161718191a1b1c1d1e1f", "505152535455565758595a5b",
          "", "202122232425262728292a2b2c2d2e2f",
          "b2061457c0759fc1749f174ee1ccadfa", "9ce8fef6d8ab1bf1bf8872326ab590dd", false },
        { "000102030405060708090a0b0c0d0e0f101112131415161718191a1b1c1d1e1f", "505152535455565758595a5b",
          "", "202122232425262728292a2b2c2d2e2f",
          "b2061457c0759fc1749f174ee1ccadfa", "9ce8fef6d8ab1bf1bf887232eab590dc", false },
        { "000102030405060708090a0b0c0d0e0f101112131415161718191a1b1c1d1e1f", "505152535455565758595a5b",
          "", "202122232425262728292a2b2c2d2e2f",
          "b2061457c0759fc1749f174ee1ccadfa", "9ce8fef6d8ab1bf1bf887232eab590df", false },
        { "000102030405060708090a0b0c0d0e0f101112131415161718191a1b1c1d1e1f", "505152535455565758595a5b",
          "", "202122232425262728292a2b2c2d2e2f",
          "b2061457c0759fc1749f174ee1ccadfa", "9ce8fef6d8ab1bf1bf887232eab5909d", false },
        { "000102030405060708090a0b0c0d0e0f101112131415161718191a1b1c1d1e1f", "505152535455565758595a5b",
          "", "202122232425262728292a2b2c2d2e2f",
          "b2061457c0759fc1749f174ee1ccadfa", "9ce8fef6d8ab1bf1bf887232eab5905d", false },
        { "000102030405060708090a0b0c0d0e0f101112131415161718191a1b1c1d1e1f", "505152535455565758595a5b",
          "", "202122232425262728292a2b2c2d2e2f",
          "b2061457c0759fc1749f174ee1ccadfa", "9de8fef6d8ab1bf1be887232eab590dd", false },
        { "000102030405060708090a0b0c0d0e0f101112131415161718191a1b1c1d1e1f", "505152535455565758595a5b",
          "", "202122232425262728292a2b2c2d2e2f",
          "b2061457c0759fc1749f174ee1ccadfa", "9ce8fe76d8ab1b71bf887232eab590dd", false },
        { "000102030405060708090a0b0c0d0e0f101112131415161718191a1b1c1d1e1f", "505152535455565758595a5b",
          "", "202122232425262728292a2b2c2d2e2f",
          "b2061457c0759fc1749f174ee1ccadfa", "9ce8fef6d8ab1b71bf887232eab5905d", false },
        { "000102030405060708090a0b0c0d0e0f101112131415161718191a1b1c1d1e1f", "505152535455565758595a5b",
          "", "202122232425262728292a2b2c2d2e2f",
          "b2061457c0759fc1749f174ee1ccadfa", "631701092754e40e40778dcd154a6f22", false },
        { "000102030405060708090a0b0c0d0e0f101112131415161718191a1b1c1d1e1f", "505152535455565758595a5b",
          "", "202122232425262728292a2b2c2d2e2f",
          "b2061457c0759fc1749f174ee1ccadfa", "00000000000000000000000000000000", false },
        { "000102030405060708090a0b0c0d0e0f101112131415161718191a1b1c1d1e1f", "505152535455565758595a5b",
          "", "202122232425262728292a2b2c2d2e2f",
          "b2061457c0759fc1749f174ee1ccadfa", "ffffffffffffffffffffffffffffffff", false },
        { "000102030405060708090a0b0c0d0e0f101112131415161718191a1b1c1d1e1f", "505152535455565758595a5b",
          "", "202122232425262728292a2b2c2d2e2f",
          "b2061457c0759fc1749f174ee1ccadfa", "1c687e76582b9b713f08f2b26a35105d", false },
        { "000102030405060708090a0b0c0d0e0f101112131415161718191a1b1c1d1e1f", "505152535455565758595a5b",
          "", "202122232425262728292a2b2c2d2e2f",
          "b2061457c0759fc1749f174ee1ccadfa", "9de9fff7d9aa1af0be897333ebb491dc", false },
    };
    for (size_t i = 0; i < sizeof wy / sizeof wy[0]; i++) {
        char  what[64];
        Bytes key = from_hex(wy[i].key), nonce = from_hex(wy[i].nonce), ad = from_hex(wy[i].ad), msg = from_hex(wy[i].msg);
        Bytes ct = from_hex(wy[i].ct), tag = from_hex(wy[i].tag), dec, ct2, tag2;
        bool  ok = aes256gcm_decrypt(key, nonce, ad, ct, tag, dec);
        snprintf(what, sizeof what, "wycheproof[%zu] verdict", i);
        t.ok(what, ok == wy[i].valid);
        aes256gcm_encrypt(key, nonce, ad, msg, ct2, tag2);
        snprintf(what, sizeof what, "wycheproof[%zu] ct", i);
        t.eq(what, ct2, ct);
        if (wy[i].valid) {
            snprintf(what, sizeof what, "wycheproof[%zu] tag", i);
            t.eq(what, tag2, tag);
            snprintf(what, sizeof what, "wycheproof[%zu] msg", i);
            t.eq(what, dec, msg);
        } else {
            snprintf(what, sizeof what, "wycheproof[%zu] tag differs, msg empty", i);
            t.ok(what, tag2 != tag && dec.empty());
        }
    }

    // --- Extra KATs generated at development time with OpenSSL 3.0.20 libcrypto (EVP_aes_256_gcm, called through
    //     python3 ctypes; random key/nonce/ad/message from random.Random(20261003)); awkward lengths around the
    //     16-byte block size. OpenSSL shares no code with libsodium or with this model.
    static const GcmKat ossl[] = {
        // mlen=0 adlen=0
        { "079ceb0156ea24d77f49861b9e63844c0d04aa7960f8ca1fa2e0c120d39e820e",
          "ac398fd57d243b4d57a55509",
          "",
          "",
          "",
          "3a02b4423e7e66b8bdc5cbcc26aac91a" },
        // mlen=1 adlen=1
        { "402f82e3b0bf0951735c08dd3015aed35297b3c2d14a4d7537c120845067a925",
          "fe4e84324f3f2efc1e84d78b",
          "8c",
          "09",
          "90",
          "1da9d41d1db76f1343a528d2142cb185" },
        // mlen=15 adlen=13
        { "1483bf2d6c024ef8d0c207ecb1393de8df8cb9b3ce17a67fc60abf69cc7e8085",
          "bef2ef3e8754966b42b1172b",
          "df7d1a42046b818812fc21b32fb015",
          "04f8530ca0397f336a3e2fbd71",
          "ef42ebe7dd73d2cdd8282ca0996b5d",
          "44dae708cd59514987c2f50e983c19dc" },
        // mlen=16 adlen=16
        { "d485d6c7647dfd33e10ea93ef9a5a454a8e45ac43c33dcda2f5248f3ed23fc50",
          "2517bbc3ef7e065735f30294",
          "f7ba23facd19ef01f8b38b6172e13864",
          "510736cbba773a0ce9f914a64e3a85b6",
          "997498395a20c6151fbe4493e696903d",
          "197653045a7a03aaabd730598e40d264" },
        // mlen=17 adlen=20
        { "7ffbafd67e38bfd98e5fb8ecf2d802961c65a0d75dc7ade57cb6a17a58d0e6f6",
          "b82bffd6b0db6b5ee4450fe8",
          "6faffd0f1f0d659f8b3654bb199a1fa7ca",
          "abf8ba84f375e2ca634ecdfd6f2a609a9d47da70",
          "e65d5d3836f738582b4658ab9fad7d6945",
          "a7c9a9788d2680951986b88ab31940f9" },
        // mlen=31 adlen=32
        { "388339111c20fa8ba77d1c868e544ef8c4a936bb1222e84762fd0c53c304ec46",
          "3b99d6b545e79f23247cbcdd",
          "dc2ad4ffa20d360733a2b4d6e1f102abf45cdc509cc746d943bfbe53d2461c",
          "e3ee2245c2720a9420784cae359a4801a2b8ceef9efd2a52f1da2f59a9e02ef4",
          "7ebf8d6292432451b99689acab1f8aef02533eeba154d0319103380f9f85ff",
          "900283cf0d9c1c9c9bfd21e14e0f730b" },
        // mlen=32 adlen=100
        { "8d03935751faed08a40bfb16f76be39c1a29c4987b34d88b3dbcc4d46ae5e41d",
          "2a1ef9ce03fa09043010af22",
          "24663bfb823a1263c3051a6053a4477b521752f271e1c46215c349c24bd25921",
          "2d368f5ff88dd8d5ef1893ca357b8a3be9e17c795bd774dabe5c97c0c2395226973c51a5cea0f887446679aaf0d4ec1a"
          "93f080984263e31246995aa413124fa6a309249edfa60e4a6280e9ccb96455b5572caab42a77475266a36990e8d5c3a3"
          "2ec858a5",
          "daa62011c69ad5de8a69891ede412abc39022607f9a8546759fea6af0ed704ee",
          "ff43523be1c352a09e72f4617400450e" },
        // mlen=33 adlen=0
        { "ee72b13a1dc15e103a80c4016123a1a06452c0aea1c7487557db33996e43a6e2",
          "51ed55ef447ac479b1131979",
          "8e3d690b8fb95239a51a655664e1992248b8442f661e16419d514cf8bfd5fb1194",
          "",
          "47b9387d866fb015edbca88bdb71d11297118ca3d6daa862d032fb6ae89819abb9",
          "e15faec950e00ff0e4895cdbc4dbb6fe" },
        // mlen=63 adlen=1
        { "e4f53fa4c8cd61102a002639ffa7a91f5f4d2c6f80a1c28c402f52d6c09b3c48",
          "8bb2909a98a37cfdb749e922",
          "d3de88049b698c25b807772074e3e8320bbf346074a2bdcb78ed96efa06bb4f40b0d973d92e78b839748358eb474d0c4"
          "d9dc88fe323e64477e946cd182a06f",
          "6d",
          "8fde1bc03b9ca1d2da2b59fba115630aa505b251efbc2531800032a0c2d096e28023e6f74cd73f88c0c835cd9cc1774d"
          "3dd391a92f1eb8aad2264a7dbaa33a",
          "75860ab5ae6632fcf7a1d30cce781bec" },
        // mlen=64 adlen=13
        { "ded3d8d93ea9795989258f3999e35291ad51249b8bbe72f51e84f9551f951ddf",
          "f775a696eeb75c62bd4d1cb6",
          "c5b9f04142f16f9d5e84a2c050ba49f4bf77f2dea66b133a3388df24dcfa44e43b53d0ebddf93abae694975468b695fb"
          "28e75d49615eb614230c294079c384ea",
          "607356c75eefc0551e0a4a2993",
          "b99c2845d3d3ab1a855c9bc68d5293dd4b2b810639faae1030c5926b9b56d7ec34c6c6f737251dd5b06e5b2173ca8f95"
          "00da822b273d3c10b2e300a538cf0137",
          "6de9c9a3e74cb1942d4650df91c39179" },
        // mlen=65 adlen=16
        { "f935bce82324a64c072f33333fbb5f08d18cc636193a622f9af9a0281045d5e5",
          "221078b3dccbde8c2780ecfc",
          "a5f9077c0d68ae61e5f2cd02ca5d0a279334dcb75515b0944a5862e89445329f453b36f526f737ec98bfae278cee0a4b"
          "27e773663fa97bc6986888633d33304e0e",
          "6ce8488e3cc8944ef2083bc5175b38e3",
          "d825342bec83cda92474593d2244b5f5cea956b8f1d4616ab8162d8a86c4b002b9e7b21fad0acbb81a49955abc7c98c6"
          "47da2fba5c37b53860e751ed1edaf63bc5",
          "3b12764d2a779f8f9527cc505d803ee0" },
        // mlen=111 adlen=20
        { "e505924e7a56ddbf72b548709a8c7a78f285efeba444573b6eb1347e13ef6c48",
          "8617d262e54754c9c328cc59",
          "57ea6fab876836c24f6c3a07bcc0ed66387d875c0c9e4881f31b9894e791455c20c1d19e44fb95da9297c8ff7fe916ad"
          "e08c0abd5e656eb608a535106aa4c2fb4758ab4141a8570b2e5a90868a098af12d4288e0780b1e50d25285e2c73d502f"
          "db8aea11893ec1e4c919f9ac2e088e",
          "915ce1d5337c3281beae3a20d60d005e214afaae",
          "72f5af8065f835a3ec15f26e76b7b3fa2c17385c258a68a36153d5efcba6c3b3074174885c4cbdbf204a49384c02c4e3"
          "c3dbbc67bd0c0bb079ff6c8dd327a6dfa6593588a91b93d16c4ffda37ef926018ddca4f9648ef106262f6a810d7be49a"
          "bc9eff7b16d8c00dd9614bfe95aff8",
          "37f7627b9a4d9631ce842801ddbec59e" },
        // mlen=112 adlen=32
        { "da5661ca54f0bffc2f250ed40f4ba2fe042a71eb1b92b206b187ce101e183f4f",
          "608d30b80607a161c6e2dcf6",
          "13acff81f2609cf23bbc3ca6a630c21cdc1276adde32c84774002aeffcb7dd180a404aaf4b097106790b1a58d591aaeb"
          "86d34f075c7c258b6643ca968f2837b0752b39dc617080411fc7afc8d5b4ed4c5593ab6eff2438bec810a158886b4c5a"
          "4ecb0dfc3436e5556bd61d78b6be835e",
          "dd7213ddd03aa7cd7f434f4c0e3e4932c672ba073c519ebc93f5f5e129632322",
          "6d294958c4d4c08cc036301f87b24f64e0d8809e3f6ea0be1460cd1f2b81e29eaafd0def56d5dc02232c6dd952188727"
          "c0a97c71129450e81faed3441187b21939cabb07e409c82680230952692af02aaf262998a0df03acdb93bf09eb9c8187"
          "6d6bc25adcce5931c8516d5d39b11624",
          "97a2c1a4ef1259b49c9e8a3cdb0052c0" },
        // mlen=113 adlen=100
        { "f788b9280fda957f3b9c5d1e71ee7bd2e77b7d25cd3196ffa9ced0ff25d7fc91",
          "06e49c89cfc1777ce1a2e45d",
          "7d29f3ee3c2b3fb8d088d4f424aa3b1fa9d92c0f8ab06b153561d1dcbfedb3f78de703e52c1735a1ed6ada050f7995bd"
          "9c01732df48480c7816ada41a3f13d8142db1c69f07db12af7b2918694c1fc49f2f0169ebb6b3d73974fe7d3282fea39"
          "b7c910ecd83b743d697d79e5a17c63be7e",
          "0ca58acda624685647a2528877f15651bbe45091de0f6f2d00cb9c673fe354cd1ab1067a9263948e6962e401ce56b9e6"
          "de3b333ba3c310de0208361b81896392f21db8c60f8bc36b3c39e42f6f5161f6446f1a3bc0c692ee65e026642de4f97b"
          "abeb6679",
          "c3f591b003950376ef2df41c0cd1f558e7e5e9e2c9d89deada0c35099519e5cc12030d85547ddf1ee66b3491201b6fcb"
          "d244f022919a09f778e5b0fb453c8770d64d780acfc30be59ce8c21627f34637d9d292b9161ddb1ec5af54455691c86d"
          "ba274362e726dcebac428e4a80e431adad",
          "9e2ffcd486af7fdda869324a20072058" },
        // mlen=127 adlen=0
        { "9fd68b557a633a6a84242a61b5a5b4f9835034ba4a7809f234e56a6ceb7eb97e",
          "195bd34e0113f54a91f4893b",
          "127fedc2d2abd6102e6bc594ef7ed1e83f9145acd7dd9004d4b7b3e743c53a6e4f7ae19bcb6af1010222b1c0383f12e0"
          "9a0d5483d85d40fcf7d0f3ebfc9a0de2a91ccfc0ed480b123829020c45a504b749aac6bfad76d59316e49a592d4257fd"
          "3a118128fd44d7e2c73c582c00bc841c3cb7ed098b5256b5e4b3f5d200b474",
          "",
          "93106ea0e73ecde130eb3c7751f7e1da352d3c657ad7d536dc7083debb9a77f2c481254aff3ec3841bbbd86441f4981b"
          "d4a68801d284ab90a6b8b34c1433e2b98b73b1689f0acd45f44b1d45935a5901eb0cb44645f933926be058431ef2e120"
          "f3cf17dc04c1653ea4f1baa00dd62ffae18273de2a26aa4a7b54d54ad67784",
          "5111d6ae51f6c0b924ba552a487c4f4e" },
        // mlen=128 adlen=1
        { "93fb2c6a03bd5978e922d3caaf5482bdc7f8aa5b05a13baa36d288196604d888",
          "aeb8ca05a404b4f604f5e0f3",
          "352c77ec6ea923603c935c4f8eccfa1eeb550265c24ff1f05d5a0592ff38c06e23edad423328ec0228a54b0584aaeb96"
          "53ac752a0c338bdb35493300a5a4b1bcf78eb40af5c65b6e6b8ceb2d469b9d30635e7c724aa663c3a8dce913bb259a09"
          "0dcd4c315717d6b640bc6356fc8aafdd1ae895cf812788acf0c8ce98acdaa8ac",
          "45",
          "209997ac6db4bd8d984c3dd4bcad1426de11731e7363b8880a1598d239271742ec2c5a2c1cd71394acf8b823b5caf199"
          "94a59c0396f6dffd928e59090577c007dfd6abe32502b7c63cf8b18b91482168cc7f49f6a14ff6c1b9c3a13ff6f25d3d"
          "25f10ad207b8b961db8dc1985950e79b8e1915cb0d44c782ed1a6cf24ed5f594",
          "6c4bb0adaa31b199b8655984f28bad5c" },
        // mlen=129 adlen=13
        { "61c4135a94889e3e6d94a295e197f9ccdc56e3e056cb7c6628f155611f997931",
          "cae0ab643a819d448926ca9f",
          "dc9c62f9ebc8516f9483e356a3ffa648d8fb71b06eb55f10ff2d9ace6493fa47c6a96161f62a386f6a29b0ec12cd3ac6"
          "24bc3026f2768de66aca1e0b279fb831c4a82295dd9f3f35d2d6bf18513142d8123d400b8b319ebc8987c054a5ff06e8"
          "5465b8bfdd9e4e624153bb8f5b64d5e45c214f666c9fb66e39ffa523695dc0d242",
          "ed951c62b7c53fa5bc813419f2",
          "0bf92248757eafbaa82e781c319b9345719a7870f20df8e3987e4257804d255b70caae9a316e795cdc4f517d94425013"
          "f23f53b7f97c9def3be9d5ca44cf79c3e1d77dd99cd7e0bd4293801b4d95ac549fa0be0e0e46424b8e3f267ddf7ad94f"
          "bab6f877e10f3811ada81610e255a781b6df9e9fde801e5cd7a74e84939dea8348",
          "888ae367009716eba950476efa4f67ca" },
        // mlen=255 adlen=16
        { "955ec258dfeb021c96ac2f744d103d596deb45c45db44350c95a21565ebc4906",
          "ccd004ebb9d9664c8ea68fbc",
          "dc9806ee97e65ba0fc2f69072ef484eb8d7bc6d221af6dccc7ce31d80f942a1083c4acaf9cda016bfc0d576b031de438"
          "6b2646692417c7d7532a7c50696d229e8087be6b7096e524b2a9fa02a7622430fe57458e4d5c11a4714941d454468dc9"
          "85bcba0f72b5baa1c7e47f03725ad1a86f721839ff24cf9ea0b7f5d3d9ea127b503905d104f501296ef853d68481c319"
          "2191aefc6b93afcc7bd10b4a6440f9b1961dbc953a85f28dfa40a199eb541e78b68d415724322eaf56141bd73bb4d1d3"
          "4aadb55b2c9a32549c0503535e17da7b22b2bd2a2e1499c45e674c14641a54121cb293a69913b0a88c1f011881c0f592"
          "2dab542ea9ad1c44c1a09a9169c769",
          "e5be8f9c6fa890867d8925234166b3f6",
          "c6f095c21adaa2407cfb435f43307338deb12111f03f76891583d69ac3019d685c0273055b202d15b933a6a710abfbf8"
          "9274a000ba5f6b83bf036c38b6811b59fc183057a10e5df8ac4149408dd3d0e28735ebbd5645e936c3589d0f423f396b"
          "7deeb8e12c5b71b0cd8bb2b52711c9ef084fc6a6f49cc53863360436ed96a4a7cb45c0de08d62d85860ad74506dee14c"
          "f002845a12e8ad80a26ee8b6af745512dbc35ba0ed43b07d09e5016d0f775cdd3a56c401b7390faadae56e3815c3a5b6"
          "7eca69fddb93115c8fadc368ce547eb22ff6adc207dfdb1ec5b67cf91e4244d5a3c12433be357d176946391c5a840f09"
          "57ab11201e8d694d33e8c723bbb086",
          "8ad612419ffa7fb6446d1d3efce6b2ca" },
        // mlen=256 adlen=20
        { "9b8ffedc1ff0f0a6b5e133de97ea61d43b8f3ddcb319fafc4e0e377a602942dc",
          "532c84e349925886695d038e",
          "7e527fe5708caa10e36a8ff66ddf010cbecba8aa24fc83e5655913aa343770326c43c880bbc3e67f37819f5885a15538"
          "48e513a1fc456635ba8544a25d3430d70c64fa5fb1bf58b02881f0844eeb3836f5dade58c153d83fb460d39671a70264"
          "abf8361240fd2a429b77528fbca40667d86e4c2cb3fbe6717ab67cae8a3dae23f5eea478d6a146200ca0c8d3eb1b51de"
          "65b69794b75d0a5aba98ff461bfe131370229db2749cc56262a00ae38c6c31a7b300796eda8ffa7ea617ac9260c8a026"
          "adc2ef6ff787190310a3d10098b2bf58770ec0063038a8e5fcff139050c04625ac57b6db278495813f700187d96bb636"
          "e02e9be2eae93a3431637b767ac6f484",
          "1b988a0dacbcba1aeaa4867bb5644a1efe95a4d0",
          "08e6ed20969882b6d668c4c936f35f9fbd703bcbb8ba84a4d24bda289f62ba29813a06059cd0ee08bc29bd3be099b05e"
          "f0c42ddb8d1f1b77024e1983ada2000cb62435b0155181837b47e6d71246ef822bfdc1fef4134b4b5791a8dcdd6e09d1"
          "ddafd9fa25283ab535bf1ff97ceb0ae2b58471f54c12417379ff00e113163c4611805f47882a97a63d2ca69d9e4b7d9a"
          "bc7e74549550ea6ab22713e7867278fd6ee87805a872ad8fad8df9b85ec8cd6e3ae0f06f422e58796485bd371ed7b410"
          "d665822931e58d8112d87d23d8218145f552e09e89840090ea633fb34ac1ca5b8459ed908b0f05150a51eae78c83f0f0"
          "43c6df4c4d685b40b89a63d589ae3420",
          "ba7ca017e3ab69a807d0c3ee1b5d58b7" },
        // mlen=257 adlen=32
        { "0999ce640afe213c71453db55c88c74b89b0d60a1cad075e4a99578c04cb525e",
          "6bbbaec12f641df1316b888d",
          "e107ba3ccce4b51404aeb20f9579f640fe554babae7b52073cd01db197f704899005f50490d9ac3963f370525e095c0c"
          "a9fe1c00dee5035ff2035c41b16873b5f429e2d6a565aa93138aeeb70eb7c0f035f14babd5e3c53229182e94d1819475"
          "fd10eeb086aabbea8117381eecccae7784425a9579370b0f5d2fe5de6ba6186785c809ddd1ef89175681cedba09eee88"
          "994b77fb1cf91082cc1fa8f5d2feaa4cb806652d392cc777aedd208be0ec242514461798c614f39fd513184f81944288"
          "33455b7a0e70433ed8ce48a0cb619c6a19c86188ddb046505b04c027cdcbe563c67983eb538f39cc263bc7af01d7a24f"
          "e48a7cc068911a6281d3ffab230d19b0b9",
          "086f3462516a41b3f1f1a87b7fdd05b798eefafe34d9fea4240b0211b6c2f30d",
          "feb161fe548e66208e515ac695f568d6279d490ed294039e4234eeb71696f5238591fcc12854b8f0615f1b9fe4ce9f5f"
          "ec64e5667808ebc67f8107313234b7d0020669a2ccf75545dc1590c34735a40322694ea7886a7b6afa5efd4d465a43b4"
          "c3bfeb1736231ddae37cb095a9aed77a5967b48cd9acff931b9ec140db7ba9d15009158b1d95e448ecee90b25aa334a7"
          "37e7a4707d93319930130d38216f340b5cc4f8902046ce851a079fb558233b9e368ab08298751d8331761a9e2646b20a"
          "78bd3663656288f288c6783f8b076f73bc0b0cb1e0afcdccf726bff880073637606242349cbb2321c278761469ff5c55"
          "11720924ef4bcd30101092ea4a2a045367",
          "21df0abe35ac124d0648ab9832ba30a0" },
        // mlen=1000 adlen=100
        { "bb10a4ab2fc8365b06c9dd9ba843ffe1dcd6c174e35c5bba62b8fb6fe893f1e1",
          "318bbf78deb15d29f40b5fa3",
          "7f6e4f77854d4e5d777e733ab8013b85dc25a990f03d6716f1f3ed92bad3fc69388c3aa98a732bd1f47ae8cc760f2729"
          "05f0fa4ed807c7bad009833f50c7573e8af934247014d0903b55f59f8ce4dcec7d4fc96083d96e309112ea1a0115e78b"
          "ff5bf080c885967b20ff2fd1bedd95176d7d88cadfb51bb9651a4628018d26f392b7e2f75fc028597b2152562a9ae3c8"
          "968195f3d3ddcbbc35da23e1fca12d0b465968ca55fa5de76198f99fd9daecd282876be43301dc13465533a35f7b84b5"
          "3ac7c9028f6354ae968c8ebfaaf22b3c2f54f69dd963cb4f3bbcea70fb06fe1fe877f2bf8e2c340afbda7e45f5edcb32"
          "94febec3f6b1bdc3d223b4e4209b7a8337a0592b179567beaf1b3d89db056f213036feb7518880c04f626a81f03d6c6b"
          "0860b6bce4efa7856ab4ab06d57d86340a913748e19e48490af723ca7708f62d095efc5f3be01327b5b7ff803cf88e80"
          "7a692eecffd13c6f94fbc3d5194e07242243977f492d88783320b37ca44ce36e01e46b29b2fa8c180589d1bc4a44e514"
          "35217f9fb6c0b25445e77493e18826cf58dbc49223658fedbdbc1848a4cedfcf1b2655c43957de8fe002bfca46bf6286"
          "3808c28caf60867aacfc9d8689d51dcca56249822bf7038e03073616fbae13b3de06e869c0a21b94612bc33a8c51ce49"
          "eeb41ee489f0b2d4f22a35b2cce878c17269b56429e00e6ba7859d03dc9b3e71a0a7a4285066c4e8e02fa56c7d4d82bd"
          "6f37208b4ae0ad1812f4dfe17e8236c5091ab27a97bd8b5e2d1f139891ed6de98961d8c34f9845776cd2926d6237ddd5"
          "aa640519ded9a1861fcc578a4f47cd9f6b654ff0a0fd07291f489cb602fd5ab2812087834b7dd4b80bfffa10be7e9c10"
          "0b066d3d79b7bf403b3ce2927c58da7c7d5c8858331c422c0493038eb7d330787adf4aa94698bbf3532b86dec9979b8e"
          "450cef859e1fd0bdd54168f800884f71139988039bc9a40ea8b4f69a4e8400481d661d32bbe76b342c9fae933d075243"
          "000f112dc47c18192fb3214f77bbc00f9a6fa35544c58e8612e2637995d058e77fbb8e834c68629f1cf52db789480b31"
          "b513a82a57f027c0bb13bb964055ea6c134a4574fb2dd82059b8ee50b9aba867977caa6bc6d188aea7cd096f6dd23a6b"
          "39ef7a047c20998409e21e632958f11b03e46207c6d74981f057fa26e4ef7817a99220cc61744cf425d5d9a35239cd25"
          "0a4dfb62b908cbac395ac7def981ff152b5ecde12eb8b4e99e5ed7833894f020ac69d569c75e5dd5248a431d50fe043e"
          "146da4de94e540e327bdcecef877098bf6cf0fdfc7c2050cce2f6aa914ec3bbb9d3e8272c4748b205efcb2c1be4796b6"
          "932c41725bb7fe9ef74283efa55258158fef498934edb1f056f38f1e757d7ed29636eb11c16ed2ce",
          "43473b7de0260642f92b9cbc2b20cd373ff4015979d397a20eec3d4ecac82df6b4c9b78b0f248e3a6591492cf0e5fc8e"
          "364ac9b2f10c5f8c3d29ddff6d840de354044b41d367e1f3113190bb2263d947d29f4394940e8f2f7aa1986cb94851db"
          "a1ada9c8",
          "dc73d4e4495110835aa450605a20241679a87b5d812357df6e337cfdbf57ad5876005acd7c9e4494d06dc4d39763b577"
          "37b11cf96c088c3f06d56fa29bade0f2e0fafe2671fdaaf344635debe7928025558fbff86cbc367f5de9544dfbab382c"
          "b7db6a2ecc23f3d051ada9347f6fd293946258d7dcbe9c893d1c2994bc7cf1bff79e7dcd37f4d656494aa4960c233533"
          "176087fd3d562a7c9631b391f7f8d0c0301a4a343f35395b550185a8d18495f1a230bcbe453965c96f72f741856a6465"
          "66795744d7336ef29eb93160375553a65322325c76d09ec69aabe3b0d3bec49b4ced698a18ea3990103f465e2fac249f"
          "a0210cb608b524c9591c9fc6f5b27efbb12eb35507c910ebdd763841beb1fb6c2cfbe5e952a41a7ad56c32e54e12afee"
          "9a90df1a410db51fd000aa053434a243dd129ea08d71ca62c33a64c67fefc0ad5868877ed39f26298caa9d17dd826335"
          "f4f876981059a87e48b687e517d8962117771c7b94c0d8e2f86a1f682163d01e65fea0d81a3d5fb3b56e7f80dd87bd16"
          "e05dc1e9faaa1494f734b9a1b6f342e560b51391142d23e03fbe7c73c72bdfed42ab2b11bb82d189d9b6b197cb9e9e9b"
          "25eb62be1a9acd57549d369cf48aa5de9f6ee60f2a90df7684cc4f4c79aa17501c17fe4e8ae2303317e95e575439bd2d"
          "d3bbd75fb681f90b01682afec2d79a9ccf62e4d5c8114ce5bdc6c2edbc604e52397dda3f5a75e4230eb90f51637ca91c"
          "62aec11f88347fe811b7ea548fa97f1f06a5a3c90afb733d942cb825a99a010930f69d7cb9147151299de1b9c5848e17"
          "64f4f53758a3c8ef00bba8924c80c8669166f6f75ae5273bb70dc5e151764026df8e0890498d3fa76a0587600d864762"
          "e02b2c0cd6d4c64b272fc7e4c0ec174f108e1b2062f19fb46339e2c76349c8f488de9fd6148788854edd1de8208e2ecc"
          "7162f8d60574cb6ffd010010476aa0a8c9582af2ac88c566043eceae7308c8411efba2bd64578dee250a1b29051f8d82"
          "fc509660158c30efe52b2d07978ab80d7fee54aceefd6e2026ef750424b0fed4483b7888085838abac0398a1a396e05e"
          "1e3f6fd9efc1dc5c22f50b62362e504af2de49868a56a2c42a45dae3a99a7529487660d2cca7780f43d07abd9e22b981"
          "b5aafa4e118707f1c2a3ed382969a37ab686c414fd99559cb170290cefdffe3c59a7d2f4f2250489c86b7e7234033c56"
          "f5e539fcf8cacc7d1d00b85153170d86599b2baed9c1508a55fb0c7d5032ff140a65b6f357664de34dca36c29ade1413"
          "222fe01e6ff440e9ee7105f319c99325e37adec3969c7507e4ca3ab517ab5e27ddfa47d18ce9609abcd0160e81423205"
          "974a9a06f9ddb856597c2b25b72aeef05783c3ab3907e3a5e18d1563184783e9060c346be94edc1a",
          "632c0464c9aa8796107d81d3b4a31552" },
        // mlen=16 adlen=0
        { "29eac76208c59ee26c5dffa1018bf57db0dbcfc8a206bb94877a1faf775670e2",
          "938531a0e9fbd8197321ceb4",
          "8323ae044bd6984edaa911e642e6ccea",
          "",
          "8f12a76fb2e29ea38f720e1444c8d44c",
          "de996314850d32cb5e95ce2ae164ca7d" },
        // mlen=63 adlen=1
        { "7ee8840467e3c721602a8ae9ebb3612657a011af5f3e2e14875ff3cb4f73746d",
          "6c04616044c7eff4c21b23b0",
          "25e45c24321e644b08427a4b39b420fc0a225d322d833250c76d799e3377efeda7a9cd587606c7fb889b6b55910d0bac"
          "7856ced98e6adc2a2584b873754fed",
          "02",
          "07d39f009402ce917c33f1e3f79cb73a70b5a68dec86dfb4403c11aff98d065630812eb3142e34849d6ba092577ee713"
          "969dfdf3b2af8825119bd4d169a8bd",
          "d4eed12c0c5e3fc7819ef9792188b952" },
        // mlen=113 adlen=13
        { "f34a17caeb0edea16dc4dc7aaa0ccb685abc9c04c1d9f5a8b3ca7489c9c2008d",
          "ca877646cedb05c8145b09de",
          "d70f90c7affaba0467a1332bef5fb94342a799d1d7d4963a50de60e7ae790f3640762f3bdf1f973d1e2c0e3536099ea6"
          "c6ee79d8c4bd055c90213d0532013e79121846af82953bf1f1874c632968a97e91c5eb8b0c03f7cc62b98370172e588e"
          "29d0204381c2f9fb07801ce8fd19692fe3",
          "461a0e5bfd7c0bedd289fb61ba",
          "a7cce9df3684fb5bbc4165de3c49d85cb7237c053102055d899df3dd6ee19239bd2076fe63f62ffa14b05149de9102d1"
          "fdfc194635cd00b843ab74b88a858ed570c92c3b10969f53f7e407227e6eac840afe40562bf43242b1cef1ba0d07a8e0"
          "3f09799a029ebea6fca603bcd5fff62e93",
          "3a2680739c9aee64f2ce52ffc0bd6aec" },
        // mlen=256 adlen=16
        { "96d16f0272becfd1c56960ce9f15e38563192980be983b7b47cd0893316220b9",
          "1475b6fd72d88c4d4343f843",
          "d0671573f41804e56a761895fb1bca7fb4b7b16d2983a8737d2b9100906c1562f31fa2feab3a7eb396be06313ac3d7ba"
          "37ad8205676f6c96191d090a50c19fc025fbbe55f83508309d30d57bb9b763621783794928cacfd0a558a498dce04c51"
          "0c55f1f6554a94f7f0bdc09949a21b587a0d20630a736dd7216a2f880dee9a7eb697883aeb8929918a913f5b6b5eb17c"
          "a6147ae9f540299122210d86cf00736847945eb7b30ac212dce11b3929c5e59fda9f08413f0616d9c98f3a0eccb4db3e"
          "d696a48d95e71151081f12c0165c1822f7b23658d9b8a48b37c22c17e9a70ba73de334150310d3f0cf16575c6a291bdb"
          "e50fcf7bf3b0d045dece5a41151cefb2",
          "ae96c7b604c1674cb1d4a100e105debe",
          "7f592062c862e6dbfdf83ee0d45330acbc3af32a1e149c07bfe5b1aaeb489e113715d5552c9d7f52adbd4af248b0b224"
          "d4ac752eab03d9358be34b327c3d813014944e41a4b336788a2d43dadad72a3caa45305fa3d8cbaa9cd6f426dff21965"
          "92b4e357831f14d4fc33501bde7b1a96f4e9bcd7ca1018d45f8ea6ddf8702674d8bf6ca22ca12a0437a1d5c526bf48f3"
          "8c9937bfc311f257ad583c7e88e55fd1ac85035fc33c8f16f2a040790b47487f8be70b418e42d86181b7cbbb090e4ec5"
          "2a20533c44d4fb9ba5ab3f1411af9df11ea7e971b7f70d42e41f1af8abd7f7928678acfdb48fff1995183ec9e66faba4"
          "634c70ec889f4ff0c6c29d5ce8b81370",
          "75dcd61b7c25685c7f8890707013087a" },
        // mlen=15 adlen=20
        { "d33d673c33bddd0c7021ab3b49cfb3de51c20d8c67a2fd5d89fede38868ec901",
          "e622d8c41f4ef40575a4f58d",
          "2c10b9082fa2b71250e75c3017d8d1",
          "82980707feee30b440fb465f7e2b14b194212b03",
          "52d394c12245ed8442b4abb98955ce",
          "ada5432ee013faaf96eeaca495040da8" },
        // mlen=33 adlen=32
        { "d92a9bffd7c05ff305f66abea688d4118dd3415c7c4c25b14e49d45251825008",
          "315c39eeb6ee7d617e733954",
          "513a881b1d26334b53f12c518ea7f15e9fccb441a50aaef30931c62b652be0869b",
          "cfef4e103dea26bdce475a48193d558f83d859f2698172ec54e32b664ad7b592",
          "1a4b903410a1a41158e031d874c190bd8201181ae99574778c8e2fd2635e4d8711",
          "cdf486c9deffd12420a193521bdcacea" },
        // mlen=112 adlen=100
        { "07a2bb63d45e8eda6fc7051bc97c245596c4b1d071a90d53855d6ecb743125b2",
          "de8dddfabd5de0dcea1c2a6f",
          "a8b7dec1ad68a4fe3b9a797c76465f67b1badd7c004e2bb0e10906c4f792f7eb0a95b67720a93cd7f4389a3caac884e6"
          "556c808ff922cf40c1d8b62b7011b682a3c91b10e372ac7e53ff3b467f737935dcb42284280f0437eaac1858793fbcc5"
          "a580c338a983a1876ae3d492f909ddbb",
          "aa294358f613241f9fa418213427b0a7cb971d5aa7dea021bc4b5b253784fe1a9eb521559dfec156925ce7861f1029e2"
          "5a4ffd56819de9c3d8eaad913c888509eb9c64a03cea784b0ace0aa6d3d9b56c0cd6540ea2c63a64ae53bc05e73f3fe8"
          "550bf759",
          "f70bde46bae7a9b955b49f2ad44cb5523744823b4e8fe57cac63dec0f8e0ddad4cc1b8a62d906b1731c85894f9255110"
          "721bb92a775dc484fba7934c108a0e6fb1069c52c43bbb3fa5194d3dbe3cf6107aa97b4503a65f32639431b115c7c9ca"
          "e3f905fba4c4b9f083772b74eca376fc",
          "4810fee8932bc4dc51d3ca7aba564a87" },
        // mlen=1000 adlen=100
        { "69ea273742989f9b73953fb3490efa4f55a78ef297563e4eec9e651cc0387d1d",
          "745ca8787cd4dd1f5d9e135e",
          "fd0be7a6420c4b96c5a4a10a02a940c76f1b549d0915d4d72b41ab716a1d58907f9f09a6c1af3531c0c6dfc02962a459"
          "d30bf1467f37e1af4a2086eee3c0855220c3646a751da3227716ec556c12f841bc651ec7b9faeb19da74233bc779fbef"
          "acbb053238216f0f582da371e109cdd3df9eefcfde7ef56c5b297f03a67572762efd0ecd602f140f73f3145c9d27791c"
          "c6cdce893d351c246f81d0bf6d2b5f6131c157ebacc090d1fb2414a381962ac4cf593183312877dac50fb78cd4470d0a"
          "ce30fc3ab849616d599b6dc174747561537f811d6e434a12e79fccad3f97b16ccd9588ea0bf7dfdc8415d53735c50673"
          "6c711c0da63258b1c26fbab086fef4e9770c63651925e387a03ebbd760737301f703e2fbd8107dc6ae4f2af5b1ff65ce"
          "2fbebdccd95bb2ab21bf20d138a358fa2169bfea1247303d179eb20793c511d7b5978ffd329aa6e666d2bb799459034f"
          "c9cefa56ebbcd3ec4bfec52aee0c471b9353df38a7dc4622fadc6eed59710a10604f7dde9e21193261e9539ea7537f6d"
          "709369dcc3c96b4d09bc520137feeaf7cf3addbc9a6b2fec3e2d4312845414867b7ecc280c39d14983a43410db7e16da"
          "cf66b89e99575c197b7d3af97af642a789d96acba2e7118bfa32a9e4b44bc6be5e79f20ca8b6051d36203f233fd51e08"
          "587ce2a1faeaef81bb536feee0de61006f82d96ec69644564e73140b3a74643becdc029069306622313cffa4c2e8a0a1"
          "61b2672750d842da97682e516771d2d37a17e68a1f69ba8263cff0ce0f8a56682a0de430136943031af9078b1eb841d9"
          "2940f13265c23669f44c1330b91961fe2948fbe50b14d6b73c5e733731856e77218e2a2ef625e39f95d4b26623f86e04"
          "695ed169e2f81974bb52f2b4608f1552610ffb20c63f36df79c1ef24e9fe18d8a606619dc9fdf0cda86bf8ad8336fa2c"
          "52412d18247e871d237f122db192c61283d6a316d16368f6cd61eda18374720665953340c0f15262b7f88c735d0fa504"
          "cdacf8e68f8b9161be983c3a21b323ebb9e98418dcadaf7b181647548fb5c82a7c7693dcab53b31af455b2a7950b2628"
          "f42f363701df154adc5c67835edd902dea074743aeebc977aeb11b8a701bfa5819567cd7f5b627b2abd6d5e8f97a7758"
          "75bf32f81d22fe6db081d0edc7814068a89fb4022045c80ca2878ef9fa14f56589d1ae1128e38705b86f1bdcdc010876"
          "1c47547bc99f7ef5b1a96bca2288b8247fb95eed3cf5179f1014aef9716889db710f61d5ea9f5ef34a174352fc1c3454"
          "50eee81d1092243ce3e0acb8dad8990f1e62b19571b99294d310a3713ec2ef3c9d2c1900330e627c83b1da4413883ce4"
          "9191d85b4b0f667015cfe6f1b614b5c3c888e5a94211df954287358fee81e358091ca7b3810c7bd7",
          "5fc43016f5f42432e3b81f5d8c84467a7cc34a3a736779b7f0298cfea6bb3aa57be0d00c0838c3b1a832ef7c26c79570"
          "4873c31fe894916bed251631830a39ee8dd8ca39f9b2a608ee9833d2c7bab3633841b1c8a766043ed2af562879f3a3e6"
          "86358724",
          "b2b564a184b24615594da183e340619687c2e39fd9dfefe1424946e45c73c5ec653ff7ffd6b6a782a62e4ad06abfd1eb"
          "2ac7d00533ac3447a0e6b25ab61445e3c3be67cc68e7b0dd90b748f8088c9b6d469751b9ddd407bc3ba371370e133836"
          "86ad45b6490acb4785627796db5e4b35a3d605627d37aeeadda776bbf7b806cfcee2a4e729898aa335b657544aa242c9"
          "2a8f409aad5da0a8a56216d926e5770b073f471dda25be99df59425e40bd0e85ae411248840ebd8eb76249dfe6468f18"
          "0106010f169d90ae19012f45738cd39ba339acabfc3986ab106747acf2774e273723519e63676e91c53ba2c7da684d2f"
          "373e58542b11865c2a04f8b5b7d4350693b4c8f223aed408e927ba9ba83eeb975a90cd83511d33c1549dfc5ce7deba9a"
          "d00f1921e6aee4157d7b842e113e3e3367cc68355562924023596b45a8a93c389e90ed9cd90aaf46f986e650579fa7bb"
          "059b5be8b4ffd6ac003090d8892cb2de3cfa4340f0883f947582eeff9c49ec19acb5c2e2051676a83b34ffc9ed6f74fb"
          "ad079cbccad6ee45ace44014563ed7cda4ad969a31ecc385ec7a594bed072091bfb662efe8515cba5eb365cc1ebd0fce"
          "27ca53874a9065bc741c098d00f3cf6b4b22a19fffa059dd2035752f01c4d3738aaa91d39ee5267d24e243efc87db419"
          "4ca178821e4e8ddcea3827823326c24b51c89b11b0c832084d821d408c0c756895d5f22886efaab29944da36de1ba2ed"
          "54df5b6caf6ec8573dc117e318ef648ddf7a237663a67020b9ab617a6ddd57280847bc15b07cacd0a770ebbbcb59b5b7"
          "4434ae0c1e6714442def623a3c22d99d447b142183b27c9e39590cc5d1969b6a288b40f0e7ff24a0041c0d3f1a6a3b16"
          "59b784ea4c9aa57c2f3844fc29f8f77e5d6e3e4bdb5767587afe25cacda6b5169a0b1270ca60f34395fc4212ca86aab2"
          "4ad32064e8f9c84311bfdb2bcd037c145ec9e0381032f3d2a83bd3899bb2a13519fa0fb0334c5b4ee485636e5fac4f0f"
          "378750c8748271d3faf702504850dc635aeb84653e6d5d104ddea0f4b0eb5c40ae60ae2af4798f463a6743abbdb33261"
          "b88f4f347fca906d3d1cd940746161e073c044509765f5ecea049502b8e669a1b17ebf889c47b2726dfd9c4272a3be47"
          "62074c76184168d4afb9c9fb3720ef54338c55f633ae18fcfdaa891ac30ca4793c00ae2cd109b5cf793729b7a7ca6c33"
          "93021f7b97fa56fc60c221b70380d6f2f8e0ffa103d3741f3b64970c4258cbe8e45740d81fffd5e46c7b8637aeca43df"
          "c4193d83db01dc3359fe2f8b8eb5f6533d45463c9e133284fa46c02a31dfdd498c47efab26fbe68afe0d0d17d0c39c75"
          "085c0f14b5a00731cabaaf9a85b032f0405ed511858bdb7f0387e3ffb61295bc2ec6bb524c11cb18",
          "72786f95e93810f0f77956e72e5b4543" },
        // mlen=0 adlen=100
        { "19d1ee98420831c5c5bc737988177bc9899ac81208e4569ff0add375320ba3da",
          "6132d70d6ae1af3dde4ce926",
          "",
          "1ae2a9b981191206f77317a0377d8bd7c07b33074ba4344e342a68591869fcd9605b9d7447f68c93de68d03ec5e5ae72"
          "431a2f1d9d4d5c1abb933bd9b3b91dc27f875fbe3eb534400be67ad721a3fdb74f9e23af6cba19f90f2cb2be4a4d33c9"
          "3df8b660",
          "",
          "cf7dfc5cc2dfddf6ae0ba02654b7934b" },
        // mlen=257 adlen=13
        { "cef5b58e98fe507680ac54f4eb179268362c4e491cbe391b49c824fdecdf8f2d",
          "e6019ae8820429547a9f2968",
          "f423a28f3ed9aaa31c08f3f131750a2cdb91788007067a4239b0890e2429d71c87e405ebf38ff048e1a572c63c9ea6e0"
          "13adc8b1c4a754198866ecc926148176dbd0c2e2fb164263a8b829a88e09cf4c92a22d3b0ab797a2ad9374ad132227aa"
          "a97820877df86b4fbb9ab3ef00569a947d94077e320b1736443a6fbf7f07a26342793fc9e81bf3ea59b39bd5c7ddfdc5"
          "f832df3a923ad07d0dce0bd1b25136c7dd61bf0f9d1d2bf55de553e700f908f50f0389cfad58a9f1ef8959f70ff6d576"
          "79801df742518208101271967510f85204563a7702f13d2ac20fe934fa15a7868ea98498ad6aef238ec5ffec1bc28c86"
          "c18dea7002f0cdb37533e8e57cb84adfe6",
          "6587ad89d8cd82aeb2fa46495d",
          "f089c8906c49ea69bd5762f1b39bb7b0376d2eb45f2c6c877430389c7ae71adfd15d69aa8cf942abe7038844334999d2"
          "2303a38f255230a9c9fe2cdbb99daac5cb448fc529110c2c4d2f8cc7e0c05c74e53dbf21274605bf2b1bd632416ea1f0"
          "0ae24c709dfff7d9bffa7275ba6a8700eff237bfa24ab2c37f9bfc2909da2575cffa9d46dfdbcc1d6dcbb839704035d5"
          "445655fa957708945710dbbb7f99e4ca66855bc8cd2e4f1e9b7f5c595df26e2dc621829503701ecb2f35ab25c4e02322"
          "79e41a49017c2c4cd231b1936b92593995dac812cae1139152d1384e5b0ca7d24b865a6c4244ef2a868a8a75386bbe85"
          "8676b4f803b62d5c1642c0a61598c32b2f",
          "cc8c2a17247569c342a4e7461c43baf8" },
    };
    for (size_t i = 0; i < sizeof ossl / sizeof ossl[0]; i++) selftest_gcm_kat(t, "openssl", (int) i, ossl[i]);

    // --- bad sizes never abort
    {
        Bytes ct, tag, dec, k32(32, 1), n12(12, 2);
        aes256gcm_encrypt(Bytes(31, 0), n12, Bytes(), Bytes(5, 0), ct, tag);
        t.ok("encrypt bad key size -> empty", ct.empty() && tag.empty());
        aes256gcm_encrypt(k32, Bytes(11, 0), Bytes(), Bytes(5, 0), ct, tag);
        t.ok("encrypt bad nonce size -> empty", ct.empty() && tag.empty());
        t.ok("decrypt bad key size", !aes256gcm_decrypt(Bytes(), n12, Bytes(), Bytes(), Bytes(16, 0), dec));
        t.ok("decrypt bad nonce size", !aes256gcm_decrypt(k32, Bytes(16, 0), Bytes(), Bytes(), Bytes(16, 0), dec));
        t.ok("decrypt short tag", !aes256gcm_decrypt(k32, n12, Bytes(), Bytes(), Bytes(15, 0), dec));
        t.ok("decrypt empty tag", !aes256gcm_decrypt(k32, n12, Bytes(), Bytes(), Bytes(), dec));
    }
    return t.fails;
}

}  // namespace ref
