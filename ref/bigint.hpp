// ref/bigint.hpp -- a small fixed-width unsigned big integer, written for obviousness, not speed.
//
//   struct U : 10 x 64-bit limbs (640 bits), little-endian limb order, value semantics; carries are handled with
//   an unsigned __int128 accumulator. Schoolbook algorithms only. All arithmetic is modulo 2^640 (i.e. silently
//   truncating), so callers must keep operands small enough: everything in the curve models is < 2^512 before
//   reduction, and products are only ever formed from operands < 2^256 (or 2^512 x 2^64), which leaves head-room.
//
//   Generic modular helpers (u_mod, u_addmod, u_mulmod, u_powmod, u_invmod_prime) work for any modulus and use
//   bit-by-bit shift-subtract division. They are slow and are used for arithmetic modulo the group order L and as
//   the cross-check for the fast path below.
//
//   fp_* : arithmetic in GF(p), p = 2^255 - 19, with reduction done by folding: since 2^255 = 19 (mod p),
//   x = hi * 2^255 + lo  ==  19 * hi + lo (mod p).  That is plain integer arithmetic on U, no limb tricks.
//   Contract: fp_* arguments may be any representative < 2^256; results are always fully reduced (in [0, p)).
#pragma once
#include "common.hpp"

namespace ref {

typedef unsigned __int128 u128;  // double-limb accumulator

struct U {
    static const int N = 10;  // limbs
    static const int BITS = 64 * N;
    uint64_t w[N];
    U() { for (int i = 0; i < N; i++) w[i] = 0; }
    U(uint64_t v) {  // NOLINT: implicit on purpose, so that small constants can be written inline
        for (int i = 0; i < N; i++) w[i] = 0;
        w[0] = v;
    }
};

// ---------------------------------------------------------------- basic queries
inline int u_used(const U &a) {  // number of significant limbs (0 for the value 0)
    int n = U::N;
    while (n > 0 && a.w[n - 1] == 0) n--;
    return n;
}
inline int u_bitlen(const U &a) {  // position of the highest set bit + 1 (0 for the value 0)
    int n = u_used(a);
    if (n == 0) return 0;
    uint64_t top = a.w[n - 1];
    int b = 0;
    while (top) { b++; top >>= 1; }
    return 64 * (n - 1) + b;
}
inline bool u_is_zero(const U &a) { return u_used(a) == 0; }
inline bool u_bit(const U &a, int i) {
    if (i < 0 || i >= U::BITS) return false;
    return (a.w[i / 64] >> (i % 64)) & 1;
}
inline void u_setbit(U &a, int i) {
    if (i < 0 || i >= U::BITS) return;
    a.w[i / 64] |= (uint64_t) 1 << (i % 64);
}
inline int u_cmp(const U &a, const U &b) {  // -1, 0, +1
    for (int i = U::N - 1; i >= 0; i--) {
        if (a.w[i] < b.w[i]) return -1;
        if (a.w[i] > b.w[i]) return 1;
    }
    return 0;
}
inline bool operator==(const U &a, const U &b) { return u_cmp(a, b) == 0; }
inline bool operator!=(const U &a, const U &b) { return u_cmp(a, b) != 0; }
inline bool operator<(const U &a, const U &b) { return u_cmp(a, b) < 0; }
inline bool operator>=(const U &a, const U &b) { return u_cmp(a, b) >= 0; }
inline uint64_t u_low64(const U &a) { return a.w[0]; }

// ---------------------------------------------------------------- add / sub / mul / shifts
inline U u_add(const U &a, const U &b) {  // (a + b) mod 2^640
    U r;
    u128 c = 0;
    for (int i = 0; i < U::N; i++) {
        c += (u128) a.w[i] + b.w[i];
        r.w[i] = (uint64_t) c;
        c >>= 64;
    }
    return r;
}
// (a - b) mod 2^640; *borrow (if given) is set to true iff a < b.
inline U u_sub(const U &a, const U &b, bool *borrow = nullptr) {
    U r;
    uint64_t br = 0;
    for (int i = 0; i < U::N; i++) {
        u128 d = (u128) a.w[i] - b.w[i] - br;  // wraps around 2^128 when negative
        r.w[i] = (uint64_t) d;
        br = (uint64_t)(d >> 127) & 1;
    }
    if (borrow) *borrow = br != 0;
    return r;
}
inline U u_mul_small(const U &a, uint64_t k) {  // (a * k) mod 2^640
    U r;
    u128 c = 0;
    for (int i = 0; i < U::N; i++) {
        c += (u128) a.w[i] * k;
        r.w[i] = (uint64_t) c;
        c >>= 64;
    }
    return r;
}
inline U u_mul(const U &a, const U &b) {  // schoolbook; (a * b) mod 2^640
    U r;
    int na = u_used(a), nb = u_used(b);
    for (int i = 0; i < na; i++) {
        u128 c = 0;
        for (int j = 0; j < nb && i + j < U::N; j++) {
            c += (u128) a.w[i] * b.w[j] + r.w[i + j];  // <= (2^64-1)^2 + 2*(2^64-1) < 2^128
            r.w[i + j] = (uint64_t) c;
            c >>= 64;
        }
        for (int k = i + nb; c != 0 && k < U::N; k++) {
            c += r.w[k];
            r.w[k] = (uint64_t) c;
            c >>= 64;
        }
    }
    return r;
}
inline U u_shl(const U &a, int n) {  // (a << n) mod 2^640
    U r;
    if (n < 0 || n >= U::BITS) return r;
    int ls = n / 64, bs = n % 64;
    for (int i = U::N - 1; i >= ls; i--) {
        uint64_t v = a.w[i - ls] << bs;
        if (bs != 0 && i - ls - 1 >= 0) v |= a.w[i - ls - 1] >> (64 - bs);
        r.w[i] = v;
    }
    return r;
}
inline U u_shr(const U &a, int n) {  // floor(a / 2^n)
    U r;
    if (n < 0 || n >= U::BITS) return r;
    int ls = n / 64, bs = n % 64;
    for (int i = 0; i + ls < U::N; i++) {
        uint64_t v = a.w[i + ls] >> bs;
        if (bs != 0 && i + ls + 1 < U::N) v |= a.w[i + ls + 1] << (64 - bs);
        r.w[i] = v;
    }
    return r;
}
inline U u_low_bits(const U &a, int n) {  // a mod 2^n
    U r;
    if (n <= 0) return r;
    if (n >= U::BITS) return a;
    for (int i = 0; i < n / 64; i++) r.w[i] = a.w[i];
    if (n % 64) r.w[n / 64] = a.w[n / 64] & (((uint64_t) 1 << (n % 64)) - 1);
    return r;
}

// ---------------------------------------------------------------- conversions
// Little-endian bytes -> integer. Bytes beyond 80 (the capacity of U) are ignored.
inline U u_from_le(const uint8_t *p, size_t n) {
    U r;
    for (size_t i = 0; i < n && i < (size_t) U::N * 8; i++) r.w[i / 8] |= (uint64_t) p[i] << (8 * (i % 8));
    return r;
}
inline U u_from_le(const Bytes &b) { return u_from_le(b.data(), b.size()); }
// Big-endian bytes -> integer (OS2IP of RFC 8017 / RFC 9380). At most 80 bytes.
inline U u_from_be(const Bytes &b) {
    Bytes rev(b.rbegin(), b.rend());
    return u_from_le(rev);
}
// integer -> exactly n little-endian bytes (value truncated mod 2^(8n) if it does not fit; zero-padded otherwise).
inline Bytes u_to_le(const U &a, size_t n) {
    Bytes out(n, 0);
    for (size_t i = 0; i < n && i < (size_t) U::N * 8; i++) out[i] = (uint8_t)(a.w[i / 8] >> (8 * (i % 8)));
    return out;
}
inline U u_from_dec(const char *s) {  // decimal literal; non-digits are skipped
    U r;
    for (; *s; s++) {
        if (*s < '0' || *s > '9') continue;
        r = u_add(u_mul_small(r, 10), U((uint64_t)(*s - '0')));
    }
    return r;
}
inline U u_from_hex(const char *s) {  // big-endian hex literal, e.g. "7fff...ed"; non-hex characters are skipped
    std::string t;
    for (const char *q = s; *q; q++) {
        char c = *q;
        if ((c >= '0' && c <= '9') || (c >= 'a' && c <= 'f') || (c >= 'A' && c <= 'F')) t.push_back(c);
    }
    if (t.size() % 2) t.insert(t.begin(), '0');
    return u_from_be(from_hex(t));
}
inline std::string u_to_hex(const U &a) {  // big-endian hex, whole bytes, no leading zero bytes (at least "00")
    int nbytes = (u_bitlen(a) + 7) / 8;
    if (nbytes == 0) nbytes = 1;
    Bytes le = u_to_le(a, (size_t) nbytes);
    Bytes be(le.rbegin(), le.rend());
    return to_hex(be);
}

// ---------------------------------------------------------------- division (bit-by-bit shift-subtract)
// q = floor(a / m), r = a mod m. Returns false (and q = r = 0) if m == 0. Requires m < 2^639.
inline bool u_divmod(const U &a, const U &m, U &q, U &r) {
    q = U();
    r = U();
    if (u_is_zero(m)) return false;
    if (u_cmp(a, m) < 0) { r = a; return true; }  // shortcut: already reduced
    for (int i = u_bitlen(a) - 1; i >= 0; i--) {
        // r = 2*r + bit i of a   (r < m < 2^639 on entry, so the doubling cannot overflow)
        for (int k = U::N - 1; k > 0; k--) r.w[k] = (r.w[k] << 1) | (r.w[k - 1] >> 63);
        r.w[0] = (r.w[0] << 1) | (u_bit(a, i) ? 1 : 0);
        if (u_cmp(r, m) >= 0) {
            r = u_sub(r, m);
            u_setbit(q, i);
        }
    }
    return true;
}
inline U u_mod(const U &a, const U &m) {  // a mod m (0 if m == 0)
    U q, r;
    u_divmod(a, m, q, r);
    return r;
}
inline U u_div(const U &a, const U &m) {  // floor(a / m) (0 if m == 0)
    U q, r;
    u_divmod(a, m, q, r);
    return q;
}

// ---------------------------------------------------------------- generic modular arithmetic (any modulus m < 2^319)
inline U u_addmod(const U &a, const U &b, const U &m) { return u_mod(u_add(u_mod(a, m), u_mod(b, m)), m); }
inline U u_submod(const U &a, const U &b, const U &m) {
    U ar = u_mod(a, m), br = u_mod(b, m);
    return u_mod(u_sub(u_add(ar, m), br), m);
}
inline U u_mulmod(const U &a, const U &b, const U &m) { return u_mod(u_mul(u_mod(a, m), u_mod(b, m)), m); }
inline U u_powmod(const U &base, const U &e, const U &m) {  // square-and-multiply, most significant bit first
    U r = u_mod(U(1), m), b = u_mod(base, m);
    for (int i = u_bitlen(e) - 1; i >= 0; i--) {
        r = u_mulmod(r, r, m);
        if (u_bit(e, i)) r = u_mulmod(r, b, m);
    }
    return r;
}
// Inverse modulo a PRIME m via Fermat: a^(m-2). Returns 0 for a == 0 (mod m).
inline U u_invmod_prime(const U &a, const U &m) { return u_powmod(a, u_sub(m, U(2)), m); }

// ---------------------------------------------------------------- constants
// p = 2^255 - 19 (RFC 7748 section 4.1, RFC 8032 section 5.1)
inline const U &P25519() {
    static const U p = u_sub(u_shl(U(1), 255), U(19));
    return p;
}
// L = 2^252 + 27742317777372353535851937790883648493 (RFC 8032 section 5.1), the order of the prime-order subgroup
inline const U &L25519() {
    static const U l = u_add(u_shl(U(1), 252), u_from_dec("27742317777372353535851937790883648493"));
    return l;
}

// ---------------------------------------------------------------- GF(2^255 - 19), folding reduction
// Reduce ANY U value modulo p: while x has more than 255 bits, replace x = hi*2^255 + lo by 19*hi + lo.
// fp_fold_slow spells one folding step out with the generic operations; fp_fold computes exactly the same integer
// in a single pass over the limbs (this is the hot spot of every model). The self-test compares the two, and
// compares fp_red against the generic shift-subtract u_mod.
inline U fp_fold_slow(const U &x) {
    U hi = u_shr(x, 255), lo = u_low_bits(x, 255);
    return u_add(lo, u_mul_small(hi, 19));
}
inline U fp_fold(const U &x) {
    U r;
    u128 acc = 0;
    for (int i = 0; i < U::N; i++) {
        // limb i of lo = x mod 2^255: limbs 0..2 unchanged, limb 3 without its top bit (bit 255), nothing above
        uint64_t lo_i = i < 3 ? x.w[i] : (i == 3 ? (x.w[3] & 0x7fffffffffffffffULL) : 0);
        // limb i of hi = x >> 255 = x >> (3*64 + 63): top bit of limb i+3, then the low 63 bits of limb i+4
        uint64_t hi_i = 0;
        if (i + 3 < U::N) hi_i |= x.w[i + 3] >> 63;
        if (i + 4 < U::N) hi_i |= x.w[i + 4] << 1;
        acc += (u128) hi_i * 19 + lo_i;
        r.w[i] = (uint64_t) acc;
        acc >>= 64;
    }
    return r;
}
inline U fp_red(const U &x0) {
    U x = x0;
    while (u_bitlen(x) > 255) x = fp_fold(x);
    // now x < 2^255 = p + 19, so at most one subtraction is needed
    if (u_cmp(x, P25519()) >= 0) x = u_sub(x, P25519());
    return x;
}
inline U fp_add(const U &a, const U &b) { return fp_red(u_add(a, b)); }
inline U fp_neg(const U &a) {
    U r = fp_red(a);
    return u_is_zero(r) ? r : u_sub(P25519(), r);
}
inline U fp_sub(const U &a, const U &b) { return fp_red(u_add(a, fp_neg(b))); }
inline U fp_mul(const U &a, const U &b) { return fp_red(u_mul(a, b)); }  // a, b < 2^256 => product < 2^512
inline U fp_sq(const U &a) { return fp_mul(a, a); }
inline U fp_pow(const U &base, const U &e) {  // square-and-multiply
    U r(1), b = fp_red(base);
    for (int i = u_bitlen(e) - 1; i >= 0; i--) {
        r = fp_sq(r);
        if (u_bit(e, i)) r = fp_mul(r, b);
    }
    return r;
}
inline U fp_inv(const U &a) { return fp_pow(a, u_sub(P25519(), U(2))); }  // Fermat; fp_inv(0) == 0 ("inv0")
inline bool fp_is_odd(const U &a) { return fp_red(a).w[0] & 1; }           // the "sign" / sgn0 / IS_NEGATIVE of the RFCs
inline bool fp_eq(const U &a, const U &b) { return fp_red(a) == fp_red(b); }
// sqrt(-1) = 2^((p-1)/4) mod p (RFC 8032 section 5.1.3); this is the even ("non-negative") one of the two roots.
inline const U &FP_SQRT_M1() {
    static const U v = fp_pow(U(2), u_shr(u_sub(P25519(), U(1)), 2));
    return v;
}
// Legendre test by Euler's criterion: a^((p-1)/2) is 0 or 1 for squares.
inline bool fp_is_square(const U &a) {
    U l = fp_pow(a, u_shr(u_sub(P25519(), U(1)), 1));
    return u_is_zero(l) || l == U(1);
}
// Square root for p = 5 (mod 8) (RFC 8032 section 5.1.3 / RFC 9380 appendix I.2):
// candidate c = a^((p+3)/8); if c^2 == a done; if c^2 == -a multiply by sqrt(-1); otherwise a is not a square.
// On success `root` is one of the two roots (no sign normalisation).
inline bool fp_sqrt(const U &a, U &root) {
    U ar = fp_red(a);
    U c = fp_pow(ar, u_shr(u_add(P25519(), U(3)), 3));
    U c2 = fp_sq(c);
    if (c2 == ar) { root = c; return true; }
    if (c2 == fp_neg(ar)) { root = fp_mul(c, FP_SQRT_M1()); return true; }
    root = U();
    return false;
}

}  // namespace ref
