// ref/ristretto255.hpp -- ristretto255 from RFC 9496 section 4, on top of the affine edwards25519 points of ed25519.hpp.
// Internal representatives are affine points (x, y), i.e. the RFC's (x0 : y0 : z0 : t0) with z0 = 1 and t0 = x0*y0.
#pragma once
#include "ed25519.hpp"

namespace ref {

// ---------------------------------------------------------------- constants (RFC 9496 section 4.1)
// D, SQRT_M1, ONE_MINUS_D_SQ and D_MINUS_ONE_SQ are computed from their definitions. The two square-root constants are
// given by value, because the RFC fixes WHICH of the two roots is meant (SQRT_AD_MINUS_ONE is the odd one); the
// self-test verifies the defining equations.
inline const U &RISTRETTO_SQRT_AD_MINUS_ONE() {  // sqrt(a*d - 1), a = -1
    static const U v = u_from_dec("25063068953384623474111414158702152701244531502492656460079210482610430750235");
    return v;
}
inline const U &RISTRETTO_INVSQRT_A_MINUS_D() {  // 1 / sqrt(a - d)
    static const U v = u_from_dec("54469307008909316920995813868745141605393597292927456921205312896311721017578");
    return v;
}
inline const U &RISTRETTO_ONE_MINUS_D_SQ() {  // 1 - d^2
    static const U v = fp_sub(U(1), fp_sq(ED_D()));
    return v;
}
inline const U &RISTRETTO_D_MINUS_ONE_SQ() {  // (d - 1)^2
    static const U v = fp_sq(fp_sub(ED_D(), U(1)));
    return v;
}

// RFC 9496 section 4.2: IS_NEGATIVE(x) = x mod 2 on the canonical representative; CT_ABS(x) = -x if negative.
inline U fp_abs(const U &x) { return fp_is_odd(x) ? fp_neg(x) : fp_red(x); }

// SQRT_RATIO_M1(u, v), RFC 9496 section 4.2. Returns was_square; r receives the non-negative square root of u/v if
// it exists, of SQRT_M1*u/v otherwise (and 0 if u = 0 or v = 0 -- was_square is then true iff u = 0).
inline bool ristretto_sqrt_ratio_m1(const U &u, const U &v, U &r) {
    U v3 = fp_mul(fp_sq(v), v);
    U v7 = fp_mul(fp_sq(v3), v);
    U e = u_shr(u_sub(P25519(), U(5)), 3);  // (p-5)/8
    r = fp_mul(fp_mul(u, v3), fp_pow(fp_mul(u, v7), e));
    U check = fp_mul(v, fp_sq(r));
    U ur = fp_red(u);
    bool correct_sign_sqrt = check == ur;
    bool flipped_sign_sqrt = check == fp_neg(ur);
    bool flipped_sign_sqrt_i = check == fp_neg(fp_mul(ur, FP_SQRT_M1()));
    if (flipped_sign_sqrt || flipped_sign_sqrt_i) r = fp_mul(FP_SQRT_M1(), r);
    r = fp_abs(r);
    return correct_sign_sqrt || flipped_sign_sqrt;
}

// ---------------------------------------------------------------- Decode, RFC 9496 section 4.3.1
// Rejects: wrong length, non-canonical field encoding (value >= p, which includes a set bit 255), negative s,
// non-square, negative t = x*y, y = 0.
inline bool ristretto_decode(const Bytes &s32, Pt &out) {
    out = Pt();
    if (s32.size() != 32) return false;
    U s = u_from_le(s32);
    if (u_cmp(s, P25519()) >= 0) return false;  // step 1: canonical encoding check
    if (fp_is_odd(s)) return false;             // step 1: IS_NEGATIVE(s)
    U ss = fp_sq(s);
    U u1 = fp_sub(U(1), ss);
    U u2 = fp_add(U(1), ss);
    U u2_sqr = fp_sq(u2);
    U v = fp_sub(fp_neg(fp_mul(ED_D(), fp_sq(u1))), u2_sqr);  // v = -(D * u1^2) - u2_sqr
    U invsqrt;
    bool was_square = ristretto_sqrt_ratio_m1(U(1), fp_mul(v, u2_sqr), invsqrt);
    U den_x = fp_mul(invsqrt, u2);
    U den_y = fp_mul(fp_mul(invsqrt, den_x), v);
    U x = fp_abs(fp_mul(fp_mul(U(2), s), den_x));
    U y = fp_mul(u1, den_y);
    U t = fp_mul(x, y);
    if (!was_square || fp_is_odd(t) || u_is_zero(y)) return false;
    out = Pt(x, y);
    return true;
}

// ---------------------------------------------------------------- Encode, RFC 9496 section 4.3.2  (z0 = 1, t0 = x0*y0)
inline Bytes ristretto_encode(const Pt &p) {
    U x0 = fp_red(p.x), y0 = fp_red(p.y), z0(1), t0 = fp_mul(p.x, p.y);
    U u1 = fp_mul(fp_add(z0, y0), fp_sub(z0, y0));
    U u2 = fp_mul(x0, y0);
    U invsqrt;
    ristretto_sqrt_ratio_m1(U(1), fp_mul(u1, fp_sq(u2)), invsqrt);  // always a square for valid points
    U den1 = fp_mul(invsqrt, u1);
    U den2 = fp_mul(invsqrt, u2);
    U z_inv = fp_mul(fp_mul(den1, den2), t0);
    U ix0 = fp_mul(x0, FP_SQRT_M1());
    U iy0 = fp_mul(y0, FP_SQRT_M1());
    U enchanted_denominator = fp_mul(den1, RISTRETTO_INVSQRT_A_MINUS_D());
    bool rotate = fp_is_odd(fp_mul(t0, z_inv));
    U x = rotate ? iy0 : x0;
    U y = rotate ? ix0 : y0;
    U z = z0;
    U den_inv = rotate ? enchanted_denominator : den2;
    if (fp_is_odd(fp_mul(x, z_inv))) y = fp_neg(y);
    U s = fp_abs(fp_mul(den_inv, fp_sub(z, y)));
    return u_to_le(s, 32);
}

// ---------------------------------------------------------------- Equals, RFC 9496 section 4.3.3
inline bool ristretto_eq(const Pt &p, const Pt &q) {
    return fp_eq(fp_mul(p.x, q.y), fp_mul(p.y, q.x)) || fp_eq(fp_mul(p.y, q.y), fp_mul(p.x, q.x));
}

// ---------------------------------------------------------------- MAP, RFC 9496 section 4.3.4
// t is a field element (reduced here). Returns the affine form of (w0*w3 : w2*w1 : w1*w3 : w0*w2).
inline Pt ristretto_map(const U &t_in) {
    U t = fp_red(t_in);
    const U &D = ED_D();
    U r = fp_mul(FP_SQRT_M1(), fp_sq(t));
    U u = fp_mul(fp_add(r, U(1)), RISTRETTO_ONE_MINUS_D_SQ());
    U v = fp_mul(fp_sub(fp_neg(U(1)), fp_mul(r, D)), fp_add(r, D));  // (-1 - r*D) * (r + D)
    U s;
    bool was_square = ristretto_sqrt_ratio_m1(u, v, s);
    U s_prime = fp_neg(fp_abs(fp_mul(s, t)));
    if (!was_square) s = s_prime;
    U c = was_square ? fp_neg(U(1)) : r;
    U N = fp_sub(fp_mul(fp_mul(c, fp_sub(r, U(1))), RISTRETTO_D_MINUS_ONE_SQ()), v);
    U w0 = fp_mul(fp_mul(U(2), s), v);
    U w1 = fp_mul(N, RISTRETTO_SQRT_AD_MINUS_ONE());
    U w2 = fp_sub(U(1), fp_sq(s));
    U w3 = fp_add(U(1), fp_sq(s));
    U X = fp_mul(w0, w3), Y = fp_mul(w2, w1), Z = fp_mul(w1, w3);
    U zi = fp_inv(Z);
    return Pt(fp_mul(X, zi), fp_mul(Y, zi));
}

// One-way map from 64 uniform bytes (RFC 9496 section 4.3.4, "Element Derivation"): each half is masked to its low
// 255 bits, reduced mod p, mapped; the two points are added and the sum is encoded. On a bad length the _pt variant
// returns the identity and the byte variant an empty string.
inline Pt ristretto_from_uniform_pt(const Bytes &b64) {
    if (b64.size() != 64) return Pt();
    Bytes h0 = sub(b64, 0, 32), h1 = sub(b64, 32, 32);
    h0[31] &= 0x7f;
    h1[31] &= 0x7f;
    Pt p0 = ristretto_map(fp_red(u_from_le(h0)));
    Pt p1 = ristretto_map(fp_red(u_from_le(h1)));
    return pt_add(p0, p1);
}
inline Bytes ristretto_from_uniform(const Bytes &b64) {
    if (b64.size() != 64) return Bytes();
    return ristretto_encode(ristretto_from_uniform_pt(b64));
}

}  // namespace ref
