// ref/selftest_pwhash_main.cpp -- runs the self-tests of the password-hashing reference models.
// Build / run:
//   clang++ -std=gnu++17 -O1 -g -fsanitize=address,undefined -I/verif/ref /verif/ref/selftest_pwhash_main.cpp -o /tmp/selftest_pwhash && /tmp/selftest_pwhash
#include <chrono>
#include <cstdio>

#include "argon2.hpp"
#include "blake2b.hpp"
#include "scrypt.hpp"

static int run(const char *name, int (*fn)()) {
    auto t0 = std::chrono::steady_clock::now();
    int fails = fn();
    double dt = std::chrono::duration<double>(std::chrono::steady_clock::now() - t0).count();
    printf("selftest %-8s %s  (%d failed checks, %.3f s)\n", name, fails == 0 ? "OK  " : "FAIL", fails, dt);
    return fails;
}

int main() {
    int fails = 0;
    fails += run("blake2b", ref::selftest_blake2b);
    fails += run("argon2", ref::selftest_argon2);
    fails += run("scrypt", ref::selftest_scrypt);
    printf("selftest_pwhash: %s (%d failed checks)\n", fails == 0 ? "ALL OK" : "FAILED", fails);
    return fails == 0 ? 0 : 1;
}
