// ref/aes.hpp -- AES (FIPS 197) reference model: AES-256 key expansion, block encryption and the
// single "AES round" (AESENC semantics) that AEGIS is built on.
//
// Written from FIPS 197 for clarity, not speed: byte-oriented state, S-box derived at start-up from
// the GF(2^8) multiplicative inverse followed by the affine map (FIPS 197 section 5.1.1), explicit
// SubBytes / ShiftRows / MixColumns / AddRoundKey steps. Not constant time. Oracle use only.
#pragma once
#include "common.hpp"

namespace ref {

// ---- GF(2^8) arithmetic, FIPS 197 section 4.2 (modulus m(x) = x^8 + x^4 + x^3 + x + 1 = 0x11b) ----

// xtime(): multiplication by x (FIPS 197 section 4.2.1).
inline uint8_t aes_xtime(uint8_t a) { return (uint8_t)((a << 1) ^ ((a & 0x80) ? 0x1b : 0x00)); }

// General multiplication: shift-and-add over the bits of b.
inline uint8_t aes_gf_mul(uint8_t a, uint8_t b) {
    uint8_t r = 0;
    for (int i = 0; i < 8; i++) {
        if (b & 1) r ^= a;
        a = aes_xtime(a);
        b >>= 1;
    }
    return r;
}

// ---- S-box, FIPS 197 section 5.1.1 ----
// b = inverse(a) in GF(2^8) (with 0 -> 0), then the affine transformation
// b'_i = b_i ^ b_(i+4) ^ b_(i+5) ^ b_(i+6) ^ b_(i+7) ^ c_i (indices mod 8), c = 0x63.
struct AesSbox {
    uint8_t s[256];   // S-box
    uint8_t s2[256];  // {02} * S[a] = xtime(S[a]), tabulated only to make aes_round() quicker
    AesSbox() {
        for (int a = 0; a < 256; a++) {
            // multiplicative inverse: a^254 (a^255 = 1 for a != 0; 0^254 = 0 which is the required mapping)
            uint8_t inv = 1, base = (uint8_t) a;
            int     e = 254;
            while (e) {
                if (e & 1) inv = aes_gf_mul(inv, base);
                base = aes_gf_mul(base, base);
                e >>= 1;
            }
            if (a == 0) inv = 0;
            uint8_t out = 0;
            for (int i = 0; i < 8; i++) {
                int bit = ((inv >> i) & 1) ^ ((inv >> ((i + 4) & 7)) & 1) ^ ((inv >> ((i + 5) & 7)) & 1) ^
                          ((inv >> ((i + 6) & 7)) & 1) ^ ((inv >> ((i + 7) & 7)) & 1) ^ ((0x63 >> i) & 1);
                out |= (uint8_t)(bit << i);
            }
            s[a]  = out;
            s2[a] = aes_xtime(out);
        }
    }
};
inline const AesSbox &aes_tables() {
    static const AesSbox box;  // computed once, thread-safe per C++11 static-local rules
    return box;
}
inline const uint8_t *aes_sbox() { return aes_tables().s; }

// ---- Round transformations. The 16-byte state is stored column-major as in FIPS 197 section 3.4:
//      byte index 4*c + r holds state[r][c]. ----

inline void aes_sub_bytes(uint8_t st[16]) {  // section 5.1.1
    const uint8_t *S = aes_sbox();
    for (int i = 0; i < 16; i++) st[i] = S[st[i]];
}

inline void aes_shift_rows(uint8_t st[16]) {  // section 5.1.2: row r is rotated left by r columns
    uint8_t t[16];
    for (int c = 0; c < 4; c++)
        for (int r = 0; r < 4; r++) t[4 * c + r] = st[4 * ((c + r) & 3) + r];
    memcpy(st, t, 16);
}

inline void aes_mix_columns(uint8_t st[16]) {  // section 5.1.3: each column times {03}x^3+{01}x^2+{01}x+{02}
    for (int c = 0; c < 4; c++) {
        uint8_t a0 = st[4 * c], a1 = st[4 * c + 1], a2 = st[4 * c + 2], a3 = st[4 * c + 3];
        st[4 * c + 0] = (uint8_t)(aes_gf_mul(a0, 2) ^ aes_gf_mul(a1, 3) ^ a2 ^ a3);
        st[4 * c + 1] = (uint8_t)(a0 ^ aes_gf_mul(a1, 2) ^ aes_gf_mul(a2, 3) ^ a3);
        st[4 * c + 2] = (uint8_t)(a0 ^ a1 ^ aes_gf_mul(a2, 2) ^ aes_gf_mul(a3, 3));
        st[4 * c + 3] = (uint8_t)(aes_gf_mul(a0, 3) ^ a1 ^ a2 ^ aes_gf_mul(a3, 2));
    }
}

inline void aes_add_round_key(uint8_t st[16], const uint8_t rk[16]) {  // section 5.1.4
    for (int i = 0; i < 16; i++) st[i] ^= rk[i];
}

// One full AES round = AddRoundKey(MixColumns(ShiftRows(SubBytes(in))), rk), written as the literal
// composition of the four FIPS 197 steps. `out` may alias `in` or `rk`.
inline void aes_round_stepwise(const uint8_t in[16], const uint8_t rk[16], uint8_t out[16]) {
    uint8_t st[16], k[16];
    memcpy(st, in, 16);
    memcpy(k, rk, 16);
    aes_sub_bytes(st);
    aes_shift_rows(st);
    aes_mix_columns(st);
    aes_add_round_key(st, k);
    memcpy(out, st, 16);
}

// The same round with the four steps fused column by column (used by everything else because it is
// several times quicker; selftest_aes() checks it against aes_round_stepwise()).
// This is exactly the x86 AESENC instruction and the AESRound() primitive of draft-irtf-cfrg-aegis-aead.
// Output column c is MixColumns applied to (S[in[0][c]], S[in[1][c+1]], S[in[2][c+2]], S[in[3][c+3]]),
// with {02}*a = xtime(a) and {03}*a = xtime(a) ^ a (FIPS 197 section 4.2.1). `out` may alias `in` or `rk`.
inline void aes_round(const uint8_t in[16], const uint8_t rk[16], uint8_t out[16]) {
    const AesSbox &tb = aes_tables();
    uint8_t        r[16];
    for (int c = 0; c < 4; c++) {
        // SubBytes + ShiftRows: row r of output column c comes from input column c + r
        uint8_t i0 = in[4 * c + 0], i1 = in[4 * ((c + 1) & 3) + 1], i2 = in[4 * ((c + 2) & 3) + 2], i3 = in[4 * ((c + 3) & 3) + 3];
        uint8_t a0 = tb.s[i0], a1 = tb.s[i1], a2 = tb.s[i2], a3 = tb.s[i3];      // a = S[i]
        uint8_t x0 = tb.s2[i0], x1 = tb.s2[i1], x2 = tb.s2[i2], x3 = tb.s2[i3];  // x = {02} * a
        // MixColumns + AddRoundKey
        r[4 * c + 0] = (uint8_t)(x0 ^ (x1 ^ a1) ^ a2 ^ a3 ^ rk[4 * c + 0]);
        r[4 * c + 1] = (uint8_t)(a0 ^ x1 ^ (x2 ^ a2) ^ a3 ^ rk[4 * c + 1]);
        r[4 * c + 2] = (uint8_t)(a0 ^ a1 ^ x2 ^ (x3 ^ a3) ^ rk[4 * c + 2]);
        r[4 * c + 3] = (uint8_t)((x0 ^ a0) ^ a1 ^ a2 ^ x3 ^ rk[4 * c + 3]);
    }
    memcpy(out, r, 16);
}

// ---- AES-256 key expansion, FIPS 197 section 5.2 with Nk = 8, Nr = 14: 60 words = 15 round keys ----
inline void aes256_key_expand(const uint8_t key[32], uint8_t rk[15][16]) {
    const uint8_t *S = aes_sbox();
    uint8_t        w[60][4];
    const int      Nk = 8, Nr = 14;
    for (int i = 0; i < Nk; i++) memcpy(w[i], key + 4 * i, 4);
    uint8_t rcon = 0x01;  // Rcon[i] = x^(i-1)
    for (int i = Nk; i < 4 * (Nr + 1); i++) {
        uint8_t t[4];
        memcpy(t, w[i - 1], 4);
        if (i % Nk == 0) {
            // SubWord(RotWord(temp)) xor Rcon[i/Nk]
            uint8_t r0 = t[0];
            t[0] = (uint8_t)(S[t[1]] ^ rcon);
            t[1] = S[t[2]];
            t[2] = S[t[3]];
            t[3] = S[r0];
            rcon = aes_xtime(rcon);
        } else if (i % Nk == 4) {
            for (int j = 0; j < 4; j++) t[j] = S[t[j]];  // SubWord only (Nk > 6 rule)
        }
        for (int j = 0; j < 4; j++) w[i][j] = (uint8_t)(w[i - Nk][j] ^ t[j]);
    }
    for (int r = 0; r <= Nr; r++)
        for (int c = 0; c < 4; c++) memcpy(&rk[r][4 * c], w[4 * r + c], 4);
}

// ---- Cipher(), FIPS 197 section 5.1 with Nr = 14. `out` may alias `in`. ----
inline void aes256_encrypt_block(const uint8_t rk[15][16], const uint8_t in[16], uint8_t out[16]) {
    uint8_t st[16];
    memcpy(st, in, 16);
    aes_add_round_key(st, rk[0]);
    for (int r = 1; r <= 13; r++) aes_round(st, rk[r], st);
    aes_sub_bytes(st);  // final round has no MixColumns
    aes_shift_rows(st);
    aes_add_round_key(st, rk[14]);
    memcpy(out, st, 16);
}

// Convenience: one-shot AES-256 block encryption on Bytes. Returns an empty vector on bad sizes.
inline Bytes aes256_encrypt_block(const Bytes &key32, const Bytes &in16) {
    if (key32.size() != 32 || in16.size() != 16) return Bytes();
    uint8_t rk[15][16];
    aes256_key_expand(key32.data(), rk);
    Bytes out(16);
    aes256_encrypt_block(rk, in16.data(), out.data());
    return out;
}

inline int selftest_aes() {
    T t("aes");
    const uint8_t *S = aes_sbox();
    // FIPS 197 Figure 7 spot checks, plus the S-box must be a permutation without fixed points.
    t.ok("sbox[00]=63", S[0x00] == 0x63);
    t.ok("sbox[01]=7c", S[0x01] == 0x7c);
    t.ok("sbox[53]=ed", S[0x53] == 0xed);  // FIPS 197 section 5.1.1 worked example
    t.ok("sbox[ff]=16", S[0xff] == 0x16);
    {
        int seen[256] = { 0 }, perm = 1;
        for (int i = 0; i < 256; i++) { if (seen[S[i]]++) perm = 0; if (S[i] == i) perm = 0; }
        t.ok("sbox is a fixed-point-free permutation", perm == 1);
    }
    // FIPS 197 section 4.2 example: {57} * {83} = {c1}; section 4.2.1: {57} * {13} = {fe}
    t.ok("gf {57}*{83}", aes_gf_mul(0x57, 0x83) == 0xc1);
    t.ok("gf {57}*{13}", aes_gf_mul(0x57, 0x13) == 0xfe);

    // FIPS 197 Appendix C.3 (AES-256)
    Bytes key = from_hex("000102030405060708090a0b0c0d0e0f101112131415161718191a1b1c1d1e1f");
    t.eqh("FIPS197 C.3", aes256_encrypt_block(key, from_hex("00112233445566778899aabbccddeeff")),
          "8ea2b7ca516745bfeafc49904b496089");
    // FIPS 197 Appendix A.3: last expanded word w59 = 706c631e for key 603deb10...
    {
        Bytes   k = from_hex("603deb1015ca71be2b73aef0857d77811f352c073b6108d72d9810a30914dff4");
        uint8_t rk[15][16];
        aes256_key_expand(k.data(), rk);
        t.eqh("FIPS197 A.3 w8", Bytes(rk[2], rk[2] + 4), "9ba35411");
        t.eqh("FIPS197 A.3 w59", Bytes(rk[14] + 12, rk[14] + 16), "706c631e");
    }
    // NIST SP 800-38A F.1.5 ECB-AES256.Encrypt, block #1
    t.eqh("SP800-38A F.1.5",
          aes256_encrypt_block(from_hex("603deb1015ca71be2b73aef0857d77811f352c073b6108d72d9810a30914dff4"),
                               from_hex("6bc1bee22e409f96e93d7e117393172a")),
          "f3eed1bdb5d2a03c064b5a7e3db181f8");
    // FIPS 197 Appendix C.3 intermediate values: round[1].start -> round[2].start is one aes_round with rk[1]...
    {
        uint8_t rk[15][16];
        aes256_key_expand(key.data(), rk);
        Bytes start1 = from_hex("00102030405060708090a0b0c0d0e0f0");  // round[ 1].start
        Bytes out(16);
        aes_round(start1.data(), rk[1], out.data());
        t.eqh("FIPS197 C.3 round[2].start", out, "4f63760643e0aa85efa7213201a4e705");
    }
    // draft-irtf-cfrg-aegis-aead Appendix A.1 "AESRound Test Vector"
    {
        Bytes in = from_hex("000102030405060708090a0b0c0d0e0f"), rk = from_hex("101112131415161718191a1b1c1d1e1f"), out(16);
        aes_round(in.data(), rk.data(), out.data());
        t.eqh("AEGIS draft A.1 AESRound", out, "7a7b4e5638782546a8c0477a3b813f43");
        aes_round(in.data(), rk.data(), in.data());  // aliasing out == in
        t.eqh("AESRound aliasing", in, "7a7b4e5638782546a8c0477a3b813f43");
    }
    // fused aes_round() == literal composition of the FIPS 197 steps, on a deterministic pseudo-random walk
    {
        uint8_t a[16], k[16], o1[16], o2[16];
        for (int i = 0; i < 16; i++) { a[i] = (uint8_t)(17 * i + 3); k[i] = (uint8_t)(29 * i + 101); }
        int same = 1;
        for (int it = 0; it < 300; it++) {
            aes_round(a, k, o1);
            aes_round_stepwise(a, k, o2);
            if (memcmp(o1, o2, 16) != 0) same = 0;
            memcpy(k, a, 16);
            memcpy(a, o1, 16);
            a[it & 15] ^= (uint8_t) it;
        }
        t.ok("aes_round fused == stepwise", same == 1);
    }
    return t.fails;
}

}  // namespace ref
