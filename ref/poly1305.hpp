// ref/poly1305.hpp -- Poly1305 (RFC 8439 section 2.5) on plain big integers; SipHash-2-4 (64 and 128 bit).
// The accumulator arithmetic is done with a small generic unsigned integer (12 x 32-bit limbs) and a
// shift-subtract remainder, deliberately without any limb/carry tricks, so it cannot share a carry bug
// with donna-32/64 or the SSE2 code.
#pragma once
#include "common.hpp"

namespace ref {

struct N384 {
    uint32_t w[12];
    N384() { memset(w, 0, sizeof w); }
    static N384 from_le(const uint8_t *p, size_t n) { N384 r; for (size_t i = 0; i < n && i < 48; i++) r.w[i / 4] |= (uint32_t) p[i] << (8 * (i % 4)); return r; }
    static N384 pow2(int k) { N384 r; r.w[k / 32] = 1u << (k % 32); return r; }
    static N384 small(uint32_t v) { N384 r; r.w[0] = v; return r; }
    void to_le(uint8_t *p, size_t n) const { for (size_t i = 0; i < n; i++) p[i] = (uint8_t)(w[i / 4] >> (8 * (i % 4))); }
    bool bit(int k) const { return (w[k / 32] >> (k % 32)) & 1; }
    int cmp(const N384 &o) const { for (int i = 11; i >= 0; i--) { if (w[i] < o.w[i]) return -1; if (w[i] > o.w[i]) return 1; } return 0; }
    N384 add(const N384 &o) const { N384 r; uint64_t c = 0; for (int i = 0; i < 12; i++) { c += (uint64_t) w[i] + o.w[i]; r.w[i] = (uint32_t) c; c >>= 32; } return r; }
    N384 sub(const N384 &o) const { N384 r; int64_t b = 0; for (int i = 0; i < 12; i++) { int64_t d = (int64_t) w[i] - o.w[i] - b; b = d < 0; r.w[i] = (uint32_t) d; } return r; }
    N384 mul(const N384 &o) const {   // truncated to 384 bits (operands here are < 2^131 and < 2^128, so exact)
        N384 r;
        for (int i = 0; i < 12; i++) {
            uint64_t c = 0;
            for (int j = 0; i + j < 12; j++) { c += (uint64_t) w[i] * o.w[j] + r.w[i + j]; r.w[i + j] = (uint32_t) c; c >>= 32; }
        }
        return r;
    }
    N384 shl1() const { N384 r; uint32_t c = 0; for (int i = 0; i < 12; i++) { r.w[i] = (w[i] << 1) | c; c = w[i] >> 31; } return r; }
    // remainder by schoolbook binary long division
    N384 mod(const N384 &m) const {
        N384 r;
        for (int k = 383; k >= 0; k--) {
            r = r.shl1();
            if (bit(k)) r.w[0] |= 1;
            if (r.cmp(m) >= 0) r = r.sub(m);
        }
        return r;
    }
};

inline N384 poly1305_p() { return N384::pow2(130).sub(N384::small(5)); }

// value of the accumulator after all blocks (before adding s), as an integer in [0, p)
inline N384 poly1305_acc(const Bytes &msg, const Bytes &key32) {
    uint8_t rb[16]; memcpy(rb, key32.data(), 16);
    rb[3] &= 15; rb[7] &= 15; rb[11] &= 15; rb[15] &= 15; rb[4] &= 252; rb[8] &= 252; rb[12] &= 252;
    N384 r = N384::from_le(rb, 16), p = poly1305_p(), acc;
    for (size_t off = 0; off < msg.size(); off += 16) {
        size_t n = std::min<size_t>(16, msg.size() - off);
        uint8_t blk[17]; memset(blk, 0, sizeof blk); memcpy(blk, &msg[off], n); blk[n] = 1;
        acc = acc.add(N384::from_le(blk, 17)).mul(r).mod(p);
    }
    return acc;
}
inline Bytes poly1305(const Bytes &msg, const Bytes &key32) {
    N384 acc = poly1305_acc(msg, key32).add(N384::from_le(key32.data() + 16, 16));
    Bytes tag(16); acc.to_le(tag.data(), 16);
    return tag;
}

// ------------------------------------------------------------------ SipHash-2-4
inline void sipround(uint64_t &v0, uint64_t &v1, uint64_t &v2, uint64_t &v3) {
    v0 += v1; v1 = rotl64(v1, 13); v1 ^= v0; v0 = rotl64(v0, 32);
    v2 += v3; v3 = rotl64(v3, 16); v3 ^= v2;
    v0 += v3; v3 = rotl64(v3, 21); v3 ^= v0;
    v2 += v1; v1 = rotl64(v1, 17); v1 ^= v2; v2 = rotl64(v2, 32);
}
inline Bytes siphash24(const Bytes &msg, const Bytes &key16, size_t outlen /*8 or 16*/) {
    uint64_t k0 = ld64le(&key16[0]), k1 = ld64le(&key16[8]);
    uint64_t v0 = k0 ^ 0x736f6d6570736575ULL, v1 = k1 ^ 0x646f72616e646f6dULL, v2 = k0 ^ 0x6c7967656e657261ULL, v3 = k1 ^ 0x7465646279746573ULL;
    if (outlen == 16) v1 ^= 0xee;
    size_t n = msg.size(), full = n / 8 * 8;
    for (size_t off = 0; off < full; off += 8) { uint64_t m = ld64le(&msg[off]); v3 ^= m; sipround(v0, v1, v2, v3); sipround(v0, v1, v2, v3); v0 ^= m; }
    uint64_t b = (uint64_t) n << 56;
    for (size_t i = full; i < n; i++) b |= (uint64_t) msg[i] << (8 * (i - full));
    v3 ^= b; sipround(v0, v1, v2, v3); sipround(v0, v1, v2, v3); v0 ^= b;
    v2 ^= (outlen == 16) ? 0xee : 0xff;
    for (int i = 0; i < 4; i++) sipround(v0, v1, v2, v3);
    Bytes out(outlen);
    st64le(&out[0], v0 ^ v1 ^ v2 ^ v3);
    if (outlen == 16) {
        v1 ^= 0xdd;
        for (int i = 0; i < 4; i++) sipround(v0, v1, v2, v3);
        st64le(&out[8], v0 ^ v1 ^ v2 ^ v3);
    }
    return out;
}

inline int selftest_poly1305() {
    T t("poly1305");
    // RFC 8439 2.5.2
    t.eqh("rfc8439 2.5.2", poly1305(str("Cryptographic Forum Research Group"), from_hex("85d6be7857556d337f4452fe42d506a80103808afb0db2fd4abff6af4149f51b")), "a8061dc1305136c6c22b8baf0c0127a9");
    // RFC 8439 A.3 vectors 1, 5..11 (carry and wrap-around cases)
    t.eqh("A.3 #1", poly1305(Bytes(64, 0), Bytes(32, 0)), "00000000000000000000000000000000");
    t.eqh("A.3 #5", poly1305(Bytes(16, 0xff), from_hex("0200000000000000000000000000000000000000000000000000000000000000")), "03000000000000000000000000000000");
    t.eqh("A.3 #6", poly1305(from_hex("02000000000000000000000000000000"), from_hex("02000000000000000000000000000000ffffffffffffffffffffffffffffffff")), "03000000000000000000000000000000");
    t.eqh("A.3 #7", poly1305(from_hex("fffffffffffffffffffffffffffffffff0ffffffffffffffffffffffffffffff11000000000000000000000000000000"),
                             from_hex("0100000000000000000000000000000000000000000000000000000000000000")), "05000000000000000000000000000000");
    t.eqh("A.3 #8", poly1305(from_hex("fffffffffffffffffffffffffffffffffbfefefefefefefefefefefefefefefe01010101010101010101010101010101"),
                             from_hex("0100000000000000000000000000000000000000000000000000000000000000")), "00000000000000000000000000000000");
    t.eqh("A.3 #9", poly1305(from_hex("fdffffffffffffffffffffffffffffff"), from_hex("0200000000000000000000000000000000000000000000000000000000000000")), "faffffffffffffffffffffffffffffff");
    t.eqh("A.3 #10", poly1305(from_hex("e33594d7505e43b900000000000000003394d7505e4379cd01000000000000000000000000000000000000000000000001000000000000000000000000000000"),
                              from_hex("0100000000000000040000000000000000000000000000000000000000000000")), "14000000000000005500000000000000");
    t.eqh("A.3 #11", poly1305(from_hex("e33594d7505e43b900000000000000003394d7505e4379cd010000000000000000000000000000000000000000000000"),
                              from_hex("0100000000000000040000000000000000000000000000000000000000000000")), "13000000000000000000000000000000");
    // SipHash-2-4 paper vector: key 00..0f, input 00..0e
    {
        Bytes k(16), m(15); for (int i = 0; i < 16; i++) k[i] = (uint8_t) i; for (int i = 0; i < 15; i++) m[i] = (uint8_t) i;
        t.eqh("siphash paper", siphash24(m, k, 8), "e545be4961ca29a1");
        // reference implementation vectors_sip64[0] (empty input) and vectors_sip128[0]
        t.eqh("sip64 empty", siphash24(Bytes(), k, 8), "310e0edd47db6f72");
        t.eqh("sip128 empty", siphash24(Bytes(), k, 16), "a3817f04ba25a8e66df67214c7550293");
    }
    return t.fails;
}

}  // namespace ref
