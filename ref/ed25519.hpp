// ref/ed25519.hpp -- the edwards25519 group and Ed25519 / Ed25519ph, from RFC 8032 section 5.1, on top of U / fp_*.
//
// Points are AFFINE (x, y) with the neutral element (0, 1). pt_add is the textbook twisted Edwards addition law
// (RFC 8032 section 5.1.4, first display) with one field inversion per coordinate -- slow but obviously right, and
// complete for a = -1, d non-square, i.e. valid for ALL pairs of curve points including small-order ones.
// pt_mul runs double-and-add in the extended homogeneous coordinates of RFC 8032 section 5.1.4 (also complete) and
// converts back to affine; the self-test cross-checks it against the affine law.
#pragma once
#include "bigint.hpp"
#include "sha2.hpp"

namespace ref {

// ---------------------------------------------------------------- curve constants
// d = -121665/121666 (RFC 8032 section 5.1)
inline const U &ED_D() {
    static const U d = fp_mul(fp_neg(U(121665)), fp_inv(U(121666)));
    return d;
}

struct Pt {
    U x, y;
    Pt() : x(0), y(1) {}  // neutral element
    Pt(const U &x_, const U &y_) : x(x_), y(y_) {}
};

inline Pt pt_identity() { return Pt(); }
inline bool pt_eq(const Pt &a, const Pt &b) { return fp_eq(a.x, b.x) && fp_eq(a.y, b.y); }
inline bool pt_is_identity(const Pt &a) { return pt_eq(a, Pt()); }
inline Pt pt_neg(const Pt &a) { return Pt(fp_neg(a.x), fp_red(a.y)); }

// -x^2 + y^2 = 1 + d x^2 y^2
inline bool pt_on_curve(const Pt &p) {
    U xx = fp_sq(p.x), yy = fp_sq(p.y);
    return fp_eq(fp_sub(yy, xx), fp_add(U(1), fp_mul(ED_D(), fp_mul(xx, yy))));
}

// Affine addition law:
//   x3 = (x1*y2 + x2*y1) / (1 + d*x1*x2*y1*y2),   y3 = (y1*y2 + x1*x2) / (1 - d*x1*x2*y1*y2)
// The denominators are never zero for points on the curve.
inline Pt pt_add(const Pt &p, const Pt &q) {
    U x1y2 = fp_mul(p.x, q.y), x2y1 = fp_mul(q.x, p.y), y1y2 = fp_mul(p.y, q.y), x1x2 = fp_mul(p.x, q.x);
    U dxxyy = fp_mul(ED_D(), fp_mul(x1x2, y1y2));
    U den_x = fp_add(U(1), dxxyy), den_y = fp_sub(U(1), dxxyy);
    U inv = fp_inv(fp_mul(den_x, den_y));  // one shared inversion: 1/den_x = den_y * inv, 1/den_y = den_x * inv
    U x3 = fp_mul(fp_add(x1y2, x2y1), fp_mul(den_y, inv));
    U y3 = fp_mul(fp_add(y1y2, x1x2), fp_mul(den_x, inv));
    return Pt(x3, y3);
}
inline Pt pt_double(const Pt &p) { return pt_add(p, p); }
inline Pt pt_sub(const Pt &p, const Pt &q) { return pt_add(p, pt_neg(q)); }

// Extended homogeneous coordinates (X : Y : Z : T), x = X/Z, y = Y/Z, x*y = T/Z  (RFC 8032 section 5.1.4).
struct PtExt {
    U X, Y, Z, T;
};
inline PtExt ext_from_affine(const Pt &p) { return PtExt{ fp_red(p.x), fp_red(p.y), U(1), fp_mul(p.x, p.y) }; }
inline Pt ext_to_affine(const PtExt &e) {
    U zi = fp_inv(e.Z);
    return Pt(fp_mul(e.X, zi), fp_mul(e.Y, zi));
}
inline PtExt ext_add(const PtExt &p, const PtExt &q) {  // RFC 8032 section 5.1.4, "add"
    U A = fp_mul(fp_sub(p.Y, p.X), fp_sub(q.Y, q.X));
    U B = fp_mul(fp_add(p.Y, p.X), fp_add(q.Y, q.X));
    U C = fp_mul(fp_mul(p.T, fp_mul(U(2), ED_D())), q.T);
    U D = fp_mul(fp_mul(p.Z, U(2)), q.Z);
    U E = fp_sub(B, A), F = fp_sub(D, C), G = fp_add(D, C), H = fp_add(B, A);
    return PtExt{ fp_mul(E, F), fp_mul(G, H), fp_mul(F, G), fp_mul(E, H) };
}
inline PtExt ext_double(const PtExt &p) {  // RFC 8032 section 5.1.4, "double"
    U A = fp_sq(p.X), B = fp_sq(p.Y), C = fp_mul(U(2), fp_sq(p.Z));
    U H = fp_add(A, B);
    U E = fp_sub(H, fp_sq(fp_add(p.X, p.Y)));
    U G = fp_sub(A, B);
    U F = fp_add(C, G);
    return PtExt{ fp_mul(E, F), fp_mul(G, H), fp_mul(F, G), fp_mul(E, H) };
}

// k * P for any non-negative integer k (no reduction of k is performed, so k >= L or k >= 8L is fine).
inline Pt pt_mul(const U &k, const Pt &p) {
    PtExt acc = ext_from_affine(Pt());
    PtExt base = ext_from_affine(p);
    for (int i = u_bitlen(k) - 1; i >= 0; i--) {
        acc = ext_double(acc);
        if (u_bit(k, i)) acc = ext_add(acc, base);
    }
    return ext_to_affine(acc);
}
// The same, in affine coordinates only (very slow; used as a cross-check of pt_mul).
inline Pt pt_mul_affine(const U &k, const Pt &p) {
    Pt acc;
    for (int i = u_bitlen(k) - 1; i >= 0; i--) {
        acc = pt_double(acc);
        if (u_bit(k, i)) acc = pt_add(acc, p);
    }
    return acc;
}

// ---------------------------------------------------------------- encoding / decoding (RFC 8032 sections 5.1.2, 5.1.3)
inline Bytes pt_encode(const Pt &p) {
    Bytes out = u_to_le(fp_red(p.y), 32);
    if (fp_is_odd(p.x)) out[31] |= 0x80;
    return out;
}

// Result of a LENIENT decoding that records every way in which the input deviates from RFC 8032 section 5.1.3.
struct Dec {
    bool len_ok = false;          // input was 32 bytes
    bool ok_lenient = false;      // a curve point was recovered after reducing y mod p and ignoring the "x = 0 with sign bit" rule
    bool y_noncanonical = false;  // (a) the low 255 bits, as an integer, are >= p (RFC 8032: decoding fails)
    bool neg_zero = false;        // (b) x = 0 but the sign bit is 1 (RFC 8032: decoding fails); p.x is 0 in that case
    bool on_curve = false;        // NOT (c): (y^2-1)/(d y^2+1) has a square root, for y taken mod p
    bool sign = false;            // bit 255 of the input
    Pt p;                         // the recovered point when ok_lenient (identity otherwise)
    bool ok_strict() const { return ok_lenient && !y_noncanonical && !neg_zero; }  // RFC 8032 section 5.1.3 verdict
};

inline Dec pt_decode_ex(const Bytes &enc32) {
    Dec r;
    if (enc32.size() != 32) return r;
    r.len_ok = true;
    r.sign = (enc32[31] & 0x80) != 0;
    Bytes yb = enc32;
    yb[31] &= 0x7f;
    U y_raw = u_from_le(yb);
    r.y_noncanonical = u_cmp(y_raw, P25519()) >= 0;
    U y = fp_red(y_raw);
    // x^2 = (y^2 - 1) / (d y^2 + 1). The denominator is never 0 because -1/d is not a square.
    U yy = fp_sq(y);
    U u = fp_sub(yy, U(1)), v = fp_add(fp_mul(ED_D(), yy), U(1));
    U x2 = fp_mul(u, fp_inv(v));
    U x;
    if (!fp_sqrt(x2, x)) return r;  // (c): not on the curve
    r.on_curve = true;
    if (u_is_zero(x)) {
        if (r.sign) r.neg_zero = true;  // RFC 8032: "If x = 0, and x_0 = 1, decoding fails."  Lenient: keep x = 0.
    } else if (fp_is_odd(x) != r.sign) {
        x = fp_neg(x);
    }
    r.p = Pt(x, y);
    r.ok_lenient = true;
    return r;
}

// Lenient decode: returns true iff a curve point was recovered (see Dec::ok_lenient);
// canonical is false if y >= p was reduced or if the encoding was a "negative zero" (x = 0, sign bit 1).
// A strict RFC 8032 decoder is  pt_decode(...) && canonical  (== pt_decode_strict).
inline bool pt_decode(const Bytes &enc32, Pt &out, bool &canonical) {
    Dec d = pt_decode_ex(enc32);
    canonical = d.len_ok && !d.y_noncanonical && !d.neg_zero;
    out = d.p;
    return d.ok_lenient;
}
inline bool pt_decode_strict(const Bytes &enc32, Pt &out) {
    Dec d = pt_decode_ex(enc32);
    out = d.p;
    return d.ok_strict();
}

// Base point B = (x, 4/5) with x "positive" i.e. even (RFC 8032 section 5.1).
inline const Pt &ED_B() {
    static const Pt b = [] {
        Pt p;
        bool canon;
        pt_decode(u_to_le(fp_mul(U(4), fp_inv(U(5))), 32), p, canon);  // sign bit 0
        return p;
    }();
    return b;
}

// ---------------------------------------------------------------- order helpers
inline bool pt_has_small_order(const Pt &p) { return pt_is_identity(pt_mul(U(8), p)); }         // 8*P == 0
inline bool pt_in_prime_subgroup(const Pt &p) { return pt_is_identity(pt_mul(L25519(), p)); }   // L*P == 0
// Order of the torsion component of P, i.e. the order of L*P: 1, 2, 4 or 8.
inline int pt_torsion_order(const Pt &p) {
    Pt t = pt_mul(L25519(), p);
    int ord = 1;
    while (!pt_is_identity(t) && ord < 8) { t = pt_double(t); ord *= 2; }
    return ord;
}
// Classifies the order of a curve point. The group is Z/8 x Z/L, so the order is t or t*L with t in {1,2,4,8}.
// Returns t (1, 2, 4, 8) for the small-order points and 100 + t (101 = order L, 102 = 2L, 104 = 4L, 108 = 8L) otherwise.
inline int pt_order_class(const Pt &p) {
    int t = pt_torsion_order(p);
    return pt_has_small_order(p) ? t : 100 + t;
}

// The 8 torsion points, as [0*T, 1*T, ..., 7*T] for a generator T of the 8-torsion subgroup (so index 0 is the
// identity, index 4 is (0,-1), indexes 2 and 6 have order 4, odd indexes have order 8).
// T is found as L * Q for the first decodable y = 2, 3, ... such that L * Q has exact order 8.
inline const std::vector<Pt> &torsion_points() {
    static const std::vector<Pt> pts = [] {
        std::vector<Pt> v;
        Pt t8;
        for (uint64_t y = 2; y < 1000; y++) {
            Pt q;
            bool canon;
            if (!pt_decode(u_to_le(U(y), 32), q, canon)) continue;
            Pt c = pt_mul(L25519(), q);
            if (!pt_is_identity(pt_mul(U(4), c)) && pt_is_identity(pt_mul(U(8), c))) { t8 = c; break; }
        }
        Pt acc;
        for (int i = 0; i < 8; i++) { v.push_back(acc); acc = pt_add(acc, t8); }
        return v;
    }();
    return pts;
}

// ---------------------------------------------------------------- scalars (integers modulo L)
inline U sc_from_bytes(const Bytes &b) { return u_from_le(b); }  // little-endian, any length up to 64 (80) bytes
inline U sc_reduce(const U &s) { return u_mod(s, L25519()); }
inline Bytes sc_to_bytes32(const U &s) { return u_to_le(s, 32); }  // caller reduces first if a canonical value is wanted
inline bool sc_is_canonical(const Bytes &s32) { return s32.size() == 32 && u_cmp(u_from_le(s32), L25519()) < 0; }
inline U sc_add(const U &a, const U &b) { return u_addmod(a, b, L25519()); }
inline U sc_sub(const U &a, const U &b) { return u_submod(a, b, L25519()); }
inline U sc_mul(const U &a, const U &b) { return u_mulmod(a, b, L25519()); }
inline U sc_neg(const U &a) { return u_submod(U(0), a, L25519()); }
inline U sc_inv(const U &a) { return u_invmod_prime(a, L25519()); }  // 0 -> 0

// RFC 8032 section 5.1.5 step 2 ("pruning"): identical to the X25519 clamp.
inline Bytes ed25519_clamp(const Bytes &h32) {
    Bytes k = h32;
    if (k.size() != 32) return k;
    k[0] &= 248;
    k[31] &= 127;
    k[31] |= 64;
    return k;
}

// ---------------------------------------------------------------- Ed25519 (RFC 8032 sections 5.1.5 - 5.1.7)
// dom2(F, C) = "SigEd25519 no Ed25519 collisions" || octet(F) || octet(OLEN(C)) || C   (RFC 8032 section 2);
// for pure Ed25519 dom2 is the empty string.
inline Bytes ed25519_dom2(bool prehashed, const Bytes &ctx = Bytes()) {
    if (!prehashed) return Bytes();
    Bytes d = str("SigEd25519 no Ed25519 collisions");
    d.push_back(1);
    d.push_back((uint8_t) ctx.size());
    return cat(d, ctx);
}

// Key generation, RFC 8032 section 5.1.5. sk64 = seed || pk (the libsodium / NaCl secret-key layout).
inline void ed25519_seed_keypair(const Bytes &seed32, Bytes &pk32, Bytes &sk64) {
    Bytes h = sha512(seed32);
    U a = u_from_le(ed25519_clamp(sub(h, 0, 32)));
    pk32 = pt_encode(pt_mul(a, ED_B()));
    sk64 = cat(seed32, pk32);
}

// Signing, RFC 8032 section 5.1.6. `sk` is either the 32-byte seed (the public key is then derived) or the 64-byte
// seed || pk, in which case the GIVEN pk bytes are hashed as A (this is the NaCl/libsodium convention and coincides
// with the RFC whenever pk really is the public key of seed). Returns R || S, or an empty string on a bad sk length.
inline Bytes ed25519_sign_generic(const Bytes &msg, const Bytes &sk, bool prehashed, const Bytes &ctx = Bytes()) {
    if (sk.size() != 32 && sk.size() != 64) return Bytes();
    Bytes seed = sub(sk, 0, 32);
    Bytes h = sha512(seed);
    U a = u_from_le(ed25519_clamp(sub(h, 0, 32)));
    Bytes prefix = sub(h, 32, 32);
    Bytes A = sk.size() == 64 ? sub(sk, 32, 32) : pt_encode(pt_mul(a, ED_B()));
    Bytes dom = ed25519_dom2(prehashed, ctx);
    Bytes M = prehashed ? sha512(msg) : msg;  // PH(M) = SHA-512(M) for Ed25519ph, identity otherwise
    U r = sc_reduce(u_from_le(sha512(cat(cat(dom, prefix), M))));
    Bytes R = pt_encode(pt_mul(r, ED_B()));
    U k = sc_reduce(u_from_le(sha512(cat(cat(dom, R), cat(A, M)))));
    U S = sc_add(r, sc_mul(k, a));
    return cat(R, sc_to_bytes32(S));
}
inline Bytes ed25519_sign(const Bytes &msg, const Bytes &sk64) { return ed25519_sign_generic(msg, sk64, false); }
// Ed25519ph with an empty context: dom2(1, "") = "SigEd25519 no Ed25519 collisions" || 0x01 || 0x00, PH = SHA-512.
inline Bytes ed25519ph_sign(const Bytes &msg, const Bytes &sk64) { return ed25519_sign_generic(msg, sk64, true); }

// Everything a verifier could possibly look at (RFC 8032 section 5.1.7), so that the caller can express any
// verification policy (strict / cofactored / cofactorless / small-order rejection) as a predicate over it.
struct VerifyInfo {
    bool len_ok = false;          // sig is 64 bytes and pk is 32 bytes (all other fields are false otherwise)
    bool s_canonical = false;     // S < L
    bool pk_canonical = false;    // low 255 bits of pk, as an integer, are < p   (says nothing about neg_zero)
    bool pk_neg_zero = false;     // pk decodes to x = 0 but has the sign bit set
    bool pk_decodes = false;      // lenient decode (y reduced mod p, neg-zero tolerated) found a curve point
    bool pk_small_order = false;  // pk_decodes and 8*A == identity
    bool r_canonical = false;     // same four for R
    bool r_neg_zero = false;
    bool r_decodes = false;
    bool r_small_order = false;
    bool cofactored_eq = false;   // pk_decodes && r_decodes && 8*(S*B - R - h*A) == identity
    bool cofactorless_eq = false; // pk_decodes && r_decodes && S*B == R + h*A
    U h;                          // SHA-512(dom2 || R_bytes || pk_bytes || PH(M)) mod L, from the bytes AS GIVEN
};

// `msg` is always the message itself; with prehashed = true it is hashed here (PH(M) = SHA-512(M)), context empty.
// S is used as the full 256-bit integer given (no reduction), so S and S + L behave identically in the equations.
inline VerifyInfo ed25519_verify_info(const Bytes &sig64, const Bytes &msg, const Bytes &pk32, bool prehashed = false) {
    VerifyInfo vi;
    if (sig64.size() != 64 || pk32.size() != 32) return vi;
    vi.len_ok = true;
    Bytes Rb = sub(sig64, 0, 32), Sb = sub(sig64, 32, 32);
    vi.s_canonical = sc_is_canonical(Sb);
    Dec da = pt_decode_ex(pk32), dr = pt_decode_ex(Rb);
    vi.pk_canonical = !da.y_noncanonical;
    vi.pk_neg_zero = da.neg_zero;
    vi.pk_decodes = da.ok_lenient;
    vi.pk_small_order = da.ok_lenient && pt_has_small_order(da.p);
    vi.r_canonical = !dr.y_noncanonical;
    vi.r_neg_zero = dr.neg_zero;
    vi.r_decodes = dr.ok_lenient;
    vi.r_small_order = dr.ok_lenient && pt_has_small_order(dr.p);
    Bytes M = prehashed ? sha512(msg) : msg;
    vi.h = sc_reduce(u_from_le(sha512(cat(cat(ed25519_dom2(prehashed), Rb), cat(pk32, M)))));
    if (da.ok_lenient && dr.ok_lenient) {
        Pt sB = pt_mul(u_from_le(Sb), ED_B());
        Pt rhs = pt_add(dr.p, pt_mul(vi.h, da.p));
        vi.cofactorless_eq = pt_eq(sB, rhs);
        vi.cofactored_eq = pt_is_identity(pt_mul(U(8), pt_sub(sB, rhs)));
    }
    return vi;
}

// ---------------------------------------------------------------- Ed25519 <-> X25519 key conversion
// Birational map of RFC 7748 section 4.1: u = (1 + y) / (1 - y). Uses the lenient decoding; fails (returns false)
// only if pk does not decode to a curve point. For y = 1 (the identity) the division by zero yields u = 0.
inline bool ed25519_pk_to_x25519(const Bytes &pk32, Bytes &out32) {
    Dec d = pt_decode_ex(pk32);
    out32 = Bytes(32, 0);
    if (!d.ok_lenient) return false;
    U u = fp_mul(fp_add(U(1), d.p.y), fp_inv(fp_sub(U(1), d.p.y)));
    out32 = u_to_le(u, 32);
    return true;
}
// clamp(SHA-512(seed)[0..32)) -- the secret scalar of RFC 8032 section 5.1.5, which is a valid X25519 private key.
// Accepts the 64-byte seed || pk form (only the first 32 bytes are used) or the bare 32-byte seed.
inline Bytes ed25519_sk_to_x25519(const Bytes &sk64_or_seed32) {
    if (sk64_or_seed32.size() < 32) return Bytes();
    return ed25519_clamp(sub(sha512(sub(sk64_or_seed32, 0, 32)), 0, 32));
}

}  // namespace ref
